"""Independent reference for the chi-square survival function used by the C07 monitor.

log10 of Q(df/2, x/2) from the *finite* closed forms for integer degrees of freedom
  df = 2k   : Q = exp(-y) * sum_{j=0}^{k-1} y^j / j!                    (y = x/2)
  df = 2k+1 : Q = erfc(sqrt(y)) + exp(-y) * sum_{j=1}^{k} y^(j-1/2) / Gamma(j+1/2)
evaluated with log-sum-exp (all terms positive, no cancellation).  The harness (w_c07.cc) uses a
series / continued-fraction evaluation instead; props/c07.py compares the two for every table.
"""
import math


def _logsumexp(ls):
    m = max(ls)
    if m == float("-inf"):
        return m
    return m + math.log(sum(math.exp(l - m) for l in ls))


def _log_erfc(z):
    if z < 25.0:
        v = math.erfc(z)
        if v > 0.0:
            return math.log(v)
    # asymptotic expansion erfc(z) ~ exp(-z^2)/(z sqrt(pi)) * (1 - 1/(2z^2) + 3/(4z^4) - 15/(8z^6))
    z2 = z * z
    return -z2 - math.log(z * math.sqrt(math.pi)) + math.log(1.0 - 1.0 / (2 * z2) + 3.0 / (4 * z2 * z2) - 15.0 / (8 * z2 ** 3))


def log10_chi2_sf(x, df):
    """log10 P[chi2_df >= x] for integer df >= 1"""
    if x <= 0:
        return 0.0
    df = int(df)
    y = x / 2.0
    ly = math.log(y)
    terms = []
    if df % 2 == 0:
        k = df // 2
        # only terms near the maximum matter; summing all k terms is cheap enough (k <= ~33000)
        for j in range(k):
            terms.append(-y + j * ly - math.lgamma(j + 1.0))
    else:
        k = (df - 1) // 2
        terms.append(_log_erfc(math.sqrt(y)))
        for j in range(1, k + 1):
            terms.append(-y + (j - 0.5) * ly - math.lgamma(j + 0.5))
    l = _logsumexp(terms)
    return min(0.0, l / math.log(10.0))


if __name__ == "__main__":
    # spot values: chi2 sf(3.841, 1) = 0.05 ; sf(18.307, 10) = 0.05 ; sf(124.342, 100) = 0.05
    for x, df in ((3.841458821, 1), (18.30703805, 10), (124.3421134, 100), (200.0, 5), (1000.0, 720)):
        print(x, df, log10_chi2_sf(x, df))
