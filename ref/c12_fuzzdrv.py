#!/usr/bin/env python3
"""C12 libFuzzer driver: speaks the harness protocol of harness/vf.hh so that the crash-isolating
runner (lib/vf/runner.py) can merge it like any other stage.

  one shard  = one fuzz target (shard i of n drives target i of --opt targets=a,b,c)
  one case   = the whole run budget of that target (case number = shard number)
  triage loop: libFuzzer stops at the first crash; the artifact is re-run alone, keyed by
  (sanitizer kind, innermost two library functions) with the same function the runner uses for
  dead workers (runner.crash_key), reported as a violation, and the fuzzer is restarted with the
  next derived seed and the grown corpus until the budget is used (at most --opt maxcrash restarts).

options (--opt k=v): targets, bin_<target>=<path>, runs, seeds=<dir of w_c12 --opt dump>, maxlen,
                     maxcrash, timeout (libFuzzer per-input timeout, seconds)
"""
import json
import os
import re
import shutil
import subprocess
import sys
import threading
import time

HERE = os.path.dirname(os.path.abspath(__file__))
sys.path.insert(0, os.path.join(os.path.dirname(HERE), "lib"))
from vf import runner  # noqa: E402

SEED_GLOBS = {   # which dumped seeds (group dir, file name prefix) feed which target
    "pkt": [("pgp", "pgp_PacketDecode__"), ("pgp", "pgp_SubpacketDecode__"), ("pgp", "pgp_ArmorDecode__")],
    "blk": [("pgp", "pgp_PublicKeyBlockParse"), ("pgp", "pgp_PrivateKeyBlockParse"), ("pgp", "pgp_PublicKeyringParse")],
    "msg": [("pgp", "pgp_MessageParse")],
    "sig": [("pgp", "pgp_SignatureParse")],
    "imp": [("import", "")],
    "key": [("key", "")],
    "grp": [("ctor", "")],
}
# seeds whose processing is dominated by string-to-key hashing / size (they stay in the mutator workload)
SLOW_SEEDS = ("rsa_pw", "partial")

FZ_ENV = {
    "ASAN_OPTIONS": "abort_on_error=0:detect_leaks=0:allocator_may_return_null=1:max_allocation_size_mb=3072:"
                    "handle_sigfpe=1:malloc_context_size=8",
    "UBSAN_OPTIONS": "print_stacktrace=1:halt_on_error=0",
}


def fuzz_key(text, rc):
    """stable key of one artifact replay (stderr of the target run on that single input)"""
    if "ERROR: AddressSanitizer" in text:
        return runner.crash_key(text, rc if rc else 1)
    m = re.search(r"ERROR: libFuzzer: ([a-z-]+(?: signal)?)", text)
    if m:   # deadly signal (abort/assert outside the sanitizers), timeout, out-of-memory
        a = re.search(r"Assertion `(.+?)' failed", text)
        if a:
            return runner.crash_key(text, rc if rc else 1)
        kind = m.group(1).replace(" ", "-")
        f = re.search(r"Fatal error: ([^\n]+)", text)
        if f:
            kind += "(" + re.sub(r"[^A-Za-z]+", "-", f.group(1)).strip("-")[:30] + ")"
        fr = runner._demangle_first_lib_frame(text[m.start():])
        return "fuzz/%s/%s" % (kind, "/".join(fr[:2]) if fr else "?")
    return runner.crash_key(text, rc if rc else 1)


def parse_stats(log):
    st = dict(execs=0, cov=0, ft=0, corp=0)
    m = re.search(r"stat::number_of_executed_units:\s+(\d+)", log)
    if m:
        st["execs"] = int(m.group(1))
    last = None
    for m in re.finditer(r"^#(\d+)\s+\S+\s+cov: (\d+) ft: (\d+) corp: (\d+)", log, re.M):
        last = m
    if last:
        if not st["execs"]:
            st["execs"] = int(last.group(1))
        st["cov"], st["ft"], st["corp"] = int(last.group(2)), int(last.group(3)), int(last.group(4))
    return st


def main():
    a = sys.argv[1:]
    opt = {}
    arg = dict(tier="quick", seed="1", shard="0", nshards="1", start="0", only="-1", out="-")
    i = 0
    while i < len(a):
        k = a[i]
        if k == "--opt":
            kv = a[i + 1]
            p = kv.find("=")
            opt[kv[:p]] = kv[p + 1:]
        elif k.startswith("--") and k[2:] in arg:
            arg[k[2:]] = a[i + 1]
        else:
            sys.stderr.write("unknown argument %s\n" % k)
            return 2
        i += 2
    out = sys.stdout if arg["out"] in ("-", "") else open(arg["out"], "a")
    lock = threading.Lock()

    def emit(o):
        with lock:
            out.write(json.dumps(o) + "\n")
            out.flush()

    targets = [t for t in opt.get("targets", "").split(",") if t]
    shard, nshards, start, only = int(arg["shard"]), int(arg["nshards"]), int(arg["start"]), int(arg["only"])
    seed = int(arg["seed"])
    counts = {}
    for k, t in enumerate(targets):
        if only >= 0:
            if k != only:
                continue
        elif k < start or (nshards > 1 and k % nshards != shard):
            continue
        binary = opt["bin_" + t]
        runs = int(float(opt.get("runs_" + t, opt.get("runs", "150000"))))
        maxcrash = int(opt.get("maxcrash", "12"))
        desc = json.dumps(dict(e="fuzz/" + t, runs=runs, seed=seed))
        emit(dict(t="begin", case=k, desc=desc))
        wd = os.path.abspath("fz-%s" % t)
        corpus, art = os.path.join(wd, "corpus"), os.path.join(wd, "art")
        shutil.rmtree(wd, ignore_errors=True)
        os.makedirs(corpus)
        os.makedirs(art)
        nseed = 0
        sd = opt.get("seeds", "")
        for (grp, prefix) in SEED_GLOBS.get(t, []):
            d = os.path.join(sd, grp)
            if not os.path.isdir(d):
                continue
            for f in sorted(os.listdir(d)):
                if f.startswith(prefix) and not any(s in f for s in SLOW_SEEDS):
                    shutil.copy(os.path.join(d, f), os.path.join(corpus, f))
                    nseed += 1
        env = dict(os.environ)
        env.update(FZ_ENV)
        env["C12_CTX_DIR"] = sd
        done, nrun, crashes, stats, keys = 0, 0, 0, dict(cov=0, ft=0, corp=0), []
        t0 = time.time()
        stop = threading.Event()

        def beat():
            while not stop.wait(15):
                emit(dict(t="note", case=k, alive=round(time.time() - t0)))
        hb = threading.Thread(target=beat, daemon=True)
        hb.start()
        while done < runs and crashes <= maxcrash:
            nrun += 1
            logp = os.path.join(wd, "log.%d.txt" % nrun)
            cmd = [binary, "-runs=%d" % (runs - done), "-seed=%d" % (seed * 1000 + nrun), "-max_len=%s" % opt.get("maxlen", "2048"),
                   "-rss_limit_mb=4096", "-malloc_limit_mb=3072", "-timeout=%s" % opt.get("timeout", "120"),
                   "-artifact_prefix=" + art + "/", "-print_final_stats=1", "-verbosity=1", corpus]
            with open(logp, "wb") as lf:
                rc = subprocess.run(cmd, stdout=lf, stderr=subprocess.STDOUT, env=env, cwd=wd).returncode
            with open(logp, errors="replace") as lf:
                log = lf.read()
            st = parse_stats(log)
            done += max(st["execs"], 1)
            for kk in ("cov", "ft", "corp"):
                stats[kk] = max(stats[kk], st[kk])
            for w, n in runner.count_ubsan_observations(log).items():
                counts["ubsan_obs." + w] = counts.get("ubsan_obs." + w, 0) + n
            arts = [f for f in sorted(os.listdir(art)) if not f.startswith("slow-unit") and not f.endswith(".done")]
            if rc == 0 and not arts:
                continue
            if not arts:   # died without artifact: report the log tail
                crashes += 1
                emit(dict(t="viol", case=k, key="C12/" + fuzz_key(log[-20000:], rc), what="fuzz target %s died without artifact (rc=%s)" % (t, rc),
                          witness=dict(target=t, log_tail=log[-3000:])))
                continue
            for f in arts:
                crashes += 1
                p = os.path.join(art, f)
                with open(p, "rb") as fh:
                    data = fh.read()
                r = subprocess.run([binary, "-timeout=%s" % opt.get("timeout", "120"), "-rss_limit_mb=4096", "-malloc_limit_mb=3072", p], stdout=subprocess.PIPE, stderr=subprocess.STDOUT, env=env, cwd=wd)
                txt = r.stdout.decode(errors="replace")
                if r.returncode == 0:
                    key = "fuzz/not-reproduced/" + f.split("-")[0]
                else:
                    key = fuzz_key(txt, r.returncode)
                keys.append(key)
                m = re.search(r"(ERROR: (?:AddressSanitizer|libFuzzer)|runtime error)[^\n]*\n(?:.*\n){0,14}", txt)
                emit(dict(t="viol", case=k, key="C12/" + key, what="libFuzzer target %s: %s reproduced on the single input %s" % (t, f.split("-")[0], f),
                          witness=dict(target=t, artifact=p, input_hex=data[:4096].hex(), input_len=len(data), report=(m.group(0) if m else txt[-2500:])[:2500],
                                       after_execs=done)))
                os.rename(p, p + ".done")     # keep it, but do not count it again
                # the crashing input must not block the next round: it is not in the corpus (libFuzzer does not add it)
        stop.set()
        counts["fuzz_execs"] = counts.get("fuzz_execs", 0) + done
        counts["fuzz_crash_artifacts"] = counts.get("fuzz_crash_artifacts", 0) + crashes
        for kk, vv in (("execs", done), ("cov", stats["cov"]), ("features", stats["ft"]), ("corpus", stats["corp"]), ("seed_inputs", nseed), ("restarts", nrun), ("wall_s", int(time.time() - t0))):
            counts["fz.%s.%s" % (t, kk)] = vv
        sample = dict(entry="fuzz/" + t, executions=done, coverage_edges=stats["cov"], features=stats["ft"], corpus=stats["corp"], seed_inputs=nseed,
                      crash_keys=sorted(set(keys)))
        emit(dict(t="end", case=k, key="fuzz-%s-%d" % (t, seed), nt=done > 0 and stats["cov"] > 0, evals=done, distinct=max(stats["corp"], 1), sample=sample))
    emit(dict(t="count", counts=counts))
    emit(dict(t="done"))
    return 0


if __name__ == "__main__":
    sys.exit(main())
