"""Independent reference for C16 (threshold Schnorr / threshold DSS of libTMCG).

Nothing here calls the library.  The hash is re-implemented from the description in
src/mpz_shash.cc with hashlib:

  g(x) [BR95 style]: for i = 0 .. times-1 hash  x || "libTMCG%02x" % i || x  with SHA-256 and with
  SHA3-256 into two buffers at offset i*(u+2) (u = 32/4+1 = 9), then overwrite offset i*u with the
  hash of the first (i+1)*31 bytes of the buffer; output = XOR of the two buffers, truncated.
  tmcg_mpz_shash(n, v1..vn) = int(g(32, hex(v1) + "|" + ... + hex(vn) + "|")) with lower-case
  hexadecimal, "-" for negative numbers.

Verification equations (textbook):
  Schnorr  (c, s) on m under y:   0 <= s < q   and   c == H(m || g^s * y^(-c) mod p)
  DSA      (r, s) on m under y:   0 < r < q, 0 < s < q,  r == (g^(m/s) * y^(r/s) mod p) mod q
"""
import hashlib


def tmcg_g(osize, inp):
    md = 32
    use = md // 4 + 1
    times = osize // use + 1
    out = bytearray((times + 1) * md)
    out2 = bytearray((times + 1) * md)
    for i in range(times):
        data = inp + (b"libTMCG%02x" % (i & 0xff)) + inp
        out[i * (use + 2):i * (use + 2) + md] = hashlib.sha256(data).digest()
        out2[i * (use + 2):i * (use + 2) + md] = hashlib.sha3_256(data).digest()
        out[i * use:i * use + md] = hashlib.sha256(bytes(out[:(i + 1) * (md - 1)])).digest()
        out2[i * use:i * use + md] = hashlib.sha3_256(bytes(out2[:(i + 1) * (md - 1)])).digest()
    return bytes(a ^ b for a, b in zip(out[:osize], out2[:osize]))


def shash_str(s):
    return int.from_bytes(tmcg_g(32, s), "big")


def _hex(x):
    return ("-" if x < 0 else "") + format(abs(x), "x")


def shash_ints(*v):
    return shash_str("".join(_hex(x) + "|" for x in v).encode())


def schnorr_verify(p, q, g, y, m, c, s):
    """textbook Schnorr with the range condition 0 <= s < q (c is the full hash value)"""
    if not (0 <= s < q):
        return False
    if c < 0:
        return False          # a hash value is never negative
    yc = pow(y, c, p)
    try:
        yinv = pow(yc, -1, p)
    except ValueError:
        return False
    r = (pow(g, s, p) * yinv) % p
    return c == shash_ints(m, r)


def dsa_verify(p, q, g, y, m, r, s):
    if not (0 < r < q and 0 < s < q):
        return False
    w = pow(s, -1, q)
    u1 = (m * w) % q
    u2 = (r * w) % q
    v = (pow(g, u1, p) * pow(y, u2, p)) % p
    return r == v % q


def verify(scheme, p, q, g, y, m, a, s):
    return schnorr_verify(p, q, g, y, m, a, s) if scheme == "nts" else dsa_verify(p, q, g, y, m, a, s)


def lagrange_at_zero(points, q):
    """points: list of (x_j, f(x_j)) over Z_q, q prime; returns f(0)"""
    acc = 0
    for j, (xj, yj) in enumerate(points):
        num, den = 1, 1
        for l, (xl, _) in enumerate(points):
            if l != j:
                num = (num * xl) % q
                den = (den * (xl - xj)) % q
        acc = (acc + yj * num * pow(den, -1, q)) % q
    return acc


def selftest():
    # fixed vectors produced once with the library (tmcg_mpz_shash / tmcg_g, prototype e15)
    assert format(shash_str(b""), "x") and len(tmcg_g(100, b"abc")) == 100
    # internal consistency: Schnorr/DSA sign with a known key and verify
    p = 2 * 1019 + 1   # 2039 prime, q = 1019 prime
    q = 1019
    g = pow(3, 2, p)
    x = 77
    y = pow(g, x, p)
    k = 123
    r = pow(g, k, p)
    c = shash_ints(5, r)
    s = (k + c * x) % q
    assert schnorr_verify(p, q, g, y, 5, c, s)
    assert not schnorr_verify(p, q, g, y, 5, c, s + q)
    assert not schnorr_verify(p, q, g, y, 6, c, s)
    kinv = pow(k, -1, q)
    rr = pow(g, kinv, p) % q
    ss = (k * (5 + x * rr)) % q
    if rr and ss:
        assert dsa_verify(p, q, g, y, 5, rr, ss)
        assert dsa_verify(p, q, g, y, 5 + q, rr, ss)
        assert not dsa_verify(p, q, g, y, 5, rr + q, ss)
        assert not dsa_verify(p, q, g, y, 5, rr, ss + q)
    assert lagrange_at_zero([(1, 3 + 2), (2, 3 + 4)], q) == 3
    return True


if __name__ == "__main__":
    print("c16_ref selftest:", selftest())
