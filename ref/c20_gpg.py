"""C20 second judge: GnuPG 2.2 on artefacts the library produced (RFC 4880 subset).

The harness writes key blocks, detached signatures, documents and SEIPD messages below
<shard dir>/c20gpg/ and emits records
  {"k":"gpgkey","dir","file","key"}
  {"k":"gpgverify","dir","sig","data","keyfile","key","pkalgo","hash","type","form","judge","time"}
  {"k":"gpgimport","dir","file","primary","subkey","hash","time"}
  {"k":"gpgdecrypt","dir","msg","data","seskey","esk"}
judge(recs) runs gpg with a private GNUPGHOME next to the artefacts and returns
(violations, observations).  If gpg cannot be started every sub-oracle is "not observed".
"""
import os
import shutil
import subprocess
import tempfile
from concurrent.futures import ThreadPoolExecutor

GPG = shutil.which("gpg")
# hash algorithms gpg 2.2 verifies with default options (MD5 is rejected by policy, SHA-3 unknown)
GPG_HASHES = {"SHA1", "RMD160", "SHA224", "SHA256", "SHA384", "SHA512"}


def _run(args, home, inp=None, timeout=120):
    cmd = [GPG, "--batch", "--no-tty", "--homedir", home, "--no-autostart", "--no-auto-check-trustdb",
           "--trust-model", "always", "--status-fd", "1"] + args
    try:
        p = subprocess.run(cmd, input=inp, stdout=subprocess.PIPE, stderr=subprocess.PIPE, timeout=timeout)
        return p.returncode, p.stdout, p.stderr.decode(errors="replace")
    except (OSError, subprocess.TimeoutExpired) as e:
        return 98, b"", "gpg could not be run: %s" % e


def available():
    if not GPG:
        return False, "gpg not found"
    try:
        p = subprocess.run([GPG, "--version"], stdout=subprocess.PIPE, stderr=subprocess.PIPE, timeout=30)
    except (OSError, subprocess.TimeoutExpired) as e:
        return False, str(e)
    if p.returncode != 0:
        return False, "gpg --version failed"
    return True, p.stdout.decode(errors="replace").splitlines()[0]


def _status(out):
    return [l[9:].split(" ", 1)[0] for l in out.decode(errors="replace").splitlines() if l.startswith("[GNUPG:] ")]


def judge(recs, max_workers=8):
    viols, obs = [], {}
    ok, ver = available()
    if not ok:
        obs["gpg"] = "not observed (%s)" % ver
        return viols, obs
    obs["gpg_version"] = ver
    keys = [r for r in recs if r.get("k") == "gpgkey"]
    ver_recs = [r for r in recs if r.get("k") == "gpgverify"]
    imp_recs = [r for r in recs if r.get("k") == "gpgimport"]
    dec_recs = [r for r in recs if r.get("k") == "gpgdecrypt"]
    if not (keys or imp_recs or dec_recs):
        obs["gpg"] = "not observed (no artefacts recorded)"
        return viols, obs
    base = (keys or imp_recs or dec_recs)[0]["dir"]
    home = tempfile.mkdtemp(prefix="gh", dir=base if os.path.isdir(base) else None)
    os.chmod(home, 0o700)
    try:
        # ---- key import (each file on its own so that one bad key does not hide the others)
        imported = {}

        def imp(r):
            path = os.path.join(r["dir"], r["file"])
            rc, out, err = _run(["--import", path], home)
            st = _status(out)
            return r, rc, st, err
        # imports share the keyring: serial
        n_imp = 0
        for r in keys:
            r, rc, st, err = imp(r)
            good = rc == 0 and "IMPORT_OK" in st
            imported[(r["dir"], r["file"])] = good
            n_imp += good
            if not good and not r.get("key", "").startswith(("rsa", "dsa")):
                obs["gpg_outside_rfc4880_subset_key_import_rejected"] = obs.get("gpg_outside_rfc4880_subset_key_import_rejected", 0) + 1
            elif not good:
                viols.append(dict(key="C20/gpg/key-import-rejected", what="gpg --import refuses a self-signed key block made with the library (%s)" % r.get("key"),
                                  case=r.get("case"), witness=dict(file=os.path.join(r["dir"], r["file"]), status=st, stderr=err[-1500:]), desc=r.get("key", "")))
        obs["gpg_keys_imported"] = n_imp
        n_blk = 0
        for r in imp_recs:
            h2 = tempfile.mkdtemp(prefix="gi", dir=base)
            os.chmod(h2, 0o700)
            rc, out, err = _run(["--faked-system-time", "%d!" % int(r.get("time", 1600000000)), "--import", os.path.join(r["dir"], r["file"])], h2)
            st = _status(out)
            shutil.rmtree(h2, ignore_errors=True)
            subset = r.get("primary", "").startswith(("rsa", "dsa")) and r.get("subkey", "").startswith(("rsa", "elg"))
            if rc == 0 and "IMPORT_OK" in st:
                n_blk += 1
            elif not subset:
                obs["gpg_outside_rfc4880_subset_keyblock_import_rejected"] = obs.get("gpg_outside_rfc4880_subset_keyblock_import_rejected", 0) + 1
            else:
                viols.append(dict(key="C20/gpg/keyblock-import-rejected", what="gpg --import refuses a key block (primary %s, subkey %s) made with the library" % (r.get("primary"), r.get("subkey")),
                                  case=r.get("case"), witness=dict(file=os.path.join(r["dir"], r["file"]), status=st, stderr=err[-1500:]), desc="keyblock"))
        obs["gpg_keyblocks_imported"] = n_blk

        # ---- detached signatures
        def verify(r):
            sig, dat = os.path.join(r["dir"], r["sig"]), os.path.join(r["dir"], r["data"])
            rc, out, err = _run(["--faked-system-time", "%d!" % int(r["time"]), "--verify", sig, dat], home)
            return r, rc, _status(out), err
        good = bad = rec_only = 0
        by = {}
        control = None
        with ThreadPoolExecutor(max_workers) as ex:
            for r, rc, st, err in ex.map(verify, ver_recs):
                if not imported.get((r["dir"], r["keyfile"]), False):
                    continue
                accepted = rc == 0 and "GOODSIG" in st and "VALIDSIG" in st
                # gpg enforces the minimum hash size of RFC 6637 12.2.1 / FIPS 186-3 for ECDSA/DSA keys: outside that
                # profile its refusal says nothing about the signature
                # the property's GnuPG clause covers the RFC 4880 subset: RSA and DSA signatures are judged; ECDSA/EdDSA
                # (RFC 6637 / 4880bis) verdicts are recorded only
                subset = r.get("pkalgo") in ("RSA", "DSA")
                judged = subset and bool(r.get("judge")) and r.get("hash") in GPG_HASHES and int(r.get("hash_bits", 0)) >= int(r.get("min_hash_bits", 0))
                if not subset:
                    tag = "gpg_outside_rfc4880_subset_" + ("accepted" if accepted else "rejected")
                    obs[tag] = obs.get(tag, 0) + 1
                    if not accepted:
                        longer = int(r.get("hash_bits", 0)) > int(r.get("min_hash_bits", 0)) > 0 and r.get("pkalgo") == "ECDSA"
                        cls = "%s/%s%s" % (r.get("key"), r.get("hash"), " (hash longer than the group order)" if longer else "")
                        obs.setdefault("gpg_outside_rfc4880_subset_rejected_classes", {})
                        obs["gpg_outside_rfc4880_subset_rejected_classes"][cls] = obs["gpg_outside_rfc4880_subset_rejected_classes"].get(cls, 0) + 1
                k = "%s/%s/%s" % (r.get("pkalgo"), r.get("hash"), r.get("type"))
                by[k] = by.get(k, 0) + 1
                if accepted:
                    good += 1
                    if control is None and os.path.getsize(os.path.join(r["dir"], r["data"])) > 0:
                        control = r
                elif judged:
                    bad += 1
                    viols.append(dict(key="C20/gpg/signature-rejected", what="gpg --verify rejects a v4 %s signature (%s, %s) the library made and verifies itself" % (r.get("type"), r.get("pkalgo"), r.get("hash")),
                                      case=r.get("case"), witness=dict(sig=os.path.join(r["dir"], r["sig"]), data=os.path.join(r["dir"], r["data"]), form=r.get("form"), status=st, stderr=err[-1500:]),
                                      desc="%s %s %s" % (r.get("key"), r.get("hash"), r.get("type"))))
                else:
                    rec_only += 1
        obs["gpg_signatures_accepted"] = good
        obs["gpg_signatures_rejected_judged"] = bad
        obs["gpg_signatures_rejected_recorded_only"] = rec_only     # text forms whose canonical form RFC 4880 leaves open / policy hashes
        obs["gpg_signature_classes"] = by
        # control: the judge itself must be able to say no (a document with one changed octet)
        if control is not None:
            dat = os.path.join(control["dir"], control["data"])
            with open(dat, "rb") as f:
                d = bytearray(f.read())
            d[len(d) // 2] ^= 0x01
            alt = dat + ".ctl"
            with open(alt, "wb") as f:
                f.write(bytes(d))
            rc, out, err = _run(["--faked-system-time", "%d!" % int(control["time"]), "--verify", os.path.join(control["dir"], control["sig"]), alt], home)
            st = _status(out)
            obs["gpg_control_rejects_changed_document"] = bool(rc != 0 and "BADSIG" in st)
            if not obs["gpg_control_rejects_changed_document"]:
                obs["gpg"] = "not observed (control experiment failed: gpg accepted a changed document)"
                return [], obs

        # ---- SEIPD messages with the session key
        def dec(r):
            outp = os.path.join(r["dir"], r["msg"]) + ".out"
            rc, out, err = _run(["--yes", "--override-session-key", r["seskey"], "--output", outp, "--decrypt", os.path.join(r["dir"], r["msg"])], home)
            try:
                with open(outp, "rb") as f:
                    plain = f.read()
            except OSError:
                plain = None
            return r, rc, out, err, plain
        dgood = 0
        with ThreadPoolExecutor(max_workers) as ex:
            for r, rc, out, err, plain in ex.map(dec, dec_recs):
                with open(os.path.join(r["dir"], r["data"]), "rb") as f:
                    want = f.read()
                st = [l for l in out.split(b"\n") if l.startswith(b"[GNUPG:] ")]
                okst = any(b"DECRYPTION_OKAY" in l for l in st) and any(b"GOODMDC" in l for l in st)
                if okst and plain == want:
                    dgood += 1
                else:
                    viols.append(dict(key="C20/gpg/seipd-not-decrypted", what="gpg does not decrypt a SEIPD message made with the library to the original data (session key given)",
                                      case=r.get("case"), witness=dict(msg=os.path.join(r["dir"], r["msg"]), status=[l.decode(errors="replace") for l in st][:12], stderr=err[-1500:], got=(-1 if plain is None else len(plain)), want=len(want)),
                                      desc="seipd %s" % r.get("esk")))
        obs["gpg_seipd_decrypted"] = dgood
        obs["gpg"] = "observed"
    finally:
        shutil.rmtree(home, ignore_errors=True)
    return viols, obs
