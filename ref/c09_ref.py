"""Independent Python reference / offline checker for C09 (arithmetic primitives).

Every record the C++ driver emits with vf::record is recomputed here with Python integers
(no GMP): pow()/explicit square-and-multiply with an own extended Euclid for the powers,
explicit squaring for the roots, Euler's criterion for residuosity, Lagrange's formula for the
interpolation, an own Miller-Rabin (40 bases) for the generated primes, a big-int model for the
TMCG_Bigint operation sequences.  Which records are *judged* is decided here from the inputs
alone (base coprime, odd modulus, exponent within the precomputed table, ...), independently of
the driver's decision.
"""
import random

MAX_T = 2048           # TMCG_MAX_FPOWM_T
B62 = "0123456789ABCDEFGHIJKLMNOPQRSTUVWXYZabcdefghijklmnopqrstuvwxyz"   # GMP digit order for bases 37..62
TABLE_FNS = ("tmcg_mpz_fpowm", "tmcg_mpz_fpowm_ui", "tmcg_mpz_fspowm")


def egcd(a, b):
    x0, x1, y0, y1 = 1, 0, 0, 1
    while b:
        q = a // b
        a, b = b, a - q * b
        x0, x1 = x1, x0 - q * x1
        y0, y1 = y1, y0 - q * y1
    return a, x0, y0


def inverse(a, m):
    g, x, _ = egcd(a % m, m)
    if g != 1:
        return None
    return x % m


def gcd(a, b):
    a, b = abs(a), abs(b)
    while b:
        a, b = b, a % b
    return a


def table_pow(b, e, m):
    """what the square table computes: explicit squarings, product over the set bits"""
    r, sq, x = 1 % m, b % m, abs(e)
    while x:
        if x & 1:
            r = r * sq % m
        sq = sq * sq % m
        x >>= 1
    if e < 0:
        r = inverse(r, m)
    return r


def plain_pow(b, e, m):
    r = pow(b % m, abs(e), m)
    if e < 0:
        r = inverse(r, m)
    return r


def b62decode(s):
    neg = s.startswith("-")
    if neg:
        s = s[1:]
    v = 0
    for ch in s:
        v = v * 62 + B62.index(ch)
    return -v if neg else v


def to_base(v, base):
    if v == 0:
        return "0"
    digs = B62 if base > 36 else "0123456789abcdefghijklmnopqrstuvwxyz"
    neg, v, out = v < 0, abs(v), []
    while v:
        out.append(digs[v % base])
        v //= base
    return ("-" if neg else "") + "".join(reversed(out))


_SMALL = [2, 3, 5, 7, 11, 13, 17, 19, 23, 29, 31, 37, 41, 43, 47]


def miller_rabin(n, rounds=40, rng=None):
    if n < 2:
        return False
    for p in _SMALL:
        if n == p:
            return True
        if n % p == 0:
            return False
    rng = rng or random.Random(n & 0xFFFFFFFF)
    d, s = n - 1, 0
    while d % 2 == 0:
        d //= 2
        s += 1
    for _ in range(rounds):
        a = rng.randrange(2, n - 1)
        x = pow(a, d, n)
        if x in (1, n - 1):
            continue
        for _ in range(s - 1):
            x = x * x % n
            if x == n - 1:
                break
        else:
            return False
    return True


def is_qr(a, p):
    """Euler's criterion, p odd prime; False for a = 0 (mod p)"""
    a %= p
    return a != 0 and pow(a, (p - 1) // 2, p) == 1


# ------------------------------------------------------------------ per-kind checks
# each returns (judged: bool, list of (key, what))

def check_pw(r):
    f, b, e, m, t = r["f"], int(r["b"]), int(r["e"]), int(r["m"]), int(r["tb"])
    threw = "x" in r
    out = None if threw else int(r["o"])
    table = f in TABLE_FNS
    ebits = max(1, abs(e).bit_length())
    kb = "C09/pow/%s/" % f
    if (table and ebits > MAX_T) or (f == "tmcg_mpz_spowm" and m % 2 == 0):
        if not threw:
            return True, [(kb + ("accepted-exponent-longer-than-TMCG_MAX_FPOWM_T" if table else "accepted-even-modulus"),
                           "documented refusal did not happen (python)")]
        return True, []
    if m % 2 == 0 or m <= 1 or gcd(b, m) != 1 or (table and ebits > t):
        return False, []
    if f == "tmcg_mpz_fpowm_ui" and not (0 <= e < 2 ** 64):
        return False, []
    ref = table_pow(b, e, m) if table else plain_pow(b, e, m)
    if threw:
        shares = f == "tmcg_mpz_spowm" and e > 0 and gcd(e, m) != 1
        return True, [(kb + ("throws-exponent-shares-factor-with-modulus" if shares else "refused-valid-input"),
                       "exception %s for a base coprime to an odd modulus (python)" % r["x"])]
    if out != ref:
        return True, [(kb + "wrong-result", "result %d differs from the python reference %d" % (out, ref))]
    return True, []


def check_sp(r):
    f, a, p = r["f"], int(r["a"]), int(r["p"])
    if not is_qr(a, p):
        return False, []
    kb = "C09/sqrt/%s/" % f
    if "x" in r:
        return True, [(kb + "refused-quadratic-residue", "exception for a quadratic residue (python)")]
    o = int(r["o"])
    if o * o % p != a % p:
        return True, [(kb + "root-does-not-square-back", "root^2 != a mod p (python)")]
    if not 0 <= o < p:
        return True, [(kb + "root-out-of-range", "root not in [0,p) (python)")]
    return True, []


def check_sn(r):
    f, a, p, q = r["f"], int(r["a"]), int(r["p"]), int(r["q"])
    if not (is_qr(a, p) and is_qr(a, q)):
        return False, []
    n = p * q
    kb = "C09/sqrt/%s/" % f
    if "x" in r:
        return True, [(kb + "refused-quadratic-residue", "exception for a quadratic residue mod pq (python)")]
    roots = [int(x) for x in r["o"]]
    bad = []
    if any(x * x % n != a % n for x in roots):
        bad.append((kb + "root-does-not-square-back", "root^2 != a mod pq (python)"))
    elif any(not 0 <= x < n for x in roots):
        bad.append((kb + "root-out-of-range", "root not in [0,n) (python)"))
    elif len(roots) == 4 and len(set(roots)) != 4:
        bad.append((kb + "four-roots-not-distinct", "four roots not pairwise distinct (python)"))
    return True, bad


def check_qr(r):
    a, p, q, o = int(r["a"]), int(r["p"]), int(r["q"]), int(r["o"])
    exp = is_qr(a, p) and is_qr(a, q)
    if bool(o) != exp:
        return True, [("C09/sqrt/tmcg_mpz_qrmn_p/disagrees-with-legendre-symbols", "qrmn_p=%d, Euler criterion says %s (python)" % (o, exp))]
    return True, []


def lagrange_value(xs, ys, q, x):
    """value at x of the unique polynomial of degree < len(xs) through (xs, ys) modulo the prime q"""
    tot = 0
    for i, (xi, yi) in enumerate(zip(xs, ys)):
        num, den = 1, 1
        for j, xj in enumerate(xs):
            if j != i:
                num = num * (x - xj) % q
                den = den * (xi - xj) % q
        tot = (tot + yi * num * inverse(den, q)) % q
    return tot


def horner(f, x, q):
    v = 0
    for c in reversed(f):
        v = (v * x + c) % q
    return v


def check_ip(r):
    q = int(r["q"])
    a = [int(x) for x in r["a"]]
    b = [int(x) for x in r["b"]]
    f = [int(x) for x in r["f"]]
    ok = bool(r["ok"])
    distinct = len(set(x % q for x in a)) == len(a)
    if not distinct:
        if ok:
            return True, [("C09/interpolate/colliding-abscissae-accepted", "returned true for colliding abscissae (python)")]
        return True, []
    if not ok:
        return True, [("C09/interpolate/distinct-abscissae-refused", "returned false for distinct abscissae (python)")]
    if any(not 0 <= c < q for c in f):
        return True, [("C09/interpolate/coefficient-out-of-range", "coefficient not in [0,q) (python)")]
    xs = [x % q for x in a]
    ys = [y % q for y in b]
    # the polynomial must be *the* Lagrange polynomial: compare at the nodes and at further points
    pts = list(xs) + [(max(xs) + 1 + i) % q for i in range(3)] + [0]
    for x in pts:
        if horner(f, x, q) != lagrange_value(xs, ys, q, x):
            return True, [("C09/interpolate/points-not-reproduced", "f differs from the Lagrange polynomial at x=%d (python)" % x)]
    return True, []


def check_pr(r):
    f, ps, qs, p = r["f"], int(r["ps"]), int(r["qs"]), int(r["p"])
    q = int(r["q"]) if "q" in r else None
    k = int(r["kk"]) if "kk" in r else None
    kb = "C09/prime/%s/" % f
    bad = []
    rng = random.Random(p & 0xFFFFFFFFFFFF)
    if not miller_rabin(p, 40, rng):
        bad.append((kb + "p-not-prime", "p fails the python Miller-Rabin (40 bases)"))
    if q is not None and not miller_rabin(q, 40, rng):
        bad.append((kb + "q-not-prime", "q fails the python Miller-Rabin (40 bases)"))
    short = f[len("tmcg_mpz_"):]
    if short in ("sprime", "smprime", "sprime_naive", "smprime_naive", "sprime_noninc", "sprime2g"):
        if p != 2 * q + 1:
            bad.append((kb + "p-not-2q+1", "p != 2q+1 (python)"))
        if q.bit_length() < qs:
            bad.append((kb + "q-too-small", "q has %d < %d bits (python)" % (q.bit_length(), qs)))
        if short == "sprime2g" and p % 8 != 7:
            bad.append((kb + "p-not-7-mod-8", "p mod 8 = %d (python)" % (p % 8)))
    elif short == "sprime3mod4":
        if p % 4 != 3:
            bad.append((kb + "p-not-3-mod-4", "p mod 4 = %d (python)" % (p % 4)))
        if p.bit_length() < ps:
            bad.append((kb + "p-too-small", "p has %d < %d bits (python)" % (p.bit_length(), ps)))
    elif short in ("lprime", "lprime_prefix"):
        if p != k * q + 1:
            bad.append((kb + "p-not-kq+1", "p != kq+1 (python)"))
        if gcd(k, q) != 1:
            bad.append((kb + "gcd(k,q)-not-1", "gcd(k,q) != 1 (python)"))
        if p.bit_length() < ps:
            bad.append((kb + "p-too-small", "p has %d < %d bits (python)" % (p.bit_length(), ps)))
        if q.bit_length() < qs:
            bad.append((kb + "q-too-small", "q has %d < %d bits (python)" % (q.bit_length(), qs)))
    else:
        if p.bit_length() < ps:
            bad.append((kb + "p-too-small", "p has %d < %d bits (python)" % (p.bit_length(), ps)))
    return True, bad


def check_cv(r):
    v, back = int(r["v"]), int(r["back"])
    bad = []
    if v < 0:
        return False, []
    try:
        h = int(r["hex"], 16)
    except ValueError:
        h = None
    if h != v:
        bad.append(("C09/convert/mpz-to-gcry-wrong-value", "hex image of the MPI %r != value (python)" % r["hex"][:60]))
    if back != v:
        bad.append(("C09/convert/roundtrip-lossy", "round trip changed the value (python)"))
    if b62decode(r["txt"]) != v:
        bad.append(("C09/convert/stream-text-differs", "base-62 text of the MPI does not decode to the value (python)"))
    return True, bad


# TMCG_Bigint operation codes (harness/c09_big.hh)
(B_SETUI, B_SET, B_ADD, B_ADDUI, B_SUB, B_SUBUI, B_MUL, B_MULUI, B_DIV, B_MOD, B_MODUI, B_NEG, B_ABS, B_MUL2EXP, B_POWM,
 B_POWMUI, B_CMP, B_CMPUI, B_GETUI, B_SIZE2, B_PRIME, B_DIVUI3, B_DIV2EXP3, B_UIPOWUI3, B_SETSTR3, B_SETSI3, B_SPOWM3) = range(27)
B_NAMES = ["assign_ui", "assign", "add", "add_ui", "sub", "sub_ui", "mul", "mul_ui", "div", "mod", "mod_ui", "neg", "abs",
           "mul2exp", "powm", "powm_ui", "compare", "compare_ui", "get_ui", "size2", "probab_prime", "div_ui(plain)",
           "div2exp(plain)", "ui_pow_ui(plain)", "set_str(plain)", "assign_si(plain)", "spowm(plain)"]
M127 = 2 ** 127 - 1


def _tdiv(a, b):
    q = abs(a) // abs(b)
    return q if (a < 0) == (b < 0) else -q


def bigint_model(ops):
    """yields the expected printed result of every operation"""
    R = [0, 0, 0, 0]
    bits = lambda c: "".join("1" if x else "0" for x in c)
    for (code, d, s1, s2, s3, ui, st) in ops:
        ui = int(ui)
        v = R[d]
        if code == B_SETUI: v = ui
        elif code == B_SET: v = R[s1]
        elif code == B_ADD: v += R[s1]
        elif code == B_ADDUI: v += ui
        elif code == B_SUB: v -= R[s1]
        elif code == B_SUBUI: v -= ui
        elif code == B_MUL: v *= R[s1]
        elif code == B_MULUI: v *= ui
        elif code == B_DIV: v = _tdiv(v, R[s1])
        elif code == B_MOD: v = v % abs(R[s1])
        elif code == B_MODUI: v = v % ui
        elif code == B_NEG: v = -v
        elif code == B_ABS: v = abs(v)
        elif code == B_MUL2EXP: v = v << ui
        elif code == B_POWM: v = pow(R[s1], R[s2], R[s3])
        elif code == B_POWMUI: v = pow(R[s1], ui, R[s3])
        elif code == B_CMP:
            a, b = v, R[s1]
            yield "c" + bits([a == b, a != b, a > b, a < b, a >= b, a <= b]); continue
        elif code == B_CMPUI:
            yield "d" + bits([v > ui, v < ui, v >= ui, v <= ui]); continue
        elif code == B_GETUI:
            yield "u%d" % (abs(v) & (2 ** 64 - 1)); continue
        elif code == B_SIZE2:
            yield "s%d" % max(1, abs(v).bit_length()); continue
        elif code == B_PRIME:
            yield "p1" if miller_rabin(v, 40) else "p0"; continue
        elif code == B_DIVUI3: v = _tdiv(v, ui)
        elif code == B_DIV2EXP3: v = _tdiv(v, 1 << ui)
        elif code == B_UIPOWUI3: v = ui ** s1
        elif code == B_SETSTR3: v = int(st, s1) if s1 <= 36 else b62decode(st)
        elif code == B_SETSI3: v = ui - 2 ** 64 if ui >= 2 ** 63 else ui
        elif code == B_SPOWM3: v = pow(v, ui, M127)
        R[d] = v
        yield to_base(v, 62)


def check_bi(r):
    bad = []
    ops, pl, se = r["ops"], r["pl"], r["se"]
    for i, exp in enumerate(bigint_model(ops)):
        code = ops[i][0]
        for world, got in (("plain", pl[i]), ("secure", se[i])):
            if got != exp:
                bad.append(("C09/bigint/%s/%s-differs-from-python-model" % (B_NAMES[code], world),
                            "step %d: %s back end printed %s, python model %s" % (i, world, got[:80], exp[:80])))
        if bad:
            break
    return True, bad


CHECKS = {"pw": check_pw, "sp": check_sp, "sn": check_sn, "qr": check_qr, "ip": check_ip, "ipz": check_ip,
          "pr": check_pr, "cv": check_cv, "bi": check_bi}


def check_records(recs, max_per_key=3):
    """returns (violations as dicts for the runner, stats)"""
    viols, seen, stats = [], {}, {}
    for r in recs:
        kind = r.get("k")
        fn = CHECKS.get(kind)
        if fn is None:
            stats["unknown_kind"] = stats.get("unknown_kind", 0) + 1
            continue
        try:
            judged, bad = fn(r)
        except Exception as e:   # malformed record = harness problem, surfaced as its own key
            judged, bad = True, [("C09/offline-checker/malformed-record", "%s: %r" % (kind, e))]
        name = kind + ("." + r["f"] if isinstance(r.get("f"), str) else "")
        st = stats.setdefault(name, [0, 0])
        st[0] += 1
        st[1] += 1 if judged else 0
        for key, what in bad:
            seen[key] = seen.get(key, 0) + 1
            if seen[key] <= max_per_key:
                w = {k: (v if len(str(v)) < 700 else str(v)[:700] + "...") for k, v in r.items() if k not in ("t",)}
                viols.append(dict(key=key, what=what, case=r.get("case"), witness=w, desc="offline python reference"))
    return viols, stats
