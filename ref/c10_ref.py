"""Independent reference for C10 (Rabin keys of libTMCG): base-62 integer text (GMP rules),
hash h (SHA-256) and expandable hash g, PRab signature verification, SAEP decryption over all
four roots, key text import and check() including the three-stage validity proof.
Written from the papers/format description, shares no code with the library or the harness."""
import hashlib

DIG = "0123456789ABCDEFGHIJKLMNOPQRSTUVWXYZabcdefghijklmnopqrstuvwxyz"
DVAL = {c: i for i, c in enumerate(DIG)}
SPACE = " \t\n\v\f\r"
MD = 32
PRAB_K0 = 20
SAEP_S0 = 20
KEYID_SIZE = 8
STAGES = (16, 128, 128)


def b62(v):
    if v == 0:
        return "0"
    neg, v = v < 0, abs(v)
    out = []
    while v:
        v, r = divmod(v, 62)
        out.append(DIG[r])
    return ("-" if neg else "") + "".join(reversed(out))


def parse62(s):
    """mpz_set_str(x, s, 62): None on error.  Leading white space, optional '-', white space
    between digits ignored, at least one valid digit required; a NUL ends the C string."""
    z = s.find("\0")
    if z >= 0:
        s = s[:z]
    i = 0
    while i < len(s) and s[i] in SPACE:
        i += 1
    neg = False
    if i < len(s) and s[i] == "-":
        neg = True
        i += 1
    if i >= len(s) or s[i] not in DVAL:
        return None
    v = 0
    for c in s[i:]:
        if c in SPACE:
            continue
        if c not in DVAL:
            return None
        v = v * 62 + DVAL[c]
    return -v if neg else v


def strtoul10(s):
    """(value, fully_consumed) like strtoul(s, &ec, 10) followed by *ec == 0"""
    i = 0
    while i < len(s) and s[i] in SPACE:
        i += 1
    neg = False
    if i < len(s) and s[i] in "+-":
        neg = s[i] == "-"
        i += 1
    j = i
    while j < len(s) and s[j].isdigit() and s[j] in "0123456789":
        j += 1
    if j == i:
        return 0, len(s) == 0      # no conversion: endptr = start of string
    v = int(s[i:j])
    if v >= 2 ** 64:
        v = 2 ** 64 - 1
    elif neg:
        v = (2 ** 64 - v) % 2 ** 64
    return v, j == len(s)


def h(data):
    return hashlib.sha256(data).digest()


def g(osize, inp):
    use = MD // 4 + 1
    times = osize // use + 1
    out = bytearray((times + 1) * MD)
    out2 = bytearray((times + 1) * MD)
    a = hashlib.sha256(inp + b"libTMCG")
    b = hashlib.sha3_256(inp + b"libTMCG")
    for i in range(times):
        tail = (b"%02x" % (i & 0xFF)) + inp
        x, y = a.copy(), b.copy()
        x.update(tail)
        y.update(tail)
        out[i * (use + 2): i * (use + 2) + MD] = x.digest()
        out2[i * (use + 2): i * (use + 2) + MD] = y.digest()
        out[i * use: i * use + MD] = hashlib.sha256(bytes(out[:(i + 1) * (MD - 1)])).digest()
        out2[i * use: i * use + MD] = hashlib.sha3_256(bytes(out2[:(i + 1) * (MD - 1)])).digest()
    return bytes(p ^ q for p, q in zip(out[:osize], out2[:osize]))


def gen_msg(n, seed):
    return bytes(((seed * 31 + i * i * 7 + i * 13 + (i >> 8)) & 0xFF) for i in range(n))


def jacobi(a, n):
    """Jacobi symbol for odd n > 0"""
    a %= n
    r = 1
    while a:
        while a % 2 == 0:
            a //= 2
            if n % 8 in (3, 5):
                r = -r
        a, n = n, a
        if a % 4 == 3 and n % 4 == 3:
            r = -r
        a %= n
    return r if n == 1 else 0


def is_probable_prime(n):
    n = abs(n)
    if n < 2:
        return False
    for p in (2, 3, 5, 7, 11, 13, 17, 19, 23, 29, 31, 37):
        if n % p == 0:
            return n == p
    d, s = n - 1, 0
    while d % 2 == 0:
        d //= 2
        s += 1
    for a in (2, 3, 5, 7, 11, 13, 17, 19, 23, 29, 31, 37, 41, 43, 47, 53):
        x = pow(a, d, n)
        if x in (1, n - 1):
            continue
        for _ in range(s - 1):
            x = x * x % n
            if x == n - 1:
                break
        else:
            return False
    return True


def low_word_be(v, nbytes):
    """what the library looks at after mpz_export(.., -1, nbytes, 1, 0, v): the least
    significant word of nbytes bytes, big endian (zeros if v == 0: nothing is written)"""
    return (v % (1 << (8 * nbytes))).to_bytes(nbytes, "big")


class Key:
    def __init__(self, rec):
        self.m, self.y, self.p, self.q = int(rec["m"]), int(rec["y"]), int(rec["p"]), int(rec["q"])
        self.name, self.email, self.type, self.nizk, self.sig = rec["name"], rec["email"], rec["type"], rec["nizk"], rec["sig"]
        self.pub = "|".join(["pub", self.name, self.email, self.type, b62(self.m), b62(self.y), self.nizk, self.sig])
        self.sec = "|".join(["sec", self.name, self.email, self.type, b62(self.m), b62(self.y), b62(self.p), b62(self.q), self.nizk, self.sig])

    def kid(self):
        return expected_kid(self.sig)


def expected_kid(selfsig):
    """the key id the library's own sign()/encrypt() emit for a key with this self-signature"""
    f = selfsig.split("|")
    if len(f) < 4 or f[0] != "sig":
        return None
    v = f[2]
    return "ID%d^%s" % (KEYID_SIZE, v[-KEYID_SIZE:] if len(v) >= KEYID_SIZE else v)


def prab_valid(m, data, value):
    bits = abs(m).bit_length()
    mn = bits // 8
    if bits <= mn * 8 or mn <= MD + PRAB_K0 or m == 0:
        return False
    foo = (value * value) % abs(m)
    yy = low_word_be(foo, mn)
    w, rs, gamma = yy[:MD], yy[MD:MD + PRAB_K0], yy[MD + PRAB_K0:mn]
    g12 = g(mn - MD, w)
    r = bytes(a ^ b for a, b in zip(rs, g12))
    return h(data + r) == w and gamma == g12[PRAB_K0:mn - MD]


def split3(t, magic):
    """library grammar <magic>|<kid>|<value>|...  -> (kid, value_text) or None"""
    f = t.split("|")
    if len(f) < 4 or f[0] != magic:
        return None
    return f[1], f[2]


def verify_ref(m, selfsig, data, t):
    """strict reference: key id must be exactly the id the library emits"""
    s = split3(t, "sig")
    if s is None or s[0] != expected_kid(selfsig):
        return False
    v = parse62(s[1])
    if v is None:
        return False
    return prab_valid(m, data, v)


def roots4(c, p, q):
    m = p * q
    rp, rq = pow(c, (p + 1) // 4, p), pow(c, (q + 1) // 4, q)
    ip, iq = pow(p, -1, q), pow(q, -1, p)
    out = []
    for sp in (rp, p - rp):
        for sq in (rq, q - rq):
            out.append((sp * q * iq + sq * p * ip) % m)
    return out


def decrypt_ref(key, t):
    """list of plaintexts of roots with valid redundancy (reference accepts iff exactly one)"""
    s = split3(t, "enc")
    if s is None or s[0] != key.kid():
        return []
    c = parse62(s[1])
    if c is None:
        return []
    m, p, q = key.m, key.p, key.q
    bits = m.bit_length()
    s2 = 2 * SAEP_S0
    if not (s2 < bits // 16 and s2 < bits // 8 - s2 and SAEP_S0 < bits // 32):
        return []
    if jacobi(c, p) != 1 or jacobi(c, q) != 1:
        return []
    rs = bits // 8
    res = []
    for r in set(roots4(c % m, p, q)):
        if (r * r - c) % m:
            raise AssertionError("reference root is not a root")
        if r.bit_length() // 8 > rs:
            continue
        yy = low_word_be(r, rs)
        mt = bytes(a ^ b for a, b in zip(yy[:s2], g(s2, yy[s2:rs])))
        if mt[SAEP_S0:] == bytes(SAEP_S0):
            res.append(mt[:SAEP_S0])
    return res


class Chain:
    """common random numbers of the validity proof: c_{k+1} = g(m^y c_1 .. c_k) mod m"""
    cache = {}

    def __init__(self, m, y):
        self.m = m
        self.inp = (b62(m) + "^" + b62(y)).encode()
        self.el = []
        self.mn = m.bit_length() // 8

    @classmethod
    def get(cls, m, y):
        k = (m, y)
        if k not in cls.cache:
            if len(cls.cache) > 8:
                cls.cache.clear()
            cls.cache[k] = Chain(m, y)
        return cls.cache[k]

    def at(self, i):
        while len(self.el) <= i:
            d = g(self.mn, self.inp)
            v = int.from_bytes(d, "big") % self.m
            self.inp += b62(v).encode()
            self.el.append(v)
        return self.el[i]


def gcd(a, b):
    while b:
        a, b = b, a % b
    return abs(a)


def nizk_valid(m, y, nizk):
    f = nizk.split("^")
    # cm("nzk"), then per stage: count field, values, each followed by '^'
    if len(f) < 2 or f[0] != "nzk":
        return False
    pos = 1
    ch = Chain.get(m, y)
    cur = 0
    for st in range(3):
        if pos >= len(f) - 1:      # gs needs a following '^'
            return False
        n, full = strtoul10(f[pos])
        pos += 1
        if not full or n <= 0 or n < STAGES[st]:
            return False
        for _ in range(n):
            while True:
                foo = ch.at(cur)
                cur += 1
                if (st < 2 and gcd(foo, m) == 1) or (st == 2 and jacobi(foo, m) == 1):
                    break
            if pos >= len(f) - 1:
                return False
            bar = parse62(f[pos])
            pos += 1
            if bar is None:
                return False
            if st == 0:
                if pow(bar, m, m) != foo:
                    return False
            elif st == 1:
                b2 = bar * bar % m
                if b2 not in (foo % m, (-foo) % m, (2 * foo) % m, (-2 * foo) % m):
                    return False
            else:
                b2 = bar * bar % m
                if b2 != foo % m and b2 != foo * y % m:
                    return False
    return True


def inv_exists(a, n):
    n = abs(n)
    if n == 0 or n == 1:
        return False
    return gcd(a % n, n) == 1


def key_check_ref(t, sec):
    """(imported, check) for a public / secret key text, following the documented format"""
    f = t.split("|")
    nint = 4 if sec else 2
    need = 4 + nint + 1          # fields that must be followed by '|'
    if len(f) < need + 1 or f[0] != ("sec" if sec else "pub"):
        return False, False
    name, email, typ = f[1], f[2], f[3]
    ints = [parse62(x) for x in f[4:4 + nint]]
    if any(v is None for v in ints):
        return False, False
    m, y = ints[0], ints[1]
    nizk = f[4 + nint]
    sig = "|".join(f[need:])
    if sec:
        p, q = ints[2], ints[3]
        if not inv_exists(y, m) or not inv_exists(m, m - p - q + 1) or gcd(p, q) != 1:
            return False, False
    if m == 0 or m % 2 == 0:
        return True, False
    if jacobi(abs(y), abs(m)) * (jacobi(-1, abs(m)) if y < 0 else 1) * (-1 if (m < 0 and y < 0) else 1) != 1:
        return True, False
    if is_probable_prime(m):
        return True, False
    data = "|".join([name, email, typ, b62(m), b62(y), nizk]) + "|"
    if not verify_ref(m, sig, data.encode("latin-1"), sig):
        return True, False
    if "NIZK" not in typ:
        return True, True
    if m < 0:
        return True, False
    return True, nizk_valid(m, y, nizk)


def fnv(s):
    hh = 1469598103934665603
    for c in s.encode("latin-1"):
        hh = ((hh ^ c) * 1099511628211) % (1 << 64)
    return hh
