"""c19_rfc4880.py -- independent reference for property C19 (OpenPGP encodings).

Written from the text of RFC 4880 (sections cited inline), RFC 6637 (ECC), and
draft-ietf-openpgp-rfc4880bis (v5 keys/signatures, AEAD packet) for the parts the
library cites.  Nothing here is derived from the library's code; only hashlib is
used for digests, AES (FIPS-197) is implemented below for the CFB protection of
secret keys.

Conventions: octets are `bytes`; all builders return bytes; parsers raise Malformed.
"""
import hashlib

# ------------------------------------------------------------------ constants
# RFC 4880 9.4 + 4880bis (12, 14)
HASH_NAMES = {1: "md5", 2: "sha1", 3: "ripemd160", 8: "sha256", 9: "sha384", 10: "sha512",
              11: "sha224", 12: "sha3_256", 14: "sha3_512"}
# RFC 4880 9.2 (+RFC 5581): key length in octets / block length
CIPHER_KEYLEN = {1: 16, 2: 24, 3: 16, 4: 16, 7: 16, 8: 24, 9: 32, 10: 32, 11: 16, 12: 24, 13: 32}
CIPHER_BLOCK = {1: 8, 2: 8, 3: 8, 4: 8, 7: 16, 8: 16, 9: 16, 10: 16, 11: 16, 12: 16, 13: 16}
# 4880bis 5.16.1/5.16.2: EAX IV 16 octets, OCB IV 15 octets
AEAD_IVLEN = {1: 16, 2: 15}
ARMOR_TITLES = {1: "PGP MESSAGE", 2: "PGP SIGNATURE", 5: "PGP PRIVATE KEY BLOCK", 6: "PGP PUBLIC KEY BLOCK"}
# RFC 6637 11 / 4880bis 9.2: curve OIDs (without the length octet)
CURVE_OID = {
    "NIST P-256": bytes.fromhex("2a8648ce3d030107"),
    "NIST P-384": bytes.fromhex("2b81040022"),
    "NIST P-521": bytes.fromhex("2b81040023"),
    "brainpoolP256r1": bytes.fromhex("2b2403030208010107"),
    "brainpoolP512r1": bytes.fromhex("2b240303020801010d"),
    "Ed25519": bytes.fromhex("2b06010401da470f01"),
    "Curve25519": bytes.fromhex("2b060104019755010501"),
}


class Malformed(Exception):
    pass


def H(algo, data):
    return hashlib.new(HASH_NAMES[algo], data).digest()


# ------------------------------------------------------------------ radix-64 (RFC 4880 6.3)
R64 = "ABCDEFGHIJKLMNOPQRSTUVWXYZabcdefghijklmnopqrstuvwxyz0123456789+/"
R64_INV = {c: i for i, c in enumerate(R64)}


def radix64_encode(data):
    """6.3: 24-bit groups -> four 6-bit indexes; 16 bits left: 3 chars + '='; 8 bits left: 2 chars + '=='"""
    out = []
    n = len(data)
    i = 0
    while n - i >= 3:
        v = (data[i] << 16) | (data[i + 1] << 8) | data[i + 2]
        out.append(R64[(v >> 18) & 63] + R64[(v >> 12) & 63] + R64[(v >> 6) & 63] + R64[v & 63])
        i += 3
    if n - i == 2:
        v = (data[i] << 16) | (data[i + 1] << 8)
        out.append(R64[(v >> 18) & 63] + R64[(v >> 12) & 63] + R64[(v >> 6) & 63] + "=")
    elif n - i == 1:
        v = data[i] << 16
        out.append(R64[(v >> 18) & 63] + R64[(v >> 12) & 63] + "==")
    return "".join(out)


def radix64_decode_strict(text):
    """text: radix-64 characters and padding only (no line ends); length must be a multiple of 4,
    padding only at the end, unused bits zero"""
    if len(text) % 4:
        raise Malformed("radix-64 length %d not a multiple of 4" % len(text))
    out = bytearray()
    for i in range(0, len(text), 4):
        q = text[i:i + 4]
        last = i + 4 == len(text)
        pad = 0
        if q.endswith("=="):
            pad = 2
        elif q.endswith("="):
            pad = 1
        if pad and not last:
            raise Malformed("padding inside radix-64 data")
        try:
            v = [R64_INV[c] for c in q[:4 - pad]]
        except KeyError:
            raise Malformed("character outside the radix-64 alphabet in %r" % q)
        if pad == 0:
            w = (v[0] << 18) | (v[1] << 12) | (v[2] << 6) | v[3]
            out += bytes([(w >> 16) & 255, (w >> 8) & 255, w & 255])
        elif pad == 1:
            w = (v[0] << 18) | (v[1] << 12) | (v[2] << 6)
            if v[2] & 3:
                raise Malformed("non-zero unused bits before '='")
            out += bytes([(w >> 16) & 255, (w >> 8) & 255])
        else:
            w = (v[0] << 18) | (v[1] << 12)
            if v[1] & 15:
                raise Malformed("non-zero unused bits before '=='")
            out += bytes([(w >> 16) & 255])
    return bytes(out)


def radix64_judge(text, data):
    """judge a (possibly line-wrapped) radix-64 rendering of `data` against RFC 4880 6.3:
    lines of no more than 76 characters, every line but the last of one common length that is a
    multiple of 4, no empty lines, padding only at the very end, decodes to `data`.
    returns (problems, info) with info = dict(width=<common full line length or None>, eol=..., lines=n)"""
    problems = []
    eol = None
    if "\r\n" in text:
        eol = "CRLF"
        if text.replace("\r\n", "").find("\n") >= 0 or text.replace("\r\n", "").find("\r") >= 0:
            problems.append(("mixed-line-endings", ""))
        lines = text.split("\r\n")
    elif "\n" in text:
        eol = "LF"
        lines = text.split("\n")
    else:
        lines = [text]
    if len(lines) > 1 and any(l == "" for l in lines):
        problems.append(("empty-line", ""))
    width = None
    for k, l in enumerate(lines):
        if len(l) > 76:
            problems.append(("line-longer-than-76", "line %d has %d characters" % (k, len(l))))
        if k < len(lines) - 1:
            if width is None:
                width = len(l)
            elif len(l) != width:
                problems.append(("unequal-full-lines", "%d vs %d" % (len(l), width)))
            if len(l) % 4:
                problems.append(("line-length-not-multiple-of-4", "length %d" % len(l)))
    if width is not None and len(lines[-1]) > width:
        problems.append(("last-line-longer", ""))
    try:
        dec = radix64_decode_strict("".join(lines))
        if dec != data:
            problems.append(("decodes-differently", ""))
    except Malformed as e:
        problems.append(("not-decodable", str(e)))
    return problems, dict(width=width, eol=eol, lines=len(lines))


def radix64_build(data, width=None, eol="\r\n"):
    s = radix64_encode(data)
    if not width:
        return s
    return eol.join(s[i:i + width] for i in range(0, len(s), width)) if s else ""


# ------------------------------------------------------------------ CRC-24 (RFC 4880 6.1)
def crc24(data):
    crc = 0xB704CE
    for b in data:
        crc ^= b << 16
        for _ in range(8):
            crc <<= 1
            if crc & 0x1000000:
                crc ^= 0x1864CFB
    return crc & 0xFFFFFF


_CRC_TABLE = None


def crc24_fast(data):
    """table-driven variant (same polynomial), used for megabyte inputs; checked against crc24 in selftest"""
    global _CRC_TABLE
    if _CRC_TABLE is None:
        t = []
        for i in range(256):
            c = i << 16
            for _ in range(8):
                c <<= 1
                if c & 0x1000000:
                    c ^= 0x1864CFB
            t.append(c & 0xFFFFFF)
        _CRC_TABLE = t
    t = _CRC_TABLE
    crc = 0xB704CE
    for b in data:
        crc = ((crc << 8) & 0xFFFFFF) ^ t[((crc >> 16) ^ b) & 255]
    return crc


def crc24_octets(data):
    c = crc24_fast(data)
    return bytes([(c >> 16) & 255, (c >> 8) & 255, c & 255])


# ------------------------------------------------------------------ ASCII armor (RFC 4880 6.2)
def armor_build(title, headers, data, width=64, eol="\r\n"):
    """6.2: header line, armor headers, blank line, radix-64 data, '=' + radix-64 CRC, tail line"""
    out = "-----BEGIN %s-----%s" % (title, eol)
    for k, v in headers:
        out += "%s: %s%s" % (k, v, eol)
    out += eol
    out += radix64_build(data, width, eol) + eol
    out += "=" + radix64_encode(crc24_octets(data)) + eol
    out += "-----END %s-----%s" % (title, eol)
    return out


def armor_parse(text):
    """strict reader for one armor block; returns dict(title, headers, body_text, data, crc_ok, eol, problems)"""
    problems = []
    eol = "\r\n" if "\r\n" in text else "\n"
    lines = text.split(eol)
    if lines and lines[-1] == "":
        lines.pop()
    else:
        problems.append("tail line not terminated by a line ending")
    if not lines or not (lines[0].startswith("-----BEGIN ") and lines[0].endswith("-----")):
        raise Malformed("no armor header line")
    title = lines[0][11:-5]
    if lines[-1] != "-----END %s-----" % title:
        raise Malformed("armor tail line missing or different from the header line")
    i = 1
    headers = []
    while i < len(lines) and lines[i].strip() != "":
        if ": " not in lines[i]:
            raise Malformed("armor header without ': ' or missing blank separator line: %r" % lines[i][:40])
        k, v = lines[i].split(": ", 1)
        headers.append((k, v))
        i += 1
    if i >= len(lines) - 1:
        raise Malformed("no blank line after the armor headers")
    i += 1
    body = lines[i:-1]
    crc_line = None
    if body and body[-1].startswith("=") and len(body[-1]) == 5:
        crc_line = body.pop()
    else:
        problems.append("no armor checksum line")
    if any(l.startswith("-----") for l in body):
        raise Malformed("nested armor header line")
    body_text = eol.join(body)
    try:
        data = radix64_decode_strict("".join(body))
    except Malformed as e:
        raise Malformed("armor body: %s" % e)
    crc_ok = None
    if crc_line is not None:
        try:
            crc_ok = radix64_decode_strict(crc_line[1:]) == crc24_octets(data)
        except Malformed:
            crc_ok = False
    return dict(title=title, headers=headers, body_text=body_text, data=data, crc_ok=crc_ok, eol=eol,
                problems=problems)


# ------------------------------------------------------------------ packet headers (RFC 4880 4.2)
def tag_new(tag):
    if not 0 <= tag < 64:
        raise ValueError(tag)
    return bytes([0xC0 | tag])


def tag_old(tag, lentype):
    if not 0 <= tag < 16:
        raise ValueError(tag)
    return bytes([0x80 | (tag << 2) | lentype])


def length_new(n):
    """4.2.2.1-3: one octet < 192; two octets 192..8383; five octets (255 + 4-octet scalar) otherwise"""
    if n < 192:
        return bytes([n])
    if n <= 8383:
        return bytes([((n - 192) >> 8) + 192, (n - 192) & 255])
    if n > 0xFFFFFFFF:
        raise ValueError(n)
    return bytes([255]) + n.to_bytes(4, "big")


def length_old(n, lentype):
    """4.2.1: length-type 0/1/2 = one/two/four octets, 3 = indeterminate"""
    if lentype == 3:
        return b""
    return n.to_bytes({0: 1, 1: 2, 2: 4}[lentype], "big")


def packet_new(tag, body):
    return tag_new(tag) + length_new(len(body)) + body


def packet_old(tag, body, lentype):
    return tag_old(tag, lentype) + length_old(len(body), lentype) + body


def packet_partial(tag, body, exps, last_form=None):
    """4.2.2.4: chunks of 2^e octets with one-octet headers 224+e, final chunk with a definite length"""
    out = bytearray(tag_new(tag))
    off = 0
    for e in exps:
        out.append(224 + e)
        out += body[off:off + (1 << e)]
        if off + (1 << e) > len(body):
            raise ValueError("body too short for the partial chunks")
        off += 1 << e
    rest = body[off:]
    out += length_new(len(rest)) + rest
    return bytes(out)


def read_length_new(buf, off):
    """returns (length, header octets, is_partial)"""
    if off >= len(buf):
        raise Malformed("truncated length")
    o = buf[off]
    if o < 192:
        return o, 1, False
    if o < 224:
        if off + 2 > len(buf):
            raise Malformed("truncated two-octet length")
        return ((o - 192) << 8) + buf[off + 1] + 192, 2, False
    if o == 255:
        if off + 5 > len(buf):
            raise Malformed("truncated five-octet length")
        return int.from_bytes(buf[off + 1:off + 5], "big"), 5, False
    return 1 << (o & 0x1F), 1, True


def parse_packets(buf, strict_minimal=False):
    """split an octet string into packets: list of dict(tag, new, hlen, plen, body, off, partial, minimal)"""
    out = []
    off = 0
    n = len(buf)
    while off < n:
        start = off
        ctb = buf[off]
        if not ctb & 0x80:
            raise Malformed("packet tag octet %02x at %d without bit 7" % (ctb, off))
        off += 1
        partial = False
        minimal = True
        if ctb & 0x40:
            tag = ctb & 0x3F
            body = bytearray()
            first = True
            hlen = 1
            while True:
                ln, hl, part = read_length_new(buf, off)
                if first:
                    hlen += hl
                if not part and length_new(ln) != bytes(buf[off:off + hl]):
                    minimal = False
                off += hl
                if off + ln > n:
                    raise Malformed("packet body exceeds the input (tag %d, length %d at %d)" % (tag, ln, start))
                if part:
                    partial = True
                    if first and ln < 512:
                        raise Malformed("first partial body length < 512")
                    if tag not in (8, 9, 11, 18, 20):
                        raise Malformed("partial body length on a non-data packet")
                body += buf[off:off + ln]
                off += ln
                first = False
                if not part:
                    break
            out.append(dict(tag=tag, new=True, hlen=hlen, plen=len(body), body=bytes(body), off=start,
                            partial=partial, minimal=minimal, ctb=ctb))
        else:
            tag = (ctb >> 2) & 15
            lt = ctb & 3
            if lt == 3:
                body = bytes(buf[off:])
                out.append(dict(tag=tag, new=False, hlen=1, plen=len(body), body=body, off=start, partial=False,
                                minimal=True, ctb=ctb, indeterminate=True))
                off = n
            else:
                w = {0: 1, 1: 2, 2: 4}[lt]
                if off + w > n:
                    raise Malformed("truncated old-format length")
                ln = int.from_bytes(buf[off:off + w], "big")
                off += w
                if off + ln > n:
                    raise Malformed("packet body exceeds the input (old tag %d)" % tag)
                out.append(dict(tag=tag, new=False, hlen=1 + w, plen=ln, body=bytes(buf[off:off + ln]), off=start,
                                partial=False, minimal=True, ctb=ctb))
                off += ln
    return out


# ------------------------------------------------------------------ MPI (RFC 4880 3.2)
def mpi(v):
    """two-octet bit count followed by the big-endian magnitude without leading zero octets"""
    if v < 0:
        raise ValueError
    bits = v.bit_length()
    if bits > 65535:
        raise ValueError("MPI too large")
    return bits.to_bytes(2, "big") + v.to_bytes((bits + 7) // 8, "big")


def read_mpi(buf, off, strict=True):
    if off + 2 > len(buf):
        raise Malformed("truncated MPI header")
    bits = int.from_bytes(buf[off:off + 2], "big")
    nb = (bits + 7) // 8
    if off + 2 + nb > len(buf):
        raise Malformed("truncated MPI body")
    v = int.from_bytes(buf[off + 2:off + 2 + nb], "big")
    if strict and v.bit_length() != bits:
        raise Malformed("MPI bit count %d but value has %d bits" % (bits, v.bit_length()))
    return v, off + 2 + nb


def checksum16(octets):
    return sum(octets) & 0xFFFF


# ------------------------------------------------------------------ S2K (RFC 4880 3.7.1)
def s2k_count(c):
    """3.7.1.3: count = (16 + (c & 15)) << ((c >> 4) + 6)"""
    return (16 + (c & 15)) << ((c >> 4) + 6)


def s2k(hashalgo, mode, passphrase, salt, c, keylen):
    """mode 0 simple, 1 salted, 3 iterated+salted.  3.7.1.1: if the hash is shorter than the key, several
    contexts preloaded with 0,1,2,.. zero octets are used and their outputs concatenated"""
    name = HASH_NAMES[hashalgo]
    if mode == 0:
        unit = passphrase
        total = len(unit)
    elif mode == 1:
        unit = salt + passphrase
        total = len(unit)
    elif mode == 3:
        unit = salt + passphrase
        total = max(s2k_count(c), len(unit))     # "the full salt plus passphrase will be hashed even though ..."
    else:
        raise ValueError(mode)
    out = b""
    k = 0
    while len(out) < keylen:
        h = hashlib.new(name)
        h.update(b"\x00" * k)
        if unit:
            full, rest = divmod(total, len(unit))
            # feed in large blocks to keep this fast for 65 MB counts
            blk = unit * max(1, min(full, (1 << 20) // len(unit) or 1))
            per = len(blk) // len(unit)
            while full >= per and per > 0:
                h.update(blk)
                full -= per
            if full:
                h.update(unit * full)
            h.update(unit[:rest])
        out += h.digest()
        k += 1
    return out[:keylen]


# ------------------------------------------------------------------ RFC 6637 section 7 KDF
def ecdh_kdf_param(oid, hashalgo, skalgo, fpr20):
    return bytes([len(oid)]) + oid + bytes([18, 3, 1, hashalgo, skalgo]) + b"Anonymous Sender    " + fpr20


def ecdh_kdf(hashalgo, skalgo, zb, oid, fpr):
    """MB = Hash(00 00 00 01 || ZB || Param) (caller truncates to the KEK size); v5: 20 leftmost octets of fpr"""
    return H(hashalgo, b"\x00\x00\x00\x01" + zb + ecdh_kdf_param(oid, hashalgo, skalgo, fpr[:20]))


# ------------------------------------------------------------------ fingerprints (RFC 4880 12.2, 4880bis 12.2)
def fingerprint_v4(body):
    if len(body) > 0xFFFF:
        raise ValueError("two-octet length")
    return hashlib.sha1(b"\x99" + len(body).to_bytes(2, "big") + body).digest()


def keyid_v4(body):
    return fingerprint_v4(body)[12:]


def fingerprint_v5(body):
    return hashlib.sha256(b"\x9a" + len(body).to_bytes(4, "big") + body).digest()


def keyid_v5(body):
    return fingerprint_v5(body)[:8]


# ------------------------------------------------------------------ AES (FIPS-197) + CFB, for secret key protection
_SBOX = None


def _aes_init():
    global _SBOX
    if _SBOX is not None:
        return
    # multiplicative inverse in GF(2^8) + affine map
    p = q = 1
    sbox = [0] * 256
    while True:
        p = p ^ ((p << 1) & 0xFF) ^ (0x1B if p & 0x80 else 0)
        q ^= q << 1
        q ^= q << 2
        q ^= q << 4
        q &= 0xFF
        if q & 0x80:
            q ^= 0x09
        x = q ^ ((q << 1) | (q >> 7)) & 0xFF ^ ((q << 2) | (q >> 6)) & 0xFF ^ ((q << 3) | (q >> 5)) & 0xFF ^ \
            ((q << 4) | (q >> 4)) & 0xFF
        sbox[p] = (x ^ 0x63) & 0xFF
        if p == 1:
            break
    sbox[0] = 0x63
    _SBOX = sbox


def _xt(a):
    return ((a << 1) ^ 0x1B) & 0xFF if a & 0x80 else a << 1


def aes_expand(key):
    _aes_init()
    nk = len(key) // 4
    nr = nk + 6
    w = [list(key[4 * i:4 * i + 4]) for i in range(nk)]
    rcon = 1
    for i in range(nk, 4 * (nr + 1)):
        t = list(w[i - 1])
        if i % nk == 0:
            t = t[1:] + t[:1]
            t = [_SBOX[b] for b in t]
            t[0] ^= rcon
            rcon = _xt(rcon)
        elif nk > 6 and i % nk == 4:
            t = [_SBOX[b] for b in t]
        w.append([w[i - nk][j] ^ t[j] for j in range(4)])
    return w, nr


def aes_encrypt_block(ks, block):
    w, nr = ks
    s = [block[i] ^ w[i // 4][i % 4] for i in range(16)]
    for r in range(1, nr + 1):
        s = [_SBOX[b] for b in s]
        # shift rows (state is column-major: index = 4*col + row)
        s = [s[(4 * ((c + rr) % 4)) + rr] for c in range(4) for rr in range(4)]
        if r != nr:
            t = []
            for c in range(4):
                a = s[4 * c:4 * c + 4]
                x = a[0] ^ a[1] ^ a[2] ^ a[3]
                t += [a[0] ^ x ^ _xt(a[0] ^ a[1]), a[1] ^ x ^ _xt(a[1] ^ a[2]),
                      a[2] ^ x ^ _xt(a[2] ^ a[3]), a[3] ^ x ^ _xt(a[3] ^ a[0])]
            s = t
        s = [s[i] ^ w[4 * r + i // 4][i % 4] for i in range(16)]
    return bytes(s)


def aes_cfb_encrypt(key, iv, data):
    """full-block CFB (RFC 4880 5.5.3: "Encryption/decryption of the secret data is done in CFB mode")"""
    ks = aes_expand(key)
    out = bytearray()
    fb = bytes(iv)
    for i in range(0, len(data), 16):
        e = aes_encrypt_block(ks, fb)
        chunk = data[i:i + 16]
        c = bytes(a ^ b for a, b in zip(chunk, e))
        out += c
        fb = c if len(c) == 16 else fb
    return bytes(out)


def aes_cfb_decrypt(key, iv, data):
    ks = aes_expand(key)
    out = bytearray()
    fb = bytes(iv)
    for i in range(0, len(data), 16):
        e = aes_encrypt_block(ks, fb)
        chunk = data[i:i + 16]
        out += bytes(a ^ b for a, b in zip(chunk, e))
        fb = chunk
    return bytes(out)


# ------------------------------------------------------------------ packet bodies
def time4(t):
    return (t & 0xFFFFFFFF).to_bytes(4, "big")


def key_material(algo, mpis=None, oid=None, point=None, kdf=None):
    """RFC 4880 5.5.2, RFC 6637 9: algorithm-specific public fields"""
    if algo in (1, 2, 3, 16, 17) or (mpis is not None and oid is None):
        return b"".join(mpi(v) for v in mpis)
    if algo in (19, 22):
        return bytes([len(oid)]) + oid + mpi(point)
    if algo == 18:
        return bytes([len(oid)]) + oid + mpi(point) + bytes([3, 1, kdf[0], kdf[1]])
    raise ValueError(algo)


def pubkey_body(version, created, algo, material):
    """5.5.2 v4: version, 4-octet time, algorithm, fields; 4880bis v5: + 4-octet count of the fields"""
    if version == 4:
        return bytes([4]) + time4(created) + bytes([algo]) + material
    if version == 5:
        return bytes([5]) + time4(created) + bytes([algo]) + len(material).to_bytes(4, "big") + material
    raise ValueError(version)


def secret_tail_plain(secret_mpis):
    """5.5.3: usage octet 0, the secret MPIs, two-octet checksum (sum of the MPI octets mod 65536)"""
    s = b"".join(mpi(v) for v in secret_mpis)
    return b"\x00" + s + checksum16(s).to_bytes(2, "big")


def secret_tail_protected(secret_mpis, passphrase, skalgo, hashalgo, salt, count, iv):
    """5.5.3 usage 254: cipher, S2K specifier (3.7.1.3), IV, CFB(MPIs || SHA-1(MPIs))"""
    if skalgo not in (7, 8, 9):
        raise ValueError("only AES implemented in the reference")
    s = b"".join(mpi(v) for v in secret_mpis)
    plain = s + hashlib.sha1(s).digest()
    key = s2k(hashalgo, 3, passphrase, salt, count, CIPHER_KEYLEN[skalgo])
    return bytes([254, skalgo, 3, hashalgo]) + salt + bytes([count]) + iv + aes_cfb_encrypt(key, iv, plain)


def pkesk_body(keyid, algo, fields):
    """5.1: version 3, key id, algorithm, algorithm-specific fields"""
    return b"\x03" + keyid + bytes([algo]) + fields


def subpacket(typ, critical, body):
    """5.2.3.1: length (1/2/5 octets, includes the type octet), type (bit 7 = critical), data"""
    return length_new(len(body) + 1) + bytes([typ | (0x80 if critical else 0)]) + body


def read_length_subpacket(buf, off):
    """5.2.3.1: < 192 one octet; >= 192 and < 255 two octets; 255 five octets (no partial lengths)"""
    if off >= len(buf):
        raise Malformed("truncated subpacket length")
    o = buf[off]
    if o < 192:
        return o, 1
    if o < 255:
        if off + 2 > len(buf):
            raise Malformed("truncated two-octet subpacket length")
        return ((o - 192) << 8) + buf[off + 1] + 192, 2
    if off + 5 > len(buf):
        raise Malformed("truncated five-octet subpacket length")
    return int.from_bytes(buf[off + 1:off + 5], "big"), 5


def read_subpackets(area):
    """returns list of (type, critical, body, length_form_octets)"""
    out = []
    off = 0
    while off < len(area):
        ln, hl = read_length_subpacket(area, off)
        minimal = hl
        off += hl
        if ln < 1 or off + ln > len(area):
            raise Malformed("subpacket length %d exceeds the area" % ln)
        t = area[off]
        out.append((t & 0x7F, bool(t & 0x80), bytes(area[off + 1:off + ln]), minimal))
        off += ln
    return out


def sig_hashed_part(version, sigtype, pkalgo, hashalgo, subpackets):
    """5.2.3: version, type, pk algo, hash algo, two-octet length of the hashed area, the area"""
    area = b"".join(subpacket(t, c, b) for (t, c, b) in subpackets)
    if len(area) > 0xFFFF:
        raise ValueError
    return bytes([version, sigtype, pkalgo, hashalgo]) + len(area).to_bytes(2, "big") + area


def sig_body(hashed_part, unhashed_area, left16, mpis):
    return hashed_part + len(unhashed_area).to_bytes(2, "big") + unhashed_area + left16 + b"".join(mpi(v) for v in mpis)


def literal_body(fmt, name, date, data):
    """5.9"""
    return bytes([fmt, len(name)]) + name + time4(date) + data


def aead_body(skalgo, aeadalgo, chunk, iv, data):
    """4880bis 5.16: version 1, cipher, AEAD algorithm, chunk size octet, IV, data+tags"""
    return bytes([1, skalgo, aeadalgo, chunk]) + iv + data


# ------------------------------------------------------------------ structured parse (for comparison with gpg)
def parse_key_fields(body, secret):
    """returns dict(version, created, algo, mpis=[...], oid, kdf, rest) for tags 5/6/7/14"""
    if len(body) < 6:
        raise Malformed("key packet too short")
    v = body[0]
    created = int.from_bytes(body[1:5], "big")
    algo = body[5]
    off = 6
    d = dict(version=v, created=created, algo=algo, mpis=[], oid=None, kdf=None)
    if v == 5:
        cnt = int.from_bytes(body[6:10], "big")
        off = 10
        d["v5count"] = cnt
    elif v != 4:
        raise Malformed("key version %d" % v)
    start = off
    nm = {1: 2, 2: 2, 3: 2, 16: 3, 17: 4}.get(algo)
    if nm is not None:
        for _ in range(nm):
            x, off = read_mpi(body, off)
            d["mpis"].append(x)
    elif algo in (18, 19, 22):
        ol = body[off]
        if ol in (0, 255):
            raise Malformed("reserved OID length")
        d["oid"] = bytes(body[off + 1:off + 1 + ol])
        off += 1 + ol
        x, off = read_mpi(body, off)
        d["mpis"].append(x)
        if algo == 18:
            if body[off] != 3 or body[off + 1] != 1:
                raise Malformed("bad KDF parameter field")
            d["kdf"] = (body[off + 2], body[off + 3])
            off += 4
    else:
        raise Malformed("unknown public-key algorithm %d" % algo)
    if v == 5 and off - start != d["v5count"]:
        raise Malformed("v5 key material count %d but fields take %d octets" % (d["v5count"], off - start))
    d["pub_end"] = off
    if not secret:
        if off != len(body):
            raise Malformed("%d trailing octets after the public key fields" % (len(body) - off))
        return d
    usage = body[off]
    off += 1
    d["usage"] = usage
    if usage == 0:
        ns = {1: 4, 2: 4, 3: 4, 16: 1, 17: 1, 18: 1, 19: 1, 22: 1}[algo]
        s0 = off
        d["smpis"] = []
        for _ in range(ns):
            x, off = read_mpi(body, off)
            d["smpis"].append(x)
        if off + 2 != len(body):
            raise Malformed("secret key: checksum not at the end")
        d["checksum"] = int.from_bytes(body[off:off + 2], "big")
        d["checksum_ok"] = d["checksum"] == checksum16(body[s0:off])
    elif usage in (254, 255):
        d["skalgo"] = body[off]
        d["s2k_type"] = body[off + 1]
        d["s2k_hash"] = body[off + 2]
        off += 3
        if d["s2k_type"] in (1, 3):
            d["salt"] = bytes(body[off:off + 8])
            off += 8
        if d["s2k_type"] == 3:
            d["count"] = body[off]
            off += 1
        bl = CIPHER_BLOCK[d["skalgo"]]
        d["iv"] = bytes(body[off:off + bl])
        off += bl
        d["enc"] = bytes(body[off:])
    else:
        raise Malformed("secret key usage octet %d" % usage)
    return d


def parse_sig_fields(body):
    v = body[0]
    if v not in (4, 5):
        raise Malformed("signature version %d" % v)
    d = dict(version=v, sigclass=body[1], pkalgo=body[2], hashalgo=body[3])
    hl = int.from_bytes(body[4:6], "big")
    if 6 + hl + 2 > len(body):
        raise Malformed("hashed area exceeds the packet")
    d["hashed"] = read_subpackets(body[6:6 + hl])
    off = 6 + hl
    ul = int.from_bytes(body[off:off + 2], "big")
    off += 2
    if off + ul + 2 > len(body):
        raise Malformed("unhashed area exceeds the packet")
    d["unhashed"] = read_subpackets(body[off:off + ul])
    off += ul
    d["left16"] = bytes(body[off:off + 2])
    off += 2
    d["mpis"] = []
    while off < len(body):
        x, off = read_mpi(body, off)
        d["mpis"].append(x)
    want = {1: 1, 3: 1, 17: 2, 19: 2, 22: 2}.get(d["pkalgo"])
    if want is not None and len(d["mpis"]) != want:
        raise Malformed("signature with %d MPIs for algorithm %d" % (len(d["mpis"]), d["pkalgo"]))
    return d


def parse_pkesk_fields(body):
    if body[0] != 3:
        raise Malformed("PKESK version %d" % body[0])
    d = dict(version=3, keyid=bytes(body[1:9]), algo=body[9], mpis=[])
    off = 10
    n = {1: 1, 2: 1, 16: 2, 18: 1}.get(d["algo"])
    if n is None:
        raise Malformed("PKESK algorithm %d" % d["algo"])
    for _ in range(n):
        x, off = read_mpi(body, off)
        d["mpis"].append(x)
    if d["algo"] == 18:
        wl = body[off]
        d["wrapped"] = bytes(body[off + 1:off + 1 + wl])
        off += 1 + wl
    if off != len(body):
        raise Malformed("PKESK: %d trailing octets" % (len(body) - off))
    return d


# ------------------------------------------------------------------ self test
def selftest():
    import base64
    import os
    for n in list(range(0, 70)) + [191, 192, 1000]:
        d = os.urandom(n)
        assert radix64_encode(d) == base64.b64encode(d).decode()
        assert radix64_decode_strict(radix64_encode(d)) == d
        assert crc24(d) == crc24_fast(d)
    # RFC 4880 6.1 reference: CRC of the empty string is the init value
    assert crc24(b"") == 0xB704CE
    # widely published check value for "123456789" (CRC-24/OPENPGP)
    assert crc24(b"123456789") == 0x21CF02
    assert length_new(191) == b"\xbf" and length_new(192) == b"\xc0\x00" and length_new(8383) == b"\xdf\xff"
    assert length_new(8384) == b"\xff\x00\x00\x20\xc0"
    assert mpi(1) == b"\x00\x01\x01" and mpi(511) == b"\x00\x09\x01\xff" and mpi(0) == b"\x00\x00"
    assert s2k_count(96) == 65536 and s2k_count(0) == 1024 and s2k_count(255) == 65011712
    # FIPS-197 appendix C.3
    ks = aes_expand(bytes(range(32)))
    assert aes_encrypt_block(ks, bytes.fromhex("00112233445566778899aabbccddeeff")).hex() == \
        "8ea2b7ca516745bfeafc49904b496089"
    ks = aes_expand(bytes(range(16)))
    assert aes_encrypt_block(ks, bytes.fromhex("00112233445566778899aabbccddeeff")).hex() == \
        "69c4e0d86a7b0430d8cdb78070b4c55a"
    x = os.urandom(53)
    assert aes_cfb_decrypt(bytes(32), bytes(16), aes_cfb_encrypt(bytes(32), bytes(16), x)) == x
    return True


if __name__ == "__main__":
    print("selftest", selftest())
