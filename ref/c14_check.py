"""Independent offline checker for C14 (reliable broadcast) over recorded event logs.

Input: the `{"t":"rec","k":"run",...}` records written by harness/w_c14.cc for a sample of
runs (configuration, every message that was on the wire, every event in order).  The
oracles are re-implemented here from the property text only; nothing is taken from the
C++ monitor except the log.  The digest H(m) of echo/ready messages is recomputed with
hashlib (reference implementation of the library's tmcg_g / tmcg_mpz_shash).

events  [k, a, b, mi, x, v]
  S  honest party a sent message mi to b          I  Byzantine a injected message mi for b
  H  message mi (from a) handed over to b         A  API call at a: x = ord('S'|'R'|'U'|'B'), b = channel, v = payload
  D  a delivered value v from sender b; x = 0 Deliver, 1 DeliverFrom, 2 buffered inside DeliverFrom; mi = channel (harness view)
  Q  phase marker
messages [ID ("c<k>" = channel k), j, s, action, payload] as decimal strings
"""
import hashlib

PAY_BASE = 9000000000000
_hcache = {}


def _g(osize, inp):
    md = 32
    use = md // 4 + 1
    times = osize // use + 1
    out = bytearray((times + 1) * md)
    out2 = bytearray((times + 1) * md)
    for i in range(times):
        data = inp + (b"libTMCG%02x" % (i & 0xff)) + inp
        out[i * (use + 2):i * (use + 2) + md] = hashlib.sha256(data).digest()
        out2[i * (use + 2):i * (use + 2) + md] = hashlib.sha3_256(data).digest()
        out[i * use:i * use + md] = hashlib.sha256(bytes(out[:(i + 1) * (md - 1)])).digest()
        out2[i * use:i * use + md] = hashlib.sha3_256(bytes(out2[:(i + 1) * (md - 1)])).digest()
    return bytes(a ^ b for a, b in zip(out[:osize], out2[:osize]))


def H(payload_dec):
    """digest of one integer as tmcg_mpz_shash(d, 1, m) computes it (decimal string in/out)"""
    r = _hcache.get(payload_dec)
    if r is None:
        x = int(payload_dec)
        acc = (("-" if x < 0 else "") + format(abs(x), "x") + "|").encode()
        r = str(int.from_bytes(_g(32, acc), "big"))
        if len(_hcache) > 50000:
            _hcache.clear()
        _hcache[payload_dec] = r
    return r


def pay_decode(s):
    if len(s) != 13 or not s.isdigit() or s[0] != "9":
        return None
    v = int(s) - PAY_BASE
    sender, v = divmod(v, 10000000000)
    ctx, v = divmod(v, 100000000)
    slot, variant = divmod(v, 1000)
    return sender, ctx, slot, variant


def check_run(rec):
    """returns (list of (key, what), number of oracle evaluations)"""
    cfg = rec["cfg"]
    n, t = cfg["n"], cfg["thr"]
    byz = set(cfg["byz"])
    honest = [p for p in range(n) if p not in byz]
    ctxs = cfg["ctx"]
    msgs = rec["msgs"]
    out = []
    seen = set()
    evals = 0

    def bad(key, what):
        if key not in seen:
            seen.add(key)
            out.append((key, what))

    stack = {p: [0] for p in honest}
    nb = {}                               # (p, ctx) -> broadcasts so far
    cur_b = {}                            # p -> payload of the broadcast in progress
    rsend = {}                            # (p, tag) -> payloads handed over from the slot's sender
    E, R = {}, {}                         # (p, tag, digest) -> set of links
    echo_to, ready_to = {}, {}            # (p, tag, to) -> count ;  (p, tag) -> digest
    echo_d, ready_d = {}, {}
    api_seen = {p: set() for p in honest}
    rbc_seen = {p: set() for p in honest}
    fifo_last = {}
    agreed = {}
    pending = {}                          # (p, sender) -> list of (ctx, value)

    for e in rec["ev"]:
        k, a, b, mi, x, v = e
        if k == "A":
            op = chr(x)
            if op in "SR":
                stack[a].append(b)
            elif op == "U":
                stack[a].pop()
                if stack[a][-1] != b:
                    bad("C14/harness/log", "unsetID target differs from the channel stack")
            elif op == "B":
                c = stack[a][-1]
                nb[(a, c)] = nb.get((a, c), 0) + 1
                cur_b[a] = v
                if v != str(PAY_BASE + a * 10000000000 + c * 100000000 + nb[(a, c)] * 1000):
                    bad("C14/harness/log", "broadcast payload does not encode (sender, channel, slot)")
        elif k == "H":
            f = msgs[mi]
            tag = (f[0], f[1], f[2])
            if f[3] == "1":
                if f[1] == str(a):
                    rsend.setdefault((b, tag), set()).add(f[4])
            elif f[3] == "2":
                E.setdefault((b, tag, f[4]), set()).add(a)
            elif f[3] == "3":
                R.setdefault((b, tag, f[4]), set()).add(a)
        elif k == "S":
            f = msgs[mi]
            tag = (f[0], f[1], f[2])
            p = a
            if f[3] == "1":
                evals += 1
                c = stack[p][-1]
                if cur_b.get(p) != f[4] or f[1] != str(p) or f[0] != "c%d" % c:
                    bad("C14/discipline/r-send-not-own-broadcast", "r-send that is not the broadcast in progress")
            elif f[3] == "2":
                evals += 1
                echo_to[(p, tag, b)] = echo_to.get((p, tag, b), 0) + 1
                if echo_to[(p, tag, b)] > 1 or echo_d.get((p, tag), f[4]) != f[4]:
                    bad("C14/discipline/second-echo", "more than one echo for a slot")
                echo_d[(p, tag)] = f[4]
                if not any(H(pl) == f[4] for pl in rsend.get((p, tag), ())):
                    bad("C14/discipline/echo-without-r-send", "echo without a matching r-send from the slot's sender")
            elif f[3] == "3":
                evals += 1
                ready_to[(p, tag, b)] = ready_to.get((p, tag, b), 0) + 1
                if ready_to[(p, tag, b)] > 1 or ready_d.get((p, tag), f[4]) != f[4]:
                    bad("C14/discipline/second-ready", "more than one ready for a slot")
                ready_d[(p, tag)] = f[4]
                ne, nr = len(E.get((p, tag, f[4]), ())), len(R.get((p, tag, f[4]), ()))
                if ne < n - t and nr < t + 1:
                    bad("C14/discipline/ready-without-quorum", "ready after %d echoes and %d readys" % (ne, nr))
        elif k == "D":
            p, who, via = a, b, x
            evals += 1
            cc = stack[p][-1]
            if cc != mi:
                bad("C14/harness/log", "harness and checker disagree about the party's channel")
            py = pay_decode(v)
            vname = ("Deliver", "DeliverFrom", "DeliverFrom-buffer")[via]
            if py is None or py[0] >= n or py[1] >= len(ctxs):
                bad("C14/creation/unknown-value", "delivered value was never a payload")
                continue
            sender, c, slot, variant = py
            if sender != who:
                bad("C14/creation/sender-mismatch", "value delivered under another sender")
            if c != cc:
                bad("C14/isolation/" + vname, "value of channel %d delivered on channel %d" % (c, cc))
            if sender not in byz and (variant != 0 or slot < 1 or slot > nb.get((sender, c), 0)):
                bad("C14/creation/value-not-broadcast", "value not broadcast by its honest sender")
            sk = (sender, c, slot)
            if via != 2:
                if sk in api_seen[p]:
                    bad("C14/no-duplication/api", "slot returned twice")
                api_seen[p].add(sk)
            if via != 1:
                if sk in rbc_seen[p]:
                    bad("C14/no-duplication/delivery", "slot delivered twice")
                rbc_seen[p].add(sk)
                if ctxs[c]["fifo"]:
                    last = fifo_last.get((p, sender, c), 0)
                    if slot != last + 1:
                        bad("C14/fifo/order", "slot %d after slot %d" % (slot, last))
                    fifo_last[(p, sender, c)] = slot
                if agreed.setdefault(sk, variant) != variant:
                    bad("C14/agreement", "two values for one slot")
            if via == 2:
                pending.setdefault((p, who), []).append((cc, v))
            if via == 1:
                pd = pending.setdefault((p, who), [])
                same = [q for q in pd if q[0] == cc]
                if same:
                    if same[0][1] != v:
                        bad("C14/fifo/deliverfrom-order", "DeliverFrom returned buffered values out of order")
                if (cc, v) in pd:
                    pd.remove((cc, v))
                elif any(q[1] == v for q in pd):
                    pd.remove([q for q in pd if q[1] == v][0])
                else:
                    bad("C14/creation/deliverfrom-unbuffered", "DeliverFrom returned a value no delivery step produced")
    if rec.get("quiescent"):
        for (p, _), pd in pending.items():
            if pd:
                bad("C14/validity/stuck-in-deliverfrom-buffer", "value left in DeliverFrom's buffer")
        for (i, c), cnt in nb.items():
            for slot in range(1, cnt + 1):
                evals += 1
                for p in honest:
                    if (i, c, slot) not in api_seen[p]:
                        bad("C14/validity/missing", "broadcast (%d,%d,%d) not delivered by %d" % (i, c, slot, p))
        allk = set()
        for p in honest:
            allk |= api_seen[p]
        for sk in allk:
            evals += 1
            for p in honest:
                if sk not in api_seen[p]:
                    bad("C14/totality", "slot %s not delivered by %d" % (sk, p))
    return out, evals


# keys the C++ monitor may raise that this checker does not model
_NOT_MODELLED = ("C14/exception/", "C14/liveness/", "C14/harness/", "C14/validity/broadcast-not-sent-to-all",
                 "C14/discipline/send-to-nonexistent-party")


def post(recs, merged):
    """offline pass over the recorded sample; returns violation dicts for the runner"""
    viols = []
    runs = evs = evals = agree = 0
    for r in recs:
        if r.get("k") != "run":
            continue
        runs += 1
        evs += len(r["ev"])
        found, ne = check_run(r)
        evals += ne
        cxx = set(k for k in r.get("cxx", []) if not k.startswith(_NOT_MODELLED))
        off = set(k for k, _ in found)
        if cxx == off:
            agree += 1
        for k, what in found:
            viols.append(dict(key=k, what="offline checker: " + what, case=r.get("case"),
                              witness=dict(cfg=r["cfg"], note="re-run the case to get the trace"), desc="", stage=0))
        if cxx != off:
            viols.append(dict(key="C14/harness/offline-disagreement",
                              what="online monitor and offline checker disagree: online %s offline %s" % (sorted(cxx), sorted(off)),
                              case=r.get("case"), witness=dict(cfg=r["cfg"]), desc="", stage=0))
    merged["obs"]["offline_checked_runs"] = runs
    merged["obs"]["offline_checked_events"] = evs
    merged["obs"]["offline_oracle_evaluations"] = evals
    merged["obs"]["offline_online_agreement"] = "%d/%d" % (agree, runs)
    return viols
