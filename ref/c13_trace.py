#!/usr/bin/env python3
"""Offline trace checker for C13 (point-to-point channels).

A trace is one JSON object (a `{"t":"rec","k":"trace",...}` line of harness/w_c13.cc):
  cls, mode, auth, enc, chunked   channel class and flags
  judge     "nofault" | "subsequence" | "prefix" | "none"   which clause of the property applies
  fault     null or {"kind","off","aux"}                      what was done to the wire
  final     the receiver was polled to quiescence after the last FEED
  cxx_ok    verdict of the C++ oracle for the same sub-case (cross-checked here)
  ev        events in the order they happened:
     ["S", link, seq, item]   Send returned true for item (decimal string, or list of strings = array)
     ["W", link, 0, hex]      bytes the harness holds for the link (after the fault, if any)
     ["F", link, off, len]    bytes [off, off+len) of W written to the receiver's descriptor
     ["E", link]              end-of-file on the link
     ["R", link, item]        Receive returned true with item

The checker is independent of the C++ oracle: it re-derives the verdict from the events only.
  nofault      at every R the items received on a link are a prefix (item-wise, arrays element-wise) of
               the items sent on it; when final and every wire byte was fed: equality
  subsequence  flattened received values are a subsequence of the flattened sent values
  prefix       flattened received values are a prefix of the flattened sent values
Also checked: FEED events are a fragmentation of W (contiguous, inside the wire).

CLI:  python3 ref/c13_trace.py shard00.a1.jsonl [...]   -> prints one line per trace that fails
"""
import json
import sys


def _norm(item):
    if isinstance(item, list):
        return ("A", tuple(int(x) for x in item))
    return ("S", (int(item),))


def _flat(items):
    out = []
    for _, vs in items:
        out.extend(vs)
    return out


def _is_prefix(a, b):
    return len(a) <= len(b) and all(x == y for x, y in zip(a, b))


def _is_subseq(a, b):
    j = 0
    for x in a:
        while j < len(b) and b[j] != x:
            j += 1
        if j == len(b):
            return False
        j += 1
    return True


def check_trace(t):
    """returns (problems, malformed): problems = list of (kind, text) property violations seen in the trace,
    malformed = list of texts (the trace itself is inconsistent: harness defect)"""
    sent, got, wire, fed, eof = {}, {}, {}, {}, set()
    problems, malformed = [], []
    judge = t.get("judge", "none")
    for ev in t["ev"]:
        k, link = ev[0], ev[1]
        if k == "S":
            q = sent.setdefault(link, [])
            if ev[2] != len(q):
                malformed.append("SEND sequence number %s on link %s, expected %d" % (ev[2], link, len(q)))
            q.append(_norm(ev[3]))
        elif k == "W":
            wire[link] = bytes.fromhex(ev[3])
        elif k == "F":
            off, ln = ev[2], ev[3]
            if link not in wire and judge != "nofault":
                malformed.append("FEED on link %s without WIRE" % link)
            if off != fed.get(link, 0):
                malformed.append("FEED offset %d on link %s, expected %d (not a fragmentation)" % (off, link, fed.get(link, 0)))
            if link in wire and off + ln > len(wire[link]):
                malformed.append("FEED beyond the wire on link %s" % link)
            if link in eof:
                malformed.append("FEED after EOF on link %s" % link)
            fed[link] = off + ln
        elif k == "E":
            eof.add(link)
        elif k == "R":
            g = got.setdefault(link, [])
            g.append(_norm(ev[2]))
            if judge == "nofault" and not _is_prefix(g, sent.get(link, [])):
                if not any(p[0] == "not-a-prefix" for p in problems):
                    problems.append(("not-a-prefix", "link %s: item #%d received %r is not item #%d sent" % (link, len(g), ev[2], len(g))))
        else:
            malformed.append("unknown event %r" % (k,))
    links = set(sent) | set(got) | set(wire)
    if judge == "nofault":
        if t.get("final"):
            for link in sorted(links):
                if link in wire and fed.get(link, 0) != len(wire[link]):
                    continue   # not everything fed: only the prefix clause applies
                if got.get(link, []) != sent.get(link, []) and not problems:
                    problems.append(("incomplete", "link %s: %d items sent, %d received after all %d bytes were fed" %
                                     (link, len(sent.get(link, [])), len(got.get(link, [])), fed.get(link, 0))))
    elif judge in ("subsequence", "prefix"):
        for link in sorted(links):
            g, s = _flat(got.get(link, [])), _flat(sent.get(link, []))
            if judge == "subsequence" and not _is_subseq(g, s):
                problems.append(("not-a-subsequence", "link %s: received values %r are not a subsequence of the sent values" % (link, g[:8])))
            if judge == "prefix" and not _is_prefix(g, s):
                problems.append(("not-a-prefix", "link %s: received values %r are not a prefix of the sent values" % (link, g[:8])))
    return problems, malformed


def key_for(t, kind):
    cls = t.get("cls", "?")
    judge = t.get("judge")
    if t.get("family") == "negative":
        return "C13/%s/send/negative-accepted-not-delivered" % cls
    if judge == "nofault":
        return "C13/%s/nofault/%s" % (cls, kind)
    if judge == "subsequence":
        return "C13/%s/fault-byte/not-a-subsequence" % cls
    if judge == "prefix":
        return "C13/%s/fault-record/not-a-prefix" % cls
    return "C13/%s/trace/%s" % (cls, kind)


def check_records(recs):
    """recs: iterable of dicts (records of the run).  returns dict(checked, violations, disagreements, malformed)"""
    out = dict(checked=0, violations=[], disagreements=[], malformed=[], by_judge={})
    for r in recs:
        if r.get("k") != "trace":
            continue
        out["checked"] += 1
        out["by_judge"][r.get("judge")] = out["by_judge"].get(r.get("judge"), 0) + 1
        problems, malformed = check_trace(r)
        ident = "%s %s %s/%s case %s" % (r.get("cls"), r.get("mode"), r.get("family"), r.get("sub"), r.get("case"))
        for m in malformed:
            out["malformed"].append("%s: %s" % (ident, m))
        py_ok = not problems
        if r.get("cxx_key") == "bad-link":
            continue   # sender index reported by Receive: not visible in the events
        if py_ok != bool(r.get("cxx_ok")):
            out["disagreements"].append("%s: offline checker %s, C++ oracle %s %s" %
                                        (ident, "ok" if py_ok else problems[0], "ok" if r.get("cxx_ok") else "violation", r.get("cxx_key", "")))
        for kind, text in problems:
            out["violations"].append(dict(key=key_for(r, kind), what="offline trace checker: " + text, case=r.get("case"),
                                          witness=dict(cls=r.get("cls"), mode=r.get("mode"), family=r.get("family"), sub=r.get("sub"),
                                                       fault=r.get("fault"), sched=r.get("sched"), events=r["ev"][:60]),
                                          desc="%s/%s" % (r.get("family"), r.get("sub"))))
    return out


def main(argv):
    bad = 0
    n = 0
    for path in argv[1:]:
        with open(path, errors="replace") as f:
            recs = []
            for line in f:
                line = line.strip()
                if not line.startswith("{"):
                    continue
                try:
                    o = json.loads(line)
                except ValueError:
                    continue
                if o.get("t") == "rec":
                    recs.append(o)
        res = check_records(recs)
        n += res["checked"]
        for v in res["violations"]:
            print("VIOLATION %s case=%s %s" % (v["key"], v["case"], v["what"]))
            bad += 1
        for d in res["disagreements"]:
            print("DISAGREEMENT " + d)
            bad += 1
        for m in res["malformed"]:
            print("MALFORMED " + m)
            bad += 1
    print("%d traces checked, %d problems" % (n, bad))
    return 1 if bad else 0


if __name__ == "__main__":
    sys.exit(main(sys.argv))
