// c09_common.hh — shared helpers of the C09 driver (arithmetic primitives)
#pragma once
#include "engine.hh"
#include <gcrypt.h>
#include <algorithm>
#include <map>
#include <memory>
#include <set>
#include <stdexcept>

namespace c09 {
using namespace vf;

struct Z {   // RAII mpz
	mpz_t v;
	Z() { mpz_init(v); }
	explicit Z(unsigned long u) { mpz_init_set_ui(v, u); }
	Z(const Z &o) { mpz_init_set(v, o.v); }
	Z &operator=(const Z &o) { mpz_set(v, o.v); return *this; }
	~Z() { mpz_clear(v); }
	operator mpz_ptr() { return v; }
	operator mpz_srcptr() const { return v; }
	__mpz_struct *operator->() { return v; }               // GMP's macros (mpz_sgn, mpz_odd_p, ...) use ->
	const __mpz_struct *operator->() const { return v; }
};

// ------------------------------------------------------------ run options
struct Opt {
	long frac = 1;            // sample mode: run 1/frac of the sweep cases ("san" stage)
	std::string fam;          // restrict to families (development): comma list
	long recmul = 1;          // multiplies record sampling denominators
};
extern Opt opt;
inline bool fam_on(const char *f) { if (opt.fam.empty()) return true; return ("," + opt.fam + ",").find(std::string(",") + f + ",") != std::string::npos; }
// sweep cases are thinned in sample mode; `always` families ignore it
inline bool thin_out(long k) { if (opt.frac <= 1) return false; Rng r(ctx.seed, (uint64_t)k, 0x5a5a); return (r.next() % (uint64_t)opt.frac) != 0; }
// cheap families (conversion, Bigint, small prime draws) keep a third of their cases in sample mode
inline bool thin_light(long k) { if (opt.frac <= 1) return false; Rng r(ctx.seed, (uint64_t)k, 0xa5a5); return (r.next() % 3) != 0; }

// ------------------------------------------------------------ violations (bounded per key)
extern std::map<std::string, int> g_vcount;
inline void viol(const std::string &key, const std::string &what, const J &w) {
	int &c = g_vcount[key]; c++;
	if (c <= 3) violation(key, what, w.str()); else count("violations_not_printed");
}

// ------------------------------------------------------------ exceptions
enum Exc { X_NONE = 0, X_INVARG, X_DOMAIN, X_RUNTIME, X_OTHER };
inline const char *exc_name(int x) { static const char *n[] = {"", "invalid_argument", "domain_error", "runtime_error", "std::exception"}; return n[x]; }
template <class F> Exc guard(F f, std::string *what = nullptr) {
	try { f(); return X_NONE; }
	catch (std::invalid_argument &e) { if (what) *what = e.what(); return X_INVARG; }
	catch (std::domain_error &e) { if (what) *what = e.what(); return X_DOMAIN; }
	catch (std::runtime_error &e) { if (what) *what = e.what(); return X_RUNTIME; }
	catch (std::exception &e) { if (what) *what = e.what(); return X_OTHER; }
}

// ------------------------------------------------------------ small number theory on machine words
typedef unsigned long ul;
inline ul mulmod(ul a, ul b, ul m) { return (ul)((unsigned __int128)a * b % m); }
inline ul powmod(ul b, ul e, ul m) { ul r = 1 % m; b %= m; while (e) { if (e & 1) r = mulmod(r, b, m); b = mulmod(b, b, m); e >>= 1; } return r; }
inline ul gcd_ul(ul a, ul b) { while (b) { ul t = a % b; a = b; b = t; } return a; }
inline std::vector<ul> primes_below(ul n) { std::vector<bool> s(n, true); std::vector<ul> r; for (ul i = 2; i < n; i++) { if (!s[i]) continue; r.push_back(i); for (ul j = i * i; j < n; j += i) s[j] = false; } return r; }

// own Miller-Rabin ("the other tester" in the driver; the Python checker has a third one)
inline bool mr_prime(mpz_srcptr n, int rounds, Rng &r) {
	if (mpz_cmp_ui(n, 2) < 0) return false;
	static const ul sp[] = {2, 3, 5, 7, 11, 13, 17, 19, 23, 29, 31, 37};
	for (ul p : sp) { if (mpz_cmp_ui(n, p) == 0) return true; if (mpz_divisible_ui_p(n, p)) return false; }
	Z d, nm1, a, x; mpz_sub_ui(nm1, n, 1); ul s = mpz_scan1(nm1, 0); mpz_tdiv_q_2exp(d, nm1, s);
	for (int i = 0; i < rounds; i++) {
		Z span; mpz_sub_ui(span, n, 3); r.mpz_below(a, span); mpz_add_ui(a, a, 2);
		mpz_powm(x, a, d, n);
		if (!mpz_cmp_ui(x, 1) || !mpz_cmp(x, nm1)) continue;
		bool comp = true;
		for (ul j = 1; j < s; j++) { mpz_mul(x, x, x); mpz_mod(x, x, n); if (!mpz_cmp(x, nm1)) { comp = false; break; } if (!mpz_cmp_ui(x, 1)) break; }
		if (comp) return false;
	}
	return true;
}

// random odd prime with exactly `bits` bits and p % md == res (harness-made, independent of the library generators)
inline void harness_prime(mpz_ptr p, size_t bits, Rng &r, ul md = 2, ul res = 1) {
	for (;;) {
		r.mpz_bits(p, bits); mpz_setbit(p, bits - 1);
		ul cur = mpz_fdiv_ui(p, md); mpz_sub_ui(p, p, cur); mpz_add_ui(p, p, res);
		if (mpz_sizeinbase(p, 2) != bits) continue;
		for (int i = 0; i < 4000; i++) { if (mpz_probab_prime_p(p, 30)) { if (mpz_sizeinbase(p, 2) == bits) return; break; } mpz_add_ui(p, p, md); }
	}
}

struct CaseStat { long long evals = 0, distinct = 0; std::string sample; };

} // namespace c09
