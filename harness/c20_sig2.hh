// c20_sig2.hh — signatures over keys and user IDs (certification, binding, revocation,
// direct key, standalone, timestamp, attestation; v4 and v5) and whole key blocks
#pragma once
#include "c20_sig.hh"

namespace c20 {

// a v5 re-encoding of the same key material
inline std::shared_ptr<KeyMat> v5_of(const KeyMat &k) { auto c = std::make_shared<KeyMat>(k); c->version = 5; encode_public(*c); c->ok = !c->pub.empty() && !c->pub_body.empty(); return c; }

static const char *KSTYPES[] = {"cert10", "cert11", "cert12", "cert13", "selfsig13", "uatcert13", "bind18", "pbind19", "direct1F", "rev20", "rev28", "rev30",
	"standalone02", "timestamp40", "attest16", "v5standalone02", "v5cert13", "v5bind18", nullptr};

struct SignedPart { std::string name; Oct pkt; int role; bool self; };   // role 1: h1 (key packet), 2: h2 (subkey packet), 3: uid packet

inline int pick_hash(const std::string &key, int i) { for (int j = 0; j < 9; j++) { int h = HASHES[(i + j) % 9]; if (spec_hash_fits(key, h)) return h; } return 8; }

inline void run_keysig(long &kc) {
	std::vector<std::pair<std::string, std::string>> cases;
	for (size_t t = 0; KSTYPES[t]; t++) for (auto &kn : sigkeys()) cases.push_back({KSTYPES[t], kn});
	int ci = 0;
	for (auto &c : cases) {
		long me = kc++; int myci = ci++;
		std::vector<int> hs; if (g_thorough) { for (int h : HASHES) if (spec_hash_fits(c.second, h)) hs.push_back(h); } else hs.push_back(pick_hash(c.second, myci));
		// in the thorough tier one case per hash (case numbers stay deterministic: the list depends on static data only)
		for (size_t hi = 0; hi < hs.size(); hi++) {
			long mycase = hi == 0 ? me : kc++;
			int h = hs[hi]; const std::string &ty = c.first;
			J d; d.kv("kind", "keysig").kv("sigtype", ty).kv("key", c.second).kv("hash", hashname(h));
			if (!case_begin(mycase, d.str())) continue;
			Stats st; Rng r = case_rng(mycase, 21); tl_rng = &r; g_vtime = NOW0;
			auto K = KR.get(c.second);
			std::string other = c.second == "p256" ? "ed25519" : "p256";
			auto O = KR.get(other); auto S = KR.get("elg1024");
			if (!K->ok || !O->ok || !S->ok) { count("skipped/key-unavailable/" + c.second); tl_rng = nullptr; case_end(d.str(), false, J().kv("skipped", K->err + O->err + S->err).str()); continue; }
			bool v5 = ty.compare(0, 2, "v5") == 0;
			std::shared_ptr<KeyMat> K5, S5; if (v5) { K5 = v5_of(*K); S5 = v5_of(*S); }
			const KeyMat &SK = v5 ? *K5 : *K;        // the signing key (its encoding matters for fingerprints and hashing)
			tmcg_openpgp_pkalgo_t pa = (tmcg_openpgp_pkalgo_t)K->algo; tmcg_openpgp_hashalgo_t ha = (tmcg_openpgp_hashalgo_t)h;
			time_t sigtime = NOW0 - 1000, sigexp = 0;
			std::string uid = "Alice Example (c20 " + std::to_string(myci) + ") <alice@example.invalid>";
			Oct uidpkt, uat, empty, trailer, hash, left, flags; flags.push_back(0x03);
			PGP::PacketUidEncode(uid, uidpkt);
			SigTarget T; std::vector<SignedPart> parts; gcry_sexp_t vkey = K->key; time_t vkeyct = K->ctime;
			std::string kind = "keysig";
			auto cert = [&](int sigtype, const KeyMat &target, bool self) {
				if (myci % 2) sigexp = 7000;
				PGP::PacketSigPrepareCertificationSignature((tmcg_openpgp_signature_t)sigtype, pa, ha, sigtime, sigexp, "https://example.invalid/policy", SK.fpr, trailer);
				PGP::CertificationHash(target.pub_body, uid, empty, trailer, ha, hash, left);
				T.k = S_CERT; T.h1 = target.pub_body; T.uid = uid; parts.push_back({"key", target.pub, 1, self}); parts.push_back({"uid", uidpkt, 3, false});
			};
			if (ty == "cert10") cert(0x10, *O, false);
			else if (ty == "cert11") cert(0x11, *O, false);
			else if (ty == "cert12") cert(0x12, *O, false);
			else if (ty == "cert13") cert(0x13, *O, false);
			else if (ty == "selfsig13") {
				PGP::PacketSigPrepareSelfSignature(TMCG_OPENPGP_SIGNATURE_POSITIVE_CERTIFICATION, pa, ha, sigtime, 86400 * 365, flags, K->fpr, (myci % 2) == 0, trailer);
				PGP::CertificationHash(K->pub_body, uid, empty, trailer, ha, hash, left);
				T.k = S_CERT; T.h1 = K->pub_body; T.uid = uid; parts.push_back({"key", K->pub, 1, true}); parts.push_back({"uid", uidpkt, 3, false});
			} else if (ty == "uatcert13") {
				// user attribute: image subpacket header + arbitrary octets
				uat = gen_bin(40 + r.below(60), r); uat[0] = (tmcg_openpgp_byte_t)(uat.size() - 1); uat[1] = 1;
				PGP::PacketSigPrepareCertificationSignature(TMCG_OPENPGP_SIGNATURE_POSITIVE_CERTIFICATION, pa, ha, sigtime, 0, "", K->fpr, trailer);
				PGP::CertificationHash(K->pub_body, "", uat, trailer, ha, hash, left);
				T.k = S_UAT; T.h1 = K->pub_body; T.uat = uat; parts.push_back({"key", K->pub, 1, true});
			} else if (ty == "bind18") {
				Oct fl; fl.push_back(0x0C);
				PGP::PacketSigPrepareSelfSignature(TMCG_OPENPGP_SIGNATURE_SUBKEY_BINDING, pa, ha, sigtime, 0, fl, K->fpr, false, trailer);
				PGP::KeyHash(K->pub_body, S->sub_body, trailer, ha, hash, left);
				T.k = S_KEYSUB; T.h1 = K->pub_body; T.h2 = S->sub_body; parts.push_back({"key", K->pub, 1, true}); parts.push_back({"sub", S->subp, 2, false});
			} else if (ty == "pbind19") {
				// K acts as signing subkey of primary O: the primary key binding signature is made by the subkey
				Oct fl;
				PGP::PacketSigPrepareSelfSignature(TMCG_OPENPGP_SIGNATURE_PRIMARY_KEY_BINDING, pa, ha, sigtime, 0, fl, K->sub_fpr, false, trailer);
				PGP::KeyHash(O->pub_body, K->sub_body, trailer, ha, hash, left);
				T.k = S_KEYSUB; T.h1 = O->pub_body; T.h2 = K->sub_body; parts.push_back({"key", O->pub, 1, false}); parts.push_back({"sub", K->subp, 2, false});
			} else if (ty == "direct1F") {
				PGP::PacketSigPrepareDesignatedRevoker(pa, ha, sigtime, flags, K->fpr, (tmcg_openpgp_pkalgo_t)O->algo, O->fpr, (myci % 2) == 0, trailer);
				PGP::KeyHash(K->pub_body, trailer, ha, hash, left);
				T.k = S_KEY; T.h1 = K->pub_body; parts.push_back({"key", K->pub, 1, true});
			} else if (ty == "rev20") {
				PGP::PacketSigPrepareRevocationSignature(TMCG_OPENPGP_SIGNATURE_KEY_REVOCATION, pa, ha, sigtime, TMCG_OPENPGP_REVCODE_KEY_COMPROMISED, "stolen", K->fpr, trailer);
				PGP::KeyHash(K->pub_body, trailer, ha, hash, left);
				T.k = S_KEY; T.h1 = K->pub_body; parts.push_back({"key", K->pub, 1, true});
			} else if (ty == "rev28") {
				PGP::PacketSigPrepareRevocationSignature(TMCG_OPENPGP_SIGNATURE_SUBKEY_REVOCATION, pa, ha, sigtime, TMCG_OPENPGP_REVCODE_KEY_RETIRED, "", K->fpr, trailer);
				PGP::KeyHash(K->pub_body, S->sub_body, trailer, ha, hash, left);
				T.k = S_KEYSUB; T.h1 = K->pub_body; T.h2 = S->sub_body; parts.push_back({"key", K->pub, 1, true}); parts.push_back({"sub", S->subp, 2, false});
			} else if (ty == "rev30") {
				PGP::PacketSigPrepareRevocationSignature(TMCG_OPENPGP_SIGNATURE_CERTIFICATION_REVOCATION, pa, ha, sigtime, TMCG_OPENPGP_REVCODE_UID_NO_LONGER_VALID, "moved", K->fpr, trailer);
				PGP::CertificationHash(K->pub_body, uid, empty, trailer, ha, hash, left);
				T.k = S_CERT; T.h1 = K->pub_body; T.uid = uid; parts.push_back({"key", K->pub, 1, true}); parts.push_back({"uid", uidpkt, 3, false});
			} else if (ty == "standalone02") {
				if (myci % 2) sigexp = 7000;
				PGP::PacketSigPrepareDetachedSignature(TMCG_OPENPGP_SIGNATURE_STANDALONE, pa, ha, sigtime, sigexp, "", K->fpr, trailer);
				PGP::StandaloneHash(trailer, ha, hash, left); T.k = S_STANDALONE;
			} else if (ty == "timestamp40") {
				tmcg_openpgp_notations_t nots; tmcg_openpgp_notation_t n; n.first = str2oct("serial@example.invalid"); n.second = str2oct(std::to_string(myci)); nots.push_back(n);
				Oct th = gen_bin(32, r);
				PGP::PacketSigPrepareTimestampSignature(pa, ha, sigtime, "", K->fpr, TMCG_OPENPGP_PKALGO_RSA, TMCG_OPENPGP_HASHALGO_SHA256, th, nots, trailer);
				PGP::StandaloneHash(trailer, ha, hash, left); T.k = S_STANDALONE;
			} else if (ty == "attest16") {
				tmcg_openpgp_notations_t nots; Oct ac = gen_bin(PGP::AlgorithmHashLength(ha) * 2, r);
				PGP::PacketSigPrepareAttestationSignature(pa, ha, sigtime, "", K->fpr, ac, nots, trailer);
				PGP::CertificationHash(K->pub_body, uid, empty, trailer, ha, hash, left);
				T.k = S_CERT; T.h1 = K->pub_body; T.uid = uid; parts.push_back({"key", K->pub, 1, true}); parts.push_back({"uid", uidpkt, 3, false});
			} else if (ty == "v5standalone02") {
				PGP::PacketSigPrepareDetachedSignatureV5(TMCG_OPENPGP_SIGNATURE_STANDALONE, pa, ha, sigtime, 0, "", K5->fpr, trailer);
				PGP::StandaloneHashV5(trailer, ha, hash, left); T.k = S_STANDALONE;
			} else if (ty == "v5cert13") {
				PGP::PacketSigPrepareDetachedSignatureV5(TMCG_OPENPGP_SIGNATURE_POSITIVE_CERTIFICATION, pa, ha, sigtime, 0, "", K5->fpr, trailer);
				PGP::CertificationHashV5(K5->pub_body, uid, empty, trailer, ha, hash, left);
				T.k = S_CERT; T.h1 = K5->pub_body; T.uid = uid; parts.push_back({"key", K5->pub, 1, true}); parts.push_back({"uid", uidpkt, 3, false});
			} else if (ty == "v5bind18") {
				PGP::PacketSigPrepareDetachedSignatureV5(TMCG_OPENPGP_SIGNATURE_SUBKEY_BINDING, pa, ha, sigtime, 0, "", K5->fpr, trailer);
				PGP::KeyHashV5(K5->pub_body, S5->sub_body, trailer, ha, hash, left);
				T.k = S_KEYSUB; T.h1 = K5->pub_body; T.h2 = S5->sub_body; parts.push_back({"key", K5->pub, 1, true}); parts.push_back({"sub", S5->subp, 2, false});
			}
			if (ty == "pbind19") { vkey = K->key; }
			Oct sigpkt; std::string serr;
			if (hash.empty() || !sign_hash(*K, h, hash, trailer, left, sigpkt, &serr)) {
				count(std::string("sign_refused/") + pkname(K->algo) + "/" + hashname(h)); tl_rng = nullptr; case_end(d.str(), false, J().kv("sign_refused", serr).str()); continue;
			}
			std::string cj = J().raw("case", d.str()).kv("sig_hex", hexs(sigpkt, 4096)).kv("uid", uid).kv("h1_hex", hexs(T.h1, 2048)).kv("h2_hex", hexs(T.h2, 2048)).raw("key", keyctx(*K)).str();
			SigRes p = lib_check(sigpkt, vkey, T, vkeyct); st.evals++;
			count(std::string("art/keysig/") + pkname(K->algo)); count(std::string("art_hash/keysig/") + hashname(h)); count("art_type/keysig/" + ty);
			if (!(p.parsed && p.crypto)) viol("C20/positive/keysig-rejected/" + ty, std::string("the library does not verify the ") + ty + " signature it produced (parsed=" + (p.parsed ? "1" : "0") + ")", cj);
			else { st.reached = true; count("positive/keysig"); }
			if (st.reached) {
				{ Layout LS = walk(sigpkt);
				  sweep(kind, "sig", sigpkt, LS, sig_judged, p.sem, [&](const Oct &t) { Acc A; SigRes q = lib_check(t, vkey, T, vkeyct); A.accepted = q.parsed && q.crypto; A.sem = q.sem; return A; }, r, cj, st); }
				unhashed_injection(kind, sigpkt, vkey, T, vkeyct, sigtime, p.sem, cj, st);
				for (auto &sp : parts) {
					Layout LP = walk(sp.pkt);
					Oct body0; PGP::PacketBodyExtract(sp.pkt, 0, body0);
					g_cur_aux = &sigpkt;
					sweep(kind, sp.name, sp.pkt, LP, [&](const std::string &reg) { return keybody_region(reg) || rsuffix(reg) == "body"; }, hex(body0),
						[&](const Oct &t) {
							Acc A; SigTarget T2 = T;
							if (sp.self) {        // the tampered packet is also the verification key
								TMCG_OpenPGP_Pubkey *pub = parse_pub(t); if (!pub) return A;
								T2.h1 = pub->pub_hashing; A.sem = hex(pub->pub_hashing);
								SigRes q = lib_check(sigpkt, pub->key, T2, pub->creationtime); A.accepted = q.parsed && q.crypto; delete pub; return A;
							}
							Oct body; tmcg_openpgp_byte_t tg = 0; bool ok = accepted([&] { tg = PGP::PacketBodyExtract(t, 0, body); return tg != 0; });
							if (!ok) return A;
							A.sem = hex(body);
							if (sp.role == 1) T2.h1 = body; else if (sp.role == 2) T2.h2 = body; else T2.uid = std::string(body.begin(), body.end());
							SigRes q = lib_check(sigpkt, vkey, T2, vkeyct); A.accepted = q.parsed && q.crypto; return A; }, r, cj, st);
				}
				if (T.k == S_UAT) {
					Layout LU; LU.total = uat.size(); LU.add(0, uat.size(), "uat.octets");
					sweep(kind, "uat", uat, LU, [](const std::string &) { return true; }, "", [&](const Oct &t) { Acc A; SigTarget T2 = T; T2.uat = t; SigRes q = lib_check(sigpkt, vkey, T2, vkeyct); A.accepted = q.parsed && q.crypto; return A; }, r, cj, st);
				}
				// certification over a key must not verify as certification of another user ID / as another signature class
				if (T.k == S_CERT) { SigTarget T2 = T; T2.uid += " "; SigRes q = lib_check(sigpkt, vkey, T2, vkeyct); st.evals++; count("flip/keysig/uid.append"); if (q.parsed && q.crypto) viol("C20/tamper-accepted/keysig/uid.append", "certification verifies for a longer user ID", cj); }
				if (T.k == S_KEYSUB) { SigTarget T2 = T; std::swap(T2.h1, T2.h2); SigRes q = lib_check(sigpkt, vkey, T2, vkeyct); st.evals++; count("flip/keysig/key.swap-primary-subkey"); if (q.parsed && q.crypto) viol("C20/tamper-accepted/keysig/key.swap-primary-subkey", "binding verifies with primary and subkey exchanged", cj); }
				validity_checks(kind, sigpkt, vkey, T, sigtime, sigexp, h, cj, st);
			}
			st.sample = J().raw("case", d.str()).kv("sig_octets", (long long)sigpkt.size()).kv("oracle_evaluations", st.evals).str();
			tl_rng = nullptr; g_vtime = NOW0;
			case_end(d.str(), st.reached, st.sample, st.evals, (long long)st.distinct.size());
		}
	}
}

// ------------------------------------------------------------------ whole key blocks (what applications import)
struct BlockSem { bool parsed = false, selfok = false, subok = false; std::set<std::string> comp; };
inline BlockSem check_block(const Oct &blk) {
	BlockSem B; TMCG_OpenPGP_Pubkey *pub = nullptr;
	bool ok = accepted([&] { return PGP::PublicKeyBlockParse(blk, 0, pub); });
	if (!ok || !pub) return B;
	B.parsed = true;
	TMCG_OpenPGP_Keyring *ring = new TMCG_OpenPGP_Keyring();
	B.selfok = accepted([&] { return pub->CheckSelfSignatures(ring, 0); });
	if (B.selfok) {
		B.comp.insert("P|" + hex(pub->pub_hashing));
		for (auto u : pub->userids) if (u->valid) { B.comp.insert("U|" + u->userid); for (auto s : u->selfsigs) if (s->valid) B.comp.insert("USIG|" + sig_sem(s)); }
		B.subok = accepted([&] { return pub->CheckSubkeys(ring, 0); });
		for (auto s : pub->subkeys) if (s->valid) { B.comp.insert("S|" + hex(s->sub_hashing)); for (auto b : s->bindsigs) if (b->valid) B.comp.insert("SSIG|" + sig_sem(b)); }
	}
	delete ring; delete pub;
	return B;
}
inline std::string comp_str(const std::set<std::string> &c) { std::string s; for (auto &x : c) s += shorten(x, 120) + " ; "; return s; }

inline void run_keyblock(long &kc) {
	struct BC { const char *prim, *sub; int hash; const char *variant; };
	std::vector<BC> cases = {{"rsa1024", "elg1024", 8, "ok"}, {"dsa1024", "elg1024", 8, "ok"}, {"p256", "ecdh-p256", 8, "ok"}, {"ed25519", "ecdh-cv25519", 10, "ok"},
		{"rsa2048", "rsa1024", 9, "ok"}, {"dsa2048", "elg1024", 10, "ok"}, {"p384", "ecdh-p384", 9, "ok"}, {"bp256", "elg1024", 8, "ok"}, {"p521", "rsa1024", 10, "ok"},
		{"rsa1024", "elg1024", 2, "weak-selfsig"}, {"ed25519", "ecdh-cv25519", 1, "weak-selfsig"}, {"dsa1024", "elg1024", 3, "weak-selfsig"}, {"p256", "ecdh-p256", 11, "weak-selfsig"},
		{"rsa1024", "elg1024", 8, "selfsig-older-than-key"}, {"ed25519", "ecdh-cv25519", 8, "selfsig-in-future"}, {"p256", "ecdh-p256", 8, "weak-binding"}, {"dsa1024", "elg1024", 8, "binding-older-than-subkey"}};
	if (g_thorough) for (auto &kn : sigkeys()) for (const char *sb : {"elg1536", "ecdh-p256", "ecdh-cv25519", "rsa2048"}) cases.push_back({strdup(kn.c_str()), sb, 8, "ok"});
	for (auto &c : cases) {
		long me = kc++;
		J d; d.kv("kind", "keyblock").kv("primary", c.prim).kv("subkey", c.sub).kv("hash", hashname(c.hash)).kv("variant", c.variant);
		if (!case_begin(me, d.str())) continue;
		Stats st; Rng r = case_rng(me, 22); tl_rng = &r; g_vtime = NOW0;
		auto K = KR.get(c.prim); auto S = KR.get(c.sub);
		if (!K->ok || !S->ok) { count(std::string("skipped/key-unavailable/") + (K->ok ? c.sub : c.prim)); tl_rng = nullptr; case_end(d.str(), false, J().kv("skipped", K->err + S->err).str()); continue; }
		std::string v = c.variant, uid = std::string("Key Block ") + c.prim + " <kb@example.invalid>";
		Oct uidpkt, selfsig, bind; PGP::PacketUidEncode(uid, uidpkt);
		SelfSigOpt o; o.hashalgo = c.hash; o.sigtime = K->ctime + 100; o.keyexp = 86400 * 3650;
		if (v == "selfsig-older-than-key") o.sigtime = K->ctime - 5;
		if (v == "selfsig-in-future") o.sigtime = NOW0 + 86400 * 10;
		int bh = (v == "weak-binding") ? 2 : (strong_hash(c.hash) && c.hash != 12 && c.hash != 14) ? c.hash : 8;
		time_t bt = K->ctime + 200; if (v == "binding-older-than-subkey") bt = S->ctime - 5;
		std::string e1, e2;
		if (!spec_hash_fits(c.prim, o.hashalgo) || !make_selfsig(*K, uid, o, selfsig, &e1) || !make_binding(*K, *S, bh, bt, 0x0C, bind, &e2)) {
			count(std::string("sign_refused/") + pkname(K->algo) + "/" + hashname(c.hash)); tl_rng = nullptr; case_end(d.str(), false, J().kv("sign_refused", e1 + e2).str()); continue; }
		Oct blk = cat(cat(cat(cat(K->pub, uidpkt), selfsig), S->subp), bind);
		Layout L = walk(blk, {"key", "uid", "uidsig", "sub", "bindsig"});
		std::string cj = J().raw("case", d.str()).kv("keyblock_hex", hexs(blk, 8192)).str();
		BlockSem B0 = check_block(blk); st.evals++;
		count(std::string("art/keyblock/") + pkname(K->algo)); count(std::string("art_sub/keyblock/") + pkname(S->algo)); count("art_variant/keyblock/" + v);
		if (v == "ok") {
			if (!(B0.parsed && B0.selfok && B0.subok)) viol("C20/positive/keyblock-rejected", std::string("parse/CheckSelfSignatures/CheckSubkeys = ") + (B0.parsed ? "1" : "0") + (B0.selfok ? "1" : "0") + (B0.subok ? "1" : "0") + " on a key block made with the library", cj);
			else { st.reached = true; count("positive/keyblock"); }
			if (st.reached) {
				std::string sem0 = comp_str(B0.comp);
				g_cur_kind = "keyblock"; g_cur_part = "block"; g_cur_art = &blk;
				std::vector<size_t> pos = positions(L, blk.size(), r, g_thorough ? 4096 : 150, g_thorough ? 900 : 260);
				std::vector<unsigned> mk = masks(r); Oct t(blk);
				for (size_t p : pos) {
					const std::string &reg = L.at(p); std::string pre = reg.substr(0, reg.find('.')), suf = rsuffix(reg);
					g_cur_region = reg; g_cur_pos = (long)p;
					bool prim_judged = (pre == "key" && keybody_region(reg)) || (pre == "uid" && suf == "body") || (pre == "uidsig" && (suf == "hashed" || suf == "mpi_val"));
					bool sub_judged = (pre == "sub" && keybody_region(reg)) || (pre == "bindsig" && (suf == "hashed" || suf == "mpi_val"));
					std::vector<unsigned> mk2(mk);
					{ const Region *rg = L.region_at(p);
					  if (rg && rg->off == p && suf == "mpi_val") for (unsigned v : {0x00u, 0x02u, 0x03u, 0x04u, 0x40u, 0x41u, 0xFFu}) { unsigned m = blk[p] ^ v; if (m && std::find(mk2.begin(), mk2.end(), m) == mk2.end()) mk2.push_back(m); } }
					for (unsigned m : mk2) {
						t[p] = blk[p] ^ m; g_cur_mask = m;
						BlockSem B = check_block(t); st.evals++; count("flip/keyblock/" + reg);
						bool bad = false; std::string why;
						for (auto &x : B.comp) if (!B0.comp.count(x)) { bad = true; why = "content that is not in the original key block was validated: " + shorten(x, 200); }
						if (!bad && prim_judged && B.selfok) { bad = true; why = "primary key still validates (CheckSelfSignatures true)"; }
						if (!bad && sub_judged && B.selfok && B.subok) { bad = true; why = "subkey still validates (CheckSubkeys true)"; }
						if (bad) viol(std::string("C20/tamper-accepted/keyblock/") + reg, why, J().kv("region", reg).kv("offset", (long long)p).kv("xor_mask", (long long)m).kv("validated", shorten(comp_str(B.comp), 800)).raw("ctx", cj).str());
						else if (B.selfok && B.comp == B0.comp) count("equiv_accepted/keyblock/" + reg);
					}
					t[p] = blk[p];
					st.distinct.insert("keyblock/" + reg + "/" + std::to_string(p));
				}
				g_cur_art = nullptr;
				// second judge: gpg --import
				mkdir("c20gpg", 0700); std::string fn = "c20gpg/kb" + std::to_string(me) + ".pgp";
				if (write_file(fn, blk)) record(J().kv("k", "gpgimport").kv("dir", g_cwd).kv("file", fn).kv("primary", c.prim).kv("subkey", c.sub).kv("hash", hashname(c.hash)).kv("time", (long long)NOW0).str());
			}
		} else {
			// validity variants through the object model: the affected component must not validate
			st.reached = B0.parsed;
			bool primary_variant = v == "weak-selfsig" || v == "selfsig-older-than-key" || v == "selfsig-in-future";
			count("validity/keyblock/" + v);
			if (primary_variant && B0.selfok) viol("C20/validity/keyblock/" + v + "-accepted", "CheckSelfSignatures accepts a key block whose only self-signature is " + v, cj);
			if (!primary_variant && (!B0.selfok || B0.subok)) viol("C20/validity/keyblock/" + v + "-accepted", std::string("CheckSubkeys accepts a subkey whose only binding signature is ") + v + " (selfok=" + (B0.selfok ? "1" : "0") + ")", cj);
		}
		st.sample = J().raw("case", d.str()).kv("block_octets", (long long)blk.size()).kv("validated", shorten(comp_str(B0.comp), 300)).kv("oracle_evaluations", st.evals).str();
		tl_rng = nullptr; g_vtime = NOW0;
		case_end(d.str(), st.reached, st.sample, st.evals, (long long)st.distinct.size());
	}
}

} // namespace c20
