// w_c18.cc — C18: oblivious transfer delivers exactly the chosen message.
//   part L  library chooser vs library sender over line channels: output == M_sigma
//           (1-of-2, 1-of-N, optimised 1-of-N; N = 2..16, 32, 64; every index for N <= 16)
//   part Q  harness "curious chooser" (plain GMP, knows a, b and every c_j) vs library sender:
//           its own index decrypts to M_sigma; every decryption attempt on j != sigma differs
//           from M_j; the blinding values (g^{s_j}, g^{r_j}) it can derive from its secrets and
//           the w_j are pairwise distinct (fresh (r,s) per message)
//   part F  malformed first moves (coinciding z, non-members, C05 dlog catalogue on every line)
//           vs library sender: sender accepts  <=>  the move is well-formed by an independent
//           reference predicate (all lines present, integers in (0,p) of order dividing q,
//           z-values pairwise distinct)
#include "engine.hh"
#include "c17_dlogmut.hh"
#include <memory>
#include <set>

using namespace vf;

struct Z {
	mpz_t v;
	Z() { mpz_init(v); }
	Z(const Z &o) { mpz_init_set(v, o.v); }
	Z &operator=(const Z &o) { if (this != &o) mpz_set(v, o.v); return *this; }
	~Z() { mpz_clear(v); }
};

struct Group { Z p, q, g; unsigned long fs = 512, gs = 160; std::string name; };

enum { P2 = 0, PN = 1, PO = 2 };
static const char *const PROTO[] = {"1of2", "1ofN", "1ofN_optimized"};
static const char *const KIND[] = {"members", "with-one", "repeated", "all-equal", "ints-0..N-1", "zpstar"};
enum { K_MEMBERS = 0, K_ONE, K_REPEATED, K_ALLEQ, K_INTS, K_ZPSTAR, NKIND };
static const char *const MUTID[dlogmut::NMUT + 1] = {"v+1", "v*g", "-v", "0", "1", "p-1", "p", "q", "v+q", "v+p", "oversized", "p-v", "swap", "delete", "droplast", "empty", "random-nonmember"};

static Group make_group(unsigned long fs, unsigned long gs, uint64_t lane) {
	Group G; G.fs = fs; G.gs = gs; G.name = std::to_string(fs) + "/" + std::to_string(gs);
	Rng r = setup_rng(lane); tl_rng = &r;
	NaorPinkasEOTP *e = new NaorPinkasEOTP(fs, gs);
	if (!e->CheckGroup()) violation("C18/setup/CheckGroup", "generated group refused", J().kv("group", G.name).str());
	mpz_set(G.p.v, e->p); mpz_set(G.q.v, e->q); mpz_set(G.g.v, e->g);
	delete e; tl_rng = nullptr;
	return G;
}
static NaorPinkasEOTP *party(const Group &G) { return new NaorPinkasEOTP(G.p.v, G.q.v, G.g.v, G.fs, G.gs); }

static void rand_member(Z &out, Rng &r, const Group &G) { Z k; r.mpz_below(k.v, G.q.v); mpz_powm(out.v, G.g.v, k.v, G.p.v); }

static void make_msgs(std::vector<Z> &M, size_t N, int kind, Rng &r, const Group &G) {
	M.assign(N, Z());
	switch (kind) {
	case K_MEMBERS: for (auto &m : M) rand_member(m, r, G); break;
	case K_ONE: for (auto &m : M) rand_member(m, r, G); mpz_set_ui(M[r.below(N)].v, 1); break;
	case K_REPEATED: {
		std::vector<Z> pool(N / 2 ? N / 2 : 1); for (auto &m : pool) rand_member(m, r, G);
		for (auto &m : M) m = pool[r.below(pool.size())];
		M[1 % N] = M[0];                                      // at least one repeated pair
		if (N >= 3) { rand_member(M[2], r, G); }              // and not all equal
		break; }
	case K_ALLEQ: { Z m; rand_member(m, r, G); for (auto &x : M) x = m; break; }
	case K_INTS: for (size_t i = 0; i < N; i++) mpz_set_ui(M[i].v, i); break;            // what tests/t-eotp.cc sends (0 and non-members)
	case K_ZPSTAR: for (auto &m : M) { do r.mpz_below(m.v, G.p.v); while (mpz_sgn(m.v) == 0); } break;
	}
}
static bool all_equal(const std::vector<Z> &M) { for (auto &m : M) if (mpz_cmp(m.v, M[0].v)) return false; return true; }
static std::vector<mpz_ptr> ptrs(std::vector<Z> &M) { std::vector<mpz_ptr> v; for (auto &m : M) v.push_back(m.v); return v; }
static std::string msgs_json(const std::vector<Z> &M) { std::vector<std::string> v; for (auto &m : M) v.push_back(mpz_dec(m.v)); return J().arr("M", v).str(); }

static bool lib_send(int proto, const NaorPinkasEOTP *S, const std::vector<mpz_ptr> &M, std::istream &in, std::ostream &out) {
	if (proto == P2) return S->Send_interactive_OneOutOfTwo(M[0], M[1], in, out);
	if (proto == PN) return S->Send_interactive_OneOutOfN(M, in, out);
	return S->Send_interactive_OneOutOfN_optimized(M, in, out);
}
static bool lib_choose(int proto, const NaorPinkasEOTP *C, size_t sigma, size_t N, mpz_ptr out_m, std::istream &in, std::ostream &out) {
	if (proto == P2) return C->Choose_interactive_OneOutOfTwo(sigma, out_m, in, out);
	if (proto == PN) return C->Choose_interactive_OneOutOfN(sigma, N, out_m, in, out);
	return C->Choose_interactive_OneOutOfN_optimized(sigma, N, out_m, in, out);
}

static std::string transcript_json(const Duplex &d, size_t maxlines = 24) {
	std::vector<std::string> v; for (auto &e : d.log) { if (v.size() >= maxlines) break; v.push_back(std::string(e.side ? "C" : "S") + e.kind + ":" + shorten(e.text, 48)); }
	return J().arr("events", v).str();
}

// ------------------------------------------------------------------ part L
struct LibRes { int sret = -1, cret = -1; bool sexc = false, cexc = false, other = false, hung = false; Z out; };
static LibRes xfer_lib(int proto, const Group &G, std::vector<Z> &M, size_t sigma, uint64_t runid, std::string *tr = nullptr) {
	LibRes R; size_t N = M.size(); std::vector<mpz_ptr> Mp = ptrs(M);
	std::unique_ptr<NaorPinkasEOTP> S(party(G)), C(party(G));
	mpz_set_si(R.out.v, -1);
	TwoParty tp(ctx.seed, runid);
	tp.run([&](std::istream &in, std::ostream &out) { R.sret = lib_send(proto, S.get(), Mp, in, out) ? 1 : 0; },
	       [&](std::istream &in, std::ostream &out) { R.cret = lib_choose(proto, C.get(), sigma, N, R.out.v, in, out) ? 1 : 0; });
	R.sexc = tp.task(0)->threw_std; R.cexc = tp.task(1)->threw_std; R.other = tp.task(0)->threw_other || tp.task(1)->threw_other; R.hung = tp.s.hung;
	if (tr) *tr = transcript_json(tp.d);
	return R;
}

static std::vector<size_t> index_list(size_t N, Rng &r) {
	std::vector<size_t> v;
	if (N <= 16 || ctx.thorough()) { for (size_t i = 0; i < N; i++) v.push_back(i); return v; }
	std::set<size_t> s = {0, N - 1, N / 2}; while (s.size() < 6) s.insert(r.below(N));
	v.assign(s.begin(), s.end()); return v;
}

static void part_lib(long &kc, const Group &G, int reps) {
	std::vector<size_t> Ns; for (size_t n = 2; n <= 16; n++) Ns.push_back(n); Ns.push_back(32); Ns.push_back(64);
	for (int proto = 0; proto < 3; proto++) for (size_t N : Ns) for (int rep = 0; rep < reps; rep++) {
		if (proto == P2 && N != 2) continue;
		J d; d.kv("part", "lib-vs-lib").kv("proto", PROTO[proto]).kv("N", (long long)N).kv("rep", rep).kv("group", G.name);
		long k = kc++;
		if (!case_begin(k, d.str())) continue;
		Rng r = case_rng(k, 1);
		long long evals = 0; std::set<std::string> distinct; std::string sample; uint64_t run = 0;
		std::vector<size_t> idx = index_list(N, r);
		// 1-of-2 has two indices only: run every kind; 1-of-N: rotate the kinds over the indices
		// (every kind at least once per case, all kinds at every index in the thorough tier)
		for (size_t ii = 0; ii < idx.size(); ii++) for (int kk = 0; kk < NKIND; kk++) {
			size_t sigma = idx[ii];
			bool sel = proto == P2 || ctx.thorough() || N <= 3 || (int)((ii + rep) % NKIND) == kk || (N <= 8 && (int)((ii + rep + 3) % NKIND) == kk);
			if (!sel) continue;
			if (ctx.thorough() && N >= 32 && (int)((ii + rep) % NKIND) != kk) continue;
			std::vector<Z> M; make_msgs(M, N, kk, r, G);
			std::string tr;
			LibRes R = xfer_lib(proto, G, M, sigma, (uint64_t)k * 1000003ULL + run++, &tr);
			evals++; count(std::string("lib_xfer_") + PROTO[proto]); count(std::string("lib_kind_") + KIND[kk]);
			J w; w.kv("proto", PROTO[proto]).kv("N", (long long)N).kv("sigma", (long long)sigma).kv("kind", KIND[kk]).kv("sender_ret", R.sret).kv("chooser_ret", R.cret)
			    .kv("sender_exception", R.sexc).kv("chooser_exception", R.cexc).kz("output", R.out.v).kz("M_sigma", M[sigma].v).raw("messages", msgs_json(M)).raw("transcript", tr).kz("p", G.p.v).kz("q", G.q.v).kz("g", G.g.v);
			if (R.other) violation(std::string("C18/crash/non-std-exception/") + PROTO[proto], "a non-standard exception escaped an honest transfer", w.str());
			if (R.hung) violation(std::string("C18/hang/honest-transfer/") + PROTO[proto], "honest transfer did not terminate", w.str());
			if (R.sret != 1) violation(std::string("C18/complete/sender-failed/") + PROTO[proto], "library sender did not return true against the library chooser", w.str());
			if (R.cret != 1) violation(std::string("C18/complete/chooser-failed/") + PROTO[proto], "library chooser did not return true against the library sender", w.str());
			else if (mpz_cmp(R.out.v, M[sigma].v)) violation(std::string("C18/correct/wrong-message/") + PROTO[proto], "chooser output differs from the message at the chosen index", w.str());
			else count("lib_output_equal_M_sigma");
			distinct.insert(std::to_string(sigma) + "/" + std::to_string(kk));
			if (sample.empty() && N <= 4) sample = J().kv("part", "lib-vs-lib").kv("proto", PROTO[proto]).kv("N", (long long)N).kv("sigma", (long long)sigma).kv("kind", KIND[kk]).kz("output", R.out.v).kz("M_sigma", M[sigma].v).kv("sender_ret", R.sret).kv("chooser_ret", R.cret).str();
		}
		count("lib_cases"); count("lib_index_pairs", (long long)idx.size());
		case_end(d.str(), evals > 0, sample, evals, (long long)distinct.size());
	}
}

// ------------------------------------------------------------------ harness chooser
struct Chooser {
	Z a, b, ab; std::vector<Z> c;            // c[j] = log_g z_j (known to a curious chooser)
	std::vector<std::string> first;          // first move lines
};
static void first_move(Chooser &ch, int proto, size_t N, size_t sigma, Rng &r, const Group &G) {
	mpz_srcptr p = G.p.v, q = G.q.v, g = G.g.v;
	do r.mpz_below(ch.a.v, q); while (mpz_sgn(ch.a.v) == 0);
	do r.mpz_below(ch.b.v, q); while (mpz_sgn(ch.b.v) == 0);
	mpz_mul(ch.ab.v, ch.a.v, ch.b.v); mpz_mod(ch.ab.v, ch.ab.v, q);
	Z x, y, z; mpz_powm(x.v, g, ch.a.v, p); mpz_powm(y.v, g, ch.b.v, p);
	ch.first.clear(); ch.first.push_back(mpz_b62(x.v)); ch.first.push_back(mpz_b62(y.v));
	ch.c.assign(N, Z());
	if (proto == PO) {
		for (size_t j = 0; j < N; j++) { mpz_set(ch.c[j].v, ch.ab.v); mpz_sub_ui(ch.c[j].v, ch.c[j].v, sigma); mpz_add_ui(ch.c[j].v, ch.c[j].v, j); mpz_mod(ch.c[j].v, ch.c[j].v, q); }
		mpz_powm(z.v, g, ch.c[0].v, p); ch.first.push_back(mpz_b62(z.v));
	} else {
		for (size_t j = 0; j < N; j++) {
			if (j == sigma) mpz_set(ch.c[j].v, ch.ab.v); else r.mpz_below(ch.c[j].v, q);
			mpz_powm(z.v, g, ch.c[j].v, p); ch.first.push_back(mpz_b62(z.v));
		}
	}
}

struct SendRes { int sret = -1; bool sexc = false, other = false, hung = false; std::string exc; std::vector<std::string> got; };
static SendRes run_sender(int proto, const Group &G, std::vector<Z> &M, const std::vector<std::string> &lines, uint64_t runid, std::string *tr = nullptr) {
	SendRes R; size_t N = M.size(); std::vector<mpz_ptr> Mp = ptrs(M);
	std::unique_ptr<NaorPinkasEOTP> S(party(G));
	TwoParty tp(ctx.seed, runid);
	tp.run([&](std::istream &in, std::ostream &out) { R.sret = lib_send(proto, S.get(), Mp, in, out) ? 1 : 0; },
	       [&](std::istream &in, std::ostream &out) {
		       for (auto &l : lines) out << l << "\n";
		       out.flush();
		       std::string l; while (R.got.size() < 2 * N && std::getline(in, l)) R.got.push_back(l);
	       });
	R.sexc = tp.task(0)->threw_std; R.exc = tp.task(0)->exc; R.other = tp.task(0)->threw_other; R.hung = tp.s.hung;
	if (tr) *tr = transcript_json(tp.d);
	return R;
}

static bool parse62(Z &o, const std::string &s) { return !s.empty() && mpz_set_str(o.v, s.c_str(), 62) == 0; }
static void div_mod(Z &o, mpz_srcptr num, mpz_srcptr den, mpz_srcptr p) { Z i; if (!mpz_invert(i.v, den, p)) { mpz_set_si(o.v, -1); return; } mpz_mul(o.v, num, i.v); mpz_mod(o.v, o.v, p); }

// ------------------------------------------------------------------ part Q
static void part_curious(long &kc, const Group &G, int reps) {
	std::vector<size_t> Ns = ctx.quick() ? std::vector<size_t>{2, 3, 4, 5, 6, 8, 11, 16, 32} : std::vector<size_t>{2, 3, 4, 5, 6, 7, 8, 9, 10, 11, 12, 13, 14, 15, 16, 32, 64};
	const int kinds[] = {K_MEMBERS, K_ONE, K_REPEATED, K_ZPSTAR, K_ALLEQ};
	for (int proto = 0; proto < 3; proto++) for (size_t N : Ns) for (int rep = 0; rep < reps; rep++) {
		if (proto == P2 && N != 2) continue;
		J d; d.kv("part", "curious-chooser").kv("proto", PROTO[proto]).kv("N", (long long)N).kv("rep", rep).kv("group", G.name);
		long k = kc++;
		if (!case_begin(k, d.str())) continue;
		Rng r = case_rng(k, 2);
		mpz_srcptr p = G.p.v, q = G.q.v;
		long long evals = 0; std::set<std::string> distinct; std::string sample; uint64_t run = 0;
		std::vector<size_t> idx;
		if (N <= 8 || ctx.thorough()) for (size_t i = 0; i < N; i++) idx.push_back(i); else { std::set<size_t> s = {0, N - 1}; while (s.size() < 4) s.insert(r.below(N)); idx.assign(s.begin(), s.end()); }
		for (size_t ii = 0; ii < idx.size(); ii++) for (int ki = 0; ki < 5; ki++) {
			bool sel = proto == P2 || ctx.thorough() || (int)((ii + rep) % 4) == ki || (ki == 4 && ii == 0);
			if (!sel) continue;
			size_t sigma = idx[ii]; int kind = kinds[ki];
			std::vector<Z> M; make_msgs(M, N, kind, r, G);
			bool alleq = all_equal(M);
			Chooser ch; first_move(ch, proto, N, sigma, r, G);
			std::string tr;
			SendRes R = run_sender(proto, G, M, ch.first, (uint64_t)k * 1000003ULL + run++, &tr);
			count(std::string("curious_xfer_") + PROTO[proto]);
			J w; w.kv("proto", PROTO[proto]).kv("N", (long long)N).kv("sigma", (long long)sigma).kv("kind", KIND[kind]).kv("sender_ret", R.sret).kv("sender_exception", R.exc)
			    .kz("a", ch.a.v).kz("b", ch.b.v).arr("first_move", ch.first).arr("second_move", R.got).raw("messages", msgs_json(M)).kz("p", p).kz("q", q).kz("g", G.g.v);
			if (R.other) violation(std::string("C18/crash/non-std-exception/") + PROTO[proto], "a non-standard exception escaped the sender", w.str());
			if (R.hung) violation(std::string("C18/hang/sender/") + PROTO[proto], "sender did not terminate", w.str());
			if (R.sret != 1 || R.got.size() != 2 * N) { violation(std::string("C18/complete/wellformed-move-refused/") + PROTO[proto] + "/honest", "sender refused a well-formed first move of the harness chooser", w.str()); continue; }
			std::vector<Z> W(N), E(N); bool parsed = true;
			for (size_t j = 0; j < N; j++) if (!parse62(W[j], R.got[2 * j]) || !parse62(E[j], R.got[2 * j + 1])) parsed = false;
			if (!parsed) { violation(std::string("C18/complete/second-move-unparsable/") + PROTO[proto], "second move is not a list of integers", w.str()); continue; }
			// the chooser's own index
			Z t, u, m; mpz_powm(t.v, W[sigma].v, ch.b.v, p); div_mod(m, E[sigma].v, t.v, p); evals++;
			if (mpz_cmp(m.v, M[sigma].v)) { violation(std::string("C18/correct/wrong-message/harness-chooser/") + PROTO[proto], "harness chooser does not obtain the message at its index", w.str()); }
			else count("curious_own_index_ok");
			// decryption attempts on the other ciphertexts
			if (alleq) count("curious_all_equal_skipped");
			else {
				Z ainv; bool have_ainv = mpz_invert(ainv.v, ch.a.v, q) != 0;
				Z wsb; mpz_powm(wsb.v, W[sigma].v, ch.b.v, p);
				for (size_t j = 0; j < N; j++) {
					if (j == sigma) continue;
					const char *how[3] = {"c_j/w_j^b", "c_j/w_j^(c_j/a)", "c_j/w_sigma^b"};
					for (int at = 0; at < 3; at++) {
						if (at == 0) mpz_powm(t.v, W[j].v, ch.b.v, p);
						else if (at == 1) { if (!have_ainv) continue; mpz_mul(u.v, ch.c[j].v, ainv.v); mpz_mod(u.v, u.v, q); mpz_powm(t.v, W[j].v, u.v, p); }
						else mpz_set(t.v, wsb.v);
						div_mod(m, E[j].v, t.v, p); evals++; count("curious_attempts");
						if (!mpz_cmp(m.v, M[j].v)) {
							J ww = w; ww.kv("j", (long long)j).kv("attempt", how[at]).kz("decrypted", m.v);
							violation(std::string("C18/secrecy/other-message-decrypts/") + PROTO[proto], "a ciphertext of a message not chosen decrypts to that message under the chooser's own secrets", ww.str());
						}
					}
				}
			}
			// blinding values: K_j = E_j/M_j = g^{c_j s_j + b r_j}, w_j = g^{a s_j + r_j}
			//   => g^{s_j} = (K_j / w_j^b)^{1/(c_j - ab)},  g^{r_j} = w_j / (g^{s_j})^a      (j != sigma)
			std::map<std::string, size_t> seen_w, seen_s, seen_r;
			for (size_t j = 0; j < N; j++) {
				std::string ws = mpz_dec(W[j].v);
				if (seen_w.count(ws)) { J ww = w; ww.kv("i", (long long)seen_w[ws]).kv("j", (long long)j); violation(std::string("C18/blinding/w-repeated/") + PROTO[proto], "two messages were blinded with the same w (same (r,s))", ww.str()); }
				else seen_w[ws] = j;
				evals++;
				if (j == sigma || mpz_sgn(M[j].v) == 0) continue;
				Z K, T, dd, di, gs, gr;
				div_mod(K, E[j].v, M[j].v, p); mpz_powm(t.v, W[j].v, ch.b.v, p); div_mod(T, K.v, t.v, p);
				mpz_sub(dd.v, ch.c[j].v, ch.ab.v); mpz_mod(dd.v, dd.v, q);
				if (!mpz_invert(di.v, dd.v, q)) { count("curious_c_j_equals_ab"); continue; }
				mpz_powm(gs.v, T.v, di.v, p); mpz_powm(t.v, gs.v, ch.a.v, p); div_mod(gr, W[j].v, t.v, p);
				count("blinding_pairs_derived");
				std::string ss = mpz_dec(gs.v), rs = mpz_dec(gr.v);
				if (seen_s.count(ss)) { J ww = w; ww.kv("i", (long long)seen_s[ss]).kv("j", (long long)j).kz("g^s", gs.v); violation(std::string("C18/blinding/s-repeated/") + PROTO[proto], "two messages were blinded with the same s", ww.str()); } else seen_s[ss] = j;
				if (seen_r.count(rs)) { J ww = w; ww.kv("i", (long long)seen_r[rs]).kv("j", (long long)j).kz("g^r", gr.v); violation(std::string("C18/blinding/r-repeated/") + PROTO[proto], "two messages were blinded with the same r", ww.str()); } else seen_r[rs] = j;
			}
			distinct.insert(std::to_string(sigma) + "/" + std::to_string(kind));
			if (sample.empty() && N <= 4 && !alleq) sample = J().kv("part", "curious-chooser").kv("proto", PROTO[proto]).kv("N", (long long)N).kv("sigma", (long long)sigma).kv("kind", KIND[kind]).kv("attempts_per_other_index", 3).kv("own_index_ok", true).str();
		}
		count("curious_cases");
		case_end(d.str(), evals > 0, sample, evals, (long long)distinct.size());
	}
}

// ------------------------------------------------------------------ part F
// independent reference: is this list of lines a well-formed first move?
static bool wellformed(int proto, size_t N, const std::vector<std::string> &lines, const Group &G, std::string &why) {
	size_t need = proto == P2 ? 4 : (proto == PN ? 2 + N : 3);
	if (lines.size() < need) { why = "too few lines"; return false; }
	std::vector<Z> v(need); Z t;
	for (size_t i = 0; i < need; i++) {
		if (!parse62(v[i], lines[i])) { why = "line " + std::to_string(i) + " is not an integer"; return false; }
		if (mpz_sgn(v[i].v) <= 0 || mpz_cmp(v[i].v, G.p.v) >= 0) { why = "line " + std::to_string(i) + " outside (0,p)"; return false; }
		mpz_powm(t.v, v[i].v, G.q.v, G.p.v);
		if (mpz_cmp_ui(t.v, 1)) { why = "line " + std::to_string(i) + " not in the order-q subgroup"; return false; }
	}
	if (proto != PO) for (size_t i = 2; i < need; i++) for (size_t j = 2; j < i; j++) if (!mpz_cmp(v[i].v, v[j].v)) { why = "z-values " + std::to_string(j - 2) + " and " + std::to_string(i - 2) + " coincide"; return false; }
	why = "well-formed"; return true;
}

static void part_malformed(long &kc, const Group &G, int reps) {
	std::vector<size_t> Ns = ctx.quick() ? std::vector<size_t>{2, 3, 5} : std::vector<size_t>{2, 3, 4, 5, 8, 16};
	for (int proto = 0; proto < 3; proto++) for (size_t N : Ns) for (int rep = 0; rep < reps; rep++) {
		if (proto == P2 && N != 2) continue;
		J d; d.kv("part", "malformed-first-move").kv("proto", PROTO[proto]).kv("N", (long long)N).kv("rep", rep).kv("group", G.name);
		long k = kc++;
		if (!case_begin(k, d.str())) continue;
		Rng r = case_rng(k, 3);
		mpz_srcptr p = G.p.v, q = G.q.v, g = G.g.v;
		long long evals = 0; std::set<std::string> distinct; std::string sample; uint64_t run = 0;
		size_t sigma = r.below(N);
		std::vector<Z> M; make_msgs(M, N, K_MEMBERS, r, G);
		Chooser ch; first_move(ch, proto, N, sigma, r, G);
		auto judge = [&](const std::vector<std::string> &lines, const std::string &cls, const std::string &detail, size_t ci, size_t cj) {
			std::string why, tr; bool expect = wellformed(proto, N, lines, G, why);
			SendRes R = run_sender(proto, G, M, lines, (uint64_t)k * 1000003ULL + run++, &tr);
			bool acc = R.sret == 1; evals++;
			J w; w.kv("proto", PROTO[proto]).kv("N", (long long)N).kv("sigma", (long long)sigma).kv("class", cls).kv("detail", detail).kv("reference", why).kv("sender_ret", R.sret).kv("sender_exception", R.exc)
			    .arr("honest_first_move", ch.first).arr("sent_first_move", lines).arr("second_move", R.got).kz("a", ch.a.v).kz("b", ch.b.v).raw("messages", msgs_json(M)).kz("p", p).kz("q", q).kz("g", g);
			if (R.other) violation(std::string("C18/crash/non-std-exception/") + PROTO[proto], "a non-standard exception escaped the sender", w.str());
			if (R.hung) violation(std::string("C18/hang/sender/") + PROTO[proto], "sender did not terminate", w.str());
			if (acc && !expect) {
				// show what the acceptance gives away: with coinciding z = g^{ab} both ciphertexts open under b
				if (ci != cj && R.got.size() == 2 * N) {
					Z wi, ei, t, m; int opened = 0;
					for (size_t j : {ci, cj}) if (parse62(wi, R.got[2 * j]) && parse62(ei, R.got[2 * j + 1])) { mpz_powm(t.v, wi.v, ch.b.v, p); div_mod(m, ei.v, t.v, p); if (!mpz_cmp(m.v, M[j].v)) opened++; }
					w.kv("messages_opened_by_chooser", opened);
				}
				violation(std::string("C18/refuse/malformed-move-accepted/") + PROTO[proto] + "/" + cls, "sender returned true on a malformed first move (" + why + ")", w.str());
			} else if (!acc && expect) {
				violation(std::string("C18/complete/wellformed-move-refused/") + PROTO[proto] + "/" + cls, "sender refused a first move that is well-formed", w.str());
			}
			count(expect ? "malformed_stillwellformed_accepted" : "malformed_refused", (acc == expect) ? 1 : 0);
			count(std::string("class_") + cls);
			distinct.insert(cls + "/" + detail);
			if (sample.empty() && !expect) sample = J().kv("part", "malformed-first-move").kv("proto", PROTO[proto]).kv("N", (long long)N).kv("class", cls).kv("detail", detail).kv("reference", why).kv("sender_ret", R.sret).str();
		};
		// unmodified move (control)
		judge(ch.first, "honest", "", 0, 0);
		// coinciding z-values
		if (proto != PO) {
			for (size_t i = 0; i < N; i++) for (size_t j = i + 1; j < N; j++) {
				if (N > 5 && ctx.quick() && r.below(3)) continue;
				for (int var = 0; var < 2; var++) {
					std::vector<std::string> l = ch.first;
					if (var == 0) { Z z; mpz_powm(z.v, g, ch.ab.v, p); l[2 + i] = l[2 + j] = mpz_b62(z.v); }   // both open under b
					else { if (i == sigma) l[2 + j] = l[2 + i]; else l[2 + i] = l[2 + j]; }
					judge(l, "coinciding-z", std::to_string(i) + "=" + std::to_string(j) + (var ? " copy" : " both g^ab"), i, j);
					count("coinciding_z_moves");
				}
			}
		}
		// catalogue on every line of the first move
		for (size_t line = 0; line < ch.first.size(); line++) for (int m = 0; m <= dlogmut::NMUT; m++) {
			if (ctx.quick() && N > 3 && line >= 4 && line + 1 < ch.first.size() && !dlogmut::in_reduced(m)) continue;
			std::vector<std::string> l = ch.first;
			if (m < dlogmut::NMUT) { if (!dlogmut::apply(l, line, m, p, q, g)) { count("catalogue_skipped_equal_or_na"); continue; } }
			else { Z v, t; do { r.mpz_below(v.v, p); mpz_powm(t.v, v.v, q, p); } while (mpz_sgn(v.v) == 0 || !mpz_cmp_ui(t.v, 1)); l[line] = mpz_b62(v.v); }
			judge(l, std::string("catalogue:") + MUTID[m], "line " + std::to_string(line), 0, 0);
			count("catalogue_moves");
		}
		count("malformed_cases");
		case_end(d.str(), evals > 0, sample, evals, (long long)distinct.size());
	}
}

int main(int argc, char **argv) {
	init(argc, argv);
	null_cerr();
	if (!init_libTMCG()) { fprintf(stderr, "init_libTMCG failed\n"); return 2; }
	long k = 0;
	Group S = make_group(512, 160, 18);
	part_lib(k, S, ctx.quick() ? 2 : 4);
	part_curious(k, S, ctx.quick() ? 2 : 4);
	part_malformed(k, S, ctx.quick() ? 2 : 4);
	if (ctx.thorough()) {
		Group D = make_group(1024, 256, 19);
		part_lib(k, D, 1);
		part_curious(k, D, 1);
		part_malformed(k, D, 1);
	}
	finish();
	return 0;
}
