// c12_entries.hh — entry points of C12 that need no local protocol statement:
// importers / stream operators, key import + checks, stream constructors + CheckGroup/CheckKey,
// OpenPGP armor / packet / block / signature / keyring / message parsers.
// Shared by the mutator workload (w_c12.cc) and the libFuzzer targets (fz_c12_*.cc).
// Outcome of every entry: REFUSED, CHECKFAIL (accepted but the validity check fails),
// ACCEPTED, STDEXC (standard exception).  Anything else kills the process and is attributed
// by the runner (C12 violation).  No catch(...) anywhere.
#pragma once
#include "vf.hh"
#include "c12_pgp.hh"
#include <libTMCG.hh>
#include <functional>
#include <sstream>

namespace c12 {

enum Outcome { REFUSED = 0, CHECKFAIL = 1, ACCEPTED = 2, STDEXC = 3 };
static const char *const outcome_name[4] = { "refused", "accepted-check-fails", "accepted", "std-exception" };
typedef std::function<int(const std::string &)> RunFn;

struct Params { unsigned long fs = 512, gs = 256, le = 80; size_t n = 4; };   // sizes the local side expects
static Params g_par;

// sink that forces reading of everything an accepted object holds (so ASan sees stale pointers)
static volatile size_t g_sink;
template <class T> inline void touch(const T &o) { std::ostringstream os; os << o; g_sink += os.str().size(); }

// ------------------------------------------------------------------ importers
template <class T> int imp_string(const std::string &s) { T o; if (!o.import(s)) return REFUSED; touch(o); T c(o); g_sink += (c == o); return ACCEPTED; }
template <class T> int imp_string_ne(const std::string &s) { T o; if (!o.import(s)) return REFUSED; touch(o); T c(o); T d; d = c; touch(d); return ACCEPTED; }
template <class T> int imp_stream(const std::string &s) { T o; std::istringstream in(s); in >> o; if (!in.good()) return REFUSED; touch(o); return ACCEPTED; }
template <class T> int imp_stack_string(const std::string &s) { T o; if (!o.import(s)) return REFUSED; touch(o); T c(o); g_sink += (c == o) + c.size(); return ACCEPTED; }
template <class T> int imp_ss_string(const std::string &s) { T o; if (!o.import(s)) return REFUSED; touch(o); for (size_t i = 0; i < o.size(); i++) g_sink += o.find_position(i) + o.find(i); return ACCEPTED; }
inline int imp_mpz_stream(const std::string &s) {
	mpz_t v; mpz_init(v); std::istringstream in(s); int n = 0;
	try { while (in.good() && in.peek() != EOF && n < 64) { in >> v; n++; g_sink += mpz_sizeinbase(v, 2); } }
	catch (std::exception &) { mpz_clear(v); return STDEXC; }
	mpz_clear(v); return n ? ACCEPTED : REFUSED;
}

// ------------------------------------------------------------------ Rabin keys
// preconditions of encrypt()/sign() that the caller has to establish (asserts in the library)
inline bool encrypt_precond(mpz_srcptr m) { size_t b = mpz_sizeinbase(m, 2); size_t s2 = 2 * TMCG_SAEP_S0; return mpz_sgn(m) > 0 && s2 < b / 16 && (b / 8) > 2 * s2 && TMCG_SAEP_S0 < b / 32; }
inline int after_pubkey(TMCG_PublicKey &k) {
	g_sink += k.fingerprint().size() + k.selfid().size() + k.keyid().size() + k.keyid_size(k.sig) + k.sigid(k.sig).size();
	if (!k.check()) return CHECKFAIL;
	g_sink += k.verify("data", "sig|" + k.keyid() + "|123|");
	if (encrypt_precond(k.m)) { unsigned char v[TMCG_SAEP_S0]; memset(v, 7, sizeof v); g_sink += k.encrypt(v).size(); }
	return ACCEPTED;
}
inline int key_pub_import(const std::string &s) { TMCG_PublicKey k; if (!k.import(s)) return REFUSED; return after_pubkey(k); }
inline int key_pub_ctor(const std::string &s) { TMCG_PublicKey k(s); TMCG_PublicKey c(k); return after_pubkey(c); }
inline int key_pub_stream(const std::string &s) { TMCG_PublicKey k; std::istringstream in(s); in >> k; if (!in.good()) return REFUSED; return after_pubkey(k); }
inline int after_seckey(TMCG_SecretKey &k) {
	g_sink += k.fingerprint().size() + k.selfid().size() + k.keyid().size() + k.keyid_size(k.sig) + k.sigid(k.sig).size();
	if (!k.check()) return CHECKFAIL;
	g_sink += k.verify("data", "sig|" + k.keyid() + "|123|");
	if (encrypt_precond(k.m)) { unsigned char v[TMCG_SAEP_S0]; memset(v, 7, sizeof v); std::string e = k.encrypt(v); unsigned char w[TMCG_SAEP_S0]; g_sink += k.decrypt(w, e); }
	TMCG_PublicKey pk(k); g_sink += pk.check();
	return ACCEPTED;
}
inline int key_sec_import(const std::string &s) { TMCG_SecretKey k; if (!k.import(s)) return REFUSED; return after_seckey(k); }
inline int key_sec_ctor(const std::string &s) { TMCG_SecretKey k(s); TMCG_SecretKey c(k); return after_seckey(c); }
inline int key_sec_stream(const std::string &s) { TMCG_SecretKey k; std::istringstream in(s); in >> k; if (!in.good()) return REFUSED; return after_seckey(k); }

// ------------------------------------------------------------------ stream constructors
#define C12_CTOR(NAME, NEWEXPR, CHECKS) \
	inline int NAME(const std::string &s) { std::istringstream in(s); \
		try { auto *o = NEWEXPR; bool ok = true; CHECKS; delete o; return ok ? ACCEPTED : CHECKFAIL; } \
		catch (std::exception &) { return STDEXC; } }
C12_CTOR(ctor_vtmf, new BarnettSmartVTMF_dlog(in, g_par.fs, g_par.gs, false, true), ok = o->CheckGroup(); if (ok) { o->KeyGenerationProtocol_GenerateKey(); o->KeyGenerationProtocol_Finalize(); mpz_t a; mpz_init(a); o->RandomElement(a); ok = o->CheckElement(a); mpz_clear(a); })
C12_CTOR(ctor_vtmf_canon, new BarnettSmartVTMF_dlog(in, g_par.fs, g_par.gs, true, true), ok = o->CheckGroup())
C12_CTOR(ctor_vtmf_qr, new BarnettSmartVTMF_dlog_GroupQR(in, g_par.fs, g_par.gs), ok = o->CheckGroup(); if (ok) { mpz_t a; mpz_init(a); o->RandomElement(a); ok = o->CheckElement(a); mpz_clear(a); })
C12_CTOR(ctor_pedersen_com, new PedersenCommitmentScheme(g_par.n, in, g_par.fs, g_par.gs), ok = o->CheckGroup())
C12_CTOR(ctor_pedersen_tcom, new PedersenTrapdoorCommitmentScheme(in, g_par.fs, g_par.gs), ok = o->CheckGroup())
C12_CTOR(ctor_groth_skc, new GrothSKC(g_par.n, in, g_par.le, g_par.fs, g_par.gs), ok = o->CheckGroup())
C12_CTOR(ctor_groth_vsshe, new GrothVSSHE(g_par.n, in, g_par.le, g_par.fs, g_par.gs), ok = o->CheckGroup())
C12_CTOR(ctor_hoogh_vrhe, new HooghSchoenmakersSkoricVillegasVRHE(in, g_par.fs, g_par.gs), ok = o->CheckGroup())
C12_CTOR(ctor_eotp, new NaorPinkasEOTP(in, g_par.fs, g_par.gs), ok = o->CheckGroup())
C12_CTOR(ctor_pedersen_vss, new PedersenVSS(in, g_par.fs, g_par.gs, false, "c12"), ok = o->CheckGroup())
C12_CTOR(ctor_gjkr_dkg, new GennaroJareckiKrawczykRabinDKG(in, g_par.fs, g_par.gs, false, false, "c12"), ok = o->CheckGroup(); if (ok) ok = o->CheckKey(); if (ok) for (size_t j = 0; j < o->n; j++) ok = o->CheckKey(j) && ok)
C12_CTOR(ctor_cgjkr_rvss, new CanettiGennaroJareckiKrawczykRabinRVSS(in, g_par.fs, g_par.gs, false, false, "c12"), ok = o->CheckGroup())
C12_CTOR(ctor_cgjkr_zvss, new CanettiGennaroJareckiKrawczykRabinZVSS(in, g_par.fs, g_par.gs, false, false, "c12"), ok = o->CheckGroup())
C12_CTOR(ctor_cgjkr_dkg, new CanettiGennaroJareckiKrawczykRabinDKG(in, g_par.fs, g_par.gs, false, false, "c12"), ok = o->CheckGroup())
C12_CTOR(ctor_cgjkr_dss, new CanettiGennaroJareckiKrawczykRabinDSS(in, g_par.fs, g_par.gs, false, false), ok = o->CheckGroup())

// ------------------------------------------------------------------ OpenPGP
struct PgpCtx {   // what the parsers' caller holds locally
	tmcg_openpgp_secure_octets_t seskey; std::string passphrase = "c12pass"; Oct data;
	std::vector<TMCG_OpenPGP_Prvkey *> prv; TMCG_OpenPGP_Keyring *ring = nullptr;
};
static PgpCtx g_pgp;
inline Oct str2oct(const std::string &s) { return Oct(s.begin(), s.end()); }
inline std::string b2sx(const Oct &o) { return std::string(o.begin(), o.end()); }

inline int pgp_armor_decode(const std::string &s) { Oct out; tmcg_openpgp_armor_t t = PGP::ArmorDecode(s, out); g_sink += out.size(); return t == TMCG_OPENPGP_ARMOR_UNKNOWN ? REFUSED : ACCEPTED; }

static size_t g_pkt_loop_max = 100000;   // the fuzz targets stop after fewer packets (throughput)
inline int pgp_packet_decode(const std::string &s) {
	Oct pkts = str2oct(s); size_t good = 0, n = 0;
	while (pkts.size() && n < g_pkt_loop_max) {
		tmcg_openpgp_packet_ctx_t ctx; Oct cur; tmcg_openpgp_notations_t notations; tmcg_openpgp_multiple_octets_t es, rf;
		std::vector<gcry_mpi_t> qual, xq, v_i; std::vector<std::string> capl; std::vector<std::vector<gcry_mpi_t>> c_ik;
		tmcg_openpgp_byte_t tag = PGP::PacketDecode(pkts, 0, ctx, cur, qual, xq, capl, v_i, c_ik, notations, es, rf);
		n++; if (tag != 0 && tag < 0xFA) good++;
		g_sink += cur.size() + notations.size() + es.size() + rf.size();
		PGP::PacketContextRelease(ctx);
		for (auto m : qual) gcry_mpi_release(m); for (auto m : xq) gcry_mpi_release(m); for (auto m : v_i) gcry_mpi_release(m);
		for (auto &r : c_ik) for (auto m : r) gcry_mpi_release(m);
	}
	return good ? ACCEPTED : REFUSED;
}
inline int pgp_subpacket_decode(const std::string &s) {
	Oct in = str2oct(s); size_t good = 0, n = 0;
	while (in.size() && n < 100000) {
		tmcg_openpgp_packet_ctx_t ctx; memset(&ctx, 0, sizeof ctx);
		tmcg_openpgp_byte_t t = PGP::SubpacketDecode(in, 0, ctx); n++;
		PGP::PacketContextRelease(ctx);
		if (t == 0) break;          // error: the library's callers stop here
		if (t < 0xFA) good++;
	}
	return good ? ACCEPTED : REFUSED;
}
inline int pgp_after_pub(TMCG_OpenPGP_Pubkey *pub, bool reduce = true) {
	TMCG_OpenPGP_Keyring *ring = new TMCG_OpenPGP_Keyring();
	bool a = pub->CheckSelfSignatures(ring, 0); bool b = a && pub->CheckSubkeys(ring, 0);
	if (reduce) pub->Reduce();   // not on the relinked public part of a private key (its subkeys belong to the private subkeys)
	g_sink += pub->Weak(0);
	Oct ex; pub->Export(ex); g_sink += ex.size();
	std::string fpr; PGP::FingerprintConvertPlain(pub->fingerprint, fpr); g_sink += fpr.size();
	delete ring;
	return (a && b) ? ACCEPTED : CHECKFAIL;
}
inline int pgp_pubkey_block(const std::string &s) { TMCG_OpenPGP_Pubkey *pub = nullptr; if (!PGP::PublicKeyBlockParse(str2oct(s), 0, pub)) return REFUSED; int r = pgp_after_pub(pub); delete pub; return r; }
inline int pgp_pubkey_block_armored(const std::string &s) { TMCG_OpenPGP_Pubkey *pub = nullptr; if (!PGP::PublicKeyBlockParse(s, 0, pub)) return REFUSED; int r = pgp_after_pub(pub); delete pub; return r; }
inline int pgp_after_prv(TMCG_OpenPGP_Prvkey *prv) {
	prv->RelinkPublicSubkeys(); int r = pgp_after_pub(prv->pub, false); prv->RelinkPrivateSubkeys();
	g_sink += prv->Weak(0); Oct ex; prv->Export(ex); g_sink += ex.size();
	return r;
}
inline int pgp_prvkey_block(const std::string &s) {
	TMCG_OpenPGP_Prvkey *prv = nullptr; int r = REFUSED;
	for (int pass = 0; pass < 2 && r == REFUSED; pass++) {
		tmcg_openpgp_secure_string_t pw(pass == 0 ? g_pgp.passphrase.c_str() : "");
		if (PGP::PrivateKeyBlockParse(str2oct(s), 0, pw, prv)) { r = pgp_after_prv(prv); delete prv; }
	}
	return r;
}
inline int pgp_prvkey_block_armored(const std::string &s) {
	TMCG_OpenPGP_Prvkey *prv = nullptr; tmcg_openpgp_secure_string_t pw(g_pgp.passphrase.c_str());
	if (!PGP::PrivateKeyBlockParse(s, 0, pw, prv)) return REFUSED; int r = pgp_after_prv(prv); delete prv; return r;
}
inline int pgp_after_sig(TMCG_OpenPGP_Signature *sig) {
	bool good = sig->Good(); bool valid = sig->CheckValidity(1600000000, 0); bool ok = false;
	if (g_pgp.ring) { // look the issuer up as an application would, then verify the local data
		std::string fpr; PGP::FingerprintConvertPlain(sig->issuerfpr, fpr); const TMCG_OpenPGP_Pubkey *k = g_pgp.ring->Find(fpr);
		if (!k) { std::string kid; PGP::KeyidConvert(sig->issuer, kid); k = g_pgp.ring->FindByKeyid(kid); }
		if (k) ok = sig->VerifyData(k->key, g_pgp.data, 0);
	}
	return (good && valid && ok) ? ACCEPTED : CHECKFAIL;
}
inline int pgp_signature(const std::string &s) { TMCG_OpenPGP_Signature *sig = nullptr; if (!PGP::SignatureParse(str2oct(s), 0, sig)) return REFUSED; int r = pgp_after_sig(sig); delete sig; return r; }
inline int pgp_signature_armored(const std::string &s) { TMCG_OpenPGP_Signature *sig = nullptr; if (!PGP::SignatureParse(s, 0, sig)) return REFUSED; int r = pgp_after_sig(sig); delete sig; return r; }
inline int pgp_after_ring(TMCG_OpenPGP_Keyring *ring) { g_sink += ring->Size(); ring->Reduce(); return ring->Size() ? ACCEPTED : CHECKFAIL; }
inline int pgp_keyring(const std::string &s) { TMCG_OpenPGP_Keyring *ring = nullptr; if (!PGP::PublicKeyringParse(str2oct(s), 0, ring)) return REFUSED; int r = pgp_after_ring(ring); delete ring; return r; }
inline int pgp_keyring_armored(const std::string &s) { TMCG_OpenPGP_Keyring *ring = nullptr; if (!PGP::PublicKeyringParse(s, 0, ring)) return REFUSED; int r = pgp_after_ring(ring); delete ring; return r; }
inline int pgp_after_msg(TMCG_OpenPGP_Message *msg, int depth) {
	int r = CHECKFAIL; g_sink += msg->literal_data.size() + msg->compressed_data.size() + msg->signatures.size();
	if (msg->literal_data.size()) r = ACCEPTED;
	if (msg->encrypted_message.size()) {
		// session key candidates: every PKESK against every local private key, then the known key
		std::vector<tmcg_openpgp_secure_octets_t> keys;
		for (auto esk : msg->PKESKs) for (auto prv : g_pgp.prv) {
			tmcg_openpgp_secure_octets_t k;
			if (prv->Decrypt(esk, 0, k)) keys.push_back(k);
			else for (auto sub : prv->private_subkeys) { tmcg_openpgp_secure_octets_t k2; if (sub->Decrypt(esk, 0, k2)) { keys.push_back(k2); break; } }
		}
		keys.push_back(g_pgp.seskey);
		for (auto &k : keys) {
			Oct dec;
			if (msg->Decrypt(k, 0, dec)) { r = ACCEPTED; if (depth < 3) { TMCG_OpenPGP_Message *inner = nullptr; if (PGP::MessageParse(dec, 0, inner)) { pgp_after_msg(inner, depth + 1); delete inner; } } break; }
		}
	}
	for (auto sig : msg->signatures) { g_sink += sig->Good(); if (g_pgp.ring && msg->literal_data.size()) { std::string kid; PGP::KeyidConvert(sig->issuer, kid); const TMCG_OpenPGP_Pubkey *k = g_pgp.ring->FindByKeyid(kid); if (k) g_sink += sig->VerifyData(k->key, msg->literal_data, 0); } }
	return r;
}
inline int pgp_message(const std::string &s) { TMCG_OpenPGP_Message *msg = nullptr; if (!PGP::MessageParse(str2oct(s), 0, msg)) return REFUSED; int r = pgp_after_msg(msg, 0); delete msg; return r; }
inline int pgp_message_armored(const std::string &s) { TMCG_OpenPGP_Message *msg = nullptr; if (!PGP::MessageParse(s, 0, msg)) return REFUSED; int r = pgp_after_msg(msg, 0); delete msg; return r; }

// local side of the OpenPGP entries: our own private keys (from valid seed blocks), a ring of known
// public keys, the known session key and the signed data
inline void pgp_ctx_setup(const std::vector<std::pair<std::string, std::string>> &prv_blocks /* (binary block, passphrase) */,
                          const std::vector<std::string> &pub_blocks, const tmcg_openpgp_secure_octets_t &seskey, const std::string &data) {
	g_pgp.seskey = seskey; g_pgp.data = str2oct(data);
	for (auto &b : prv_blocks) { TMCG_OpenPGP_Prvkey *p = nullptr; tmcg_openpgp_secure_string_t pw(b.second.c_str()); if (PGP::PrivateKeyBlockParse(str2oct(b.first), 0, pw, p)) g_pgp.prv.push_back(p); }
	g_pgp.ring = new TMCG_OpenPGP_Keyring();
	for (auto &b : pub_blocks) { TMCG_OpenPGP_Pubkey *p = nullptr; if (PGP::PublicKeyBlockParse(str2oct(b), 0, p)) { TMCG_OpenPGP_Keyring *r0 = new TMCG_OpenPGP_Keyring(); p->CheckSelfSignatures(r0, 0); p->CheckSubkeys(r0, 0); delete r0; if (!g_pgp.ring->Add(p)) delete p; } }
}

} // namespace c12
