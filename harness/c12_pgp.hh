// c12_pgp.hh — OpenPGP seed artefacts for C12, produced with the library's own encoders
// (key blocks, private key blocks incl. the experimental threshold key packets, detached
// signatures, encrypted messages) plus a few hand-encoded packet types the library parses
// but never emits (SKESK, one-pass signature, compressed data, old-format headers).
#pragma once
#include "vf.hh"
#include <libTMCG.hh>
#include <map>
#include <string>
#include <vector>

namespace c12 {
typedef CallasDonnerhackeFinneyShawThayerRFC4880 PGP;
typedef tmcg_openpgp_octets_t Oct;

struct PgpSeed { std::string name, kind; Oct bin; std::string arm; };   // kind: pub prv sig msg ring
struct PgpWorld {
	std::vector<PgpSeed> seeds;
	tmcg_openpgp_secure_octets_t seskey;           // fixed AES-256 session key (algo | key | checksum)
	std::string passphrase = "c12pass";
	std::string data = "C12 test data: the quick brown fox jumps over the lazy dog.\n";
	gcry_sexp_t dsa = nullptr, elg = nullptr, rsa = nullptr, ecdsa = nullptr, eddsa = nullptr;
	std::vector<std::string> errors;
	void add(const std::string &n, const std::string &k, const Oct &b, tmcg_openpgp_armor_t t) { PgpSeed s; s.name = n; s.kind = k; s.bin = b; PGP::ArmorEncode(t, b, s.arm); seeds.push_back(s); }
};

inline bool lookup_oid(const char *curve, Oct &oid) {
	for (size_t i = 0; tmcg_openpgp_oidtable[i].name; i++)
		if (!strcmp(tmcg_openpgp_oidtable[i].name, curve)) { const tmcg_openpgp_byte_t *o = tmcg_openpgp_oidtable[i].oid; oid.assign(o + 1, o + 1 + o[0]); return true; }
	return false;
}
inline gcry_sexp_t pgp_genkey(PgpWorld &W, const char *spec) {
	gcry_sexp_t parms = nullptr, key = nullptr; size_t eo = 0;
	if (gcry_sexp_build(&parms, &eo, spec)) { W.errors.push_back(std::string("sexp_build ") + spec); return nullptr; }
	gcry_error_t rc = gcry_pk_genkey(&key, parms); gcry_sexp_release(parms);
	if (rc) { W.errors.push_back(std::string("genkey ") + spec + ": " + gcry_strerror(rc)); return nullptr; }
	return key;
}
inline void app(Oct &o, const Oct &x) { o.insert(o.end(), x.begin(), x.end()); }

// signature packet over `hash` by key of algorithm `algo`
inline bool pgp_sign(PgpWorld &W, int algo, gcry_sexp_t key, tmcg_openpgp_hashalgo_t h, const Oct &hash, const Oct &trailer, const Oct &left, Oct &sig) {
	gcry_mpi_t r = gcry_mpi_new(2048), s = gcry_mpi_new(2048); gcry_error_t rc;
	if (algo == 1) rc = PGP::AsymmetricSignRSA(hash, key, h, s);
	else if (algo == 17) rc = PGP::AsymmetricSignDSA(hash, key, r, s);
	else if (algo == 19) rc = PGP::AsymmetricSignECDSA(hash, key, r, s);
	else rc = PGP::AsymmetricSignEdDSA(hash, key, r, s);
	if (rc) { W.errors.push_back(std::string("sign algo ") + std::to_string(algo) + ": " + gcry_strerror(rc)); gcry_mpi_release(r); gcry_mpi_release(s); return false; }
	if (algo == 1) PGP::PacketSigEncode(trailer, left, s, sig); else PGP::PacketSigEncode(trailer, left, r, s, sig);
	gcry_mpi_release(r); gcry_mpi_release(s); return true;
}

struct KeyBlock { Oct pub, sec, uid, uidsig, sub, ssb, subsig, pub_hashing, sub_hashing, keyid, fpr, subkeyid; };

// primary (palgo, pkey) + optional subkey (salgo, skey); MPIs taken from the s-expressions
inline bool pgp_keyblock(PgpWorld &W, const std::string &user, int palgo, gcry_sexp_t pkey, int salgo, gcry_sexp_t skey, const std::string &pass, KeyBlock &K, time_t now) {
	tmcg_openpgp_hashalgo_t H = TMCG_OPENPGP_HASHALGO_SHA256; tmcg_openpgp_secure_string_t pw(pass.c_str());
	gcry_mpi_t a = 0, b = 0, c = 0, d = 0, x = 0; Oct oid;
	auto rel = [&]() { gcry_mpi_release(a); gcry_mpi_release(b); gcry_mpi_release(c); gcry_mpi_release(d); gcry_mpi_release(x); a = b = c = d = x = 0; };
	if (palgo == 17) { if (gcry_sexp_extract_param(pkey, 0, "pqgyx", &a, &b, &c, &d, &x, NULL)) return false; PGP::PacketPubEncode(now, TMCG_OPENPGP_PKALGO_DSA, a, b, c, d, K.pub); PGP::PacketSecEncode(now, TMCG_OPENPGP_PKALGO_DSA, a, b, c, d, x, pw, K.sec); }
	else if (palgo == 1) { if (gcry_sexp_extract_param(pkey, 0, "ned", &a, &b, &x, NULL)) return false; PGP::PacketPubEncode(now, TMCG_OPENPGP_PKALGO_RSA, a, b, b, b, K.pub); }
	else { const char *cv = palgo == 19 ? "NIST P-256" : "Ed25519"; if (!lookup_oid(cv, oid)) { W.errors.push_back("no oid"); return false; }
		if (gcry_sexp_extract_param(pkey, 0, "q", &a, NULL)) return false;
		PGP::PacketPubEncode(now, (tmcg_openpgp_pkalgo_t)palgo, oid.size(), oid.data(), a, H, TMCG_OPENPGP_SKALGO_AES128, K.pub); }
	rel();
	PGP::PacketBodyExtract(K.pub, 0, K.pub_hashing); PGP::KeyidCompute(K.pub_hashing, K.keyid); PGP::FingerprintCompute(K.pub_hashing, K.fpr);
	PGP::PacketUidEncode(user, K.uid);
	Oct flags, trailer, hash, left, empty; flags.push_back(0x03);
	PGP::PacketSigPrepareSelfSignature(TMCG_OPENPGP_SIGNATURE_POSITIVE_CERTIFICATION, (tmcg_openpgp_pkalgo_t)palgo, H, now, 1000000, flags, K.fpr, false, trailer);
	PGP::CertificationHash(K.pub_hashing, user, empty, trailer, H, hash, left);
	if (!pgp_sign(W, palgo, pkey, H, hash, trailer, left, K.uidsig)) return false;
	if (skey) {
		if (salgo == 16) { if (gcry_sexp_extract_param(skey, 0, "pgyx", &a, &c, &d, &x, NULL)) return false; PGP::PacketSubEncode(now, TMCG_OPENPGP_PKALGO_ELGAMAL, a, a, c, d, K.sub); PGP::PacketSsbEncode(now, TMCG_OPENPGP_PKALGO_ELGAMAL, a, a, c, d, x, pw, K.ssb); }
		else if (salgo == 1) { if (gcry_sexp_extract_param(skey, 0, "ne", &a, &b, NULL)) return false; PGP::PacketSubEncode(now, TMCG_OPENPGP_PKALGO_RSA, a, b, b, b, K.sub); }
		else { if (!lookup_oid("NIST P-256", oid)) return false; if (gcry_sexp_extract_param(skey, 0, "q", &a, NULL)) return false;
			PGP::PacketSubEncode(now, TMCG_OPENPGP_PKALGO_ECDH, oid.size(), oid.data(), a, H, TMCG_OPENPGP_SKALGO_AES128, K.sub); }
		rel();
		PGP::PacketBodyExtract(K.sub, 0, K.sub_hashing); PGP::KeyidCompute(K.sub_hashing, K.subkeyid);
		Oct sflags, strailer, shash, sleft; sflags.push_back(0x0C);
		PGP::PacketSigPrepareSelfSignature(TMCG_OPENPGP_SIGNATURE_SUBKEY_BINDING, (tmcg_openpgp_pkalgo_t)palgo, H, now, 1000000, sflags, K.fpr, false, strailer);
		PGP::KeyHash(K.pub_hashing, K.sub_hashing, strailer, H, shash, sleft);
		if (!pgp_sign(W, palgo, pkey, H, shash, strailer, sleft, K.subsig)) return false;
	}
	return true;
}

inline void hand_packet(Oct &out, unsigned tag, const Oct &body, bool oldfmt = false) {
	if (oldfmt) { if (body.size() < 256) { out.push_back(0x80 | (tag << 2)); out.push_back(body.size()); } else { out.push_back(0x80 | (tag << 2) | 1); out.push_back(body.size() >> 8); out.push_back(body.size()); } }
	else { out.push_back(0xC0 | tag); PGP::PacketLengthEncode(body.size(), out); }
	app(out, body);
}

// builds everything; deterministic when the interposed RNG is seeded (vf::tl_rng)
inline void pgp_build(PgpWorld &W, bool with_experimental = true) {
	time_t now = 1700000000;
	W.dsa = pgp_genkey(W, "(genkey (dsa (nbits 4:1024)))");
	W.elg = pgp_genkey(W, "(genkey (elg (nbits 4:1024)))");
	W.rsa = pgp_genkey(W, "(genkey (rsa (nbits 4:1024)))");
	W.ecdsa = pgp_genkey(W, "(genkey (ecdsa (curve secp256r1)))");
	W.eddsa = pgp_genkey(W, "(genkey (ecc (curve Ed25519)(flags eddsa comp)))");
	gcry_sexp_t ecdh = pgp_genkey(W, "(genkey (ecdh (curve secp256r1)))");
	for (int i = 0; i < 32; i++) W.seskey.push_back((unsigned char)(0x40 + i));
	Oct lit, in(W.data.begin(), W.data.end()); PGP::PacketLitEncode(in, lit);

	KeyBlock D, R, E, Ed;
	if (W.dsa && W.elg && pgp_keyblock(W, "C12 Dsa <dsa@c12>", 17, W.dsa, 16, W.elg, W.passphrase, D, now)) {
		Oct all; app(all, D.pub); app(all, D.uid); app(all, D.uidsig); app(all, D.sub); app(all, D.subsig); W.add("pub-dsa-elg", "pub", all, TMCG_OPENPGP_ARMOR_PUBLIC_KEY_BLOCK);
		Oct prv; app(prv, D.sec); app(prv, D.uid); app(prv, D.uidsig); app(prv, D.ssb); app(prv, D.subsig); W.add("prv-dsa-elg", "prv", prv, TMCG_OPENPGP_ARMOR_PRIVATE_KEY_BLOCK);
	} else W.errors.push_back("dsa/elg key block");
	if (W.rsa && pgp_keyblock(W, "C12 Rsa <rsa@c12>", 1, W.rsa, 1, W.rsa, "", R, now)) {
		Oct all; app(all, R.pub); app(all, R.uid); app(all, R.uidsig); app(all, R.sub); app(all, R.subsig); W.add("pub-rsa-rsa", "pub", all, TMCG_OPENPGP_ARMOR_PUBLIC_KEY_BLOCK);
	} else W.errors.push_back("rsa key block");
	if (W.ecdsa && ecdh && pgp_keyblock(W, "C12 Ecc <ecc@c12>", 19, W.ecdsa, 18, ecdh, "", E, now)) {
		Oct all; app(all, E.pub); app(all, E.uid); app(all, E.uidsig); app(all, E.sub); app(all, E.subsig); W.add("pub-ecdsa-ecdh", "pub", all, TMCG_OPENPGP_ARMOR_PUBLIC_KEY_BLOCK);
	} else W.errors.push_back("ecc key block");
	if (W.eddsa && pgp_keyblock(W, "C12 Ed <ed@c12>", 22, W.eddsa, 0, nullptr, "", Ed, now)) {
		Oct all; app(all, Ed.pub); app(all, Ed.uid); app(all, Ed.uidsig); W.add("pub-eddsa", "pub", all, TMCG_OPENPGP_ARMOR_PUBLIC_KEY_BLOCK);
	} else W.errors.push_back("eddsa key block");
	{ Oct ring; for (auto &s : W.seeds) if (s.kind == "pub") app(ring, s.bin); if (!ring.empty()) W.add("ring-4", "ring", ring, TMCG_OPENPGP_ARMOR_PUBLIC_KEY_BLOCK); }

	// detached signatures over W.data
	struct SK { const char *n; int algo; gcry_sexp_t key; KeyBlock *kb; } sks[] = { {"sig-dsa", 17, W.dsa, &D}, {"sig-rsa", 1, W.rsa, &R}, {"sig-ecdsa", 19, W.ecdsa, &E}, {"sig-eddsa", 22, W.eddsa, &Ed} };
	for (auto &k : sks) {
		if (!k.key || k.kb->fpr.empty()) continue;
		Oct trailer, hash, left, sig; tmcg_openpgp_hashalgo_t H = TMCG_OPENPGP_HASHALGO_SHA256;
		PGP::PacketSigPrepareDetachedSignature(TMCG_OPENPGP_SIGNATURE_BINARY_DOCUMENT, (tmcg_openpgp_pkalgo_t)k.algo, H, now, 0, "http://c12.test/policy", k.kb->fpr, trailer);
		if (!PGP::BinaryDocumentHash(in, trailer, H, hash, left)) continue;
		if (pgp_sign(W, k.algo, k.key, H, hash, trailer, left, sig)) W.add(k.n, "sig", sig, TMCG_OPENPGP_ARMOR_SIGNATURE);
	}

	// messages
	{ // PKESK(RSA) + PKESK(ElGamal) + SEIPD(lit + MDC), fixed session key
		Oct prefix, enc, mdc_hashing, hash, mdc, litmdc, seipd, all; tmcg_openpgp_secure_octets_t sk = W.seskey;
		if (!PGP::SymmetricEncryptAES256(lit, sk, prefix, true, enc)) {
			enc.clear(); app(mdc_hashing, prefix); app(mdc_hashing, lit); mdc_hashing.push_back(0xD3); mdc_hashing.push_back(0x14);
			PGP::HashCompute(TMCG_OPENPGP_HASHALGO_SHA1, mdc_hashing, hash); PGP::PacketMdcEncode(hash, mdc); app(litmdc, lit); app(litmdc, mdc);
			if (!PGP::SymmetricEncryptAES256(litmdc, sk, prefix, false, enc)) {
				W.seskey = sk;   // now algo | key | checksum
				PGP::PacketSeipdEncode(enc, seipd);
				if (W.rsa && !R.subkeyid.empty()) { gcry_mpi_t me = gcry_mpi_new(2048); if (!PGP::AsymmetricEncryptRSA(sk, W.rsa, me)) { Oct p; PGP::PacketPkeskEncode(R.subkeyid, me, p); app(all, p); } gcry_mpi_release(me); }
				if (W.elg && !D.subkeyid.empty()) { gcry_mpi_t gk = gcry_mpi_new(2048), myk = gcry_mpi_new(2048); if (!PGP::AsymmetricEncryptElgamal(sk, W.elg, gk, myk)) { Oct p; PGP::PacketPkeskEncode(D.subkeyid, gk, myk, p); app(all, p); } gcry_mpi_release(gk); gcry_mpi_release(myk); }
				app(all, seipd); W.add("msg-pkesk-seipd", "msg", all, TMCG_OPENPGP_ARMOR_MESSAGE);
				// hand-encoded SKESK v4 (AES256, iterated+salted S2K, SHA256) in front of the same SEIPD
				Oct sb = { 4, 9, 3, 8, 1, 2, 3, 4, 5, 6, 7, 8, 96 }, m2; hand_packet(m2, 3, sb); app(m2, seipd); W.add("msg-skesk-seipd", "msg", m2, TMCG_OPENPGP_ARMOR_MESSAGE);
				// SED without MDC, old-format header
				Oct enc2, pre2, m3; tmcg_openpgp_secure_octets_t sk2 = W.seskey; if (!PGP::SymmetricEncryptAES256(lit, sk2, pre2, true, enc2)) { Oct sed; PGP::PacketSedEncode(enc2, sed); app(m3, sed); W.add("msg-sed", "msg", m3, TMCG_OPENPGP_ARMOR_MESSAGE); }
			}
		}
	}
	{ // AEAD (OCB and EAX)
		for (int ae = 1; ae <= 2; ae++) {
			Oct ad = { 0xD4, 0x01, 9, (unsigned char)ae, 2 }, iv, enc, pkt; tmcg_openpgp_secure_octets_t sk = W.seskey;
			if (!PGP::SymmetricEncryptAEAD(lit, sk, TMCG_OPENPGP_SKALGO_AES256, (tmcg_openpgp_aeadalgo_t)ae, 2, ad, 0, iv, enc)) {
				PGP::PacketAeadEncode(TMCG_OPENPGP_SKALGO_AES256, (tmcg_openpgp_aeadalgo_t)ae, 2, iv, enc, pkt); W.add(ae == 1 ? "msg-aead-eax" : "msg-aead-ocb", "msg", pkt, TMCG_OPENPGP_ARMOR_MESSAGE); }
		}
	}
	{ // plaintext forms: literal ; compressed(uncompressed algo) ; one-pass + literal + signature
		W.add("msg-literal", "msg", lit, TMCG_OPENPGP_ARMOR_MESSAGE);
		Oct cb; cb.push_back(0); app(cb, lit); Oct c; hand_packet(c, 8, cb); W.add("msg-compressed0", "msg", c, TMCG_OPENPGP_ARMOR_MESSAGE);
		for (auto &s : W.seeds) if (s.name == "sig-rsa" && !R.keyid.empty()) { Oct ops = { 3, 0, 8, 1 }; app(ops, R.keyid); ops.push_back(1); Oct m; hand_packet(m, 4, ops); app(m, lit); app(m, s.bin); W.add("msg-onepass-signed", "msg", m, TMCG_OPENPGP_ARMOR_MESSAGE); break; }
	}
	if (with_experimental && W.dsa) { // threshold key packets (tDSS 107/108, tElG 109) of the dkg-tools, values structurally valid
		gcry_mpi_t p = 0, q = 0, g = 0, y = 0, x = 0; if (!gcry_sexp_extract_param(W.dsa, 0, "pqgyx", &p, &q, &g, &y, &x, NULL)) {
			gcry_mpi_t n = gcry_mpi_set_ui(0, 3), t = gcry_mpi_set_ui(0, 1), i = gcry_mpi_set_ui(0, 0), qs = gcry_mpi_set_ui(0, 3);
			std::vector<gcry_mpi_t> qual, vi; std::vector<std::string> capl; std::vector<std::vector<gcry_mpi_t>> cik;
			for (unsigned k = 0; k < 3; k++) { qual.push_back(gcry_mpi_set_ui(0, k)); vi.push_back(gcry_mpi_copy(y)); capl.push_back("peer" + std::to_string(k)); std::vector<gcry_mpi_t> row; for (int j = 0; j < 2; j++) row.push_back(gcry_mpi_copy(g)); cik.push_back(row); }
			tmcg_openpgp_secure_string_t pw(W.passphrase.c_str()), nopw("");
			Oct s108, s107, s109, uid; std::string user = "C12 tDSS <t@c12>"; PGP::PacketUidEncode(user, uid);
			PGP::PacketSecEncodeExperimental108(now, p, q, g, g, y, n, t, i, qs, qual, capl, cik, x, x, nopw, s108);
			PGP::PacketSecEncodeExperimental107(now, p, q, g, g, y, n, t, i, qs, qual, qs, qual, capl, cik, x, x, pw, s107);
			PGP::PacketSsbEncodeExperimental109(now, p, q, g, g, y, n, t, i, qs, qual, vi, cik, x, x, nopw, s109);
			Oct s107n; PGP::PacketSecEncodeExperimental107(now, p, q, g, g, y, n, t, i, qs, qual, qs, qual, capl, cik, x, x, nopw, s107n);
			{ Oct a; app(a, s107n); app(a, uid); app(a, s109); W.add("prv-tdss107-telg109", "prv", a, TMCG_OPENPGP_ARMOR_PRIVATE_KEY_BLOCK); }
			{ Oct a; app(a, s107); app(a, uid); W.add("prv-tdss107-pw", "prv", a, TMCG_OPENPGP_ARMOR_PRIVATE_KEY_BLOCK); }
			{ Oct a; app(a, s108); app(a, uid); W.add("prvpkt-tdss108", "prvpkt", a, TMCG_OPENPGP_ARMOR_PRIVATE_KEY_BLOCK); }   // packet decoder only: no block parser accepts algorithm 108
			for (auto m : qual) gcry_mpi_release(m); for (auto m : vi) gcry_mpi_release(m); for (auto &r : cik) for (auto m : r) gcry_mpi_release(m);
			gcry_mpi_release(n); gcry_mpi_release(t); gcry_mpi_release(i); gcry_mpi_release(qs);
			gcry_mpi_release(p); gcry_mpi_release(q); gcry_mpi_release(g); gcry_mpi_release(y); gcry_mpi_release(x);
		}
	}
	if (ecdh) gcry_sexp_release(ecdh);
}

} // namespace c12
