// w_c05.cc — C05: proofs bind every public input and every transmitted value;
// out-of-range values are refused, not silently reduced.
//
// For every prover/verifier pair of the registry (protos.hh): record an ACCEPTED honest run,
// then re-run the verifier once per (target, mutation); every verdict must be
// false / std::exception.  Targets:
//   (1) every prover->verifier transcript line (structured lines per field),
//   (2) every public input handle of the instance (verifier's view only),
//   (3) the verifier-side group / common key / commitment generators (self-consistent
//       alternative objects built through public constructors).
// Fault enumeration: fixed catalogue (c05_mut.hh) at every position.
#include "protos.hh"
#include "c05_mut.hh"
#include "c05_alt.hh"
#include <set>
using namespace vf;
using namespace pr;
using namespace c05;

struct WorldSpec { const PSet *ps; int vkind; const char *tag; };

// ------------------------------------------------------------------ execution of one mutated run
struct Base {                       // an accepted honest run of an instance
	std::vector<Ev> log; std::vector<std::string> pl, vl; bool ok = false; uint64_t sa = 0, sb = 0;
	std::function<void(Task *)> cfgV;
};

static Base baseline(Instance &I, uint64_t sa, uint64_t sb, std::function<void(Task *)> cfgV = nullptr) {
	Base B; B.sa = sa; B.sb = sb; B.cfgV = cfgV;
	RunOpt o; o.cfgV = cfgV;
	RunResult R = run(I, sa, sb, o);
	B.ok = R.ok; B.log = R.log;
	for (auto &e : R.log) if (e.kind == 'W') (e.side == 0 ? B.pl : B.vl).push_back(e.text);
	return B;
}

struct Verdict { bool accepted = false, exc = false, eof = false, diverged = false; std::string what; };

// prover that replays the recorded prover side of a run (same read/write pattern)
static ProveFn replayer(const std::vector<Ev> &log) {
	return [&log](std::istream &in, std::ostream &out) {
		std::string tmp;
		for (auto &e : log) {
			if (e.side != 0) continue;
			if (e.kind == 'R') { if (!std::getline(in, tmp)) return; }
			else if (e.kind == 'W') out << e.text << std::endl;
		}
	};
}

// verifier re-run against the text of a non-interactive proof
static Verdict verify_text(Instance &I, const Base &B, const std::vector<std::string> &lines) {
	Verdict V; std::string text; for (auto &l : lines) { text += l; text += "\n"; }
	std::stringstream in(text), out; Rng r(B.sa, B.sb * 2 + 2, 2); Rng *old = tl_rng; tl_rng = &r;
	std::string exc; V.accepted = accepted([&] { return I.verify(in, out); }, &exc) == 1;
	tl_rng = old; V.exc = !exc.empty(); V.what = exc; return V;
}

static std::vector<std::string> apply_text(const std::vector<std::string> &pl, const LineMut &m) {
	std::vector<std::string> o;
	for (size_t i = 0; i < pl.size(); i++) {
		if (i == m.k) { if (m.op == LineMut::REPL) o.push_back(m.text); else if (m.op == LineMut::SWAP && i + 1 < pl.size()) { o.push_back(pl[i + 1]); o.push_back(pl[i]); i++; } }
		else o.push_back(pl[i]);
	}
	return o;
}

// man in the middle on prover->verifier line m.k while the real prover answers the real verifier
static Verdict verify_mitm(Instance &I, const Base &B, const LineMut &m) {
	Verdict V; RunOpt o; o.cfgV = B.cfgV;
	auto held = std::make_shared<std::string>(); auto div = std::make_shared<bool>(false);
	const std::vector<std::string> *pl = &B.pl; LineMut mm = m;
	o.relayP = [pl, mm, held, div](size_t idx, const std::string &t) -> std::vector<std::string> {
		if (idx <= mm.k && idx < pl->size() && (*pl)[idx] != t) *div = true;     // the honest part of the run must repeat the recorded one
		if (idx == mm.k) {
			if (mm.op == LineMut::REPL) return {mm.text};
			if (mm.op == LineMut::DEL) return {};
			*held = t; return {};                          // SWAP: withhold until the next line arrives
		}
		if (idx == mm.k + 1 && mm.op == LineMut::SWAP) return {t, *held};
		return {t};
	};
	RunResult R = run(I, B.sa, B.sb, o);
	V.accepted = R.ok; V.exc = R.v_exc; V.what = R.exc; V.eof = R.eof; V.diverged = *div;
	return V;
}

// verifier re-run against the recorded prover side (public input / verifier object altered)
static Verdict verify_replay(Instance &I, const Base &B) {
	Verdict V;
	if (!I.interactive) return verify_text(I, B, B.pl);
	ProveFn saved = I.prove; I.prove = replayer(B.log);
	RunOpt o; o.cfgV = B.cfgV; RunResult R;
	try { R = run(I, B.sa, B.sb, o); } catch (...) { I.prove = saved; throw; }
	I.prove = saved;
	V.accepted = R.ok; V.exc = R.v_exc; V.what = R.exc; V.eof = R.eof;
	std::vector<std::string> vl; for (auto &e : R.log) if (e.kind == 'W' && e.side == 1) vl.push_back(e.text);
	// the recorded answers fit only the recorded challenges
	for (size_t i = 0; i < vl.size() && i < B.vl.size(); i++) if (vl[i] != B.vl[i]) V.diverged = true;
	return V;
}

static std::function<void(Task *)> script_all(int bit) { return [bit](Task *t) { t->rng.script.assign(4096, bit); t->rng.script_pos = 0; t->rng.scripted = true; }; }

// which challenge value makes a cut-and-choose verifier look at this public input: -1 every round
static int selected_by(const Instance &I, const std::string &name) {
	if (I.variant.compare(0, 6, "kappa=") != 0) return -1;
	if (I.proto == "tmcg/cardsecret-qr") return -1;
	if (name.compare(0, 3, "s2[") == 0 || name.compare(0, 3, "cc.") == 0) return 1;
	if (name.compare(0, 2, "s[") == 0 || name.compare(0, 2, "c.") == 0) return 0;
	return -1;
}

static std::string strip_idx(const std::string &s) { std::string o; bool in = false; for (char c : s) { if (c == '[') { in = true; o += "[]"; continue; } if (c == ']') { in = false; continue; } if (!in) o += c; } return o; }

int main(int argc, char **argv) {
	init(argc, argv);
	null_cerr();
	if (!init_libTMCG()) return 2;
	bool quick = ctx.quick();
	std::vector<WorldSpec> worlds = {{&PS_S, 0, "S/random-g"}, {&PS_S, 1, "S/canonical-g"}, {&PS_S, 2, "S/groupQR"}, {&PS_G, 0, "G/random-g"}};
	if (!quick) worlds.push_back({&PS_D, 0, "D/random-g"});
	std::vector<size_t> sizes = quick ? std::vector<size_t>{3} : std::vector<size_t>{2, 3, 8};
	std::vector<size_t> qr_sizes = quick ? std::vector<size_t>{3} : std::vector<size_t>{2, 3};
	std::string only_proto = ctx.option("proto"); bool dump = ctx.option_l("dump", 0) != 0;
	long only_world = ctx.option_l("world", -1), max_n = ctx.option_l("maxn", 0);      // development aids (triage of the full catalogue)
	std::map<int, World *> wcache; std::map<int, Alt *> acache;
	auto &F = registry();
	long k = 0;
	for (size_t wi = 0; wi < worlds.size(); wi++) for (size_t fi = 0; fi < F.size(); fi++) {
		Factory &f = F[fi];
		bool isD = worlds[wi].ps == &PS_D;
		if (f.family == "qr" && !(wi == 0 || isD)) continue;                // QR encoding does not depend on the dlog group
		if (f.name == "rabin/key-nizk" && wi != 0) continue;
		// quick: sized protocols in one world (rotating with the seed and the protocol index); the rest in every world
		// ... and additionally in the GroupQR world with the range class (+q, +p) only: there |q| = |p|-1 and the exponents are
		// short, so a missing range check is visible at every position (in the other worlds v+q often overflows the |q|-bit
		// fixed-base tables and is refused by accident)
		bool range_only = false;
		if (quick && f.sized && f.family == "dlog" && (fi + ctx.seed) % worlds.size() != wi) { if (wi == 2) range_only = true; else continue; }
		if (isD && !(fi % 5 == ctx.seed % 5)) continue;                     // default sizes: sampled
		bool filtered = false;
		if (!only_proto.empty()) {     // development / mutant triage: --opt proto=<prefix>[,<prefix>...]; case numbers stay the same
			bool hit = false; std::stringstream ps(only_proto); std::string pfx; while (std::getline(ps, pfx, ',')) if (!pfx.empty() && f.name.compare(0, pfx.size(), pfx) == 0) hit = true;
			filtered = !hit;
		}
		if (only_world >= 0 && (long)wi != only_world) filtered = true;
		std::vector<size_t> ns = f.sized ? (f.family == "qr" ? qr_sizes : sizes) : std::vector<size_t>{0};
		if (isD && f.sized) ns = {2};
		size_t nblocks = blocks_of(f.name) * (quick ? 1 : 3);
		for (size_t n : ns) for (size_t blk = 0; blk < nblocks; blk++) {
			if (!quick && n == 8 && !(wi == 0 || wi == 3)) continue;                 // thorough: n = 8 in the S/random-g and G worlds
			std::string cid = std::string(worlds[wi].tag) + " " + f.name + " n=" + std::to_string(n);
			std::string desc = cid + " block=" + std::to_string(blk) + "/" + std::to_string(nblocks) + (range_only ? " range-class-only" : "");
			long kk = k++;
			if (filtered || (max_n > 0 && (long)n > max_n) || !case_begin(kk, desc)) continue;
			World *&W = wcache[(int)wi];
			if (!W) { W = new World(*worlds[wi].ps, worlds[wi].vkind, ctx.seed); if (isD) W->rabin_bits = 1024; prepare_world(*W, isD ? std::vector<size_t>{2} : sizes, wi == 0 || isD); }
			uint64_t cseed = fnv(cid);
			auto make = [&](World &Wx) { Wx.rng = Rng(ctx.seed, cseed, 77); Rng rg(ctx.seed, cseed, 3); Rng *old = tl_rng; tl_rng = &rg; Instance *I = f.make(Wx, rg, n); tl_rng = old; return I; };
			std::unique_ptr<Instance> I(make(*W));
			Cat C(*I);
			uint64_t sa = ctx.seed, sb = cseed % 1000003ULL;
			Base B = baseline(*I, sa, sb);
			long long evals = 0, judged = 0; std::set<std::string> distinct; std::string sample;
			count("baseline_runs");
			if (!B.ok) {
				count("baseline_rejected/" + f.name);
				violation("C05/baseline-rejected/" + f.name, "honest unmodified run was not accepted (the case is trivial; see C03)", J().kv("case", desc).str());
				case_end(desc, false, "", 1, 0); continue;
			}
			if (dump) { for (size_t i = 0; i < B.pl.size(); i++) fprintf(stderr, "%s P%zu %s [%s]\n", cid.c_str(), i, shorten(B.pl[i], 100).c_str(), line_role(C, B.pl[i]).c_str()); }
			auto report = [&](const std::string &role, const std::string &mut, const std::string &tkind, const J &wit) {
				violation("C05/accepted/" + f.name + "/" + role + "/" + mut, "verifier accepted a run in which " + tkind + " was replaced by a non-equivalent value", wit.str());
			};
			auto note = [&](const Verdict &V) { evals++; count("verifier_runs"); count("runs/" + f.name); if (!V.accepted) { count("refused"); if (V.exc) count("refused_by_exception"); else if (V.eof) count("refused_after_eof"); } if (V.diverged) count("replay_divergence"); };

			// ---------------------------------------------------------- (1) transcript lines
			std::vector<LineMut> LM = gen_line_muts(C, B.pl, !quick, f.name);
			if (blk == 0 && !range_only) { count("lines/" + f.name, (long long)B.pl.size()); count("prover_lines_total", (long long)B.pl.size()); }
			if (range_only) count("range_only_cases");
			for (size_t i = 0; i < LM.size(); i++) {
				if (i % nblocks != blk) continue;
				LineMut &m = LM[i];
				if (range_only && m.mut != "+q" && m.mut != "+p") continue;
				if (m.equal) { count("skipped_equal_text"); count("skipped_equal/" + m.mut); continue; }
				Verdict V = I->interactive ? verify_mitm(*I, B, m) : verify_text(*I, B, apply_text(B.pl, m));
				note(V);
				std::string cls = m.role + "/" + m.mut;
				if (!m.judged) { count("equiv_executed/" + m.why + "/" + cls); if (V.accepted) count("equiv_accepted/" + m.why + "/" + cls); continue; }
				judged++; count("judged_line_runs"); count("cov/" + f.name + "/" + cls); count("mut/" + m.mut); count("role/" + m.cls);
				distinct.insert("L" + std::to_string(m.k) + "." + std::to_string(m.field) + "/" + m.mut);
				if (V.accepted) {
					J w; w.kv("world", worlds[wi].tag).kv("proto", f.name).kv("variant", I->variant).kv("n", (long long)n).kv("interactive", I->interactive)
					 .kv("line", (long long)m.k).kv("of_lines", (long long)B.pl.size()).kv("field", (long long)m.field).kv("role", m.role).kv("mutation", m.mut)
					 .kv("original", shorten(m.orig, 400)).kv("mutated", shorten(m.text, 400)).kv("line_original", shorten(B.pl[m.k], 600))
					 .kz("p", C.p).kz("q", C.q).kz("m", C.m).kv("seed_a", (unsigned long long)sa).kv("seed_b", (unsigned long long)sb).kv("replay_diverged", V.diverged);
					report(m.role, m.mut, "transcript line " + std::to_string(m.k) + " (" + m.role + ")", w);
				}
				if (sample.empty() && m.k > 0) sample = J().kv("world", worlds[wi].tag).kv("proto", f.name).kv("variant", I->variant).kv("n", (long long)n).kv("target", "line " + std::to_string(m.k) + "/" + std::to_string(B.pl.size())).kv("role", m.role).kv("mutation", m.mut).kv("original", shorten(m.orig, 60)).kv("mutated", shorten(m.text, 60)).kv("verdict", V.accepted ? "accepted" : (V.exc ? "exception" : "false")).str();
			}

			// ---------------------------------------------------------- (2) public inputs (verifier's view)
			if (!range_only) {
				// cut-and-choose verifiers look at a public input only in rounds whose challenge selects it:
				// the run is repeated with the verifier's coins scripted to all-0 and all-1
				bool cc = I->interactive && I->variant.compare(0, 6, "kappa=") == 0;
				std::vector<Base> bases;
				size_t pi_idx = 0; bool any_here = false;
				for (size_t h = 0; h < I->pub.size(); h++) if ((h % nblocks) == blk) any_here = true;
				if (any_here) {
					if (cc) { bases.push_back(baseline(*I, sa, sb + 1, script_all(0))); bases.push_back(baseline(*I, sa, sb + 2, script_all(1))); }
					else bases.push_back(B);
					for (auto &bb : bases) if (!bb.ok) { count("baseline_rejected/" + f.name); violation("C05/baseline-rejected/" + f.name, "honest run with scripted verifier coins was not accepted", J().kv("case", desc).str()); }
					// the replayed transcript itself must be accepted (otherwise replays are trivial)
					for (auto &bb : bases) if (bb.ok) { Verdict V0 = verify_replay(*I, bb); count("replay_selfchecks"); if (!V0.accepted) { count("replay_selfcheck_failed"); violation("C05/harness/replay-not-accepted/" + f.name, "recorded honest transcript replayed unchanged was not accepted", J().kv("case", desc).kv("diverged", V0.diverged).str()); } }
				}
				if (blk == 0) { count("pub_inputs/" + f.name, (long long)I->pub.size()); count("pub_inputs_total", (long long)I->pub.size()); }
				for (size_t h = 0; h < I->pub.size(); h++, pi_idx++) {
					if ((h % nblocks) != blk) continue;
					Pub &P = I->pub[h]; std::string prole = "pub." + strip_idx(P.name);
					mpz_t saved; mpz_init_set(saved, P.v);
					mpz_srcptr next = nullptr; for (size_t h2 = h + 1; h2 < I->pub.size(); h2++) if (I->pub[h2].kind == P.kind && mpz_cmp(I->pub[h2].v, saved)) { next = I->pub[h2].v; break; }
					std::vector<PubMut> PM = gen_pub_muts(C, P.kind, saved, next, !quick);
					int sel = selected_by(*I, P.name);
					for (auto &pm : PM) {
						if (!mpz_cmp(pm.v, saved)) { count("skipped_equal_pub"); continue; }
						for (size_t bi = 0; bi < bases.size(); bi++) {
							if (!bases[bi].ok) continue;
							bool is_judged = pm.judged && (!cc || sel < 0 || sel == (int)bi);
							mpz_set(P.v, pm.v);
							Verdict V; try { V = verify_replay(*I, bases[bi]); } catch (...) { mpz_set(P.v, saved); throw; }
							mpz_set(P.v, saved);
							note(V);
							std::string cls = P.kind + "/" + pm.mut;
							if (!is_judged) { std::string why = pm.judged ? "not-selected-by-challenge" : pm.why; count("equiv_executed/" + why + "/pub." + cls); if (V.accepted) count("equiv_accepted/" + why + "/pub." + cls); continue; }
							judged++; count("judged_pub_runs"); count("pubcov/" + f.name + "/" + cls); count("pubmut/" + cls);
							distinct.insert("P" + std::to_string(h) + "/" + pm.mut + "/" + std::to_string(bi));
							if (V.accepted) {
								J w; w.kv("world", worlds[wi].tag).kv("proto", f.name).kv("variant", I->variant).kv("n", (long long)n).kv("public_input", P.name).kv("kind", P.kind).kv("mutation", pm.mut)
								 .kz("original", saved).kz("mutated", pm.v).kz("p", C.p).kz("q", C.q).kz("m", C.m).kv("verifier_coins", cc ? (bi ? "all-1" : "all-0") : "random").kv("replay_diverged", V.diverged)
								 .kv("seed_a", (unsigned long long)sa).kv("seed_b", (unsigned long long)bases[bi].sb);
								report(prole, pm.mut, "public input " + P.name, w);
							}
						}
					}
					mpz_clear(saved);
				}
			}

			// ---------------------------------------------------------- (3) verifier-side objects
			if (blk == 0 && f.name != "rabin/key-nizk" && !range_only) {
				Alt *&A = acache[(int)wi]; if (!A) A = new Alt(*W, ctx.seed);
				for (const std::string &ak : alt_kinds(f.name)) {
					World *V0 = A->view("identity", n), *V1 = ak == "key:other-rabin" ? V0 : A->view(ak, n);
					if (!V1) { count("alt_unavailable/" + ak); continue; }
					std::unique_ptr<Instance> I0(make(*V0));
					Base B0 = baseline(*I0, sa, sb + 7);
					count("alt_baselines"); if (!B0.ok) { count("alt_baseline_rejected"); violation("C05/baseline-rejected/" + f.name, "honest run through an identity verifier view was not accepted", J().kv("case", desc).str()); continue; }
					Verdict V; bool same = true; std::string variant = I0->variant;
					if (ak == "key:other-rabin") {
						// prover and verifier closures of the QR instances share the ring: the recorded honest run is replayed
						// against the same verifier closure while the view's ring pointer designates the alternative ring
						TMCG_PublicKeyRing *orig = V0->ring; V0->ring = A->alt_ring();
						try { V = verify_replay(*I0, B0); } catch (...) { V0->ring = orig; throw; }
						V0->ring = orig;
					} else {
						std::unique_ptr<Instance> I1(make(*V1));
						same = I0->pub.size() == I1->pub.size(); for (size_t h = 0; same && h < I0->pub.size(); h++) if (mpz_cmp(I0->pub[h].v, I1->pub[h].v)) same = false;
						if (!same) count("alt_statement_differs");
						RunResult R = run(*I1, sa, sb + 7);
						V.accepted = R.ok; V.exc = R.v_exc; V.eof = R.eof;
					}
					note(V);
					judged++; count("judged_alt_runs"); count("altcov/" + f.name + "/" + ak); count("alt/" + ak); distinct.insert("A/" + ak);
					if (V.accepted) {
						J w; w.kv("world", worlds[wi].tag).kv("proto", f.name).kv("variant", variant).kv("n", (long long)n).kv("verifier_object", ak).kv("what", A->describe(ak)).kv("same_statement", same).kv("seed_a", (unsigned long long)sa).kv("seed_b", (unsigned long long)(sb + 7));
						report("verifier-object", ak, "the verifier's " + ak, w);
					}
				}
			}
			count("judged_total", judged);
			if (judged > 0) count("nontrivial_cases");
			case_end(desc, judged > 0, sample, evals, (long long)distinct.size());
		}
	}
	finish();
	return 0;
}
