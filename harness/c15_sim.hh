// c15_sim.hh — C15 building blocks: Z_q arithmetic of the monitor (own Lagrange
// interpolation, Pedersen/Feldman relations), deviation-capable SimNet endpoints
// and the n-party world (tasks, two nets, phase barrier).
#pragma once
#include "engine.hh"
#include <algorithm>
#include <memory>
#include <set>

namespace c15 {
using namespace vf;

// ------------------------------------------------------------------ mpz value type
struct Z {
	mpz_t v;
	Z() { mpz_init(v); }
	Z(const Z &o) { mpz_init_set(v, o.v); }
	explicit Z(mpz_srcptr s) { mpz_init_set(v, s); }
	explicit Z(unsigned long u) { mpz_init_set_ui(v, u); }
	Z &operator=(const Z &o) { if (this != &o) mpz_set(v, o.v); return *this; }
	~Z() { mpz_clear(v); }
	bool operator==(const Z &o) const { return mpz_cmp(v, o.v) == 0; }
	bool operator!=(const Z &o) const { return mpz_cmp(v, o.v) != 0; }
	std::string dec() const { return mpz_dec(v); }
};

struct Group { Z p, q, g, h; unsigned long fs = 0, gs = 0; bool ok = false; };

// ------------------------------------------------------------------ monitor arithmetic
// (written for the monitor; shares no code with the library's interpolation)

// f(0) from points (idx[a]+1, val[a]) over Z_q:  sum_a val_a * prod_{b!=a} x_b / (x_b - x_a)
inline bool lagrange0(Z &out, const std::vector<size_t> &idx, const std::vector<const Z *> &val, const Z &q) {
	mpz_t num, den, t, acc; mpz_init(num); mpz_init(den); mpz_init(t); mpz_init(acc);
	bool ok = true;
	for (size_t a = 0; a < idx.size() && ok; a++) {
		mpz_set_ui(num, 1); mpz_set_ui(den, 1);
		for (size_t b = 0; b < idx.size(); b++) {
			if (b == a) continue;
			mpz_mul_ui(num, num, (unsigned long)(idx[b] + 1)); mpz_mod(num, num, q.v);
			mpz_set_si(t, (long)(idx[b] + 1) - (long)(idx[a] + 1));
			mpz_mul(den, den, t); mpz_mod(den, den, q.v);
		}
		if (!mpz_invert(den, den, q.v)) { ok = false; break; }
		mpz_mul(t, num, den); mpz_mul(t, t, val[a]->v); mpz_add(acc, acc, t); mpz_mod(acc, acc, q.v);
	}
	mpz_set(out.v, acc);
	mpz_clear(num); mpz_clear(den); mpz_clear(t); mpz_clear(acc);
	return ok;
}

// prod_k C[k]^{(i+1)^k} mod p
inline void commit_eval(Z &out, const std::vector<Z> &C, size_t i, const Z &p) {
	mpz_t e, t; mpz_init(e); mpz_init(t);
	mpz_set_ui(out.v, 1);
	for (size_t k = 0; k < C.size(); k++) {
		mpz_ui_pow_ui(e, (unsigned long)(i + 1), (unsigned long)k);
		mpz_powm(t, C[k].v, e, p.v);
		mpz_mul(out.v, out.v, t); mpz_mod(out.v, out.v, p.v);
	}
	mpz_clear(e); mpz_clear(t);
}

// g^a h^b mod p   (a, b reduced mod q first: exponents may be stored unreduced)
inline void ped(Z &out, const Group &G, const Z &a, const Z &b) {
	mpz_t t, e; mpz_init(t); mpz_init(e);
	mpz_mod(e, a.v, G.q.v); mpz_powm(out.v, G.g.v, e, G.p.v);
	mpz_mod(e, b.v, G.q.v); mpz_powm(t, G.h.v, e, G.p.v);
	mpz_mul(out.v, out.v, t); mpz_mod(out.v, out.v, G.p.v);
	mpz_clear(t); mpz_clear(e);
}
inline void gpow(Z &out, const Group &G, const Z &a) { mpz_t e; mpz_init(e); mpz_mod(e, a.v, G.q.v); mpz_powm(out.v, G.g.v, e, G.p.v); mpz_clear(e); }

// all k-subsets of {0..m-1} in lexicographic order
inline void subsets(size_t m, size_t k, std::vector<std::vector<size_t>> &out) {
	out.clear(); if (k > m) return;
	std::vector<size_t> c(k); for (size_t i = 0; i < k; i++) c[i] = i;
	for (;;) {
		out.push_back(c);
		size_t i = k; while (i > 0 && c[i - 1] == m - k + (i - 1)) i--;
		if (i == 0) break;
		c[i - 1]++; for (size_t j = i; j < k; j++) c[j] = c[j - 1] + 1;
	}
}

// ------------------------------------------------------------------ deviations
enum DevKind { D_NONE = 0, D_BUILTIN, D_WRONG_SHARE, D_FALSE_COMPLAINT, D_SILENT, D_BC_ALTER, D_BAD_REVEAL, D_SHIFT, D_UNANSWERED, D_KINDS };
inline const char *dev_name(int k) { static const char *n[] = {"none", "builtin", "wrong_share", "false_complaint", "silent", "bc_alter", "bad_reveal", "shift", "unanswered"}; return (k >= 0 && k < D_KINDS) ? n[k] : "?"; }
struct Dev {
	int kind = D_NONE;
	int phase = -1;      // phase the deviation acts in (-1: every phase)
	size_t victim = 0;   // wrong_share: recipient; false_complaint: accused party
	long k = 0;          // wrong_share: index of the message on the link; false_complaint: before the k-th end marker (1-based);
	                     // silent: after k broadcasts of the phase; bc_alter: the k-th broadcast of the phase (1-based);
	                     // bad_reveal: wrong first share to the victim AND the published share altered (k > 0: the k-th broadcast
	                     // of the phase, k < 0: the |k|-th broadcast after the party's first end marker);
	                     // unanswered: wrong first share to the victim AND the answer list closed at once (its first entry, the
	                     // complainer's index, is replaced by the end marker) - the complaint stays unanswered
	                     // shift (zero sharing): the party deals f(z)+1, f'(z)+1 coherently: first commitment g*h instead of 1,
	                     // every share +1 - consistent with equation (1), only the check C_i0 = 1 can catch it
	long k2 = 1;         // false_complaint: how often the complaint value is inserted (2 = duplicated complaint)
	std::string json() const { return J().kv("kind", dev_name(kind)).kv("phase", phase).kv("victim", (long long)victim).kv("k", (long long)k).kv("k2", (long long)k2).str(); }
};

struct World;

// SimNet endpoint that can carry out the scripted deviations of its (faulty) owner.
// Honest parties use the same class with dev.kind == D_NONE (pure pass-through + counting).
class DevUnicast : public SimUnicast {
public:
	World *W; bool is_bc; Dev dev; Z q, gh;
	CachinKursawePetzoldShoupRBC *rbc = nullptr;
	std::vector<bool> *mutev = nullptr;   // silence switch of the net this endpoint sits on (default: World::mute)
	size_t statj = (size_t)-1;            // index for World::bcasts (the party's identity; differs from j on a re-numbered net)
	int cur_phase = 0;
	long nb = 0, nend = 0, link_cnt = 0, after_end1 = 0;   // per phase: own broadcasts, own end markers, messages to the victim, broadcasts after the first end marker
	long total_bc = 0; long rreq[2] = {0, 0};      // r-request messages sent per phase (payload awaited after the ready quorum)
	bool nesting = false, injected = false, repl = false, fired = false;
	Z repl_id, repl_s, repl_val, last_id, last_s; bool have_last = false;
	DevUnicast(size_t n_, size_t j_, Net *nt, World *w, bool bc, time_t to)
		: SimUnicast(n_, j_, nt, aio_scheduler_roundrobin, to), W(w), is_bc(bc) {}
	void enter_phase(int ph) { cur_phase = ph; nb = nend = link_cnt = after_end1 = 0; injected = false; repl = false; }
	bool active() const { return dev.kind != D_NONE && (dev.phase < 0 || dev.phase == cur_phase); }
	bool Send(mpz_srcptr m, const size_t i, time_t to) override;
	bool Send(const std::vector<mpz_srcptr> &m, const size_t i, time_t to) override;
	bool Receive(std::vector<mpz_ptr> &m, size_t &i_out, const size_t sched, const time_t to) override;   // debugging probe only
};

// ------------------------------------------------------------------ world
struct World {
	size_t n; Sched sched; Net uni, bc; Barrier bar;
	Net uni2, bc2; std::vector<bool> mute2;    // second network on which the parties sit at permuted indices (index-mapped Refresh)
	std::vector<bool> mute;                    // party's outgoing messages are dropped (silence)
	long dmax = 0;                             // honest-run link delays 0..dmax virtual seconds
	Rng netrng;
	uint64_t dropped_mute = 0, delayed = 0;
	std::vector<long> bcasts;                  // broadcasts per party (all phases)
	std::function<void()> probe; long probe_at = -1;   // debugging aid: called once when the clock passes probe_at
	World(size_t n_, uint64_t sseed) : n(n_), sched(sseed), uni(n_, &sched), bc(n_, &sched), bar(n_), uni2(n_, &sched), bc2(n_, &sched), mute2(n_, false), mute(n_, false), bcasts(n_, 0) {
		sched.use_vclock = true; sched.random_pick = true;
		netrng.seed(sseed, 0xde1a);
		auto rule = [this](size_t from, size_t, mpz_ptr, long &delay, int &) -> bool {
			if (mute[from]) { dropped_mute++; return false; }
			if (dmax > 0) { delay = (long)netrng.below((uint64_t)dmax + 1); if (delay) delayed++; }
			return true;
		};
		uni.fault = rule; bc.fault = rule;
		auto rule2 = [this](size_t from, size_t, mpz_ptr, long &delay, int &) -> bool {
			if (mute2[from]) { dropped_mute++; return false; }
			if (dmax > 0) { delay = (long)netrng.below((uint64_t)dmax + 1); if (delay) delayed++; }
			return true;
		};
		uni2.fault = rule2; bc2.fault = rule2;
	}
};

inline bool DevUnicast::Receive(std::vector<mpz_ptr> &m, size_t &i_out, const size_t sched, const time_t to) {
	if (W->probe && W->probe_at >= 0 && g_vtime >= W->probe_at) { W->probe_at = -1; W->probe(); }
	return SimUnicast::Receive(m, i_out, sched, to);
}

inline bool DevUnicast::Send(mpz_srcptr m, const size_t i, time_t to) {
	if (!is_bc && dev.kind == D_SHIFT && active()) { Z w(m); mpz_add_ui(w.v, w.v, 1); mpz_mod(w.v, w.v, q.v); fired = true; return SimUnicast::Send(w.v, i, to); }
	if (!is_bc && (dev.kind == D_WRONG_SHARE || dev.kind == D_BAD_REVEAL || dev.kind == D_UNANSWERED) && active() && i == dev.victim) {
		if (link_cnt++ == (dev.kind == D_WRONG_SHARE ? dev.k : 0)) {
			Z w(m); mpz_add_ui(w.v, w.v, 1); mpz_mod(w.v, w.v, q.v); fired = true;
			return SimUnicast::Send(w.v, i, to);
		}
	}
	return SimUnicast::Send(m, i, to);
}

inline bool DevUnicast::Send(const std::vector<mpz_srcptr> &m, const size_t i, time_t to) {
	// the reliable broadcast sends 5-tuples (ID, j, s, action, payload); action 1 = r-send, 4 = r-request
	if (is_bc && m.size() == 5 && mpz_cmp_ui(m[3], 4UL) == 0 && cur_phase >= 0 && cur_phase < 2) rreq[cur_phase]++;
	if (is_bc && !nesting && m.size() == 5 && mpz_cmp_ui(m[3], 1UL) == 0 && mpz_cmp_ui(m[1], (unsigned long)j) == 0) {
		// Broadcast() sends the same (ID, s) to the recipients one after the other: a new pair = a new broadcast
		bool first = !(have_last && mpz_cmp(m[0], last_id.v) == 0 && mpz_cmp(m[2], last_s.v) == 0);
		if (first) { have_last = true; mpz_set(last_id.v, m[0]); mpz_set(last_s.v, m[2]); }
		bool endm = (mpz_cmp_ui(m[4], (unsigned long)n) == 0);
		if (first) { nb++; total_bc++; W->bcasts[statj == (size_t)-1 ? j : statj]++; if (endm) nend++; else if (nend >= 1) after_end1++; }
		if (first && active()) {
			{ std::vector<bool> &mv = mutev ? *mutev : W->mute; if (dev.kind == D_SILENT && nb > dev.k && !mv[j]) { mv[j] = true; fired = true; } }
			if (dev.kind == D_FALSE_COMPLAINT && endm && nend == dev.k && !injected && rbc) {
				// insert the value `victim` before this end marker: the end marker is re-broadcast
				// under the next sequence number, this slot carries the complaint instead
				injected = true; fired = true;
				Z pay(m[4]), vic((unsigned long)dev.victim);
				nesting = true;
				for (long r = 1; r < dev.k2; r++) rbc->Broadcast(vic.v);
				rbc->Broadcast(pay.v);
				nesting = false;
				repl = true; mpz_set(repl_id.v, m[0]); mpz_set(repl_s.v, m[2]); mpz_set_ui(repl_val.v, (unsigned long)dev.victim);
			}
			if (dev.kind == D_SHIFT && nb == 1) { repl = true; fired = true; mpz_set(repl_id.v, m[0]); mpz_set(repl_s.v, m[2]); mpz_set(repl_val.v, gh.v); }
			if (dev.kind == D_BAD_REVEAL && dev.k < 0 && !endm && nend == 1 && after_end1 == -dev.k) {
				repl = true; fired = true; mpz_set(repl_id.v, m[0]); mpz_set(repl_s.v, m[2]); mpz_add_ui(repl_val.v, m[4], 1UL);
			}
			if (dev.kind == D_UNANSWERED && !endm && nend == 1 && after_end1 == 1) {
				repl = true; fired = true; mpz_set(repl_id.v, m[0]); mpz_set(repl_s.v, m[2]); mpz_set_ui(repl_val.v, (unsigned long)n);
			}
			if ((dev.kind == D_BC_ALTER || (dev.kind == D_BAD_REVEAL && dev.k > 0)) && nb == dev.k) {
				repl = true; fired = true; mpz_set(repl_id.v, m[0]); mpz_set(repl_s.v, m[2]); mpz_add_ui(repl_val.v, m[4], 1UL);
			}
		}
		if (repl && mpz_cmp(m[0], repl_id.v) == 0 && mpz_cmp(m[2], repl_s.v) == 0) {
			std::vector<mpz_srcptr> mm(m); mm[4] = repl_val.v;
			return SimUnicast::Send(mm, i, to);
		}
	}
	return SimUnicast::Send(m, i, to);
}

} // namespace c15
