// w_c06.cc — C06: parameter validation accepts exactly well-formed groups.
// Oracle: library verdict (CheckGroup / CheckElement; constructor std::exception = refusal)
// must EQUAL an independent reference predicate (c06_ref.hh, plain GMP from the property text).
//   A  sets produced by every generating path of the library          (must be accepted + reference-valid)
//   B  every single-field corruption of a valid set, re-imported       (verdicts must be equal)
//   C  whole-set / configuration variants: size boundaries, q | k, p = 3 mod 8
//   D  CheckElement exhaustively on toy groups, a in [-2p-2, 2p+2]
//   E  CheckElement sampled on full-size groups; toy CheckGroup incl. derivation retries
#include "engine.hh"
#include "c06_classes.hh"
#include <memory>
#include <set>

using namespace vf;
using namespace c06;



static std::string fields_json(const Cls &c, const Fields &f) { J j; for (auto &n : c.fields) j.kz(n.c_str(), f.at(n)); return j.str(); }
static std::string basename_of(const std::string &field) { size_t d = field.rfind('.'); return d == std::string::npos ? field : field.substr(d + 1); }
static std::string prefix_of(const std::string &field) { size_t d = field.rfind('.'); return d == std::string::npos ? "" : field.substr(0, d + 1); }
static std::string kind_of(const std::string &field) { std::string b = basename_of(field); if (b.size() == 2 && b[0] == 'g' && isdigit((unsigned char)b[1])) return "gi"; return b; }
static bool is_gen_field(const std::string &field) { std::string k = kind_of(field); return k == "g" || k == "h" || k == "gi"; }

struct Eval { int ref = -1, lib = 0; bool threw = false; std::string exc, why; };
static Eval evaluate(const Cls &c, const Fields &f, unsigned long F, unsigned long G) {
	Eval e;
	e.ref = ref_verdict(c, f, F, G, e.why);
	e.lib = accepted([&] { return c.lib(f, F, G); }, &e.exc);
	e.threw = !e.exc.empty();
	return e;
}
// returns true when judged
static bool judge(const Cls &c, const std::string &field, const std::string &mut, const Eval &e, const Fields &f, unsigned long F, unsigned long G, const std::string &section) {
	count(section + "_evals");
	if (e.threw) count("constructor_exception_refusals");
	if (e.ref < 0) { count("not_judged"); count(std::string("not_judged_lib_") + (e.lib ? "accepts" : "refuses")); return false; }
	count(e.ref ? "ref_accept" : "ref_refuse");
	if (e.ref == e.lib) return true;
	std::string key;
	bool own = c.kind == K_GVSSHE && prefix_of(field).empty() && field != "sizes" && field != "set";
	if (own && e.ref == 0 && e.lib == 1) key = "C06/GrothVSSHE/own-encryption-group-unchecked";
	else key = "C06/" + c.name + (e.lib ? "/accepts-invalid/" : "/refuses-valid/") + kind_of(field);
	violation(key, e.lib ? "CheckGroup accepted a parameter set the property requires to be refused: " + e.why
	                     : "CheckGroup refused a well-formed parameter set" + (e.threw ? " (constructor threw: " + e.exc + ")" : std::string()),
	          J().kv("class", c.name).kv("field", field).kv("corruption", mut).kv("fieldsize", F).kv("subgroupsize", G)
	             .kv("reference", e.ref).kv("library", e.lib).kv("reference_reason", e.why).raw("fields", fields_json(c, f)).str());
	return true;
}

// ---------------------------------------------------------------- base sets from the library's generators
struct World { unsigned long F, G; std::map<std::string, Fields> base; Fields crs; };

static void vtmf_fields(const BarnettSmartVTMF_dlog &v, Fields &f) { f["p"] = Z(v.p); f["q"] = Z(v.q); f["g"] = Z(v.g); f["k"] = Z(v.k); }
static void pcom_fields(const PedersenCommitmentScheme &c, Fields &f, const std::string &pre) {
	f[pre + "p"] = Z(c.p); f[pre + "q"] = Z(c.q); f[pre + "k"] = Z(c.k); f[pre + "h"] = Z(c.h);
	for (size_t i = 0; i < c.g.size(); i++) f[pre + "g" + std::to_string(i + 1)] = Z(c.g[i]);
}

// one valid CRS (p,q,k,g canonical,h) + a public key from the library's own generator
static void make_crs(Fields &f, unsigned long F, unsigned long G) {
	BarnettSmartVTMF_dlog v(F, G, true, true);
	vtmf_fields(v, f);
	Z h; do v.RandomElement(h); while (!mpz_cmp(h, v.g)); f["h"] = h;
	v.KeyGenerationProtocol_GenerateKey(); f["hkey"] = Z(v.h);
}

static World *make_world(unsigned long F, unsigned long G, uint64_t lane, bool with_qr, unsigned long qrF) {
	World *w = new World; w->F = F; w->G = G;
	Rng r = setup_rng(1000 + lane); tl_rng = &r;
	{ BarnettSmartVTMF_dlog v(F, G, false, true); vtmf_fields(v, w->base["VTMF_dlog"]); }
	make_crs(w->crs, F, G);
	{ Fields &f = w->base["VTMF_dlog-canonical"]; for (const char *n : {"p", "q", "g", "k"}) f[n] = w->crs.at(n); }
	if (with_qr) { BarnettSmartVTMF_dlog_GroupQR v(qrF, 160); vtmf_fields(v, w->base["VTMF_dlog_GroupQR"]); }
	{ PedersenCommitmentScheme c(3, F, G); pcom_fields(c, w->base["PedersenCommitmentScheme"], ""); }
	{ GrothSKC s(3, L_E, F, G); pcom_fields(*s.com, w->base["GrothSKC"], ""); }
	{ PedersenTrapdoorCommitmentScheme c(F, G); Fields &f = w->base["PedersenTrapdoorCommitmentScheme"]; f["p"] = Z(c.p); f["q"] = Z(c.q); f["k"] = Z(c.k); f["g"] = Z(c.g); f["h"] = Z(c.h); }
	{ GrothVSSHE s(3, w->crs.at("p"), w->crs.at("q"), w->crs.at("k"), w->crs.at("g"), w->crs.at("hkey"), L_E, F, G);
	  Fields &f = w->base["GrothVSSHE"]; f["p"] = Z(s.p); f["q"] = Z(s.q); f["g"] = Z(s.g); f["h"] = Z(s.h); pcom_fields(*s.com, f, "com."); }
	{ HooghSchoenmakersSkoricVillegasVRHE v(F, G); Fields f; f["p"] = Z(v.p); f["q"] = Z(v.q); f["g"] = Z(v.g); f["h"] = Z(v.h); w->base["VRHE"] = f; w->base["VRHE-param"] = f; }
	{ NaorPinkasEOTP v(F, G); Fields f; f["p"] = Z(v.p); f["q"] = Z(v.q); f["g"] = Z(v.g); w->base["NaorPinkasEOTP"] = f; w->base["NaorPinkasEOTP-param"] = f; }
	tl_rng = nullptr;
	return w;
}
static Fields base_of(const World &w, const Cls &c) {
	auto it = w.base.find(c.name);
	if (it != w.base.end()) return it->second;
	Fields b; for (const char *n : {"p", "q", "g", "h"}) b[n] = w.crs.at(n);
	for (auto &cp : c.copies) if (!cp.empty()) copy_fields(b, cp);
	return b;
}
static void sizes_of(const World &w, const Cls &c, const Fields &b, unsigned long &F, unsigned long &G) {
	F = w.F; G = w.G; if (c.kind == K_QR) { F = mpz_sizeinbase(b.at("p"), 2); G = 160; }
}

// ---------------------------------------------------------------- B: corruption catalogue
static const char *CAT[] = {"0", "1", "2", "p-1", "p", "p+1", "q", "v+1", "v-1", "v+2", "2v", "v+p", "v+q", "nextprime", "shortprime", "g^2", "v^2", "ordk", "-v"};
static const size_t NCAT = sizeof(CAT) / sizeof(CAT[0]);
static std::vector<std::string> catalogue_names(const Cls &c, const std::string &field) {
	std::vector<std::string> v(CAT, CAT + NCAT);
	if (is_gen_field(field)) for (auto &o : c.fields) if (o != field && prefix_of(o) == prefix_of(field) && is_gen_field(o)) v.push_back("=" + basename_of(o));
	return v;
}
static void corrupt_value(Z &out, const Cls &c, const Fields &b, const std::string &field, const std::string &mut) {
	std::string pre = prefix_of(field);
	mpz_srcptr v = b.at(field), p = b.at(pre + "p"), q = b.at(pre + "q");
	mpz_srcptr g = b.count(pre + "g") ? (mpz_srcptr)b.at(pre + "g") : (mpz_srcptr)b.at(pre + "g1");
	if (mut == "0") mpz_set_ui(out, 0); else if (mut == "1") mpz_set_ui(out, 1); else if (mut == "2") mpz_set_ui(out, 2);
	else if (mut == "p-1") mpz_sub_ui(out, p, 1); else if (mut == "p") mpz_set(out, p); else if (mut == "p+1") mpz_add_ui(out, p, 1);
	else if (mut == "q") mpz_set(out, q); else if (mut == "v+1") mpz_add_ui(out, v, 1); else if (mut == "v-1") mpz_sub_ui(out, v, 1);
	else if (mut == "v+2") mpz_add_ui(out, v, 2); else if (mut == "2v") mpz_mul_2exp(out, v, 1); else if (mut == "v+p") mpz_add(out, v, p);
	else if (mut == "v+q") mpz_add(out, v, q); else if (mut == "nextprime") mpz_nextprime(out, v);
	else if (mut == "shortprime") { size_t bits = mpz_sizeinbase(v, 2); mpz_set_ui(out, 1); mpz_mul_2exp(out, out, bits > 4 ? bits - 3 : 1); mpz_nextprime(out, out); }
	else if (mut == "g^2") { mpz_mul(out, g, g); mpz_mod(out, out, p); }
	else if (mut == "v^2") { mpz_mul(out, v, v); mpz_mod(out, out, p); }
	else if (mut == "ordk") { Z x(3); do { mpz_powm(out, x, q, p); mpz_add_ui(x, x, 2); } while (mpz_cmp_ui(out, 1) <= 0); }
	else if (mut == "-v") mpz_neg(out, v);
	else if (mut[0] == '=') mpz_set(out, b.at(pre + mut.substr(1)));
	else { fprintf(stderr, "unknown corruption %s\n", mut.c_str()); exit(2); }
	(void)c;
}

static void run_corruptions(long &kcase, const std::vector<Cls> &classes, const World &w, const std::string &wname) {
	for (auto &c : classes) {
		if (c.kind == K_QR && !w.base.count(c.name)) continue;
		Fields b = base_of(w, c); unsigned long F, G; sizes_of(w, c, b, F, G);
		for (auto &field : c.fields) for (auto &mut : catalogue_names(c, field)) {
			J d; d.kv("sec", "corrupt").kv("world", wname).kv("class", c.name).kv("field", field).kv("corruption", mut);
			if (!case_begin(kcase++, d.str())) continue;
			Fields f = b; Z nv; corrupt_value(nv, c, b, field, mut);
			bool same = !mpz_cmp(nv, b.at(field));
			std::string sample; bool nt = false;
			if (same) count("corruption_identical_skipped");
			else {
				f[field] = nv;
				Eval e = evaluate(c, f, F, G);
				nt = judge(c, field, mut, e, f, F, G, "corrupt");
				count("cov_corrupt/" + c.name + "/" + kind_of(field)); count("cov_mutation/" + (mut[0] == '=' ? std::string("=other-generator") : mut));
				if (e.ref == 1 && e.lib == 1) { count("corruptions_yielding_valid_set_accepted"); if (c.kind == K_QR && (kind_of(field) == "g" || kind_of(field) == "k")) count("unpinned_field_accepts"); }
				sample = J().kv("class", c.name).kv("field", field).kv("corruption", mut).kv("value", shorten(mpz_dec(nv), 60)).kv("reference", e.ref).kv("library", e.lib).kv("constructor_threw", e.threw).kv("reference_reason", e.why).str();
			}
			case_end(d.str(), nt, sample);
		}
	}
}

// ---------------------------------------------------------------- C: whole-set and configuration variants
// fills every field of class c from a raw Schnorr triple (harness-generated): canonical g where
// the class derives it, random order-q elements elsewhere (pairwise distinct)
static void populate(const Cls &c, Fields &f, mpz_srcptr p, mpz_srcptr q, mpz_srcptr k, Rng &r) {
	std::map<std::string, Z> gens; std::vector<Z> used;
	auto fresh = [&](Z &x) { for (;;) { rand_gen(x, p, k, r); bool dup = false; for (auto &u : used) if (!mpz_cmp(u, x)) dup = true; if (!dup) break; } used.push_back(x); };
	Z cg; if (c.canonical) { ref_canonical_g(cg, p, q, k); used.push_back(cg); }
	for (auto &n : c.fields) {
		std::string b = basename_of(n);
		if (b == "p") f[n] = Z(p); else if (b == "q") f[n] = Z(q); else if (b == "k") f[n] = Z(k);
		else { std::string id = (c.kind == K_GVSSHE ? n : b);   // nested CRS copies share g,h; GrothVSSHE own h and com.h differ
			if (!gens.count(id)) { if (b == "g" && c.canonical) gens[id] = cg; else fresh(gens[id]); }
			f[n] = gens[id]; }
	}
}

struct Variant { std::string name; int expect; };   // expect only documents intent; the oracle is ref == lib
static void run_variants(long &kcase, const std::vector<Cls> &classes, const World &w) {
	// special sets, deterministic in the seed
	Rng r = setup_rng(77);
	Z p1, q1, k1, p2, q2, k2; gen_schnorr(p1, q1, k1, w.F, w.G, r, false); gen_schnorr(p2, q2, k2, w.F, w.G, r, true);
	Z qp7, qq7, qp3, qq3; gen_safeprime(qp7, qq7, 128, 7, r); gen_safeprime(qp3, qq3, 128, 3, r);
	for (auto &c : classes) {
		if (c.kind == K_QR && !w.base.count(c.name)) continue;
		Fields b = base_of(w, c);
		std::vector<std::string> vars;
		if (c.kind == K_QR) vars = {"sizes:F=|p|", "sizes:F=|p|+1", "sizes:F=|p|-8", "sizes:E=|p|", "sizes:E=|p|+1", "set:harness-safe-prime-7mod8", "set:safe-prime-3mod8"};
		else vars = {"sizes:F=|p|,G=|q|", "sizes:F=|p|+1", "sizes:G=|q|+1", "sizes:F=|p|-8,G=|q|-8", "sizes:F=|p|+1,G=|q|+1", "set:harness-valid", "set:q-divides-k"};
		for (auto &vn : vars) {
			J d; d.kv("sec", "variant").kv("class", c.name).kv("variant", vn);
			if (!case_begin(kcase++, d.str())) continue;
			Fields f = b; unsigned long F, G; sizes_of(w, c, b, F, G);
			unsigned long Lp = mpz_sizeinbase(b.at("p"), 2), Lq = mpz_sizeinbase(b.at("q"), 2);
			Rng pr = case_rng(kcase, 3);
			if (vn == "sizes:F=|p|,G=|q|") { F = Lp; G = Lq; } else if (vn == "sizes:F=|p|+1") { F = Lp + 1; if (c.kind != K_QR) G = Lq; }
			else if (vn == "sizes:G=|q|+1") { F = Lp; G = Lq + 1; } else if (vn == "sizes:F=|p|-8,G=|q|-8") { F = Lp - 8; G = Lq - 8; }
			else if (vn == "sizes:F=|p|+1,G=|q|+1") { F = Lp + 1; G = Lq + 1; }
			else if (vn == "sizes:F=|p|") F = Lp; else if (vn == "sizes:F=|p|-8") F = Lp - 8;
			else if (vn == "sizes:E=|p|") { F = Lp; G = Lp; } else if (vn == "sizes:E=|p|+1") { F = Lp; G = Lp + 1; }
			else if (vn == "set:harness-valid") populate(c, f, p1, q1, k1, pr);
			else if (vn == "set:q-divides-k") populate(c, f, p2, q2, k2, pr);
			else if (vn == "set:harness-safe-prime-7mod8") { f["p"] = qp7; f["q"] = qq7; F = 128; G = 64; }
			else if (vn == "set:safe-prime-3mod8") { f["p"] = qp3; f["q"] = qq3; F = 128; G = 64; }
			Eval e = evaluate(c, f, F, G);
			std::string fld = vn.substr(0, vn.find(':'));
			bool nt = judge(c, fld, vn, e, f, F, G, "variant");
			count("cov_variant/" + vn);
			if (vn == "set:q-divides-k" && e.ref == 0 && e.why == "gcd(k,q) != 1") count("gcd_clause_decisive");
			if (vn == "set:safe-prime-3mod8" && e.ref == 0 && e.why == "p != 7 mod 8") count("mod8_clause_decisive");
			if (fld == "sizes" && e.ref == 0) count("size_clause_decisive");
			case_end(d.str(), nt, J().kv("class", c.name).kv("variant", vn).kv("fieldsize", F).kv("subgroupsize", G).kv("reference", e.ref).kv("library", e.lib).kv("reference_reason", e.why).str());
		}
	}
}

// ---------------------------------------------------------------- A: generated sets
static void run_generated(long &kcase, const std::vector<Cls> &classes) {
	std::map<std::string, const Cls *> by; for (auto &c : classes) by[c.name] = &c;
	struct Sz { unsigned long F, G; int reps; bool qr; };
	std::vector<Sz> sizes = ctx.quick() ? std::vector<Sz>{{512, 160, 2, true}, {1024, 160, 1, false}}
	                                    : std::vector<Sz>{{512, 160, 6, true}, {1024, 160, 3, false}, {2048, 256, 2, false}};
	// recipe -> class whose import path / reference is used
	std::vector<std::pair<std::string, std::string>> recipes = {
		{"BarnettSmartVTMF_dlog(random g)", "VTMF_dlog"}, {"BarnettSmartVTMF_dlog(canonical g)", "VTMF_dlog-canonical"},
		{"BarnettSmartVTMF_dlog_GroupQR", "VTMF_dlog_GroupQR"},
		{"PedersenCommitmentScheme(n)", "PedersenCommitmentScheme"}, {"PedersenCommitmentScheme(n,p,q,k,h)", "PedersenCommitmentScheme"},
		{"PedersenCommitmentScheme+SetupGenerators_publiccoin", "PedersenCommitmentScheme"},
		{"GrothSKC(n)", "GrothSKC"}, {"GrothSKC+SetupGenerators_publiccoin", "GrothSKC"},
		{"PedersenTrapdoorCommitmentScheme()", "PedersenTrapdoorCommitmentScheme"}, {"PedersenTrapdoorCommitmentScheme(p,q,k,g)", "PedersenTrapdoorCommitmentScheme"},
		{"GrothVSSHE(n,p,q,k,g,h)", "GrothVSSHE"}, {"GrothVSSHE+SetupGenerators_publiccoin", "GrothVSSHE"},
		{"VRHE()", "VRHE"}, {"NaorPinkasEOTP()", "NaorPinkasEOTP"}};
	for (auto &c : classes) if (c.kind == K_CRS && c.name != "VRHE") recipes.push_back({"crs:" + c.name, c.name});
	recipes.push_back({"crs:NaorPinkasEOTP-param", "NaorPinkasEOTP-param"});
	for (auto &sz : sizes) for (auto &rc : recipes) for (int rep = 0; rep < sz.reps; rep++) {
		const Cls &c = *by.at(rc.second);
		if (c.kind == K_QR && !sz.qr) continue;
		J d; d.kv("sec", "generated").kv("recipe", rc.first).kv("F", sz.F).kv("G", sz.G).kv("rep", rep);
		if (!case_begin(kcase++, d.str())) continue;
		Rng r = case_rng(kcase, 1); tl_rng = &r;
		unsigned long F = sz.F, G = sz.G; Fields f; bool direct = false; const std::string &R = rc.first;
		if (R == "BarnettSmartVTMF_dlog(random g)") { BarnettSmartVTMF_dlog v(F, G, false, true); direct = v.CheckGroup(); vtmf_fields(v, f); }
		else if (R == "BarnettSmartVTMF_dlog(canonical g)") { BarnettSmartVTMF_dlog v(F, G, true, true); direct = v.CheckGroup(); vtmf_fields(v, f); }
		else if (R == "BarnettSmartVTMF_dlog_GroupQR") { G = 160; BarnettSmartVTMF_dlog_GroupQR v(F, G); direct = v.CheckGroup(); vtmf_fields(v, f); }
		else if (R == "PedersenCommitmentScheme(n)") { PedersenCommitmentScheme s(3, F, G); direct = s.CheckGroup(); pcom_fields(s, f, ""); }
		else if (R == "PedersenCommitmentScheme(n,p,q,k,h)") { Fields crs; make_crs(crs, F, G); PedersenCommitmentScheme s(3, crs.at("p"), crs.at("q"), crs.at("k"), crs.at("h"), F, G); direct = s.CheckGroup(); pcom_fields(s, f, ""); }
		else if (R == "PedersenCommitmentScheme+SetupGenerators_publiccoin") { PedersenCommitmentScheme s(3, F, G); Z a; r.mpz_bits(a, 256); s.SetupGenerators_publiccoin(a); direct = s.CheckGroup(); pcom_fields(s, f, ""); }
		else if (R == "GrothSKC(n)") { GrothSKC s(3, L_E, F, G); direct = s.CheckGroup(); pcom_fields(*s.com, f, ""); }
		else if (R == "GrothSKC+SetupGenerators_publiccoin") { GrothSKC s(3, L_E, F, G); Z a; r.mpz_bits(a, 256); s.SetupGenerators_publiccoin(a); direct = s.CheckGroup(); pcom_fields(*s.com, f, ""); }
		else if (R == "PedersenTrapdoorCommitmentScheme()") { PedersenTrapdoorCommitmentScheme s(F, G); direct = s.CheckGroup(); f["p"] = Z(s.p); f["q"] = Z(s.q); f["k"] = Z(s.k); f["g"] = Z(s.g); f["h"] = Z(s.h); }
		else if (R == "PedersenTrapdoorCommitmentScheme(p,q,k,g)") { Fields crs; make_crs(crs, F, G); PedersenTrapdoorCommitmentScheme s(crs.at("p"), crs.at("q"), crs.at("k"), crs.at("g"), F, G); direct = s.CheckGroup(); f["p"] = Z(s.p); f["q"] = Z(s.q); f["k"] = Z(s.k); f["g"] = Z(s.g); f["h"] = Z(s.h); }
		else if (R == "GrothVSSHE(n,p,q,k,g,h)" || R == "GrothVSSHE+SetupGenerators_publiccoin") {
			Fields crs; make_crs(crs, F, G); GrothVSSHE s(3, crs.at("p"), crs.at("q"), crs.at("k"), crs.at("g"), crs.at("hkey"), L_E, F, G);
			if (R != "GrothVSSHE(n,p,q,k,g,h)") { Z a; r.mpz_bits(a, 256); s.SetupGenerators_publiccoin(a); }
			direct = s.CheckGroup(); f["p"] = Z(s.p); f["q"] = Z(s.q); f["g"] = Z(s.g); f["h"] = Z(s.h); pcom_fields(*s.com, f, "com."); }
		else if (R == "VRHE()") { HooghSchoenmakersSkoricVillegasVRHE v(F, G); direct = v.CheckGroup(); f["p"] = Z(v.p); f["q"] = Z(v.q); f["g"] = Z(v.g); f["h"] = Z(v.h); }
		else if (R == "NaorPinkasEOTP()") { NaorPinkasEOTP v(F, G); direct = v.CheckGroup(); f["p"] = Z(v.p); f["q"] = Z(v.q); f["g"] = Z(v.g); }
		else { Fields crs; make_crs(crs, F, G); for (auto &n : c.fields) f[n] = crs.at(basename_of(n)); direct = true; }
		tl_rng = nullptr;
		Eval e = evaluate(c, f, F, G);   // reference + export/re-import path
		count("generated_sets"); count("cov_generated/" + rc.first);
		J wit; wit.kv("recipe", rc.first).kv("class", c.name).kv("fieldsize", F).kv("subgroupsize", G).kv("reference", e.ref).kv("reference_reason", e.why).kv("direct_CheckGroup", direct).kv("reimported_CheckGroup", e.lib).raw("fields", fields_json(c, f));
		if (e.ref != 1) violation("C06/" + c.name + "/generated-set-not-well-formed", "a parameter set generated by the library fails the reference predicate: " + e.why, wit.str());
		if (!direct) violation("C06/" + c.name + "/generated-set-refused", "CheckGroup refused the set the object generated itself", wit.str());
		if (!e.lib) violation("C06/" + c.name + "/generated-set-refused-after-reimport", "CheckGroup refused a library-generated set after export and re-import", wit.str());
		case_end(d.str(), true, J().kv("recipe", rc.first).kv("fieldsize", F).kv("subgroupsize", G).kv("p_bits", (unsigned long)mpz_sizeinbase(f.at("p"), 2)).kv("q_bits", (unsigned long)mpz_sizeinbase(f.at("q"), 2)).kv("reference", e.ref).kv("direct", direct).kv("reimported", e.lib).str());
	}
}

// ---------------------------------------------------------------- D/E: element checks
static void judge_elems(const ElemCls &ec, const Fields &f, const std::vector<Z> &vals, const std::vector<int> &got, const std::string &section, long long &evals, std::set<std::string> &classes_seen) {
	for (size_t i = 0; i < vals.size(); i++) {
		bool ref = ref_member(vals[i], f.at("p"), f.at("q")); evals++;
		count(ref ? section + "_members" : section + "_nonmembers");
		if ((int)ref != got[i]) violation("C06/" + ec.name + "/CheckElement/" + (got[i] ? "accepts-nonmember" : "refuses-member"),
			got[i] ? "CheckElement accepted a value outside the order-q subgroup / outside 1..p-1" : "CheckElement refused a member of the order-q subgroup",
			J().kv("class", ec.name).kz("p", f.at("p")).kz("q", f.at("q")).kz("a", vals[i]).kv("reference", ref).kv("library", got[i]).str());
	}
	classes_seen.insert(ec.name);
}

struct Toy { unsigned long p, q; };
static std::vector<Toy> toy_schnorr() {   // all (p,q): p <= 2000 prime, q >= 3 prime, q | p-1, gcd((p-1)/q, q) = 1, (p-1)/q even
	std::vector<Toy> v; Z P, Q;
	for (unsigned long p = 7; p <= 2000; p += 2) { mpz_set_ui(P, p); if (!mpz_probab_prime_p(P, 30)) continue;
		for (unsigned long q = 3; q < p - 1; q += 2) { if ((p - 1) % q) continue; mpz_set_ui(Q, q); if (!mpz_probab_prime_p(Q, 30)) continue; if (((p - 1) / q) % q == 0) continue; v.push_back({p, q}); } }
	return v;
}
static std::vector<Toy> toy_qr() { std::vector<Toy> v; Z P, Q; for (unsigned long p = 7; p <= 2000; p += 8) { mpz_set_ui(P, p); mpz_set_ui(Q, (p - 1) / 2); if (mpz_probab_prime_p(P, 30) && mpz_probab_prime_p(Q, 30)) v.push_back({p, (p - 1) / 2}); } return v; }
static void toy_fields(Fields &f, const Toy &t, bool qr) {
	f["p"] = Z(t.p); f["q"] = Z(t.q); Z k((t.p - 1) / t.q); f["k"] = k;
	if (qr) { f["g"] = Z(4); f["h"] = Z(4); return; }
	Z cg; ref_canonical_g(cg, f.at("p"), f.at("q"), k); f["g"] = cg;
	Z h, x(2); for (;;) { mpz_powm(h, x, k, f.at("p")); mpz_add_ui(x, x, 1); if (ref_gen(h, f.at("p"), f.at("q")) && mpz_cmp(h, cg)) break; if (mpz_cmp_ui(x, t.p) > 0) { mpz_set(h, cg); break; } }
	f["h"] = h;
}

static void run_elements(long &kcase, const std::vector<Cls> &classes, const World &w) {
	std::vector<ElemCls> ecs = elem_classes();
	std::vector<Toy> ts = toy_schnorr(), tq = toy_qr();
	Rng sel = setup_rng(5);
	size_t nt = ctx.quick() ? 8 : 40, nq = ctx.quick() ? 6 : tq.size();
	std::vector<Toy> pick; pick.push_back(ts.front()); pick.push_back(ts.back());
	// always include the first two toy groups whose generator derivation rejects a candidate (0, 1, p-1):
	// the retry loop of the canonical check is then exercised for every seed
	{ size_t found = 0; for (auto &t : ts) { Z P(t.p), Q(t.q), K((t.p - 1) / t.q), cg; if (ref_canonical_g(cg, P, Q, K)) { pick.push_back(t); if (++found == 2) break; } } }
	while (pick.size() < nt) pick.push_back(ts[sel.below(ts.size())]);
	std::vector<Toy> pickq; pickq.push_back(tq.front()); pickq.push_back(tq.back());
	while (pickq.size() < nq) pickq.push_back(tq[sel.below(tq.size())]);
	// D: exhaustive on toy groups
	for (auto &ec : ecs) {
		const std::vector<Toy> &tt = ec.qr ? pickq : pick;
		for (auto &t : tt) {
			J d; d.kv("sec", "elem-toy").kv("class", ec.name).kv("p", t.p).kv("q", t.q);
			if (!case_begin(kcase++, d.str())) continue;
			Fields f; toy_fields(f, t, ec.qr);
			unsigned long F = mpz_sizeinbase(f.at("p"), 2), G = ec.qr ? (F > 1 ? F - 1 : 1) : mpz_sizeinbase(f.at("q"), 2);
			// the property's window is -2..p+2; the sweep also covers the two neighbouring periods (negative representatives r-p, r-2p and r+p),
			// where an element test that forgets the lower or upper range condition answers by the residue class
			std::vector<Z> vals; for (long a = -2 * (long)t.p - 2; a <= 2 * (long)t.p + 2; a++) { Z z; mpz_set_si(z, a); vals.push_back(z); }
			std::vector<int> got; long long evals = 0; std::set<std::string> seen;
			ec.run(f, F, G, vals, got);
			judge_elems(ec, f, vals, got, "toy", evals, seen);
			long long members = 0; for (int g : got) members += g;
			count("toy_groups_checked"); count("cov_elem_toy/" + ec.name);
			if (members != (long long)t.q) count("toy_member_count_unexpected");   // informational: reference itself says q members
			case_end(d.str(), true, J().kv("class", ec.name).kv("p", t.p).kv("q", t.q).kv("values", (long long)vals.size()).kv("accepted", members).str(), evals, 1);
		}
	}
	// toy CheckGroup through the import path, incl. canonical derivation with rejected candidates
	for (auto &c : classes) {
		if (c.kind == K_GVSSHE || c.kind == K_PCOM || c.kind == K_PTRAP) continue;
		const std::vector<Toy> &tt = c.kind == K_QR ? pickq : pick;
		J d; d.kv("sec", "toy-group").kv("class", c.name);
		if (!case_begin(kcase++, d.str())) continue;
		long long n = 0;
		for (auto &t : tt) {
			Fields tf; toy_fields(tf, t, c.kind == K_QR); Fields f;
			for (auto &fn : c.fields) f[fn] = tf.at(basename_of(fn));
			unsigned long F = mpz_sizeinbase(tf.at("p"), 2), G = c.kind == K_QR ? F - 1 : mpz_sizeinbase(tf.at("q"), 2);
			if (c.canonical && c.kind != K_QR) { Z cg; unsigned rej = ref_canonical_g(cg, tf.at("p"), tf.at("q"), tf.at("k")); if (rej) count("canonical_derivation_with_rejected_candidates"); }
			Eval e = evaluate(c, f, F, G); judge(c, "set", "toy-group", e, f, F, G, "toygroup"); n++;
			// a non-derived generator on the same toy group
			if (c.kind != K_QR) { Fields f2 = f; for (auto &fn : c.fields) if (basename_of(fn) == "g") { Z g2; mpz_mul(g2, tf.at("g"), tf.at("g")); mpz_mod(g2, g2, tf.at("p")); f2[fn] = g2; break; }
				Eval e2 = evaluate(c, f2, F, G); judge(c, "g", "toy-group:g^2", e2, f2, F, G, "toygroup"); n++; }
		}
		case_end(d.str(), n > 0, J().kv("class", c.name).kv("toy_sets", n).str(), n, n);
	}
	// E: sampled on the full-size CRS of the world (and the QR base)
	size_t ns = ctx.quick() ? 24 : 200;
	for (auto &ec : ecs) {
		if (ec.qr && !w.base.count("VTMF_dlog_GroupQR")) continue;
		J d; d.kv("sec", "elem-sampled").kv("class", ec.name);
		if (!case_begin(kcase++, d.str())) continue;
		Fields f; unsigned long F = w.F, G = w.G;
		if (ec.qr) { f = w.base.at("VTMF_dlog_GroupQR"); f["h"] = f.at("g"); F = mpz_sizeinbase(f.at("p"), 2); G = 160; } else f = w.crs;
		mpz_srcptr p = f.at("p"), q = f.at("q"), g = f.at("g"); Z k; mpz_sub_ui(k, p, 1); mpz_divexact(k, k, q);
		Rng r = case_rng(kcase, 2);
		std::vector<Z> vals; Z z;
		auto add = [&](const Z &x) { vals.push_back(x); };
		mpz_set_ui(z, 0); add(z); mpz_set_ui(z, 1); add(z); mpz_set_si(z, -1); add(z); mpz_set_si(z, -2); add(z);
		mpz_sub_ui(z, p, 1); add(z); mpz_set(z, p); add(z); mpz_add_ui(z, p, 1); add(z); mpz_add_ui(z, p, 2); add(z);
		add(Z(g)); mpz_neg(z, g); add(z); mpz_add(z, g, p); add(z); mpz_sub(z, p, g); add(z); mpz_set(z, q); add(z); mpz_mul(z, g, g); mpz_mod(z, z, p); add(z);
		mpz_mul(z, p, p); mpz_add(z, z, g); add(z);
		for (size_t i = 0; i < ns; i++) {
			Z e, m; r.mpz_below(e, q); mpz_powm(m, g, e, p); add(m);                       // member
			Z x; r.mpz_below(x, p); add(x);                                                 // random residue (non-member w.h.p. unless k small)
			Z o; mpz_powm(o, x, q, p); add(o);                                              // order divides k
			Z mo; mpz_mul(mo, m, o); mpz_mod(mo, mo, p); add(mo);                           // member times order-k element
			Z mp; mpz_add(mp, m, p); add(mp);                                               // member residue, out of range
			Z nm; mpz_sub(nm, m, p); add(nm);                                               // member residue, negative
		}
		std::vector<int> got; long long evals = 0; std::set<std::string> seen;
		ec.run(f, F, G, vals, got);
		judge_elems(ec, f, vals, got, "sampled", evals, seen);
		count("cov_elem_sampled/" + ec.name);
		case_end(d.str(), true, J().kv("class", ec.name).kv("p_bits", (unsigned long)mpz_sizeinbase(p, 2)).kv("values", (long long)vals.size()).str(), evals, 1);
	}
	// recorded, not judged: PedersenCommitmentScheme::TestMembership (range-only test)
	{ J d; d.kv("sec", "TestMembership-recorded");
	  if (case_begin(kcase++, d.str())) {
		const Fields &b = w.base.at("PedersenCommitmentScheme"); std::istringstream in(lines_of(b, {"p", "q", "k", "h", "g1", "g2", "g3"}));
		PedersenCommitmentScheme s(3, in, w.F, w.G); Rng r = case_rng(kcase, 4);
		for (int i = 0; i < 64; i++) { Z x; r.mpz_below(x, b.at("p")); bool tm = s.TestMembership(x), ref = ref_member(x, b.at("p"), b.at("q"));
			count(std::string("TestMembership_not_judged/") + (tm ? "true" : "false") + (ref ? "_member" : "_nonmember")); }
		case_end(d.str(), false, ""); } }
}

int main(int argc, char **argv) {
	init(argc, argv);
	null_cerr();
	if (!init_libTMCG()) { fprintf(stderr, "init_libTMCG failed\n"); return 2; }
	ctx.max_samples = 2;
	std::vector<Cls> classes;
	add_stream_classes(classes);
	std::unique_ptr<World> w0(make_world(512, 160, 0, true, 512));
	add_crs_classes(classes, w0->crs);
	long k = 0;
	run_generated(k, classes);
	run_corruptions(k, classes, *w0, "S0");
	run_variants(k, classes, *w0);
	run_elements(k, classes, *w0);
	if (ctx.thorough()) {
		std::unique_ptr<World> w1(make_world(512, 160, 1, true, 512));
		run_corruptions(k, classes, *w1, "S1");
		std::unique_ptr<World> w2(make_world(1024, 160, 2, false, 0));
		run_corruptions(k, classes, *w2, "M");
		run_variants(k, classes, *w2);
		std::unique_ptr<World> w3(make_world(2048, 256, 3, false, 0));
		run_corruptions(k, classes, *w3, "D");
	}
	finish();
	return 0;
}
