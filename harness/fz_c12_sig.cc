// libFuzzer target: SignatureParse (binary and armored) + validity check + verification of the local data
#include "c12_fz.hh"
using namespace c12;
extern "C" int LLVMFuzzerTestOneInput(const uint8_t *data, size_t size) {
	fz_init(true); fz_reseed(data, size); std::string s((const char *)data, size);
	if (size && (data[0] & 0x80)) { pgp_signature(s); TMCG_OpenPGP_Signatures sigs; if (PGP::SignaturesParse(str2oct(s), 0, sigs)) for (auto x : sigs) delete x; }
	else pgp_signature_armored(s);
	return 0;
}
