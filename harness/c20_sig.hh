// c20_sig.hh — signature artefacts of the C20 workload: document signatures (binary/text,
// v4/v5), standalone/timestamp, certifications, bindings, revocations, key blocks
#pragma once
#include "c20_core.hh"

namespace c20 {

// ------------------------------------------------------------------ documents
static const size_t DOCLENS[] = {0, 1, 2, 55, 56, 63, 64, 65, 119, 127, 128, 1000, 4095, 4096, 65535, 65536, 100000};
static const int NDOCLENS = sizeof(DOCLENS) / sizeof(DOCLENS[0]);
inline Oct gen_bin(size_t len, Rng &r) { Oct o(len); for (auto &c : o) c = r.next() >> 56; return o; }

// text forms: 0 LF, 1 CRLF, 2 mixed, 3 trailing blanks, 4 no final newline, 5 empty, 6 newlines only,
//             7 lone CR endings, 8 CR CR LF, 9 CR at end of file   (7..9: canonical form not fixed by RFC 4880)
static const int NTEXTFORMS = 10;
inline bool text_form_unambiguous(int f) { return f <= 6; }
inline const char *text_form_name(int f) { static const char *n[] = {"LF", "CRLF", "mixed", "trailing-blanks", "no-final-newline", "empty", "newlines-only", "lone-CR", "CRCRLF", "CR-at-EOF"}; return n[f]; }
inline Oct gen_text(int form, size_t approx, Rng &r) {
	Oct o; if (form == 5) return o;
	if (form == 6) { size_t n = 1 + r.below(5); for (size_t i = 0; i < n; i++) { if (r.coin()) o.push_back('\r'); o.push_back('\n'); } return o; }
	size_t lines = 1 + approx / 40; if (lines > 3000) lines = 3000;
	for (size_t l = 0; l < lines; l++) {
		size_t w = r.below(60);
		for (size_t i = 0; i < w; i++) { unsigned c = 0x20 + r.below(0x5f); o.push_back(c); }
		if (form == 3) { size_t b = r.below(4); for (size_t i = 0; i < b; i++) o.push_back(r.coin() ? ' ' : '\t'); }
		bool last = l + 1 == lines;
		switch (form) {
		case 0: case 3: o.push_back('\n'); break;
		case 1: o.push_back('\r'); o.push_back('\n'); break;
		case 2: if (r.coin()) o.push_back('\r'); o.push_back('\n'); break;
		case 4: if (!last) { if (r.coin()) o.push_back('\r'); o.push_back('\n'); } else if (o.empty() || o.back() == '\n' || o.back() == '\r') o.push_back('x'); break;
		case 7: o.push_back('\r'); if (last) { o.push_back('z'); o.push_back('\n'); } break;
		case 8: o.push_back('\r'); o.push_back('\r'); o.push_back('\n'); break;
		case 9: if (!last) o.push_back('\n'); else { o.push_back('q'); o.push_back('\r'); } break;
		}
	}
	return o;
}
// the same text with the other line-ending convention (LF <-> CRLF)
inline Oct other_line_endings(const Oct &t) {
	Oct o; bool crlf = false;
	for (size_t i = 0; i + 1 < t.size(); i++) if (t[i] == '\r' && t[i + 1] == '\n') crlf = true;
	for (size_t i = 0; i < t.size(); i++) {
		if (crlf) { if (t[i] == '\r' && i + 1 < t.size() && t[i + 1] == '\n') continue; o.push_back(t[i]); }
		else { if (t[i] == '\n' && (i == 0 || t[i - 1] != '\r')) o.push_back('\r'); o.push_back(t[i]); }
	}
	return o;
}

// ------------------------------------------------------------------ making signatures with the library
struct SigArt { Oct pkt, trailer, hash, left; int type = 0, version = 4, hashalgo = 8; time_t sigtime = 0, sigexp = 0; std::string err; };

inline bool make_docsig(const KeyMat &k, int type, int version, int hashalgo, const Oct &data, time_t sigtime, time_t sigexp, SigArt &a) {
	a.type = type; a.version = version; a.hashalgo = hashalgo; a.sigtime = sigtime; a.sigexp = sigexp;
	tmcg_openpgp_signature_t ty = (tmcg_openpgp_signature_t)type; tmcg_openpgp_pkalgo_t pa = (tmcg_openpgp_pkalgo_t)k.algo; tmcg_openpgp_hashalgo_t ha = (tmcg_openpgp_hashalgo_t)hashalgo;
	bool ok = true;
	if (version == 4) {
		PGP::PacketSigPrepareDetachedSignature(ty, pa, ha, sigtime, sigexp, "", k.fpr, a.trailer);
		if (type == 0) ok = PGP::BinaryDocumentHash(data, a.trailer, ha, a.hash, a.left);
		else if (type == 1) ok = PGP::TextDocumentHash(data, a.trailer, ha, a.hash, a.left);
		else ok = PGP::StandaloneHash(a.trailer, ha, a.hash, a.left);
	} else {
		PGP::PacketSigPrepareDetachedSignatureV5(ty, pa, ha, sigtime, sigexp, "", k.fpr, a.trailer);
		Oct t6(a.trailer); for (int i = 0; i < 6; i++) t6.push_back(0);    // detached: six zero octets instead of the literal metadata
		if (type == 0) ok = PGP::BinaryDocumentHashV5(data, t6, ha, a.hash, a.left);
		else if (type == 1) ok = PGP::TextDocumentHashV5(data, t6, ha, a.hash, a.left);
		else ok = PGP::StandaloneHashV5(a.trailer, ha, a.hash, a.left);
	}
	if (!ok || a.hash.empty()) { a.err = "hash function refused"; return false; }
	return sign_hash(k, hashalgo, a.hash, a.trailer, a.left, a.pkt, &a.err);
}

struct DocCase { std::string key; int hash, type, version; };
inline unsigned spec_qbits(const std::string &k) { return k == "dsa1024" ? 160 : k == "dsa2048" ? 256 : k == "dsa2048q224" ? 224 : 0; }
inline bool spec_hash_fits(const std::string &k, int h) { unsigned q = spec_qbits(k); return !q || PGP::AlgorithmHashLength((tmcg_openpgp_hashalgo_t)h) * 8 >= q; }
static const int HASHES[] = {1, 2, 3, 8, 9, 10, 11, 12, 14};
inline std::vector<std::string> sigkeys() {
	std::vector<std::string> v = {"rsa1024", "rsa2048", "dsa1024", "dsa2048", "p256", "p384", "p521", "bp256", "ed25519"};
	if (g_thorough) { v.push_back("dsa2048q224"); v.push_back("bp512"); }
	return v;
}

inline std::string keyctx(const KeyMat &k) { return J().kv("key", k.name).kv("pkalgo", pkname(k.algo)).kv("key_packet_hex", hexs(k.pub, 4096)).str(); }

inline void run_docsig(long &kc) {
	std::vector<DocCase> cases; int idx = 0;
	for (auto &kn : sigkeys()) for (int h : HASHES) {
		if (!spec_hash_fits(kn, h)) continue;
		if (g_thorough) { for (int ty = 0; ty < 2; ty++) for (int v = 4; v <= 5; v++) cases.push_back({kn, h, ty, v}); }
		else { bool e = (idx % 2) == 0; cases.push_back({kn, h, e ? 0 : 1, 4}); cases.push_back({kn, h, e ? 1 : 0, 5}); }
		idx++;
	}
	int ci = 0;
	for (auto &c : cases) {
		long me = kc++; int myci = ci++;
		size_t len = DOCLENS[(myci * 7 + 3) % NDOCLENS]; int form = myci % NTEXTFORMS;
		if (!g_thorough && len > 65536 && (myci % 3)) len = 1000;
		J d; d.kv("kind", "docsig").kv("key", c.key).kv("hash", hashname(c.hash)).kv("type", c.type ? "text" : "binary").kv("version", c.version);
		if (c.type == 0) d.kv("len", (long long)len); else d.kv("form", text_form_name(form)).kv("approx_len", (long long)(len > 20000 ? 20000 : len));
		if (!case_begin(me, d.str())) continue;
		Stats st; Rng r = case_rng(me, 20); tl_rng = &r; g_vtime = NOW0;
		auto K = KR.get(c.key);
		if (!K->ok) { count("skipped/key-unavailable/" + c.key); tl_rng = nullptr; case_end(d.str(), false, J().kv("skipped", K->err).str()); continue; }
		Oct data = c.type == 0 ? gen_bin(len, r) : gen_text(form, len > 20000 ? 20000 : len, r);
		time_t sigtime = NOW0 - 1000, sigexp = (myci % 2) ? 5000 : 0;
		SigArt a;
		if (!make_docsig(*K, c.type, c.version, c.hash, data, sigtime, sigexp, a)) {
			count(std::string("sign_refused/") + pkname(K->algo) + "/" + hashname(c.hash));
			tl_rng = nullptr; case_end(d.str(), false, J().kv("sign_refused", a.err).str()); continue;
		}
		std::string kind = "docsig";
		std::string cj = J().raw("case", d.str()).kv("sig_hex", hexs(a.pkt, 4096)).kv("data_hex", hexs(data, 2048)).kv("data_len", (long long)data.size()).raw("key", keyctx(*K)).str();
		SigTarget T; T.k = S_DOC; T.data = data;
		// ---- positive: the library verifies what it produced (parse -> VerifyData)
		SigRes p = lib_check(a.pkt, K->key, T, K->ctime); st.evals++;
		count(std::string("art/docsig/") + pkname(K->algo)); count(std::string("art_hash/docsig/") + hashname(c.hash)); count("art_ver/docsig/v" + std::to_string(c.version)); count(c.type ? "art_type/docsig/text" : "art_type/docsig/binary");
		if (!(p.parsed && p.crypto)) viol("C20/positive/docsig-rejected", "the library does not verify the document signature it produced", cj);
		else { st.reached = true; count("positive/docsig"); }
		// through a freshly parsed public key packet too
		{ TMCG_OpenPGP_Pubkey *pub = parse_pub(K->pub); st.evals++;
		  if (!pub) viol("C20/positive/key-packet-refused", "the public key packet made with the library's encoder is refused by its parser", cj);
		  else { SigRes q = lib_check(a.pkt, pub->key, T, pub->creationtime); if (!(q.parsed && q.crypto)) viol("C20/positive/docsig-rejected-with-parsed-key", "verification with the re-parsed key packet fails", cj); else count("positive/docsig-parsed-key"); delete pub; } }
		// file based entry point
		{ std::string fn = "c20doc-" + std::to_string((long)getpid()) + ".tmp"; write_file(fn, data);
		  TMCG_OpenPGP_Signature *sig = parse_sig(a.pkt);
		  if (sig) { bool fok = accepted([&] { return sig->Verify(K->key, fn, 0); }); st.evals++;
		    bool amb = c.type == 1 && !text_form_unambiguous(form);
		    if (fok) count(amb ? "file_api/ambiguous-text-agrees" : "positive/docsig-file-api");
		    else if (amb) count("file_api/ambiguous-text-disagrees");
		    else viol("C20/positive/docsig-file-api-rejected", "Verify(key, filename) rejects a signature made over the same octets with the in-memory hash function", cj);
		    delete sig; }
		  unlink(fn.c_str()); }
		// text: the same document with the other line-ending convention is the same signed text
		if (c.type == 1 && form <= 4 && !data.empty()) {
			SigTarget T2 = T; T2.data = other_line_endings(data); SigRes q = lib_check(a.pkt, K->key, T2, K->ctime); st.evals++;
			if (!(q.parsed && q.crypto)) viol("C20/positive/text-line-ending-equivalence", "LF and CRLF forms of one text do not verify under the same text signature", cj); else count("positive/text-other-line-endings");
		}
		if (st.reached) {
			// ---- tamper: signed data
			{ TMCG_OpenPGP_Signature *sig = parse_sig(a.pkt);
			  if (sig) {
				Layout LD; LD.total = data.size(); LD.add(0, data.size(), "data.octets");
				sweep(kind, "data", data, LD, [](const std::string &) { return true; }, "", [&](const Oct &t) { Acc A; A.accepted = accepted([&] { return sig->VerifyData(K->key, t, 0); }); return A; }, r, cj, st);
				// length changes: one octet appended / removed
				if (true) { Oct t(data); t.push_back(0); st.evals++; count("flip/docsig/data.append"); if (accepted([&] { return sig->VerifyData(K->key, t, 0); })) viol("C20/tamper-accepted/docsig/data.append", "document with an appended zero octet accepted", cj); }
				if (!data.empty()) { Oct t(data.begin(), data.end() - 1); st.evals++; count("flip/docsig/data.truncate"); if (accepted([&] { return sig->VerifyData(K->key, t, 0); })) viol("C20/tamper-accepted/docsig/data.truncate", "document without its last octet accepted", cj); }
				// text signatures: insertion / deletion of CR and LF octets.  Two reference canonicalisations written from RFC 4880 5.2.1
				// (A: line ending = LF or CR LF, a lone CR is content; B: every CR, LF and CR LF is a line ending); an edit that changes the
				// text under BOTH readings is certainly an alteration of the signed data and must be rejected; edits that keep the text
				// under either reading (LF <-> CR LF) are counted, not judged here (seeded change c20_texthash_lone_cr_dropped)
				if (c.type == 1) {
					auto canon = [](const Oct &t, bool lone_cr_is_eol) { Oct o; for (size_t i = 0; i < t.size(); i++) {
						if (t[i] == '\r') { if (i + 1 < t.size() && t[i + 1] == '\n') { o.push_back('\r'); o.push_back('\n'); i++; } else if (lone_cr_is_eol) { o.push_back('\r'); o.push_back('\n'); } else o.push_back('\r'); }
						else if (t[i] == '\n') { o.push_back('\r'); o.push_back('\n'); } else o.push_back(t[i]); } return o; };
					Oct cA = canon(data, false), cB = canon(data, true);
					std::vector<std::pair<std::string, Oct>> edits;
					std::vector<size_t> eolpos; for (size_t i = 0; i < data.size(); i++) if (data[i] == '\r' || data[i] == '\n') eolpos.push_back(i);
					for (size_t q = 0; q < eolpos.size() && q < 24; q++) { size_t i = eolpos[eolpos.size() <= 24 ? q : r.below(eolpos.size())];
						{ Oct t(data); t.erase(t.begin() + (long)i); edits.push_back({data[i] == '\r' ? "text.cr-delete" : "text.lf-delete", t}); }
						{ Oct t(data); t.insert(t.begin() + (long)i, (tmcg_openpgp_byte_t)'\r'); edits.push_back({"text.cr-insert-at-eol", t}); } }
					for (int q = 0; q < 8; q++) { size_t i = data.empty() ? 0 : r.below(data.size() + 1);
						{ Oct t(data); t.insert(t.begin() + (long)i, (tmcg_openpgp_byte_t)'\r'); edits.push_back({"text.cr-insert", t}); }
						{ Oct t(data); t.insert(t.begin() + (long)i, (tmcg_openpgp_byte_t)'\n'); edits.push_back({"text.lf-insert", t}); } }
					{ Oct t(data); t.push_back('\r'); edits.push_back({"text.cr-append", t}); }
					{ Oct t(data); t.insert(t.begin(), (tmcg_openpgp_byte_t)'\r'); edits.push_back({"text.cr-prepend", t}); }
					for (auto &e : edits) {
						bool altered = canon(e.second, false) != cA && canon(e.second, true) != cB; st.evals++;
						bool acc = accepted([&] { return sig->VerifyData(K->key, e.second, 0); });
						count(std::string("flip/docsig/") + e.first); count(altered ? "text_edits_judged_altered" : "text_edits_equivalent_under_a_reading");
						if (altered && acc) viol("C20/tamper-accepted/docsig/" + e.first, "text document with an inserted/deleted line-ending octet (different text under both readings of the canonicalisation rule) still verifies", cj);
						if (!altered && !acc) count("text_edits_equivalent_rejected");
					}
				}
				delete sig; } }
			// ---- tamper: signature packet
			{ Layout LS = walk(a.pkt);
			  sweep(kind, "sig", a.pkt, LS, sig_judged, p.sem, [&](const Oct &t) { Acc A; SigRes q = lib_check(t, K->key, T, K->ctime); A.accepted = q.parsed && q.crypto; A.sem = q.sem; return A; }, r, cj, st); }
			unhashed_injection(kind, a.pkt, K->key, T, K->ctime, sigtime, p.sem, cj, st);
			// ---- tamper: key packet (document signatures do not sign the key packet: only key material is judged)
			{ Layout LK = walk(K->pub); std::string ksem;
			  { TMCG_OpenPGP_Pubkey *pub = parse_pub(K->pub); if (pub) { ksem = sexp2str(pub->key); delete pub; } }
			  sweep(kind, "key", K->pub, LK, [](const std::string &reg) { std::string s = rsuffix(reg); return s == "mpi_val" || s == "oid"; }, ksem,
				[&](const Oct &t) { Acc A; TMCG_OpenPGP_Pubkey *pub = parse_pub(t); if (!pub) return A; A.sem = sexp2str(pub->key); SigRes q = lib_check(a.pkt, pub->key, T, pub->creationtime); A.accepted = q.parsed && q.crypto; delete pub; return A; }, r, cj, st); }
			// ---- validity catalogue
			validity_checks(kind, a.pkt, K->key, T, sigtime, sigexp, c.hash, cj, st);
			// ---- second judge: gpg (v4, RFC 4880 subset); files for the offline checker
			if (c.version == 4 && c.hash != 1 && c.hash != 12 && c.hash != 14) {
				std::string kf = gpg_keyfile(*K);
				if (!kf.empty()) {
					std::string base = "c20gpg/c" + std::to_string(me);
					if (write_file(base + ".sig", a.pkt) && write_file(base + ".dat", data))
						record(J().kv("k", "gpgverify").kv("dir", g_cwd).kv("sig", base + ".sig").kv("data", base + ".dat").kv("keyfile", kf).kv("key", c.key).kv("pkalgo", pkname(K->algo))
							.kv("hash", hashname(c.hash)).kv("type", c.type ? "text" : "binary").kv("form", c.type ? text_form_name(form) : "").kv("judge", c.type == 0 || text_form_unambiguous(form))
							.kv("time", (long long)(sigtime + 100)).kv("min_hash_bits", (long long)gpg_min_hash_bits(*K)).kv("hash_bits", (long long)(8 * PGP::AlgorithmHashLength((tmcg_openpgp_hashalgo_t)c.hash))).str());
				}
			}
		}
		if (st.sample.empty()) st.sample = J().raw("case", d.str()).kv("sig_octets", (long long)a.pkt.size()).kv("data_octets", (long long)data.size()).kv("oracle_evaluations", st.evals).str();
		tl_rng = nullptr; g_vtime = NOW0;
		case_end(d.str(), st.reached, st.sample, st.evals, (long long)st.distinct.size());
	}
}

} // namespace c20
