// c12_fz.hh — common part of the libFuzzer targets of C12 (fz_c12_*.cc, "fuzz" flavour):
// deterministic libgcrypt randomness (re-seeded per input so that a crash replays from the
// artifact alone), one-time library initialisation, local OpenPGP context (own private keys,
// ring of known public keys, known session key) loaded from $C12_CTX_DIR (seed dump of w_c12).
#pragma once
#include "c12_entries.hh"
#include <gcrypt.h>
#include <dirent.h>
#include <fstream>
#include <unistd.h>
#include <algorithm>
#include <iostream>

namespace c12 {
static vf::Rng g_fz_rng;
struct NullBuf2 : public std::streambuf { int overflow(int c) override { return c; } std::streamsize xsputn(const char *, std::streamsize n) override { return n; } };
inline std::string slurp(const std::string &p) { std::ifstream f(p, std::ios::binary); std::stringstream ss; ss << f.rdbuf(); return ss.str(); }
inline void fz_init(bool need_pgp_ctx) {
	static bool done = false; if (done) return; done = true;
	static NullBuf2 nb; std::cerr.rdbuf(&nb); std::clog.rdbuf(&nb);
	if (!init_libTMCG()) { fprintf(stderr, "init_libTMCG failed\n"); _exit(2); }
	g_par.fs = 512; g_par.gs = 256; g_par.le = 80; g_par.n = 4; g_pkt_loop_max = 48;
	tmcg_openpgp_secure_octets_t sk; unsigned chk = 0; sk.push_back(9); for (int i = 0; i < 32; i++) { sk.push_back((unsigned char)(0x40 + i)); chk += 0x40 + i; } sk.push_back(chk >> 8); sk.push_back(chk & 0xff);
	std::vector<std::pair<std::string, std::string>> prvs; std::vector<std::string> pubs; std::string data = "C12 test data: the quick brown fox jumps over the lazy dog.\n";
	const char *dir = getenv("C12_CTX_DIR");
	if (need_pgp_ctx && dir) {
		std::string d = std::string(dir) + "/pgp"; DIR *dd = opendir(d.c_str()); std::vector<std::string> names;
		if (dd) { while (dirent *e = readdir(dd)) names.push_back(e->d_name); closedir(dd); }
		std::sort(names.begin(), names.end());
		for (auto &n : names) {
			if (n.find("PrivateKeyBlockParse__") == 0 || n.find("pgp_PrivateKeyBlockParse__") == 0) prvs.push_back({slurp(d + "/" + n), (n.find("pw") != n.npos || n.find("dsa-elg") != n.npos) ? "c12pass" : ""});
			if (n.find("pgp_PublicKeyBlockParse__") == 0) pubs.push_back(slurp(d + "/" + n));
		}
	}
	pgp_ctx_setup(prvs, pubs, sk, data);
}
inline void fz_reseed(const uint8_t *d, size_t n) { uint64_t h = 1469598103934665603ULL; for (size_t i = 0; i < n; i++) { h ^= d[i]; h *= 1099511628211ULL; } g_fz_rng.seed(h, n); }
} // namespace c12

extern "C" {
void gcry_randomize(void *buf, size_t n, enum gcry_random_level) { c12::g_fz_rng.fill(buf, n); }
void gcry_create_nonce(void *buf, size_t n) { c12::g_fz_rng.fill(buf, n); }
void *gcry_random_bytes(size_t n, enum gcry_random_level l) { void *p = gcry_xmalloc(n ? n : 1); gcry_randomize(p, n, l); return p; }
void *gcry_random_bytes_secure(size_t n, enum gcry_random_level l) { void *p = gcry_xmalloc_secure(n ? n : 1); gcry_randomize(p, n, l); return p; }
}
