// c09_big.hh — prime generators and the TMCG_Bigint wrapper (plain vs. secure back end vs. model)
#pragma once
#include "c09_common.hh"

namespace c09 {

// ------------------------------------------------------------------ prime generators
enum PrFn { G_SPRIME = 0, G_SMPRIME, G_SPRIME_NAIVE, G_SMPRIME_NAIVE, G_SPRIME_NONINC, G_SPRIME2G, G_SPRIME3MOD4, G_LPRIME, G_LPRIME_PREFIX, G_OPRIME, G_OPRIME_NONINC, NPRFN };
static const char *pr_name[NPRFN] = {"tmcg_mpz_sprime", "tmcg_mpz_smprime", "tmcg_mpz_sprime_naive", "tmcg_mpz_smprime_naive", "tmcg_mpz_sprime_noninc", "tmcg_mpz_sprime2g", "tmcg_mpz_sprime3mod4", "tmcg_mpz_lprime", "tmcg_mpz_lprime_prefix", "tmcg_mpz_oprime", "tmcg_mpz_oprime_noninc"};
struct PrStats { long long draws[NPRFN] = {0}, exact_size[NPRFN] = {0}, larger[NPRFN] = {0}, refusal = 0, maxbits = 0;
	void flush() { for (int f = 0; f < NPRFN; f++) { std::string n = std::string("pr.") + pr_name[f]; count(n + ".draws_judged", draws[f]); count(n + ".size_exactly_requested", exact_size[f]); count(n + ".size_larger_than_requested", larger[f]); } count("pr.lprime_qsize>=psize_refused", refusal); } };
extern PrStats GS;

static void prime_draw(int fn, size_t psize, size_t qsize, unsigned long mr, CaseStat &cs, Rng &r) {
	Z p, q, kk, kin; bool hasq = fn <= G_SPRIME2G || fn == G_LPRIME || fn == G_LPRIME_PREFIX, hask = fn == G_LPRIME || fn == G_LPRIME_PREFIX;
	if (fn == G_LPRIME_PREFIX) { r.mpz_bits(kin, 8 + r.below(56)); mpz_add_ui(kin, kin, 1); mpz_set(kk, kin); }
	std::string what;
	Exc x = guard([&] {
		switch (fn) {
		case G_SPRIME: tmcg_mpz_sprime(p, q, qsize, mr); break; case G_SMPRIME: tmcg_mpz_smprime(p, q, qsize, mr); break;
		case G_SPRIME_NAIVE: tmcg_mpz_sprime_naive(p, q, qsize, mr); break; case G_SMPRIME_NAIVE: tmcg_mpz_smprime_naive(p, q, qsize, mr); break;
		case G_SPRIME_NONINC: tmcg_mpz_sprime_noninc(p, q, qsize, mr); break; case G_SPRIME2G: tmcg_mpz_sprime2g(p, q, qsize, mr); break;
		case G_SPRIME3MOD4: tmcg_mpz_sprime3mod4(p, psize, mr); break;
		case G_LPRIME: tmcg_mpz_lprime(p, q, kk, psize, qsize, mr); break; case G_LPRIME_PREFIX: tmcg_mpz_lprime_prefix(p, q, kk, psize, qsize, mr); break;
		case G_OPRIME: tmcg_mpz_oprime(p, psize, mr); break; case G_OPRIME_NONINC: tmcg_mpz_oprime_noninc(p, psize, mr); break;
		}
	}, &what);
	J w; w.kv("fn", pr_name[fn]).kv("psize", (long long)psize).kv("qsize", (long long)qsize).kv("mr_iterations", (long long)mr).kz("p", p); if (hasq) w.kz("q", q); if (hask) w.kz("k", kk); if (fn == G_LPRIME_PREFIX) w.kz("k_in", kin);
	std::string kb = std::string("C09/prime/") + pr_name[fn] + "/";
	cs.evals++; GS.draws[fn]++; cs.distinct++;
	if (x != X_NONE) { viol(kb + "exception", "generator threw: " + what, w); return; }
	Rng tr(ctx.seed, 0x7e57, (uint64_t)fn);
	// primality by testers the generators do not use (own Miller-Rabin here, Python's in post()) and by GMP
	if (!mr_prime(p, 40, tr) || !mpz_probab_prime_p(p, 40)) viol(kb + "p-not-prime", "p fails Miller-Rabin", w);
	if (hasq && (!mr_prime(q, 40, tr) || !mpz_probab_prime_p(q, 40))) viol(kb + "q-not-prime", "q fails Miller-Rabin", w);
	Z t;
	if (fn <= G_SPRIME2G) {
		mpz_mul_2exp(t, q, 1); mpz_add_ui(t, t, 1); if (mpz_cmp(t, p)) viol(kb + "p-not-2q+1", "defining relation p = 2q+1", w);
		if (mpz_sizeinbase(q, 2) < qsize) viol(kb + "q-too-small", "q has fewer bits than requested", w);
		if (fn == G_SPRIME2G && mpz_fdiv_ui(p, 8) != 7) viol(kb + "p-not-7-mod-8", "sprime2g promises p = 7 (mod 8)", w);
		if (mpz_sizeinbase(q, 2) == qsize) GS.exact_size[fn]++; else GS.larger[fn]++;
	} else if (fn == G_SPRIME3MOD4) {
		if (mpz_fdiv_ui(p, 4) != 3) viol(kb + "p-not-3-mod-4", "Blum prime must be 3 (mod 4)", w);
		if (mpz_sizeinbase(p, 2) < psize) viol(kb + "p-too-small", "p has fewer bits than requested", w);
		if (mpz_sizeinbase(p, 2) == psize) GS.exact_size[fn]++; else GS.larger[fn]++;
	} else if (hask) {
		mpz_mul(t, q, kk); mpz_add_ui(t, t, 1); if (mpz_cmp(t, p)) viol(kb + "p-not-kq+1", "defining relation p = kq+1", w);
		mpz_gcd(t, kk, q); if (mpz_cmp_ui(t, 1)) viol(kb + "gcd(k,q)-not-1", "k and q must be coprime", w);
		if (mpz_sizeinbase(p, 2) < psize) viol(kb + "p-too-small", "p has fewer bits than requested", w);
		if (mpz_sizeinbase(q, 2) < qsize) viol(kb + "q-too-small", "q has fewer bits than requested", w);
		if (mpz_sizeinbase(p, 2) == psize) GS.exact_size[fn]++; else GS.larger[fn]++;
		if (fn == G_LPRIME_PREFIX) {   // k = k_in * 62^j (j minimal for the size), made even
			Z e; mpz_set(e, kin); while (mpz_sizeinbase(e, 2) < psize - qsize) mpz_mul_ui(e, e, TMCG_MPZ_IO_BASE); if (mpz_odd_p(e)) mpz_add_ui(e, e, 1);
			if (mpz_cmp(e, kk)) viol(kb + "k-not-extension-of-prefix", "k is not the given prefix extended by multiples of the I/O base", w);
		}
	} else {
		if (mpz_sizeinbase(p, 2) < psize) viol(kb + "p-too-small", "p has fewer bits than requested", w);
		if (mpz_sizeinbase(p, 2) == psize) GS.exact_size[fn]++; else GS.larger[fn]++;
	}
	if (cs.sample.empty()) cs.sample = w.str();
	J rec; rec.kv("k", "pr").kv("f", pr_name[fn]).kv("ps", (long long)psize).kv("qs", (long long)qsize).kz("p", p); if (hasq) rec.kz("q", q); if (hask) rec.kz("kk", kk);
	record(rec.str());
}

static void run_primes(long &k) {
	struct Job { int fn; size_t ps, qs; int draws; unsigned long mr; bool always; };
	std::vector<Job> jobs;
	std::vector<size_t> ssz = ctx.quick() ? std::vector<size_t>{64, 96, 128, 256, 512} : std::vector<size_t>{64, 65, 96, 128, 192, 256, 384, 512, 768, 1024};
	for (size_t s : ssz) for (int fn = 0; fn < NPRFN; fn++) {
		if (fn == G_LPRIME || fn == G_LPRIME_PREFIX) continue;
		bool slow = fn == G_SPRIME_NAIVE || fn == G_SMPRIME_NAIVE || fn == G_SPRIME_NONINC;
		if (slow && s > (ctx.quick() ? 256 : 512)) continue;
		int reps = ctx.quick() ? (s <= 128 ? 4 : 2) : (s <= 256 ? 16 : s <= 512 ? 6 : 2);
		for (int i = 0; i < reps; i++) jobs.push_back(Job{fn, s, s, s <= 128 ? 4 : 1, (i & 1) ? 25UL : (unsigned long)TMCG_MR_ITERATIONS, s <= 96});
	}
	std::vector<std::pair<size_t, size_t>> lsz = {{64, 32}, {128, 64}, {256, 128}, {512, 160}, {1024, 160}, {1024, 256}, {2048, 256}};
	for (auto &pq : lsz) for (int fn : {G_LPRIME, G_LPRIME_PREFIX}) {
		int reps = ctx.quick() ? (pq.first >= 2048 ? 1 : 2) : (pq.first >= 2048 ? 4 : 8);
		for (int i = 0; i < reps; i++) jobs.push_back(Job{fn, pq.first, pq.second, pq.first <= 256 ? 4 : 1, (unsigned long)TMCG_MR_ITERATIONS, pq.first <= 128});
	}
	if (ctx.thorough()) jobs.push_back(Job{G_SPRIME, 2048, 2047, 1, (unsigned long)TMCG_MR_ITERATIONS, false});   // one 2048-bit safe prime
	for (auto &jb : jobs) {
		long kk = k++;
		if (jb.always ? thin_light(kk) : thin_out(kk)) continue;
		J d; d.kv("fam", "prime-generator").kv("fn", pr_name[jb.fn]).kv("psize", (long long)jb.ps).kv("qsize", (long long)jb.qs).kv("mr", (long long)jb.mr);
		if (!case_begin(kk, d.str())) continue;
		Rng r = case_rng(kk, 1), lib = case_rng(kk, 2); tl_rng = &lib; CaseStat cs;
		for (int i = 0; i < jb.draws; i++) prime_draw(jb.fn, jb.ps, jb.qs, jb.mr, cs, r);
		if (jb.fn == G_LPRIME || jb.fn == G_LPRIME_PREFIX) {   // documented refusal
			Z p, q, kz(2); Exc x = guard([&] { if (jb.fn == G_LPRIME) tmcg_mpz_lprime(p, q, kz, jb.qs, jb.qs, 10); else tmcg_mpz_lprime_prefix(p, q, kz, jb.qs, jb.qs + 1, 10); });
			cs.evals++; if (x == X_NONE) viol(std::string("C09/prime/") + pr_name[jb.fn] + "/accepted-qsize>=psize", "documented refusal did not happen", J().kv("psize", (long long)jb.qs)); else GS.refusal++;
		}
		tl_rng = nullptr;
		case_end(d.str() + std::to_string(kk), cs.evals > 0, cs.sample, cs.evals, cs.distinct);
	}
}

// ------------------------------------------------------------------ TMCG_Bigint
enum BCode { B_SETUI = 0, B_SET, B_ADD, B_ADDUI, B_SUB, B_SUBUI, B_MUL, B_MULUI, B_DIV, B_MOD, B_MODUI, B_NEG, B_ABS, B_MUL2EXP, B_POWM, B_POWMUI, B_CMP, B_CMPUI, B_GETUI, B_SIZE2, B_PRIME,
             B_DIVUI3, B_DIV2EXP3, B_UIPOWUI3, B_SETSTR3, B_SETSI3, B_SPOWM3, NBCODE };
static const char *b_name[NBCODE] = {"assign_ui", "assign", "add", "add_ui", "sub", "sub_ui", "mul", "mul_ui", "div", "mod", "mod_ui", "neg", "abs", "mul2exp", "powm", "powm_ui", "compare", "compare_ui", "get_ui", "size2", "probab_prime",
                                     "div_ui(plain)", "div2exp(plain)", "ui_pow_ui(plain)", "set_str(plain)", "assign_si(plain)", "spowm(plain)"};
struct BOp { int code, d, s1, s2, s3; unsigned long ui; std::string str; };
struct BStats { long long ops[NBCODE] = {0}, seqs = 0, mixed = 0, negative_results = 0, secure_refusals = 0, maxbits = 0;
	void flush() { for (int c = 0; c < NBCODE; c++) count(std::string("bi.op.") + b_name[c], ops[c]); count("bi.sequences", seqs); count("bi.secure_target_plain_operand(conversion path)", mixed); count("bi.negative_results_compared", negative_results); count("bi.secure_backend_documented_refusals", secure_refusals); } };
extern BStats BS;

static const char *M127 = "170141183460469231731687303715884105727";
static std::string b_render(TMCG_Bigint &x) {   // sign by comparison, magnitude through the wrapper's own operator<<
	bool neg = (x < 0UL); std::ostringstream os;
	if (neg) { TMCG_Bigint t(x); t.abs(); os << "-" << t; } else os << x;
	return os.str();
}
struct BWorld {
	TMCG_Bigint *R[4];
	explicit BWorld(bool secure) { for (int i = 0; i < 3; i++) R[i] = new TMCG_Bigint(secure, true); R[3] = new TMCG_Bigint(false, false); }
	~BWorld() { for (int i = 0; i < 4; i++) delete R[i]; }
	std::string apply(const BOp &o) {
		TMCG_Bigint &d = *R[o.d];
		try {
			switch (o.code) {
			case B_SETUI: d = o.ui; break;
			case B_SET: d = *R[o.s1]; break;
			case B_ADD: d += *R[o.s1]; break; case B_ADDUI: d += o.ui; break;
			case B_SUB: d -= *R[o.s1]; break; case B_SUBUI: d -= o.ui; break;
			case B_MUL: d *= *R[o.s1]; break; case B_MULUI: d *= o.ui; break;
			case B_DIV: d /= *R[o.s1]; break; case B_MOD: d %= *R[o.s1]; break; case B_MODUI: d %= o.ui; break;
			case B_NEG: -d; break; case B_ABS: d.abs(); break; case B_MUL2EXP: d.mul2exp(o.ui); break;
			case B_POWM: d.powm(*R[o.s1], *R[o.s2], *R[o.s3]); break;
			case B_POWMUI: d.powm_ui(*R[o.s1], o.ui, *R[o.s3]); break;
			case B_CMP: { TMCG_Bigint &s = *R[o.s1]; std::string r = "c"; r += (d == s) ? '1' : '0'; r += (d != s) ? '1' : '0'; r += (d > s) ? '1' : '0'; r += (d < s) ? '1' : '0'; r += (d >= s) ? '1' : '0'; r += (d <= s) ? '1' : '0'; return r; }
			case B_CMPUI: { std::string r = "d"; r += (d > o.ui) ? '1' : '0'; r += (d < o.ui) ? '1' : '0'; r += (d >= o.ui) ? '1' : '0'; r += (d <= o.ui) ? '1' : '0'; return r; }
			case B_GETUI: return "u" + std::to_string(d.get_ui());
			case B_SIZE2: return "s" + std::to_string(d.size(2));
			case B_PRIME: return d.probab_prime() ? "p1" : "p0";
			case B_DIVUI3: d /= o.ui; break; case B_DIV2EXP3: d.div2exp(o.ui); break; case B_UIPOWUI3: d.ui_pow_ui(o.ui, (unsigned long)o.s1); break;
			case B_SETSTR3: d.set_str(o.str, (size_t)o.s1); break; case B_SETSI3: d = (signed long)o.ui; break;
			case B_SPOWM3: { Z m; mpz_set_str(m, M127, 10); Z e(o.ui); TMCG_Bigint bm(m), be(e), bb(d); d.spowm(bb, be, bm); break; }
			}
			return b_render(d);
		} catch (std::exception &e) { return std::string("!") + e.what(); }
	}
};
struct BModel {   // GMP directly
	Z R[4];
	std::string apply(const BOp &o) {
		mpz_ptr d = R[o.d];
		switch (o.code) {
		case B_SETUI: mpz_set_ui(d, o.ui); break; case B_SET: mpz_set(d, R[o.s1]); break;
		case B_ADD: mpz_add(d, d, R[o.s1]); break; case B_ADDUI: mpz_add_ui(d, d, o.ui); break;
		case B_SUB: mpz_sub(d, d, R[o.s1]); break; case B_SUBUI: mpz_sub_ui(d, d, o.ui); break;
		case B_MUL: mpz_mul(d, d, R[o.s1]); break; case B_MULUI: mpz_mul_ui(d, d, o.ui); break;
		case B_DIV: mpz_tdiv_q(d, d, R[o.s1]); break; case B_MOD: mpz_mod(d, d, R[o.s1]); break; case B_MODUI: mpz_fdiv_r_ui(d, d, o.ui); break;
		case B_NEG: mpz_neg(d, d); break; case B_ABS: mpz_abs(d, d); break; case B_MUL2EXP: mpz_mul_2exp(d, d, o.ui); break;
		case B_POWM: { Z t; mpz_powm(t, R[o.s1], R[o.s2], R[o.s3]); mpz_set(d, t); break; }
		case B_POWMUI: { Z t; mpz_powm_ui(t, R[o.s1], o.ui, R[o.s3]); mpz_set(d, t); break; }
		case B_CMP: { int c = mpz_cmp(d, R[o.s1]); std::string r = "c"; r += c == 0 ? '1' : '0'; r += c != 0 ? '1' : '0'; r += c > 0 ? '1' : '0'; r += c < 0 ? '1' : '0'; r += c >= 0 ? '1' : '0'; r += c <= 0 ? '1' : '0'; return r; }
		case B_CMPUI: { int c = mpz_cmp_ui(d, o.ui); std::string r = "d"; r += c > 0 ? '1' : '0'; r += c < 0 ? '1' : '0'; r += c >= 0 ? '1' : '0'; r += c <= 0 ? '1' : '0'; return r; }
		case B_GETUI: return "u" + std::to_string(mpz_get_ui(d));
		case B_SIZE2: return "s" + std::to_string(mpz_sizeinbase(d, 2));
		case B_PRIME: { Rng tr(1, 2, 3); return mr_prime(d, 40, tr) ? "p1" : "p0"; }
		case B_DIVUI3: mpz_tdiv_q_ui(d, d, o.ui); break; case B_DIV2EXP3: mpz_tdiv_q_2exp(d, d, o.ui); break; case B_UIPOWUI3: mpz_ui_pow_ui(d, o.ui, (unsigned long)o.s1); break;
		case B_SETSTR3: mpz_set_str(d, o.str.c_str(), o.s1); break; case B_SETSI3: mpz_set_si(d, (signed long)o.ui); break;
		case B_SPOWM3: { Z m; mpz_set_str(m, M127, 10); Z t; mpz_powm_ui(t, d, o.ui, m); mpz_set(d, t); break; }
		}
		return mpz_b62(d);
	}
};

static unsigned long rnd_ui(Rng &r) { switch (r.below(6)) { case 0: return r.below(11); case 1: return r.below(1UL << 16); case 2: return r.below(1UL << 32); case 3: return ~0UL; case 4: return r.next() >> r.below(64); default: return r.next(); } }

// next operation, valid for the current model state: operands non-negative, divisors non-zero, sizes bounded
static BOp gen_op(BModel &M, Rng &r) {
	for (;;) {
		BOp o{0, 0, 0, 0, 0, 0, ""}; o.d = (int)r.below(4); mpz_ptr d = M.R[o.d];
		size_t dbits = mpz_sizeinbase(d, 2);
		if (mpz_sgn(d) < 0) { o.code = r.coin() ? B_NEG : B_ABS; return o; }   // negative results are only normalised
		int c = (int)r.below(NBCODE); o.code = c; o.ui = rnd_ui(r);
		bool plain_only = c >= B_DIVUI3;
		if (plain_only && o.d != 3) continue;
		auto pick_src = [&]() -> int { for (int i = 0; i < 8; i++) { int s = o.d == 3 ? 3 : (int)r.below(4); if (mpz_sgn(M.R[s]) >= 0) return s; } return -1; };
		switch (c) {
		case B_SETUI: case B_ADDUI: case B_SUBUI: case B_NEG: case B_ABS: case B_CMPUI: case B_GETUI: case B_SIZE2: return o;
		case B_SET: case B_ADD: case B_SUB: o.s1 = pick_src(); if (o.s1 < 0) continue; return o;
		case B_MUL: o.s1 = pick_src(); if (o.s1 < 0 || dbits + mpz_sizeinbase(M.R[o.s1], 2) > 6000) continue; return o;
		case B_MULUI: if (dbits > 6000) continue; return o;
		case B_DIV: case B_MOD: o.s1 = pick_src(); if (o.s1 < 0 || !mpz_sgn(M.R[o.s1])) continue; return o;
		case B_MODUI: case B_DIVUI3: if (!o.ui) continue; return o;
		case B_MUL2EXP: o.ui = r.below(4) == 0 ? r.below(600) : r.below(70); if (dbits + o.ui > 6000) continue; return o;
		case B_POWM: case B_POWMUI: {
			if (o.d == 3) continue; o.s1 = (int)r.below(3); o.s2 = (int)r.below(3); o.s3 = (int)r.below(3);
			if (mpz_sgn(M.R[o.s1]) < 0 || mpz_sgn(M.R[o.s3]) <= 0 || mpz_sizeinbase(M.R[o.s3], 2) > 2100) continue;
			if (c == B_POWM && (mpz_sgn(M.R[o.s2]) < 0 || mpz_sizeinbase(M.R[o.s2], 2) > 300)) continue;
			return o; }
		case B_CMP: o.s1 = o.d == 3 ? 3 : (int)r.below(3); if (mpz_sgn(M.R[o.s1]) < 0) continue; return o;
		case B_PRIME: if (dbits > 600) continue; return o;
		case B_DIV2EXP3: o.ui = r.below(80); return o;
		case B_UIPOWUI3: o.ui = r.below(70); o.s1 = (int)r.below(40); return o;
		case B_SETSTR3: { static const int bases[] = {10, 16, 36, 62, 2}; o.s1 = bases[r.below(5)]; int src = (int)r.below(4); Z a; mpz_abs(a, M.R[src]); if (mpz_sizeinbase(a, 2) > 3000) continue; char *s = mpz_get_str(nullptr, o.s1, a); o.str = s; free(s); return o; }
		case B_SETSI3: { long v = (long)(r.next() >> 1 >> r.below(63)); if (r.below(4) == 0) v = -v; o.ui = (unsigned long)v; return o; }
		case B_SPOWM3: if (!o.ui || dbits > 2100) continue; { Z m, t; mpz_set_str(m, M127, 10); mpz_mod(t, d, m); if (!mpz_sgn(t)) continue; } return o;
		}
	}
}

static void run_bigint(long &k) {
	int ncases = ctx.quick() ? 48 : 400; int nops = ctx.quick() ? 220 : 400;
	for (int c = 0; c < ncases; c++) {
		long kk = k++;
		if (thin_light(kk)) continue;
		J d; d.kv("fam", "bigint-sequence").kv("seq", c);
		if (!case_begin(kk, d.str())) continue;
		Rng r = case_rng(kk, 1), lib = case_rng(kk, 2); tl_rng = &lib; CaseStat cs; BS.seqs++;
		BWorld P(false), S(true); BModel M;
		std::vector<BOp> ops; std::vector<std::string> op, os, om;
		bool diverged = false;   // after the first difference the worlds no longer hold equal operands: stop comparing
		auto run = [&](const BOp &o) {
			if (diverged) return;
			if (o.d != 3 && o.code >= B_SET && o.code <= B_MOD && o.code != B_ADDUI && o.code != B_SUBUI && o.code != B_MULUI && o.s1 == 3) BS.mixed++;
			std::string a = P.apply(o), b = S.apply(o), m = M.apply(o);
			ops.push_back(o); op.push_back(a); os.push_back(b); om.push_back(m); BS.ops[o.code]++; cs.evals++; cs.distinct++;
			if (!m.empty() && m[0] == '-') BS.negative_results++;
			if (a != b || a != m) {
				diverged = true;
				std::string which = a != b ? (a == m ? "secure-differs-from-plain-and-model" : (b == m ? "plain-differs-from-secure-and-model" : "all-three-differ")) : "both-differ-from-model";
				std::vector<std::string> hist; for (size_t i = ops.size() > 6 ? ops.size() - 6 : 0; i < ops.size(); i++) hist.push_back(std::string(b_name[ops[i].code]) + " d=" + std::to_string(ops[i].d) + " s=" + std::to_string(ops[i].s1) + "," + std::to_string(ops[i].s2) + "," + std::to_string(ops[i].s3) + " ui=" + std::to_string(ops[i].ui) + " -> " + shorten(om[i], 60));
				viol(std::string("C09/bigint/") + b_name[o.code] + "/" + which, "plain / secure / model results differ", J().kv("op", b_name[o.code]).kv("plain", shorten(a, 400)).kv("secure", shorten(b, 400)).kv("model", shorten(m, 400)).kv("step", (long long)ops.size()).arr("last_ops", hist));
			}
		};
		// registers start as random 0..640-bit numbers built with the wrapper's own operations
		for (int reg = 0; reg < 4; reg++) { run(BOp{B_SETUI, reg, 0, 0, 0, rnd_ui(r), ""}); int limbs = (int)r.below(11); for (int i = 0; i < limbs; i++) { run(BOp{B_MUL2EXP, reg, 0, 0, 0, 64, ""}); run(BOp{B_ADDUI, reg, 0, 0, 0, r.next(), ""}); } }
		if (c % 4 == 1) { run(BOp{B_SETUI, 1, 0, 0, 0, 0, ""}); run(BOp{B_SIZE2, 1, 0, 0, 0, 0, ""}); run(BOp{B_GETUI, 1, 0, 0, 0, 0, ""}); run(BOp{B_ADD, 0, 1, 0, 0, 0, ""}); run(BOp{B_MUL, 2, 1, 0, 0, 0, ""}); }   // zero paths
		if (c % 4 == 2) { run(BOp{B_SETUI, 2, 0, 0, 0, 2, ""}); run(BOp{B_PRIME, 2, 0, 0, 0, 0, ""}); run(BOp{B_SETUI, 2, 0, 0, 0, 1, ""}); run(BOp{B_PRIME, 2, 0, 0, 0, 0, ""}); Z pz; harness_prime(pz, 64 + r.below(400), r); char *s = mpz_get_str(nullptr, 16, pz); run(BOp{B_SETSTR3, 3, 16, 0, 0, 0, s}); free(s); run(BOp{B_SET, 2, 3, 0, 0, 0, ""}); run(BOp{B_PRIME, 2, 0, 0, 0, 0, ""}); run(BOp{B_PRIME, 3, 0, 0, 0, 0, ""}); }
		for (int i = 0; i < nops && !diverged; i++) run(gen_op(M, r));
		// documented restrictions of the secure back end are refusals, not crashes
		{ TMCG_Bigint s(true, true), pl(false, false); pl = 5UL; s = 7UL; int refused = 0;
		  refused += guard([&] { s /= 3UL; }) != X_NONE; refused += guard([&] { s.div2exp(1); }) != X_NONE; refused += guard([&] { s.ui_pow_ui(2, 3); }) != X_NONE;
		  refused += guard([&] { s.set_str("12", 10); }) != X_NONE; refused += guard([&] { s = -3L; }) != X_NONE; refused += guard([&] { s.spowm(pl, pl, pl); }) != X_NONE;
		  refused += guard([&] { pl += s; }) != X_NONE; refused += guard([&] { pl = s; }) != X_NONE; refused += guard([&] { (void)(s == 7UL); }) != X_NONE;
		  TMCG_Bigint hidden(true, false); hidden = 9UL; refused += guard([&] { std::ostringstream o; o << hidden; }) != X_NONE;
		  BS.secure_refusals += refused; cs.evals += 10;
		  if (refused != 10) viol("C09/bigint/secure-back-end/documented-restriction-not-refused", "an operation documented as not allowed on secret values did not throw", J().kv("refused", refused).kv("expected", 10)); }
		{ J rec; rec.kv("k", "bi"); std::string oj = "[";
		  for (size_t i = 0; i < ops.size(); i++) { if (i) oj += ","; oj += "[" + std::to_string(ops[i].code) + "," + std::to_string(ops[i].d) + "," + std::to_string(ops[i].s1) + "," + std::to_string(ops[i].s2) + "," + std::to_string(ops[i].s3) + ",\"" + std::to_string(ops[i].ui) + "\",\"" + jesc(ops[i].str) + "\"]"; }
		  oj += "]"; rec.raw("ops", oj).arr("pl", op).arr("se", os); record(rec.str()); }
		cs.sample = J().kv("fam", "bigint").kv("ops", (long long)ops.size()).kv("last_op", b_name[ops.back().code]).kv("last_result", shorten(om.back(), 80)).str();
		tl_rng = nullptr;
		case_end(d.str() + std::to_string(ctx.seed), cs.evals > 0, cs.sample, cs.evals, cs.distinct);
	}
}

} // namespace c09
