// c09_sqrt.hh — square roots mod p / mod n = pq, quadratic residuosity
#pragma once
#include "c09_common.hh"

namespace c09 {

enum SqFn { SQP = 0, SQP_R, SQP_FAST, SQN, SQN_R, SQN_FAST, SQN_ALL, SQN_R_ALL, SQN_FAST_ALL, QRMN, NSQFN };
static const char *sq_name[NSQFN] = {"tmcg_mpz_sqrtmp", "tmcg_mpz_sqrtmp_r", "tmcg_mpz_sqrtmp_fast", "tmcg_mpz_sqrtmn", "tmcg_mpz_sqrtmn_r", "tmcg_mpz_sqrtmn_fast", "tmcg_mpz_sqrtmn_all", "tmcg_mpz_sqrtmn_r_all", "tmcg_mpz_sqrtmn_fast_all", "tmcg_mpz_qrmn_p"};

struct SqStats {
	long long judged[NSQFN] = {0}, nonres[NSQFN] = {0}, zero_refused[NSQFN] = {0}, zero_returned[NSQFN] = {0}, noncop_ok[NSQFN] = {0}, noncop_bad[NSQFN] = {0}, noncop_threw[NSQFN] = {0};
	long long cls8[8] = {0}, b5_plus = 0, b5_minus = 0, b1_early = 0, b1_deep = 0, depth[70] = {0}, primes = 0, moduli_blum = 0, moduli_other = 0, qr_pos = 0, qr_neg = 0;
	void flush() {
		for (int f = 0; f < NSQFN; f++) {
			std::string n = std::string("sq.") + sq_name[f];
			count(n + ".judged", judged[f]); if (f == QRMN) continue;
			count(n + ".notjudged_nonresidue_calls", nonres[f]); count(n + ".zero_argument_refused", zero_refused[f]); count(n + ".zero_argument_returned", zero_returned[f]);
			if (f >= SQN) { count(n + ".notjudged_noncoprime_square_ok", noncop_ok[f]); count(n + ".notjudged_noncoprime_square_bad", noncop_bad[f]); count(n + ".notjudged_noncoprime_square_threw", noncop_threw[f]); }
		}
		count("sq.residues_p_1mod8", cls8[1]); count("sq.residues_p_3mod8", cls8[3]); count("sq.residues_p_5mod8", cls8[5]); count("sq.residues_p_7mod8", cls8[7]);
		count("sq.branch_5mod8_a^((p-1)/4)=+1", b5_plus); count("sq.branch_5mod8_a^((p-1)/4)=-1", b5_minus);
		count("sq.branch_1mod8_odd_order(early_exit)", b1_early); count("sq.branch_1mod8_even_order(nonresidue_loop)", b1_deep);
		for (int i = 0; i < 70; i++) if (depth[i]) { char b[64]; snprintf(b, sizeof b, "sq.1mod8_residue_2adic_order_%02d", i); count(b, depth[i]); }
		count("sq.primes", primes); count("sq.blum_moduli", moduli_blum); count("sq.non_blum_moduli", moduli_other); count("sq.qrmn_p_true", qr_pos); count("sq.qrmn_p_false", qr_neg);
	}
};
extern SqStats SS;

struct PrimeCtx {   // one odd prime with the pre-computations of the _fast variant
	Z p, nqr, pa1d4, ps1d4, pa3d8, nqr_ps1d4, half; ul e2 = 0; Z oddpart;
	void set(mpz_srcptr pp) {
		mpz_set(p, pp); Z t;
		mpz_add_ui(t, p, 1); mpz_fdiv_q_2exp(pa1d4, t, 2);
		mpz_sub_ui(t, p, 1); mpz_fdiv_q_2exp(ps1d4, t, 2); mpz_fdiv_q_2exp(half, t, 1);
		e2 = mpz_scan1(t, 0); mpz_fdiv_q_2exp(oddpart, t, e2);
		mpz_add_ui(t, p, 3); mpz_fdiv_q_2exp(pa3d8, t, 3);
		// smallest non-residue by Euler's criterion (not mpz_jacobi, which the library uses)
		mpz_set_ui(nqr, 2); Z pm1; mpz_sub_ui(pm1, p, 1);
		for (;;) { mpz_powm(t, nqr, half, p); if (!mpz_cmp(t, pm1)) break; mpz_add_ui(nqr, nqr, 1); }
		mpz_powm(nqr_ps1d4, nqr, ps1d4, p);
	}
	bool is_qr(mpz_srcptr a) const { Z t; mpz_powm(t, a, half, p); return mpz_cmp_ui(t, 1) == 0; }   // Euler
};

static void sq_branch_stats(const PrimeCtx &P, mpz_srcptr a) {
	ul c = mpz_fdiv_ui(P.p, 8); SS.cls8[c]++;
	Z t;
	if (c == 5) { mpz_powm(t, a, P.ps1d4, P.p); if (!mpz_cmp_ui(t, 1)) SS.b5_plus++; else SS.b5_minus++; }
	else if (c == 1) {
		mpz_powm(t, a, P.oddpart, P.p); ul v = 0; while (mpz_cmp_ui(t, 1)) { mpz_mul(t, t, t); mpz_mod(t, t, P.p); v++; }
		if (v == 0) SS.b1_early++; else SS.b1_deep++; SS.depth[v < 69 ? v : 69]++;
	}
}

// one argument against one prime: the three sqrtmp variants
static void sqp_eval(const PrimeCtx &P, mpz_srcptr a, CaseStat &cs, Rng &rr, uint64_t rec_den, bool stats = true) {
	Z am; mpz_mod(am, a, P.p);
	bool zero = mpz_sgn(a) == 0, qr = mpz_sgn(am) != 0 && P.is_qr(a);
	if (qr && stats) sq_branch_stats(P, a);
	for (int fn = SQP; fn <= SQP_FAST; fn++) {
		Z root; std::string what;
		Exc x = guard([&] {
			if (fn == SQP) tmcg_mpz_sqrtmp(root, a, P.p); else if (fn == SQP_R) tmcg_mpz_sqrtmp_r(root, a, P.p);
			else tmcg_mpz_sqrtmp_fast(root, a, P.p, P.nqr, P.pa1d4, P.ps1d4, P.pa3d8, P.nqr_ps1d4);
		}, &what);
		auto wit = [&]() { J w; w.kv("fn", sq_name[fn]).kz("a", a).kz("p", P.p).kv("p_mod_8", (long long)mpz_fdiv_ui(P.p, 8)); if (x == X_NONE) w.kz("root", root); else w.kv("threw", std::string(exc_name(x)) + ": " + what); return w; };
		if (zero) { if (x == X_NONE) SS.zero_returned[fn]++; else SS.zero_refused[fn]++; }
		else if (qr) {
			SS.judged[fn]++; cs.evals++; cs.distinct++;
			if (x != X_NONE) viol(std::string("C09/sqrt/") + sq_name[fn] + "/refused-quadratic-residue", "exception for a quadratic residue", wit());
			else {
				Z sq; mpz_mul(sq, root, root); mpz_mod(sq, sq, P.p);
				if (mpz_cmp(sq, am) != 0) viol(std::string("C09/sqrt/") + sq_name[fn] + "/root-does-not-square-back", "root^2 != a (mod p)", wit());
				else if (mpz_sgn(root) < 0 || mpz_cmp(root, P.p) >= 0) viol(std::string("C09/sqrt/") + sq_name[fn] + "/root-out-of-range", "root not in [0,p)", wit());
			}
			if (cs.sample.empty() && mpz_cmp_ui(a, 1) > 0) cs.sample = wit().str();
		} else SS.nonres[fn]++;
		if ((rr.next() % rec_den) == 0) { J r; r.kv("k", "sp").kv("f", sq_name[fn]).kz("a", a).kz("p", P.p); if (x == X_NONE) r.kz("o", root); else r.kv("x", exc_name(x)); record(r.str()); }
	}
}

struct ModCtx {   // n = p*q with the pre-computations of the _fast variants
	PrimeCtx P, Q; Z n, up, vq; bool blum = false;
	void set(mpz_srcptr p, mpz_srcptr q) {
		P.set(p); Q.set(q); mpz_mul(n, p, q); Z g, u, v; mpz_gcdext(g, u, v, p, q); mpz_mul(up, u, p); mpz_mul(vq, v, q);
		blum = mpz_fdiv_ui(p, 4) == 3 && mpz_fdiv_ui(q, 4) == 3;
	}
};

// one argument against n = pq: qrmn_p and all sqrtmn variants
static void sqn_eval(const ModCtx &M, mpz_srcptr a, CaseStat &cs, Rng &rr, uint64_t rec_den) {
	Z ap, aq, an; mpz_mod(ap, a, M.P.p); mpz_mod(aq, a, M.Q.p); mpz_mod(an, a, M.n);
	bool zp = mpz_sgn(ap) == 0, zq = mpz_sgn(aq) == 0;
	bool qrp = !zp && M.P.is_qr(a), qrq = !zq && M.Q.is_qr(a);
	bool legendre_both = qrp && qrq;                 // both Legendre symbols = +1
	bool square = (zp || qrp) && (zq || qrq);        // a is a square mod n (possibly not a unit)
	int got = tmcg_mpz_qrmn_p(a, M.P.p, M.Q.p);
	SS.judged[QRMN]++; cs.evals++; cs.distinct++; if (got) SS.qr_pos++; else SS.qr_neg++;
	if ((got != 0) != legendre_both) viol("C09/sqrt/tmcg_mpz_qrmn_p/disagrees-with-legendre-symbols", "qrmn_p != (both Legendre symbols are +1)", J().kz("a", a).kz("p", M.P.p).kz("q", M.Q.p).kv("got", got).kv("legendre_p_is_1", qrp).kv("legendre_q_is_1", qrq));
	if ((rr.next() % (rec_den * 4)) == 0) record(J().kv("k", "qr").kz("a", a).kz("p", M.P.p).kz("q", M.Q.p).kv("o", got).str());
	if (!square || mpz_sgn(an) == 0) { if (!square && (rr.next() % 64) != 0) return; }
	for (int fn = SQN; fn <= SQN_FAST_ALL; fn++) {
		if ((fn == SQN_FAST || fn == SQN_FAST_ALL) && !M.blum) continue;
		if (!square && mpz_sgn(an) != 0) {   // non-residue: call a sample, count only
			SS.nonres[fn]++;
		}
		Z r[4]; int nr = fn >= SQN_ALL ? 4 : 1; std::string what;
		Exc x = guard([&] {
			switch (fn) {
			case SQN: tmcg_mpz_sqrtmn(r[0], a, M.P.p, M.Q.p, M.n); break;
			case SQN_R: tmcg_mpz_sqrtmn_r(r[0], a, M.P.p, M.Q.p, M.n); break;
			case SQN_FAST: tmcg_mpz_sqrtmn_fast(r[0], a, M.P.p, M.Q.p, M.n, M.up, M.vq, M.P.pa1d4, M.Q.pa1d4); break;
			case SQN_ALL: tmcg_mpz_sqrtmn_all(r[0], r[1], r[2], r[3], a, M.P.p, M.Q.p, M.n); break;
			case SQN_R_ALL: tmcg_mpz_sqrtmn_r_all(r[0], r[1], r[2], r[3], a, M.P.p, M.Q.p, M.n); break;
			case SQN_FAST_ALL: tmcg_mpz_sqrtmn_fast_all(r[0], r[1], r[2], r[3], a, M.P.p, M.Q.p, M.n, M.up, M.vq, M.P.pa1d4, M.Q.pa1d4); break;
			}
		}, &what);
		bool all_sq = x == X_NONE;
		if (x == X_NONE) for (int i = 0; i < nr; i++) { Z s; mpz_mul(s, r[i], r[i]); mpz_mod(s, s, M.n); if (mpz_cmp(s, an)) all_sq = false; }
		auto wit = [&]() { J w; w.kv("fn", sq_name[fn]).kz("a", a).kz("p", M.P.p).kz("q", M.Q.p); if (x == X_NONE) { std::vector<std::string> v; for (int i = 0; i < nr; i++) v.push_back(mpz_dec(r[i])); w.arr("roots", v); } else w.kv("threw", std::string(exc_name(x)) + ": " + what); return w; };
		std::string kb = std::string("C09/sqrt/") + sq_name[fn] + "/";
		if (mpz_sgn(a) == 0) { if (x == X_NONE) SS.zero_returned[fn]++; else SS.zero_refused[fn]++; }
		else if (!square) { /* counted above */ }
		else if (!legendre_both) { if (x != X_NONE) SS.noncop_threw[fn]++; else if (all_sq) SS.noncop_ok[fn]++; else SS.noncop_bad[fn]++; }
		else {
			SS.judged[fn]++; cs.evals++; cs.distinct++;
			if (x != X_NONE) viol(kb + "refused-quadratic-residue", "exception for a quadratic residue mod pq", wit());
			else if (!all_sq) viol(kb + "root-does-not-square-back", "root^2 != a (mod pq)", wit());
			else {
				bool range = true; for (int i = 0; i < nr; i++) if (mpz_sgn(r[i]) < 0 || mpz_cmp(r[i], M.n) >= 0) range = false;
				if (!range) viol(kb + "root-out-of-range", "root not in [0,n)", wit());
				if (nr == 4) {
					bool distinct = true; for (int i = 0; i < 4; i++) for (int j = i + 1; j < 4; j++) if (!mpz_cmp(r[i], r[j])) distinct = false;
					if (!distinct) viol(kb + "four-roots-not-distinct", "the four square roots of a unit square mod pq must be pairwise distinct", wit());
				}
			}
			if (cs.sample.empty() && mpz_cmp_ui(a, 4) > 0) cs.sample = wit().str();
		}
		if ((rr.next() % rec_den) == 0) { J rec; rec.kv("k", "sn").kv("f", sq_name[fn]).kz("a", a).kz("p", M.P.p).kz("q", M.Q.p); if (x == X_NONE) { std::vector<std::string> v; for (int i = 0; i < nr; i++) v.push_back(mpz_dec(r[i])); rec.arr("o", v); } else rec.kv("x", exc_name(x)); record(rec.str()); }
	}
}

// ---- family "sqp": all primes below the bound, every residue
static void run_sqrt_primes(long &k) {
	ul bound = ctx.quick() ? 2000 : 8000;
	std::vector<ul> pr = primes_below(bound); pr.erase(pr.begin());   // odd primes
	std::vector<std::vector<ul>> groups; size_t chunk = 8;
	for (size_t i = 0; i < pr.size(); i += chunk) groups.push_back(std::vector<ul>(pr.begin() + i, pr.begin() + std::min(pr.size(), i + chunk)));
	// high 2-adic order: all residues
	std::vector<ul> special = {12289, 40961, 65537}; if (ctx.thorough()) { special.push_back(786433); special.push_back(5767169); }
	for (ul s : special) groups.push_back(std::vector<ul>{s});
	for (auto &gvec : groups) {
		long kk = k++;
		if (thin_out(kk)) continue;
		J d; d.kv("fam", "sqrt-p-all-residues").kv("first_p", (long long)gvec.front()).kv("last_p", (long long)gvec.back());
		if (!case_begin(kk, d.str())) continue;
		Rng lib = case_rng(kk, 2), rr = case_rng(kk, 3); tl_rng = &lib; CaseStat cs;
		uint64_t den = 32 * opt.recmul * (ctx.quick() ? 1 : 24);
		for (ul pu : gvec) {
			PrimeCtx P; Z pz(pu); P.set(pz); SS.primes++;
			for (ul au = 0; au < pu; au++) { Z a(au); sqp_eval(P, a, cs, rr, den); }
			// unreduced arguments
			for (ul au = 1; au < pu && au < 6; au++) { Z a(au + pu); sqp_eval(P, a, cs, rr, den, false); }
		}
		tl_rng = nullptr;
		case_end(d.str(), cs.evals > 0, cs.sample, cs.evals, cs.distinct);
	}
	// 7*2^26+1: residues of every 2-adic order + random ones
	{
		long kk = k++;
		J d; d.kv("fam", "sqrt-p-structured").kv("p", "469762049");
		if (!thin_out(kk) && case_begin(kk, d.str())) {
			Rng r = case_rng(kk, 1), lib = case_rng(kk, 2), rr = case_rng(kk, 3); tl_rng = &lib; CaseStat cs;
			ul pu = 469762049UL; PrimeCtx P; Z pz(pu); P.set(pz); SS.primes++;
			int per = ctx.quick() ? 40 : 400;
			for (ul j = 1; j <= 26; j++) for (int i = 0; i < per; i++) { ul odd = r.below(pu) | 1; ul ex = mulmod(odd, 1UL << j, pu - 1); Z a(powmod(3, ex, pu)); sqp_eval(P, a, cs, rr, 8 * opt.recmul); }
			for (int i = 0; i < (ctx.quick() ? 4000 : 100000); i++) { Z a(r.below(pu)); sqp_eval(P, a, cs, rr, 8 * opt.recmul); }
			tl_rng = nullptr;
			case_end(d.str(), cs.evals > 0, cs.sample, cs.evals, cs.distinct);
		}
	}
}

// ---- family "sqpb": random big primes of every class mod 8 and with high 2-adic order
static void run_sqrt_big_primes(long &k) {
	std::vector<size_t> sizes = ctx.quick() ? std::vector<size_t>{256, 512, 1024} : std::vector<size_t>{256, 384, 512, 768, 1024, 2048};
	int reps = ctx.quick() ? 1 : 4;
	for (size_t bits : sizes) for (int cls = 0; cls < 7; cls++) for (int rep = 0; rep < reps; rep++) {
		long kk = k++;
		if (thin_out(kk)) continue;
		static const ul mods[7] = {8, 8, 8, 8, 1UL << 16, 1UL << 32, 1UL << 62}; static const ul ress[7] = {1, 3, 5, 7, 1, 1, 1};
		J d; d.kv("fam", "sqrt-p-big").kv("bits", (long long)bits).kv("p_class", cls < 4 ? std::to_string(ress[cls]) + " mod 8" : "1 mod 2^" + std::to_string(cls == 4 ? 16 : cls == 5 ? 32 : 62)).kv("rep", rep);
		if (!case_begin(kk, d.str())) continue;
		Rng r = case_rng(kk, 1), lib = case_rng(kk, 2), rr = case_rng(kk, 3); tl_rng = &lib; CaseStat cs;
		PrimeCtx P; Z p; harness_prime(p, bits, r, mods[cls], ress[cls]); P.set(p); SS.primes++;
		int n = ctx.quick() ? 24 : 64;
		for (int i = 0; i < n; i++) {
			Z y, a; r.mpz_below(y, p);
			if (i % 3 == 2 && P.e2 > 2) { Z ex; mpz_set_ui(ex, 1); mpz_mul_2exp(ex, ex, 1 + r.below(P.e2 - 1)); mpz_mul(ex, ex, P.oddpart); mpz_powm(y, y, ex, p); }   // element of small 2-power order
			mpz_mul(a, y, y); mpz_mod(a, a, p); if (!mpz_sgn(a)) continue;
			sqp_eval(P, a, cs, rr, (bits >= 1024 ? 4 : 2) * opt.recmul);
		}
		for (int i = 0; i < 4; i++) { Z a; r.mpz_below(a, p); sqp_eval(P, a, cs, rr, 4 * opt.recmul); }   // arbitrary (half are non-residues)
		{ Z a; sqp_eval(P, a, cs, rr, 1); }   // zero
		tl_rng = nullptr;
		case_end(d.str() + mpz_b62(p), cs.evals > 0, cs.sample, cs.evals, cs.distinct);
	}
}

// ---- family "sqn": all Blum products of primes below the bound (+ all products of small odd primes), every residue
static void run_sqrt_products(long &k) {
	ul bb = ctx.quick() ? 200 : 400, ob = ctx.quick() ? 60 : 110;
	std::vector<ul> all = primes_below(bb), blum, other;
	for (ul p : all) if (p % 4 == 3) blum.push_back(p);
	for (ul p : primes_below(ob)) if (p > 2) other.push_back(p);
	struct Pair { ul p, q; bool blum; };
	std::vector<Pair> pairs;
	for (size_t i = 0; i < blum.size(); i++) for (size_t j = i + 1; j < blum.size(); j++) {
		bool sw = ((i + j) & 1) != 0;
		pairs.push_back(Pair{sw ? blum[j] : blum[i], sw ? blum[i] : blum[j], true});
		if (ctx.thorough()) pairs.push_back(Pair{sw ? blum[i] : blum[j], sw ? blum[j] : blum[i], true});
	}
	for (size_t i = 0; i < other.size(); i++) for (size_t j = i + 1; j < other.size(); j++) {
		if (other[i] % 4 == 3 && other[j] % 4 == 3) continue;
		bool sw = ((i + j) & 1) != 0;
		pairs.push_back(Pair{sw ? other[j] : other[i], sw ? other[i] : other[j], false});
	}
	for (auto &pq : pairs) {
		long kk = k++;
		if (thin_out(kk)) continue;
		J d; d.kv("fam", "sqrt-pq-all-residues").kv("p", (long long)pq.p).kv("q", (long long)pq.q).kv("blum", pq.blum);
		if (!case_begin(kk, d.str())) continue;
		Rng lib = case_rng(kk, 2), rr = case_rng(kk, 3); tl_rng = &lib; CaseStat cs;
		ModCtx M; Z p(pq.p), q(pq.q); M.set(p, q); if (M.blum) SS.moduli_blum++; else SS.moduli_other++;
		ul n = pq.p * pq.q; uint64_t den = 96 * opt.recmul * (ctx.quick() ? 1 : 40);
		for (ul au = 0; au < n; au++) { Z a(au); sqn_eval(M, a, cs, rr, den); }
		for (ul au = 1; au < 8; au++) { Z a(au * au + n); sqn_eval(M, a, cs, rr, den); }   // unreduced squares
		tl_rng = nullptr;
		case_end(d.str(), cs.evals > 0, cs.sample, cs.evals, cs.distinct);
	}
}

// ---- family "sqnb": random 256..1024-bit moduli (Blum, incl. library-made Blum primes, and general)
static void run_sqrt_big_products(long &k) {
	std::vector<size_t> sizes = ctx.quick() ? std::vector<size_t>{256, 512, 1024} : std::vector<size_t>{256, 512, 768, 1024, 2048};
	int reps = ctx.quick() ? 4 : 16;
	for (size_t bits : sizes) for (int rep = 0; rep < reps; rep++) {
		long kk = k++;
		if (thin_out(kk)) continue;
		int kind = rep % 4;   // 0,1 Blum (harness primes), 2 Blum (tmcg_mpz_sprime3mod4), 3 general (one factor 1 mod 8)
		J d; d.kv("fam", "sqrt-pq-big").kv("bits", (long long)bits).kv("kind", kind).kv("rep", rep);
		if (!case_begin(kk, d.str())) continue;
		Rng r = case_rng(kk, 1), lib = case_rng(kk, 2), rr = case_rng(kk, 3); tl_rng = &lib; CaseStat cs;
		Z p, q; size_t pb = bits / 2 + (rep & 1 ? 8 : 0), qb = bits - pb;
		if (kind == 2 && bits <= 1024) { tmcg_mpz_sprime3mod4(p, pb, 25); do tmcg_mpz_sprime3mod4(q, qb, 25); while (!mpz_cmp(p, q)); }
		else if (kind == 3) { harness_prime(p, pb, r, 8, 1); harness_prime(q, qb, r, 8, r.coin() ? 5 : 3); }
		else { harness_prime(p, pb, r, 4, 3); do harness_prime(q, qb, r, 4, 3); while (!mpz_cmp(p, q)); }
		ModCtx M; M.set(p, q); if (M.blum) SS.moduli_blum++; else SS.moduli_other++;
		int n = ctx.quick() ? 16 : 48;
		for (int i = 0; i < n; i++) { Z y, a; r.mpz_below(y, M.n); mpz_mul(a, y, y); mpz_mod(a, a, M.n); sqn_eval(M, a, cs, rr, (bits >= 1024 ? 4 : 2) * opt.recmul); }
		for (int i = 0; i < 8; i++) { Z a; r.mpz_below(a, M.n); sqn_eval(M, a, cs, rr, 4 * opt.recmul); }
		tl_rng = nullptr;
		case_end(d.str() + mpz_b62(M.n), cs.evals > 0, cs.sample, cs.evals, cs.distinct);
	}
}

} // namespace c09
