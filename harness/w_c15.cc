// w_c15.cc — C15: secret sharing and distributed key generation are consistent.
//
// One case = one scenario (protocol, n, t, faulty set, deviation script, network mode,
// scheduler seed): n parties run the library protocol as cooperative tasks over SimNet
// (private links + reliable broadcast), then an end-state monitor with its own Lagrange
// interpolation over Z_q judges the state of the HONEST parties:
//   equal QUAL / y / commitments, honest subset of QUAL, g^{x_i} = v_i resp.
//   g^{x_i} h^{x'_i} = prod commitments evaluated at i, every (deg+1)-subset of honest shares
//   interpolates to one x with g^x = y (resp. g^x h^{x'} = prod C_j0), dealer-based sharing:
//   x = dealer's sigma = what Reconstruct returns, zero sharing: x = 0, refresh: same y,
//   same x, changed shares.
// Scenarios stay inside the protocols' resilience: 2t < n, and 3t < n (the broadcast's
// bound) as soon as a party deviates; at most t parties deviate.
#include "c15_sim.hh"
#include <cassert>
#include <time.h>

using namespace vf;
using namespace c15;

typedef CachinKursawePetzoldShoupRBC RBC;
typedef GennaroJareckiKrawczykRabinDKG GJKR;
typedef CanettiGennaroJareckiKrawczykRabinRVSS CRVSS;
typedef CanettiGennaroJareckiKrawczykRabinZVSS CZVSS;
typedef CanettiGennaroJareckiKrawczykRabinDKG CDKG;
typedef JareckiLysyanskayaRVSS JLRVSS;

enum Proto { P_PVSS = 0, P_GJKR, P_RVSS, P_ZVSS, P_CDKG, P_JLRVSS, P_COUNT };
static const char *PNAME[P_COUNT] = {"pvss", "gjkr", "rvss", "zvss", "cdkg", "jlrvss"};
static int nphases(int p) { return (p == P_PVSS || p == P_CDKG) ? 2 : 1; }
static const char *phase_name(int p, int ph) {
	if (p == P_PVSS) return ph ? "reconstruct" : "share";
	if (p == P_CDKG) return ph ? "refresh" : "generate";
	return p == P_GJKR ? "generate" : "share";
}

static const time_t T_PRIV = aiounicast::aio_timeout_middle, T_RBC = aiounicast::aio_timeout_middle;

// ------------------------------------------------------------------ scenario
struct Scen {
	int proto = 0; size_t n = 0, t = 0, tp = 0; std::vector<size_t> F; std::vector<Dev> devs;
	size_t dealer = 0; long dmax = 0; double preempt = 0; int grp = 0; uint64_t sseed = 1; int sigma_kind = 0;
	// resilience the reliable broadcast is configured with: by default the protocol's own t (as in the repository's
	// tests, which use 3t < n); scenarios with n/3 <= t < n/2 set it to floor((n-1)/3), what a deployment has to do,
	// and let at most that many parties deviate
	size_t trbc = (size_t)-1;
	// CGJKR DKG only: Refresh through its index-mapped overload Refresh(n, idx, idx2dkg, dkg2idx, ...) on a second network where
	// the party with DKG index d sits at channel index (d + maprot) mod n (maprot = 0: the plain overload on the first network).
	// Deviations of such a scenario act in the refresh phase; victim indices are translated to channel indices.
	size_t maprot = 0;
	size_t rbc_t() const { return trbc == (size_t)-1 ? t : trbc; }
	bool faulty(size_t i) const { return std::find(F.begin(), F.end(), i) != F.end(); }
	const Dev *dev_of(size_t i) const { for (size_t a = 0; a < F.size(); a++) if (F[a] == i) return &devs[a]; return nullptr; }
	std::string json() const {
		J j; j.kv("proto", PNAME[proto]).kv("n", (long long)n).kv("t", (long long)t);
		if (tp != t) j.kv("tprime", (long long)tp);
		if (trbc != (size_t)-1) j.kv("rbc_t", (long long)trbc);
		if (maprot) j.kv("refresh_channel_index_rotation", (long long)maprot);
		j.arrn("F", F);
		std::string d = "["; for (size_t a = 0; a < devs.size(); a++) { if (a) d += ","; d += devs[a].json(); } d += "]";
		j.raw("devs", d);
		if (proto == P_PVSS) j.kv("dealer", (long long)dealer).kv("sigma_kind", sigma_kind);
		j.kv("dmax", dmax).kv("preempt", preempt).kv("grp", grp == 0 ? "S512/160" : "D2048/256").kv("sseed", (unsigned long long)sseed);
		return j.str();
	}
};

// ------------------------------------------------------------------ groups (deterministic in ctx.seed)
static Group g_groups[2];
static const Group &group(int which) {
	Group &G = g_groups[which];
	if (G.ok) return G;
	unsigned long fs = which ? 2048 : 512, gs = which ? 256 : 160;
	Rng r = setup_rng(0x15 + (uint64_t)which); Rng *prev = tl_rng; tl_rng = &r;
	BarnettSmartVTMF_dlog *v = new BarnettSmartVTMF_dlog(fs, gs, true, true);
	if (!v->CheckGroup()) { fprintf(stderr, "c15: generated group refused by CheckGroup\n"); exit(2); }
	v->KeyGenerationProtocol_GenerateKey();     // h := g^x for a discarded x (second generator)
	mpz_set(G.p.v, v->p); mpz_set(G.q.v, v->q); mpz_set(G.g.v, v->g); mpz_set(G.h.v, v->h_i);
	G.fs = fs; G.gs = gs; G.ok = true;
	delete v; tl_rng = prev;
	// every protocol class must accept the parameters (harness sanity, not a verdict)
	{
		PedersenVSS a(3, 1, 0, G.p.v, G.q.v, G.g.v, G.h.v, fs, gs, false);
		GJKR b(3, 1, 0, G.p.v, G.q.v, G.g.v, G.h.v, fs, gs, true, false);
		CRVSS c(3, 1, 0, 1, G.p.v, G.q.v, G.g.v, G.h.v, fs, gs, true, false);
		CZVSS d(3, 1, 0, 1, G.p.v, G.q.v, G.g.v, G.h.v, fs, gs, true, false);
		CDKG e(3, 1, 0, G.p.v, G.q.v, G.g.v, G.h.v, fs, gs, true, false);
		JLRVSS f(3, 1, G.p.v, G.q.v, G.g.v, G.h.v, fs, gs);
		if (!a.CheckGroup() || !b.CheckGroup() || !c.CheckGroup() || !d.CheckGroup() || !e.CheckGroup() || !f.CheckGroup()) {
			fprintf(stderr, "c15: a protocol class refuses the generated group parameters\n"); exit(2);
		}
	}
	return G;
}

// ------------------------------------------------------------------ per-party state
struct Snap {
	bool called = false, ret = false, threw = false; std::string exc;
	std::vector<size_t> qual, vqual;
	Z x, xp; bool has_y = false; Z y;
	std::vector<Z> vkey;                    // Feldman verification keys (New-DKG)
	std::vector<std::vector<Z>> C;          // Pedersen commitments as seen by this party [party][k]
	bool has_secret = false; Z secret;      // own contribution z_i / dealer's sigma
	bool recon_called = false, recon_ret = false; Z recon;
	long vstart = 0, vend = 0;
};

struct Party {
	size_t i = 0; DevUnicast *aiou = nullptr, *aiou2 = nullptr; RBC *rbc = nullptr;
	DevUnicast *maiou = nullptr, *maiou2 = nullptr; RBC *mrbc = nullptr;      // endpoints on the re-numbered network
	PedersenVSS *pvss = nullptr; GJKR *gjkr = nullptr; CRVSS *rvss = nullptr; CZVSS *zvss = nullptr; CDKG *cdkg = nullptr; JLRVSS *jl = nullptr;
	std::stringstream err[2]; Snap snap[2]; bool dead = false;
	~Party() { delete pvss; delete gjkr; delete rvss; delete zvss; delete cdkg; delete jl; delete rbc; delete aiou; delete aiou2; delete mrbc; delete maiou; delete maiou2; }
};

static void copy_mat(std::vector<std::vector<Z>> &dst, const std::vector<std::vector<mpz_ptr>> &src) {
	dst.clear(); dst.resize(src.size());
	for (size_t a = 0; a < src.size(); a++) for (size_t k = 0; k < src[a].size(); k++) dst[a].push_back(Z(src[a][k]));
}

static void capture(const Scen &sc, Party &P, int ph) {
	Snap &s = P.snap[ph];
	switch (sc.proto) {
	case P_PVSS:
		if (ph == 0) {
			mpz_set(s.x.v, P.pvss->sigma_i); mpz_set(s.xp.v, P.pvss->tau_i);
			s.C.assign(1, std::vector<Z>()); for (auto a : P.pvss->A_j) s.C[0].push_back(Z(a));
		}
		break;
	case P_GJKR:
		s.qual = P.gjkr->QUAL; s.vqual = s.qual; mpz_set(s.x.v, P.gjkr->x_i); mpz_set(s.xp.v, P.gjkr->xprime_i);
		s.has_y = true; mpz_set(s.y.v, P.gjkr->y);
		for (auto a : P.gjkr->v_i) s.vkey.push_back(Z(a));
		copy_mat(s.C, P.gjkr->C_ik);
		s.has_secret = true; mpz_set(s.secret.v, P.gjkr->z_i[P.i]);
		break;
	case P_RVSS:
		s.qual = P.rvss->QUAL; s.vqual = s.qual; mpz_set(s.x.v, P.rvss->x_i); mpz_set(s.xp.v, P.rvss->xprime_i);
		copy_mat(s.C, P.rvss->C_ik); s.has_secret = true; mpz_set(s.secret.v, P.rvss->z_i);
		break;
	case P_ZVSS:
		s.qual = P.zvss->QUAL; s.vqual = s.qual; mpz_set(s.x.v, P.zvss->x_i); mpz_set(s.xp.v, P.zvss->xprime_i);
		copy_mat(s.C, P.zvss->C_ik);
		break;
	case P_CDKG:
		// the library's verification relation for shares of x ranges over x_rvss->QUAL / x_rvss->C_ik
		// (that is what CanettiGennaroJareckiKrawczykRabinDSS::Sign evaluates)
		s.qual = P.cdkg->QUAL; s.vqual = P.cdkg->x_rvss->QUAL; mpz_set(s.x.v, P.cdkg->x_i); mpz_set(s.xp.v, P.cdkg->xprime_i);
		s.has_y = true; mpz_set(s.y.v, P.cdkg->y);
		copy_mat(s.C, P.cdkg->x_rvss->C_ik);
		break;
	case P_JLRVSS:
		s.qual = P.jl->Qual; s.vqual = s.qual; mpz_set(s.x.v, P.jl->alpha_i); mpz_set(s.xp.v, P.jl->hatalpha_i);
		copy_mat(s.C, P.jl->C_ik); s.has_secret = true; mpz_set(s.secret.v, P.jl->a_i);
		break;
	}
}

static void pick_sigma(Z &sigma, const Scen &sc, const Group &G, long kcase) {
	Rng r = case_rng(kcase, 0x51);
	switch (sc.sigma_kind) {
	case 1: mpz_set_ui(sigma.v, 0); break;
	case 2: mpz_set_ui(sigma.v, 1); break;
	case 3: mpz_sub_ui(sigma.v, G.q.v, 1); break;
	default: r.mpz_below(sigma.v, G.q.v);
	}
}

static void party_main(World &W, const Scen &sc, const Group &G, Party &P, long kcase) {
	size_t n = sc.n, t = sc.t, i = P.i;
	P.aiou = new DevUnicast(n, i, &W.uni, &W, false, T_PRIV);
	P.aiou2 = new DevUnicast(n, i, &W.bc, &W, true, T_RBC);
	P.rbc = new RBC(n, sc.rbc_t(), i, P.aiou2, aiounicast::aio_scheduler_roundrobin, T_RBC);
	P.rbc->setID("c15");
	P.aiou2->rbc = P.rbc; P.aiou->q = G.q; P.aiou2->q = G.q;
	mpz_mul(P.aiou2->gh.v, G.g.v, G.h.v); mpz_mod(P.aiou2->gh.v, P.aiou2->gh.v, G.p.v);
	const Dev *dv = sc.dev_of(i);
	if (dv) { P.aiou->dev = *dv; P.aiou2->dev = *dv; }
	std::map<size_t, size_t> idx2dkg, dkg2idx; size_t mi = i;
	if (sc.maprot) {
		for (size_t d = 0; d < n; d++) { size_t c = (d + sc.maprot) % n; dkg2idx[d] = c; idx2dkg[c] = d; }
		mi = dkg2idx[i];
		P.maiou = new DevUnicast(n, mi, &W.uni2, &W, false, T_PRIV);
		P.maiou2 = new DevUnicast(n, mi, &W.bc2, &W, true, T_RBC);
		P.mrbc = new RBC(n, sc.rbc_t(), mi, P.maiou2, aiounicast::aio_scheduler_roundrobin, T_RBC);
		P.mrbc->setID("c15-mapped-refresh");
		P.maiou2->rbc = P.mrbc; P.maiou->q = G.q; P.maiou2->q = G.q; P.maiou2->gh = P.aiou2->gh;
		P.maiou->mutev = &W.mute2; P.maiou2->mutev = &W.mute2; P.maiou->statj = i; P.maiou2->statj = i;
		if (dv) { Dev d2 = *dv; d2.victim = dkg2idx[dv->victim % n]; P.maiou->dev = d2; P.maiou2->dev = d2; P.aiou->dev = Dev(); P.aiou2->dev = Dev(); }
	}
	mpz_srcptr p = G.p.v, q = G.q.v, g = G.g.v, h = G.h.v;
	switch (sc.proto) {
	case P_PVSS: P.pvss = new PedersenVSS(n, t, i, p, q, g, h, G.fs, G.gs, false); break;
	case P_GJKR: P.gjkr = new GJKR(n, t, i, p, q, g, h, G.fs, G.gs, true, false); break;
	case P_RVSS: P.rvss = new CRVSS(n, t, i, sc.tp, p, q, g, h, G.fs, G.gs, true, false); break;
	case P_ZVSS: P.zvss = new CZVSS(n, t, i, sc.tp, p, q, g, h, G.fs, G.gs, true, false); break;
	case P_CDKG: P.cdkg = new CDKG(n, t, i, p, q, g, h, G.fs, G.gs, true, false); break;
	case P_JLRVSS: P.jl = new JLRVSS(n, t, p, q, g, h, G.fs, G.gs); break;
	}
	Z sigma; if (sc.proto == P_PVSS) pick_sigma(sigma, sc, G, kcase);
	for (int ph = 0; ph < nphases(sc.proto); ph++) {
		P.aiou->enter_phase(ph); P.aiou2->enter_phase(ph);
		if (P.maiou) { P.maiou->enter_phase(ph); P.maiou2->enter_phase(ph); }
		bool flag = dv && dv->kind == D_BUILTIN && (dv->phase < 0 || dv->phase == ph);
		Snap &s = P.snap[ph]; s.vstart = g_vtime;
		bool run = !P.dead;
		if (ph == 1 && !(P.snap[0].ret || (dv && sc.proto == P_CDKG))) run = false;   // nothing to reconstruct / refresh
		if (run) {
			try {
				switch (sc.proto) {
				case P_PVSS:
					if (ph == 0) {
						if (i == sc.dealer) { s.has_secret = true; s.secret = sigma; s.ret = P.pvss->Share(sigma.v, P.aiou, P.rbc, P.err[ph], flag); }
						else s.ret = P.pvss->Share(sc.dealer, P.aiou, P.rbc, P.err[ph], flag);
					} else {
						mpz_set_ui(s.recon.v, 42); s.recon_called = true;
						s.recon_ret = P.pvss->Reconstruct(sc.dealer, s.recon.v, P.rbc, P.err[ph]); s.ret = s.recon_ret;
					}
					break;
				case P_GJKR: s.ret = P.gjkr->Generate(P.aiou, P.rbc, P.err[ph], flag); break;
				case P_RVSS: s.ret = P.rvss->Share(P.aiou, P.rbc, P.err[ph], flag); break;
				case P_ZVSS: s.ret = P.zvss->Share(P.aiou, P.rbc, P.err[ph], flag); break;
				case P_CDKG:
					if (ph == 0) s.ret = P.cdkg->Generate(P.aiou, P.rbc, P.err[ph], flag);
					else if (sc.maprot) s.ret = P.cdkg->Refresh(n, mi, idx2dkg, dkg2idx, P.maiou, P.mrbc, P.err[ph], flag);
					else s.ret = P.cdkg->Refresh(n, i, P.aiou, P.rbc, P.err[ph], flag);
					break;
				case P_JLRVSS: s.ret = P.jl->Share(i, P.aiou, P.rbc, P.err[ph], flag); break;
				}
				s.called = true;
			} catch (std::exception &e) { s.threw = true; s.exc = e.what(); P.dead = true; }
			capture(sc, P, ph);
		}
		s.vend = g_vtime;
		W.bar.arrive_and_serve(i, (sc.maprot && ph == 1) ? P.mrbc : P.rbc);
	}
}

// ------------------------------------------------------------------ monitor
struct Verdicts {
	const Scen &sc; long kcase; int fired = 0; long long evals = 0; long long subsets = 0; bool reached = false, beyond_bound_stall = false;
	Verdicts(const Scen &s, long k) : sc(s), kcase(k) {}
	// stable class of the scenario: the deviation kinds of the faulty parties (unique, in descending catalogue
	// order: unanswered, shift, bad_reveal, bc_alter, silent, false_complaint, wrong_share, builtin - so that a
	// prefix "dev=unanswered" covers every combination with that kind), or honest-only (all-honest runs with
	// t = 0 are a class of their own: there the broadcast needs the echo of every party)
	std::string scen_class() const {
		if (sc.F.empty()) return sc.t == 0 ? "honest-only:t=0" : "honest-only";
		std::set<int, std::greater<int>> ks; for (auto &d : sc.devs) ks.insert(d.kind);
		std::string r = "dev="; bool first = true; for (int k : ks) { if (!first) r += "+"; first = false; r += dev_name(k); }
		return r;
	}
	void viol(const std::string &cls, int ph, const std::string &what, J w) {
		fired++;
		w.raw("scenario", sc.json()).kv("phase", phase_name(sc.proto, ph)).kv("seed", (unsigned long long)ctx.seed).kv("case", kcase);
		violation(std::string("C15/") + cls + "/" + PNAME[sc.proto] + "." + phase_name(sc.proto, ph) + "/" + scen_class(), what, w.str());
	}
};

static std::string setstr(const std::vector<size_t> &v) { std::string s = "{"; for (size_t a = 0; a < v.size(); a++) { if (a) s += ","; s += std::to_string(v[a]); } return s + "}"; }

struct JointResult { bool have_x = false; Z x, xp; std::vector<size_t> H; };

// Liveness inside the synchrony assumption.  Every unicast message is delivered within <= 3 virtual
// seconds and virtual time advances only when every party waits, so
//  (a) an honest party must never run into a time-out (30 s) while waiting for a message of another
//      honest party                                                   -> C15/honest-timeout
//  (b) a message of a deviating party must be in time for all honest parties or for none: honest
//      parties that decide differently fall a whole time-out apart   -> C15/split-timeout
// The library logs each time-out ("receiving ... failed; complaint against P_j", "receiving who failed
// from P_j", "no share received from P_j"); the last integer of the line is the sender.
// Returns true if the run is not judged further (root cause reported, or recorded as beyond the bound).
static bool scan_timeouts(Verdicts &V, std::vector<Party *> &P, int ph) {
	const Scen &sc = V.sc;
	std::vector<std::multiset<std::string>> on_faulty(sc.n);
	std::vector<std::string> honest_line(sc.n); std::vector<long> honest_from(sc.n, -1);
	for (auto p : P) {
		if (sc.faulty(p->i)) continue;
		std::istringstream in(p->err[ph].str()); std::string line;
		std::string self = "P_" + std::to_string(p->i) + ": ";
		while (std::getline(in, line)) {
			bool rx = (line.find("receiving") != std::string::npos && line.find("failed") != std::string::npos) || line.find("no share received") != std::string::npos;
			if (!rx) continue;
			size_t e = line.find_last_of("0123456789"); if (e == std::string::npos) continue;
			size_t b = e; while (b > 0 && isdigit((unsigned char)line[b - 1])) b--;
			size_t from = (size_t)atol(line.substr(b, e - b + 1).c_str());
			if (from >= sc.n || from == p->i) continue;
			if (sc.faulty(from)) { std::string norm = line; size_t at = norm.find(self); if (at != std::string::npos) norm.erase(at, self.size()); on_faulty[p->i].insert(norm); }
			else if (honest_from[p->i] < 0) { honest_from[p->i] = (long)from; honest_line[p->i] = line; }
		}
	}
	// (b) split decisions about a deviating party's message (parties of equal role only: PVSS receivers)
	std::vector<size_t> cmp; for (size_t i = 0; i < sc.n; i++) if (!sc.faulty(i) && !(sc.proto == P_PVSS && i == sc.dealer)) cmp.push_back(i);
	for (size_t a = 1; a < cmp.size(); a++) {
		if (on_faulty[cmp[a]] == on_faulty[cmp[0]]) continue;
		std::string only;
		for (auto &l : on_faulty[cmp[a]]) if (on_faulty[cmp[0]].count(l) != on_faulty[cmp[a]].count(l)) { only = l; break; }
		if (only.empty()) for (auto &l : on_faulty[cmp[0]]) if (on_faulty[cmp[0]].count(l) != on_faulty[cmp[a]].count(l)) { only = l; break; }
		V.viol("split-timeout", ph, "honest parties decided differently whether a message of a deviating party arrived in time", J().kv("party_a", (long long)cmp[0]).kv("party_b", (long long)cmp[a]).kv("timeouts_a", (long long)on_faulty[cmp[0]].size()).kv("timeouts_b", (long long)on_faulty[cmp[a]].size()).kv("differing_line", only));
		return true;
	}
	// (a) time-outs between honest parties
	for (size_t i = 0; i < sc.n; i++) {
		if (honest_from[i] < 0) continue;
		if (3 * sc.rbc_t() >= sc.n) {
			// the reliable broadcast is operated beyond its own bound t < n/3 (it then needs the ready message of every
			// party): a party that waits on its private links stalls it.  Documented resilience limit: recorded, not judged.
			count(std::string("stall_beyond_rbc_bound.") + PNAME[sc.proto]); V.beyond_bound_stall = true; return true;
		}
		long rq = 0; for (auto q : P) { if (q->aiou2) rq += q->aiou2->rreq[ph]; if (q->maiou2) rq += q->maiou2->rreq[ph]; }
		V.viol("honest-timeout", ph, "an honest party ran into a time-out waiting for a message of another honest party although every link delivers within 3 s", J().kv("party", (long long)i).kv("waiting_for", honest_from[i]).kv("log_line", honest_line[i]).kv("r_requests_sent_in_phase", rq));
		return true;
	}
	return false;
}

// state of the honest parties after a joint sharing / key generation phase
static void check_joint(Verdicts &V, const Group &G, std::vector<Party *> &P, int ph, size_t deg, bool zero_secret, JointResult &R) {
	const Scen &sc = V.sc; size_t n = sc.n;
	std::vector<size_t> H; for (size_t i = 0; i < n; i++) if (!sc.faulty(i)) H.push_back(i);
	R.H = H;
	if (scan_timeouts(V, P, ph)) return;     // root cause reported; the state that follows from it is not judged again
	// 0. every honest party finished and reports success
	bool all_ok = true;
	for (size_t i : H) {
		Snap &s = P[i]->snap[ph];
		if (s.threw) { V.viol("exception", ph, "honest party's protocol call threw " + s.exc, J().kv("party", (long long)i)); all_ok = false; }
		else if (!s.called) { all_ok = false; }
		else if (!s.ret) {
			// more precise when the other honest parties excluded this party from QUAL
			bool excluded = false; size_t by = 0;
			for (size_t j : H) { const Snap &o = P[j]->snap[ph]; if (j != i && o.called && o.ret && std::find(o.qual.begin(), o.qual.end(), i) == o.qual.end()) { excluded = true; by = j; } }
			if (excluded) V.viol("honest-not-in-qual", ph, "an honest party is missing from QUAL (its own call returned false)", J().kv("at_party", (long long)by).kv("missing", (long long)i).kv("qual", setstr(P[by]->snap[ph].qual)).kv("log_tail", shorten(P[i]->err[ph].str(), 1200)));
			else V.viol("ret-false", ph, "protocol call of an honest party returned false although at most t parties deviate", J().kv("party", (long long)i).kv("qual", setstr(s.qual)).kv("log_tail", shorten(P[i]->err[ph].str(), 1500)));
			all_ok = false;
		}
	}
	if (!all_ok) return;
	V.reached = true;
	const Snap &s0 = P[H[0]]->snap[ph];
	// 1. agreement on QUAL, honest subset of QUAL
	for (size_t i : H) {
		const Snap &s = P[i]->snap[ph]; V.evals++;
		if (s.qual != s0.qual) V.viol("qual-disagree", ph, "honest parties hold different QUAL", J().kv("party_a", (long long)H[0]).kv("qual_a", setstr(s0.qual)).kv("party_b", (long long)i).kv("qual_b", setstr(s.qual)));
		if (s.vqual != s0.vqual) V.viol("qual-disagree", ph, "honest parties hold different share-verification sets", J().kv("party_a", (long long)H[0]).kv("vqual_a", setstr(s0.vqual)).kv("party_b", (long long)i).kv("vqual_b", setstr(s.vqual)));
		for (size_t j : H) if (std::find(s.qual.begin(), s.qual.end(), j) == s.qual.end()) V.viol("honest-not-in-qual", ph, "an honest party is missing from QUAL", J().kv("at_party", (long long)i).kv("missing", (long long)j).kv("qual", setstr(s.qual)));
	}
	// 2. agreement on y
	if (s0.has_y) for (size_t i : H) { V.evals++; if (P[i]->snap[ph].y != s0.y) V.viol("y-disagree", ph, "honest parties hold different public keys y", J().kv("party_a", (long long)H[0]).kv("y_a", s0.y.dec()).kv("party_b", (long long)i).kv("y_b", P[i]->snap[ph].y.dec())); }
	// 3. Feldman verification keys: equal, and g^{x_i} = v_i
	if (!s0.vkey.empty()) {
		for (size_t i : H) {
			const Snap &s = P[i]->snap[ph];
			for (size_t j : s0.qual) { V.evals++; if (j < s.vkey.size() && j < s0.vkey.size() && s.vkey[j] != s0.vkey[j]) V.viol("vkey-disagree", ph, "honest parties hold different verification keys v_j", J().kv("j", (long long)j).kv("party_a", (long long)H[0]).kv("party_b", (long long)i)); }
			Z gx; gpow(gx, G, s.x); V.evals++;
			if (i >= s.vkey.size() || gx != s.vkey[i]) V.viol("share-vs-vkey", ph, "g^{x_i} differs from the public verification key v_i", J().kv("party", (long long)i).kv("x_i", s.x.dec()).kv("g^x_i", gx.dec()).kv("v_i", i < s.vkey.size() ? s.vkey[i].dec() : std::string("-")));
		}
	}
	// 4. Pedersen commitments: equal over vqual, and g^{x_i} h^{x'_i} = prod_{j in vqual} prod_k C_jk^{i^k}
	bool commits_ok = true;
	for (size_t i : H) {
		const Snap &s = P[i]->snap[ph];
		for (size_t j : s0.vqual) {
			V.evals++;
			if (j >= s.C.size() || j >= s0.C.size() || s.C[j].size() != s0.C[j].size()) { commits_ok = false; V.viol("commit-disagree", ph, "commitment vector missing or of different length", J().kv("j", (long long)j).kv("party_b", (long long)i)); continue; }
			for (size_t k = 0; k < s.C[j].size(); k++) if (s.C[j][k] != s0.C[j][k]) { commits_ok = false; V.viol("commit-disagree", ph, "honest parties hold different commitments C_jk", J().kv("j", (long long)j).kv("k", (long long)k).kv("party_a", (long long)H[0]).kv("party_b", (long long)i)); }
		}
	}
	if (commits_ok) for (size_t i : H) {
		const Snap &s = P[i]->snap[ph];
		Z lhs, rhs(1UL), e; ped(lhs, G, s.x, s.xp);
		for (size_t j : s.vqual) { commit_eval(e, s.C[j], i, G.p); mpz_mul(rhs.v, rhs.v, e.v); mpz_mod(rhs.v, rhs.v, G.p.v); }
		V.evals++;
		if (lhs != rhs) V.viol("share-vs-commit", ph, "g^{x_i} h^{x'_i} differs from the product of the commitments evaluated at i", J().kv("party", (long long)i).kv("x_i", s.x.dec()).kv("xprime_i", s.xp.dec()).kv("vqual", setstr(s.vqual)));
	}
	// 5. every (deg+1)-subset of honest shares interpolates to the same secret
	if (H.size() >= deg + 1) {
		std::vector<std::vector<size_t>> subs; subsets(H.size(), deg + 1, subs);
		bool first = true; Z x0, xp0; bool agree = true;
		for (auto &sel : subs) {
			std::vector<size_t> idx; std::vector<const Z *> vx, vxp;
			for (size_t a : sel) { idx.push_back(H[a]); vx.push_back(&P[H[a]]->snap[ph].x); vxp.push_back(&P[H[a]]->snap[ph].xp); }
			Z x, xp; lagrange0(x, idx, vx, G.q); lagrange0(xp, idx, vxp, G.q);
			V.subsets++; V.evals++;
			if (first) { x0 = x; xp0 = xp; first = false; }
			else if (x != x0 || xp != xp0) { agree = false; V.viol("interp-disagree", ph, "two (deg+1)-subsets of honest shares interpolate to different secrets", J().kv("subset", setstr(idx)).kv("x", x.dec()).kv("x_first", x0.dec()).kv("xprime_equal", xp == xp0)); break; }
		}
		if (agree) {
			R.have_x = true; R.x = x0; R.xp = xp0;
			if (s0.has_y) { Z gx; gpow(gx, G, x0); V.evals++; if (gx != s0.y) V.viol("interp-vs-y", ph, "the interpolated secret x does not satisfy g^x = y", J().kv("x", x0.dec()).kv("g^x", gx.dec()).kv("y", s0.y.dec()).kv("qual", setstr(s0.qual)).kv("vqual", setstr(s0.vqual))); }
			if (commits_ok) {
				Z lhs, rhs(1UL); ped(lhs, G, x0, xp0);
				for (size_t j : s0.vqual) { mpz_mul(rhs.v, rhs.v, s0.C[j][0].v); mpz_mod(rhs.v, rhs.v, G.p.v); }
				V.evals++;
				if (lhs != rhs) V.viol("interp-vs-commit", ph, "g^x h^{x'} of the interpolated secret differs from the product of the C_j0", J().kv("x", x0.dec()).kv("vqual", setstr(s0.vqual)));
			}
			if (zero_secret) { V.evals++; if (mpz_sgn(x0.v) != 0 || mpz_sgn(xp0.v) != 0) V.viol("secret-mismatch", ph, "zero sharing interpolates to a non-zero value", J().kv("x", x0.dec()).kv("xprime", xp0.dec())); }
			// all contributors honest: the secret is the sum of their contributions
			bool all_honest = true; for (size_t j : s0.vqual) if (sc.faulty(j) || !P[j]->snap[ph].has_secret) all_honest = false;
			if (all_honest && !s0.vqual.empty()) {
				Z sum; for (size_t j : s0.vqual) { mpz_add(sum.v, sum.v, P[j]->snap[ph].secret.v); mpz_mod(sum.v, sum.v, G.q.v); }
				V.evals++;
				if (sum != x0) V.viol("secret-mismatch", ph, "the interpolated secret is not the sum of the qualified parties' contributions", J().kv("x", x0.dec()).kv("sum_z", sum.dec()));
			}
		}
	}
}

static void check_pvss(Verdicts &V, const Group &G, std::vector<Party *> &P) {
	const Scen &sc = V.sc; size_t n = sc.n, t = sc.t, d = sc.dealer; bool dealer_honest = !sc.faulty(d);
	std::vector<size_t> H, Rcv; for (size_t i = 0; i < n; i++) if (!sc.faulty(i)) { H.push_back(i); if (i != d) Rcv.push_back(i); }
	for (size_t i : H) { Snap &s = P[i]->snap[0]; if (s.threw) { V.viol("exception", 0, "honest party's Share threw " + s.exc, J().kv("party", (long long)i)); return; } if (!s.called) return; }
	if (Rcv.empty()) return;
	if (scan_timeouts(V, P, 0)) return;
	// verdict on the dealer: equal at all honest receivers
	bool v0 = P[Rcv[0]]->snap[0].ret;
	for (size_t i : Rcv) { V.evals++; if (P[i]->snap[0].ret != v0) { V.viol("dealer-verdict-disagree", 0, "honest receivers disagree whether the dealer is qualified", J().kv("party_a", (long long)Rcv[0]).kv("ret_a", v0).kv("party_b", (long long)i).kv("ret_b", P[i]->snap[0].ret)); return; } }
	V.reached = true;
	if (dealer_honest) {
		V.evals++;
		if (!P[d]->snap[0].ret) V.viol("ret-false", 0, "honest dealer's Share returned false although at most t parties deviate", J().kv("party", (long long)d).kv("log_tail", shorten(P[d]->err[0].str(), 1500)));
		if (!v0) { V.viol("honest-not-in-qual", 0, "honest dealer was disqualified by the honest receivers", J().kv("dealer", (long long)d).kv("log_tail", shorten(P[Rcv[0]]->err[0].str(), 1500))); return; }
	}
	if (!v0) { count("pvss_dealer_disqualified"); return; }
	if (scan_timeouts(V, P, 1)) return;
	// qualified dealer: commitments equal, every honest share satisfies them
	std::vector<size_t> S = dealer_honest ? H : Rcv;
	const Snap &s0 = P[S[0]]->snap[0]; bool commits_ok = true;
	for (size_t i : S) {
		const Snap &s = P[i]->snap[0]; V.evals++;
		if (s.C[0].size() != s0.C[0].size()) { commits_ok = false; V.viol("commit-disagree", 0, "commitment vectors of different length", J().kv("party_b", (long long)i)); continue; }
		for (size_t k = 0; k < s.C[0].size(); k++) if (s.C[0][k] != s0.C[0][k]) { commits_ok = false; V.viol("commit-disagree", 0, "honest parties hold different commitments A_k", J().kv("k", (long long)k).kv("party_a", (long long)S[0]).kv("party_b", (long long)i)); }
	}
	if (commits_ok) for (size_t i : S) {
		const Snap &s = P[i]->snap[0]; Z lhs, rhs; ped(lhs, G, s.x, s.xp); commit_eval(rhs, s.C[0], i, G.p); V.evals++;
		if (lhs != rhs) V.viol("share-vs-commit", 0, "g^{sigma_i} h^{tau_i} differs from the dealer's commitments evaluated at i (dealer qualified)", J().kv("party", (long long)i).kv("sigma_i", s.x.dec()).kv("tau_i", s.xp.dec()).kv("dealer_faulty", !dealer_honest));
	}
	bool have = false; Z x0, xp0;
	if (S.size() >= t + 1) {
		std::vector<std::vector<size_t>> subs; subsets(S.size(), t + 1, subs); bool first = true, agree = true;
		for (auto &sel : subs) {
			std::vector<size_t> idx; std::vector<const Z *> vx, vxp;
			for (size_t a : sel) { idx.push_back(S[a]); vx.push_back(&P[S[a]]->snap[0].x); vxp.push_back(&P[S[a]]->snap[0].xp); }
			Z x, xp; lagrange0(x, idx, vx, G.q); lagrange0(xp, idx, vxp, G.q); V.subsets++; V.evals++;
			if (first) { x0 = x; xp0 = xp; first = false; }
			else if (x != x0 || xp != xp0) { agree = false; V.viol("interp-disagree", 0, "two (t+1)-subsets of honest shares interpolate to different secrets", J().kv("subset", setstr(idx)).kv("x", x.dec()).kv("x_first", x0.dec())); break; }
		}
		if (agree) {
			have = true;
			if (commits_ok) { Z lhs; ped(lhs, G, x0, xp0); V.evals++; if (lhs != s0.C[0][0]) V.viol("interp-vs-commit", 0, "g^x h^{x'} of the interpolated secret differs from A_0", J().kv("x", x0.dec())); }
			if (dealer_honest) { V.evals++; if (x0 != P[d]->snap[0].secret) V.viol("secret-mismatch", 0, "honest shares do not interpolate to the dealer's secret", J().kv("x", x0.dec()).kv("sigma", P[d]->snap[0].secret.dec())); }
		}
	}
	// reconstruction returns that secret at every honest party
	bool recon_seen = false;
	for (size_t i : H) {
		Snap &r = P[i]->snap[1];
		if (r.threw) { V.viol("exception", 1, "honest party's Reconstruct threw " + r.exc, J().kv("party", (long long)i)); continue; }
		if (!r.recon_called) continue;
		recon_seen = true; V.evals++;
		if (!r.recon_ret) { V.viol("reconstruct", 1, "Reconstruct returned false at an honest party for a qualified dealer", J().kv("party", (long long)i).kv("log_tail", shorten(P[i]->err[1].str(), 1500))); continue; }
		if (i == d) continue;   // the dealer's call only serves the others
		if (have && r.recon != x0) V.viol("reconstruct", 1, "Reconstruct returned a value different from the interpolation of the honest shares", J().kv("party", (long long)i).kv("returned", r.recon.dec()).kv("interpolated", x0.dec()));
		if (dealer_honest && r.recon != P[d]->snap[0].secret) V.viol("reconstruct", 1, "Reconstruct did not return the dealer's secret", J().kv("party", (long long)i).kv("returned", r.recon.dec()).kv("sigma", P[d]->snap[0].secret.dec()));
	}
	if (recon_seen) count("pvss_reconstruct_checked");
}

// ------------------------------------------------------------------ scenario lists
static size_t bcasts_in_phase(int proto, size_t t, size_t tp, int ph, bool dealer) {
	switch (proto) {
	case P_PVSS: return ph ? 2 : (dealer ? t + 1 : 1);
	case P_GJKR: return 2 * t + 5;
	case P_RVSS: case P_ZVSS: return tp + 3;
	case P_JLRVSS: return t + 3;
	case P_CDKG: return ph ? t + 3 : 2 * t + 15;
	}
	return 1;
}

// a deviation script of the given kind for faulty party f (parameters drawn from r)
static Dev make_dev(int kind, const Scen &sc, size_t f, Rng &r) {
	Dev d; d.kind = kind; size_t n = sc.n, t = sc.t;
	std::vector<size_t> honest; for (size_t i = 0; i < n; i++) if (!sc.faulty(i)) honest.push_back(i);
	int np = nphases(sc.proto);
	bool dealer = (sc.proto == P_PVSS && f == sc.dealer);
	switch (kind) {
	case D_BUILTIN: d.phase = -1; break;
	case D_WRONG_SHARE: {
		d.phase = (sc.proto == P_CDKG) ? (int)r.below(2) : 0;
		d.victim = honest[r.below(honest.size())];
		long nmsg = (sc.proto == P_CDKG && d.phase == 0) ? 4 : 2;   // s, s' (x then d sharing)
		d.k = (long)r.below((uint64_t)nmsg); break; }
	case D_FALSE_COMPLAINT: {
		d.phase = (sc.proto == P_CDKG) ? (int)r.below(2) : 0;
		d.victim = (sc.proto == P_PVSS) ? sc.dealer : honest[r.below(honest.size())];
		long nend = (sc.proto == P_CDKG && d.phase == 0) ? 5 : (sc.proto == P_PVSS ? 1 : (sc.proto == P_GJKR ? 3 : 2));
		// the first end marker closes the complaint list of the (first) sharing: that is the plain false complaint;
		// later markers close reveal lists / later complaint lists (malformed or late accusations)
		d.k = (r.below(3) != 0) ? 1 : 1 + (long)r.below((uint64_t)nend);
		d.k2 = (r.below(3) == 0) ? 2 : 1;      // sometimes the complaint is sent twice
		break; }
	case D_SILENT: {
		d.phase = (np == 2) ? (int)r.below(2) : 0; if (d.phase == 1) d.phase = 1;
		size_t B = bcasts_in_phase(sc.proto, t, sc.tp, d.phase, dealer);
		d.k = (long)r.below((uint64_t)B); if (d.phase == 0 && r.below(4) == 0) d.k = 0; break; }
	case D_BAD_REVEAL: {
		// wrong first share to one honest recipient, and a wrong value again when the share is published
		d.phase = (sc.proto == P_CDKG) ? (int)r.below(2) : 0;
		d.victim = honest[r.below(honest.size())];
		// PedersenVSS dealer: commitments, who, sigma -> broadcast t+3; joint protocols: the share is the second
		// broadcast after the party's first end marker (own complaints may precede the marker)
		d.k = (sc.proto == P_PVSS) ? (long)t + 3 : -2; break; }
	case D_UNANSWERED: {
		d.phase = (sc.proto == P_CDKG) ? (int)r.below(2) : 0;
		d.victim = honest[r.below(honest.size())]; break; }
	case D_SHIFT: d.phase = (sc.proto == P_CDKG) ? 1 : 0; break;
	case D_BC_ALTER: {
		d.phase = (np == 2) ? (int)r.below(2) : 0;
		if (sc.proto == P_PVSS && !dealer) d.phase = 1;   // receivers: a wrong share during reconstruction
		size_t B = bcasts_in_phase(sc.proto, t, sc.tp, d.phase, dealer);
		d.k = 1 + (long)r.below((uint64_t)B); break; }
	}
	return d;
}

static std::vector<int> kinds_for(int proto, bool dealer) {
	if (proto == P_PVSS) return dealer ? std::vector<int>{D_BUILTIN, D_WRONG_SHARE, D_SILENT, D_BC_ALTER, D_BAD_REVEAL} : std::vector<int>{D_BUILTIN, D_FALSE_COMPLAINT, D_SILENT, D_BC_ALTER};
	if (proto == P_ZVSS || proto == P_CDKG) return {D_BUILTIN, D_WRONG_SHARE, D_FALSE_COMPLAINT, D_SILENT, D_BC_ALTER, D_BAD_REVEAL, D_SHIFT, D_UNANSWERED};
	return {D_BUILTIN, D_WRONG_SHARE, D_FALSE_COMPLAINT, D_SILENT, D_BC_ALTER, D_BAD_REVEAL, D_UNANSWERED};
}

static void set_net(Scen &sc, int mode, Rng &r) {   // 0 plain, 1 delays, 2 pre-emption, 3 both
	sc.dmax = (mode & 1) ? 1 + (long)r.below(3) : 0;
	sc.preempt = (mode & 2) ? 0.05 + 0.05 * (double)r.below(6) : 0.0;
}

static void build_list(std::vector<Scen> &L) {
	Rng r = setup_rng(0xc15); bool quick = ctx.quick();
	long only_proto = ctx.option_l("proto", -1);
	auto add = [&](Scen sc) { sc.sseed = r.next() >> 8; if (only_proto < 0 || only_proto == sc.proto) L.push_back(sc); };
	auto base = [&](int p, size_t n, size_t t) { Scen sc; sc.proto = p; sc.n = n; sc.t = t; sc.tp = t; if (p == P_PVSS) { sc.dealer = r.below(n); sc.sigma_kind = (r.below(3) == 0) ? 1 + (int)r.below(3) : 0; } return sc; };
	for (int p = 0; p < P_COUNT; p++) {
		// ---- honest-only runs (plain / delays / pre-emption / both)
		std::vector<std::pair<size_t, size_t>> nts;
		if (quick) {
			nts = {{2, 0}, {3, 1}, {4, 1}, {5, 2}, {5, 1}};
			size_t big = 6 + r.below(2); nts.push_back({big, big == 6 ? 2 : (p == P_CDKG ? 2 : 3)});
		} else for (size_t n = 2; n <= 7; n++) for (size_t t = 0; 2 * t < n; t++) nts.push_back({n, t});
		int mode0 = (int)r.below(4);
		for (size_t a = 0; a < nts.size(); a++) {
			int reps = quick ? 1 : (nts[a].first <= 5 ? 12 : 6);
			for (int rep = 0; rep < reps; rep++) { Scen sc = base(p, nts[a].first, nts[a].second); set_net(sc, (mode0 + (int)a + rep) % 4, r); add(sc); }
		}
		if (p == P_RVSS || p == P_ZVSS) {   // polynomial degree t' above the complaint threshold t (Joint-RVSS(t,n,t'))
			Scen sc = base(p, 5, 1); sc.tp = 2; set_net(sc, (int)r.below(4), r); add(sc);
			if (!quick) { Scen s2 = base(p, 7, 2); s2.tp = 4; set_net(s2, (int)r.below(4), r); add(s2); Scen s3 = base(p, 7, 1); s3.tp = 3; s3.F = {r.below(7)}; s3.devs = {make_dev(D_BUILTIN, s3, s3.F[0], r)}; add(s3); }
		}
		// ---- every faulty set of size 1 for n = 4, 5 (t = 1): deviation kinds rotate
		size_t rot = r.below(16);
		for (size_t n = 4; n <= 5; n++) for (size_t f = 0; f < n; f++) {
			std::vector<size_t> dealers = {0};
			if (p == P_PVSS) dealers = {f, (f + 1 + r.below(n - 1)) % n};     // faulty dealer / faulty receiver
			for (size_t dl : dealers) {
				bool isdealer = (p == P_PVSS && dl == f);
				std::vector<int> ks = kinds_for(p, isdealer);
				std::vector<int> use;
				if (quick) use = {ks[(rot++) % ks.size()]}; else use = ks;
				for (int kind : use) {
					int reps = quick ? 1 : (kind == D_BUILTIN ? 12 : 6);
					for (int rep = 0; rep < reps; rep++) { Scen sc = base(p, n, 1); sc.dealer = dl; sc.F = {f}; sc.devs = {make_dev(kind, sc, f, r)}; add(sc); }
				}
			}
		}
		// ---- targeted scripts for every protocol: plain false complaint in the first complaint list, the same
		//      complaint sent twice, wrong first share to one recipient, wrong share that is also published wrongly
		for (int v = 0; v < 4; v++) {
			size_t n = 4 + (size_t)(v & 1); Scen sc = base(p, n, 1); size_t f = r.below(n);
			int kind = v < 2 ? D_FALSE_COMPLAINT : (v == 2 ? D_WRONG_SHARE : D_BAD_REVEAL);
			if (p == P_PVSS) sc.dealer = (v < 2) ? (f + 1 + r.below(n - 1)) % n : f;
			sc.F = {f}; Dev d = make_dev(kind, sc, f, r); d.phase = 0;
			if (v < 2) { d.k = 1; d.k2 = 1 + v; } else if (v == 2) d.k = 0;
			sc.devs = {d}; add(sc);
		}
		if (p != P_PVSS) {   // a complaint that the accused dealer leaves unanswered
			Scen sc = base(p, 4 + r.below(2), 1); size_t f = r.below(sc.n); sc.F = {f}; Dev d = make_dev(D_UNANSWERED, sc, f, r); d.phase = 0; sc.devs = {d}; add(sc);
		}
		if (p == P_ZVSS || p == P_CDKG) {   // zero sharing with a coherently shifted polynomial (constant term 1)
			Scen sc = base(p, 4, 1); size_t f = r.below(4); sc.F = {f}; sc.devs = {make_dev(D_SHIFT, sc, f, r)}; add(sc);
		}
		if (p == P_PVSS) {   // a wrong share broadcast during reconstruction by the first party every other party reads from
			Scen sc = base(p, 4, 1); sc.dealer = 3; sc.F = {0}; Dev d; d.kind = D_BC_ALTER; d.phase = 1; d.k = 1; sc.devs = {d}; add(sc);
		}
		// ---- the library's own switches take random branches: a few more draws
		for (int rep = 0; rep < (quick ? 3 : 24); rep++) {
			size_t n = 4 + r.below(2); Scen sc = base(p, n, 1); size_t f = r.below(n); if (p == P_PVSS && rep % 2 == 0) sc.dealer = f;
			sc.F = {f}; sc.devs = {make_dev(D_BUILTIN, sc, f, r)}; add(sc);
		}
		// ---- n = 6, 7: sampled faulty sets (sizes 1..t)
		int big_runs = quick ? 1 : 36;
		for (int rep = 0; rep < big_runs; rep++) {
			size_t n = (quick || rep % 3) ? 7 : 6, t = (n == 7) ? (rep % 4 == 3 ? 1 : 2) : 1;
			Scen sc = base(p, n, t); size_t nf = (quick || rep % 2 == 0) ? t : 1 + r.below(t);
			while (sc.F.size() < nf) { size_t f = r.below(n); if (!sc.faulty(f)) sc.F.push_back(f); }
			std::sort(sc.F.begin(), sc.F.end());
			if (p == P_PVSS && r.below(2)) sc.dealer = sc.F[0];
			for (size_t f : sc.F) { std::vector<int> ks = kinds_for(p, p == P_PVSS && f == sc.dealer); sc.devs.push_back(make_dev(ks[r.below(ks.size())], sc, f, r)); }
			add(sc);
		}
		// ---- thorough: default-size group for n = 3, and two deviating parties inside n = 7, t = 2 with equal scripts
		if (!quick) {
			for (int rep = 0; rep < 2; rep++) { Scen sc = base(p, 3, rep); sc.grp = 1; set_net(sc, rep, r); add(sc); }
			for (int kind = D_BUILTIN; kind < D_KINDS; kind++) {
				Scen sc = base(p, 7, 2); sc.F = {r.below(3), 3 + r.below(4)}; if (p == P_PVSS) sc.dealer = (kind % 2) ? sc.F[0] : (sc.F[0] + 1) % 3;
				for (size_t f : sc.F) { std::vector<int> ks = kinds_for(p, p == P_PVSS && f == sc.dealer); int kk = std::find(ks.begin(), ks.end(), kind) != ks.end() ? kind : ks[0]; sc.devs.push_back(make_dev(kk, sc, f, r)); }
				add(sc);
			}
		}
	}
	// ---- thresholds n/3 <= t < n/2 with deviating parties (appended after everything else: earlier case numbers are stable).
	//      The broadcast runs with floor((n-1)/3), at most that many parties deviate.  Reconstruction paths then interpolate
	//      from t+1 >= 3 (n = 5) resp. 4 (n = 7) points, which no t < n/3 scenario with n <= 7 reaches.
	for (int p = 0; p < P_COUNT; p++) {
		struct NT { size_t n, t; }; std::vector<NT> hs = {{5, 2}, {7, 3}, {6, 2}};
		for (size_t a = 0; a < hs.size(); a++) {
			size_t n = hs[a].n, t = hs[a].t, trbc = (n - 1) / 3;
			if (p == P_CDKG && 2 * t + 1 > n) continue;
			{ Scen sc = base(p, n, t); sc.trbc = trbc; set_net(sc, (int)r.below(4), r); add(sc); }   // all honest: must complete now
			// (i) a party that takes part in the sharing and then fails: silent after its sharing-phase broadcasts
			//     (joint protocols: t'+1 commitments + two end markers), (ii) one altered broadcast after them,
			//     (iii) rotating kinds, (iv) two deviating parties where the broadcast tolerates them
			int reps = quick ? 1 : 6;
			for (int rep = 0; rep < reps; rep++) for (int v = 0; v < 4; v++) {
				if (quick && a == 2 && v >= 2) continue;
				Scen sc = base(p, n, t); sc.trbc = trbc;
				size_t nf = (v == 3 && trbc >= 2) ? 2 : 1; if (v == 3 && trbc < 2 && quick) continue;
				while (sc.F.size() < nf) { size_t f = r.below(n); if (!sc.faulty(f)) sc.F.push_back(f); }
				std::sort(sc.F.begin(), sc.F.end());
				if (p == P_PVSS) sc.dealer = (v % 2) ? sc.F[0] : (sc.F[0] + 1) % n;
				for (size_t f : sc.F) {
					bool isdealer = (p == P_PVSS && f == sc.dealer);
					std::vector<int> ks = kinds_for(p, isdealer);
					Dev d;
					if (v == 0 && p != P_PVSS) { d = make_dev(D_SILENT, sc, f, r); d.phase = 0; d.k = (long)t + 3; }
					else if (v == 1 && p != P_PVSS) { d = make_dev(D_BC_ALTER, sc, f, r); d.phase = 0; d.k = (long)t + 4 + (long)r.below((uint64_t)t + 1); }
					else d = make_dev(ks[r.below(ks.size())], sc, f, r);
					sc.devs.push_back(d);
				}
				add(sc);
			}
		}
	}
	// ---- CGJKR DKG: Refresh through the index-mapped overload on a re-numbered network (appended last)
	if (only_proto < 0 || only_proto == P_CDKG) {
		int reps = quick ? 1 : 4;
		for (int rep = 0; rep < reps; rep++) for (size_t n = 4; n <= 5; n++) {
			{ Scen sc = base(P_CDKG, n, 1); sc.maprot = 1 + r.below(n - 1); set_net(sc, (int)r.below(4), r); add(sc); }
			for (int kind : {D_FALSE_COMPLAINT, D_WRONG_SHARE, D_BAD_REVEAL, D_BC_ALTER, D_SILENT, D_UNANSWERED, D_BUILTIN}) {
				if (quick && n == 5 && (kind == D_BC_ALTER || kind == D_SILENT || kind == D_BUILTIN)) continue;
				Scen sc = base(P_CDKG, n, 1); sc.maprot = 1 + r.below(n - 1); size_t f = r.below(n); sc.F = {f};
				Dev d = make_dev(kind, sc, f, r); if (kind != D_BUILTIN) d.phase = 1;
				if (kind == D_FALSE_COMPLAINT) { d.k = 1; d.k2 = 1; }
				sc.devs = {d}; add(sc);
			}
		}
	}
}

// ------------------------------------------------------------------ one case
static bool has(const std::string &s, const char *pat) { return s.find(pat) != std::string::npos; }

static void run_case(long k, const Scen &sc) {
	const Group &G = group(sc.grp);
	g_vtime = 1600000000L;
	Verdicts V(sc, k);
	long vdur = 0; unsigned long parks = 0; bool hung = false;
	std::vector<Party *> P;
	uint64_t sent_uni = 0, sent_bc = 0, switches = 0, mute_drops = 0; int fired_devs = 0;
	{
		World W(sc.n, sc.sseed ^ (ctx.seed * 0x9e3779b97f4a7c15ULL));
		W.dmax = sc.dmax; W.uni.preempt_p = sc.preempt; W.bc.preempt_p = sc.preempt;
		for (size_t i = 0; i < sc.n; i++) { Party *p = new Party; p->i = i; P.push_back(p); }
		for (size_t i = 0; i < sc.n; i++) { Party *p = P[i]; W.sched.spawn([&W, &sc, &G, p, k]() { party_main(W, sc, G, *p, k); }, ctx.seed | 1, (uint64_t)k * 1000003ULL + sc.sseed); }
		auto dump_rbc = [&W, &P, &sc]() {
				for (auto p : P) { if (!p->rbc) continue; RBC *r = p->rbc;
					fprintf(stderr, "[watch v=%ld] P%zu ID=%s deliver_buf=%zu:", g_vtime - 1600000000L, p->i, mpz_b62(r->ID).substr(0, 6).c_str(), r->deliver_buf.size());
					for (auto &m : r->deliver_buf) fprintf(stderr, " (%s,%lu,%lu)", mpz_b62(m[0]).substr(0, 6).c_str(), mpz_get_ui(m[1]), mpz_get_ui(m[2]));
					for (size_t j = 0; j < sc.n; j++) { fprintf(stderr, " | buf[%zu]:", j); for (auto id : r->buf_id[j]) fprintf(stderr, " %s", mpz_b62(id).substr(0, 6).c_str()); fprintf(stderr, " ds=%lu", mpz_get_ui(r->deliver_s[j])); }
					fprintf(stderr, "\n");
					for (size_t snd = 0; snd < sc.n; snd++) for (unsigned long sq = 1; sq <= 3; sq++) {
						Z a(r->ID), b((unsigned long)snd), c(sq); RBC_ConstMessage mm; mm.push_back(a.v); mm.push_back(b.v); mm.push_back(c.v); mm.push_back(c.v); mm.push_back(c.v);
						std::string tag; r->TagMessage(tag, mm);
						size_t ne = 0, nr = 0, ns = 0; for (size_t l = 0; l < sc.n; l++) { ne += r->echo[l].count(tag); nr += r->ready[l].count(tag); ns += r->send[l].count(tag); }
						if (mpz_cmp_ui(r->deliver_s[snd], sq) <= 0) fprintf(stderr, "      P%zu tag(%zu,%lu): send=%zu echo=%zu ready=%zu mbar=%zu dbar=%zu awaited=%zu\n", p->i, snd, sq, ns, ne, nr, r->mbar.count(tag), r->dbar.count(tag), r->awaited.count(tag));
					}
					for (size_t from = 0; from < sc.n; from++) if (!W.bc.q[from][p->i].empty()) fprintf(stderr, "      link %zu->%zu queued=%zu avail=%zu\n", from, p->i, W.bc.q[from][p->i].size(), W.bc.avail(from, p->i));
					for (size_t from = 0; from < sc.n; from++) if (!W.uni.q[from][p->i].empty()) fprintf(stderr, "      private link %zu->%zu queued=%zu\n", from, p->i, W.uni.q[from][p->i].size());
				}
		};
		if (ctx.option_l("probe", -1) >= 0) { W.probe = dump_rbc; W.probe_at = g_vtime + ctx.option_l("probe", 0); }   // debugging aid, no effect on the schedule
		if (ctx.option("watch") == "1") W.sched.spawn([&W, &sc, dump_rbc]() {   // debugging aid: dump the broadcast state every 5 virtual seconds (perturbs the schedule)
			for (int round = 0; round < 400; round++) {
				bool alldone = true; for (size_t i = 0; i < sc.n; i++) if (W.sched.tasks[i]->st != Task::DONE) alldone = false;
				if (alldone) break;
				dump_rbc();
				W.sched.wait([]() { return false; }, g_vtime + 5);
			}
		}, ctx.seed | 1, 0x77);
		long t0 = g_vtime;
		W.sched.run();
		vdur = g_vtime - t0; hung = W.sched.hung;
		for (auto t : W.sched.tasks) { parks += t->spin_parks; if (t->threw_other) V.viol("exception", 0, "non-standard exception escaped a party task", J().kv("party", t->id)); }
		sent_uni = W.uni.sent; sent_bc = W.bc.sent; switches = W.sched.switches; mute_drops = W.dropped_mute;
		for (auto p : P) if ((p->aiou && p->aiou->fired) || (p->aiou2 && p->aiou2->fired) || (p->maiou && p->maiou->fired) || (p->maiou2 && p->maiou2->fired)) fired_devs++;
		// endpoints reference the nets: release the parties' channel objects before the world goes away
		if (hung) V.viol("hang", 0, "all parties blocked without a deadline", J().kv("vtime", vdur));
		else {
			// -------- oracle
			if (sc.proto == P_PVSS) check_pvss(V, G, P);
			else {
				size_t deg = (sc.proto == P_RVSS || sc.proto == P_ZVSS) ? sc.tp : sc.t;
				JointResult R0; check_joint(V, G, P, 0, deg, sc.proto == P_ZVSS, R0);
				if (sc.proto == P_CDKG && V.reached && V.fired == 0) {
					Verdicts V1(sc, k); JointResult R1; check_joint(V1, G, P, 1, deg, false, R1);
					V.fired += V1.fired; V.evals += V1.evals; V.subsets += V1.subsets;
					if (V1.reached && R0.have_x && R1.have_x) {
						count("refresh_checked");
						V.evals += 3;
						if (R1.x != R0.x) V.viol("refresh-secret-changed", 1, "the interpolated secret changed during Refresh", J().kv("x_before", R0.x.dec()).kv("x_after", R1.x.dec()));
						bool changed = false;
						for (size_t i : R0.H) { if (P[i]->snap[1].y != P[i]->snap[0].y) V.viol("refresh-y-changed", 1, "the public key changed during Refresh", J().kv("party", (long long)i)); if (P[i]->snap[1].x != P[i]->snap[0].x) changed = true; }
						if (changed) count("refresh_changed_shares");
						else if (sc.t == 0) count("refresh_t0_zero_polynomial");   // degree-0 zero sharing is the zero polynomial: nothing can change
						else V.viol("refresh-shares-unchanged", 1, "no honest share changed during Refresh", J().kv("honest", setstr(R0.H)));
					}
				}
			}
		}
		for (auto p : P) { delete p->rbc; p->rbc = nullptr; delete p->aiou; p->aiou = nullptr; delete p->aiou2; p->aiou2 = nullptr;
			delete p->mrbc; p->mrbc = nullptr; delete p->maiou; p->maiou = nullptr; delete p->maiou2; p->maiou2 = nullptr; }
	}
	// -------- evidence
	std::string cell = std::string(PNAME[sc.proto]) + ".n" + std::to_string(sc.n) + ".t" + std::to_string(sc.t) + ".f" + std::to_string(sc.F.size());
	count("run." + cell);
	count("runs"); count("subsets_interpolated", V.subsets); count("virtual_seconds", vdur); count("busy_wait_parks", (long long)parks);
	count("msgs_private", (long long)sent_uni); count("msgs_broadcast_layer", (long long)sent_bc); count("task_switches", (long long)switches);
	count("muted_messages_dropped", (long long)mute_drops);
	if (sc.dmax) count("net.delays"); if (sc.preempt > 0) count("net.preemption"); if (!sc.dmax && sc.preempt == 0) count("net.plain");
	if (sc.grp) count("group.default_size");
	if (sc.tp != sc.t) count("rvss_tprime_above_t");
	for (auto &d : sc.devs) count(std::string("dev.") + PNAME[sc.proto] + "." + dev_name(d.kind));
	count("dev_fired_parties", fired_devs);
	if (V.reached) {
		count(std::string("oracle.") + PNAME[sc.proto] + (sc.F.empty() ? ".honest" : sc.F.size() == 1 ? ".faulty1" : ".faulty2plus"));
		// protocol paths seen in the honest parties' logs
		bool adj = false, rec = false, compl_ = false, disq = false;
		for (auto p : P) if (!sc.faulty(p->i)) for (int ph = 0; ph < 2; ph++) {
			const std::string s = p->err[ph].str();
			if (has(s, "adjusted")) adj = true;
			if (has(s, "reconstructed z_") || has(s, "reconstructing parties")) rec = true;
			if (has(s, "receiving complaint against")) compl_ = true;
			if (p->snap[ph].called && sc.proto != P_PVSS && p->snap[ph].qual.size() < sc.n) disq = true;
		}
		if (adj) count("path.share_adjusted"); if (rec) count("path.public_reconstruction"); if (compl_) count("path.complaint_received"); if (disq) count("path.party_disqualified");
		if (rec && sc.proto == P_GJKR) count("path.gjkr_reconstruct");
	}
	if (ctx.option("dumplog") == "1") for (auto p : P) for (int ph = 0; ph < nphases(sc.proto); ph++)
		fprintf(stderr, "---- party %zu%s phase %d ret=%d called=%d v=[%ld..%ld]\n%s", p->i, sc.faulty(p->i) ? " (FAULTY)" : "", ph, (int)p->snap[ph].ret, (int)p->snap[ph].called, p->snap[ph].vstart - 1600000000L, p->snap[ph].vend - 1600000000L, p->err[ph].str().c_str());
	std::string sample = J().raw("scenario", sc.json()).kv("reached_oracle", V.reached).kv("oracle_evaluations", V.evals).kv("subsets", V.subsets).kv("virtual_seconds", vdur).kv("busy_wait_parks", (unsigned long long)parks).kv("broadcast_layer_msgs", (unsigned long long)sent_bc).kv("qual", P.empty() ? std::string("") : setstr(P[sc.faulty(0) ? (sc.faulty(1) ? 2 : 1) : 0]->snap[0].qual)).str();
	for (auto p : P) delete p;
	case_end(sc.json(), V.reached, sample, V.evals > 0 ? V.evals : 1, 1);
}

int main(int argc, char **argv) {
	init(argc, argv);
	if (ctx.option("cerr") != "1") null_cerr();
	if (!init_libTMCG()) { fprintf(stderr, "init_libTMCG failed\n"); return 2; }
	std::vector<Scen> L; build_list(L);
	if (ctx.option("list") == "1") { for (size_t k = 0; k < L.size(); k++) printf("%zu %s\n", k, L[k].json().c_str()); return 0; }
	group(0);
	bool timing = ctx.option("timing") == "1";
	for (long k = 0; k < (long)L.size(); k++) {
		if (!case_begin(k, L[k].json())) continue;
		struct timespec a, b; clock_gettime(CLOCK_MONOTONIC, &a);
		run_case(k, L[k]);
		clock_gettime(CLOCK_MONOTONIC, &b);
		if (timing) fprintf(stderr, "[timing] case %ld %.3f s %s\n", k, (b.tv_sec - a.tv_sec) + 1e-9 * (b.tv_nsec - a.tv_nsec), L[k].json().c_str());
	}
	finish();
	return 0;
}
