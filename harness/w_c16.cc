// w_c16.cc — C16: threshold signatures verify under the jointly generated key.
//
// SimNet runs (DESIGN 2.4) of
//   GennaroJareckiKrawczykRabinNTS::Generate / Sign                 (threshold Schnorr)
//   CanettiGennaroJareckiKrawczykRabinDSS::Generate / Refresh / Sign (threshold DSS)
// with n parties as cooperative tasks (two SimUnicast per party, the reliable broadcast
// on the second one, phase barrier with service after every protocol call).
// The harness judges nothing about signatures itself: every party output is written as a
// record and the independent Python checker (ref/c16_ref.py via props/c16.py:post) applies
// the textbook equations.  Verifier exactness: a range-boundary catalogue around textbook
// signatures made by the harness with a known secret key; the library verdict is recorded
// and compared with the reference verdict offline.
//
// Case kinds:  "run"  one scenario (scheme,n,t,faulty set,fault mode,rep) = one SimNet run
//                     with several signing phases;   "vp"  verifier probes on one group.
// Options (development / triage):  --opt scen=dss:7:2:0[,1]  --opt fmode=lib|script
//   --opt cut=<idx>|none  --opt keygen_faulty=0|1  --opt reps=N  --opt logdir=DIR  --opt to=SECONDS
#include "engine.hh"
#include <algorithm>
#include <fstream>
#include <memory>
#include <set>

using namespace vf;

static const unsigned long FS = 512, GS = 160;

// The reliable broadcast reports a DeliverFrom that ran into its time-out on std::cerr
// ("RBC(i): timeout delivering from j").  The harness owns std::cerr and counts these lines per
// (running party, j): a time-out between two honest parties means that the synchronous broadcast the
// DKG/DSS protocols are built on was not provided in that run (marker for triage, never a verdict).
struct CerrWatch : public std::streambuf {
	std::function<void(int, const std::string &)> on_line;   // (task id or -1, line)
	static std::string &line() { static thread_local std::string l; return l; }
	int overflow(int c) override {
		if (c == EOF) return 0;
		if (c == '\n') { if (on_line) on_line(tl_task ? tl_task->id : -1, line()); line().clear(); }
		else if (line().size() < 4096) line().push_back((char)c);
		return c;
	}
	std::streamsize xsputn(const char *p, std::streamsize n) override { for (std::streamsize i = 0; i < n; i++) overflow((unsigned char)p[i]); return n; }
};
static CerrWatch *g_cerr = nullptr;
static void install_cerr_watch() { g_cerr = new CerrWatch; std::cerr.rdbuf(g_cerr); std::clog.rdbuf(g_cerr); }

struct Grp {
	mpz_t p, q, g, h;
	Grp() { mpz_init(p); mpz_init(q); mpz_init(g); mpz_init(h); }
	~Grp() { mpz_clear(p); mpz_clear(q); mpz_clear(g); mpz_clear(h); }
};

static void make_group(Grp &G, Rng &r, unsigned long fs = FS, unsigned long gs = GS) {
	Rng *prev = tl_rng; tl_rng = &r;
	BarnettSmartVTMF_dlog *v = new BarnettSmartVTMF_dlog(fs, gs, true, true);
	v->KeyGenerationProtocol_GenerateKey();      // h := g^x for a random x (second generator)
	mpz_set(G.p, v->p); mpz_set(G.q, v->q); mpz_set(G.g, v->g); mpz_set(G.h, v->h);
	delete v;
	tl_rng = prev;
}

static void emit_group(const Grp &G) {
	record(J().kv("k", "grp").kz("p", G.p).kz("q", G.q).kz("g", G.g).kz("h", G.h).str());
	// test vectors of the library hash so that the offline checker can tell a broken reference
	// (or a changed library hash) from a broken signature
	mpz_t a, b, r; mpz_init_set_ui(a, 255); mpz_init_set_si(b, -4096); mpz_init(r);
	tmcg_mpz_shash(r, 2, a, b);
	std::string h1 = mpz_dec(r);
	tmcg_mpz_shash(r, 2, G.p, G.q);
	record(J().kv("k", "hv").kv("h_255_m4096", h1).kz("h_p_q", r).str());
	mpz_clear(a); mpz_clear(b); mpz_clear(r);
}

// message catalogue {0, 1, q-1, q, random 256-bit, random below q}
// (threshold DSS signs hash values already cut to the length of q: DSS::Sign raises the fixed-base
//  table g^m, h^m with the unreduced m and ends with std::runtime_error for longer values, see notes)
static const char *MSG_NAME[6] = {"0", "1", "q-1", "q", "rand256", "randq"};
static void make_msg(mpz_ptr m, int idx, const Grp &G, Rng &r) {
	switch (idx) {
	case 0: mpz_set_ui(m, 0); break;
	case 1: mpz_set_ui(m, 1); break;
	case 2: mpz_sub_ui(m, G.q, 1); break;
	case 3: mpz_set(m, G.q); break;
	case 4: r.mpz_bits(m, 256); mpz_setbit(m, 255); break;
	default: r.mpz_below(m, G.q); break;
	}
}
static int dss_msg(int k) { k %= 5; return k == 4 ? 5 : k; }

enum { NTS = 0, DSS = 1 };
static const char *SCHEME[2] = {"nts", "dss"};
// fault modes of the designated faulty parties:
//   lib     the library's simulate_faulty_behaviour switch with the library's own coins
//   script  the same switch, top-level coins of DSS::Sign scripted (drop-out point chosen by the harness)
//   share   honest code on a corrupted key share (x_i resp. z_i off by one after key generation): the only
//           deviation that reliably reaches the checks of the second half of Sign (the switch's nested
//           coins end a faulty run early with probability > 0.999, see notes)
//   bcalter honest code, but the payload of the party's k-th own reliable broadcast inside the (single) signing phase is
//           altered (+1, the same for every recipient): "a signer that sends one wrong value at step X" for every X,
//           enumerated by k — the fault positions the library's own switch practically never reaches (steps 1d-2f)
enum { FM_NONE = 0, FM_LIB = 1, FM_SCRIPT = 2, FM_SHARE = 3, FM_BCALT = 4 };
static const char *FMODE[5] = {"none", "lib", "script", "share", "bcalter"};

struct Scenario {
	int scheme = NTS; size_t n = 3, t = 1; std::vector<size_t> faulty; int fmode = FM_NONE;
	int keygen_faulty = -1;   // -1: decided by the case rng; 0/1 forced
	int cut = -2;             // scripted mode: -2 rng, -1 never drops out, >=0 randomizer index of the drop-out
	int rep = 0;
	long alter_k = 0;         // bcalter: 1-based index of the own broadcast of the signing phase whose payload is altered
	int alter_mode = 0;       // bcalter: 0 = payload + 1 (a wrong value), 1 = payload - q (the same residue, negative representative)
	bool bigmsg = false;      // DSS: key generation + one signature on a 256-bit message (expected: refusal)
	double preempt = 0.0;     // probability of a task switch after a Send
	std::string desc() const {
		J d; d.kv("kind", "run").kv("scheme", SCHEME[scheme]).kv("n", (long long)n).kv("thr", (long long)t).arrn("faulty", faulty).kv("fmode", FMODE[fmode]).kv("rep", rep);
		if (fmode == FM_BCALT) { d.kv("alter_k", (long long)alter_k); if (alter_mode) d.kv("alter", "minus-q"); }
		if (bigmsg) d.kv("bigmsg", true);
		if (preempt > 0) d.kv("preempt", preempt);
		return d.str();
	}
};

enum PhaseKind { PH_GEN, PH_SIGN, PH_REFRESH, PH_RSIGN };
struct Phase { PhaseKind kind; int msg; const char *label; };

struct Out { bool called = false, ret = false, lv = false; std::string a, s, y, share, exc; std::vector<size_t> qual; int erased = 0, hbt = 0; std::string hbt_from; };

// positions in CanettiGennaroJareckiKrawczykRabinDSS::Sign's simulate_faulty_randomizer[] that
// make the faulty party drop out (throw false); the others corrupt one broadcast value
static const int DSS_DROP[] = {0, 1, 2, 3, 6, 8, 9, 12, 13, 14, 17, 19, 20, 23};
static const int N_DSS_DROP = sizeof(DSS_DROP) / sizeof(DSS_DROP[0]);

struct RunStats { bool hung = false; long vdur = 0; unsigned long spin_parks = 0; uint64_t uni_sent = 0, bc_sent = 0, switches = 0; };

struct Run {
	Scenario sc; const Grp *G; long kcase; time_t TO;
	std::vector<Phase> phases;
	std::vector<std::vector<Out>> out;       // [phase][party]
	std::vector<std::string> msgs;           // decimal message per phase
	std::vector<bool> isfaulty, dead, inset;
	std::vector<size_t> subset;              // reduced signer set (DKG indices, sorted)
	bool kf = false; int cut = -1; std::vector<std::vector<int>> script;   // [phase] scripted top-level coins of DSS::Sign
	std::vector<std::string> logs;
	RunStats st;
	size_t stop_after = (size_t)-1;          // phases after this index are skipped (key generation failed)
	std::vector<long> cur_phase;             // [party] phase it is in (-1: barrier / none)
	std::vector<bool> in_reduced;            // [party] running on the reduced channel set
	size_t t_rbc = 0, t_rbc_r = 0;
	std::vector<long> bc_in_sign;            // [party] own broadcasts during the signing phase (bcalter)
	bool alter_fired = false;
};

// broadcast-layer endpoint of a party that alters the payload of its k-th own broadcast while `enabled`
// (own broadcast = r-send tuple (ID, j, s, 1, payload) with j = owner; a new (ID, s) pair is a new broadcast)
class AlterUnicast : public SimUnicast {
public:
	bool enabled = false, fired = false, have_last = false, repl = false; long k = 0, nb = 0; int mode = 0; mpz_srcptr qq = nullptr;
	mpz_t last_id, last_s, repl_val;
	AlterUnicast(size_t n_, size_t j_, Net *nt, size_t sched, time_t to) : SimUnicast(n_, j_, nt, sched, to) { mpz_init(last_id); mpz_init(last_s); mpz_init(repl_val); }
	~AlterUnicast() { mpz_clear(last_id); mpz_clear(last_s); mpz_clear(repl_val); }
	bool Send(mpz_srcptr m, const size_t i, time_t to) override { return SimUnicast::Send(m, i, to); }
	bool Send(const std::vector<mpz_srcptr> &m, const size_t i, time_t to) override {
		if (m.size() == 5 && mpz_cmp_ui(m[3], 1UL) == 0 && mpz_cmp_ui(m[1], (unsigned long)j) == 0) {
			bool first = !(have_last && mpz_cmp(m[0], last_id) == 0 && mpz_cmp(m[2], last_s) == 0);
			if (first) {
				have_last = true; mpz_set(last_id, m[0]); mpz_set(last_s, m[2]); repl = false;
				if (enabled) { nb++; if (nb == k && !fired) { fired = true; repl = true; if (mode == 1 && qq) mpz_sub(repl_val, m[4], qq); else mpz_add_ui(repl_val, m[4], 1UL); } }
			}
			if (repl) { std::vector<mpz_srcptr> mm(m); mm[4] = repl_val; return SimUnicast::Send(mm, i, to); }
		}
		return SimUnicast::Send(m, i, to);
	}
};

static bool all_honest_true(const Run &R, size_t ph, bool members_only = false) {
	bool any = false;
	for (size_t i = 0; i < R.sc.n; i++) {
		if (R.isfaulty[i]) continue;
		if (members_only && !R.inset[i]) continue;
		if (!R.out[ph][i].called) return false;
		any = true;
		if (!R.out[ph][i].ret) return false;
	}
	return any;
}

static void run_scenario(Run &R) {
	const Scenario &sc = R.sc; const Grp &G = *R.G; size_t n = sc.n, t = sc.t;
	Rng cr = case_rng(R.kcase, 7);
	R.isfaulty.assign(n, false); for (size_t f : sc.faulty) R.isfaulty[f] = true;
	R.dead.assign(n, false); R.inset.assign(n, false); R.bc_in_sign.assign(n, 0);
	R.logs.assign(n, "");
	// phases and messages
	int m0 = (int)((R.kcase + sc.rep) % 5);
	if (sc.fmode == FM_BCALT) {
		R.phases.push_back({PH_GEN, -1, "gen"});
		R.phases.push_back({PH_SIGN, sc.scheme == NTS ? m0 : dss_msg(m0), "fresh"});
	} else if (sc.scheme == NTS) {
		R.phases.push_back({PH_GEN, -1, "gen"});
		for (int k = 0; k < 5; k++) R.phases.push_back({PH_SIGN, (m0 + k) % 5, "fresh"});
	} else if (sc.bigmsg) {
		R.phases.push_back({PH_GEN, -1, "gen"});
		R.phases.push_back({PH_SIGN, 4, "fresh"});
	} else {
		R.phases.push_back({PH_GEN, -1, "gen"});
		R.phases.push_back({PH_SIGN, dss_msg(m0), "fresh"});
		R.phases.push_back({PH_REFRESH, -1, "refresh"});
		R.phases.push_back({PH_SIGN, dss_msg(m0 + 1 + (int)cr.below(4)), "refreshed"});
		// reduced signer set of size n-1 where the API allows it (n_in >= 2t+1); the broadcast among
		// the n-1 members tolerates t_r = floor((n-2)/3) faults, so a deviating party is a member
		// only if that is >= 1 (otherwise the set consists of honest parties only)
		if (n - 1 >= 2 * t + 1) {
			size_t nr = n - 1, tr = std::min(t, (nr - 1) / 3);
			std::vector<size_t> cand_out;         // who may be left out
			for (size_t i = 0; i < n; i++) { if (tr < 1 && !sc.faulty.empty()) { if (R.isfaulty[i]) cand_out.push_back(i); } else cand_out.push_back(i); }
			if (!cand_out.empty() && (sc.faulty.size() <= 1 || tr >= sc.faulty.size())) {
				size_t leave = cand_out[cr.below(cand_out.size())];
				for (size_t i = 0; i < n; i++) if (i != leave) { R.subset.push_back(i); R.inset[i] = true; }
				R.phases.push_back({PH_RSIGN, dss_msg(m0 + 2), "reduced"});
			}
		}
	}
	R.out.assign(R.phases.size(), std::vector<Out>(n));
	R.msgs.assign(R.phases.size(), "");
	std::vector<std::unique_ptr<__mpz_struct, void (*)(mpz_ptr)>> M;
	for (size_t ph = 0; ph < R.phases.size(); ph++) {
		mpz_ptr m = new mpz_t(); mpz_init(m);
		M.emplace_back(m, [](mpz_ptr x) { mpz_clear(x); delete[] x; });
		if (R.phases[ph].msg >= 0) { make_msg(m, R.phases[ph].msg, G, cr); R.msgs[ph] = mpz_dec(m); }
	}
	// fault profile
	R.kf = sc.keygen_faulty >= 0 ? (sc.keygen_faulty == 1) : cr.coin();
	if (sc.fmode == FM_SCRIPT && sc.scheme == DSS) {
		R.cut = sc.cut;
		if (R.cut == -2) { uint64_t c = cr.below(N_DSS_DROP + 6); R.cut = c < (uint64_t)N_DSS_DROP ? DSS_DROP[c] : -1; }
		R.script.assign(R.phases.size(), std::vector<int>());
		for (size_t ph = 0; ph < R.phases.size(); ph++) {
			if (R.phases[ph].kind != PH_SIGN && R.phases[ph].kind != PH_RSIGN) continue;
			// the drop-out point is fixed per scenario, the value corruptions are drawn per signing phase
			R.script[ph].assign(50, 0);
			for (int i = 0; i < 50; i++) { bool drop = false; for (int d : DSS_DROP) if (d == i) drop = true; R.script[ph][i] = drop ? (i == R.cut) : (int)cr.coin(); }
		}
	}

	Sched sched(ctx.seed * 1000003ULL + (uint64_t)R.kcase);
	sched.use_vclock = true; sched.random_pick = true;
	size_t nr = R.subset.size();
	size_t tr = nr ? std::min(t, (nr - 1) / 3) : 0;
	// the broadcast is configured inside its own resilience bound (3 t_rbc < n), as a deployment would
	size_t t_rbc = std::min(t, (n - 1) / 3);
	R.t_rbc = t_rbc; R.t_rbc_r = tr;
	R.cur_phase.assign(n, -1); R.in_reduced.assign(n, false);
	if (g_cerr) g_cerr->on_line = [&R, n](int task, const std::string &l) {
		if (task < 0 || (size_t)task >= n) return;
		unsigned long a = 0, b = 0;
		if (sscanf(l.c_str(), "RBC(%lu): timeout delivering from %lu", &a, &b) != 2) return;
		size_t from = b; if (R.in_reduced[task]) { if (b >= R.subset.size()) return; from = R.subset[b]; }
		long ph = R.cur_phase[task]; if (ph < 0 || from >= n) return;
		if (!R.isfaulty[task] && !R.isfaulty[from]) { Out &o = R.out[ph][task]; o.hbt++; if (o.hbt_from.size() < 40) o.hbt_from += std::to_string(from) + ","; }
	};
	Net uni(n, &sched), bc(n, &sched), uni_r(nr ? nr : 1, &sched), bc_r(nr ? nr : 1, &sched);
	uni.preempt_p = bc.preempt_p = uni_r.preempt_p = bc_r.preempt_p = sc.preempt;
	Barrier bar(n), bar_r(n);
	std::vector<bool> skip_r(n, false); for (size_t i = 0; i < n; i++) skip_r[i] = !R.inset[i];
	std::map<size_t, size_t> idx2dkg, dkg2idx; for (size_t k = 0; k < nr; k++) { idx2dkg[k] = R.subset[k]; dkg2idx[R.subset[k]] = k; }
	long t_start = g_vtime;
	// development aid: trace of the broadcast layer (5-tuples ID,j,s,action,payload per link)
	std::vector<std::string> trace; std::map<std::pair<size_t, size_t>, std::vector<std::string>> part;
	if (!ctx.option("trace").empty()) bc.on_send = [&](size_t from, size_t to, mpz_srcptr v, long at) {
		auto &pv = part[{from, to}]; std::string d = mpz_dec(v); pv.push_back(d.size() > 8 ? d.substr(d.size() - 8) : d);
		if (pv.size() == 5) { trace.push_back("t=" + std::to_string(at - t_start) + " " + std::to_string(from) + "->" + std::to_string(to) + " ID=" + pv[0] + " j=" + pv[1] + " s=" + pv[2] + " act=" + pv[3] + " m=" + pv[4] + " by=" + std::to_string(tl_task ? tl_task->id : -1)); pv.clear(); }
	};
	const size_t RR = aiounicast::aio_scheduler_roundrobin;
	bool keep_logs = !ctx.option("logdir").empty();

	for (size_t i = 0; i < n; i++) {
		sched.spawn([&, i]() {
			std::stringstream err;
			try {
				SimUnicast aiou(n, i, &uni, RR, R.TO); AlterUnicast aiou2(n, i, &bc, RR, R.TO);
				if (R.isfaulty[i] && sc.fmode == FM_BCALT) { aiou2.k = sc.alter_k; aiou2.mode = sc.alter_mode; aiou2.qq = G.q; }
				CachinKursawePetzoldShoupRBC rbc(n, t_rbc, i, &aiou2, RR, R.TO);
				rbc.setID("c16-simnet");
				std::unique_ptr<SimUnicast> raiou, raiou2; std::unique_ptr<CachinKursawePetzoldShoupRBC> rrbc;
				size_t ri = 0;
				if (nr && R.inset[i]) {
					ri = dkg2idx[i];
					raiou.reset(new SimUnicast(nr, ri, &uni_r, RR, R.TO)); raiou2.reset(new SimUnicast(nr, ri, &bc_r, RR, R.TO));
					rrbc.reset(new CachinKursawePetzoldShoupRBC(nr, tr, ri, raiou2.get(), RR, R.TO));
					rrbc->setID("c16-simnet-reduced");
				}
				std::unique_ptr<GennaroJareckiKrawczykRabinNTS> nts; std::unique_ptr<CanettiGennaroJareckiKrawczykRabinDSS> dss;
				if (sc.scheme == NTS) nts.reset(new GennaroJareckiKrawczykRabinNTS(n, t, i, G.p, G.q, G.g, G.h, FS, GS, true, false));
				else dss.reset(new CanettiGennaroJareckiKrawczykRabinDSS(n, t, i, G.p, G.q, G.g, G.h, FS, GS, true, false));
				bool corrupt_share = R.isfaulty[i] && sc.fmode == FM_SHARE;
				bool fl = R.isfaulty[i] && sc.fmode != FM_SHARE && sc.fmode != FM_BCALT;
				mpz_t a, s; mpz_init(a); mpz_init(s);
				struct Clr { mpz_ptr a, s; ~Clr() { mpz_clear(a); mpz_clear(s); } } clr{a, s};
				for (size_t ph = 0; ph < R.phases.size(); ph++) {
					if (ph > R.stop_after) break;
					const Phase &P = R.phases[ph]; Out &o = R.out[ph][i]; mpz_ptr m = M[ph].get();
					err << "=== phase " << ph << " " << P.label << " vtime=" << (g_vtime - t_start) << std::endl;
					std::streamoff log_from = (std::streamoff)err.tellp();
					R.cur_phase[i] = (long)ph; R.in_reduced[i] = (P.kind == PH_RSIGN);
					auto state = [&]() {
						if (nts) { o.y = mpz_dec(nts->y); o.share = mpz_dec(nts->z_i); o.qual = nts->QUAL; }
						else { o.y = mpz_dec(dss->y); o.share = mpz_dec(dss->x_i); o.qual = dss->QUAL; }
					};
					switch (P.kind) {
					case PH_GEN:
						o.called = true;
						o.ret = nts ? nts->Generate(&aiou, &rbc, err, fl && R.kf) : dss->Generate(&aiou, &rbc, err, fl && R.kf);
						if (corrupt_share) {
							if (nts) { mpz_add_ui(nts->z_i, nts->z_i, 1L); mpz_mod(nts->z_i, nts->z_i, G.q); }
							else {   // both copies: Refresh recomputes the DSS copy from the one inside the DKG object
								mpz_add_ui(dss->x_i, dss->x_i, 1L); mpz_mod(dss->x_i, dss->x_i, G.q);
								mpz_add_ui(dss->dkg->x_i, dss->dkg->x_i, 1L); mpz_mod(dss->dkg->x_i, dss->dkg->x_i, G.q);
							}
						}
						state();
						break;
					case PH_REFRESH:
						o.called = true;
						o.ret = dss->Refresh(n, i, &aiou, &rbc, err, fl && R.kf);
						state();
						break;
					case PH_SIGN: {
						o.called = true; mpz_set_ui(a, 0); mpz_set_ui(s, 0);
						if (fl && !R.script.empty()) { tl_task->rng.script = R.script[ph]; tl_task->rng.script_pos = 0; tl_task->rng.scripted = true; }
						aiou2.enabled = true; aiou2.nb = 0;
						o.ret = nts ? nts->Sign(m, a, s, &aiou, &rbc, err, fl) : dss->Sign(n, i, m, a, s, &aiou, &rbc, err, fl);
						aiou2.enabled = false; R.bc_in_sign[i] = aiou2.nb; if (aiou2.fired) R.alter_fired = true;
						tl_task->rng.scripted = false;
						o.a = mpz_dec(a); o.s = mpz_dec(s); state();
						if (o.ret) o.lv = nts ? nts->Verify(m, a, s) : dss->Verify(m, a, s);
						break; }
					case PH_RSIGN:
						if (R.inset[i]) {
							o.called = true; mpz_set_ui(a, 0); mpz_set_ui(s, 0);
							if (fl && !R.script.empty()) { tl_task->rng.script = R.script[ph]; tl_task->rng.script_pos = 0; tl_task->rng.scripted = true; }
							o.ret = dss->Sign(nr, ri, m, a, s, idx2dkg, dkg2idx, raiou.get(), rrbc.get(), err, fl);
							tl_task->rng.scripted = false;
							o.a = mpz_dec(a); o.s = mpz_dec(s); state();
							if (o.ret) o.lv = dss->Verify(m, a, s);
							bar_r.arrive_and_serve(i, rrbc.get(), &skip_r);
						}
						break;
					}
					R.cur_phase[i] = -1; R.in_reduced[i] = false;
					if (o.called) {
						// observability for triage: the library logs when DL-Key-Gen drops a party from QUAL after
						// the Joint-RVSS that fixed the shares (see notes/c16.md, finding DKG-erased)
						std::string part = err.str().substr((size_t)log_from); size_t pos = 0;
						while ((pos = part.find("party erased from QUAL", pos)) != std::string::npos) { o.erased++; pos += 10; }
					}
					err << "=== phase " << ph << " returned " << o.ret << " vtime=" << (g_vtime - t_start) << std::endl;
					bar.arrive_and_serve(i, &rbc, &R.dead);
					// every party sees the same outputs after the barrier: signing makes no sense
					// without a key at every honest party
					if ((P.kind == PH_GEN || P.kind == PH_REFRESH) && !all_honest_true(R, ph)) R.stop_after = ph;
				}
			} catch (std::exception &e) {
				// a standard exception out of a protocol call: the party is gone (the others go on)
				for (auto &po : R.out) if (po[i].called && po[i].exc.empty() && !po[i].ret) { po[i].exc = e.what(); }
				R.logs[i] += std::string("EXCEPTION ") + e.what() + "\n";
				R.dead[i] = true; skip_r[i] = true;
			}
			if (keep_logs) R.logs[i] += err.str();
			R.dead[i] = true; skip_r[i] = true;
		}, ctx.seed, (uint64_t)R.kcase * 64 + 1);
	}
	sched.run();
	if (g_cerr) g_cerr->on_line = nullptr;
	if (!trace.empty()) { std::ofstream f(ctx.option("logdir", ".") + "/trace" + std::to_string(R.kcase) + ".txt"); for (auto &l : trace) f << l << "\n"; }
	R.st.hung = sched.hung; R.st.vdur = g_vtime - t_start; R.st.uni_sent = uni.sent + uni_r.sent; R.st.bc_sent = bc.sent + bc_r.sent; R.st.switches = sched.switches;
	for (auto tk : sched.tasks) {
		R.st.spin_parks += tk->spin_parks;
		if (tk->threw_other) violation(std::string("C16/") + SCHEME[sc.scheme] + "/non-standard-exception", "a protocol call let a non-standard exception escape", sc.desc());
		if (tk->threw_std) R.logs[tk->id] += "TASK-EXCEPTION " + tk->exc + "\n";
	}
}

static std::string jarr(const std::vector<size_t> &v) { std::string s = "["; for (size_t i = 0; i < v.size(); i++) { if (i) s += ","; s += std::to_string(v[i]); } return s + "]"; }

static void do_run_case(long k, const Scenario &sc) {
	Rng gr = case_rng(k, 1);
	Grp G; make_group(G, gr);
	emit_group(G);
	Run R; R.sc = sc; R.G = &G; R.kcase = k; R.TO = (time_t)ctx.option_l("to", aiounicast::aio_timeout_short);
	run_scenario(R);
	const char *S = SCHEME[sc.scheme];
	std::string pre = std::string(S) + "_";
	bool anyf = !sc.faulty.empty();
	long long evals = 0, distinct = 0; std::string sample;
	if (R.st.hung) {
		violation(std::string("C16/") + S + "/hung", "every party blocked without a deadline", sc.desc());
		count(pre + "hung_runs");
	}
	record(J().kv("k", "run").kv("scheme", S).kv("n", (long long)sc.n).kv("thr", (long long)sc.t).arrn("faulty", sc.faulty).kv("fmode", FMODE[sc.fmode])
	       .kv("keygen_faulty", R.kf).kv("cut", R.cut).arrn("subset", R.subset).kv("hung", R.st.hung).kv("vdur", R.st.vdur).kv("spin_parks", R.st.spin_parks)
	       .kv("uni_sent", (unsigned long long)R.st.uni_sent).kv("bc_sent", (unsigned long long)R.st.bc_sent).kv("switches", (unsigned long long)R.st.switches).kv("t_rbc", (long long)R.t_rbc).kv("t_rbc_reduced", (long long)R.t_rbc_r).str());
	for (size_t ph = 0; ph < R.phases.size(); ph++) {
		const Phase &P = R.phases[ph];
		bool sign = (P.kind == PH_SIGN || P.kind == PH_RSIGN);
		bool reached = false; size_t htrue = 0, hcalled = 0;
		for (size_t i = 0; i < sc.n; i++) {
			const Out &o = R.out[ph][i]; if (!o.called) continue;
			reached = true;
			if (!R.isfaulty[i]) { hcalled++; if (o.ret) htrue++; }
			J j; j.kv("k", sign ? "sig" : "key").kv("scheme", S).kv("n", (long long)sc.n).kv("thr", (long long)sc.t).arrn("faulty", sc.faulty).kv("fmode", FMODE[sc.fmode])
			    .kv("ph", (long long)ph).kv("phase", P.label).kv("party", (long long)i).kv("honest", !R.isfaulty[i]).kv("ret", o.ret).kv("y", o.y).kv("share", o.share).raw("qual", jarr(o.qual)).kv("erased", o.erased).kv("hbt", o.hbt).kv("hbt_from", o.hbt_from);
			if (sign) { j.kv("m", R.msgs[ph]).kv("mname", MSG_NAME[P.msg]).kv("a", o.a).kv("s", o.s).kv("lv", o.lv); if (P.kind == PH_RSIGN) j.arrn("subset", R.subset); }
			if (!o.exc.empty()) j.kv("exc", o.exc);
			record(j.str());
		}
		if (!reached) { count(pre + "phases_skipped"); continue; }
		bool complete = hcalled > 0 && htrue == hcalled;
		if (sign) {
			std::string ph_pre = pre + "sign_" + P.label;
			count(pre + "signing_runs");
			if (complete) {
				count(pre + "completed_signing_runs"); count(ph_pre + "_completed"); count(pre + "msg_" + MSG_NAME[P.msg] + "_completed");
				count(pre + "n" + std::to_string(sc.n) + "_t" + std::to_string(sc.t) + "_completed");
				if (anyf) { count(pre + "completed_with_faulty_signer"); count(pre + "completed_fmode_" + FMODE[sc.fmode]); if (sc.faulty.size() > 1) count(pre + "completed_with_two_or_more_faulty"); }
				evals += (long long)htrue; distinct++;
				if (sample.empty()) sample = J().kv("scheme", S).kv("n", (long long)sc.n).kv("thr", (long long)sc.t).arrn("faulty", sc.faulty).kv("fmode", FMODE[sc.fmode]).kv("phase", P.label).kv("m", shorten(R.msgs[ph], 40)).kv("honest_outputs_true", (long long)htrue).kv("virtual_seconds", R.st.vdur).str();
			} else if (htrue > 0) { count(pre + "partially_completed_signing_runs"); evals += (long long)htrue; distinct++; }
			else { count(anyf ? pre + "sign_failed_under_faults" : pre + "sign_failed_all_honest"); }
		} else {
			count(pre + (P.kind == PH_GEN ? "keygen_runs" : "refresh_runs"));
			if (complete) count(pre + (P.kind == PH_GEN ? "keygen_completed" : "refresh_completed"));
			else count(pre + (P.kind == PH_GEN ? "keygen_failed" : "refresh_failed") + (anyf ? "_under_faults" : "_all_honest"));
		}
	}
	count(pre + "runs"); count("simnet_spin_parks", (long long)R.st.spin_parks); count("simnet_broadcast_layer_messages", (long long)R.st.bc_sent); count("simnet_unicast_messages", (long long)R.st.uni_sent);
	if (sc.fmode == FM_SCRIPT) count(pre + "scripted_cut_" + (R.cut < 0 ? std::string("never") : std::to_string(R.cut)));
	if (sc.fmode == FM_BCALT) {
		count(pre + (R.alter_fired ? "bcalter_fired" : "bcalter_beyond_last_broadcast"));
		long mx = 0; for (size_t i = 0; i < sc.n; i++) if (!R.isfaulty[i]) mx = std::max(mx, R.bc_in_sign[i]);
		count(pre + "bcalter_sign_broadcasts_per_honest_party_n" + std::to_string(sc.n) + "=" + std::to_string(mx));
	}
	std::string ld = ctx.option("logdir");
	if (!ld.empty()) for (size_t i = 0; i < sc.n; i++) { std::ofstream f(ld + "/case" + std::to_string(k) + "_P" + std::to_string(i) + ".log"); f << R.logs[i]; }
	case_end(sc.desc(), evals > 0, sample, evals, distinct);
}

// ------------------------------------------------------------------ verifier probes
struct Probe { std::string mut; mpz_t m, a, s; };
static void do_vp_case(long k, int scheme, int gi) {
	Rng gr = case_rng(k, 1), r = case_rng(k, 2);
	Grp G; make_group(G, gr);
	emit_group(G);
	tl_rng = &r;
	mpz_t x, y, kk, a, s, m, t1, t2, m2, a2, s2; mpz_init(x); mpz_init(y); mpz_init(kk); mpz_init(a); mpz_init(s); mpz_init(m); mpz_init(t1); mpz_init(t2); mpz_init(m2); mpz_init(a2); mpz_init(s2);
	r.mpz_below(x, G.q); if (!mpz_sgn(x)) mpz_set_ui(x, 1);
	mpz_powm(y, G.g, x, G.p);
	std::unique_ptr<GennaroJareckiKrawczykRabinNTS> nts; std::unique_ptr<CanettiGennaroJareckiKrawczykRabinDSS> dss;
	if (scheme == NTS) { nts.reset(new GennaroJareckiKrawczykRabinNTS(3, 1, 0, G.p, G.q, G.g, G.h, FS, GS, true, false)); mpz_set(nts->y, y); }
	else { dss.reset(new CanettiGennaroJareckiKrawczykRabinDSS(3, 1, 0, G.p, G.q, G.g, G.h, FS, GS, true, false)); mpz_set(dss->y, y); }
	const char *S = SCHEME[scheme];
	long long probes = 0; std::set<std::string> classes; std::string sample;
	auto sign = [&](mpz_ptr A, mpz_ptr Sg, mpz_srcptr msg) {
		for (;;) {
			r.mpz_below(kk, G.q); if (!mpz_sgn(kk)) continue;
			if (scheme == NTS) {   // r = g^k, c = H(m, r), s = k + c x mod q
				mpz_powm(t1, G.g, kk, G.p); tmcg_mpz_shash(A, 2, msg, t1);
				mpz_mul(Sg, A, x); mpz_add(Sg, Sg, kk); mpz_mod(Sg, Sg, G.q); return;
			} else {               // r = (g^{1/k} mod p) mod q, s = k (m + x r) mod q   (the scheme of [CGJKR99]: k inverted in r)
				mpz_invert(t1, kk, G.q); mpz_powm(A, G.g, t1, G.p); mpz_mod(A, A, G.q); if (!mpz_sgn(A)) continue;
				mpz_mul(Sg, x, A); mpz_add(Sg, Sg, msg); mpz_mul(Sg, Sg, kk); mpz_mod(Sg, Sg, G.q); if (!mpz_sgn(Sg)) continue;
				return;
			}
		}
	};
	for (int mi = 0; mi < 6; mi++) {
		make_msg(m, mi, G, r); sign(a, s, m);
		mpz_add_ui(m2, m, 7); sign(a2, s2, m2);          // a valid signature on another message
		std::vector<std::pair<std::string, std::function<void(mpz_ptr, mpz_ptr, mpz_ptr)>>> muts;
		auto add = [&](const char *nm, std::function<void(mpz_ptr, mpz_ptr, mpz_ptr)> f) { muts.push_back({nm, f}); };
		add("identity", [&](mpz_ptr, mpz_ptr, mpz_ptr) {});
		add("s+q", [&](mpz_ptr, mpz_ptr, mpz_ptr S2) { mpz_add(S2, S2, G.q); });
		add("s-q", [&](mpz_ptr, mpz_ptr, mpz_ptr S2) { mpz_sub(S2, S2, G.q); });
		add("s+2q", [&](mpz_ptr, mpz_ptr, mpz_ptr S2) { mpz_addmul_ui(S2, G.q, 2); });
		add("s+q*2^64", [&](mpz_ptr, mpz_ptr, mpz_ptr S2) { mpz_mul_2exp(t1, G.q, 64); mpz_add(S2, S2, t1); });
		add("-s", [&](mpz_ptr, mpz_ptr, mpz_ptr S2) { mpz_neg(S2, S2); });
		add("q-s", [&](mpz_ptr, mpz_ptr, mpz_ptr S2) { mpz_sub(S2, G.q, S2); });
		add("s=0", [&](mpz_ptr, mpz_ptr, mpz_ptr S2) { mpz_set_ui(S2, 0); });
		add("s=1", [&](mpz_ptr, mpz_ptr, mpz_ptr S2) { mpz_set_ui(S2, 1); });
		add("s=q", [&](mpz_ptr, mpz_ptr, mpz_ptr S2) { mpz_set(S2, G.q); });
		add("s=q-1", [&](mpz_ptr, mpz_ptr, mpz_ptr S2) { mpz_sub_ui(S2, G.q, 1); });
		add("s+1", [&](mpz_ptr, mpz_ptr, mpz_ptr S2) { mpz_add_ui(S2, S2, 1); });
		add("s-1", [&](mpz_ptr, mpz_ptr, mpz_ptr S2) { mpz_sub_ui(S2, S2, 1); });
		add("a+q", [&](mpz_ptr, mpz_ptr A2, mpz_ptr) { mpz_add(A2, A2, G.q); });
		add("a-q", [&](mpz_ptr, mpz_ptr A2, mpz_ptr) { mpz_sub(A2, A2, G.q); });
		add("a mod q", [&](mpz_ptr, mpz_ptr A2, mpz_ptr) { mpz_mod(A2, A2, G.q); });
		add("a+p", [&](mpz_ptr, mpz_ptr A2, mpz_ptr) { mpz_add(A2, A2, G.p); });
		add("-a", [&](mpz_ptr, mpz_ptr A2, mpz_ptr) { mpz_neg(A2, A2); });
		add("q-a", [&](mpz_ptr, mpz_ptr A2, mpz_ptr) { mpz_sub(A2, G.q, A2); });
		add("a=0", [&](mpz_ptr, mpz_ptr A2, mpz_ptr) { mpz_set_ui(A2, 0); });
		add("a=q", [&](mpz_ptr, mpz_ptr A2, mpz_ptr) { mpz_set(A2, G.q); });
		add("a=q-1", [&](mpz_ptr, mpz_ptr A2, mpz_ptr) { mpz_sub_ui(A2, G.q, 1); });
		add("a+1", [&](mpz_ptr, mpz_ptr A2, mpz_ptr) { mpz_add_ui(A2, A2, 1); });
		add("a+2^256", [&](mpz_ptr, mpz_ptr A2, mpz_ptr) { mpz_set_ui(t1, 1); mpz_mul_2exp(t1, t1, 256); mpz_add(A2, A2, t1); });
		add("a<->s", [&](mpz_ptr, mpz_ptr A2, mpz_ptr S2) { mpz_swap(A2, S2); });
		add("m+1", [&](mpz_ptr M2, mpz_ptr, mpz_ptr) { mpz_add_ui(M2, M2, 1); });
		add("m+q", [&](mpz_ptr M2, mpz_ptr, mpz_ptr) { mpz_add(M2, M2, G.q); });
		add("other-message-signature", [&](mpz_ptr, mpz_ptr A2, mpz_ptr S2) { mpz_set(A2, a2); mpz_set(S2, s2); });
		add("other-message-signature+own-message", [&](mpz_ptr M2, mpz_ptr A2, mpz_ptr S2) { mpz_set(M2, m2); mpz_set(A2, a2); mpz_set(S2, s2); });
		for (auto &mu : muts) {
			mpz_t pm, pa, ps; mpz_init_set(pm, m); mpz_init_set(pa, a); mpz_init_set(ps, s);
			mu.second(pm, pa, ps);
			std::string exc;
			int lv = accepted([&] { return nts ? nts->Verify(pm, pa, ps) : dss->Verify(pm, pa, ps); }, &exc);
			record(J().kv("k", "vp").kv("scheme", S).kv("mut", mu.first).kv("mname", MSG_NAME[mi]).kz("y", y).kz("m", pm).kz("a", pa).kz("s", ps).kv("lv", lv == 1).str());
			probes++; classes.insert(mu.first + "/" + MSG_NAME[mi]);
			if (sample.empty() && mu.first == "s+q") sample = J().kv("kind", "verifier probe").kv("scheme", S).kv("mutation", mu.first).kv("message", MSG_NAME[mi]).kv("library_verdict", lv == 1).str();
			mpz_clear(pm); mpz_clear(pa); mpz_clear(ps);
		}
	}
	count(std::string(S) + "_verifier_probes", probes);
	tl_rng = nullptr;
	mpz_clear(x); mpz_clear(y); mpz_clear(kk); mpz_clear(a); mpz_clear(s); mpz_clear(m); mpz_clear(t1); mpz_clear(t2); mpz_clear(m2); mpz_clear(a2); mpz_clear(s2);
	case_end(J().kv("kind", "vp").kv("scheme", S).kv("g", gi).str(), probes > 0, sample, probes, (long long)classes.size());
}

// ------------------------------------------------------------------ case list
static void subsets(size_t n, size_t k, std::vector<std::vector<size_t>> &out) {
	std::vector<int> sel(n, 0); for (size_t i = 0; i < k; i++) sel[i] = 1;
	do { std::vector<size_t> s; for (size_t i = 0; i < n; i++) if (sel[i]) s.push_back(i); out.push_back(s); } while (std::prev_permutation(sel.begin(), sel.end()));
}

static std::vector<Scenario> build_cases() {
	std::vector<Scenario> v;
	bool q = ctx.quick();
	Rng sr(ctx.seed, 0xC16, 3);      // sampling of faulty sets for larger n (same in every shard)
	size_t nmax = q ? 5 : 7;
	// drop-out points of the scripted faulty signer, cycled over the scripted scenarios: every other one never
	// drops out (its corrupted values then reach the later checks of Sign), the others leave at a late, middle
	// or early randomizer position
	static const int CUTS[] = {-1, 23, -1, 13, -1, 8, -1, 19, -1, 3, -1, 17, -1, 20, -1, 1, -1, 9, -1, 14, -1, 6, -1, 12, -1, 2, -1, 0};
	size_t ncut = 0;
	for (int scheme = 0; scheme < 2; scheme++) {
		for (size_t n = 3; n <= nmax; n++) for (size_t t = 1; 2 * t < n; t++) {
			// all honest
			int hreps = q ? (n <= 4 ? 2 : 1) : (n <= 5 ? 4 : 2);
			for (int rep = 0; rep < hreps; rep++) { Scenario s; s.scheme = scheme; s.n = n; s.t = t; s.rep = rep; v.push_back(s); }
			// faulty signer sets of size <= t, only where the broadcast tolerates them (3t < n)
			if (3 * t >= n) continue;
			for (size_t fsz = 1; fsz <= t; fsz++) {
				std::vector<std::vector<size_t>> sets; subsets(n, fsz, sets);
				size_t take = sets.size();
				if (n > 5) { take = std::min<size_t>(sets.size(), fsz == 1 ? 3 : 4); for (size_t i = 0; i < take; i++) std::swap(sets[i], sets[i + sr.below(sets.size() - i)]); }
				int freps = q ? 1 : (n <= 5 ? 3 : 1);
				for (size_t si = 0; si < take; si++) for (int rep = 0; rep < freps; rep++) {
					std::vector<int> modes;
					if (scheme == NTS) modes = {FM_LIB};
					else if (q) { if (n == 4) modes = {FM_LIB, FM_SCRIPT}; else modes = {(si + rep) % 2 ? FM_LIB : FM_SCRIPT}; }
					else modes = {FM_LIB, FM_SCRIPT};
					for (int fm : modes) {
						Scenario s; s.scheme = scheme; s.n = n; s.t = t; s.faulty = sets[si]; s.fmode = fm; s.rep = rep;
						if (fm == FM_SCRIPT) s.cut = (q || rep == 0) ? CUTS[ncut++ % (sizeof(CUTS) / sizeof(CUTS[0]))] : -2;
						v.push_back(s);
					}
				}
			}
		}
	}
	// threshold DSS with a message longer than q: recorded (Sign is expected to refuse), see notes
	{ Scenario s; s.scheme = DSS; s.n = 3; s.t = 1; s.bigmsg = true; v.push_back(s); }
	return v;
}

int main(int argc, char **argv) {
	init(argc, argv);
	if (ctx.option("cerr").empty()) install_cerr_watch();
	if (!init_libTMCG()) { fprintf(stderr, "init_libTMCG failed\n"); return 2; }
	long k = 0;
	std::string scen = ctx.option("scen");
	if (!scen.empty()) {
		// development / triage: one scenario, `reps` variations (case k = rep)
		Scenario s; char sch[16] = {0}; unsigned long n = 0, t = 0; char fl[64] = {0};
		int got = sscanf(scen.c_str(), "%15[^:]:%lu:%lu:%63s", sch, &n, &t, fl);
		if (got < 3) { fprintf(stderr, "bad scen\n"); return 2; }
		s.scheme = std::string(sch) == "dss" ? DSS : NTS; s.n = n; s.t = t;
		if (got == 4) { std::stringstream ss(fl); std::string tok; while (std::getline(ss, tok, ',')) if (!tok.empty()) s.faulty.push_back((size_t)atol(tok.c_str())); }
		std::string fm = ctx.option("fmode", s.faulty.empty() ? "none" : "lib");
		s.fmode = fm == "script" ? FM_SCRIPT : (fm == "lib" ? FM_LIB : (fm == "share" ? FM_SHARE : (fm == "bcalter" ? FM_BCALT : FM_NONE)));
		s.alter_k = ctx.option_l("alter_k", 1);
		s.keygen_faulty = (int)ctx.option_l("keygen_faulty", -1);
		std::string cut = ctx.option("cut"); if (!cut.empty()) s.cut = cut == "none" ? -1 : atoi(cut.c_str());
		s.preempt = atof(ctx.option("preempt", "0").c_str()); s.bigmsg = !ctx.option("bigmsg").empty();
		long reps = ctx.option_l("reps", 1);
		for (long r = 0; r < reps; r++) { s.rep = (int)r; if (!case_begin(k++, s.desc())) continue; do_run_case(k - 1, s); }
		finish();
		return 0;
	}
	std::vector<Scenario> cases = build_cases();
	// longest first would be nicer for the wall clock, but case numbers must only depend on the tier
	for (auto &s : cases) { long kk = k++; if (!case_begin(kk, s.desc())) continue; do_run_case(kk, s); }
	int ng = ctx.quick() ? 4 : 12;
	for (int scheme = 0; scheme < 2; scheme++) for (int gi = 0; gi < ng; gi++) {
		long kk = k++;
		if (!case_begin(kk, J().kv("kind", "vp").kv("scheme", SCHEME[scheme]).kv("g", gi).str())) continue;
		do_vp_case(kk, scheme, gi);
	}
	// corrupted-share scenarios (appended last so that the numbers of all earlier cases are unchanged)
	{
		bool q = ctx.quick(); Rng sr(ctx.seed, 0xC16, 4);
		// threshold DSS only: threshold Schnorr never completes against a bad share (NTS::Sign runs two
		// reconstructions under one broadcast ID, see notes), such runs would only burn time-outs
		for (int scheme = DSS; scheme <= DSS; scheme++) for (size_t n = 4; n <= (q ? 5u : 7u); n++) for (size_t t = 1; 3 * t < n; t++) {
			std::vector<std::vector<size_t>> sets; for (size_t fsz = 1; fsz <= t; fsz++) subsets(n, fsz, sets);
			size_t take = q ? (n == 4 ? 4 : 2) : std::min<size_t>(sets.size(), n <= 5 ? sets.size() : 4);
			for (size_t i = 0; i < take && i < sets.size(); i++) std::swap(sets[i], sets[i + sr.below(sets.size() - i)]);
			for (size_t si = 0; si < take && si < sets.size(); si++) {
				Scenario s; s.scheme = scheme; s.n = n; s.t = t; s.faulty = sets[si]; s.fmode = FM_SHARE; s.keygen_faulty = 0;
				long kk = k++; if (!case_begin(kk, s.desc())) continue; do_run_case(kk, s);
			}
		}
	}
	// one altered broadcast of one signer at every position of the signing phase (appended last, see above).
	// DSS::Sign makes 96 broadcasts per party for n = 4 (measured, counter *_bcalter_sign_broadcasts_*), NTS::Sign 8;
	// positions beyond the last broadcast do not fire and are counted as such.
	{
		bool q = ctx.quick();
		auto add = [&](int scheme, size_t n, size_t t, long kk_alter, int mode = 0) {
			Scenario s; s.scheme = scheme; s.n = n; s.t = t; s.faulty = {mode ? n - 1 : (size_t)(kk_alter % (long)n)}; /* minus-q: the highest index (a negative summand is then not absorbed by a later wrap of the running sum) */ s.fmode = FM_BCALT; s.alter_k = kk_alter; s.alter_mode = mode; s.keygen_faulty = 0;
			long kk = k++; if (!case_begin(kk, s.desc())) return; do_run_case(kk, s);
		};
		if (q) {
			long off = (long)(ctx.seed % 4);
			for (long i = 0; i < 24; i++) add(DSS, 4, 1, 1 + (off + 4 * i) % 96);
			for (long kk_alter = 1; kk_alter <= 8; kk_alter++) add(NTS, 4, 1, kk_alter);
			// the same residue as a negative representative (value - q): only the range conditions can tell
			for (long kk_alter = 1; kk_alter <= 8; kk_alter++) for (int c = 0; c < (kk_alter >= 6 ? 4 : 1); c++) add(NTS, 4, 1, kk_alter, 1);
			for (long i = 0; i < 8; i++) add(DSS, 4, 1, 1 + (off + 12 * i + 5) % 96, 1);
		} else {
			for (int rep = 0; rep < 4; rep++) for (long kk_alter = 1; kk_alter <= 10; kk_alter++) add(NTS, 4, 1, kk_alter, 1);
			for (long kk_alter = 1; kk_alter <= 100; kk_alter += 2) add(DSS, 4, 1, kk_alter, 1);
			for (long kk_alter = 1; kk_alter <= 100; kk_alter++) add(DSS, 4, 1, kk_alter);
			for (long i = 0; i < 40; i++) add(DSS, 5, 1, 1 + (long)((ctx.seed + 3 * i) % 120));
			for (long i = 0; i < 12; i++) add(DSS, 7, 2, 1 + (long)((ctx.seed * 7 + 13 * i) % 160));
			for (long kk_alter = 1; kk_alter <= 10; kk_alter++) { add(NTS, 4, 1, kk_alter); add(NTS, 5, 1, kk_alter); add(NTS, 7, 2, kk_alter); }
		}
	}
	finish();
	return 0;
}
