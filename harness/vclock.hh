// vclock.hh — virtual clock shared by interpose.cc and the engines
#pragma once
namespace vf {
extern long g_vtime;                 // what the interposed time() returns
extern void (*g_time_hook)();        // called on every time() (busy-wait detection)
extern unsigned long g_time_calls, g_select_calls, g_sleep_calls;
}
