// c04_common.hh — C04 (soundness) helpers: reference oracles that decide with the secrets the
// harness holds whether a derived statement is REALLY false, transcript helpers (observed
// challenge strings, replaying prover), clone of a VTMF instance, bookkeeping.
// Builds on protos.hh (World, Instance, run).
#pragma once
#include "protos.hh"
#include <algorithm>
#include <set>

namespace c04 {
using namespace vf;
using namespace pr;

// ------------------------------------------------------------------ small helpers
inline std::string bits_str(const std::vector<int> &b) { std::string s; for (int x : b) s.push_back(x ? '1' : '0'); return s; }
inline std::vector<int> bits_of(unsigned long v, size_t n) { std::vector<int> b(n); for (size_t i = 0; i < n; i++) b[i] = (v >> i) & 1; return b; }
inline std::vector<std::string> written(const RunResult &R, int side) { std::vector<std::string> v; for (auto &e : R.log) if (e.side == side && e.kind == 'W') v.push_back(e.text); return v; }
// challenge bits as they went over the wire: verifier lines [from, from+cnt) ("0"/"1"; anything else '?')
inline std::string observed_bits(const std::vector<std::string> &vl, size_t from, size_t cnt) {
	std::string s; for (size_t i = from; i < vl.size() && i < from + cnt; i++) s.push_back(vl[i] == "0" ? '0' : vl[i] == "1" ? '1' : '?'); return s;
}
inline std::vector<std::string> transcript_tail(const RunResult &R, size_t maxn = 14) {
	std::vector<std::string> tail; for (size_t i = R.log.size() > maxn ? R.log.size() - maxn : 0; i < R.log.size(); i++) tail.push_back(std::string(1, "PV"[R.log[i].side]) + R.log[i].kind + ":" + shorten(R.log[i].text, 70)); return tail;
}
// prover that replays a recorded transcript: follows the recorded sequence of its own
// write/read events (so the interleaving with the verifier is the recorded one)
inline ProveFn replayer(const std::vector<Ev> &log) {
	auto seq = std::make_shared<std::vector<Ev>>(); for (auto &e : log) if (e.side == 0 && (e.kind == 'W' || e.kind == 'R')) seq->push_back(e);
	return [seq](std::istream &in, std::ostream &out) { for (auto &e : *seq) { if (e.kind == 'W') out << e.text << std::endl; else { std::string l; if (!std::getline(in, l)) break; } } };
}
// scripted verifier coins (coin control): steers coverage only, oracles read the wire
inline std::function<void(Task *)> script_coins(const std::vector<int> &bits) { return [bits](Task *t) { t->rng.script = bits; t->rng.script_pos = 0; t->rng.scripted = true; }; }

struct MZ { mpz_t v; MZ() { mpz_init(v); } MZ(const MZ &o) { mpz_init_set(v, o.v); } MZ &operator=(const MZ &o) { mpz_set(v, o.v); return *this; } ~MZ() { mpz_clear(v); } operator mpz_ptr() { return v; } };

// ------------------------------------------------------------------ dlog reference oracle
// decrypts with the sum of both players' key shares: plain(c) = c_2 / c_1^(x_P + x_V)
struct Dec {
	World *W; mpz_t x, t;
	explicit Dec(World &w) : W(&w) { mpz_init(x); mpz_init(t); mpz_add(x, w.vP->x_i, w.vV->x_i); mpz_mod(x, x, w.vP->q); }
	~Dec() { mpz_clear(x); mpz_clear(t); }
	std::string plain(mpz_srcptr c1, mpz_srcptr c2) { mpz_powm(t, c1, x, W->vP->p); if (!mpz_invert(t, t, W->vP->p)) return "noninvertible"; mpz_mul(t, t, c2); mpz_mod(t, t, W->vP->p); return mpz_dec(t); }
	std::vector<std::string> plains(const TMCG_Stack<VTMF_Card> &s) { std::vector<std::string> v; for (size_t i = 0; i < s.size(); i++) v.push_back(plain(s[i].c_1, s[i].c_2)); return v; }
	bool member(mpz_srcptr a) { return W->vP->CheckElement(a); }
	bool all_members(const TMCG_Stack<VTMF_Card> &s) { for (size_t i = 0; i < s.size(); i++) if (!member(s[i].c_1) || !member(s[i].c_2)) return false; return true; }
	// truth of "s2 is a shuffle (permutation + re-masking) of s"
	bool is_shuffle(const TMCG_Stack<VTMF_Card> &s, const TMCG_Stack<VTMF_Card> &s2) {
		if (s.size() != s2.size() || !all_members(s2)) return false;
		auto a = plains(s), b = plains(s2); std::sort(a.begin(), a.end()); std::sort(b.begin(), b.end()); return a == b;
	}
	// truth of "s2 is a cyclic shift + re-masking of s"
	bool is_rotation(const TMCG_Stack<VTMF_Card> &s, const TMCG_Stack<VTMF_Card> &s2) {
		if (s.size() != s2.size() || !all_members(s2)) return false;
		auto a = plains(s), b = plains(s2); size_t n = a.size();
		for (size_t r = 0; r < n; r++) { bool ok = true; for (size_t i = 0; i < n && ok; i++) if (b[i] != a[(i + r) % n]) ok = false; if (ok) return true; }
		return false;
	}
};

// ------------------------------------------------------------------ QR-encoding reference oracle
// type bit w of a card = XOR over the players k of [z[k][w] is a non-residue mod m_k], decided with
// the secret keys of both players; a component with Jacobi symbol != +1 is not maskable at all
struct QRO {
	World *W; explicit QRO(World &w) : W(&w) {}
	const TMCG_SecretKey &sk(size_t k) const { return k == 0 ? *W->skA : *W->skB; }
	bool wellformed(const TMCG_Card &c) const { for (size_t k = 0; k < c.z.size(); k++) for (size_t w = 0; w < c.z[k].size(); w++) if (mpz_jacobi(&c.z[k][w], sk(k).m) != 1) return false; return true; }
	size_t type(const TMCG_Card &c) const { size_t t = 0; for (size_t w = 0; w < c.z[0].size(); w++) { bool bit = false; for (size_t k = 0; k < c.z.size(); k++) if (!tmcg_mpz_qrmn_p(&c.z[k][w], sk(k).p, sk(k).q)) bit = !bit; if (bit) t |= (size_t)1 << w; } return t; }
	std::vector<size_t> types(const TMCG_Stack<TMCG_Card> &s) const { std::vector<size_t> v; for (size_t i = 0; i < s.size(); i++) v.push_back(type(s[i])); return v; }
	bool all_wellformed(const TMCG_Stack<TMCG_Card> &s) const { for (size_t i = 0; i < s.size(); i++) if (!wellformed(s[i])) return false; return true; }
	bool is_shuffle(const TMCG_Stack<TMCG_Card> &s, const TMCG_Stack<TMCG_Card> &s2) const { if (s.size() != s2.size() || !all_wellformed(s2)) return false; auto a = types(s), b = types(s2); std::sort(a.begin(), a.end()); std::sort(b.begin(), b.end()); return a == b; }
	bool is_rotation(const TMCG_Stack<TMCG_Card> &s, const TMCG_Stack<TMCG_Card> &s2) const { if (s.size() != s2.size() || !all_wellformed(s2)) return false; auto a = types(s), b = types(s2); size_t n = a.size(); for (size_t r = 0; r < n; r++) { bool ok = true; for (size_t i = 0; i < n && ok; i++) if (b[i] != a[(i + r) % n]) ok = false; if (ok) return true; } return false; }
};
// an element of Z_m with Jacobi symbol -1 (public computation)
inline void jacobi_minus_one(mpz_ptr u, mpz_srcptr m, Rng &rg) { do { rg.mpz_below(u, m); } while (mpz_jacobi(u, m) != -1); }

// ------------------------------------------------------------------ VTMF clone (an object the harness may alter)
inline BarnettSmartVTMF_dlog *clone_vtmf(World &W, BarnettSmartVTMF_dlog *src) {
	BarnettSmartVTMF_dlog *v = W.fresh_vtmf();
	mpz_set(v->x_i, src->x_i); mpz_set(v->h_i, src->h_i); mpz_set(v->h_i_fp, src->h_i_fp); mpz_set(v->h, src->h);
	v->KeyGenerationProtocol_Finalize();
	return v;
}

inline std::vector<size_t> all_noncyclic_or_sample(size_t n, Rng &rg, size_t maxcount, std::vector<std::vector<size_t>> *out) {
	// every permutation of 0..n-1 that is not a rotation (n <= 5 exhaustive), else random ones
	std::vector<size_t> pi(n); for (size_t i = 0; i < n; i++) pi[i] = i;
	auto is_rot = [&](const std::vector<size_t> &p) { for (size_t j = 1; j < n; j++) if (p[j] != (p[0] + j) % n) return false; return true; };
	if (n <= 5) { do { if (!is_rot(pi)) out->push_back(pi); } while (std::next_permutation(pi.begin(), pi.end())); }
	else { for (size_t t = 0; t < maxcount * 4 && out->size() < maxcount; t++) { auto p = rand_perm(rg, n); if (!is_rot(p)) out->push_back(p); } }
	if (out->size() > maxcount) { // keep a seeded sample, but always the "first pair consecutive" ones first (they need a full check of the cyclic pattern)
		std::vector<std::vector<size_t>> a, b; for (auto &p : *out) ((p[1] == (p[0] + 1) % n) ? a : b).push_back(p);
		for (size_t i = 0; i + 1 < b.size(); i++) std::swap(b[i], b[i + rg.below(b.size() - i)]);
		for (size_t i = 0; i + 1 < a.size(); i++) std::swap(a[i], a[i + rg.below(a.size() - i)]);
		out->clear(); size_t ia = 0, ib = 0; while (out->size() < maxcount && (ia < a.size() || ib < b.size())) { if (ia < a.size()) out->push_back(a[ia++]); if (out->size() < maxcount && ib < b.size()) out->push_back(b[ib++]); }
	}
	return pi;
}
// a rotation with two neighbouring output positions exchanged: all but three cyclically adjacent pairs stay consecutive
inline std::vector<size_t> near_rotation(size_t n, Rng &rg) { std::vector<size_t> p = rotation(n, rg.below(n)); size_t j = rg.below(n - 1); std::swap(p[j], p[j + 1]); return p; }
inline std::string perm_str(const std::vector<size_t> &p) { std::string s; for (size_t i = 0; i < p.size(); i++) { if (i) s += ","; s += std::to_string(p[i]); } return s; }

// ------------------------------------------------------------------ per-case accumulator + oracle (a)
enum Prepared { P_NONE = 0, P_ALL0, P_ALL1 };   // challenge string a cut-and-choose prover strategy is prepared for

struct Acc {
	long long runs = 0; std::set<std::string> distinct; std::string sample; long long judged = 0;
	void note(const std::string &tuple, const std::string &smp) { runs++; distinct.insert(tuple); if (sample.empty()) sample = smp; }
};

struct FsCase {   // E-tuple of one false-statement run
	std::string world, proto, variant, kind, strategy, detail; size_t n = 0; long pos = -1; unsigned long kappa = 0;
	uint64_t sa = 0, sb = 0;
	std::string tuple() const { return world + "|" + proto + "|" + variant + "|" + kind + "|" + strategy + "|n=" + std::to_string(n) + "|pos=" + std::to_string(pos) + "|" + detail; }
	J json() const { J j; j.kv("world", world).kv("proto", proto).kv("variant", variant).kv("kind", kind).kv("strategy", strategy).kv("n", (long long)n).kv("pos", (long long)pos).kv("detail", detail).kv("seedA", (unsigned long long)sa).kv("seedB", (unsigned long long)sb); if (kappa) j.kv("kappa", (unsigned long long)kappa); return j; }
};

// oracle (a) for proofs with a large challenge space: false statement => refused
inline void judge_fs(Acc &acc, const FsCase &c, const RunResult &R, const std::string &statement_json = "{}") {
	count("fs/" + c.proto + "/" + c.kind + "/" + c.strategy); count("fs_runs"); count("fs_kind/" + c.kind);
	acc.judged++;
	if (R.hung) count("fs_hung");
	if (R.ok) {
		count("fs_accepted_false");
		violation("C04/accepted-false/" + c.proto + "/" + c.kind + "/" + c.strategy, "verifier accepted a false statement (" + c.kind + ", prover strategy " + c.strategy + ")",
		          c.json().kv("verifier_verdict", true).raw("statement", statement_json).arr("transcript_tail", transcript_tail(R)).str());
	} else { count("fs_rejected"); if (R.v_exc) count("fs_rejected_by_exception"); }
	acc.note(c.tuple(), c.json().kv("verifier_verdict", R.ok).kv("verifier_exception", R.v_exc).kv("prover_lines", (long long)R.plines).kv("verifier_lines", (long long)R.vlines).str());
}
// oracle (a) for cut-and-choose proofs: the library prover run on a non-fitting witness is itself a
// guessing prover prepared for one known string P (all-1 / all-0); accepted <=> observed == P.
// P_NONE: the verifier has to refuse before/independently of any challenge.
inline void judge_fs_cc(Acc &acc, const FsCase &c, const RunResult &R, Prepared P, const std::string &observed, size_t rounds, const std::vector<int> &script, const std::string &statement_json = "{}") {
	count("fs/" + c.proto + "/" + c.kind + "/" + c.strategy); count("fs_runs"); count("fs_kind/" + c.kind); count("fs_cc_runs");
	acc.judged++;
	std::string want = P == P_NONE ? "" : std::string(rounds, P == P_ALL1 ? '1' : '0');
	bool eq = (P != P_NONE) && observed == want;
	J w = c.json(); w.kv("verifier_verdict", R.ok).kv("prepared_for", P == P_NONE ? "(nothing)" : want).kv("observed_challenges", observed).kv("scripted_coins", bits_str(script));
	if (R.ok && !eq) {
		count("fs_accepted_false");
		violation("C04/accepted-false/" + c.proto + "/" + c.kind + "/" + c.strategy, P == P_NONE ? "cut-and-choose verifier accepted a false statement that has to be refused whatever the challenges are" : "cut-and-choose verifier accepted a false statement although the challenge string differs from the one the prover was prepared for",
		          w.raw("statement", statement_json).arr("transcript_tail", transcript_tail(R)).str());
	} else if (!R.ok && eq) {
		count("fs_harness_prepared_rejected");
		violation("C04/harness/prepared-rejected/" + c.proto + "/" + c.kind + "/" + c.strategy, "HARNESS ERROR: run rejected although the observed challenge string equals the string this prover strategy is prepared for (harness model of the prover is wrong)",
		          w.arr("transcript_tail", transcript_tail(R)).str());
	} else if (R.ok) count("fs_cc_accepted_prepared"); else { count("fs_rejected"); count("fs_cc_rejected_unprepared"); }
	acc.note(c.tuple() + "|coins=" + observed, w.str());
}

} // namespace c04
