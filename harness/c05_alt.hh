// c05_alt.hh — C05 target (3): the verifier holds another group / common key / commitment generators.
// Every alternative verifier-side object is SELF-CONSISTENT and built through public constructors /
// public set-up calls only (never by writing members of a live object):
//   identity          the world's own verifier objects seen through a view (baseline of the alt runs)
//   group:other       another generated group of the same sizes (own keys, own derived objects)
//   group:g^2         the same p, q with generator g^2 (published group text edited, stream constructors)
//   key:extra-share   the same group, the verifier's own key share regenerated from the same coins,
//                     the prover's share imported, plus ONE more key share: h' = h * h_3
//   com:other-seed    the same group and key, commitment generators derived from another seed
//                     (SetupGenerators_publiccoin(a) on a freshly imported instance; trapdoor scheme: h -> h^2)
//   key:other-rabin   QR encoding: the prover's Rabin key in the verifier's ring replaced by another generated key
#pragma once
#include "protos.hh"

namespace c05 {
using namespace vf;

inline std::vector<std::string> alt_kinds(const std::string &p) {
	auto starts = [&](const char *s) { return p.compare(0, strlen(s), s) == 0; };
	if (starts("rabin/") || p == "tmcg/maskcard-qr" || p == "tmcg/cardsecret-qr" || starts("tmcg/stackeq-qr")) return {"key:other-rabin"};
	if (starts("vtmf/key-")) return {"group:other", "group:g^2"};                      // the key-share proofs do not speak about the common key
	if (starts("groth/vsshe-") || starts("tmcg/groth")) return {"group:other", "group:g^2", "key:extra-share", "com:other-seed"};
	if (starts("groth/skc-") || starts("pedersen/")) return {"group:other", "com:other-seed"};
	return {"group:other", "group:g^2", "key:extra-share"};
}

struct Alt {
	pr::World &W; Rng rng; std::map<std::string, pr::World *> views; std::map<std::string, BarnettSmartVTMF_dlog *> vt; mpz_t seed_a;
	Alt(pr::World &w, uint64_t seed) : W(w), rng(seed, 0xa17, (uint64_t)w.vkind) { mpz_init(seed_a); Rng r(seed, 0xa18); r.mpz_bits(seed_a, 200); }
	std::string describe(const std::string &k) const {
		if (k == "group:other") return "verifier objects in another generated group of the same sizes";
		if (k == "group:g^2") return "verifier objects with the same p, q and generator g^2";
		if (k == "key:extra-share") return "verifier's common key has one more key share multiplied in";
		if (k == "com:other-seed") return "verifier's commitment generators derived from another seed";
		if (k == "key:other-rabin") return "verifier's ring holds another Rabin key for the prover";
		return k;
	}
	static std::string replace_line(const std::string &text, const std::string &from, const std::string &to) {
		std::stringstream in(text); std::string l, o; while (std::getline(in, l)) { o += (l == from ? to : l); o += "\n"; } return o;
	}
	BarnettSmartVTMF_dlog *from_text(const std::string &t) const {
		std::stringstream in(t);
		if (W.vkind == 2) return new BarnettSmartVTMF_dlog_GroupQR(in, W.ps.fs, W.ps.gs);
		return new BarnettSmartVTMF_dlog(in, W.ps.fs, W.ps.gs, W.vkind == 1, true);
	}
	// alternative verifier VTMF (finalised, self-consistent) or nullptr when the kind does not apply to this world
	BarnettSmartVTMF_dlog *vtmf(const std::string &kind, std::string &gtext) {
		auto it = vt.find(kind); if (it != vt.end()) { std::stringstream g; if (it->second) it->second->PublishGroup(g); gtext = g.str(); return it->second; }
		Rng *old = tl_rng; tl_rng = &rng; BarnettSmartVTMF_dlog *v = nullptr;
		if (kind == "group:other") {
			if (W.vkind == 2) v = new BarnettSmartVTMF_dlog_GroupQR(W.ps.fs, W.ps.gs); else v = new BarnettSmartVTMF_dlog(W.ps.fs, W.ps.gs, W.vkind == 1, true);
			std::stringstream g; v->PublishGroup(g); std::unique_ptr<BarnettSmartVTMF_dlog> peer(from_text(g.str()));
			v->KeyGenerationProtocol_GenerateKey(); peer->KeyGenerationProtocol_GenerateKey();
			std::stringstream k; peer->KeyGenerationProtocol_PublishKey(k); if (!v->KeyGenerationProtocol_UpdateKey(k)) throw std::runtime_error("alt: peer key refused");
			v->KeyGenerationProtocol_Finalize();
		} else if (kind == "group:g^2") {
			if (W.vkind == 0) {   // the canonical-g and GroupQR classes derive g from p, q: no second generator
				mpz_t g2; mpz_init(g2); mpz_mul(g2, W.vP->g, W.vP->g); mpz_mod(g2, g2, W.vP->p);
				v = from_text(replace_line(W.group_text, mpz_b62(W.vP->g), mpz_b62(g2))); mpz_clear(g2);
				if (!v->CheckGroup()) throw std::runtime_error("alt: g^2 group refused by CheckGroup");
				std::stringstream g; v->PublishGroup(g); std::unique_ptr<BarnettSmartVTMF_dlog> peer(from_text(g.str()));
				v->KeyGenerationProtocol_GenerateKey(); peer->KeyGenerationProtocol_GenerateKey();
				std::stringstream k; peer->KeyGenerationProtocol_PublishKey(k); if (!v->KeyGenerationProtocol_UpdateKey(k)) throw std::runtime_error("alt: peer key refused");
				v->KeyGenerationProtocol_Finalize();
			}
		} else if (kind == "key:extra-share") {
			v = W.fresh_vtmf(); std::unique_ptr<BarnettSmartVTMF_dlog> third(W.fresh_vtmf());
			{ Rng same = W.rng_vkey; tl_rng = &same; v->KeyGenerationProtocol_GenerateKey(); tl_rng = &rng; }    // the same share as the world's verifier
			third->KeyGenerationProtocol_GenerateKey();
			{ std::stringstream k; W.vP->KeyGenerationProtocol_PublishKey(k); if (!v->KeyGenerationProtocol_UpdateKey(k)) throw std::runtime_error("alt: prover key refused"); }
			{ std::stringstream k; third->KeyGenerationProtocol_PublishKey(k); if (!v->KeyGenerationProtocol_UpdateKey(k)) throw std::runtime_error("alt: third key refused"); }
			v->KeyGenerationProtocol_Finalize();
			mpz_t t; mpz_init(t); mpz_mul(t, W.vV->h, third->h_i); mpz_mod(t, t, W.vV->p); bool exact = !mpz_cmp(t, v->h); mpz_clear(t);
			if (!exact) throw std::runtime_error("alt: common key is not h*h_3");
		}
		tl_rng = old; vt[kind] = v; std::stringstream g; if (v) v->PublishGroup(g); gtext = g.str(); return v;
	}
	TMCG_PublicKeyRing *ring2 = nullptr;
	// QR encoding: the ring the verifier holds when the prover's Rabin key was replaced by another generated key
	TMCG_PublicKeyRing *alt_ring() {
		if (ring2) return ring2;
		Rng *old = tl_rng; tl_rng = &rng; TMCG_SecretKey other("Mallory", "m@x", W.rabin_bits, false); tl_rng = old;
		ring2 = new TMCG_PublicKeyRing(2); ring2->keys[0] = TMCG_PublicKey(other); ring2->keys[1] = W.ring->keys[1]; return ring2;
	}
	pr::World *view(const std::string &kind, size_t n) {
		std::string key = kind + "/" + std::to_string(n); auto it = views.find(key); if (it != views.end()) return it->second;
		pr::World *V = new pr::World(W, pr::World::ViewTag()); Rng *old = tl_rng; tl_rng = &rng;
		unsigned long fs = W.ps.fs, gs = W.ps.gs, le = W.ps.le;
		if (kind == "identity") { /* unchanged */ }
		else if (kind == "group:other" || kind == "group:g^2" || kind == "key:extra-share") {
			std::string gt; BarnettSmartVTMF_dlog *v = vtmf(kind, gt);
			if (!v) { tl_rng = old; delete V; views[key] = nullptr; return nullptr; }
			V->vV = v; if (kind != "key:extra-share") V->group_text = gt;
			V->rV = new HooghSchoenmakersSkoricVillegasVRHE(v->p, v->q, v->g, v->h, fs, gs);
			V->eV = new JareckiLysyanskayaEDCF(2, 0, v->p, v->q, v->g, v->h, fs, gs);
			if (n >= 2) {
				GrothVSSHE *P = W.need_vsshe(n).first, *Vs = nullptr;
				if (kind == "group:other") Vs = new GrothVSSHE(n, v->p, v->q, v->k, v->g, v->h, le, fs, gs);
				else { std::stringstream g; P->PublishGroup(g); std::string t = replace_line(replace_line(g.str(), mpz_b62(W.vP->g), mpz_b62(v->g)), mpz_b62(W.vP->h), mpz_b62(v->h)); std::stringstream in(t); Vs = new GrothVSSHE(n, in, le, fs, gs); }
				V->vsshe[n] = std::make_pair(P, Vs);
			}
			if (kind == "group:other") {
				size_t nn = n;
				V->thook = [nn, fs, gs](const char *what, const std::string &) -> std::string {
					std::stringstream g;
					if (!strcmp(what, "trapdoor")) { PedersenTrapdoorCommitmentScheme s(fs, gs); s.PublishGroup(g); }
					else { PedersenCommitmentScheme s(nn, fs, gs); s.PublishGroup(g); }     // "skc" publishes its commitment scheme's group
					return g.str(); };
			}
		} else if (kind == "com:other-seed") {
			mpz_ptr a = seed_a;
			if (n >= 2) { GrothVSSHE *P = W.need_vsshe(n).first; std::stringstream g; P->PublishGroup(g); GrothVSSHE *Vs = new GrothVSSHE(n, g, le, fs, gs); Vs->SetupGenerators_publiccoin(a); V->vsshe[n] = std::make_pair(P, Vs); }
			V->ohook = [a](const char *what, void *o) { if (!strcmp(what, "skc")) ((GrothSKC *)o)->SetupGenerators_publiccoin(a); else if (!strcmp(what, "pedersen")) ((PedersenCommitmentScheme *)o)->SetupGenerators_publiccoin(a); };
			V->thook = [](const char *what, const std::string &text) -> std::string {
				if (strcmp(what, "trapdoor")) return text;
				std::stringstream in(text); std::vector<std::string> L; std::string l; while (std::getline(in, l)) L.push_back(l);     // p q k g h
				mpz_t p, h; mpz_init(p); mpz_init(h); mpz_set_str(p, L[0].c_str(), 62); mpz_set_str(h, L[4].c_str(), 62); mpz_mul(h, h, h); mpz_mod(h, h, p); L[4] = mpz_b62(h); mpz_clear(p); mpz_clear(h);
				std::string o; for (auto &x : L) o += x + "\n"; return o; };
		}
		tl_rng = old; views[key] = V; return V;
	}
};

} // namespace c05
