// w_c09.cc — C09: arithmetic primitives agree with their mathematical definition.
// References: GMP called directly (mpz_powm, Euler's criterion, machine-word Horner, own Miller-Rabin)
// for every evaluation; a sample of the evaluations is written as records and recomputed by the
// Python checker ref/c09_ref.py (python ints share no code with GMP).
#include "c09_pow.hh"
#include "c09_sqrt.hh"
#include "c09_misc.hh"
#include "c09_big.hh"

namespace c09 { Opt opt; std::map<std::string, int> g_vcount; PowStats PS; SqStats SS; MiscStats MS; PrStats GS; BStats BS; }
using namespace c09;

int main(int argc, char **argv) {
	init(argc, argv);
	null_cerr();
	if (!init_libTMCG(true)) { fprintf(stderr, "init_libTMCG failed\n"); return 2; }   // secure memory as in tests/t-bigint.cc
	opt.frac = ctx.option_l("frac", 1); opt.fam = ctx.option("fam"); opt.recmul = ctx.option_l("recmul", 1);
	long k = 0;
	if (fam_on("pws")) run_pow_small(k);
	if (fam_on("pwb")) run_pow_big(k);
	if (fam_on("sqp")) run_sqrt_primes(k);
	if (fam_on("sqpb")) run_sqrt_big_primes(k);
	if (fam_on("sqn")) run_sqrt_products(k);
	if (fam_on("sqnb")) run_sqrt_big_products(k);
	if (fam_on("ip")) run_interp(k);
	if (fam_on("pr")) run_primes(k);
	if (fam_on("cv")) run_convert(k);
	if (fam_on("bi")) run_bigint(k);
	PS.flush(); SS.flush(); MS.flush(); GS.flush(); BS.flush();
	finish();
	return 0;
}
