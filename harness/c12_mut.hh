// c12_mut.hh — structure-aware mutators for C12 (own code, deterministic).
//   text artefacts  : exports / proofs / group and state publications of libTMCG
//                     (fields separated by '|', '^' and '\n')
//   OpenPGP artefacts: binary packet sequences and their ASCII armor
// Every mutation class has a *catalogue* (count(a) variants, numbered 0..count-1);
// the driver applies all of them or a deterministic sample.
#pragma once
#include "vf.hh"
#include <algorithm>
#include <string>
#include <vector>

namespace c12 {

typedef std::vector<unsigned char> Bytes;
inline std::string b2s(const Bytes &b) { return std::string(b.begin(), b.end()); }
inline Bytes s2b(const std::string &s) { return Bytes(s.begin(), s.end()); }

// =========================================================================== text
enum TClass { T_ID = 0, T_DEL, T_DUP, T_SWAP, T_CNT, T_DIM, T_NONDIG, T_NUM, T_TRUNC, T_FLIP, T_SPLICE, T_DELIM, T_LONG, T_NCLASS };
static const char *const tclass_name[T_NCLASS] = { "id", "field-del", "field-dup", "field-swap", "count", "dimension", "non-digit", "number", "trunc", "byteflip", "splice", "delimiter", "long-field" };

struct Field { std::string txt; char delim; };   // delim == 0: unterminated tail
struct TArt {
	std::string raw; std::vector<Field> f;
	std::vector<size_t> cnt;   // indices of count-like fields (short decimal)
	std::vector<size_t> num;   // indices of number-like fields (base-62 text)
};

inline bool is_delim(char c) { return c == '|' || c == '^' || c == '\n'; }
inline bool all_digits(const std::string &s) { if (s.empty()) return false; for (char c : s) if (c < '0' || c > '9') return false; return true; }
inline bool all_b62(const std::string &s) { if (s.empty()) return false; size_t i = (s[0] == '-') ? 1 : 0; if (i >= s.size()) return false; for (; i < s.size(); i++) if (!isalnum((unsigned char)s[i])) return false; return true; }

inline TArt tparse(const std::string &raw) {
	TArt a; a.raw = raw; std::string cur;
	for (char c : raw) { if (is_delim(c)) { a.f.push_back({cur, c}); cur.clear(); } else cur.push_back(c); }
	if (!cur.empty()) a.f.push_back({cur, 0});
	for (size_t i = 0; i < a.f.size(); i++) {
		const std::string &t = a.f[i].txt;
		if (all_digits(t) && t.size() <= 4) a.cnt.push_back(i);
		if (all_b62(t) && !(t == "crd" || t == "crs" || t == "stk" || t == "sts" || t == "pub" || t == "sec" || t == "sig" || t == "enc" || t == "nzk")) a.num.push_back(i);
	}
	return a;
}
inline std::string tjoin(const std::vector<Field> &f) { std::string s; for (auto &x : f) { s += x.txt; if (x.delim) s.push_back(x.delim); } return s; }

static const char *const cnt_values[] = { "0", "1", "2", "3", "10", "11", "32", "33", "255", "256", "257", "512", "513", "65535", "65536",
	"2147483647", "2147483648", "4294967295", "4294967296", "4294967297", "9223372036854775807", "9223372036854775808",
	"18446744073709551615", "18446744073709551616", "-1", "-2147483648", "99999999999999999999999999999999", "00000000000000000000000000000001" };
static const size_t n_cnt_values = sizeof(cnt_values) / sizeof(cnt_values[0]);
static const char *const dim_values[] = { "1", "2", "3", "10", "11", "32", "33", "256", "257", "512", "513" };
static const size_t n_dim_values = sizeof(dim_values) / sizeof(dim_values[0]);
static const char *const nondig_values[] = { "", "x", "-", "--5", " 5", "5 ", "+5", "0x10", "1e9", "5.0", "!", "%s%n%n", "\x01", "\xff\xfe", "z_", "-z", "-0", "5-", "5|", "5^", "\t", "\r" };
static const size_t n_nondig_values = sizeof(nondig_values) / sizeof(nondig_values[0]);
enum { N_NUM_OPS = 14, N_LONG_OPS = 5 };

// number of variants in the catalogue of class c for artefact a
inline size_t tcount(const TArt &a, int c) {
	size_t nf = a.f.size(), len = a.raw.size();
	switch (c) {
	case T_ID: return 1;
	case T_DEL: case T_DUP: return nf;
	case T_SWAP: return nf > 1 ? nf - 1 : 0;
	case T_CNT: return a.cnt.size() * n_cnt_values;
	case T_DIM: return a.cnt.size() * n_dim_values;
	case T_NONDIG: return nf * n_nondig_values;
	case T_NUM: return a.num.size() * N_NUM_OPS;
	case T_TRUNC: return len;                      // every offset (driver samples long artefacts)
	case T_FLIP: return len * 4;
	case T_SPLICE: return len;                     // cut position; partner chosen by the driver
	case T_DELIM: return nf * 4;
	case T_LONG: return nf * N_LONG_OPS;
	}
	return 0;
}

inline std::string num_op(const std::string &t, size_t op) {
	mpz_t v; mpz_init(v);
	if (mpz_set_str(v, t.c_str(), 62) < 0) mpz_set_ui(v, 7);
	switch (op) {
	case 0: mpz_set_ui(v, 0); break;
	case 1: mpz_set_ui(v, 1); break;
	case 2: mpz_neg(v, v); break;                                  // negative
	case 3: mpz_set_si(v, -1); break;
	case 4: mpz_add_ui(v, v, 1); break;                            // parity flip (even modulus)
	case 5: mpz_sub_ui(v, v, 1); break;
	case 6: mpz_mul_2exp(v, v, 1); break;                          // even
	case 7: mpz_mul(v, v, v); break;                               // twice the length
	case 8: mpz_set_ui(v, 1); mpz_mul_2exp(v, v, 8192); break;     // 2^8192
	case 9: mpz_set_ui(v, 1); mpz_mul_2exp(v, v, 16384); mpz_sub_ui(v, v, 1); break; // MAX_KEYBITS boundary
	case 10: mpz_set_ui(v, 2); break;
	case 11: mpz_tdiv_q_2exp(v, v, 1); break;                      // (p-1)/2-like
	case 12: mpz_set_ui(v, 1); mpz_mul_2exp(v, v, 2048); break;    // > fpowm table length as an exponent
	case 13: mpz_neg(v, v); mpz_sub_ui(v, v, 1); break;
	}
	std::string r = vf::mpz_b62(v); mpz_clear(v); return r;
}

// variant v of class c; `other` is the splice partner; r supplies free choices
inline std::string tmutate(const TArt &a, int c, size_t v, vf::Rng &r, const std::string &other) {
	std::vector<Field> f = a.f; size_t nf = f.size();
	switch (c) {
	case T_ID: return a.raw;
	case T_DEL: f.erase(f.begin() + (v % nf)); return tjoin(f);
	case T_DUP: { size_t i = v % nf; Field x = f[i]; if (!x.delim) x.delim = '|'; f.insert(f.begin() + i, x); return tjoin(f); }
	case T_SWAP: { size_t i = v % (nf - 1); std::swap(f[i].txt, f[i + 1].txt); return tjoin(f); }
	case T_CNT: { size_t i = a.cnt[(v / n_cnt_values) % a.cnt.size()]; f[i].txt = cnt_values[v % n_cnt_values]; return tjoin(f); }
	case T_DIM: {
		// count field <- d and the payload behind it scaled to d/old of its length (cyclic reuse of the
		// existing fields), i.e. an artefact whose payload really has the announced dimension
		size_t i = a.cnt[(v / n_dim_values) % a.cnt.size()]; unsigned long old = strtoul(f[i].txt.c_str(), 0, 10), d = strtoul(dim_values[v % n_dim_values], 0, 10);
		f[i].txt = dim_values[v % n_dim_values];
		size_t tail = nf - (i + 1); if (!old || !tail) return tjoin(f);
		size_t want = (size_t)((unsigned long long)tail * d / old); if (want > 200000) want = 200000;
		std::vector<Field> g(f.begin(), f.begin() + i + 1);
		for (size_t k = 0; k < want; k++) { Field x = f[i + 1 + (k % tail)]; if (!x.delim) x.delim = f[i].delim; g.push_back(x); }
		return tjoin(g);
	}
	case T_NONDIG: { size_t i = (v / n_nondig_values) % nf; f[i].txt = nondig_values[v % n_nondig_values]; return tjoin(f); }
	case T_NUM: { size_t i = a.num[(v / N_NUM_OPS) % a.num.size()]; f[i].txt = num_op(f[i].txt, v % N_NUM_OPS); return tjoin(f); }
	case T_TRUNC: return a.raw.substr(0, v % (a.raw.size() ? a.raw.size() : 1));
	case T_FLIP: {
		std::string s = a.raw; if (s.empty()) return s; size_t o = (v / 4) % s.size();
		switch (v % 4) { case 0: s[o] ^= (char)(1 << r.below(8)); break; case 1: s[o] = (char)r.below(256); break; case 2: s.erase(o, 1); break; default: s.insert(o, 1, (char)r.below(256)); }
		return s;
	}
	case T_SPLICE: { size_t o = v % (a.raw.size() + 1); size_t p = other.empty() ? 0 : r.below(other.size() + 1); return a.raw.substr(0, o) + other.substr(p); }
	case T_DELIM: {
		size_t i = (v / 4) % nf; static const char alt[4] = { '|', '^', '\n', 0 }; char d = alt[v % 4];
		if (d == f[i].delim) d = ' ';
		if (d) f[i].delim = d; else { if (i + 1 < nf) { f[i + 1].txt = f[i].txt + f[i + 1].txt; f.erase(f.begin() + i); } else f[i].delim = 0; }
		return tjoin(f);
	}
	case T_LONG: {
		size_t i = (v / N_LONG_OPS) % nf;
		switch (v % N_LONG_OPS) {
		case 0: f[i].txt = std::string(4095, '7'); break;            // TMCG_MAX_VALUE_CHARS - 1
		case 1: f[i].txt = std::string(4097, 'z'); break;            // just above
		case 2: f[i].txt = std::string(70000, '9'); break;
		case 3: f[i].txt = "-" + std::string(20000, 'Z'); break;
		default: f[i].txt = std::string(1 << 18, 'A'); break;         // 256 KiB
		}
		return tjoin(f);
	}
	}
	return a.raw;
}

// line mutations for the relay of interactive protocols (one prover line -> 0..n lines)
enum { L_NCLASS = 14 };
static const char *const lclass_name[L_NCLASS] = { "drop", "dup", "empty", "non-digit", "minus", "zero", "negate", "plus1", "huge", "long-line", "field-mut", "eof", "stack-resize", "index-oob" };
inline std::vector<std::string> lmutate(const std::string &l, int c, vf::Rng &r) {
	std::vector<std::string> o;
	switch (c) {
	case 0: break;
	case 1: o.push_back(l); o.push_back(l); break;
	case 2: o.push_back(""); break;
	case 3: o.push_back(nondig_values[1 + r.below(n_nondig_values - 1)]); break;
	case 4: o.push_back("-"); break;
	case 5: o.push_back("0"); break;
	case 6: o.push_back(l.size() && l[0] == '-' ? l.substr(1) : "-" + l); break;
	case 7: o.push_back(all_b62(l) ? num_op(l, 4) : l + "1"); break;
	case 8: o.push_back(num_op("1", 8 + r.below(2))); break;
	case 9: o.push_back(std::string(r.coin() ? 4097 : 70000, 'y')); break;
	case 10: { TArt a = tparse(l); static const int cls[] = { T_DEL, T_DUP, T_CNT, T_DIM, T_NONDIG, T_NUM, T_TRUNC, T_FLIP, T_DELIM };
		int k = cls[r.below(sizeof(cls) / sizeof(cls[0]))]; size_t n = tcount(a, k); o.push_back(n ? tmutate(a, k, r.below(n), r, "") : l + "|"); break; }
	case 11: break;   // handled by the relay (closes the connection)
	case 12: { // well-formed stack / stack secret / card (secret) of other dimensions than the local statement
		TArt a = tparse(l);
		if (l.compare(0, 4, "sts^") == 0 && a.f.size() >= 4) { // sts^n^idx^crs...^ -> one element with index 0
			size_t e = l.find('^', l.find('^', l.find('^', 4) + 1) + 1); std::string first = l.substr(l.find('^', l.find('^', 4) + 1) + 1, e == l.npos ? l.npos : e - (l.find('^', l.find('^', 4) + 1) + 1));
			std::string crs = first; // text of the first card secret
			if (crs.compare(0, 4, "crs|") == 0 && r.coin()) { TArt c = tparse(crs); if (c.f.size() >= 5) crs = "crs|1|1|" + c.f[3].txt + "|" + c.f[4].txt + "|"; }   // QR: dimensions 1x1
			o.push_back(r.coin() ? "sts^1^0^" + crs + "^" : "sts^2^1^" + crs + "^0^" + crs + "^"); break; }
		if (l.compare(0, 4, "stk^") == 0) { size_t b = l.find('^', 4); size_t e = b == l.npos ? l.npos : l.find('^', b + 1); if (e != l.npos) { std::string card = l.substr(b + 1, e - b - 1); o.push_back("stk^1^" + card + "^"); break; } }
		if ((l.compare(0, 4, "crd|") == 0 || l.compare(0, 4, "crs|") == 0) && a.cnt.size() >= 2 && a.f.size() >= 5) { o.push_back(l.substr(0, 4) + "1|1|" + a.f[3].txt + "|" + (l[2] == 's' ? a.f[4].txt + "|" : "")); break; }
		size_t n = tcount(a, T_DIM); o.push_back(n ? tmutate(a, T_DIM, r.below(n), r, "") : l + "^"); break; }
	case 13: { // permutation index / count fields of a stack secret out of range
		TArt a = tparse(l);
		if (l.compare(0, 4, "sts^") == 0 && a.f.size() >= 3) { std::vector<Field> f = a.f; static const char *v[] = { "4294967296", "2147483648", "18446744073709551615", "999" }; unsigned long n = strtoul(f[1].txt.c_str(), 0, 10);
			size_t w = r.below(5); f[2].txt = w == 0 ? std::to_string(n) : v[w - 1]; o.push_back(tjoin(f)); break; }
		size_t n = tcount(a, T_CNT); o.push_back(n ? tmutate(a, T_CNT, r.below(n), r, "") : l + "0"); break; }
	}
	return o;
}

// =========================================================================== OpenPGP
struct Pkt { unsigned tag; bool newfmt; Bytes body; bool partial = false, indet = false; };

// own minimal packet splitter (RFC 4880 section 4.2); stops at the first malformed header
inline std::vector<Pkt> pgp_split(const Bytes &in, Bytes *rest = nullptr) {
	std::vector<Pkt> v; size_t p = 0;
	while (p < in.size()) {
		unsigned char h = in[p]; if (!(h & 0x80)) break;
		Pkt k; size_t q = p + 1; k.newfmt = h & 0x40;
		if (k.newfmt) {
			k.tag = h & 0x3f; bool more = true;
			while (more) {
				if (q >= in.size()) goto out; unsigned o = in[q]; size_t len;
				if (o < 192) { len = o; q += 1; more = false; }
				else if (o < 224) { if (q + 1 >= in.size()) goto out; len = ((o - 192) << 8) + in[q + 1] + 192; q += 2; more = false; }
				else if (o == 255) { if (q + 4 >= in.size()) goto out; len = ((size_t)in[q + 1] << 24) | (in[q + 2] << 16) | (in[q + 3] << 8) | in[q + 4]; q += 5; more = false; }
				else { len = (size_t)1 << (o & 0x1f); q += 1; k.partial = true; }
				if (q + len > in.size()) goto out;
				k.body.insert(k.body.end(), in.begin() + q, in.begin() + q + len); q += len;
			}
		} else {
			k.tag = (h >> 2) & 0x0f; unsigned lt = h & 3; size_t len;
			if (lt == 0) { if (q >= in.size()) goto out; len = in[q]; q += 1; }
			else if (lt == 1) { if (q + 1 >= in.size()) goto out; len = (in[q] << 8) | in[q + 1]; q += 2; }
			else if (lt == 2) { if (q + 3 >= in.size()) goto out; len = ((size_t)in[q] << 24) | (in[q + 1] << 16) | (in[q + 2] << 8) | in[q + 3]; q += 4; }
			else { len = in.size() - q; k.indet = true; }
			if (q + len > in.size()) goto out;
			k.body.assign(in.begin() + q, in.begin() + q + len); q += len;
		}
		v.push_back(k); p = q;
	}
out:
	if (rest) rest->assign(in.begin() + p, in.end());
	return v;
}

// header encodings: 0 old/1 octet, 1 old/2, 2 old/4, 3 old/indeterminate, 4 new/1, 5 new/2, 6 new/5,
// 7 new/partial (512-byte first chunk, then 2^k chunks, final definite length), 8 new/partial with tiny chunks
enum { N_LENFORMS = 9 };
inline void put_newlen(Bytes &o, size_t len, int form) {
	if (form == 4) o.push_back((unsigned char)len);
	else if (form == 5) { size_t l = len - 192; o.push_back((unsigned char)((l >> 8) + 192)); o.push_back((unsigned char)l); }
	else { o.push_back(255); o.push_back(len >> 24); o.push_back(len >> 16); o.push_back(len >> 8); o.push_back(len); }
}
inline Bytes pgp_encode(const Pkt &k, int form) {
	Bytes o; size_t len = k.body.size();
	if (form <= 3) {
		o.push_back(0x80 | ((k.tag & 0x0f) << 2) | form);
		if (form == 0) o.push_back((unsigned char)len);
		else if (form == 1) { o.push_back(len >> 8); o.push_back(len); }
		else if (form == 2) { o.push_back(len >> 24); o.push_back(len >> 16); o.push_back(len >> 8); o.push_back(len); }
		o.insert(o.end(), k.body.begin(), k.body.end());
	} else if (form <= 6) {
		o.push_back(0xC0 | (k.tag & 0x3f)); put_newlen(o, len, form);
		o.insert(o.end(), k.body.begin(), k.body.end());
	} else {
		o.push_back(0xC0 | (k.tag & 0x3f)); size_t p = 0; unsigned e = (form == 7) ? 9 : 0;
		while (len - p > ((size_t)1 << e)) { o.push_back(224 + e); o.insert(o.end(), k.body.begin() + p, k.body.begin() + p + ((size_t)1 << e)); p += (size_t)1 << e; if (form == 8 && e < 4) e++; }
		size_t l = len - p; put_newlen(o, l, l < 192 ? 4 : (l < 8384 ? 5 : 6));
		o.insert(o.end(), k.body.begin() + p, k.body.end());
	}
	return o;
}
// smallest form valid for this packet
inline int pgp_natural_form(const Pkt &k) { size_t l = k.body.size(); if (k.tag > 15 || k.newfmt) return l < 192 ? 4 : (l < 8384 ? 5 : 6); return l < 256 ? 0 : (l < 65536 ? 1 : 2); }
inline bool pgp_form_valid(const Pkt &k, int form) {
	size_t l = k.body.size();
	if (form <= 3 && k.tag > 15) return false;
	switch (form) { case 0: return l < 256; case 1: return l < 65536; case 3: return false; case 4: return l < 192; case 5: return l >= 192 && l < 8384; case 7: return l > 512; case 8: return l > 1; }
	return true;
}
inline Bytes pgp_join(const std::vector<Pkt> &v) { Bytes o; for (auto &k : v) { Bytes e = pgp_encode(k, pgp_natural_form(k)); o.insert(o.end(), e.begin(), e.end()); } return o; }

enum PClass { P_ID = 0, P_LENFORM, P_LENVAL, P_PARTIAL, P_TAG, P_VERSION, P_ALGO, P_MPI, P_SUBPKT, P_PKT_DEL, P_PKT_DUP, P_PKT_SWAP, P_TRUNC, P_FLIP, P_SPLICE, P_NEST, P_BODYCUT, P_NCLASS };
static const char *const pclass_name[P_NCLASS] = { "id", "len-form", "len-value", "partial-len", "tag", "version", "algorithm", "mpi-bits", "subpacket", "pkt-del", "pkt-dup", "pkt-swap", "trunc", "byteflip", "splice", "nesting", "body-cut" };

static const unsigned long lenvals[] = { 0, 1, 2, 191, 192, 8383, 8384, 0xFFFF, 0x10000, 0x7FFFFFFF, 0x80000000UL, 0xFFFFFFFEUL, 0xFFFFFFFFUL };
static const size_t n_lenvals = sizeof(lenvals) / sizeof(lenvals[0]);
static const unsigned char algovals[] = { 0, 1, 2, 3, 4, 7, 8, 9, 10, 11, 16, 17, 18, 19, 20, 21, 22, 23, 24, 99, 100, 110, 127, 128, 254, 255 };
static const size_t n_algovals = sizeof(algovals);
static const unsigned char vervals[] = { 0, 1, 2, 3, 4, 5, 6, 127, 255 };
static const size_t n_vervals = sizeof(vervals);

struct PArt {
	Bytes raw; std::vector<Pkt> p;
	struct Mpi { size_t pkt, off; };           // offset of the two bit-count octets inside body
	struct Sub { size_t pkt, area_off, off, hlen, len; };   // subpacket: offset of its length header in body
	struct Area { size_t pkt, off; };          // offset of a two-octet subpacket-area length
	std::vector<Mpi> mpi; std::vector<Sub> sub; std::vector<Area> area;
	std::vector<std::pair<size_t, size_t>> algo;   // (pkt, offset) of algorithm / type octets
	// body cut: packet body shortened to `len` octets with a consistent header, at every field boundary
	// (+-1) and for all short lengths; ver: 0 as is, 1 key packet converted v4 -> v5 (octet count inserted)
	struct Cut { size_t pkt, len; int ver; };
	std::vector<Cut> cuts;
};

inline size_t scan_mpis(PArt &a, size_t pi, size_t off, size_t maxn) {
	const Bytes &b = a.p[pi].body; size_t n = 0;
	while (off + 2 <= b.size() && n < maxn) { size_t bits = (b[off] << 8) | b[off + 1], by = (bits + 7) / 8; if (off + 2 + by > b.size()) break; a.mpi.push_back({pi, off}); off += 2 + by; n++; }
	return off;
}
inline void scan_subs(PArt &a, size_t pi, size_t off) {
	const Bytes &b = a.p[pi].body;
	for (int ar = 0; ar < 2; ar++) {
		if (off + 2 > b.size()) return; size_t alen = (b[off] << 8) | b[off + 1]; a.area.push_back({pi, off}); size_t q = off + 2, end = q + alen; if (end > b.size()) return;
		while (q < end) {
			size_t hl, l; unsigned o = b[q];
			if (o < 192) { hl = 1; l = o; } else if (o < 255) { if (q + 1 >= end) break; hl = 2; l = ((o - 192) << 8) + b[q + 1] + 192; } else { if (q + 4 >= end) break; hl = 5; l = ((size_t)b[q + 1] << 24) | (b[q + 2] << 16) | (b[q + 3] << 8) | b[q + 4]; }
			if (!l || q + hl + l > end) break; a.sub.push_back({pi, off, q, hl, l}); q += hl + l;
		}
		off = end;
	}
}
inline PArt pparse(const Bytes &raw) {
	PArt a; a.raw = raw; a.p = pgp_split(raw);
	for (size_t i = 0; i < a.p.size(); i++) {
		const Bytes &b = a.p[i].body; unsigned t = a.p[i].tag; if (b.empty()) continue;
		if (t == 6 || t == 14 || t == 5 || t == 7) {
			if (b[0] == 4 && b.size() > 6) { a.algo.push_back({i, 5}); unsigned alg = b[5];
				if (alg == 18 || alg == 19 || alg == 22) { size_t ol = b[6]; a.algo.push_back({i, 6}); if (7 + ol <= b.size()) scan_mpis(a, i, 7 + ol, 1); }
				else { size_t n = (alg == 17) ? 4 : (alg == 16 ? 3 : 2); size_t e = scan_mpis(a, i, 6, n); if ((t == 5 || t == 7) && e < b.size()) { a.algo.push_back({i, e}); if (e + 1 < b.size()) a.algo.push_back({i, e + 1}); if (b[e] == 0) scan_mpis(a, i, e + 1, 4); } } }
		} else if (t == 2) {
			if (b[0] >= 4 && b.size() > 6) { a.algo.push_back({i, 1}); a.algo.push_back({i, 2}); a.algo.push_back({i, 3}); scan_subs(a, i, 4);
				size_t off = 4; for (int ar = 0; ar < 2 && off + 2 <= b.size(); ar++) off += 2 + ((b[off] << 8) | b[off + 1]); if (off + 2 <= b.size()) scan_mpis(a, i, off + 2, 2); }
			else if (b[0] == 3 && b.size() > 19) { a.algo.push_back({i, 2}); a.algo.push_back({i, 15}); a.algo.push_back({i, 16}); scan_mpis(a, i, 19, 2); }
		} else if (t == 1) { if (b.size() > 10) { a.algo.push_back({i, 9}); scan_mpis(a, i, 10, 2); } }
		else if (t == 3) { for (size_t k = 1; k < b.size() && k < 5; k++) a.algo.push_back({i, k}); }
		else if (t == 4) { for (size_t k = 1; k < b.size() && k < 4; k++) a.algo.push_back({i, k}); }
		else if (t == 8 || t == 9 || t == 18 || t == 20 || t == 11) { a.algo.push_back({i, 0}); if (t == 20) for (size_t k = 1; k < b.size() && k < 4; k++) a.algo.push_back({i, k}); }
	}
	for (size_t i = 0; i < a.p.size(); i++) {
		const Bytes &b = a.p[i].body; unsigned t = a.p[i].tag; std::vector<size_t> L;
		for (size_t l = 0; l < 16 && l < b.size(); l++) L.push_back(l);
		auto around = [&](size_t o) { for (long d = -1; d <= 2; d++) { long x = (long)o + d; if (x >= 0 && (size_t)x < b.size()) L.push_back((size_t)x); } };
		for (auto &m : a.mpi) if (m.pkt == i) { around(m.off); size_t by = (((b[m.off] << 8) | b[m.off + 1]) + 7) / 8; around(m.off + 2 + by); }
		for (auto &al : a.algo) if (al.first == i) around(al.second);
		for (auto &s : a.sub) if (s.pkt == i) { around(s.off); around(s.off + s.hlen); around(s.off + s.hlen + s.len); }
		for (auto &ar : a.area) if (ar.pkt == i) around(ar.off);
		if (b.size() > 24) { L.push_back(b.size() - 1); L.push_back(b.size() - 2); L.push_back(b.size() - 20); L.push_back(b.size() - 22); }
		std::sort(L.begin(), L.end()); L.erase(std::unique(L.begin(), L.end()), L.end());
		bool key4 = (t == 5 || t == 6 || t == 7 || t == 14) && !b.empty() && b[0] == 4;
		for (size_t l : L) { a.cuts.push_back({i, l, 0}); if (key4) a.cuts.push_back({i, l, 1}); }
	}
	return a;
}

enum { N_MPI_OPS = 10, N_SUB_OPS = 18, N_AREA_OPS = 6, N_PARTIAL_OPS = 8, N_NEST_OPS = 8 };
inline size_t pcount(const PArt &a, int c) {
	size_t np = a.p.size(), len = a.raw.size();
	switch (c) {
	case P_ID: return 1;
	case P_LENFORM: return np * N_LENFORMS;
	case P_LENVAL: return np * n_lenvals * 3;
	case P_PARTIAL: return np * N_PARTIAL_OPS;
	case P_TAG: return np * 64;
	case P_VERSION: return np * n_vervals;
	case P_ALGO: return a.algo.size() * n_algovals;
	case P_MPI: return a.mpi.size() * N_MPI_OPS;
	case P_SUBPKT: return a.sub.size() * N_SUB_OPS + a.area.size() * N_AREA_OPS;
	case P_PKT_DEL: case P_PKT_DUP: return np;
	case P_PKT_SWAP: return np > 1 ? np - 1 : 0;
	case P_TRUNC: return len;
	case P_FLIP: return len * 4;
	case P_SPLICE: return len;
	case P_NEST: return N_NEST_OPS;
	case P_BODYCUT: return a.cuts.size();
	}
	return 0;
}
inline Bytes join_with(const PArt &a, size_t idx, const Bytes &enc) { Bytes o; for (size_t i = 0; i < a.p.size(); i++) { Bytes e = (i == idx) ? enc : pgp_encode(a.p[i], pgp_natural_form(a.p[i])); o.insert(o.end(), e.begin(), e.end()); } return o; }
inline void put_be(Bytes &o, unsigned long v, int n) { for (int i = n - 1; i >= 0; i--) o.push_back((unsigned char)(v >> (8 * i))); }

inline Bytes pmutate(const PArt &a, int c, size_t v, vf::Rng &r, const Bytes &other) {
	size_t np = a.p.size();
	switch (c) {
	case P_ID: return a.raw;
	case P_LENFORM: { size_t i = (v / N_LENFORMS) % np; int form = v % N_LENFORMS; Pkt k = a.p[i];
		if (!pgp_form_valid(k, form)) { // invalid use of a form: low bits of the length only / indeterminate in the middle
			if (form <= 3) k.tag &= 0x0f; }
		return join_with(a, i, pgp_encode(k, form)); }
	case P_LENVAL: { // announced length differs from what follows; three header styles
		size_t i = (v / (n_lenvals * 3)) % np; unsigned long L = lenvals[(v / 3) % n_lenvals]; int st = v % 3; const Pkt &k = a.p[i]; Bytes e;
		if (st == 0) { e.push_back(0xC0 | (k.tag & 0x3f)); e.push_back(255); put_be(e, L, 4); }
		else if (st == 1) { e.push_back(0x80 | ((k.tag & 0x0f) << 2) | 2); put_be(e, L, 4); }
		else { if (L < 192) { e.push_back(0xC0 | (k.tag & 0x3f)); e.push_back(L); } else if (L < 8384) { e.push_back(0xC0 | (k.tag & 0x3f)); e.push_back(((L - 192) >> 8) + 192); e.push_back((L - 192) & 0xff); } else { e.push_back(0x80 | ((k.tag & 0x0f) << 2) | 1); put_be(e, L & 0xffff, 2); } }
		e.insert(e.end(), k.body.begin(), k.body.end()); return join_with(a, i, e); }
	case P_PARTIAL: { size_t i = (v / N_PARTIAL_OPS) % np; const Pkt &k = a.p[i]; Bytes e; e.push_back(0xC0 | (k.tag & 0x3f)); size_t l = k.body.size();
		switch (v % N_PARTIAL_OPS) {
		case 0: e.push_back(224); e.insert(e.end(), k.body.begin(), k.body.end()); break;                                  // 1-octet chunk announced, never terminated
		case 1: e.push_back(224 + 30); e.insert(e.end(), k.body.begin(), k.body.end()); break;                             // 2^30 chunk announced
		case 2: e.push_back(224 + 31); e.insert(e.end(), k.body.begin(), k.body.end()); break;                             // 2^31
		case 3: for (size_t q = 0; q < l; q++) { e.push_back(224); e.push_back(k.body[q]); } break;                          // only partial chunks, no final length
		case 4: for (size_t q = 0; q < l; q++) { e.push_back(224); e.push_back(k.body[q]); } e.push_back(0); break;         // 1-octet chunks + empty final
		case 5: e.push_back(224 + 9); e.insert(e.end(), k.body.begin(), k.body.end()); e.push_back(255); put_be(e, 0xFFFFFFFFUL, 4); break; // final length huge
		case 6: { unsigned ex = 0; while (((size_t)2 << ex) <= l) ex++; e.push_back(224 + ex); e.insert(e.end(), k.body.begin(), k.body.begin() + ((size_t)1 << ex)); e.push_back(255); put_be(e, 0xFFFFFFFEUL, 4); e.insert(e.end(), k.body.begin() + ((size_t)1 << ex), k.body.end()); break; }
		default: for (int q = 0; q < 2000; q++) e.push_back(224); break;                                                       // run of partial headers
		}
		return join_with(a, i, e); }
	case P_TAG: { size_t i = (v / 64) % np; Pkt k = a.p[i]; k.tag = v % 64; k.newfmt = true; int f = pgp_natural_form(k); return join_with(a, i, pgp_encode(k, f)); }
	case P_VERSION: { size_t i = (v / n_vervals) % np; Pkt k = a.p[i]; if (!k.body.empty()) k.body[0] = vervals[v % n_vervals]; return join_with(a, i, pgp_encode(k, pgp_natural_form(k))); }
	case P_ALGO: { auto pr = a.algo[(v / n_algovals) % a.algo.size()]; Pkt k = a.p[pr.first]; k.body[pr.second] = algovals[v % n_algovals]; return join_with(a, pr.first, pgp_encode(k, pgp_natural_form(k))); }
	case P_MPI: { auto m = a.mpi[(v / N_MPI_OPS) % a.mpi.size()]; Pkt k = a.p[m.pkt]; size_t bits = (k.body[m.off] << 8) | k.body[m.off + 1], by = (bits + 7) / 8; unsigned long nb = bits;
		switch (v % N_MPI_OPS) {
		case 0: nb = 0; break; case 1: nb = 1; break; case 2: nb = bits ? bits - 1 : 7; break; case 3: nb = bits + 1; break; case 4: nb = bits + 8; break; case 5: nb = bits > 8 ? bits - 8 : 0; break;
		case 6: nb = 0xFFFF; break; case 7: nb = 0xFFF9; break;
		case 8: if (by) k.body[m.off + 2] = 0; break;                         // leading zero octet (bit count too large for the value)
		default: k.body.erase(k.body.begin() + m.off + 2, k.body.begin() + m.off + 2 + by / 2); break;   // payload shortened, count kept
		}
		k.body[m.off] = nb >> 8; k.body[m.off + 1] = nb & 0xff; return join_with(a, m.pkt, pgp_encode(k, pgp_natural_form(k))); }
	case P_SUBPKT: {
		size_t ns = a.sub.size() * N_SUB_OPS;
		if (v < ns) { auto s = a.sub[v / N_SUB_OPS]; Pkt k = a.p[s.pkt]; Bytes &b = k.body; int op = v % N_SUB_OPS;
			Bytes payload(b.begin() + s.off + s.hlen, b.begin() + s.off + s.hlen + s.len), hdr; long delta = 0; bool fix_area = true;
			auto len5 = [&](unsigned long L) { hdr.push_back(255); put_be(hdr, L, 4); };
			switch (op) {
			case 0: hdr.push_back(s.len < 192 ? s.len : 191); if (s.len >= 192) payload.resize(191); break;                 // 1-octet form
			case 1: if (s.len >= 192) { hdr.push_back(((s.len - 192) >> 8) + 192); hdr.push_back((s.len - 192) & 0xff); } else { hdr.push_back(192); hdr.push_back(0); payload.resize(192, 0); } break; // 2-octet form (padded)
			case 2: len5(s.len); break;                                                                                      // 5-octet form, same length
			case 3: len5(0xFFFFFFFFUL); break;  case 4: len5(0xFFFFFFFEUL); break; case 5: len5(0x80000000UL); break; case 6: len5(0x7FFFFFFFUL); break;
			case 7: len5(0); break; case 8: hdr.push_back(0); break;                                                         // zero length
			case 9: hdr.push_back(1); break;                                                                                  // only the type octet
			case 10: hdr.push_back((s.len + 1) & 0xff ? (s.len + 1 < 192 ? s.len + 1 : 191) : 1); break;                      // one more than present
			case 11: hdr.push_back(191); break;
			case 12: hdr.push_back(254); hdr.push_back(255); break;                                                           // 2-octet maximum 16319
			case 13: hdr.insert(hdr.end(), b.begin() + s.off, b.begin() + s.off + s.hlen); payload[0] ^= 0x80; break;         // critical bit
			case 14: hdr.insert(hdr.end(), b.begin() + s.off, b.begin() + s.off + s.hlen); payload[0] = (payload[0] & 0x80) | (unsigned char)(100 + r.below(28)); break; // unknown/private type
			case 15: hdr.insert(hdr.end(), b.begin() + s.off, b.begin() + s.off + s.hlen); payload[0] = (unsigned char)r.below(40); break;   // other known type, wrong payload size
			case 16: hdr.insert(hdr.end(), b.begin() + s.off, b.begin() + s.off + s.hlen); payload.insert(payload.end(), hdr.begin(), hdr.end()); payload.insert(payload.end(), payload.begin(), payload.begin() + s.len); fix_area = true; break; // duplicate (appended inside: longer than announced)
			default: hdr.clear(); payload.clear(); break;                                                                     // subpacket removed
			}
			delta = (long)(hdr.size() + payload.size()) - (long)(s.hlen + s.len);
			b.erase(b.begin() + s.off, b.begin() + s.off + s.hlen + s.len); b.insert(b.begin() + s.off, payload.begin(), payload.end()); b.insert(b.begin() + s.off, hdr.begin(), hdr.end());
			if (fix_area) { long al = ((b[s.area_off] << 8) | b[s.area_off + 1]) + delta; if (al < 0) al = 0; if (al > 0xFFFF) al = 0xFFFF; b[s.area_off] = al >> 8; b[s.area_off + 1] = al & 0xff; }
			return join_with(a, s.pkt, pgp_encode(k, pgp_natural_form(k)));
		} else { size_t w = v - ns; auto ar = a.area[(w / N_AREA_OPS) % a.area.size()]; Pkt k = a.p[ar.pkt]; unsigned long L = (k.body[ar.off] << 8) | k.body[ar.off + 1];
			static const long d[N_AREA_OPS] = { 0, 1, -1, 0xFFFF, 0x8000, 2 }; int op = w % N_AREA_OPS; unsigned long nl = op == 0 ? 0 : (op == 1 ? L + 1 : (op == 2 ? (L ? L - 1 : 0xFFFE) : (op == 5 ? L + 2 : (unsigned long)d[op])));
			k.body[ar.off] = nl >> 8; k.body[ar.off + 1] = nl & 0xff; return join_with(a, ar.pkt, pgp_encode(k, pgp_natural_form(k))); }
	}
	case P_PKT_DEL: { std::vector<Pkt> p = a.p; p.erase(p.begin() + v % np); return pgp_join(p); }
	case P_PKT_DUP: { std::vector<Pkt> p = a.p; p.insert(p.begin() + v % np, p[v % np]); return pgp_join(p); }
	case P_PKT_SWAP: { std::vector<Pkt> p = a.p; std::swap(p[v % (np - 1)], p[v % (np - 1) + 1]); return pgp_join(p); }
	case P_TRUNC: return Bytes(a.raw.begin(), a.raw.begin() + v % (a.raw.size() ? a.raw.size() : 1));
	case P_FLIP: { Bytes s = a.raw; if (s.empty()) return s; size_t o = (v / 4) % s.size();
		switch (v % 4) { case 0: s[o] ^= (unsigned char)(1 << r.below(8)); break; case 1: s[o] = (unsigned char)r.below(256); break; case 2: s.erase(s.begin() + o); break; default: s.insert(s.begin() + o, (unsigned char)r.below(256)); }
		return s; }
	case P_SPLICE: { size_t o = v % (a.raw.size() + 1); size_t p = other.empty() ? 0 : r.below(other.size() + 1); Bytes s(a.raw.begin(), a.raw.begin() + o); s.insert(s.end(), other.begin() + p, other.end()); return s; }
	case P_BODYCUT: { const PArt::Cut &c = a.cuts[v % a.cuts.size()]; Pkt k = a.p[c.pkt];
		if (c.ver == 1) { k.body[0] = 5; if (k.body.size() >= 6) { size_t rest = k.body.size() - 6; Bytes cnt; put_be(cnt, rest, 4); k.body.insert(k.body.begin() + 6, cnt.begin(), cnt.end()); } k.body.resize(std::min(k.body.size(), c.len >= 6 ? c.len + 4 : c.len)); }
		else k.body.resize(c.len);
		return join_with(a, c.pkt, pgp_encode(k, pgp_natural_form(k))); }
	case P_NEST: { // compressed-data / literal / marker wrappers
		Pkt k; k.newfmt = true; Bytes inner = a.raw;
		switch (v % N_NEST_OPS) {
		case 0: k.tag = 8; k.body.push_back(0); k.body.insert(k.body.end(), inner.begin(), inner.end()); break;                   // "uncompressed" compression
		case 1: k.tag = 8; k.body.push_back(1); k.body.insert(k.body.end(), inner.begin(), inner.end()); break;                   // ZIP marker, not deflate data
		case 2: k.tag = 8; k.body.push_back(2); k.body.insert(k.body.end(), inner.begin(), inner.end()); break;                   // ZLIB marker
		case 3: k.tag = 8; k.body.push_back(3); k.body.insert(k.body.end(), inner.begin(), inner.end()); break;                   // BZip2 marker
		case 4: { for (int d = 0; d < 40; d++) { Pkt w; w.newfmt = true; w.tag = 8; w.body.push_back(0); w.body.insert(w.body.end(), inner.begin(), inner.end()); inner = pgp_encode(w, pgp_natural_form(w)); } return inner; }   // 40 levels
		case 5: k.tag = 11; k.body.push_back('b'); k.body.push_back(0); put_be(k.body, 0, 4); k.body.insert(k.body.end(), inner.begin(), inner.end()); break;  // literal wrapping packets
		case 6: { k.tag = 10; k.body = {'P', 'G', 'P'}; Bytes e = pgp_encode(k, 4); e.insert(e.end(), inner.begin(), inner.end()); return e; }               // marker packet first
		default: k.tag = 8; k.body.push_back(1); { static const unsigned char bomb[] = { 0xed, 0xc1, 0x01, 0x0d, 0x00, 0x00, 0x00, 0xc2, 0xa0, 0xf7, 0x4f, 0x6d, 0x0f, 0x07, 0x14 }; k.body.insert(k.body.end(), bomb, bomb + sizeof bomb); } break; // deflate stream of zeros
		}
		return pgp_encode(k, pgp_natural_form(k)); }
	}
	return a.raw;
}

// ---------------------------------------------------------------- ASCII armor
enum { A_NCLASS = 20 };
static const char *const aclass_name[A_NCLASS] = { "id", "crc-wrong", "crc-missing", "crc-short", "crc-nonradix", "high-bit-chars", "pad-middle", "no-end", "begin-end-mismatch", "no-blank-line",
	"long-header", "many-headers", "no-newlines", "one-char-lines", "double-block", "empty-body", "only-padding", "nul-bytes", "trunc", "byteflip" };
inline std::string amutate(const std::string &arm, int c, size_t v, vf::Rng &r) {
	std::string s = arm; size_t crc = s.rfind("\n=");   // CRC line
	size_t body = s.find("\r\n\r\n"); size_t bl = 4; if (body == s.npos) { body = s.find("\n\n"); bl = 2; }
	size_t end = s.find("-----END");
	switch (c) {
	case 0: return s;
	case 1: if (crc != s.npos && crc + 3 < s.size()) s[crc + 3] = (s[crc + 3] == 'A') ? 'B' : 'A'; return s;
	case 2: if (crc != s.npos && end != s.npos && end > crc) s.erase(crc + 1, end - crc - 1); return s;
	case 3: if (crc != s.npos) s.erase(crc + 2, 1 + r.below(3)); return s;
	case 4: if (crc != s.npos && crc + 4 < s.size()) { s[crc + 2] = (char)0xFF; s[crc + 3] = (char)0x80; s[crc + 4] = '\x7f'; } return s;
	case 5: if (body != s.npos && end != s.npos && end > body + bl + 8) { for (int k = 0; k < 1 + (int)(v % 4); k++) { size_t o = body + bl + r.below(end - body - bl - 1); if (s[o] != '\n' && s[o] != '\r') s[o] = (char)(0x80 + r.below(128)); } } return s;
	case 6: if (body != s.npos && end != s.npos && end > body + bl + 8) { size_t o = body + bl + r.below(end - body - bl - 1); s[o] = '='; if (v & 1) s.insert(o, "==="); } return s;
	case 7: if (end != s.npos) s.erase(end); return s;
	case 8: { size_t p = s.find("PUBLIC KEY BLOCK", end == s.npos ? 0 : end); if (p == s.npos) p = s.find("SIGNATURE", end == s.npos ? 0 : end); if (p == s.npos) p = s.find("MESSAGE", end == s.npos ? 0 : end); if (p != s.npos) s.replace(p, 7, "ARMORED"); return s; }
	case 9: if (body != s.npos) s.erase(body, bl / 2); return s;
	case 10: { size_t p = s.find('\n'); if (p != s.npos) s.insert(p + 1, "Comment: " + std::string(v & 1 ? 100000 : 5000, 'c') + "\r\n"); return s; }
	case 11: { size_t p = s.find('\n'); if (p != s.npos) { std::string h; for (int k = 0; k < 3000; k++) h += "Version: x\r\n"; s.insert(p + 1, h); } return s; }
	case 12: s.erase(std::remove(s.begin(), s.end(), '\n'), s.end()); s.erase(std::remove(s.begin(), s.end(), '\r'), s.end()); return s;
	case 13: if (body != s.npos && end != s.npos && end > body + bl) { std::string mid; for (size_t o = body + bl; o < end; o++) { if (s[o] == '\r' || s[o] == '\n') continue; mid += s[o]; mid += "\r\n"; } s = s.substr(0, body + bl) + mid + s.substr(end); } return s;
	case 14: return s + s;
	case 15: if (body != s.npos && end != s.npos && end > body + bl) s.erase(body + bl, end - body - bl); return s;
	case 16: if (body != s.npos && end != s.npos && end > body + bl) s.replace(body + bl, end - body - bl, "====\r\n=====\r\n"); return s;
	case 17: if (!s.empty()) { for (int k = 0; k < 3; k++) s[r.below(s.size())] = '\0'; } return s;
	case 18: return s.substr(0, v % (s.size() ? s.size() : 1));
	default: { if (s.empty()) return s; size_t o = r.below(s.size()); s[o] = (char)r.below(256); return s; }
	}
}

} // namespace c12
