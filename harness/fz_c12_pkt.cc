// libFuzzer target: ASCII armor decoder + packet decoder (all packet types) + subpacket decoder
#include "c12_fz.hh"
using namespace c12;
extern "C" int LLVMFuzzerTestOneInput(const uint8_t *data, size_t size) {
	fz_init(false); fz_reseed(data, size); std::string s((const char *)data, size);
	if (size && (data[0] & 0x80)) { pgp_packet_decode(s); pgp_subpacket_decode(s.substr(1)); }
	else { Oct out; tmcg_openpgp_armor_t t = PGP::ArmorDecode(s, out); if (t != TMCG_OPENPGP_ARMOR_UNKNOWN && out.size()) pgp_packet_decode(b2sx(out)); pgp_subpacket_decode(s); }
	return 0;
}
