// libFuzzer target: ASCII armor + packet / subpacket decoder + key block / keyring parsers
#include "c12_fz.hh"
using namespace c12;
extern "C" int LLVMFuzzerTestOneInput(const uint8_t *data, size_t size) {
	fz_init(true); fz_reseed(data, size); std::string s((const char *)data, size);
	if (size && (data[0] & 0x80)) { pgp_packet_decode(s); pgp_pubkey_block(s); pgp_prvkey_block(s); pgp_keyring(s); }
	else { pgp_armor_decode(s); pgp_pubkey_block_armored(s); pgp_prvkey_block_armored(s); pgp_keyring_armored(s); pgp_subpacket_decode(s); }
	return 0;
}
