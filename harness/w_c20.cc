// w_c20.cc — C20: OpenPGP signatures and encryption are tamper-evident.
// One case = one artefact (signature / key block / encrypted message) made with the
// library, its positive check (the library verifies / decrypts what it produced) and the
// tamper sweep over every region of the artefact (fault enumeration).  Regions come from
// c20_util.hh::walk (independent of the library's parser).
//   judged regions   : a flip must be refused (signed data, hashed fields, signature
//                      value, key material, ciphertext, tags, associated data)
//   semantic regions : packet framing, unhashed area, left-16, MPI bit counts: a flip may
//                      be accepted only if the accepted content is identical (equivalent
//                      encoding); accepted different content is a violation
#include "c20_util.hh"
#include "c20_cases.hh"

int main(int argc, char **argv) {
	vf::init(argc, argv);
	vf::null_cerr();
	if (!init_libTMCG()) { fprintf(stderr, "init_libTMCG failed\n"); return 2; }
	c20::setup();
	long k = 0;
	c20::run_docsig(k);
	c20::run_keysig(k);
	c20::run_keyblock(k);
	c20::run_enc(k);
	vf::finish();
	return 0;
}
