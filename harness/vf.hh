// vf.hh — common harness runtime: arguments, case protocol, JSON lines,
// deterministic PRNG.  Every workload driver (w_cXX.cc) uses this.
//
// Protocol (one JSON object per line, written to --out, flushed per line):
//   {"t":"begin","case":k,"desc":"..."}            before a case starts
//   {"t":"end","case":k,"key":"...","nt":true,"evals":1,"distinct":1,"sample":{..}}
//   {"t":"viol","case":k,"key":"<violation key>","what":"...","witness":{..}}
//   {"t":"rec", ...}                               record for an offline checker
//   {"t":"count","counts":{name:n,...}}             at the end
//   {"t":"done"}
// A process that dies between "begin" and "end" is attributed to that case by
// the driver (lib/vf/runner.py), which restarts the shard at case k+1.
#pragma once
#include <cstdint>
#include <cstdio>
#include <cstring>
#include <map>
#include <sstream>
#include <string>
#include <vector>
#include <gmp.h>

namespace vf {

// ---------------------------------------------------------------- PRNG
struct Rng {
	uint64_t s[4];
	std::vector<int> script; size_t script_pos = 0; bool scripted = false;
	uint64_t calls = 0, bytes = 0;
	static uint64_t sm(uint64_t &x) { uint64_t z = (x += 0x9e3779b97f4a7c15ULL); z = (z ^ (z >> 30)) * 0xbf58476d1ce4e5b9ULL; z = (z ^ (z >> 27)) * 0x94d049bb133111ebULL; return z ^ (z >> 31); }
	Rng() { seed(1, 2); }
	Rng(uint64_t a, uint64_t b, uint64_t c = 0) { seed(a, b, c); }
	void seed(uint64_t a, uint64_t b, uint64_t c = 0) { uint64_t x = a * 0x100000001b3ULL ^ (b + 0x632be59bd9b4e019ULL) ^ (c * 0x9e3779b97f4a7c15ULL); for (int i = 0; i < 4; i++) s[i] = sm(x); }
	static uint64_t rotl(uint64_t x, int k) { return (x << k) | (x >> (64 - k)); }
	uint64_t next() { uint64_t r = rotl(s[1] * 5, 7) * 9, t = s[1] << 17; s[2] ^= s[0]; s[3] ^= s[1]; s[1] ^= s[2]; s[0] ^= s[3]; s[2] ^= t; s[3] = rotl(s[3], 45); return r; }
	// uniform in [0,n) (n>0), rejection sampling
	uint64_t below(uint64_t n) { if (n <= 1) return 0; uint64_t lim = UINT64_MAX - (UINT64_MAX % n); uint64_t r; do r = next(); while (r >= lim); return r % n; }
	bool coin() { return next() >> 63; }
	void fill(void *buf, size_t n) {
		calls++; bytes += n; unsigned char *b = (unsigned char *)buf;
		if (scripted && script_pos < script.size()) { memset(b, script[script_pos++] ? 0xFF : 0x00, n); return; }
		for (size_t i = 0; i < n; i++) b[i] = next() >> 56;
	}
	// random mpz with exactly/at most `bits` bits
	void mpz_bits(mpz_ptr r, size_t bits) { size_t nb = (bits + 7) / 8; std::vector<unsigned char> v(nb ? nb : 1, 0); for (auto &c : v) c = next() >> 56; mpz_import(r, nb, 1, 1, 0, 0, v.data()); mpz_tdiv_r_2exp(r, r, bits); }
	void mpz_below(mpz_ptr r, mpz_srcptr m) { size_t bits = mpz_sizeinbase(m, 2) + 64; mpz_bits(r, bits); mpz_mod(r, r, m); }
};

// the stream the interposed gcry_randomize/gcry_create_nonce read from:
// thread-local pointer (one per cooperative task) with a process-wide fallback
extern thread_local Rng *tl_rng;
extern Rng g_rng;
inline Rng &cur_rng() { return tl_rng ? *tl_rng : g_rng; }
// real libgcrypt randomness instead of the interposed PRNG (C07 sub-check)
extern bool g_real_rng;

// ---------------------------------------------------------------- JSON
std::string jesc(const std::string &s);
std::string mpz_dec(mpz_srcptr v);
std::string mpz_b62(mpz_srcptr v);
std::string hex(const unsigned char *p, size_t n);
inline std::string hex(const std::vector<unsigned char> &v) { return hex(v.data(), v.size()); }
std::string shorten(const std::string &s, size_t max = 160);
struct J {
	std::string s; bool first = true;
	J() { s = "{"; }
	J &sep(const char *k) { if (!first) s += ","; first = false; s += "\""; s += k; s += "\":"; return *this; }
	J &kv(const char *k, const std::string &v) { sep(k); s += "\"" + jesc(v) + "\""; return *this; }
	J &kv(const char *k, const char *v) { return kv(k, std::string(v)); }
	J &kv(const char *k, long long v) { sep(k); s += std::to_string(v); return *this; }
	J &kv(const char *k, unsigned long long v) { sep(k); s += std::to_string(v); return *this; }
	J &kv(const char *k, long v) { return kv(k, (long long)v); }
	J &kv(const char *k, unsigned long v) { return kv(k, (unsigned long long)v); }
	J &kv(const char *k, int v) { return kv(k, (long long)v); }
	J &kv(const char *k, unsigned v) { return kv(k, (long long)v); }
	J &kv(const char *k, bool v) { sep(k); s += v ? "true" : "false"; return *this; }
	J &kv(const char *k, double v) { sep(k); char b[64]; snprintf(b, sizeof b, "%.9g", v); s += b; return *this; }
	J &kz(const char *k, mpz_srcptr v) { return kv(k, mpz_dec(v)); }        // big integer as decimal string
	J &raw(const char *k, const std::string &json) { sep(k); s += json; return *this; }
	J &arr(const char *k, const std::vector<std::string> &v) { sep(k); s += "["; for (size_t i = 0; i < v.size(); i++) { if (i) s += ","; s += "\"" + jesc(v[i]) + "\""; } s += "]"; return *this; }
	template <class T> J &arrn(const char *k, const std::vector<T> &v) { sep(k); s += "["; for (size_t i = 0; i < v.size(); i++) { if (i) s += ","; s += std::to_string(v[i]); } s += "]"; return *this; }
	std::string str() const { return s + "}"; }
};

// ---------------------------------------------------------------- context
struct Ctx {
	std::string tier = "quick";
	uint64_t seed = 1;
	long shard = 0, nshards = 1;
	long start = 0;            // skip cases below this index (restart after a crash)
	long only = -1;            // run exactly this case (replay)
	std::string out_path, replay_path, workdir;
	std::map<std::string, std::string> opt; // --opt k=v
	FILE *out = nullptr;
	long cur_case = -1;
	long samples_emitted = 0, max_samples = 4;
	std::map<std::string, long long> counts;
	bool quick() const { return tier == "quick"; }
	bool thorough() const { return tier != "quick"; }
	std::string option(const std::string &k, const std::string &dflt = "") const { auto it = opt.find(k); return it == opt.end() ? dflt : it->second; }
	long option_l(const std::string &k, long dflt) const { auto it = opt.find(k); return it == opt.end() ? dflt : atol(it->second.c_str()); }
};
extern Ctx ctx;

void init(int argc, char **argv);          // parse arguments, open output, init libTMCG-independent state
// true  -> the caller must run case k and finish with case_end();
// false -> case k belongs to another shard / is skipped
bool case_begin(long k, const std::string &desc);
// key: string identifying the case for distinct counting (its E-tuple without verdict)
// nontrivial: the case reached its oracle; sample: JSON object (may be "") shown in the evidence
void case_end(const std::string &key, bool nontrivial, const std::string &sample_json = "",
              long long evals = 1, long long distinct = 1);
void violation(const std::string &key, const std::string &what, const std::string &witness_json = "{}");
void record(const std::string &json);      // {"t":"rec", ...json fields}
void count(const std::string &name, long long n = 1);
void finish();                             // emits counts + done
// per-case PRNG: deterministic in (seed, case, lane)
inline Rng case_rng(long k, uint64_t lane = 0) { return Rng(ctx.seed, (uint64_t)k + 0x1000, lane); }
inline Rng setup_rng(uint64_t lane = 0) { return Rng(ctx.seed, 0x5e7, lane); }
uint64_t fnv(const std::string &s);
std::string read_file(const std::string &p);

// refusal predicate helper: runs f, returns 1 accepted / 0 refused (false or std::exception)
template <class F> int accepted(F f, std::string *exc = nullptr) {
	try { return f() ? 1 : 0; }
	catch (std::exception &e) { if (exc) *exc = e.what(); return 0; }
}

} // namespace vf
