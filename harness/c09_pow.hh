// c09_pow.hh — modular exponentiation variants against mpz_powm
#pragma once
#include "c09_common.hh"

namespace c09 {

enum PowFn { SPOWM = 0, BASEBLIND, CALC, FPOWM, FPOWM_UI, FSPOWM, NPOWFN };
static const char *pow_name[NPOWFN] = {"tmcg_mpz_spowm", "tmcg_mpz_spowm_baseblind", "tmcg_mpz_spowm_calc", "tmcg_mpz_fpowm", "tmcg_mpz_fpowm_ui", "tmcg_mpz_fspowm"};

// exponent classes (coverage obligation of the DESIGN)
enum ECls { E_0 = 0, E_P1, E_M1, E_P2, E_M2, E_QM1, E_Q, E_QP1, E_NEG_Q, E_MOD, E_ALLBITS, E_TBITS, E_T1BITS, E_MAXM1, E_MAX, E_RANDOM, E_ULMAX, NECLS };
static const char *ecls_name[NECLS] = {"0", "+1", "-1", "+2", "-2", "q-1", "q", "q+1", "neg(q-1|q|q+1)", "mod-1|mod|mod+1(+-)", "2^t-1(+-)", "exactly-t-bits(+-)", "t+1-bits(+-)", "2^2048-1(+-)", "2^2048(+-)", "random(+-)", "ULONG_MAX"};

struct PowStats {
	long long judged[NPOWFN] = {0}, noncoprime[NPOWFN] = {0}, beyond[NPOWFN] = {0}, evenmod[NPOWFN] = {0}, refused_ok[NPOWFN] = {0};
	long long beyond_agree[NPOWFN] = {0}, noncoprime_threw[NPOWFN] = {0}, noncoprime_agree[NPOWFN] = {0}, noncoprime_differ[NPOWFN] = {0};
	long long alias_judged[NPOWFN] = {0}, alias_exp_ok[NPOWFN] = {0}, alias_exp_bad[NPOWFN] = {0}, alias_base_ok[NPOWFN] = {0}, alias_base_bad[NPOWFN] = {0};
	long long cls[NECLS] = {0}, negexp_judged = 0, skipped_sigfpe = 0, wrongbase_refused = 0, zero_mod_refused = 0, calc_chain_max = 0;
	void flush() {
		for (int f = 0; f < NPOWFN; f++) {
			std::string n = std::string("pw.") + pow_name[f];
			count(n + ".judged", judged[f]); count(n + ".notjudged_base_not_coprime", noncoprime[f]);
			count(n + ".notjudged_beyond_precomputed_table", beyond[f]); count(n + ".notjudged_even_modulus", evenmod[f]);
			count(n + ".documented_refusal_observed", refused_ok[f]);
			count(n + ".beyond_table_result_equals_powm", beyond_agree[f]);
			count(n + ".judged_result_aliases_exponent", alias_judged[f]);
			count(n + ".notjudged_result_aliases_exponent_ok", alias_exp_ok[f]); count(n + ".notjudged_result_aliases_exponent_differs", alias_exp_bad[f]);
			count(n + ".notjudged_result_aliases_base_ok", alias_base_ok[f]); count(n + ".notjudged_result_aliases_base_differs", alias_base_bad[f]);
			count(n + ".noncoprime_threw", noncoprime_threw[f]); count(n + ".noncoprime_equals_powm", noncoprime_agree[f]); count(n + ".noncoprime_differs", noncoprime_differ[f]);
		}
		for (int c = 0; c < NECLS; c++) count(std::string("pw.expclass.") + ecls_name[c], cls[c]);
		count("pw.negative_exponent_judged", negexp_judged); count("pw.skipped_negexp_noninvertible_base(GMP raises SIGFPE)", skipped_sigfpe);
		count("pw.wrong_table_base_refused", wrongbase_refused); count("pw.zero_modulus_precompute_refused", zero_mod_refused);
	}
};
extern PowStats PS;

struct PowCtx {
	mpz_t *table = nullptr; size_t t_pre = 0;       // table + number of precomputed entries
	Rng *recr = nullptr; uint64_t rec_den = 32;      // record sampling
	CaseStat *cs = nullptr; long calc_idx = 0; unsigned long alias_ctr = 0, alias_every = 1;
};

// one evaluation.  For CALC the caller has done tmcg_mpz_spowm_init(e, m).
static void pow_eval(PowCtx &C, int fn, mpz_srcptr b, mpz_srcptr e, mpz_srcptr m, int ecls) {
	Z g, ref, out; mpz_gcd(g, b, m);
	bool coprime = mpz_cmp_ui(g, 1) == 0, odd = mpz_odd_p(m), neg = mpz_sgn(e) < 0, table = fn >= FPOWM;
	size_t ebits = mpz_sizeinbase(e, 2);
	if (fn == FPOWM_UI && (neg || !mpz_fits_ulong_p(e))) return;
	// a negative exponent on a non-invertible base is handed to mpz_powm by these two: GMP raises
	// SIGFPE by contract; the base is outside the property (not coprime), so it is not exercised
	if (neg && !coprime && (fn == BASEBLIND || fn == CALC)) { PS.skipped_sigfpe++; return; }
	bool must_refuse = (table && ebits > TMCG_MAX_FPOWM_T) || (fn == SPOWM && !odd);
	bool judged = !must_refuse && coprime && odd && mpz_cmp_ui(m, 1) > 0 && (!table || ebits <= C.t_pre);
	bool have_ref = coprime || !neg;
	if (have_ref) mpz_powm(ref, b, e, m);
	std::string what;
	Exc x = guard([&] {
		switch (fn) {
		case SPOWM: tmcg_mpz_spowm(out, b, e, m); break;
		case BASEBLIND: tmcg_mpz_spowm_baseblind(out, b, e, m); break;
		case CALC: tmcg_mpz_spowm_calc(out, b); break;
		case FPOWM: tmcg_mpz_fpowm(C.table, out, b, e, m); break;
		case FPOWM_UI: tmcg_mpz_fpowm_ui(C.table, out, b, mpz_get_ui(e), m); break;
		case FSPOWM: tmcg_mpz_fspowm(C.table, out, b, e, m); break;
		}
	}, &what);
	auto wit = [&]() { J w; w.kv("fn", pow_name[fn]).kz("base", b).kz("exp", e).kz("mod", m).kv("table_entries", (long long)C.t_pre).kv("exp_class", ecls_name[ecls]); if (x == X_NONE) w.kz("got", out); else w.kv("threw", std::string(exc_name(x)) + ": " + what); if (have_ref) w.kz("mpz_powm", ref); if (fn == CALC) w.kv("calc_index_since_init", C.calc_idx); return w; };
	std::string kbase = std::string("C09/pow/") + pow_name[fn] + "/";
	if (must_refuse) {
		if (x == X_NONE) viol(kbase + (table ? "accepted-exponent-longer-than-TMCG_MAX_FPOWM_T" : "accepted-even-modulus"), "documented refusal did not happen", wit());
		else PS.refused_ok[fn]++;
		if (C.cs) C.cs->evals++;
	} else if (judged) {
		PS.judged[fn]++; PS.cls[ecls]++; if (neg) PS.negexp_judged++;
		if (C.cs) { C.cs->evals++; C.cs->distinct++; }
		if (x != X_NONE) {
			Z ge; mpz_gcd(ge, e, m);
			bool shares = fn == SPOWM && mpz_sgn(e) > 0 && mpz_cmp_ui(ge, 1) != 0;
			viol(kbase + (shares ? "throws-exponent-shares-factor-with-modulus" : "refused-valid-input"), "exception for a base coprime to an odd modulus", wit());
		} else if (mpz_cmp(out, ref) != 0) viol(kbase + "wrong-result", "result differs from mpz_powm", wit());
	} else {
		if (!coprime) { PS.noncoprime[fn]++; if (x != X_NONE) PS.noncoprime_threw[fn]++; else if (have_ref && !mpz_cmp(out, ref)) PS.noncoprime_agree[fn]++; else PS.noncoprime_differ[fn]++; }
		else if (!odd) PS.evenmod[fn]++;
		else { PS.beyond[fn]++; if (x == X_NONE && have_ref && !mpz_cmp(out, ref)) PS.beyond_agree[fn]++; }
	}
	// argument aliasing.  The library's own callers pass one variable as result *and* exponent to the table
	// functions (26 call sites of tmcg_mpz_fpowm, 2 of tmcg_mpz_fspowm): judged.  Other shapes have no caller
	// and the header is silent about them: recorded only.
	if (judged && x == X_NONE && !mpz_cmp(out, ref) && fn != FPOWM_UI && (C.alias_ctr++ % C.alias_every) == 0) {
		if (fn != CALC) {
			Z t; mpz_set(t, e); std::string w2;
			Exc xa = guard([&] {
				switch (fn) {
				case SPOWM: tmcg_mpz_spowm(t, b, t, m); break; case BASEBLIND: tmcg_mpz_spowm_baseblind(t, b, t, m); break;
				case FPOWM: tmcg_mpz_fpowm(C.table, t, b, t, m); break; case FSPOWM: tmcg_mpz_fspowm(C.table, t, b, t, m); break;
				}
			}, &w2);
			bool okA = xa == X_NONE && !mpz_cmp(t, ref);
			if (table) {
				PS.alias_judged[fn]++; if (C.cs) { C.cs->evals++; }
				if (!okA) { J w = wit(); if (xa == X_NONE) w.kz("got_with_result_aliasing_exponent", t); else w.kv("threw_with_alias", std::string(exc_name(xa)) + ": " + w2); viol(kbase + "wrong-result-when-result-aliases-exponent", "f(x, g, x, p) differs from f(r, g, x, p)", w); }
				if (C.recr && (C.recr->next() % C.rec_den) == 0) { J r; r.kv("k", "pw").kv("f", pow_name[fn]).kz("b", b).kz("e", e).kz("m", m).kv("tb", (long long)C.t_pre).kv("alias", "result=exponent"); if (xa == X_NONE) r.kz("o", t); else r.kv("x", exc_name(xa)); record(r.str()); }
			} else { if (okA) PS.alias_exp_ok[fn]++; else PS.alias_exp_bad[fn]++; }
		}
		{
			Z t; mpz_set(t, b);
			Exc xa = guard([&] {
				switch (fn) {
				case SPOWM: tmcg_mpz_spowm(t, t, e, m); break; case BASEBLIND: tmcg_mpz_spowm_baseblind(t, t, e, m); break; case CALC: break;
				case FPOWM: tmcg_mpz_fpowm(C.table, t, t, e, m); break; case FSPOWM: tmcg_mpz_fspowm(C.table, t, t, e, m); break;
				}
			});
			if (fn != CALC) { if (xa == X_NONE && !mpz_cmp(t, ref)) PS.alias_base_ok[fn]++; else PS.alias_base_bad[fn]++; }
		}
	}
	if (C.recr && (C.recr->next() % C.rec_den) == 0) {
		J r; r.kv("k", "pw").kv("f", pow_name[fn]).kz("b", b).kz("e", e).kz("m", m).kv("tb", (long long)(table ? C.t_pre : 0));
		if (x == X_NONE) r.kz("o", out); else r.kv("x", exc_name(x));
		record(r.str());
	}
	if (C.cs && C.cs->sample.empty() && judged && ecls != E_0) C.cs->sample = wit().str();
}

struct Exp { Z v; int cls; };
static void add_exp(std::vector<Exp> &L, std::set<std::string> &seen, mpz_srcptr v, int cls, bool both_signs) {
	for (int s = 0; s < (both_signs ? 2 : 1); s++) {
		Z x; if (s) mpz_neg(x, v); else mpz_set(x, v);
		std::string k = mpz_dec(x); if (!seen.insert(k).second) continue;
		Exp e; e.v = x; e.cls = (s && (cls == E_QM1 || cls == E_Q || cls == E_QP1)) ? E_NEG_Q : cls; L.push_back(e);
	}
}
// exponent list for "group order" q, t table bits, modulus m
static std::vector<Exp> exp_list(mpz_srcptr q, size_t t, mpz_srcptr m, Rng &r, bool with_random) {
	std::vector<Exp> L; std::set<std::string> seen; Z x;
	mpz_set_ui(x, 0); add_exp(L, seen, x, E_0, false);
	mpz_set_ui(x, 1); add_exp(L, seen, x, E_P1, false); mpz_set_si(x, -1); add_exp(L, seen, x, E_M1, false);
	mpz_set_ui(x, 2); add_exp(L, seen, x, E_P2, false); mpz_set_si(x, -2); add_exp(L, seen, x, E_M2, false);
	mpz_sub_ui(x, q, 1); add_exp(L, seen, x, E_QM1, true); add_exp(L, seen, q, E_Q, true); mpz_add_ui(x, q, 1); add_exp(L, seen, x, E_QP1, true);
	mpz_sub_ui(x, m, 1); add_exp(L, seen, x, E_MOD, true); add_exp(L, seen, m, E_MOD, true); mpz_add_ui(x, m, 1); add_exp(L, seen, x, E_MOD, true);
	mpz_set_ui(x, 1); mpz_mul_2exp(x, x, t); mpz_sub_ui(x, x, 1); add_exp(L, seen, x, E_ALLBITS, true);
	r.mpz_bits(x, t - 1); mpz_setbit(x, t - 1); add_exp(L, seen, x, E_TBITS, true);
	r.mpz_bits(x, t); mpz_setbit(x, t); add_exp(L, seen, x, E_T1BITS, true);
	if (with_random) for (int i = 0; i < 3; i++) { r.mpz_bits(x, 1 + r.below(t)); add_exp(L, seen, x, E_RANDOM, true); }
	return L;
}
// exponents around the hard limit TMCG_MAX_FPOWM_T (table must be precomputed to 2048 entries)
static std::vector<Exp> exp_list_limit(Rng &r) {
	std::vector<Exp> L; std::set<std::string> seen; Z x;
	mpz_set_ui(x, 1); mpz_mul_2exp(x, x, TMCG_MAX_FPOWM_T); mpz_sub_ui(x, x, 1); add_exp(L, seen, x, E_MAXM1, true);
	r.mpz_bits(x, TMCG_MAX_FPOWM_T - 1); mpz_setbit(x, TMCG_MAX_FPOWM_T - 1); add_exp(L, seen, x, E_MAXM1, true);
	mpz_set_ui(x, 1); mpz_mul_2exp(x, x, TMCG_MAX_FPOWM_T); add_exp(L, seen, x, E_MAX, true);
	r.mpz_bits(x, TMCG_MAX_FPOWM_T); mpz_setbit(x, TMCG_MAX_FPOWM_T); add_exp(L, seen, x, E_MAX, true);
	mpz_set_ui(x, 1); mpz_mul_2exp(x, x, 2 * TMCG_MAX_FPOWM_T + 7); add_exp(L, seen, x, E_MAX, true);
	mpz_set_ui(x, ~0UL); add_exp(L, seen, x, E_ULMAX, false);
	return L;
}

struct Table {   // TMCG_MAX_FPOWM_T mpz_t, as the library's callers allocate it
	mpz_t *t; Table() { t = new mpz_t[TMCG_MAX_FPOWM_T]; tmcg_mpz_fpowm_init(t); } ~Table() { tmcg_mpz_fpowm_done(t); delete[] t; }
};

// documented refusals around one table (base tb); wrong base must throw, the right one must not (judged elsewhere)
static void pow_wrong_base(PowCtx &C, mpz_srcptr tb, mpz_srcptr m, Rng &r) {
	Z wb, e, out; mpz_set_ui(e, 3);
	for (int i = 0; i < 3; i++) {
		if (i == 0) mpz_add_ui(wb, tb, 1); else if (i == 1) mpz_sub_ui(wb, tb, 1); else { r.mpz_below(wb, m); if (!mpz_cmp(wb, tb)) mpz_add_ui(wb, wb, 2); }
		for (int fn = FPOWM; fn <= FSPOWM; fn++) {
			std::string what;
			Exc x = guard([&] { if (fn == FPOWM) tmcg_mpz_fpowm(C.table, out, wb, e, m); else if (fn == FPOWM_UI) tmcg_mpz_fpowm_ui(C.table, out, wb, 3UL, m); else tmcg_mpz_fspowm(C.table, out, wb, e, m); }, &what);
			if (x == X_NONE) viol(std::string("C09/pow/") + pow_name[fn] + "/accepted-wrong-table-base", "table was precomputed for another base", J().kz("table_base", tb).kz("base", wb).kz("mod", m).kz("got", out));
			else PS.wrongbase_refused++;
			if (C.cs) C.cs->evals++;
		}
	}
}

// all functions for one base over an exponent list (CALC is driven separately)
static void pow_base_sweep(PowCtx &C, mpz_srcptr b, mpz_srcptr m, const std::vector<Exp> &L) {
	static const int fns[] = {SPOWM, BASEBLIND, FPOWM, FPOWM_UI, FSPOWM};
	for (auto &e : L) for (int fn : fns) pow_eval(C, fn, b, e.v, m, e.cls);
}
static void pow_calc_sweep(PowCtx &C, const std::vector<Z> &bases, mpz_srcptr m, const std::vector<Exp> &L) {
	for (auto &e : L) {
		tmcg_mpz_spowm_init(e.v, m); C.calc_idx = 0;
		for (auto &b : bases) { pow_eval(C, CALC, b, e.v, m, e.cls); C.calc_idx++; }
		tmcg_mpz_spowm_clear();
	}
}

// ---- family "pws": every odd modulus below the bound, every residue as base
static void run_pow_small(long &k) {
	ul bound = ctx.quick() ? 200 : 500;
	for (ul mu = 3; mu < bound; mu += 2) {
		long kk = k++;
		if (thin_out(kk)) continue;
		J d; d.kv("fam", "pow-small").kv("m", (long long)mu);
		if (!case_begin(kk, d.str())) continue;
		Rng r = case_rng(kk, 1), lib = case_rng(kk, 2), rr = case_rng(kk, 3); tl_rng = &lib;
		CaseStat cs; PowCtx C; Table T; C.table = T.t; C.recr = &rr; C.rec_den = 32 * opt.recmul * (ctx.quick() ? 1 : 12); C.cs = &cs; C.alias_every = 3;
		Z m(mu), q, b; ul phi = 0; for (ul i = 1; i < mu; i++) if (gcd_ul(i, mu) == 1) phi++;
		mpz_set_ui(q, phi);
		size_t t = 12; C.t_pre = t;
		std::vector<Exp> L = exp_list(q, t, m, r, false);
		std::vector<Z> bases;
		for (ul bu = 0; bu < mu; bu++) bases.push_back(Z(bu));
		// a few unreduced / negative representatives of coprime classes
		for (int i = 0; i < 4; i++) { ul bu = 1 + r.below(mu - 1); Z x(bu); if (i & 1) mpz_sub(x, x, m); else mpz_add(x, x, m); bases.push_back(x); }
		for (auto &bb : bases) {
			tmcg_mpz_fpowm_precompute(T.t, bb, m, t);
			pow_base_sweep(C, bb, m, L);
		}
		pow_calc_sweep(C, bases, m, L);
		// hard limit: full table for three bases
		std::vector<Exp> LL = exp_list_limit(r);
		std::vector<Z> lb; lb.push_back(Z(1)); lb.push_back(Z(mu - 1)); { ul bu; do bu = 1 + r.below(mu - 1); while (gcd_ul(bu, mu) != 1); lb.push_back(Z(bu)); }
		C.t_pre = TMCG_MAX_FPOWM_T; C.rec_den = 2;
		for (auto &bb : lb) { tmcg_mpz_fpowm_precompute(T.t, bb, m, TMCG_MAX_FPOWM_T); pow_base_sweep(C, bb, m, LL); pow_wrong_base(C, bb, m, r); }
		pow_calc_sweep(C, lb, m, LL);
		// even modulus mu+1: spowm must refuse, the others are recorded
		{ Z me(mu + 1); C.t_pre = t; C.rec_den = 8; std::vector<Exp> Ls = exp_list(q, t, me, r, false);
		  for (int i = 0; i < 3; i++) { Z bb(1 + r.below(mu)); tmcg_mpz_fpowm_precompute(T.t, bb, me, t); pow_base_sweep(C, bb, me, Ls); } }
		// zero modulus must be refused by the precomputation (fix c8bd081)
		{ Z zero, one(1); std::string w; Exc x = guard([&] { tmcg_mpz_fpowm_precompute(T.t, one, zero, 4); }, &w); if (x == X_NONE) viol("C09/pow/tmcg_mpz_fpowm_precompute/accepted-zero-modulus", "zero modulus accepted", J().kv("t", 4)); else PS.zero_mod_refused++; cs.evals++; }
		tl_rng = nullptr;
		case_end(d.str(), cs.evals > 0, cs.sample, cs.evals, cs.distinct);
	}
}

// ---- family "pwb": random 64..2048-bit moduli
static void run_pow_big(long &k) {
	std::vector<size_t> sizes = {64, 128, 256, 512, 1024, 1536, 2048};
	int reps = ctx.quick() ? 4 : 24;
	for (size_t bits : sizes) for (int rep = 0; rep < reps; rep++) {
		long kk = k++;
		if (thin_out(kk)) continue;
		int kind = rep % 4;   // 0 random odd, 1 prime, 2 product of two primes, 3 Schnorr-like p = cq+1 with real q
		if (bits >= 1536 && kind != 0 && (kind != 3 || rep >= 4)) kind = 0;
		J d; d.kv("fam", "pow-big").kv("bits", (long long)bits).kv("kind", kind).kv("rep", rep);
		if (!case_begin(kk, d.str())) continue;
		Rng r = case_rng(kk, 1), lib = case_rng(kk, 2), rr = case_rng(kk, 3); tl_rng = &lib;
		CaseStat cs; PowCtx C; Table T; C.table = T.t; C.recr = &rr; C.cs = &cs;
		C.rec_den = (bits >= 1024 ? 16 : bits >= 256 ? 4 : 2) * opt.recmul * (ctx.quick() ? 1 : 6);
		Z m, q, f1, f2, b; size_t tq = bits <= 128 ? bits / 2 : (rep & 1 ? 160 : 256); if (tq >= bits) tq = bits / 2;
		r.mpz_bits(q, tq - 1); mpz_setbit(q, tq - 1); mpz_setbit(q, 0);
		if (kind == 0) { r.mpz_bits(m, bits - 1); mpz_setbit(m, bits - 1); mpz_setbit(m, 0); }
		else if (kind == 1) harness_prime(m, bits, r);
		else if (kind == 2) { harness_prime(f1, bits / 2, r); harness_prime(f2, bits - bits / 2, r); mpz_mul(m, f1, f2); }
		else { Z kq; tmcg_mpz_lprime(m, q, kq, bits, tq, 25); }
		size_t t = mpz_sizeinbase(q, 2); C.t_pre = t;
		std::vector<Exp> L = exp_list(q, t, m, r, true);
		std::vector<Z> bases; bases.push_back(Z(1)); { Z x; mpz_sub_ui(x, m, 1); bases.push_back(x); } bases.push_back(Z(2));
		for (int i = 0; i < 3; i++) { Z x; r.mpz_below(x, m); bases.push_back(x); }
		{ Z x; r.mpz_below(x, m); mpz_add(x, x, m); bases.push_back(x); }       // unreduced
		bases.push_back(Z(0)); if (kind == 2) bases.push_back(f1);               // not coprime: recorded only
		for (auto &bb : bases) { tmcg_mpz_fpowm_precompute(T.t, bb, m, t); pow_base_sweep(C, bb, m, L); if (&bb == &bases[3]) pow_wrong_base(C, bb, m, r); }
		pow_calc_sweep(C, bases, m, L);
		std::vector<Exp> LL = exp_list_limit(r);
		std::vector<Z> lb; lb.push_back(bases[1]); lb.push_back(bases[3]);
		C.t_pre = TMCG_MAX_FPOWM_T;
		for (auto &bb : lb) { tmcg_mpz_fpowm_precompute(T.t, bb, m, TMCG_MAX_FPOWM_T); pow_base_sweep(C, bb, m, LL); }
		pow_calc_sweep(C, lb, m, LL);
		// even modulus
		{ Z me; mpz_add_ui(me, m, 1); C.t_pre = t; Z bb; mpz_set(bb, bases[3]); mpz_setbit(bb, 0); tmcg_mpz_fpowm_precompute(T.t, bb, me, t); pow_base_sweep(C, bb, me, L); }
		tl_rng = nullptr;
		case_end(d.str() + mpz_b62(m), cs.evals > 0, cs.sample, cs.evals, cs.distinct);
	}
}

} // namespace c09
