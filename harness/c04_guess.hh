// c04_guess.hh — C04 (b): guessing provers for the cut-and-choose proofs.  Harness code; uses only
// public library calls (TMCG_CreateStackSecret, TMCG_MixStack, tmcg_mpz_shash, stream operators)
// and GMP arithmetic on public values (Rabin modulus m and non-residue y of the public keys).
// Each prover is prepared for exactly one guessed challenge string.
#pragma once
#include "c04_stack.hh"

namespace c04 {

// ---- TMCG_VerifyStackEquality, both encodings.  Round i: commit to a fresh (cyclic if asked) re-mix of
// s2 (guess 1) or of s (guess 0); answer whatever is asked with the secret of that re-mix.
template <class Stack, class Secret, class MkSecret, class Mix>
inline ProveFn guess_stack_prover(std::shared_ptr<Stack> s, std::shared_ptr<Stack> s2, std::vector<int> guess, MkSecret mk, Mix mix) {
	return [s, s2, guess, mk, mix](std::istream &in, std::ostream &out) {
		unsigned long sec = 0; in >> sec; in.ignore(1, '\n');
		MZ foo;
		for (unsigned long i = 0; i < sec && i < guess.size(); i++) {
			Stack s3; Secret ss2; mk(ss2);
			mix(guess[i] ? *s2 : *s, s3, ss2);
			if (TMCG_HASH_COMMITMENT) { std::ostringstream ost; ost << s3 << std::endl; tmcg_mpz_shash(foo, ost.str()); out << foo.v << std::endl; }
			else out << s3 << std::endl;
			in >> foo.v;          // the challenge (throws std::runtime_error at end of stream: verifier gone)
			out << ss2 << std::endl;
		}
	};
}

// ---- TMCG_VerifyMaskCard (QR encoding): k*w sub-proofs TMCG_VerifyMaskValue, each: verifier sends kappa,
// prover sends kappa values t_i, then kappa times (challenge; answer r, b with t_i = [zz or z] * r^2 * y^b).
// The prover knows honest secrets (r,b) of every component except the false one `bad`, for which it guesses.
struct MaskGuess { std::shared_ptr<TMCG_Card> c, cc; std::shared_ptr<TMCG_CardSecret> cs; size_t bad_k, bad_w; std::vector<int> guess; };
inline void maskval(mpz_ptr out, mpz_srcptr z, mpz_srcptr r, int b, mpz_srcptr y, mpz_srcptr m) { mpz_mul(out, r, r); mpz_mod(out, out, m); mpz_mul(out, out, z); mpz_mod(out, out, m); if (b) { mpz_mul(out, out, y); mpz_mod(out, out, m); } }
inline void rand_unit(mpz_ptr r, mpz_srcptr m) { MZ g; do { tmcg_mpz_srandomm(r, m); mpz_gcd(g, r, m); } while (mpz_cmp_ui(g.v, 1UL) || !mpz_cmp_ui(r, 1UL)); }
inline ProveFn guess_maskcard_prover(World &W, MaskGuess G) {
	World *w = &W;
	return [w, G](std::istream &in, std::ostream &out) {
		MZ foo, t;
		for (size_t k = 0; k < G.c->z.size(); k++) for (size_t wi = 0; wi < G.c->z[k].size(); wi++) {
			mpz_srcptr m = w->ring->keys[k].m, y = w->ring->keys[k].y; mpz_srcptr z = &G.c->z[k][wi], zz = &G.cc->z[k][wi];
			bool bad = (k == G.bad_k && wi == G.bad_w);
			unsigned long sec = 0; in >> sec; in.ignore(1, '\n');
			std::vector<MZ> rr(sec); std::vector<int> bb(sec);
			for (unsigned long i = 0; i < sec; i++) {
				rand_unit(rr[i], m); tmcg_mpz_srandomb(foo, 1UL); bb[i] = (int)(mpz_get_ui(foo) & 1UL);
				// honest component and guess 1: mask of zz; guess 0: mask of z
				int gi = bad ? (i < G.guess.size() ? G.guess[i] : 1) : 1;
				maskval(t, gi ? zz : z, rr[i], bb[i], y, m); out << t.v << std::endl;
			}
			for (unsigned long i = 0; i < sec; i++) {
				in >> foo.v; int ch = (int)(mpz_get_ui(foo) & 1UL);
				int gi = bad ? (i < G.guess.size() ? G.guess[i] : 1) : 1;
				if (bad || ch) { (void)gi; out << rr[i].v << std::endl << bb[i] << std::endl; }   // bad component: the only opening it has
				else {   // honest component asked for the mask from z: compose with the card secret
					int b = (int)(mpz_get_ui(&G.cs->b[k][wi]) & 1UL);
					mpz_mul(t, &G.cs->r[k][wi], rr[i]); mpz_mod(t, t, m); if (b && bb[i]) { mpz_mul(t, t, y); mpz_mod(t, t, m); }
					out << t.v << std::endl << ((b + bb[i]) & 1) << std::endl;
				}
			}
		}
	};
}

// ---- TMCG_VerifyCardSecret (QR encoding), w = 1: the prover claims bit `claim` for z = c.z[index][0] and runs
// the (non-)residuosity proof: t = z (claim 0) or t = z*y^-1 (claim 1, sent first); sends R_i, S_i with
// R_i*S_i = t where it knows a root of R_i (guess 1) or of S_i (guess 0); answers with that root.
inline ProveFn guess_cardsecret_prover(World &W, std::shared_ptr<TMCG_Card> c, size_t index, int claim, std::vector<int> guess) {
	World *w = &W;
	return [w, c, index, claim, guess](std::istream &in, std::ostream &out) {
		mpz_srcptr m = w->ring->keys[index].m, y = w->ring->keys[index].y;
		MZ t, foo, inv; mpz_set(t, &c->z[index][0]);
		out << claim << std::endl;
		if (claim) { if (!mpz_invert(inv, y, m)) return; mpz_mul(t, t, inv); mpz_mod(t, t, m); out << t.v << std::endl; }
		unsigned long sec = 0; in >> sec; in.ignore(1, '\n');
		std::vector<MZ> root(sec);
		for (unsigned long i = 0; i < sec; i++) {
			rand_unit(root[i], m); MZ sq, other; mpz_mul(sq, root[i], root[i]); mpz_mod(sq, sq, m);
			if (!mpz_invert(other, sq, m)) return; mpz_mul(other, other, t); mpz_mod(other, other, m);
			int gi = i < guess.size() ? guess[i] : 1;
			if (gi) out << sq.v << std::endl << other.v << std::endl;    // R = root^2, S = t/R
			else out << other.v << std::endl << sq.v << std::endl;        // S = root^2, R = t/S
		}
		for (unsigned long i = 0; i < sec; i++) { in >> foo.v; out << root[i].v << std::endl; }
	};
}

} // namespace c04
