// protos.hh — registry of every public prover/verifier pair of the library as
// "instances": a true statement + honest prover closure + verifier closure.
// Used by C03 (completeness), C04 (soundness), C05 (binding).
//   pr::World   per parameter set: key-generated VTMF pair (prover's and verifier's
//               instance), shuffle/rotation argument objects per size, Rabin keys, EDCF
//   pr::Instance statement objects + prove(in,out) + verify(in,out) + handles (`pub`) on
//               every public input the verifier reads, so a caller can alter one in place
//   pr::run()   drives prover and verifier as cooperative tasks over line channels
#pragma once
#include "engine.hh"
#include <memory>
#include <map>

namespace pr {
using namespace vf;

struct PSet { unsigned long fs, gs, le; const char *name; unsigned long dfs = 0, dgs = 0; };   // dfs/dgs: smaller sizes *declared* by an importing instance (0 = same as fs/gs)
static const PSet PS_S = {512, 160, 40, "S"};     // |q| >= 2*le+64 must hold: 160 >= 144
static const PSet PS_G = {512, 256, 80, "G"};
static const PSet PS_D = {2048, 256, 80, "D"};
// size arguments are lower bounds (CheckGroup refuses only |p| < fs, |q| < gs): an importing instance may declare less than the group really has
static const PSet PS_L = {576, 224, 40, "L", 512, 160};

typedef std::function<void(std::istream &, std::ostream &)> ProveFn;
typedef std::function<bool(std::istream &, std::ostream &)> VerifyFn;

struct ZV {   // owned vector of mpz
	std::vector<mpz_ptr> v;
	explicit ZV(size_t n = 0) { for (size_t i = 0; i < n; i++) add(); }
	mpz_ptr add() { mpz_ptr p = new mpz_t(); mpz_init(p); v.push_back(p); return p; }
	~ZV() { for (auto p : v) { mpz_clear(p); delete[] p; } }
	mpz_ptr operator[](size_t i) { return v[i]; }
	size_t size() const { return v.size(); }
};
struct ZP {   // owned vector of pairs
	std::vector<std::pair<mpz_ptr, mpz_ptr>> v;
	explicit ZP(size_t n = 0) { for (size_t i = 0; i < n; i++) { mpz_ptr a = new mpz_t(), b = new mpz_t(); mpz_init(a); mpz_init(b); v.push_back(std::make_pair(a, b)); } }
	~ZP() { for (auto &p : v) { mpz_clear(p.first); mpz_clear(p.second); delete[] p.first; delete[] p.second; } }
	size_t size() const { return v.size(); }
};

struct Pub { std::string name; mpz_ptr v; std::string kind; };   // kind: elem | exp | qr | int

struct Instance {
	std::string proto, variant, family = "dlog";   // family: dlog | qr
	bool interactive = false; size_t n = 0;
	ProveFn prove; VerifyFn verify;
	std::vector<Pub> pub;                  // public inputs the verifier closure reads (mutable in place)
	mpz_t p, q, m;                         // moduli for the mutation catalogue (dlog: p,q ; qr: m)
	std::vector<std::shared_ptr<void>> keep;
	std::string desc;
	Instance() { mpz_init(p); mpz_init(q); mpz_init(m); }
	~Instance() { mpz_clear(p); mpz_clear(q); mpz_clear(m); }
	template <class T> std::shared_ptr<T> own(T *t) { std::shared_ptr<T> s(t); keep.push_back(s); return s; }
	void addpub(const std::string &nm, mpz_ptr v, const std::string &kind = "elem") { pub.push_back({nm, v, kind}); }
};

struct World {
	PSet ps; int vkind;   // 0 random g, 1 canonical g, 2 GroupQR
	BarnettSmartVTMF_dlog *vP = nullptr, *vV = nullptr;
	std::string group_text;
	std::map<size_t, std::pair<GrothVSSHE *, GrothVSSHE *>> vsshe;
	HooghSchoenmakersSkoricVillegasVRHE *rP = nullptr, *rV = nullptr;
	JareckiLysyanskayaEDCF *eP = nullptr, *eV = nullptr;
	// QR encoding: two players
	TMCG_SecretKey *skA = nullptr, *skB = nullptr; TMCG_PublicKeyRing *ring = nullptr;
	size_t qr_w = 3; unsigned long rabin_bits = 512;
	Rng rng;
	// ---- additive (C05): verifier views with altered but self-consistent verifier-side objects
	Rng rng_vkey;            // state of `rng` right before vV generated its key share (a fresh instance fed from a copy gets the same share)
	bool view = false;       // a view borrows every object of another World (owns nothing); the caller replaces verifier-side pointers
	std::function<std::string(const char *what, const std::string &group_text)> thook;   // edits the published group text a factory-local verifier object is built from
	std::function<void(const char *what, void *verifier_obj)> ohook;                        // called on a factory-local verifier object right after its construction
	int loose = 0;           // see below
	struct ViewTag {};
	World(const World &b, ViewTag) : ps(b.ps), vkind(b.vkind), vP(b.vP), vV(b.vV), group_text(b.group_text), vsshe(b.vsshe), rP(b.rP), rV(b.rV), eP(b.eP), eV(b.eV),
		skA(b.skA), skB(b.skB), ring(b.ring), qr_w(b.qr_w), rabin_bits(b.rabin_bits), rng(b.rng), rng_vkey(b.rng_vkey), view(true), loose(b.loose) {}
	// loose: 0 = every instance declares the generated sizes; 1 = the verifier-side instances import the group with the smaller
	// declared sizes ps.dfs/ps.dgs; 2 = the prover-side instances do (both sides are then importers of a discarded generator's group)
	unsigned long dfs(bool verifier_side) const { return (ps.dfs && ((loose == 1 && verifier_side) || (loose == 2 && !verifier_side))) ? ps.dfs : ps.fs; }
	unsigned long dgs(bool verifier_side) const { return (ps.dgs && ((loose == 1 && verifier_side) || (loose == 2 && !verifier_side))) ? ps.dgs : ps.gs; }
	BarnettSmartVTMF_dlog *fresh_vtmf(bool verifier_side = true) const {
		std::stringstream in(group_text);
		if (vkind == 2) return new BarnettSmartVTMF_dlog_GroupQR(in, ps.fs, ps.gs);
		return new BarnettSmartVTMF_dlog(in, dfs(verifier_side), dgs(verifier_side), vkind == 1, true);
	}
	World(const PSet &ps_, int vkind_, uint64_t seed, int loose_ = 0) : ps(ps_), vkind(vkind_), rng(seed, 0x3017d, (uint64_t)vkind_), loose(loose_) {
		Rng *old = tl_rng; tl_rng = &rng;
		if (vkind == 2) vP = new BarnettSmartVTMF_dlog_GroupQR(ps.fs, ps.gs); else vP = new BarnettSmartVTMF_dlog(ps.fs, ps.gs, vkind == 1, true);
		std::stringstream g; vP->PublishGroup(g); group_text = g.str();
		if (loose == 2) { delete vP; vP = fresh_vtmf(false); }
		vV = fresh_vtmf();
		vP->KeyGenerationProtocol_GenerateKey(); rng_vkey = rng; vV->KeyGenerationProtocol_GenerateKey();
		{ std::stringstream k; vP->KeyGenerationProtocol_PublishKey(k); if (!vV->KeyGenerationProtocol_UpdateKey(k)) throw std::runtime_error("world: UpdateKey P->V refused"); }
		{ std::stringstream k; vV->KeyGenerationProtocol_PublishKey(k); if (!vP->KeyGenerationProtocol_UpdateKey(k)) throw std::runtime_error("world: UpdateKey V->P refused"); }
		vP->KeyGenerationProtocol_Finalize(); vV->KeyGenerationProtocol_Finalize();
		if (mpz_cmp(vP->h, vV->h)) throw std::runtime_error("world: common keys differ");
		tl_rng = old;
	}
	void need_vrhe() { if (rP) return; Rng *old = tl_rng; tl_rng = &rng;
		rP = new HooghSchoenmakersSkoricVillegasVRHE(vP->p, vP->q, vP->g, vP->h, ps.fs, ps.gs);
		std::stringstream g; rP->PublishGroup(g); std::string gt = g.str();
		if (loose == 2) { delete rP; std::stringstream g2(gt); rP = new HooghSchoenmakersSkoricVillegasVRHE(g2, dfs(false), dgs(false)); }
		std::stringstream g3(gt); rV = new HooghSchoenmakersSkoricVillegasVRHE(g3, dfs(true), dgs(true)); tl_rng = old; }
	void need_edcf() { if (eP) return; Rng *old = tl_rng; tl_rng = &rng;
		eP = new JareckiLysyanskayaEDCF(2, 0, vP->p, vP->q, vP->g, vP->h, dfs(false), dgs(false));
		eV = new JareckiLysyanskayaEDCF(2, 0, vV->p, vV->q, vV->g, vV->h, dfs(true), dgs(true)); tl_rng = old; }
	std::pair<GrothVSSHE *, GrothVSSHE *> need_vsshe(size_t n) {
		auto it = vsshe.find(n); if (it != vsshe.end()) return it->second;
		Rng *old = tl_rng; tl_rng = &rng;
		GrothVSSHE *P = new GrothVSSHE(n, vP->p, vP->q, vP->k, vP->g, vP->h, ps.le, ps.fs, ps.gs);
		std::stringstream g; P->PublishGroup(g); std::string gt = g.str();
		if (loose == 2) { delete P; std::stringstream g2(gt); P = new GrothVSSHE(n, g2, ps.le, dfs(false), dgs(false)); }
		std::stringstream g3(gt);
		GrothVSSHE *V = new GrothVSSHE(n, g3, ps.le, dfs(true), dgs(true));
		tl_rng = old;
		vsshe[n] = std::make_pair(P, V); return vsshe[n];
	}
	void need_rabin() { if (skA) return; Rng *old = tl_rng; tl_rng = &rng;
		skA = new TMCG_SecretKey("Alice", "a@x", rabin_bits, false); skB = new TMCG_SecretKey("Bob", "b@x", rabin_bits + 64, false);
		ring = new TMCG_PublicKeyRing(2); ring->keys[0] = TMCG_PublicKey(*skA); ring->keys[1] = TMCG_PublicKey(*skB); tl_rng = old; }
	~World() { if (view) return; for (auto &kv : vsshe) { delete kv.second.first; delete kv.second.second; } delete rP; delete rV; delete eP; delete eV; delete vP; delete vV; delete skA; delete skB; delete ring; }
};

// ------------------------------------------------------------------ run
struct RunResult { bool ok = false, v_exc = false, p_exc = false, v_other = false, eof = false, hung = false; std::string exc; size_t plines = 0, vlines = 0; std::vector<Ev> log; };
struct RunOpt { Relay relayP; Relay relayV; std::function<void(Task *)> cfgP, cfgV; };

inline RunResult run(Instance &I, uint64_t sa, uint64_t sb, const RunOpt &o = RunOpt()) {
	RunResult R; TwoParty tp(sa, sb);
	if (o.relayP) tp.d.A.relay = o.relayP;
	if (o.relayV) tp.d.B.relay = o.relayV;
	bool res = false;
	tp.s.spawn([&]() { struct C { Pipe &p; ~C() { p.closed = true; } } c{tp.d.ab}; if (o.cfgP) o.cfgP(tl_task); I.prove(tp.d.inA, tp.d.outA); }, sa, sb * 2 + 1);
	tp.s.spawn([&]() { struct C { Pipe &p; ~C() { p.closed = true; } } c{tp.d.ba}; if (o.cfgV) o.cfgV(tl_task); res = I.verify(tp.d.inB, tp.d.outB); }, sa, sb * 2 + 2);
	tp.s.run();
	Task *tv = tp.s.tasks[1], *tpv = tp.s.tasks[0];
	R.v_exc = tv->threw_std; R.v_other = tv->threw_other; R.p_exc = tpv->threw_std || tpv->threw_other; R.exc = tv->exc;
	R.ok = res && !tv->threw_std && !tv->threw_other && !tv->aborted;
	R.hung = tp.s.hung; R.eof = tp.s.stalls > 0;
	R.plines = tp.d.lines_written(0); R.vlines = tp.d.lines_written(1);
	R.log = tp.d.log;
	// an exception that is not a std::exception escaping the verifier is not a refusal
	if (tv->threw_other) throw std::logic_error("verifier threw a non-standard exception");
	return R;
}

// ------------------------------------------------------------------ helpers
inline void rand_elem(World &W, mpz_ptr a) { W.vP->RandomElement(a); }
inline void rand_exp(World &W, mpz_ptr a) { tmcg_mpz_srandomm(a, W.vP->q); }
inline std::vector<size_t> rand_perm(Rng &r, size_t n) { std::vector<size_t> pi(n); for (size_t i = 0; i < n; i++) pi[i] = i; for (size_t i = 0; i + 1 < n; i++) { size_t j = i + r.below(n - i); std::swap(pi[i], pi[j]); } return pi; }
inline std::vector<size_t> rotation(size_t n, size_t first) { std::vector<size_t> pi(n); for (size_t i = 0; i < n; i++) pi[i] = (first + i) % n; return pi; }
inline void set_moduli(Instance &I, World &W) { mpz_set(I.p, W.vP->p); mpz_set(I.q, W.vP->q); }

struct Factory { std::string name; bool sized; std::string family; std::function<Instance *(World &, Rng &, size_t)> make; bool cyclic = false; };

// ---- e/E pair statements for the shuffle / rotation arguments (plain GMP)
struct Shuf { std::shared_ptr<ZP> e, E; std::shared_ptr<ZV> R; std::vector<size_t> pi; size_t r = 0; };
inline Shuf make_shuffle(World &W, Rng &rg, size_t n, bool rot, mpz_srcptr g, mpz_srcptr h) {
	Shuf S; S.e.reset(new ZP(n)); S.E.reset(new ZP(n)); S.R.reset(new ZV(n));
	mpz_srcptr p = W.vP->p;
	if (rot) { size_t first = rg.below(n); S.pi = rotation(n, first); S.r = (n - first) % n; } else S.pi = rand_perm(rg, n);
	mpz_t t; mpz_init(t);
	for (size_t i = 0; i < n; i++) { rand_exp(W, t); mpz_powm(S.e->v[i].first, g, t, p); mpz_powm(S.e->v[i].second, h, t, p); mpz_t m; mpz_init(m); W.vP->IndexElement(m, i % 7); mpz_mul(S.e->v[i].second, S.e->v[i].second, m); mpz_mod(S.e->v[i].second, S.e->v[i].second, p); mpz_clear(m); }
	for (size_t i = 0; i < n; i++) {
		rand_exp(W, S.R->v[i]);
		mpz_powm(t, g, S.R->v[i], p); mpz_mul(S.E->v[i].first, t, S.e->v[S.pi[i]].first); mpz_mod(S.E->v[i].first, S.E->v[i].first, p);
		mpz_powm(t, h, S.R->v[i], p); mpz_mul(S.E->v[i].second, t, S.e->v[S.pi[i]].second); mpz_mod(S.E->v[i].second, S.E->v[i].second, p);
	}
	mpz_clear(t); return S;
}

std::vector<Factory> &registry();    // defined in protos.cc-like section below (inline singleton)

#define PR_TM(sec, k, w) std::shared_ptr<SchindelhauerTMCG>(new SchindelhauerTMCG(sec, k, w))

inline std::vector<Factory> build_registry() {
	std::vector<Factory> F;
	// ---------------- VTMF key share proofs
	F.push_back({"vtmf/key-nizk", false, "dlog", [](World &W, Rng &, size_t) {
		Instance *I = new Instance; I->proto = "vtmf/key-nizk"; set_moduli(*I, W);
		World *w = &W;
		I->prove = [w](std::istream &, std::ostream &out) { w->vP->KeyGenerationProtocol_PublishKey(out); };
		I->verify = [w](std::istream &in, std::ostream &) { std::unique_ptr<BarnettSmartVTMF_dlog> v(w->fresh_vtmf()); v->KeyGenerationProtocol_GenerateKey(); return v->KeyGenerationProtocol_UpdateKey(in); };
		return I; }});
	F.push_back({"vtmf/key-interactive", false, "dlog", [](World &W, Rng &, size_t) {
		Instance *I = new Instance; I->proto = "vtmf/key-interactive"; I->interactive = true; set_moduli(*I, W);
		auto key = std::make_shared<ZV>(1); I->keep.push_back(key); mpz_set(key->v[0], W.vP->h_i); I->addpub("key", key->v[0]);
		World *w = &W; mpz_ptr k = key->v[0];
		I->prove = [w](std::istream &in, std::ostream &out) { w->vP->KeyGenerationProtocol_ProveKey_interactive(in, out); };
		I->verify = [w, k](std::istream &in, std::ostream &out) { return w->vV->KeyGenerationProtocol_VerifyKey_interactive(k, in, out); };
		return I; }});
	F.push_back({"vtmf/key-publiccoin", false, "dlog", [](World &W, Rng &, size_t) {
		W.need_edcf();
		Instance *I = new Instance; I->proto = "vtmf/key-publiccoin"; I->interactive = true; set_moduli(*I, W);
		auto key = std::make_shared<ZV>(1); I->keep.push_back(key); mpz_set(key->v[0], W.vP->h_i); I->addpub("key", key->v[0]);
		World *w = &W; mpz_ptr k = key->v[0];
		I->prove = [w](std::istream &in, std::ostream &out) { w->vP->KeyGenerationProtocol_ProveKey_interactive_publiccoin(w->eP, in, out); };
		I->verify = [w, k](std::istream &in, std::ostream &out) { return w->vV->KeyGenerationProtocol_VerifyKey_interactive_publiccoin(k, w->eV, in, out); };
		return I; }});
	// ---------------- Chaum-Pedersen, OR
	for (int table = 0; table < 2; table++) F.push_back({table ? "vtmf/cp-table" : "vtmf/cp-plain", false, "dlog", [table](World &W, Rng &, size_t) {
		Instance *I = new Instance; I->proto = table ? "vtmf/cp-table" : "vtmf/cp-plain"; set_moduli(*I, W);
		auto z = std::make_shared<ZV>(6); I->keep.push_back(z); // x y gg hh alpha t
		mpz_ptr x = z->v[0], y = z->v[1], gg = z->v[2], hh = z->v[3], al = z->v[4];
		if (table) { mpz_set(gg, W.vP->g); mpz_set(hh, W.vP->h); } else { rand_elem(W, gg); rand_elem(W, hh); }
		rand_exp(W, al); mpz_powm(x, gg, al, W.vP->p); mpz_powm(y, hh, al, W.vP->p);
		I->addpub("x", x); I->addpub("y", y); if (!table) { I->addpub("gg", gg); I->addpub("hh", hh); }
		World *w = &W; bool tb = table;
		I->prove = [w, x, y, gg, hh, al, tb](std::istream &, std::ostream &out) { w->vP->CP_Prove(x, y, gg, hh, al, out, tb); };
		I->verify = [w, x, y, gg, hh, tb](std::istream &in, std::ostream &) { return w->vV->CP_Verify(x, y, gg, hh, in, tb); };
		return I; }});
	for (int second = 0; second < 2; second++) F.push_back({second ? "vtmf/or-second" : "vtmf/or-first", false, "dlog", [second](World &W, Rng &, size_t) {
		Instance *I = new Instance; I->proto = second ? "vtmf/or-second" : "vtmf/or-first"; set_moduli(*I, W);
		auto z = std::make_shared<ZV>(5); I->keep.push_back(z); // y1 y2 g1 g2 alpha
		mpz_ptr y1 = z->v[0], y2 = z->v[1], g1 = z->v[2], g2 = z->v[3], al = z->v[4];
		rand_elem(W, g1); rand_elem(W, g2); rand_exp(W, al);
		if (second) { rand_elem(W, y1); mpz_powm(y2, g2, al, W.vP->p); } else { mpz_powm(y1, g1, al, W.vP->p); rand_elem(W, y2); }
		I->addpub("y1", y1); I->addpub("y2", y2); I->addpub("g1", g1); I->addpub("g2", g2);
		World *w = &W; bool sc = second;
		I->prove = [w, y1, y2, g1, g2, al, sc](std::istream &, std::ostream &out) { if (sc) w->vP->OR_ProveSecond(y1, y2, g1, g2, al, out); else w->vP->OR_ProveFirst(y1, y2, g1, g2, al, out); };
		I->verify = [w, y1, y2, g1, g2](std::istream &in, std::ostream &) { return w->vV->OR_Verify(y1, y2, g1, g2, in); };
		return I; }});
	// ---------------- masking / re-masking / decryption
	F.push_back({"vtmf/mask", false, "dlog", [](World &W, Rng &rg, size_t) {
		Instance *I = new Instance; I->proto = "vtmf/mask"; set_moduli(*I, W);
		auto z = std::make_shared<ZV>(4); I->keep.push_back(z); mpz_ptr m = z->v[0], c1 = z->v[1], c2 = z->v[2], r = z->v[3];
		if (rg.coin()) W.vP->IndexElement(m, rg.below(64)); else rand_elem(W, m);
		W.vP->VerifiableMaskingProtocol_Mask(m, c1, c2, r);
		I->addpub("m", m); I->addpub("c_1", c1); I->addpub("c_2", c2);
		World *w = &W;
		I->prove = [w, m, c1, c2, r](std::istream &, std::ostream &out) { w->vP->VerifiableMaskingProtocol_Prove(m, c1, c2, r, out); };
		I->verify = [w, m, c1, c2](std::istream &in, std::ostream &) { return w->vV->VerifiableMaskingProtocol_Verify(m, c1, c2, in); };
		return I; }});
	F.push_back({"vtmf/remask", false, "dlog", [](World &W, Rng &rg, size_t) {
		Instance *I = new Instance; I->proto = "vtmf/remask"; set_moduli(*I, W);
		auto z = std::make_shared<ZV>(7); I->keep.push_back(z); mpz_ptr m = z->v[0], c1 = z->v[1], c2 = z->v[2], r0 = z->v[3], d1 = z->v[4], d2 = z->v[5], r = z->v[6];
		W.vP->IndexElement(m, rg.below(64)); W.vP->VerifiableMaskingProtocol_Mask(m, c1, c2, r0);
		W.vP->VerifiableRemaskingProtocol_Mask(c1, c2, d1, d2, r);
		I->addpub("c_1", c1); I->addpub("c_2", c2); I->addpub("c'_1", d1); I->addpub("c'_2", d2);
		World *w = &W;
		I->prove = [w, c1, c2, d1, d2, r](std::istream &, std::ostream &out) { w->vP->VerifiableRemaskingProtocol_Prove(c1, c2, d1, d2, r, out); };
		I->verify = [w, c1, c2, d1, d2](std::istream &in, std::ostream &) { return w->vV->VerifiableRemaskingProtocol_Verify(c1, c2, d1, d2, in); };
		return I; }});
	F.push_back({"vtmf/decrypt", false, "dlog", [](World &W, Rng &rg, size_t) {
		Instance *I = new Instance; I->proto = "vtmf/decrypt"; set_moduli(*I, W);
		auto z = std::make_shared<ZV>(4); I->keep.push_back(z); mpz_ptr m = z->v[0], c1 = z->v[1], c2 = z->v[2], r0 = z->v[3];
		W.vP->IndexElement(m, rg.below(64)); W.vP->VerifiableMaskingProtocol_Mask(m, c1, c2, r0);
		I->addpub("c_1", c1);
		World *w = &W;
		I->prove = [w, c1](std::istream &, std::ostream &out) { w->vP->VerifiableDecryptionProtocol_Prove(c1, out); };
		I->verify = [w, c1](std::istream &in, std::ostream &) { if (!w->vV->CheckElement(c1)) return false; w->vV->VerifiableDecryptionProtocol_Verify_Initialize(c1); return w->vV->VerifiableDecryptionProtocol_Verify_Update(c1, in); };
		return I; }});
	// ---------------- SchindelhauerTMCG card level, VTMF encoding
	F.push_back({"tmcg/maskcard-vtmf", false, "dlog", [](World &W, Rng &rg, size_t) {
		Instance *I = new Instance; I->proto = "tmcg/maskcard-vtmf"; set_moduli(*I, W);
		auto tm = PR_TM(8, 2, 6); I->keep.push_back(tm);
		auto c = std::make_shared<VTMF_Card>(), cc = std::make_shared<VTMF_Card>(); auto cs = std::make_shared<VTMF_CardSecret>(); I->keep.push_back(c); I->keep.push_back(cc); I->keep.push_back(cs);
		{ VTMF_Card o; tm->TMCG_CreateOpenCard(o, W.vP, rg.below(64)); VTMF_CardSecret s0; tm->TMCG_CreateCardSecret(s0, W.vP); tm->TMCG_MaskCard(o, *c, s0, W.vP); }
		tm->TMCG_CreateCardSecret(*cs, W.vP); tm->TMCG_MaskCard(*c, *cc, *cs, W.vP, rg.coin());
		I->addpub("c.c_1", c->c_1); I->addpub("c.c_2", c->c_2); I->addpub("cc.c_1", cc->c_1); I->addpub("cc.c_2", cc->c_2);
		World *w = &W;
		I->prove = [w, tm, c, cc, cs](std::istream &in, std::ostream &out) { tm->TMCG_ProveMaskCard(*c, *cc, *cs, w->vP, in, out); };
		I->verify = [w, tm, c, cc](std::istream &in, std::ostream &out) { return tm->TMCG_VerifyMaskCard(*c, *cc, w->vV, in, out); };
		return I; }});
	F.push_back({"tmcg/cardsecret-vtmf", false, "dlog", [](World &W, Rng &rg, size_t) {
		Instance *I = new Instance; I->proto = "tmcg/cardsecret-vtmf"; set_moduli(*I, W);
		auto tm = PR_TM(8, 2, 6); I->keep.push_back(tm);
		auto c = std::make_shared<VTMF_Card>(); I->keep.push_back(c);
		{ VTMF_CardSecret s0; tm->TMCG_CreatePrivateCard(*c, s0, W.vP, rg.below(64)); }
		I->addpub("c.c_1", c->c_1);
		World *w = &W;
		I->prove = [w, tm, c](std::istream &in, std::ostream &out) { tm->TMCG_ProveCardSecret(*c, w->vP, in, out); };
		I->verify = [w, tm, c](std::istream &in, std::ostream &out) { if (!w->vV->CheckElement(c->c_1)) return false; tm->TMCG_SelfCardSecret(*c, w->vV); return tm->TMCG_VerifyCardSecret(*c, w->vV, in, out); };
		return I; }});
	// ---------------- stack equality, VTMF encoding
	struct SE { TMCG_Stack<VTMF_Card> s, s2; TMCG_StackSecret<VTMF_CardSecret> ss; };
	auto mk_se = [](World &W, Rng &rg, size_t n, bool cyclic, std::shared_ptr<SchindelhauerTMCG> tm, Instance *I) {
		auto se = std::make_shared<SE>(); I->keep.push_back(se);
		for (size_t i = 0; i < n; i++) { VTMF_Card o, c; tm->TMCG_CreateOpenCard(o, W.vP, (i * 5 + rg.below(3)) % 64); VTMF_CardSecret s0; tm->TMCG_CreateCardSecret(s0, W.vP); tm->TMCG_MaskCard(o, c, s0, W.vP); se->s.push(c); }
		tm->TMCG_CreateStackSecret(se->ss, cyclic, n, W.vP); tm->TMCG_MixStack(se->s, se->s2, se->ss, W.vP);
		for (size_t i = 0; i < n; i++) { I->addpub("s[" + std::to_string(i) + "].c_1", se->s.stack[i].c_1); I->addpub("s[" + std::to_string(i) + "].c_2", se->s.stack[i].c_2); I->addpub("s2[" + std::to_string(i) + "].c_1", se->s2.stack[i].c_1); I->addpub("s2[" + std::to_string(i) + "].c_2", se->s2.stack[i].c_2); }
		return se; };
	for (int cyc = 0; cyc < 2; cyc++) { Factory f{cyc ? "tmcg/stackeq-vtmf-cyclic" : "tmcg/stackeq-vtmf", true, "dlog", [cyc, mk_se](World &W, Rng &rg, size_t n) {
		Instance *I = new Instance; I->proto = cyc ? "tmcg/stackeq-vtmf-cyclic" : "tmcg/stackeq-vtmf"; I->interactive = true; I->n = n; set_moduli(*I, W);
		unsigned long sec = 1 + rg.below(6); I->variant = "kappa=" + std::to_string(sec);
		auto tmP = PR_TM(sec, 2, 6), tmV = PR_TM(sec, 2, 6); I->keep.push_back(tmP); I->keep.push_back(tmV);
		auto se = mk_se(W, rg, n, cyc, tmP, I); World *w = &W; bool cy = cyc;
		I->prove = [w, tmP, se, cy](std::istream &in, std::ostream &out) { tmP->TMCG_ProveStackEquality(se->s, se->s2, se->ss, cy, w->vP, in, out); };
		I->verify = [w, tmV, se, cy](std::istream &in, std::ostream &out) { return tmV->TMCG_VerifyStackEquality(se->s, se->s2, cy, w->vV, in, out); };
		return I; }}; f.cyclic = cyc; F.push_back(f); }
	for (int ni = 0; ni < 2; ni++) F.push_back({ni ? "tmcg/groth-noninteractive" : "tmcg/groth", true, "dlog", [ni, mk_se](World &W, Rng &rg, size_t n) {
		auto vs = W.need_vsshe(n); if (!ni) W.need_edcf();
		Instance *I = new Instance; I->proto = ni ? "tmcg/groth-noninteractive" : "tmcg/groth"; I->interactive = !ni; I->n = n; set_moduli(*I, W);
		auto tmP = PR_TM(8, 2, 6), tmV = PR_TM(8, 2, 6); I->keep.push_back(tmP); I->keep.push_back(tmV);
		auto se = mk_se(W, rg, n, false, tmP, I); World *w = &W; GrothVSSHE *gp = vs.first, *gv = vs.second;
		if (ni) { I->prove = [w, tmP, se, gp](std::istream &, std::ostream &out) { tmP->TMCG_ProveStackEquality_Groth_noninteractive(se->s, se->s2, se->ss, w->vP, gp, out); };
			I->verify = [w, tmV, se, gv](std::istream &in, std::ostream &) { return tmV->TMCG_VerifyStackEquality_Groth_noninteractive(se->s, se->s2, w->vV, gv, in); }; }
		else { I->prove = [w, tmP, se, gp](std::istream &in, std::ostream &out) { tmP->TMCG_ProveStackEquality_Groth(se->s, se->s2, se->ss, w->vP, gp, in, out); };
			I->verify = [w, tmV, se, gv](std::istream &in, std::ostream &out) { return tmV->TMCG_VerifyStackEquality_Groth(se->s, se->s2, w->vV, gv, in, out); }; }
		return I; }});
	for (int ni = 0; ni < 2; ni++) { Factory f{ni ? "tmcg/hoogh-noninteractive" : "tmcg/hoogh", true, "dlog", [ni, mk_se](World &W, Rng &rg, size_t n) {
		W.need_vrhe(); if (!ni) W.need_edcf();
		Instance *I = new Instance; I->proto = ni ? "tmcg/hoogh-noninteractive" : "tmcg/hoogh"; I->interactive = !ni; I->n = n; set_moduli(*I, W);
		auto tmP = PR_TM(8, 2, 6), tmV = PR_TM(8, 2, 6); I->keep.push_back(tmP); I->keep.push_back(tmV);
		auto se = mk_se(W, rg, n, true, tmP, I); World *w = &W;
		if (ni) { I->prove = [w, tmP, se](std::istream &, std::ostream &out) { tmP->TMCG_ProveStackEquality_Hoogh_noninteractive(se->s, se->s2, se->ss, w->vP, w->rP, out); };
			I->verify = [w, tmV, se](std::istream &in, std::ostream &) { return tmV->TMCG_VerifyStackEquality_Hoogh_noninteractive(se->s, se->s2, w->vV, w->rV, in); }; }
		else { I->prove = [w, tmP, se](std::istream &in, std::ostream &out) { tmP->TMCG_ProveStackEquality_Hoogh(se->s, se->s2, se->ss, w->vP, w->rP, in, out); };
			I->verify = [w, tmV, se](std::istream &in, std::ostream &out) { return tmV->TMCG_VerifyStackEquality_Hoogh(se->s, se->s2, w->vV, w->rV, in, out); }; }
		return I; }}; f.cyclic = true; F.push_back(f); }
	// ---------------- GrothVSSHE / GrothSKC directly (variants: 0 interactive, 1 public coin, 2 non-interactive)
	for (int var = 0; var < 3; var++) F.push_back({std::string("groth/vsshe-") + (var == 0 ? "interactive" : var == 1 ? "publiccoin" : "noninteractive"), true, "dlog", [var](World &W, Rng &rg, size_t n) {
		auto vs = W.need_vsshe(n); if (var == 1) W.need_edcf();
		Instance *I = new Instance; I->proto = std::string("groth/vsshe-") + (var == 0 ? "interactive" : var == 1 ? "publiccoin" : "noninteractive"); I->interactive = var != 2; I->n = n; set_moduli(*I, W);
		auto S = std::make_shared<Shuf>(make_shuffle(W, rg, n, false, W.vP->g, W.vP->h)); I->keep.push_back(S);
		for (size_t i = 0; i < n; i++) { I->addpub("e[" + std::to_string(i) + "].1", S->e->v[i].first); I->addpub("e[" + std::to_string(i) + "].2", S->e->v[i].second); I->addpub("E[" + std::to_string(i) + "].1", S->E->v[i].first); I->addpub("E[" + std::to_string(i) + "].2", S->E->v[i].second); }
		World *w = &W; GrothVSSHE *gp = vs.first, *gv = vs.second;
		I->prove = [w, S, gp, var](std::istream &in, std::ostream &out) { if (var == 0) gp->Prove_interactive(S->pi, S->R->v, S->e->v, S->E->v, in, out); else if (var == 1) gp->Prove_interactive_publiccoin(S->pi, S->R->v, S->e->v, S->E->v, w->eP, in, out); else gp->Prove_noninteractive(S->pi, S->R->v, S->e->v, S->E->v, out); };
		I->verify = [w, S, gv, var](std::istream &in, std::ostream &out) { if (var == 0) return gv->Verify_interactive(S->e->v, S->E->v, in, out); else if (var == 1) return gv->Verify_interactive_publiccoin(S->e->v, S->E->v, w->eV, in, out); return gv->Verify_noninteractive(S->e->v, S->E->v, in); };
		return I; }});
	for (int var = 0; var < 3; var++) F.push_back({std::string("groth/skc-") + (var == 0 ? "interactive" : var == 1 ? "publiccoin" : "noninteractive"), true, "dlog", [var](World &W, Rng &rg, size_t n) {
		if (var == 1) W.need_edcf();
		Instance *I = new Instance; I->proto = std::string("groth/skc-") + (var == 0 ? "interactive" : var == 1 ? "publiccoin" : "noninteractive"); I->interactive = var != 2; I->n = n;
		// GrothSKC owns its commitment group: prover generates, verifier imports the published group
		Rng *old = tl_rng; tl_rng = &W.rng;
		auto P = std::shared_ptr<GrothSKC>(new GrothSKC(n, W.ps.le, W.ps.fs, W.ps.gs)); std::stringstream g; P->PublishGroup(g);
		if (W.thook) g.str(W.thook("skc", g.str()));
		auto V = std::shared_ptr<GrothSKC>(new GrothSKC(n, g, W.ps.le, W.dfs(true), W.dgs(true))); if (W.ohook) W.ohook("skc", V.get()); tl_rng = old;
		I->keep.push_back(P); I->keep.push_back(V);
		mpz_set(I->p, P->com->p); mpz_set(I->q, P->com->q);
		auto z = std::make_shared<ZV>(2); auto m = std::make_shared<ZV>(n), mpi = std::make_shared<ZV>(n); I->keep.push_back(z); I->keep.push_back(m); I->keep.push_back(mpi);
		auto pi = std::make_shared<std::vector<size_t>>(rand_perm(rg, n)); I->keep.push_back(pi);
		for (size_t i = 0; i < n; i++) { tmcg_mpz_srandomm(m->v[i], P->com->q); }
		for (size_t i = 0; i < n; i++) mpz_set(mpi->v[i], m->v[(*pi)[i]]);
		mpz_ptr c = z->v[0], r = z->v[1]; P->com->Commit(c, r, mpi->v);
		I->addpub("c", c); for (size_t i = 0; i < n; i++) I->addpub("m[" + std::to_string(i) + "]", m->v[i], "exp");
		World *w = &W;
		I->prove = [w, P, pi, r, m, var](std::istream &in, std::ostream &out) { if (var == 0) P->Prove_interactive(*pi, r, m->v, in, out); else if (var == 1) P->Prove_interactive_publiccoin(*pi, r, m->v, w->eP, in, out); else P->Prove_noninteractive(*pi, r, m->v, out); };
		I->verify = [w, V, c, m, var](std::istream &in, std::ostream &out) { if (var == 0) return V->Verify_interactive(c, m->v, in, out); else if (var == 1) return V->Verify_interactive_publiccoin(c, m->v, w->eV, in, out); return V->Verify_noninteractive(c, m->v, in); };
		return I; }});
	// ---------------- rotation arguments directly
	for (int var = 0; var < 3; var++) { Factory f{std::string("hoogh/vrhe-") + (var == 0 ? "interactive" : var == 1 ? "publiccoin" : "noninteractive"), true, "dlog", [var](World &W, Rng &rg, size_t n) {
		W.need_vrhe(); if (var == 1) W.need_edcf();
		Instance *I = new Instance; I->proto = std::string("hoogh/vrhe-") + (var == 0 ? "interactive" : var == 1 ? "publiccoin" : "noninteractive"); I->interactive = var != 2; I->n = n; set_moduli(*I, W);
		auto S = std::make_shared<Shuf>(make_shuffle(W, rg, n, true, W.vP->g, W.vP->h)); I->keep.push_back(S);
		for (size_t i = 0; i < n; i++) { I->addpub("X[" + std::to_string(i) + "].1", S->e->v[i].first); I->addpub("X[" + std::to_string(i) + "].2", S->e->v[i].second); I->addpub("Y[" + std::to_string(i) + "].1", S->E->v[i].first); I->addpub("Y[" + std::to_string(i) + "].2", S->E->v[i].second); }
		World *w = &W;
		I->prove = [w, S, var](std::istream &in, std::ostream &out) { if (var == 0) w->rP->Prove_interactive(S->r, S->R->v, S->e->v, S->E->v, in, out); else if (var == 1) w->rP->Prove_interactive_publiccoin(S->r, S->R->v, S->e->v, S->E->v, w->eP, in, out); else w->rP->Prove_noninteractive(S->r, S->R->v, S->e->v, S->E->v, out); };
		I->verify = [w, S, var](std::istream &in, std::ostream &out) { if (var == 0) return w->rV->Verify_interactive(S->e->v, S->E->v, in, out); else if (var == 1) return w->rV->Verify_interactive_publiccoin(S->e->v, S->E->v, w->eV, in, out); return w->rV->Verify_noninteractive(S->e->v, S->E->v, in); };
		return I; }}; f.cyclic = true; F.push_back(f); }
	for (int var = 0; var < 3; var++) { Factory f{std::string("hoogh/pubrotzk-") + (var == 0 ? "interactive" : var == 1 ? "publiccoin" : "noninteractive"), true, "dlog", [var](World &W, Rng &rg, size_t n) {
		if (var == 1) W.need_edcf();
		Instance *I = new Instance; I->proto = std::string("hoogh/pubrotzk-") + (var == 0 ? "interactive" : var == 1 ? "publiccoin" : "noninteractive"); I->interactive = var != 2; I->n = n; set_moduli(*I, W);
		auto P = std::shared_ptr<HooghSchoenmakersSkoricVillegasPUBROTZK>(new HooghSchoenmakersSkoricVillegasPUBROTZK(W.vP->p, W.vP->q, W.vP->g, W.vP->h));
		auto V = std::shared_ptr<HooghSchoenmakersSkoricVillegasPUBROTZK>(new HooghSchoenmakersSkoricVillegasPUBROTZK(W.vV->p, W.vV->q, W.vV->g, W.vV->h));
		I->keep.push_back(P); I->keep.push_back(V);
		auto al = std::make_shared<ZV>(n), s = std::make_shared<ZV>(n), c = std::make_shared<ZV>(n); I->keep.push_back(al); I->keep.push_back(s); I->keep.push_back(c);
		size_t r = rg.below(n); mpz_t t; mpz_init(t);
		for (size_t i = 0; i < n; i++) rand_exp(W, al->v[i]);
		for (size_t k = 0; k < n; k++) { size_t kr = (k >= r) ? k - r : n - (r - k); rand_exp(W, s->v[k]); mpz_powm(c->v[k], W.vP->g, al->v[kr], W.vP->p); mpz_powm(t, W.vP->h, s->v[k], W.vP->p); mpz_mul(c->v[k], c->v[k], t); mpz_mod(c->v[k], c->v[k], W.vP->p); }
		mpz_clear(t);
		for (size_t i = 0; i < n; i++) { I->addpub("alpha[" + std::to_string(i) + "]", al->v[i], "exp"); I->addpub("c[" + std::to_string(i) + "]", c->v[i]); }
		World *w = &W;
		I->prove = [w, P, r, s, al, c, var](std::istream &in, std::ostream &out) { if (var == 0) P->Prove_interactive(r, s->v, al->v, c->v, in, out); else if (var == 1) P->Prove_interactive_publiccoin(r, s->v, al->v, c->v, w->eP, in, out); else P->Prove_noninteractive(r, s->v, al->v, c->v, out); };
		I->verify = [w, V, al, c, var](std::istream &in, std::ostream &out) { if (var == 0) return V->Verify_interactive(al->v, c->v, in, out); else if (var == 1) return V->Verify_interactive_publiccoin(al->v, c->v, w->eV, in, out); return V->Verify_noninteractive(al->v, c->v, in); };
		return I; }}; f.cyclic = true; F.push_back(f); }
	// ---------------- commitments (opening = transcript lines c, r)
	F.push_back({"pedersen/commit", true, "dlog", [](World &W, Rng &rg, size_t n) {
		Instance *I = new Instance; I->proto = "pedersen/commit"; I->n = n;
		Rng *old = tl_rng; tl_rng = &W.rng;
		auto P = std::shared_ptr<PedersenCommitmentScheme>(new PedersenCommitmentScheme(n, W.ps.fs, W.ps.gs)); std::stringstream g; P->PublishGroup(g);
		if (W.thook) g.str(W.thook("pedersen", g.str()));
		auto V = std::shared_ptr<PedersenCommitmentScheme>(new PedersenCommitmentScheme(n, g, W.dfs(true), W.dgs(true))); if (W.ohook) W.ohook("pedersen", V.get()); tl_rng = old;
		I->keep.push_back(P); I->keep.push_back(V); mpz_set(I->p, P->p); mpz_set(I->q, P->q);
		auto m = std::make_shared<ZV>(n); I->keep.push_back(m); for (size_t i = 0; i < n; i++) { tmcg_mpz_srandomm(m->v[i], P->q); I->addpub("m[" + std::to_string(i) + "]", m->v[i], "exp"); }
		(void)rg;
		I->prove = [P, m](std::istream &, std::ostream &out) { mpz_t c, r; mpz_init(c); mpz_init(r); P->Commit(c, r, m->v); out << c << std::endl << r << std::endl; mpz_clear(c); mpz_clear(r); };
		I->verify = [V, m](std::istream &in, std::ostream &) { mpz_t c, r; mpz_init(c); mpz_init(r); bool ok = false; try { in >> c >> r; ok = in.good() && V->TestMembership(c) && V->Verify(c, r, m->v); } catch (...) { mpz_clear(c); mpz_clear(r); throw; } mpz_clear(c); mpz_clear(r); return ok; };
		return I; }});
	F.push_back({"pedersen/trapdoor-commit", false, "dlog", [](World &W, Rng &, size_t) {
		Instance *I = new Instance; I->proto = "pedersen/trapdoor-commit";
		Rng *old = tl_rng; tl_rng = &W.rng;
		auto P = std::shared_ptr<PedersenTrapdoorCommitmentScheme>(new PedersenTrapdoorCommitmentScheme(W.ps.fs, W.ps.gs)); std::stringstream g; P->PublishGroup(g);
		if (W.thook) g.str(W.thook("trapdoor", g.str()));
		auto V = std::shared_ptr<PedersenTrapdoorCommitmentScheme>(new PedersenTrapdoorCommitmentScheme(g, W.dfs(true), W.dgs(true))); if (W.ohook) W.ohook("trapdoor", V.get()); tl_rng = old;
		I->keep.push_back(P); I->keep.push_back(V); mpz_set(I->p, P->p); mpz_set(I->q, P->q);
		auto m = std::make_shared<ZV>(1); I->keep.push_back(m); tmcg_mpz_srandomm(m->v[0], P->q); I->addpub("m", m->v[0], "exp");
		I->prove = [P, m](std::istream &, std::ostream &out) { mpz_t c, r; mpz_init(c); mpz_init(r); P->Commit(c, r, m->v[0]); out << c << std::endl << r << std::endl; mpz_clear(c); mpz_clear(r); };
		I->verify = [V, m](std::istream &in, std::ostream &) { mpz_t c, r; mpz_init(c); mpz_init(r); bool ok = false; try { in >> c >> r; ok = in.good() && V->Verify(c, r, m->v[0]); } catch (...) { mpz_clear(c); mpz_clear(r); throw; } mpz_clear(c); mpz_clear(r); return ok; };
		return I; }});
	// ---------------- two-party coin flip (both sides library code; "verify" = side 1 returns true and both agree)
	F.push_back({"edcf/flip-twoparty", false, "dlog", [](World &W, Rng &, size_t) {
		W.need_edcf();
		Instance *I = new Instance; I->proto = "edcf/flip-twoparty"; I->interactive = true; set_moduli(*I, W);
		auto z = std::make_shared<ZV>(2); I->keep.push_back(z); auto okP = std::make_shared<bool>(false); I->keep.push_back(okP);
		World *w = &W; mpz_ptr a0 = z->v[0], a1 = z->v[1];
		I->prove = [w, a0, okP](std::istream &in, std::ostream &out) { std::stringstream err; *okP = w->eP->Flip_twoparty(0, a0, in, out, err); };
		I->verify = [w, a0, a1, okP](std::istream &in, std::ostream &out) { std::stringstream err; bool ok = w->eV->Flip_twoparty(1, a1, in, out, err); return ok && *okP && !mpz_cmp(a0, a1); };
		return I; }});
	// ---------------- QR encoding (Rabin keys, two players)
	F.push_back({"tmcg/maskcard-qr", false, "qr", [](World &W, Rng &rg, size_t) {
		W.need_rabin();
		Instance *I = new Instance; I->proto = "tmcg/maskcard-qr"; I->family = "qr"; I->interactive = true; mpz_set(I->m, W.ring->keys[0].m);
		unsigned long sec = 2 + rg.below(5); size_t w_ = W.qr_w; I->variant = "kappa=" + std::to_string(sec);
		auto tmP = PR_TM(sec, 2, w_), tmV = PR_TM(sec, 2, w_); I->keep.push_back(tmP); I->keep.push_back(tmV);
		auto c = std::make_shared<TMCG_Card>(2, w_), cc = std::make_shared<TMCG_Card>(2, w_); auto cs = std::make_shared<TMCG_CardSecret>(2, w_); I->keep.push_back(c); I->keep.push_back(cc); I->keep.push_back(cs);
		tmP->TMCG_CreateOpenCard(*c, *W.ring, rg.below((size_t)1 << w_)); tmP->TMCG_CreateCardSecret(*cs, *W.ring, 0); tmP->TMCG_MaskCard(*c, *cc, *cs, *W.ring);
		for (size_t k = 0; k < 2; k++) for (size_t b = 0; b < w_; b++) { I->addpub("c.z[" + std::to_string(k) + "][" + std::to_string(b) + "]", &c->z[k][b], "qr"); I->addpub("cc.z[" + std::to_string(k) + "][" + std::to_string(b) + "]", &cc->z[k][b], "qr"); }
		World *w = &W;
		I->prove = [w, tmP, c, cc, cs](std::istream &in, std::ostream &out) { tmP->TMCG_ProveMaskCard(*c, *cc, *cs, *w->ring, in, out); };
		I->verify = [w, tmV, c, cc](std::istream &in, std::ostream &out) { return tmV->TMCG_VerifyMaskCard(*c, *cc, *w->ring, in, out); };
		return I; }});
	F.push_back({"tmcg/cardsecret-qr", false, "qr", [](World &W, Rng &rg, size_t) {
		W.need_rabin();
		Instance *I = new Instance; I->proto = "tmcg/cardsecret-qr"; I->family = "qr"; I->interactive = true; mpz_set(I->m, W.ring->keys[0].m);
		unsigned long sec = 2 + rg.below(5); size_t w_ = W.qr_w; I->variant = "kappa=" + std::to_string(sec);
		auto tmP = PR_TM(sec, 2, w_), tmV = PR_TM(sec, 2, w_); I->keep.push_back(tmP); I->keep.push_back(tmV);
		auto c = std::make_shared<TMCG_Card>(2, w_); I->keep.push_back(c);
		{ TMCG_CardSecret s0(2, w_); tmP->TMCG_CreatePrivateCard(*c, s0, *W.ring, 1, rg.below((size_t)1 << w_)); }
		for (size_t b = 0; b < w_; b++) I->addpub("c.z[0][" + std::to_string(b) + "]", &c->z[0][b], "qr");
		World *w = &W;
		I->prove = [w, tmP, c](std::istream &in, std::ostream &out) { tmP->TMCG_ProveCardSecret(*c, *w->skA, 0, in, out); };
		I->verify = [w, tmV, c, w_](std::istream &in, std::ostream &out) { TMCG_CardSecret cs(2, w_); return tmV->TMCG_VerifyCardSecret(*c, cs, w->ring->keys[0], 0, in, out); };
		return I; }});
	struct SEQ { TMCG_Stack<TMCG_Card> s, s2; TMCG_StackSecret<TMCG_CardSecret> ss; };
	for (int cyc = 0; cyc < 2; cyc++) { Factory f{cyc ? "tmcg/stackeq-qr-cyclic" : "tmcg/stackeq-qr", true, "qr", [cyc](World &W, Rng &rg, size_t n) {
		W.need_rabin();
		Instance *I = new Instance; I->proto = cyc ? "tmcg/stackeq-qr-cyclic" : "tmcg/stackeq-qr"; I->family = "qr"; I->interactive = true; I->n = n; mpz_set(I->m, W.ring->keys[0].m);
		unsigned long sec = 1 + rg.below(4); size_t w_ = W.qr_w; I->variant = "kappa=" + std::to_string(sec);
		auto tmP = PR_TM(sec, 2, w_), tmV = PR_TM(sec, 2, w_); I->keep.push_back(tmP); I->keep.push_back(tmV);
		auto se = std::make_shared<SEQ>(); I->keep.push_back(se);
		for (size_t i = 0; i < n; i++) { TMCG_Card c(2, w_); tmP->TMCG_CreateOpenCard(c, *W.ring, (i + rg.below(2)) % ((size_t)1 << w_)); se->s.push(c); }
		tmP->TMCG_CreateStackSecret(se->ss, cyc, *W.ring, 0, n); tmP->TMCG_MixStack(se->s, se->s2, se->ss, *W.ring);
		for (size_t i = 0; i < n; i++) for (size_t k = 0; k < 2; k++) for (size_t b = 0; b < w_; b++) { I->addpub("s[" + std::to_string(i) + "].z[" + std::to_string(k) + "][" + std::to_string(b) + "]", &se->s.stack[i].z[k][b], "qr"); I->addpub("s2[" + std::to_string(i) + "].z[" + std::to_string(k) + "][" + std::to_string(b) + "]", &se->s2.stack[i].z[k][b], "qr"); }
		World *w = &W; bool cy = cyc;
		I->prove = [w, tmP, se, cy](std::istream &in, std::ostream &out) { tmP->TMCG_ProveStackEquality(se->s, se->s2, se->ss, cy, *w->ring, 0, in, out); };
		I->verify = [w, tmV, se, cy](std::istream &in, std::ostream &out) { return tmV->TMCG_VerifyStackEquality(se->s, se->s2, cy, *w->ring, in, out); };
		return I; }}; f.cyclic = cyc; F.push_back(f); }
	F.push_back({"rabin/sign", false, "qr", [](World &W, Rng &rg, size_t) {
		W.need_rabin();
		Instance *I = new Instance; I->proto = "rabin/sign"; I->family = "qr"; mpz_set(I->m, W.ring->keys[0].m);
		auto data = std::make_shared<std::string>(); I->keep.push_back(data); size_t len = rg.below(200); for (size_t i = 0; i < len; i++) data->push_back((char)(32 + rg.below(95)));
		World *w = &W;
		I->prove = [w, data](std::istream &, std::ostream &out) { out << w->skA->sign(*data) << std::endl; };
		I->verify = [w, data](std::istream &in, std::ostream &) { std::string sig; std::getline(in, sig); return w->ring->keys[0].verify(*data, sig); };
		return I; }});
	F.push_back({"rabin/key-nizk", false, "qr", [](World &W, Rng &, size_t) {
		Instance *I = new Instance; I->proto = "rabin/key-nizk"; I->family = "qr";
		Rng *old = tl_rng; tl_rng = &W.rng;
		auto sk = std::shared_ptr<TMCG_SecretKey>(new TMCG_SecretKey("Carol", "c@x", 768, true)); tl_rng = old;
		I->keep.push_back(sk); mpz_set(I->m, sk->m);
		I->prove = [sk](std::istream &, std::ostream &out) { TMCG_PublicKey pk(*sk); out << pk << std::endl; };
		I->verify = [](std::istream &in, std::ostream &) { std::string t; std::getline(in, t); TMCG_PublicKey pk; if (!pk.import(t)) return false; return pk.check(); };
		return I; }});
	return F;
}

inline std::vector<Factory> &registry() { static std::vector<Factory> *R = new std::vector<Factory>(build_registry()); return *R; }

} // namespace pr
