// w_c11.cc — C11: export and import round-trip every object unchanged.
// Oracle per object x:  t1 = export(x); y = import(t1) (fresh or previously used object);
//   import must succeed, export(y) == t1, every public member of y equals that of x, and
//   y == x where the type has operator==.
// Integers: (out << v; in >> w) => w == v for 0, 1, negatives, 2^k±1, digit-length boundaries
//   and the longest text the transport accepts; a longer text must be refused (failbit or
//   exception) — a successful read of a different value is the violation.
// Protocol states (PublishState) come from real n-party runs on the SimNet engine.
#include "engine.hh"
#include <algorithm>
#include <cassert>
#include <memory>
#include <set>

using namespace vf;

struct Z { mpz_t v; Z() { mpz_init(v); } Z(const Z &o) { mpz_init_set(v, o.v); } Z &operator=(const Z &o) { mpz_set(v, o.v); return *this; } ~Z() { mpz_clear(v); } operator mpz_ptr() { return v; } operator mpz_srcptr() const { return v; } };
template <class T> static std::string expo(const T &x) { std::ostringstream o; o << x; return o.str(); }

static long g_evals = 0; static std::set<uint64_t> g_distinct; static std::string g_sample;
static void note(const std::string &type, const std::string &dims) { g_evals++; g_distinct.insert(fnv(type + "\x01" + dims)); count("rt_" + type); }
static void fail(const std::string &type, const std::string &kind, const std::string &what, J &w) { violation("C11/" + type + "/" + kind, what, w.str()); }

// ------------------------------------------------------------------ integer values
static const size_t MAXTXT = TMCG_MAX_VALUE_CHARS - 2;      // getline(buf, TMCG_MAX_VALUE_CHARS - 1) stores at most this many characters
static void rand_digits(std::string &s, size_t n, Rng &r) { static const char *dg = "0123456789ABCDEFGHIJKLMNOPQRSTUVWXYZabcdefghijklmnopqrstuvwxyz"; s.clear(); if (!n) return; s += dg[1 + r.below(61)]; for (size_t i = 1; i < n; i++) s += dg[r.below(62)]; }
// value classes used inside cards / stacks / groups
static void value_of_class(mpz_ptr v, int cls, Rng &r) {
	switch (cls) {
	case 0: mpz_set_ui(v, 0); break;
	case 1: mpz_set_ui(v, 1); break;
	case 2: mpz_set_si(v, -1); break;
	case 3: { unsigned long k = 1 + r.below(1100); mpz_set_ui(v, 1); mpz_mul_2exp(v, v, k); if (r.coin()) mpz_add_ui(v, v, 1); else mpz_sub_ui(v, v, 1); if (r.below(4) == 0) mpz_neg(v, v); break; }
	case 4: r.mpz_bits(v, 1 + r.below(64)); break;
	case 5: r.mpz_bits(v, 512); break;
	case 6: r.mpz_bits(v, 1024 + r.below(1100)); if (r.below(8) == 0) mpz_neg(v, v); break;
	case 7: { std::string s; rand_digits(s, MAXTXT, r); mpz_set_str(v, s.c_str(), 62); break; }      // longest text
	default: r.mpz_bits(v, 160); break;
	}
}
static const char *vclass_name(int c) { static const char *n[] = {"zero", "one", "minus one", "2^k+-1", "small", "512 bit", "big/negative", "longest text", "160 bit"}; return n[c < 0 || c > 8 ? 8 : c]; }
// mixed class: every value of the object drawn from its own class
static int pick_class(int mode, Rng &r) { if (mode >= 0) return mode; static const int mix[] = {0, 1, 2, 3, 3, 4, 5, 5, 6, 8}; return mix[r.below(10)]; }

// ------------------------------------------------------------------ integers through the stream operators
enum { T_MPZ = 0, T_BIGINT = 1, T_GCRY = 2 };
static const char *tname(int t) { return t == T_MPZ ? "mpz" : t == T_BIGINT ? "TMCG_Bigint" : "gcry_mpi"; }
// returns 1 exact, 0 refused, -1 wrong value (violation reported)
static int int_roundtrip(mpz_srcptr v, int transport, const std::string &cls) {
	std::string text, exc; bool exported = true;
	try {
		std::ostringstream o;
		if (transport == T_MPZ) o << v;
		else if (transport == T_BIGINT) { TMCG_Bigint b; mpz_set(b.bigint, v); o << b; }
		else { gcry_mpi_t m = gcry_mpi_new(8); if (!tmcg_mpz_get_gcry_mpi(m, v)) { gcry_mpi_release(m); count("gcry_mpi_conversion_refused"); return 0; } try { o << m; } catch (...) { gcry_mpi_release(m); throw; } gcry_mpi_release(m); }
		text = o.str();
	} catch (std::exception &e) { exported = false; exc = e.what(); }
	note(std::string("int_") + tname(transport), cls + "/" + std::to_string(mpz_sizeinbase(v, 2)) + (mpz_sgn(v) < 0 ? "n" : "p"));
	if (!exported) { count(std::string("int_export_refused_") + tname(transport));
		// refusing to export is only acceptable beyond the documented value size
		if (mpz_sizeinbase(v, 16) + 2 < TMCG_MAX_VALUE_CHARS - 1) { J w; w.kv("transport", tname(transport)).kv("class", cls).kz("value", v).kv("exception", exc); fail("integer", "export-refused", "operator<< refused a value that fits TMCG_MAX_VALUE_CHARS", w); return -1; }
		return 0; }
	Z w; bool ok = true; std::string iexc;
	try {
		std::istringstream in(text + "\n");
		if (transport == T_BIGINT) { TMCG_Bigint b; in >> b; mpz_set(w, b.bigint); } else in >> (mpz_ptr)w;
		if (in.fail()) ok = false;
	} catch (std::exception &e) { ok = false; iexc = e.what(); }
	J wj; wj.kv("transport", tname(transport)).kv("class", cls).kv("text_length", (long long)text.size()).kv("text", shorten(text, 200)).kv("value", shorten(mpz_dec(v), 200)).kv("read_back", shorten(mpz_dec(w), 200)).kv("exception", iexc);
	if (!ok) { if (text.size() <= MAXTXT) { fail("integer", "import-refused", "operator>> refused a text that fits TMCG_MAX_VALUE_CHARS", wj); return -1; } count("int_long_text_refused"); return 0; }
	if (mpz_cmp(w, v)) { fail("integer", text.size() > MAXTXT ? "long-text-truncated" : "value-changed", "integer changed on its way through operator<< / operator>>", wj); return -1; }
	if (g_sample.empty()) g_sample = J().kv("type", std::string("integer/") + tname(transport)).kv("class", cls).kv("text", shorten(text, 60)).kv("equal", true).str();
	return 1;
}

static void case_integers(int block, Rng &r) {
	Z v;
	if (block == 0) {          // boundary catalogue
		std::vector<unsigned long> ks; for (unsigned long k = 1; k <= 70; k++) ks.push_back(k);
		for (unsigned long k : {127ul, 128ul, 129ul, 255ul, 256ul, 257ul, 511ul, 512ul, 513ul, 1023ul, 1024ul, 1025ul, 2047ul, 2048ul, 2049ul, 4095ul, 4096ul, 8191ul, 8192ul, 16383ul, 16384ul, 16385ul, 20000ul, 24000ul}) ks.push_back(k);
		for (int t = 0; t < 3; t++) {
			for (long s : {0l, 1l, -1l, 2l, -2l, 61l, 62l, 63l, -62l}) { mpz_set_si(v, s); int rc = int_roundtrip(v, t, "small constant"); if (rc == 1) count("int_exact"); }
			for (unsigned long k : ks) for (int d = -1; d <= 1; d++) for (int sg = 0; sg < 2; sg++) {
				mpz_set_ui(v, 1); mpz_mul_2exp(v, v, k); if (d > 0) mpz_add_ui(v, v, 1); if (d < 0) mpz_sub_ui(v, v, 1); if (sg) mpz_neg(v, v);
				int rc = int_roundtrip(v, t, "2^k" + std::string(d < 0 ? "-1" : d > 0 ? "+1" : "")); if (rc == 1) count("int_exact"); count(std::string("int_pow2_") + tname(t)); }
		}
	} else if (block == 1) {   // text-length boundaries: 62^j, 62^j-1, longest text, longer texts
		for (int t = 0; t < 2; t++) {
			for (size_t L : {1ul, 2ul, 3ul, 10ul, 11ul, 100ul, 1000ul, 4000ul, MAXTXT - 2, MAXTXT - 1, MAXTXT}) for (int form = 0; form < 4; form++) {
				std::string s; if (form == 0) s = "1" + std::string(L - 1, '0'); else if (form == 1) s = std::string(L, 'z'); else if (form == 2) { if (L < 2) continue; s = "-" + std::string(L - 1, 'z'); } else rand_digits(s, L, r);
				mpz_set_str(v, s.c_str(), 62); int rc = int_roundtrip(v, t, "text length " + std::to_string(L)); if (rc == 1) { count("int_exact"); if (L == MAXTXT) count("int_longest_text_exact"); } }
			// longer texts: produced by the library's own operator<< from bigger values; must be refused, never truncated
			for (size_t L : {MAXTXT + 1, MAXTXT + 2, MAXTXT + 3, MAXTXT + 100, 2 * MAXTXT, 3 * MAXTXT + 7}) for (int form = 0; form < 3; form++) {
				std::string s; if (form == 0) s = std::string(L, 'z'); else if (form == 1) s = "-" + std::string(L - 1, '1'); else rand_digits(s, L, r);
				mpz_set_str(v, s.c_str(), 62); int rc = int_roundtrip(v, t, "longer text " + std::to_string(L)); count("int_longer_text_cases"); if (rc == 1) count("int_longer_text_exact"); }
		}
		// several integers on one stream (newline framing)
		for (int rep = 0; rep < 20; rep++) {
			std::vector<Z> vs(1 + r.below(8)); std::ostringstream o; for (auto &x : vs) { value_of_class(x, pick_class(-1, r), r); o << (mpz_srcptr)x << std::endl; }
			std::istringstream in(o.str()); bool ok = true; size_t bad = 0;
			try { for (size_t i = 0; i < vs.size(); i++) { Z w; in >> (mpz_ptr)w; if (in.fail() || mpz_cmp(w, vs[i])) { ok = false; bad = i; break; } } } catch (std::exception &) { ok = false; }
			note("int_sequence", std::to_string(vs.size())); if (!ok) { J w; w.kv("text", shorten(o.str(), 400)).kv("index", (long long)bad); fail("integer", "sequence-changed", "a sequence of integers did not survive the newline framing", w); } else count("int_exact");
		}
	} else {                   // random values of all sizes
		size_t n = ctx.quick() ? 400 : 4000;
		for (size_t i = 0; i < n; i++) { size_t bits = 1 + r.below(i % 10 == 0 ? 16000 : 2100); r.mpz_bits(v, bits); if (r.below(3) == 0) mpz_neg(v, v); int t = (int)(i % 3); int rc = int_roundtrip(v, t, "random"); if (rc == 1) count("int_exact"); }
	}
}

// ------------------------------------------------------------------ cards
static std::string card_diff(const TMCG_Card &a, const TMCG_Card &b) {
	if (a.z.size() != b.z.size()) return "players"; for (size_t i = 0; i < a.z.size(); i++) { if (a.z[i].size() != b.z[i].size()) return "type bits"; for (size_t j = 0; j < a.z[i].size(); j++) if (mpz_cmp(&a.z[i][j], &b.z[i][j])) return "z[" + std::to_string(i) + "][" + std::to_string(j) + "]"; } return ""; }
static std::string cs_diff(const TMCG_CardSecret &a, const TMCG_CardSecret &b) {
	if (a.r.size() != b.r.size() || a.b.size() != b.b.size()) return "players"; for (size_t i = 0; i < a.r.size(); i++) { if (a.r[i].size() != b.r[i].size() || a.b[i].size() != b.b[i].size()) return "type bits"; for (size_t j = 0; j < a.r[i].size(); j++) { if (mpz_cmp(&a.r[i][j], &b.r[i][j])) return "r[" + std::to_string(i) + "][" + std::to_string(j) + "]"; if (mpz_cmp(&a.b[i][j], &b.b[i][j])) return "b[" + std::to_string(i) + "][" + std::to_string(j) + "]"; } } return ""; }
static void fill_card(TMCG_Card &c, int mode, Rng &r) { for (auto &row : c.z) for (auto &x : row) value_of_class(&x, pick_class(mode, r), r); }
static void fill_cs(TMCG_CardSecret &c, int mode, Rng &r) { for (auto &row : c.r) for (auto &x : row) value_of_class(&x, pick_class(mode, r), r); for (auto &row : c.b) for (auto &x : row) { if (mode < 0 && r.coin()) mpz_set_ui(&x, r.below(2)); else value_of_class(&x, pick_class(mode, r), r); } }

// transports: 0 import(string), 1 operator>>, 2 (keys only) string constructor
template <class T, class Diff> static bool roundtrip(const std::string &type, const std::string &dims, const T &x, T &y, int transport, const std::string &mode, Diff diff, bool has_eq, std::function<bool(const T &, const T &)> eq = nullptr) {
	std::string t1 = expo(x), exc; bool ok = false;
	try { if (transport == 1) { std::istringstream in(t1 + "\n"); in >> y; ok = !in.fail(); } else ok = y.import(t1); } catch (std::exception &e) { exc = e.what(); }
	note(type, dims + "/" + mode + "/" + std::to_string(transport)); count("mode_" + mode); count(transport == 1 ? "transport_stream_operator" : "transport_import");
	J w; w.kv("type", type).kv("dimensions", dims).kv("target", mode).kv("transport", transport == 1 ? "operator>>" : "import(string)").kv("text_length", (long long)t1.size()).kv("text1", shorten(t1, 500)).kv("exception", exc);
	if (!ok) { fail(type, "import-refused", "import of the object's own export failed", w); return false; }
	std::string t2 = expo(y); w.kv("text2", shorten(t2, 500));
	if (t1 != t2) { size_t p = 0; while (p < t1.size() && p < t2.size() && t1[p] == t2[p]) p++; w.kv("first_difference_at", (long long)p).kv("text2_length", (long long)t2.size()); fail(type, "reexport-differs", "export(import(export(x))) != export(x)", w); return false; }
	std::string d = diff(x, y); if (!d.empty()) { w.kv("member", d); fail(type, "member-differs", "imported object differs from the original in a public member", w); return false; }
	if (has_eq && eq && !eq(x, y)) { fail(type, "operator-eq-false", "import(export(x)) == x is false", w); return false; }
	if (g_sample.empty()) g_sample = J().kv("type", type).kv("dimensions", dims).kv("target", mode).kv("text1", shorten(t1, 80)).kv("text2_equal", true).str();
	return true;
}

static void case_cards(size_t k, Rng &r) {
	bool quick = ctx.quick();
	size_t wsel = 2 + r.below(TMCG_MAX_TYPEBITS - 2);      // quick: the used-object variants run for w = 1, one random w, the maximum
	for (size_t w = 1; w <= TMCG_MAX_TYPEBITS; w++) {
		std::string dims = "k=" + std::to_string(k) + ",w=" + std::to_string(w); count("dim_k_" + std::to_string(k)); count("dim_w_" + std::to_string(w));
		bool deep = !quick || w == 1 || w == wsel || w == TMCG_MAX_TYPEBITS;
		std::vector<int> modes = {-1}; if (deep) modes.push_back(5); if (!quick) { modes.push_back(0); modes.push_back(6); modes.push_back(3); }
		bool maxcase = (k == TMCG_MAX_PLAYERS && w == TMCG_MAX_TYPEBITS) || (k == 1 && w == 1) || (!quick && (k * w) % 37 == 0);
		if (maxcase) modes.push_back(7);
		int tr = 0;
		for (int mode : modes) {
			TMCG_Card c(k, w); fill_card(c, mode, r); TMCG_CardSecret s(k, w); fill_cs(s, mode, r);
			std::string d2 = dims + "," + (mode < 0 ? "mixed" : vclass_name(mode));
			auto ceq = [](const TMCG_Card &a, const TMCG_Card &b) { return (a == b) && !(a != b); };
			// fresh objects
			{ TMCG_Card y; roundtrip<TMCG_Card>("TMCG_Card", d2, c, y, (tr++ % 4 == 0) ? 1 : 0, "fresh", card_diff, true, ceq); }
			{ TMCG_CardSecret y; roundtrip<TMCG_CardSecret>("TMCG_CardSecret", d2, s, y, (tr++ % 4 == 0) ? 1 : 0, "fresh", cs_diff, false); }
			if (mode == 7) { count("card_longest_values"); continue; }
			if (!deep || (quick && mode != -1)) continue;
			// previously used objects: same dimensions, more players, fewer players, other type bits
			struct U { size_t k, w; const char *n; }; std::vector<U> us = {{k, w, "used_same"}};
			if (k < TMCG_MAX_PLAYERS) us.push_back({k + 1 + r.below(TMCG_MAX_PLAYERS - k), w, "used_shrink"}); if (k > 1) us.push_back({1 + r.below(k - 1), w, "used_grow"});
			us.push_back({1 + r.below(TMCG_MAX_PLAYERS), w == 1 ? 2 + r.below(TMCG_MAX_TYPEBITS - 1) : 1 + r.below(w - 1), "used_rebuild"});
			for (auto &u : us) {
				{ TMCG_Card y(u.k, u.w); fill_card(y, 5, r); roundtrip<TMCG_Card>("TMCG_Card", d2, c, y, (tr++ % 5 == 0) ? 1 : 0, u.n, card_diff, true, ceq); }
				{ TMCG_CardSecret y(u.k, u.w); fill_cs(y, 5, r); roundtrip<TMCG_CardSecret>("TMCG_CardSecret", d2, s, y, (tr++ % 5 == 0) ? 1 : 0, u.n, cs_diff, false); }
			}
			// an object that went through two imports of different dimensions
			{ TMCG_Card y; TMCG_Card a(TMCG_MAX_PLAYERS, w); fill_card(a, 4, r); y.import(expo(a)); roundtrip<TMCG_Card>("TMCG_Card", d2, c, y, 0, "used_twice", card_diff, true, ceq); }
			{ TMCG_CardSecret y; TMCG_CardSecret a(TMCG_MAX_PLAYERS, w); fill_cs(a, 4, r); y.import(expo(a)); roundtrip<TMCG_CardSecret>("TMCG_CardSecret", d2, s, y, 0, "used_twice", cs_diff, false); }
		}
	}
}

static std::string vc_diff(const VTMF_Card &a, const VTMF_Card &b) { if (mpz_cmp(a.c_1, b.c_1)) return "c_1"; if (mpz_cmp(a.c_2, b.c_2)) return "c_2"; return ""; }
static std::string vcs_diff(const VTMF_CardSecret &a, const VTMF_CardSecret &b) { return mpz_cmp(a.r, b.r) ? "r" : ""; }
static void case_vtmf_cards(Rng &r) {
	size_t n = ctx.quick() ? 150 : 1500;
	auto veq = [](const VTMF_Card &a, const VTMF_Card &b) { return (a == b) && !(a != b); };
	for (size_t i = 0; i < n; i++) {
		int m1 = i < 9 ? (int)i % 9 : pick_class(-1, r), m2 = i < 81 ? (int)(i / 9) % 9 : pick_class(-1, r); if (i >= 9 && i < 18) m2 = 7;
		VTMF_Card c; value_of_class(c.c_1, m1, r); value_of_class(c.c_2, m2, r); VTMF_CardSecret s; value_of_class(s.r, m1, r);
		std::string d = std::string(vclass_name(m1)) + "," + vclass_name(m2);
		{ VTMF_Card y; roundtrip<VTMF_Card>("VTMF_Card", d, c, y, i % 3 == 0 ? 1 : 0, "fresh", vc_diff, true, veq); }
		{ VTMF_Card y; value_of_class(y.c_1, 6, r); value_of_class(y.c_2, 5, r); roundtrip<VTMF_Card>("VTMF_Card", d, c, y, i % 3 == 1 ? 1 : 0, "used_same", vc_diff, true, veq); }
		{ VTMF_CardSecret y; roundtrip<VTMF_CardSecret>("VTMF_CardSecret", d, s, y, i % 3 == 0 ? 1 : 0, "fresh", vcs_diff, false); }
		{ VTMF_CardSecret y; value_of_class(y.r, 6, r); roundtrip<VTMF_CardSecret>("VTMF_CardSecret", d, s, y, i % 3 == 1 ? 1 : 0, "used_same", vcs_diff, false); }
	}
}

// ------------------------------------------------------------------ stacks
static std::vector<size_t> random_perm(size_t n, Rng &r) { std::vector<size_t> p(n); for (size_t i = 0; i < n; i++) p[i] = i; for (size_t i = n; i > 1; i--) std::swap(p[i - 1], p[r.below(i)]); return p; }
static void case_stacks(int kind, size_t size, size_t k, size_t w, int mode, bool stream, Rng &r) {
	std::string dims = "size=" + std::to_string(size) + ",k=" + std::to_string(k) + ",w=" + std::to_string(w) + "," + (mode < 0 ? "mixed" : vclass_name(mode)); count("stack_size_" + std::to_string(size)); if (stream) count("stack_stream_operator_cases");
	if (kind == 0) {
		TMCG_Stack<TMCG_Card> s; TMCG_StackSecret<TMCG_CardSecret> ss; std::vector<size_t> pi = random_perm(size, r);
		for (size_t i = 0; i < size; i++) { bool odd = (k * w > 1) && mode == -2 && (i % 3 == 1); TMCG_Card c(odd ? 1 : k, odd ? 1 : w); fill_card(c, mode == -2 ? -1 : mode, r); s.push(c); TMCG_CardSecret cs(odd ? 1 : k, odd ? 1 : w); fill_cs(cs, mode == -2 ? -1 : mode, r); ss.push(pi[i], cs); }
		if (s.size() != size || ss.size() != size) { J wj; wj.kv("size", (long long)size).kv("got", (long long)s.size()); fail("TMCG_Stack", "push-lost-card", "push() dropped a card below TMCG_MAX_CARDS", wj); }
		auto sdiff = [](const TMCG_Stack<TMCG_Card> &a, const TMCG_Stack<TMCG_Card> &b) -> std::string { if (a.size() != b.size()) return "size"; for (size_t i = 0; i < a.size(); i++) { std::string d = card_diff(a[i], b[i]); if (!d.empty()) return "card " + std::to_string(i) + " " + d; } return ""; };
		auto ssdiff = [](const TMCG_StackSecret<TMCG_CardSecret> &a, const TMCG_StackSecret<TMCG_CardSecret> &b) -> std::string { if (a.size() != b.size()) return "size"; for (size_t i = 0; i < a.size(); i++) { if (a[i].first != b[i].first) return "index " + std::to_string(i); std::string d = cs_diff(a[i].second, b[i].second); if (!d.empty()) return "secret " + std::to_string(i) + " " + d; } return ""; };
		{ TMCG_Stack<TMCG_Card> y; roundtrip<TMCG_Stack<TMCG_Card>>("TMCG_Stack<TMCG_Card>", dims, s, y, stream ? 1 : 0, "fresh", sdiff, true, [](const TMCG_Stack<TMCG_Card> &a, const TMCG_Stack<TMCG_Card> &b) { TMCG_Stack<TMCG_Card> aa, bb; aa = a; bb = b; return (aa == bb) && !(aa != bb); }); }
		{ TMCG_StackSecret<TMCG_CardSecret> y; roundtrip<TMCG_StackSecret<TMCG_CardSecret>>("TMCG_StackSecret<TMCG_CardSecret>", dims, ss, y, stream ? 1 : 0, "fresh", ssdiff, false); }
		if (!stream) { TMCG_StackSecret<TMCG_CardSecret> y; size_t n0 = 1 + r.below(6); std::vector<size_t> p0 = random_perm(n0, r); for (size_t i = 0; i < n0; i++) { TMCG_CardSecret cs(k, w); fill_cs(cs, 4, r); y.push(p0[i], cs); }
			roundtrip<TMCG_StackSecret<TMCG_CardSecret>>("TMCG_StackSecret<TMCG_CardSecret>", dims, ss, y, 0, "used_stack_secret", ssdiff, false);
			// a stack import appends to the existing cards (documented container behaviour): observed, not judged
			TMCG_Stack<TMCG_Card> u; TMCG_Card c0(k, w); u.push(c0); bool ok = u.import(expo(s)); count(ok && u.size() == size + 1 ? "obs_stack_import_into_used_appends" : "obs_stack_import_into_used_other"); }
	} else {
		TMCG_Stack<VTMF_Card> s; TMCG_StackSecret<VTMF_CardSecret> ss; std::vector<size_t> pi = random_perm(size, r);
		for (size_t i = 0; i < size; i++) { VTMF_Card c; value_of_class(c.c_1, pick_class(mode < 0 ? -1 : mode, r), r); value_of_class(c.c_2, pick_class(mode < 0 ? -1 : mode, r), r); s.push(c); VTMF_CardSecret cs; value_of_class(cs.r, pick_class(mode < 0 ? -1 : mode, r), r); ss.push(pi[i], cs); }
		if (s.size() != size || ss.size() != size) { J wj; wj.kv("size", (long long)size).kv("got", (long long)s.size()); fail("TMCG_Stack", "push-lost-card", "push() dropped a card below TMCG_MAX_CARDS", wj); }
		auto sdiff = [](const TMCG_Stack<VTMF_Card> &a, const TMCG_Stack<VTMF_Card> &b) -> std::string { if (a.size() != b.size()) return "size"; for (size_t i = 0; i < a.size(); i++) { std::string d = vc_diff(a[i], b[i]); if (!d.empty()) return "card " + std::to_string(i) + " " + d; } return ""; };
		auto ssdiff = [](const TMCG_StackSecret<VTMF_CardSecret> &a, const TMCG_StackSecret<VTMF_CardSecret> &b) -> std::string { if (a.size() != b.size()) return "size"; for (size_t i = 0; i < a.size(); i++) { if (a[i].first != b[i].first) return "index " + std::to_string(i); std::string d = vcs_diff(a[i].second, b[i].second); if (!d.empty()) return "secret " + std::to_string(i) + " " + d; } return ""; };
		{ TMCG_Stack<VTMF_Card> y; roundtrip<TMCG_Stack<VTMF_Card>>("TMCG_Stack<VTMF_Card>", dims, s, y, stream ? 1 : 0, "fresh", sdiff, true, [](const TMCG_Stack<VTMF_Card> &a, const TMCG_Stack<VTMF_Card> &b) { TMCG_Stack<VTMF_Card> aa, bb; aa = a; bb = b; return (aa == bb) && !(aa != bb); }); }
		{ TMCG_StackSecret<VTMF_CardSecret> y; roundtrip<TMCG_StackSecret<VTMF_CardSecret>>("TMCG_StackSecret<VTMF_CardSecret>", dims, ss, y, stream ? 1 : 0, "fresh", ssdiff, false); }
		if (!stream) { TMCG_StackSecret<VTMF_CardSecret> y; size_t n0 = 1 + r.below(6); std::vector<size_t> p0 = random_perm(n0, r); for (size_t i = 0; i < n0; i++) { VTMF_CardSecret cs; value_of_class(cs.r, 4, r); y.push(p0[i], cs); }
			roundtrip<TMCG_StackSecret<VTMF_CardSecret>>("TMCG_StackSecret<VTMF_CardSecret>", dims, ss, y, 0, "used_stack_secret", ssdiff, false); }
	}
}

// ------------------------------------------------------------------ keys
static std::string pk_diff(const TMCG_PublicKey &a, const TMCG_PublicKey &b) { if (a.name != b.name) return "name"; if (a.email != b.email) return "email"; if (a.type != b.type) return "type"; if (a.nizk != b.nizk) return "nizk"; if (a.sig != b.sig) return "sig"; if (mpz_cmp(a.m, b.m)) return "m"; if (mpz_cmp(a.y, b.y)) return "y"; return ""; }
static std::string sk_diff(const TMCG_SecretKey &a, const TMCG_SecretKey &b) {
	if (a.name != b.name) return "name"; if (a.email != b.email) return "email"; if (a.type != b.type) return "type"; if (a.nizk != b.nizk) return "nizk"; if (a.sig != b.sig) return "sig";
	if (mpz_cmp(a.m, b.m)) return "m"; if (mpz_cmp(a.y, b.y)) return "y"; if (mpz_cmp(a.p, b.p)) return "p"; if (mpz_cmp(a.q, b.q)) return "q";
	if (mpz_cmp(a.y1, b.y1)) return "y1 (precomputed)"; if (mpz_cmp(a.m1pq, b.m1pq)) return "m1pq (precomputed)"; if (mpz_cmp(a.gcdext_up, b.gcdext_up)) return "gcdext_up (precomputed)"; if (mpz_cmp(a.gcdext_vq, b.gcdext_vq)) return "gcdext_vq (precomputed)"; if (mpz_cmp(a.pa1d4, b.pa1d4)) return "pa1d4 (precomputed)"; if (mpz_cmp(a.qa1d4, b.qa1d4)) return "qa1d4 (precomputed)"; return ""; }
static void case_keys(int variant, Rng &r) {
	struct Spec { unsigned long bits; bool nizk; const char *name, *email; };
	static const Spec specs[] = {{512, false, "Alice", "alice@example.org"}, {672, false, "", ""}, {768, false, "Bob B. Builder", "b ob@x"}, {424, true, "N^zk", "n@z^k"}, {1024, false, "\xc3\xa4\xc3\xb6\xc3\xbc", "u@\xc3\x9f"}, {1024, true, "Carol", "carol@example.org"}, {2048, false, "Dave", "dave@example.org"}};
	const Spec &sp = specs[variant]; std::string dims = std::to_string(sp.bits) + (sp.nizk ? ",nizk" : ",plain") + ",name=" + sp.name;
	TMCG_SecretKey sk(sp.name, sp.email, sp.bits, sp.nizk); TMCG_PublicKey pk(sk); count("key_" + std::to_string(sp.bits) + (sp.nizk ? "n" : ""));
	TMCG_SecretKey other("Other", "other@example.org", 640, false); TMCG_PublicKey opk(other);
	for (int tr = 0; tr < 2; tr++) {
		{ TMCG_PublicKey y; if (roundtrip<TMCG_PublicKey>("TMCG_PublicKey", dims, pk, y, tr, "fresh", pk_diff, false)) { if (y.fingerprint() != pk.fingerprint() || y.keyid() != pk.keyid()) { J w; w.kv("dims", dims); fail("TMCG_PublicKey", "fingerprint-differs", "fingerprint/keyid of the imported key differs", w); } } }
		{ TMCG_PublicKey y(opk); roundtrip<TMCG_PublicKey>("TMCG_PublicKey", dims, pk, y, tr, "used_other_key", pk_diff, false); }
		{ TMCG_SecretKey y; roundtrip<TMCG_SecretKey>("TMCG_SecretKey", dims, sk, y, tr, "fresh", sk_diff, false); }
		{ TMCG_SecretKey y(other); if (roundtrip<TMCG_SecretKey>("TMCG_SecretKey", dims, sk, y, tr, "used_other_key", sk_diff, false)) {
			// the imported secret key works like the original: its signature verifies under the original public key
			std::string s = y.sign("round trip"); note("TMCG_SecretKey/functional", dims); if (!pk.verify("round trip", s)) { J w; w.kv("dims", dims).kv("sig", s); fail("TMCG_SecretKey", "imported-key-signs-wrongly", "signature of the re-imported secret key does not verify under the original public key", w); } } }
	}
	// string constructors
	{ TMCG_PublicKey y(expo(pk)); note("TMCG_PublicKey", dims + "/ctor"); count("transport_string_ctor"); std::string d = pk_diff(pk, y); if (!d.empty() || expo(y) != expo(pk)) { J w; w.kv("dims", dims).kv("member", d); fail("TMCG_PublicKey", "ctor-differs", "TMCG_PublicKey(string) differs from the exported key", w); } }
	{ TMCG_SecretKey y(expo(sk)); note("TMCG_SecretKey", dims + "/ctor"); count("transport_string_ctor"); std::string d = sk_diff(sk, y); if (!d.empty() || expo(y) != expo(sk)) { J w; w.kv("dims", dims).kv("member", d); fail("TMCG_SecretKey", "ctor-differs", "TMCG_SecretKey(string) differs from the exported key", w); } }
	// a used object that held a NIZK key receives a plain one and vice versa
	if (variant == 3) { TMCG_PublicKey y(pk); roundtrip<TMCG_PublicKey>("TMCG_PublicKey", "640,plain over nizk", opk, y, 0, "used_nizk_key", pk_diff, false); TMCG_SecretKey z(sk); roundtrip<TMCG_SecretKey>("TMCG_SecretKey", "640,plain over nizk", other, z, 0, "used_nizk_key", sk_diff, false); }
	// observation only: the delimiter inside a free-text field (not an integer/dimension of the quantifier)
	if (variant == 0) { TMCG_SecretKey d("A|B", "a@b", 512, false); TMCG_SecretKey y; bool ok = y.import(expo(d)); count(ok && expo(y) == expo(d) ? "obs_key_name_with_delimiter_roundtrips" : "obs_key_name_with_delimiter_does_not_roundtrip"); }
}

// ------------------------------------------------------------------ groups (PublishGroup <-> stream constructor)
static bool zeq(mpz_srcptr a, mpz_srcptr b) { return mpz_cmp(a, b) == 0; }
static bool veq(const std::vector<mpz_ptr> &a, const std::vector<mpz_ptr> &b) { if (a.size() != b.size()) return false; for (size_t i = 0; i < a.size(); i++) if (mpz_cmp(a[i], b[i])) return false; return true; }
static bool vveq(const std::vector<std::vector<mpz_ptr>> &a, const std::vector<std::vector<mpz_ptr>> &b) { if (a.size() != b.size()) return false; for (size_t i = 0; i < a.size(); i++) if (!veq(a[i], b[i])) return false; return true; }
#define CMP(f) if (!zeq(a.f, b.f)) return #f;
#define CMPS(f) if (a.f != b.f) return #f;
#define CMPV(f) if (!veq(a.f, b.f)) return #f;
#define CMPVV(f) if (!vveq(a.f, b.f)) return #f;
template <class T> static std::string pubgroup(const T &x) { std::ostringstream o; x.PublishGroup(o); return o.str(); }
template <class T> static std::string pubstate(const T &x) { std::ostringstream o; x.PublishState(o); return o.str(); }
// generic check: t1 = publish(x); y = make(stream(t1)); publish(y) == t1, members equal, stream fully consumed
template <class T, class Make, class Diff, class Pub> static void stream_rt(const std::string &type, const std::string &dims, const T &x, Make make, Diff diff, Pub pub, std::function<bool(const T &)> check = nullptr) {
	std::string t1 = pub(x), exc; std::unique_ptr<T> y; std::istringstream in(t1);
	try { y.reset(make(in)); } catch (std::exception &e) { exc = e.what(); }
	note(type, dims);
	J w; w.kv("type", type).kv("dimensions", dims).kv("text_length", (long long)t1.size()).kv("text1", shorten(t1, 600)).kv("exception", exc);
	if (!y) { fail(type, "import-refused", "stream constructor refused the object's own published text", w); return; }
	std::string t2 = pub(*y);
	if (t1 != t2) { size_t p = 0; while (p < t1.size() && p < t2.size() && t1[p] == t2[p]) p++; w.kv("first_difference_at", (long long)p).kv("text2", shorten(t2, 600)); fail(type, "reexport-differs", "publish(construct(publish(x))) != publish(x)", w); return; }
	std::string d = diff(x, *y); if (!d.empty()) { w.kv("member", d); fail(type, "member-differs", "object built from the published text differs in a public member", w); return; }
	if (in.fail()) { fail(type, "stream-failed", "stream went into a failed state while reading the published text", w); return; }
	{ std::string rest; std::getline(in, rest); if (!rest.empty() || !in.eof()) { std::string more; std::getline(in, more); if (!rest.empty() || !more.empty()) { w.kv("left_over", shorten(rest + more, 100)); fail(type, "text-not-consumed", "stream constructor left part of the published text unread", w); return; } } }
	if (check && check(x) && !check(*y)) { fail(type, "check-differs", "CheckGroup() true for the original, false for the re-imported object", w); return; }
	if (g_sample.empty()) g_sample = J().kv("type", type).kv("dimensions", dims).kv("text1", shorten(t1, 80)).kv("text2_equal", true).str();
}

static void case_groups(int cls, Rng &r) {
	bool quick = ctx.quick();
	struct Sz { unsigned long fs, gs; }; std::vector<Sz> sizes = {{512, 160}, {768, 200}}; if (!quick) { sizes.push_back({1024, 160}); sizes.push_back({2048, 256}); }
	for (auto sz : sizes) {
		std::string sd = std::to_string(sz.fs) + "/" + std::to_string(sz.gs);
		if (cls == 0) {
			for (int canon = 0; canon < 2; canon++) {
				BarnettSmartVTMF_dlog x(sz.fs, sz.gs, canon == 1, true);
				auto diff = [](const BarnettSmartVTMF_dlog &a, const BarnettSmartVTMF_dlog &b) -> std::string { CMP(p) CMP(q) CMP(g) CMP(k) return ""; };
				auto chk = [](const BarnettSmartVTMF_dlog &a) { return a.CheckGroup(); };
				for (int phase = 0; phase < 2; phase++) {     // before and after key generation (the group text must not depend on keys)
					stream_rt<BarnettSmartVTMF_dlog>("BarnettSmartVTMF_dlog", sd + (canon ? ",canonical" : ",random") + (phase ? ",with key" : ""), x, [&](std::istream &in) { return new BarnettSmartVTMF_dlog(in, sz.fs, sz.gs, canon == 1, true); }, diff, pubgroup<BarnettSmartVTMF_dlog>, chk);
					x.KeyGenerationProtocol_GenerateKey(); }
			}
		} else if (cls == 1) {
			if (sz.fs > 1024) continue;       // safe primes of 2048 bit take minutes
			for (unsigned long es : {160ul, sz.fs - 1}) {
				BarnettSmartVTMF_dlog_GroupQR x(sz.fs, es);
				auto diff = [](const BarnettSmartVTMF_dlog_GroupQR &a, const BarnettSmartVTMF_dlog_GroupQR &b) -> std::string { CMP(p) CMP(q) CMP(g) CMP(k) return ""; };
				stream_rt<BarnettSmartVTMF_dlog_GroupQR>("BarnettSmartVTMF_dlog_GroupQR", sd + ",exp=" + std::to_string(es), x, [&](std::istream &in) { return new BarnettSmartVTMF_dlog_GroupQR(in, sz.fs, es); }, diff, pubgroup<BarnettSmartVTMF_dlog_GroupQR>, [](const BarnettSmartVTMF_dlog_GroupQR &a) { return a.CheckGroup(); });
			}
		} else if (cls == 2 || cls == 3) {
			std::vector<size_t> ns = {1, 2}; if (sz.fs == 512 || !quick) ns.push_back(32); if (sz.fs == 512) { ns.push_back(TMCG_MAX_FPOWM_N); ns.push_back(TMCG_MAX_FPOWM_N + 1); } if (!quick && sz.fs == 512) ns.push_back(TMCG_MAX_CARDS);
			for (size_t n : ns) {
				count("group_generators_" + std::to_string(n));
				if (cls == 2) {
					PedersenCommitmentScheme x(n, sz.fs, sz.gs);
					auto diff = [](const PedersenCommitmentScheme &a, const PedersenCommitmentScheme &b) -> std::string { CMP(p) CMP(q) CMP(k) CMP(h) CMPV(g) return ""; };
					stream_rt<PedersenCommitmentScheme>("PedersenCommitmentScheme", sd + ",n=" + std::to_string(n), x, [&](std::istream &in) { return new PedersenCommitmentScheme(n, in, sz.fs, sz.gs); }, diff, pubgroup<PedersenCommitmentScheme>, [](const PedersenCommitmentScheme &a) { return a.CheckGroup(); });
					// public-coin generators (what the shuffle arguments use)
					Z a; r.mpz_bits(a, 160); x.SetupGenerators_publiccoin(a, r.coin());
					stream_rt<PedersenCommitmentScheme>("PedersenCommitmentScheme", sd + ",n=" + std::to_string(n) + ",publiccoin", x, [&](std::istream &in) { return new PedersenCommitmentScheme(n, in, sz.fs, sz.gs); }, diff, pubgroup<PedersenCommitmentScheme>, [](const PedersenCommitmentScheme &a) { return a.CheckGroup(); });
				} else {
					if (n > 64 && n != TMCG_MAX_FPOWM_N + 1) continue;
					GrothSKC x(n, TMCG_GROTH_L_E, sz.fs, sz.gs);
					auto diff = [](const GrothSKC &a, const GrothSKC &b) -> std::string { if (!zeq(a.com->p, b.com->p)) return "com->p"; if (!zeq(a.com->q, b.com->q)) return "com->q"; if (!zeq(a.com->k, b.com->k)) return "com->k"; if (!zeq(a.com->h, b.com->h)) return "com->h"; if (!veq(a.com->g, b.com->g)) return "com->g"; return ""; };
					stream_rt<GrothSKC>("GrothSKC", sd + ",n=" + std::to_string(n), x, [&](std::istream &in) { return new GrothSKC(n, in, TMCG_GROTH_L_E, sz.fs, sz.gs); }, diff, pubgroup<GrothSKC>, [](const GrothSKC &a) { return a.CheckGroup(); });
				}
			}
		} else if (cls == 4) {
			BarnettSmartVTMF_dlog v(sz.fs, sz.gs, false, true); v.KeyGenerationProtocol_GenerateKey();
			for (size_t n : {2ul, 8ul, 52ul}) {
				if (quick && (n > 8 || (n > 2 && sz.fs > 512))) continue;
				GrothVSSHE x(n, v.p, v.q, v.k, v.g, v.h, TMCG_GROTH_L_E, sz.fs, sz.gs);
				auto diff = [](const GrothVSSHE &a, const GrothVSSHE &b) -> std::string { CMP(p) CMP(q) CMP(g) CMP(h) if (!zeq(a.com->p, b.com->p)) return "com->p"; if (!zeq(a.com->q, b.com->q)) return "com->q"; if (!zeq(a.com->k, b.com->k)) return "com->k"; if (!zeq(a.com->h, b.com->h)) return "com->h"; if (!veq(a.com->g, b.com->g)) return "com->g"; if (!veq(a.skc->com->g, b.skc->com->g)) return "skc->com->g"; if (!zeq(a.skc->com->h, b.skc->com->h)) return "skc->com->h"; return ""; };
				stream_rt<GrothVSSHE>("GrothVSSHE", sd + ",n=" + std::to_string(n), x, [&](std::istream &in) { return new GrothVSSHE(n, in, TMCG_GROTH_L_E, sz.fs, sz.gs); }, diff, pubgroup<GrothVSSHE>, [](const GrothVSSHE &a) { return a.CheckGroup(); });
				Z a; r.mpz_bits(a, 160); x.SetupGenerators_publiccoin(a);
				stream_rt<GrothVSSHE>("GrothVSSHE", sd + ",n=" + std::to_string(n) + ",publiccoin", x, [&](std::istream &in) { return new GrothVSSHE(n, in, TMCG_GROTH_L_E, sz.fs, sz.gs); }, diff, pubgroup<GrothVSSHE>, [](const GrothVSSHE &a) { return a.CheckGroup(); });
			}
		} else if (cls == 5) {
			for (int own = 0; own < 2; own++) {
				std::unique_ptr<HooghSchoenmakersSkoricVillegasVRHE> x;
				if (own) x.reset(new HooghSchoenmakersSkoricVillegasVRHE(sz.fs, sz.gs)); else { BarnettSmartVTMF_dlog v(sz.fs, sz.gs, false, true); v.KeyGenerationProtocol_GenerateKey(); x.reset(new HooghSchoenmakersSkoricVillegasVRHE(v.p, v.q, v.g, v.h, sz.fs, sz.gs)); }
				auto diff = [](const HooghSchoenmakersSkoricVillegasVRHE &a, const HooghSchoenmakersSkoricVillegasVRHE &b) -> std::string { CMP(p) CMP(q) CMP(g) CMP(h) if (!zeq(a.pub_rot_zk->p, b.pub_rot_zk->p) || !zeq(a.pub_rot_zk->q, b.pub_rot_zk->q) || !zeq(a.pub_rot_zk->g, b.pub_rot_zk->g) || !zeq(a.pub_rot_zk->h, b.pub_rot_zk->h)) return "pub_rot_zk"; return ""; };
				stream_rt<HooghSchoenmakersSkoricVillegasVRHE>("HooghSchoenmakersSkoricVillegasVRHE", sd + (own ? ",generated" : ",from VTMF"), *x, [&](std::istream &in) { return new HooghSchoenmakersSkoricVillegasVRHE(in, sz.fs, sz.gs); }, diff, pubgroup<HooghSchoenmakersSkoricVillegasVRHE>, [](const HooghSchoenmakersSkoricVillegasVRHE &a) { return a.CheckGroup(); });
			}
		} else if (cls == 6) {
			NaorPinkasEOTP x(sz.fs, sz.gs);
			auto diff = [](const NaorPinkasEOTP &a, const NaorPinkasEOTP &b) -> std::string { CMP(p) CMP(q) CMP(g) return ""; };
			stream_rt<NaorPinkasEOTP>("NaorPinkasEOTP", sd, x, [&](std::istream &in) { return new NaorPinkasEOTP(in, sz.fs, sz.gs); }, diff, pubgroup<NaorPinkasEOTP>, [](const NaorPinkasEOTP &a) { return a.CheckGroup(); });
		} else if (cls == 7) {
			for (int own = 0; own < 2; own++) {
				std::unique_ptr<PedersenTrapdoorCommitmentScheme> x;
				if (own) x.reset(new PedersenTrapdoorCommitmentScheme(sz.fs, sz.gs)); else { BarnettSmartVTMF_dlog v(sz.fs, sz.gs, false, true); x.reset(new PedersenTrapdoorCommitmentScheme(v.p, v.q, v.k, v.g, sz.fs, sz.gs)); }
				auto diff = [](const PedersenTrapdoorCommitmentScheme &a, const PedersenTrapdoorCommitmentScheme &b) -> std::string { CMP(p) CMP(q) CMP(k) CMP(g) CMP(h) return ""; };     // sigma is the trapdoor: not published by design
				stream_rt<PedersenTrapdoorCommitmentScheme>("PedersenTrapdoorCommitmentScheme", sd + (own ? ",generated" : ",from VTMF"), *x, [&](std::istream &in) { return new PedersenTrapdoorCommitmentScheme(in, sz.fs, sz.gs); }, diff, pubgroup<PedersenTrapdoorCommitmentScheme>, [](const PedersenTrapdoorCommitmentScheme &a) { return a.CheckGroup(); });
			}
		}
	}
}

// ------------------------------------------------------------------ protocol states from SimNet runs
static const unsigned long FS = 512, GS = 160;
struct Party { size_t i; SimUnicast *aiou; CachinKursawePetzoldShoupRBC *rbc; std::ostringstream err; bool ret = false; };
struct Run { size_t n, t; bool hung = false; uint64_t sent = 0, switches = 0; long vtime = 0; };
static Run run_parties(size_t n, size_t t, uint64_t seed, std::function<void(Party &, Barrier &)> body) {
	Sched sched(seed); sched.use_vclock = true; sched.random_pick = true;
	Net uni(n, &sched), bc(n, &sched); Barrier bar(n); long t0 = g_vtime;
	for (size_t i = 0; i < n; i++) sched.spawn([&, i]() {
		SimUnicast a1(n, i, &uni, aiounicast::aio_scheduler_roundrobin, aiounicast::aio_timeout_short), a2(n, i, &bc, aiounicast::aio_scheduler_roundrobin, aiounicast::aio_timeout_short);
		CachinKursawePetzoldShoupRBC rbc(n, t, i, &a2, aiounicast::aio_scheduler_roundrobin, aiounicast::aio_timeout_short);
		rbc.setID("c11-" + std::to_string(seed));
		Party P; P.i = i; P.aiou = &a1; P.rbc = &rbc;
		body(P, bar);
		bar.arrive_and_serve(i, &rbc);
	}, ctx.seed, seed * 131 + 7);
	sched.run();
	Run R; R.n = n; R.t = t; R.hung = sched.hung; R.sent = uni.sent + bc.sent; R.switches = sched.switches; R.vtime = g_vtime - t0;
	for (auto tk : sched.tasks) if (tk->threw_std || tk->threw_other) R.hung = true;
	return R;
}

static std::string vss_diff(const PedersenVSS &a, const PedersenVSS &b) { CMP(p) CMP(q) CMP(g) CMP(h) CMPS(n) CMPS(t) CMPS(i) CMP(sigma_i) CMP(tau_i) CMPV(a_j) CMPV(b_j) CMPV(A_j) return ""; }
static std::string gdkg_diff(const GennaroJareckiKrawczykRabinDKG &a, const GennaroJareckiKrawczykRabinDKG &b) { CMP(p) CMP(q) CMP(g) CMP(h) CMPS(n) CMPS(t) CMPS(i) CMPS(QUAL) CMP(x_i) CMP(xprime_i) CMP(y) CMPV(y_i) CMPV(z_i) CMPV(v_i) CMPVV(s_ij) CMPVV(sprime_ij) CMPVV(C_ik) return ""; }
static std::string rvss_diff(const CanettiGennaroJareckiKrawczykRabinRVSS &a, const CanettiGennaroJareckiKrawczykRabinRVSS &b) { CMP(p) CMP(q) CMP(g) CMP(h) CMPS(n) CMPS(t) CMPS(i) CMPS(tprime) CMPS(QUAL) CMP(x_i) CMP(xprime_i) CMP(z_i) CMP(zprime_i) CMPVV(s_ji) CMPVV(sprime_ji) CMPVV(C_ik) return ""; }
static std::string zvss_diff(const CanettiGennaroJareckiKrawczykRabinZVSS &a, const CanettiGennaroJareckiKrawczykRabinZVSS &b) { CMP(p) CMP(q) CMP(g) CMP(h) CMPS(n) CMPS(t) CMPS(i) CMPS(tprime) CMPS(QUAL) CMP(x_i) CMP(xprime_i) CMPVV(s_ji) CMPVV(sprime_ji) CMPVV(C_ik) return ""; }
static std::string cdkg_diff(const CanettiGennaroJareckiKrawczykRabinDKG &a, const CanettiGennaroJareckiKrawczykRabinDKG &b) { CMP(p) CMP(q) CMP(g) CMP(h) CMPS(n) CMPS(t) CMPS(i) CMPS(QUAL) CMP(x_i) CMP(xprime_i) CMP(y) std::string d = rvss_diff(*a.x_rvss, *b.x_rvss); return d.empty() ? "" : "x_rvss->" + d; }
static std::string dss_diff(const CanettiGennaroJareckiKrawczykRabinDSS &a, const CanettiGennaroJareckiKrawczykRabinDSS &b) { CMP(p) CMP(q) CMP(g) CMP(h) CMPS(n) CMPS(t) CMPS(i) CMPS(QUAL) CMP(x_i) CMP(xprime_i) CMP(y) std::string d = cdkg_diff(*a.dkg, *b.dkg); return d.empty() ? "" : "dkg->" + d; }

// proto: 0 PedersenVSS, 1 GJKR-DKG, 2 CGJKR-RVSS, 3 CGJKR-ZVSS, 4 CGJKR-DKG (+Refresh), 5 CGJKR-DSS (+Sign)
static const char *proto_name(int p) { static const char *n[] = {"PedersenVSS", "GennaroJareckiKrawczykRabinDKG", "CanettiGennaroJareckiKrawczykRabinRVSS", "CanettiGennaroJareckiKrawczykRabinZVSS", "CanettiGennaroJareckiKrawczykRabinDKG", "CanettiGennaroJareckiKrawczykRabinDSS"}; return n[p]; }
static void case_state(int proto, size_t n, size_t t, Rng &r, long kcase) {
	BarnettSmartVTMF_dlog grp(FS, GS, true, true); grp.KeyGenerationProtocol_GenerateKey();
	std::string dims = "n=" + std::to_string(n) + ",t=" + std::to_string(t); count(std::string("state_") + proto_name(proto)); count("state_n_" + std::to_string(n)); count("state_t_" + std::to_string(t));
	std::vector<PedersenVSS *> vss(n, nullptr); std::vector<GennaroJareckiKrawczykRabinDKG *> gd(n, nullptr); std::vector<CanettiGennaroJareckiKrawczykRabinRVSS *> rv(n, nullptr); std::vector<CanettiGennaroJareckiKrawczykRabinZVSS *> zv(n, nullptr);
	std::vector<CanettiGennaroJareckiKrawczykRabinDKG *> cd(n, nullptr); std::vector<CanettiGennaroJareckiKrawczykRabinDSS *> ds(n, nullptr); std::vector<int> rets(n, 0), rets2(n, 0);
	size_t dealer = r.below(n); bool second = r.coin() || ctx.thorough(); Z sigma; r.mpz_below(sigma, grp.q);
	Run R = run_parties(n, t, ctx.seed * 1000003ULL + (uint64_t)kcase, [&](Party &P, Barrier &bar) {
		size_t i = P.i;
		switch (proto) {
		case 0: vss[i] = new PedersenVSS(n, t, i, grp.p, grp.q, grp.g, grp.h, FS, GS, false, "c11"); rets[i] = (i == dealer) ? vss[i]->Share(sigma, P.aiou, P.rbc, P.err) : vss[i]->Share(dealer, P.aiou, P.rbc, P.err); break;
		case 1: gd[i] = new GennaroJareckiKrawczykRabinDKG(n, t, i, grp.p, grp.q, grp.g, grp.h, FS, GS, true, false, "c11"); rets[i] = gd[i]->Generate(P.aiou, P.rbc, P.err); break;
		case 2: rv[i] = new CanettiGennaroJareckiKrawczykRabinRVSS(n, t, i, t, grp.p, grp.q, grp.g, grp.h, FS, GS, true, false, "c11"); rets[i] = rv[i]->Share(P.aiou, P.rbc, P.err); break;
		case 3: zv[i] = new CanettiGennaroJareckiKrawczykRabinZVSS(n, t, i, (n % 2) ? 2 * t : t, grp.p, grp.q, grp.g, grp.h, FS, GS, true, false, "c11"); rets[i] = zv[i]->Share(P.aiou, P.rbc, P.err); break;
		case 4: cd[i] = new CanettiGennaroJareckiKrawczykRabinDKG(n, t, i, grp.p, grp.q, grp.g, grp.h, FS, GS, true, false, "c11"); rets[i] = cd[i]->Generate(P.aiou, P.rbc, P.err);
			if (second) { bar.arrive_and_serve(i, P.rbc); rets2[i] = cd[i]->Refresh(n, i, P.aiou, P.rbc, P.err); } break;
		case 5: ds[i] = new CanettiGennaroJareckiKrawczykRabinDSS(n, t, i, grp.p, grp.q, grp.g, grp.h, FS, GS, true, false); rets[i] = ds[i]->Generate(P.aiou, P.rbc, P.err);
			if (second) { bar.arrive_and_serve(i, P.rbc); Z m, rr, ss; mpz_set_ui(m, 42); rets2[i] = ds[i]->Sign(n, i, m, rr, ss, P.aiou, P.rbc, P.err); } break;
		}
	});
	size_t okc = 0; for (auto x : rets) okc += x ? 1 : 0;
	count("state_runs"); if (R.hung) count("state_runs_hung"); if (okc == n) count("state_runs_all_parties_true"); else count("state_runs_some_party_false"); count("state_messages", (long long)R.sent);
	if (second && (proto == 4 || proto == 5)) { size_t ok2 = 0; for (auto x : rets2) ok2 += x ? 1 : 0; count(ok2 == n ? "state_second_phase_all_true" : "state_second_phase_some_false"); }
	// round trip of every party's state (whatever the run's result was: a state is a state)
	for (size_t i = 0; i < n; i++) {
		std::string d2 = dims + ",i=" + std::to_string(i) + (okc == n ? "" : ",run failed") + (second ? ",2" : "");
		if (proto == 0 && vss[i]) stream_rt<PedersenVSS>("PedersenVSS", d2 + (i == dealer ? ",dealer" : ""), *vss[i], [&](std::istream &in) { return new PedersenVSS(in, FS, GS, false, "c11"); }, vss_diff, pubstate<PedersenVSS>, [](const PedersenVSS &a) { return a.CheckGroup(); });
		if (proto == 1 && gd[i]) stream_rt<GennaroJareckiKrawczykRabinDKG>(proto_name(1), d2, *gd[i], [&](std::istream &in) { return new GennaroJareckiKrawczykRabinDKG(in, FS, GS, true, false, "c11"); }, gdkg_diff, pubstate<GennaroJareckiKrawczykRabinDKG>, [](const GennaroJareckiKrawczykRabinDKG &a) { return a.CheckGroup(); });
		if (proto == 2 && rv[i]) stream_rt<CanettiGennaroJareckiKrawczykRabinRVSS>(proto_name(2), d2, *rv[i], [&](std::istream &in) { return new CanettiGennaroJareckiKrawczykRabinRVSS(in, FS, GS, true, false, "c11"); }, rvss_diff, pubstate<CanettiGennaroJareckiKrawczykRabinRVSS>, [](const CanettiGennaroJareckiKrawczykRabinRVSS &a) { return a.CheckGroup(); });
		if (proto == 3 && zv[i]) stream_rt<CanettiGennaroJareckiKrawczykRabinZVSS>(proto_name(3), d2 + ",tprime=" + std::to_string(zv[i]->tprime), *zv[i], [&](std::istream &in) { return new CanettiGennaroJareckiKrawczykRabinZVSS(in, FS, GS, true, false, "c11"); }, zvss_diff, pubstate<CanettiGennaroJareckiKrawczykRabinZVSS>, [](const CanettiGennaroJareckiKrawczykRabinZVSS &a) { return a.CheckGroup(); });
		if (proto == 4 && cd[i]) stream_rt<CanettiGennaroJareckiKrawczykRabinDKG>(proto_name(4), d2, *cd[i], [&](std::istream &in) { return new CanettiGennaroJareckiKrawczykRabinDKG(in, FS, GS, true, false, "c11"); }, cdkg_diff, pubstate<CanettiGennaroJareckiKrawczykRabinDKG>, [](const CanettiGennaroJareckiKrawczykRabinDKG &a) { return a.CheckGroup(); });
		if (proto == 5 && ds[i]) stream_rt<CanettiGennaroJareckiKrawczykRabinDSS>(proto_name(5), d2, *ds[i], [&](std::istream &in) { return new CanettiGennaroJareckiKrawczykRabinDSS(in, FS, GS, true, false); }, dss_diff, pubstate<CanettiGennaroJareckiKrawczykRabinDSS>, [](const CanettiGennaroJareckiKrawczykRabinDSS &a) { return a.CheckGroup(); });
	}
	// a non-trivial state: the run produced shares (not all zero)
	bool nontrivial = false;
	for (size_t i = 0; i < n; i++) { if (proto == 0 && vss[i] && mpz_sgn(vss[i]->sigma_i)) nontrivial = true; if (proto == 1 && gd[i] && mpz_sgn(gd[i]->x_i)) nontrivial = true; if (proto == 2 && rv[i] && mpz_sgn(rv[i]->x_i)) nontrivial = true; if (proto == 3 && zv[i] && mpz_sgn(zv[i]->x_i)) nontrivial = true; if (proto == 4 && cd[i] && mpz_sgn(cd[i]->x_i)) nontrivial = true; if (proto == 5 && ds[i] && mpz_sgn(ds[i]->x_i)) nontrivial = true; }
	if (nontrivial) count("state_with_nonzero_shares");
	for (size_t i = 0; i < n; i++) { delete vss[i]; delete gd[i]; delete rv[i]; delete zv[i]; delete cd[i]; delete ds[i]; }
}

// ------------------------------------------------------------------ main
int main(int argc, char **argv) {
	init(argc, argv); null_cerr();
	if (!init_libTMCG()) { fprintf(stderr, "init_libTMCG failed\n"); return 2; }
	bool quick = ctx.quick(); long k = 0;
	auto run = [&](const std::string &desc, std::function<void(Rng &, long)> body) {
		long kc = k++; if (!case_begin(kc, desc)) return;
		Rng r = case_rng(kc, 11); tl_rng = &r; g_evals = 0; g_distinct.clear(); g_sample.clear();
		body(r, kc);
		tl_rng = nullptr;
		if (g_sample.empty()) g_sample = J().raw("case", desc).kv("evaluations", (long long)g_evals).str();
		case_end(desc, g_evals > 0, g_sample, g_evals, (long long)g_distinct.size());
	};
	// protocol states first (the long cases): n = 2..5 (7), every admissible t (2t < n)
	size_t nmax = quick ? 5 : 7;
	for (int proto = 5; proto >= 0; proto--) for (size_t n = nmax; n >= 2; n--) for (size_t t = 0; 2 * t < n; t++) {
		size_t reps = (quick || n > 5) ? 1 : 2;
		for (size_t rep = 0; rep < reps; rep++) run(J().kv("part", "state").kv("class", proto_name(proto)).kv("n", (long long)n).kv("t", (long long)t).kv("rep", (long long)rep).str(), [&](Rng &r, long kc) { case_state(proto, n, t, r, kc); });
	}
	for (int v = 0; v < (quick ? 5 : 7); v++) run(J().kv("part", "keys").kv("variant", v).str(), [&](Rng &r, long) { case_keys(v, r); });
	for (int c = 0; c < 8; c++) run(J().kv("part", "groups").kv("class", c).str(), [&](Rng &r, long) { case_groups(c, r); });
	for (int b = 0; b < 3; b++) run(J().kv("part", "integers").kv("block", b).str(), [&](Rng &r, long) { case_integers(b, r); });
	for (size_t kk = 1; kk <= TMCG_MAX_PLAYERS; kk++) run(J().kv("part", "cards").kv("players", (long long)kk).str(), [&](Rng &r, long) { case_cards(kk, r); });
	run(J().kv("part", "vtmf-cards").str(), [&](Rng &r, long) { case_vtmf_cards(r); });
	// stacks: sizes x card dimensions; about 20 cases use the stream operator (640 MiB line buffer)
	{ std::vector<size_t> sizes = {1, 2, 51, 52, 511, 512}; if (!quick) for (size_t s : {3ul, 10ul, 53ul, 100ul, 256ul, 300ul, 510ul}) sizes.push_back(s);
	  int nstream = 0;
	  for (int kind = 0; kind < 2; kind++) for (size_t s : sizes) {
		struct D { size_t k, w; int mode; }; std::vector<D> ds;
		if (kind == 0) { ds = {{2, 2, -1}, {1, 1, 4}, {3, 4, -2}}; if (s <= 52) ds.push_back({5, 6, 5}); if (s <= 2) { ds.push_back({TMCG_MAX_PLAYERS, TMCG_MAX_TYPEBITS, -1}); ds.push_back({4, 3, 7}); } if (!quick && s <= 100) ds.push_back({8, 10, -1}); }
		else { ds = {{1, 1, -1}, {1, 1, 5}}; if (s <= 52) ds.push_back({1, 1, 7}); }
		for (auto &d : ds) { bool stream = (nstream < 22) && (d.mode == -1) && (d.k <= 2); if (stream) nstream++;
			run(J().kv("part", "stacks").kv("kind", kind == 0 ? "TMCG" : "VTMF").kv("size", (long long)s).kv("k", (long long)d.k).kv("w", (long long)d.w).kv("mode", d.mode).kv("stream", stream).str(), [&](Rng &r, long) { case_stacks(kind, s, d.k, d.w, d.mode, stream, r); }); }
	  } }
	finish();
	return 0;
}
