// interpose.cc — symbols defined in the harness executable take precedence over
// the shared libgcrypt/libc ones for the statically linked libTMCG code:
//   gcry_randomize / gcry_create_nonce / gcry_random_bytes[_secure] /
//   gcry_mpi_randomize  -> per-task deterministic PRNG (vf::tl_rng)
//   time / sleep / select -> virtual clock owned by the engine
//   gcry_kdf_derive      -> memoising pass-through (pure function)
#include "vf.hh"
#include "vclock.hh"
#include <gcrypt.h>
#include <dlfcn.h>
#include <sys/select.h>
#include <sys/syscall.h>
#include <unistd.h>
#include <time.h>
#include <map>
#include <string>

namespace vf {
long g_vtime = 1600000000L;
void (*g_time_hook)() = nullptr;
unsigned long g_time_calls = 0, g_select_calls = 0, g_sleep_calls = 0;
}

extern "C" {

void gcry_randomize(void *buf, size_t n, enum gcry_random_level lvl) {
	if (vf::g_real_rng) {
		typedef void (*fn_t)(void *, size_t, enum gcry_random_level);
		static fn_t real = (fn_t)dlsym(RTLD_NEXT, "gcry_randomize");
		real(buf, n, lvl); return;
	}
	vf::cur_rng().fill(buf, n);
}

void gcry_create_nonce(void *buf, size_t n) {
	if (vf::g_real_rng) {
		typedef void (*fn_t)(void *, size_t);
		static fn_t real = (fn_t)dlsym(RTLD_NEXT, "gcry_create_nonce");
		real(buf, n); return;
	}
	vf::cur_rng().fill(buf, n);
}

void *gcry_random_bytes(size_t n, enum gcry_random_level lvl) {
	void *p = gcry_xmalloc(n ? n : 1);
	gcry_randomize(p, n, lvl);
	return p;
}

void *gcry_random_bytes_secure(size_t n, enum gcry_random_level lvl) {
	void *p = gcry_xmalloc_secure(n ? n : 1);
	gcry_randomize(p, n, lvl);
	return p;
}

void gcry_mpi_randomize(gcry_mpi_t w, unsigned int nbits, enum gcry_random_level lvl) {
	if (vf::g_real_rng) {
		typedef void (*fn_t)(gcry_mpi_t, unsigned int, enum gcry_random_level);
		static fn_t real = (fn_t)dlsym(RTLD_NEXT, "gcry_mpi_randomize");
		real(w, nbits, lvl); return;
	}
	size_t nb = (nbits + 7) / 8;
	std::string b(nb ? nb : 1, '\0');
	vf::cur_rng().fill(&b[0], nb);
	if (nb && (nbits % 8)) b[0] = (char)((unsigned char)b[0] & ((1u << (nbits % 8)) - 1));
	gcry_mpi_t t = nullptr;
	gcry_mpi_scan(&t, GCRYMPI_FMT_USG, b.data(), nb, nullptr);
	gcry_mpi_set(w, t);
	gcry_mpi_release(t);
}

time_t time(time_t *t) {
	vf::g_time_calls++;
	if (vf::g_time_hook) vf::g_time_hook();
	time_t v = (time_t)vf::g_vtime;
	if (t) *t = v;
	return v;
}

unsigned int sleep(unsigned int s) { vf::g_sleep_calls++; vf::g_vtime += s ? s : 1; return 0; }

// zero time-out poll; a poll that finds nothing ready lets the virtual clock
// tick, so library loops of the form "while (time() < entry + timeout)" end
int select(int nfds, fd_set *r, fd_set *w, fd_set *e, struct timeval *tv) {
	vf::g_select_calls++;
	struct timespec z = {0, 0};
	int rc = (int)syscall(SYS_pselect6, nfds, r, w, e, &z, nullptr);
	if (rc == 0 && tv && (tv->tv_sec || tv->tv_usec)) vf::g_vtime += 1;
	return rc;
}

gpg_error_t gcry_kdf_derive(const void *pass, size_t passlen, int algo, int subalgo, const void *salt, size_t saltlen, unsigned long iter, size_t keysize, void *keybuffer) {
	typedef gpg_error_t (*fn_t)(const void *, size_t, int, int, const void *, size_t, unsigned long, size_t, void *);
	static fn_t real = (fn_t)dlsym(RTLD_NEXT, "gcry_kdf_derive");
	static std::map<std::string, std::string> cache;
	if (iter < 1000) return real(pass, passlen, algo, subalgo, salt, saltlen, iter, keysize, keybuffer);
	std::string key((const char *)pass, passlen);
	key += '\0'; key += std::to_string(algo) + "/" + std::to_string(subalgo) + "/" + std::to_string(iter) + "/" + std::to_string(keysize) + "/";
	key.append((const char *)salt, saltlen);
	auto it = cache.find(key);
	if (it != cache.end()) { memcpy(keybuffer, it->second.data(), keysize); return 0; }
	gpg_error_t e = real(pass, passlen, algo, subalgo, salt, saltlen, iter, keysize, keybuffer);
	if (!e) cache[key] = std::string((const char *)keybuffer, keysize);
	return e;
}

} // extern "C"

// ---------------------------------------------------------------------------
// Huge line buffers.  The stack importers of the library allocate
// TMCG_MAX_STACK_CHARS (640 MiB) with new char[] for every line they read; under
// ASan each such allocation maps the block and poisons 80 MiB of shadow (seconds
// on a loaded machine).  Array allocations of >= 256 MiB are therefore served from
// lazily touched anonymous mappings; everything else goes to malloc()/free(), i.e.
// stays fully ASan-checked (red zones, use-after-free, double free).  Only the
// new[]/delete mismatch check is lost for array allocations.
#include <sys/mman.h>
#include <new>
#include <cstdlib>
#include <pthread.h>
namespace {
struct BigSlot { void *p; size_t n; bool used; };
BigSlot g_big[16];
pthread_mutex_t g_big_mu = PTHREAD_MUTEX_INITIALIZER;
const size_t BIG_MIN = (size_t)256 << 20;
void *big_alloc(size_t n) {
	pthread_mutex_lock(&g_big_mu);
	for (auto &s : g_big) if (s.p && !s.used && s.n >= n) { s.used = true; pthread_mutex_unlock(&g_big_mu); return s.p; }
	for (auto &s : g_big) if (!s.p) {
		void *p = mmap(nullptr, n, PROT_READ | PROT_WRITE, MAP_PRIVATE | MAP_ANONYMOUS | MAP_NORESERVE, -1, 0);
		if (p == MAP_FAILED) break;
		s.p = p; s.n = n; s.used = true; pthread_mutex_unlock(&g_big_mu); return p;
	}
	pthread_mutex_unlock(&g_big_mu);
	return nullptr;
}
bool big_free(void *p) {
	pthread_mutex_lock(&g_big_mu);
	for (auto &s : g_big) if (s.p == p && s.used) { s.used = false; madvise(s.p, s.n, MADV_DONTNEED); pthread_mutex_unlock(&g_big_mu); return true; }
	pthread_mutex_unlock(&g_big_mu);
	return false;
}
}
namespace vf { unsigned long g_big_allocs = 0; }
void *operator new[](std::size_t n) {
	if (n >= BIG_MIN) { void *p = big_alloc(n); if (p) { vf::g_big_allocs++; return p; } }
	void *p = malloc(n ? n : 1);
	if (!p) throw std::bad_alloc();
	return p;
}
void *operator new[](std::size_t n, const std::nothrow_t &) noexcept {
	if (n >= BIG_MIN) { void *p = big_alloc(n); if (p) { vf::g_big_allocs++; return p; } }
	return malloc(n ? n : 1);
}
void operator delete[](void *p) noexcept { if (!p) return; if (big_free(p)) return; free(p); }
void operator delete[](void *p, std::size_t) noexcept { if (!p) return; if (big_free(p)) return; free(p); }
void operator delete[](void *p, const std::nothrow_t &) noexcept { if (!p) return; if (big_free(p)) return; free(p); }
