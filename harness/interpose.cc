// interpose.cc — symbols defined in the harness executable take precedence over
// the shared libgcrypt/libc ones for the statically linked libTMCG code:
//   gcry_randomize / gcry_create_nonce / gcry_random_bytes[_secure] /
//   gcry_mpi_randomize  -> per-task deterministic PRNG (vf::tl_rng)
//   time / sleep / select -> virtual clock owned by the engine
//   gcry_kdf_derive      -> memoising pass-through (pure function)
#include "vf.hh"
#include "vclock.hh"
#include <gcrypt.h>
#include <dlfcn.h>
#include <sys/select.h>
#include <sys/syscall.h>
#include <unistd.h>
#include <time.h>
#include <map>
#include <string>

namespace vf {
long g_vtime = 1600000000L;
void (*g_time_hook)() = nullptr;
unsigned long g_time_calls = 0, g_select_calls = 0, g_sleep_calls = 0;
}

extern "C" {

void gcry_randomize(void *buf, size_t n, enum gcry_random_level lvl) {
	if (vf::g_real_rng) {
		typedef void (*fn_t)(void *, size_t, enum gcry_random_level);
		static fn_t real = (fn_t)dlsym(RTLD_NEXT, "gcry_randomize");
		real(buf, n, lvl); return;
	}
	vf::cur_rng().fill(buf, n);
}

void gcry_create_nonce(void *buf, size_t n) {
	if (vf::g_real_rng) {
		typedef void (*fn_t)(void *, size_t);
		static fn_t real = (fn_t)dlsym(RTLD_NEXT, "gcry_create_nonce");
		real(buf, n); return;
	}
	vf::cur_rng().fill(buf, n);
}

void *gcry_random_bytes(size_t n, enum gcry_random_level lvl) {
	void *p = gcry_xmalloc(n ? n : 1);
	gcry_randomize(p, n, lvl);
	return p;
}

void *gcry_random_bytes_secure(size_t n, enum gcry_random_level lvl) {
	void *p = gcry_xmalloc_secure(n ? n : 1);
	gcry_randomize(p, n, lvl);
	return p;
}

void gcry_mpi_randomize(gcry_mpi_t w, unsigned int nbits, enum gcry_random_level lvl) {
	if (vf::g_real_rng) {
		typedef void (*fn_t)(gcry_mpi_t, unsigned int, enum gcry_random_level);
		static fn_t real = (fn_t)dlsym(RTLD_NEXT, "gcry_mpi_randomize");
		real(w, nbits, lvl); return;
	}
	size_t nb = (nbits + 7) / 8;
	std::string b(nb ? nb : 1, '\0');
	vf::cur_rng().fill(&b[0], nb);
	if (nb && (nbits % 8)) b[0] = (char)((unsigned char)b[0] & ((1u << (nbits % 8)) - 1));
	gcry_mpi_t t = nullptr;
	gcry_mpi_scan(&t, GCRYMPI_FMT_USG, b.data(), nb, nullptr);
	gcry_mpi_set(w, t);
	gcry_mpi_release(t);
}

time_t time(time_t *t) {
	vf::g_time_calls++;
	if (vf::g_time_hook) vf::g_time_hook();
	time_t v = (time_t)vf::g_vtime;
	if (t) *t = v;
	return v;
}

unsigned int sleep(unsigned int s) { vf::g_sleep_calls++; vf::g_vtime += s ? s : 1; return 0; }

// zero time-out poll; a poll that finds nothing ready lets the virtual clock
// tick, so library loops of the form "while (time() < entry + timeout)" end
int select(int nfds, fd_set *r, fd_set *w, fd_set *e, struct timeval *tv) {
	vf::g_select_calls++;
	struct timespec z = {0, 0};
	int rc = (int)syscall(SYS_pselect6, nfds, r, w, e, &z, nullptr);
	if (rc == 0 && tv && (tv->tv_sec || tv->tv_usec)) vf::g_vtime += 1;
	return rc;
}

gpg_error_t gcry_kdf_derive(const void *pass, size_t passlen, int algo, int subalgo, const void *salt, size_t saltlen, unsigned long iter, size_t keysize, void *keybuffer) {
	typedef gpg_error_t (*fn_t)(const void *, size_t, int, int, const void *, size_t, unsigned long, size_t, void *);
	static fn_t real = (fn_t)dlsym(RTLD_NEXT, "gcry_kdf_derive");
	static std::map<std::string, std::string> cache;
	if (iter < 1000) return real(pass, passlen, algo, subalgo, salt, saltlen, iter, keysize, keybuffer);
	std::string key((const char *)pass, passlen);
	key += '\0'; key += std::to_string(algo) + "/" + std::to_string(subalgo) + "/" + std::to_string(iter) + "/" + std::to_string(keysize) + "/";
	key.append((const char *)salt, saltlen);
	auto it = cache.find(key);
	if (it != cache.end()) { memcpy(keybuffer, it->second.data(), keysize); return 0; }
	gpg_error_t e = real(pass, passlen, algo, subalgo, salt, saltlen, iter, keysize, keybuffer);
	if (!e) cache[key] = std::string((const char *)keybuffer, keysize);
	return e;
}

} // extern "C"

// ---------------------------------------------------------------------------
// Huge line buffers.  The stack importers of the library allocate
// TMCG_MAX_STACK_CHARS (640 MiB) with new char[] for every line they read; under
// ASan each such allocation maps the block and poisons 80 MiB of shadow (seconds
// on a loaded machine).  Array allocations of >= 256 MiB are therefore served from
// lazily touched anonymous mappings; everything else goes to malloc()/free(), i.e.
// stays fully ASan-checked (red zones, use-after-free, double free).  Only the
// new[]/delete mismatch check is lost for array allocations.
#include <sys/mman.h>
#include <new>
#include <cstdlib>
#include <pthread.h>
namespace {
struct BigSlot { void *p; size_t n; bool used; };
BigSlot g_big[16];
pthread_mutex_t g_big_mu = PTHREAD_MUTEX_INITIALIZER;
const size_t BIG_MIN = (size_t)256 << 20;
void *big_alloc(size_t n) {
	pthread_mutex_lock(&g_big_mu);
	for (auto &s : g_big) if (s.p && !s.used && s.n >= n) { s.used = true; pthread_mutex_unlock(&g_big_mu); return s.p; }
	for (auto &s : g_big) if (!s.p) {
		void *p = mmap(nullptr, n, PROT_READ | PROT_WRITE, MAP_PRIVATE | MAP_ANONYMOUS | MAP_NORESERVE, -1, 0);
		if (p == MAP_FAILED) break;
		s.p = p; s.n = n; s.used = true; pthread_mutex_unlock(&g_big_mu); return p;
	}
	pthread_mutex_unlock(&g_big_mu);
	return nullptr;
}
bool big_free(void *p) {
	pthread_mutex_lock(&g_big_mu);
	for (auto &s : g_big) if (s.p == p && s.used) { s.used = false; madvise(s.p, s.n, MADV_DONTNEED); pthread_mutex_unlock(&g_big_mu); return true; }
	pthread_mutex_unlock(&g_big_mu);
	return false;
}
}
namespace vf { unsigned long g_big_allocs = 0; }
void *operator new[](std::size_t n) {
	if (n >= BIG_MIN) { void *p = big_alloc(n); if (p) { vf::g_big_allocs++; return p; } }
	void *p = malloc(n ? n : 1);
	if (!p) throw std::bad_alloc();
	return p;
}
void *operator new[](std::size_t n, const std::nothrow_t &) noexcept {
	if (n >= BIG_MIN) { void *p = big_alloc(n); if (p) { vf::g_big_allocs++; return p; } }
	return malloc(n ? n : 1);
}
void operator delete[](void *p) noexcept { if (!p) return; if (big_free(p)) return; free(p); }
void operator delete[](void *p, std::size_t) noexcept { if (!p) return; if (big_free(p)) return; free(p); }
void operator delete[](void *p, const std::nothrow_t &) noexcept { if (!p) return; if (big_free(p)) return; free(p); }

// ---------------------------------------------------------------------------
// Guards for buffers handed to the UNINSTRUMENTED dependencies (libgmp, libgcrypt).
// ASan sees only accesses made by instrumented code: when libTMCG passes a buffer
// that is too small to mpz_export / gcry_mpi_print / gcry_cipher_encrypt ..., the
// overrun happens inside the shared library and no report is raised (seeded change
// c12_rabin_verify_export_slack: 128 octets written behind a heap block by
// mpz_export).  The wrappers below compute the byte range the callee is going to
// read or write from its documented contract and ask the ASan runtime whether that
// range is addressable; a poisoned byte is reported through the runtime's own
// report functions (same report format, stack of the libTMCG caller), then the
// real function runs.  Only ranges the callee certainly touches are checked, so a
// caller that merely *claims* a larger buffer than it uses raises no alarm.
#if defined(__SANITIZE_ADDRESS__)
#include <gmp.h>
extern "C" {
void *__asan_region_is_poisoned(void *beg, size_t size);
void __asan_report_store1(void *addr);
void __asan_report_load1(void *addr);
}
namespace vf { unsigned long g_libguard_checks = 0; }
namespace {
inline void guard_w(const void *p, size_t n) { if (!p || !n) return; vf::g_libguard_checks++; void *bad = __asan_region_is_poisoned(const_cast<void *>(p), n); if (bad) __asan_report_store1(bad); }
inline void guard_r(const void *p, size_t n) { if (!p || !n) return; vf::g_libguard_checks++; void *bad = __asan_region_is_poisoned(const_cast<void *>(p), n); if (bad) __asan_report_load1(bad); }
template <typename F> F real_fn(const char *name) { void *f = dlsym(RTLD_NEXT, name); if (!f) { fprintf(stderr, "libguard: %s not found\n", name); abort(); } return (F)f; }
}
extern "C" {

void *__gmpz_export(void *rop, size_t *countp, int order, size_t size, int endian, size_t nails, mpz_srcptr op) {
	typedef void *(*fn_t)(void *, size_t *, int, size_t, int, size_t, mpz_srcptr);
	static fn_t real = real_fn<fn_t>("__gmpz_export");
	if (rop && size && mpz_sgn(op) != 0 && 8 * size > nails) {
		size_t numb = 8 * size - nails, count = (mpz_sizeinbase(op, 2) + numb - 1) / numb;
		guard_w(rop, count * size);
	}
	return real(rop, countp, order, size, endian, nails, op);
}

void __gmpz_import(mpz_ptr rop, size_t count, int order, size_t size, int endian, size_t nails, const void *op) {
	typedef void (*fn_t)(mpz_ptr, size_t, int, size_t, int, size_t, const void *);
	static fn_t real = real_fn<fn_t>("__gmpz_import");
	guard_r(op, count * size);
	real(rop, count, order, size, endian, nails, op);
}

char *__gmpz_get_str(char *str, int base, mpz_srcptr op) {
	typedef char *(*fn_t)(char *, int, mpz_srcptr);
	static fn_t real = real_fn<fn_t>("__gmpz_get_str");
	if (str) {
		int b = base < 0 ? -base : base; if (b < 2) b = 10;
		size_t digits = mpz_sizeinbase(op, b);          // exact or one too big: at least digits-1 characters are written
		guard_w(str, (digits > 1 ? digits - 1 : 1) + (mpz_sgn(op) < 0 ? 1 : 0) + 1);
	}
	return real(str, base, op);
}

gcry_error_t gcry_mpi_print(enum gcry_mpi_format format, unsigned char *buffer, size_t buflen, size_t *nwritten, const gcry_mpi_t a) {
	typedef gcry_error_t (*fn_t)(enum gcry_mpi_format, unsigned char *, size_t, size_t *, const gcry_mpi_t);
	static fn_t real = real_fn<fn_t>("gcry_mpi_print");
	if (buffer && buflen) { size_t need = 0; if (!real(format, NULL, 0, &need, a) && need <= buflen) guard_w(buffer, need); }
	return real(format, buffer, buflen, nwritten, a);
}

gcry_error_t gcry_mpi_scan(gcry_mpi_t *ret, enum gcry_mpi_format format, const void *buffer, size_t buflen, size_t *nscanned) {
	typedef gcry_error_t (*fn_t)(gcry_mpi_t *, enum gcry_mpi_format, const void *, size_t, size_t *);
	static fn_t real = real_fn<fn_t>("gcry_mpi_scan");
	if (format != GCRYMPI_FMT_HEX) guard_r(buffer, buflen);
	return real(ret, format, buffer, buflen, nscanned);
}

void gcry_md_hash_buffer(int algo, void *digest, const void *buffer, size_t length) {
	typedef void (*fn_t)(int, void *, const void *, size_t);
	static fn_t real = real_fn<fn_t>("gcry_md_hash_buffer");
	guard_r(buffer, length); guard_w(digest, gcry_md_get_algo_dlen(algo));
	real(algo, digest, buffer, length);
}

gcry_error_t gcry_cipher_encrypt(gcry_cipher_hd_t h, void *out, size_t outsize, const void *in, size_t inlen) {
	typedef gcry_error_t (*fn_t)(gcry_cipher_hd_t, void *, size_t, const void *, size_t);
	static fn_t real = real_fn<fn_t>("gcry_cipher_encrypt");
	if (in) { guard_r(in, inlen); if (inlen <= outsize) guard_w(out, inlen); } else guard_w(out, outsize);
	return real(h, out, outsize, in, inlen);
}

gcry_error_t gcry_cipher_decrypt(gcry_cipher_hd_t h, void *out, size_t outsize, const void *in, size_t inlen) {
	typedef gcry_error_t (*fn_t)(gcry_cipher_hd_t, void *, size_t, const void *, size_t);
	static fn_t real = real_fn<fn_t>("gcry_cipher_decrypt");
	if (in) { guard_r(in, inlen); if (inlen <= outsize) guard_w(out, inlen); } else guard_w(out, outsize);
	return real(h, out, outsize, in, inlen);
}

gcry_error_t gcry_cipher_setkey(gcry_cipher_hd_t h, const void *key, size_t keylen) {
	typedef gcry_error_t (*fn_t)(gcry_cipher_hd_t, const void *, size_t);
	static fn_t real = real_fn<fn_t>("gcry_cipher_setkey");
	guard_r(key, keylen); return real(h, key, keylen);
}

// weak: harness/c20_enc.hh defines its own gcry_cipher_setiv (the AEAD nonce monitor of C20)
__attribute__((weak)) gcry_error_t gcry_cipher_setiv(gcry_cipher_hd_t h, const void *iv, size_t ivlen) {
	typedef gcry_error_t (*fn_t)(gcry_cipher_hd_t, const void *, size_t);
	static fn_t real = real_fn<fn_t>("gcry_cipher_setiv");
	guard_r(iv, ivlen); return real(h, iv, ivlen);
}

gcry_error_t gcry_cipher_authenticate(gcry_cipher_hd_t h, const void *abuf, size_t abuflen) {
	typedef gcry_error_t (*fn_t)(gcry_cipher_hd_t, const void *, size_t);
	static fn_t real = real_fn<fn_t>("gcry_cipher_authenticate");
	guard_r(abuf, abuflen); return real(h, abuf, abuflen);
}

gcry_error_t gcry_cipher_gettag(gcry_cipher_hd_t h, void *tag, size_t taglen) {
	typedef gcry_error_t (*fn_t)(gcry_cipher_hd_t, void *, size_t);
	static fn_t real = real_fn<fn_t>("gcry_cipher_gettag");
	guard_w(tag, taglen); return real(h, tag, taglen);
}

gcry_error_t gcry_cipher_checktag(gcry_cipher_hd_t h, const void *tag, size_t taglen) {
	typedef gcry_error_t (*fn_t)(gcry_cipher_hd_t, const void *, size_t);
	static fn_t real = real_fn<fn_t>("gcry_cipher_checktag");
	guard_r(tag, taglen); return real(h, tag, taglen);
}

gcry_error_t gcry_mac_setkey(gcry_mac_hd_t h, const void *key, size_t keylen) {
	typedef gcry_error_t (*fn_t)(gcry_mac_hd_t, const void *, size_t);
	static fn_t real = real_fn<fn_t>("gcry_mac_setkey");
	guard_r(key, keylen); return real(h, key, keylen);
}

gcry_error_t gcry_mac_write(gcry_mac_hd_t h, const void *buf, size_t buflen) {
	typedef gcry_error_t (*fn_t)(gcry_mac_hd_t, const void *, size_t);
	static fn_t real = real_fn<fn_t>("gcry_mac_write");
	guard_r(buf, buflen); return real(h, buf, buflen);
}

gcry_error_t gcry_mac_read(gcry_mac_hd_t h, void *buf, size_t *buflen) {
	typedef gcry_error_t (*fn_t)(gcry_mac_hd_t, void *, size_t *);
	static fn_t real = real_fn<fn_t>("gcry_mac_read");
	if (buf && buflen) { size_t ml = gcry_mac_get_algo_maclen(gcry_mac_get_algo(h)); guard_w(buf, ml && ml < *buflen ? ml : *buflen); }
	return real(h, buf, buflen);
}

gcry_error_t gcry_mac_verify(gcry_mac_hd_t h, const void *buf, size_t buflen) {
	typedef gcry_error_t (*fn_t)(gcry_mac_hd_t, const void *, size_t);
	static fn_t real = real_fn<fn_t>("gcry_mac_verify");
	guard_r(buf, buflen); return real(h, buf, buflen);
}

} // extern "C"
#else
namespace vf { unsigned long g_libguard_checks = 0; }
#endif
