// libFuzzer target: Rabin key import (public and secret) + check/verify/encrypt
#include "c12_fz.hh"
using namespace c12;
extern "C" int LLVMFuzzerTestOneInput(const uint8_t *data, size_t size) {
	fz_init(false); fz_reseed(data, size); std::string s((const char *)data, size);
	key_pub_import(s); key_sec_import(s);
	return 0;
}
