// libFuzzer target: public / private key block and keyring parsers (binary and armored) + the
// checks an application runs on an accepted key (self-signatures, subkeys, export)
#include "c12_fz.hh"
using namespace c12;
extern "C" int LLVMFuzzerTestOneInput(const uint8_t *data, size_t size) {
	fz_init(true); fz_reseed(data, size); std::string s((const char *)data, size);
	if (size && (data[0] & 0x80)) { pgp_pubkey_block(s); pgp_prvkey_block(s); pgp_keyring(s); }
	else { pgp_pubkey_block_armored(s); pgp_prvkey_block_armored(s); pgp_keyring_armored(s); }
	return 0;
}
