// engine.hh — cooperative deterministic execution engines
//   Sched       : tasks (pthreads, exactly one runs at a time), virtual clock
//   Duplex      : two-party line channels with transcript + relay (man in the middle)
//   Net/SimUnicast : n-party in-memory implementation of the abstract aiounicast (SimNet)
// StepUnicast (reliable-broadcast step network) lives in w_c14.cc.
#pragma once
#include "vf.hh"
#include "vclock.hh"
#include <libTMCG.hh>
#include <pthread.h>
#include <deque>
#include <functional>
#include <iostream>
#include <sstream>
#include <stdexcept>

namespace vf {

struct Sched;
struct TaskAbort {};   // thrown into a task to unwind it when a case is torn down

struct Task {
	int id = 0; pthread_t th; std::function<void()> fn; Sched *s = nullptr; Rng rng;
	enum St { RUNNABLE, WAITING, DONE } st = RUNNABLE;
	std::function<bool()> wake; long deadline = -1;
	unsigned long spin = 0, spin_parks = 0;
	bool threw_std = false, threw_other = false, aborted = false; std::string exc;
	pthread_cond_t cv;     // one condition variable per task: a baton pass wakes only the chosen task
	Task() { pthread_cond_init(&cv, 0); }
	~Task() { pthread_cond_destroy(&cv); }
};
extern thread_local Task *tl_task;

struct Sched {
	pthread_mutex_t mu; pthread_cond_t cv;
	std::vector<Task *> tasks; int current = -1;
	Rng pick; bool random_pick = false;
	uint64_t switches = 0, advances = 0, stalls = 0, events = 0;
	bool hung = false, aborting = false, use_vclock = false;
	unsigned long spin_limit = 2000;
	// called when every live task is blocked and no deadline exists; return true if
	// something was changed (e.g. pipes closed) so that picking is retried
	std::function<bool()> on_stall;
	explicit Sched(uint64_t seed = 1) { pthread_mutex_init(&mu, 0); pthread_cond_init(&cv, 0); pick.seed(seed, 0x5c4ed); }
	~Sched() { for (auto t : tasks) delete t; pthread_mutex_destroy(&mu); pthread_cond_destroy(&cv); }
	int spawn(std::function<void()> fn, uint64_t seed_a = 0, uint64_t seed_b = 0) {
		Task *t = new Task; t->id = (int)tasks.size(); t->fn = fn; t->s = this;
		t->rng.seed(seed_a ? seed_a : ctx.seed, seed_b, (uint64_t)t->id + 1);
		tasks.push_back(t); return t->id;
	}
	void pick_next() {   // mu held
		for (;;) {
			std::vector<int> cand; bool alive = false; long mind = -1;
			for (auto t : tasks) {
				if (t->st == Task::DONE) continue;
				alive = true;
				if (aborting) { cand.push_back(t->id); continue; }
				if (t->st == Task::RUNNABLE) cand.push_back(t->id);
				else {
					if ((t->wake && t->wake()) || (t->deadline >= 0 && g_vtime >= t->deadline)) cand.push_back(t->id);
					else if (t->deadline >= 0 && (mind < 0 || t->deadline < mind)) mind = t->deadline;
				}
			}
			if (!alive) { current = -2; break; }
			if (!cand.empty()) {
				current = random_pick ? cand[pick.below(cand.size())] : cand[0];
				tasks[current]->st = Task::RUNNABLE; switches++; break;
			}
			if (mind >= 0) { g_vtime = mind; advances++; continue; }
			stalls++;
			if (on_stall && on_stall()) continue;
			hung = true; aborting = true;     // tear the case down
		}
		if (current >= 0) pthread_cond_signal(&tasks[current]->cv);
	}
	static void *tramp(void *p) {
		Task *t = (Task *)p; Sched *s = t->s;
		pthread_mutex_lock(&s->mu);
		while (s->current != t->id) pthread_cond_wait(&t->cv, &s->mu);
		pthread_mutex_unlock(&s->mu);
		tl_rng = &t->rng; tl_task = t;
		if (!s->aborting) {
			try { t->fn(); }
			catch (TaskAbort &) { t->aborted = true; }
			catch (std::exception &e) { t->threw_std = true; t->exc = e.what(); }
			catch (...) { t->threw_other = true; }
		} else t->aborted = true;
		tl_rng = nullptr; tl_task = nullptr;
		pthread_mutex_lock(&s->mu); t->st = Task::DONE; s->pick_next(); pthread_mutex_unlock(&s->mu);
		return 0;
	}
	// called by the running task
	void wait(std::function<bool()> wake, long deadline = -1) {
		Task *t = tl_task;
		pthread_mutex_lock(&mu);
		t->st = Task::WAITING; t->wake = wake; t->deadline = deadline; t->spin = 0;
		pick_next();
		while (current != t->id) pthread_cond_wait(&t->cv, &mu);
		t->wake = nullptr; t->deadline = -1;
		bool ab = aborting;
		pthread_mutex_unlock(&mu);
		if (ab) throw TaskAbort();
	}
	void yield() {
		Task *t = tl_task;
		pthread_mutex_lock(&mu);
		t->st = Task::RUNNABLE; t->spin = 0; pick_next();
		while (current != t->id) pthread_cond_wait(&t->cv, &mu);
		bool ab = aborting;
		pthread_mutex_unlock(&mu);
		if (ab) throw TaskAbort();
	}
	void run();
};
extern Sched *g_sched;   // scheduler of the running case (for the time() hook)

// ------------------------------------------------------------ line channels
struct Pipe { std::deque<std::string> lines; bool closed = false; };
struct Ev { int side; char kind; std::string text; };  // W write, R read, B read-block, E eof
// relay: (index of the line written by this side, text) -> lines handed to the peer
typedef std::function<std::vector<std::string>(size_t, const std::string &)> Relay;

struct LineBuf : public std::streambuf {
	Sched *s; Pipe *in, *out; std::vector<Ev> *log; int side;
	std::string w, cur; size_t widx = 0, ridx = 0; Relay relay;
	LineBuf(Sched *s_, Pipe *i, Pipe *o, std::vector<Ev> *l, int side_) : s(s_), in(i), out(o), log(l), side(side_) {}
	int overflow(int c) override {
		if (c == EOF) return 0;
		if (c == '\n') {
			s->events++;
			log->push_back({side, 'W', w});
			if (relay) { for (auto &l : relay(widx, w)) out->lines.push_back(l); }
			else out->lines.push_back(w);
			widx++; w.clear();
		} else w.push_back((char)c);
		return c;
	}
	int underflow() override {
		if (gptr() < egptr()) return traits_type::to_int_type(*gptr());
		if (in->lines.empty()) {
			if (in->closed) { log->push_back({side, 'E', ""}); return EOF; }
			log->push_back({side, 'B', ""});
			Pipe *p = in;
			if (tl_task) s->wait([p]() { return !p->lines.empty() || p->closed; });
			if (in->lines.empty()) { log->push_back({side, 'E', ""}); return EOF; }
		}
		s->events++;
		cur = in->lines.front() + "\n"; in->lines.pop_front(); ridx++;
		log->push_back({side, 'R', cur.substr(0, cur.size() - 1)});
		setg(&cur[0], &cur[0], &cur[0] + cur.size());
		return traits_type::to_int_type(*gptr());
	}
};

struct Duplex {
	Pipe ab, ba; std::vector<Ev> log; LineBuf A, B;
	std::istream inA, inB; std::ostream outA, outB;
	explicit Duplex(Sched *s) : A(s, &ba, &ab, &log, 0), B(s, &ab, &ba, &log, 1), inA(&A), inB(&B), outA(&A), outB(&B) {
		// a stalled case is resolved like a closed connection: blocked readers get EOF
		auto prev = s->on_stall;
		s->on_stall = [this, prev]() { bool ch = false; if (!ab.closed) { ab.closed = true; ch = true; } if (!ba.closed) { ba.closed = true; ch = true; } if (prev && prev()) ch = true; return ch; };
	}
	size_t lines_written(int side) const { size_t c = 0; for (auto &e : log) if (e.side == side && e.kind == 'W') c++; return c; }
	std::vector<std::string> written(int side) const { std::vector<std::string> v; for (auto &e : log) if (e.side == side && e.kind == 'W') v.push_back(e.text); return v; }
};

// run two functions (side 0 = A, side 1 = B) as cooperative tasks over a Duplex.
// Exceptions escaping a side are recorded in the task (std::exception => refusal).
struct TwoParty {
	Sched s; Duplex d;
	explicit TwoParty(uint64_t seed_a, uint64_t seed_b) : s(seed_a ^ (seed_b * 0x9e37)), d(&s) { sa = seed_a; sb = seed_b; }
	uint64_t sa, sb;
	void run(std::function<void(std::istream &, std::ostream &)> a, std::function<void(std::istream &, std::ostream &)> b) {
		s.spawn([this, a]() { struct C { Pipe &p; ~C() { p.closed = true; } } c{d.ab}; a(d.inA, d.outA); }, sa, sb * 2 + 1);
		s.spawn([this, b]() { struct C { Pipe &p; ~C() { p.closed = true; } } c{d.ba}; b(d.inB, d.outB); }, sa, sb * 2 + 2);
		s.run();
	}
	Task *task(int i) { return s.tasks[i]; }
};

// ------------------------------------------------------------ SimNet
struct Msg { mpz_t v; long at; uint64_t seq; };
struct Net {
	size_t n; Sched *s; std::vector<std::vector<std::deque<Msg *>>> q; uint64_t sent = 0, recvd = 0, dropped = 0, seq = 0;
	// fault rule: may alter v, set delay (virtual seconds), set dup; return false to drop
	std::function<bool(size_t from, size_t to, mpz_ptr v, long &delay, int &dup)> fault;
	// observer of every accepted send (after the fault rule): (from,to,value,time)
	std::function<void(size_t, size_t, mpz_srcptr, long)> on_send;
	double preempt_p = 0.0;   // probability of a yield after a Send
	Net(size_t n_, Sched *s_) : n(n_), s(s_), q(n_, std::vector<std::deque<Msg *>>(n_)) {}
	~Net() { for (auto &a : q) for (auto &b : a) for (auto m : b) { mpz_clear(m->v); delete m; } }
	void send(size_t from, size_t to, mpz_srcptr v) {
		mpz_t c; mpz_init_set(c, v); long d = 0; int dup = 1;
		if (fault && !fault(from, to, c, d, dup)) { mpz_clear(c); dropped++; return; }
		for (int k = 0; k < dup; k++) {
			Msg *m = new Msg; mpz_init_set(m->v, c); m->at = g_vtime + d; m->seq = seq++;
			// per-link FIFO: a delayed message also delays the ones behind it (as a pipe does)
			if (!q[from][to].empty() && q[from][to].back()->at > m->at) m->at = q[from][to].back()->at;
			q[from][to].push_back(m); sent++;
			if (on_send) on_send(from, to, m->v, m->at);
		}
		mpz_clear(c);
	}
	size_t avail(size_t from, size_t to) const { size_t c = 0; for (auto m : q[from][to]) { if (m->at <= g_vtime) c++; else break; } return c; }
	long next_arrival(size_t to) const { long b = -1; for (size_t f = 0; f < n; f++) for (auto m : q[f][to]) if (m->at > g_vtime && (b < 0 || m->at < b)) b = m->at; return b; }
};

class SimUnicast : public aiounicast {
public:
	Net *net; size_t rr = 0;
	SimUnicast(size_t n_, size_t j_, Net *nt, size_t sched = aio_scheduler_roundrobin, time_t to = aio_timeout_very_long)
		: aiounicast(n_, j_, sched, to, false, false, false), net(nt) {}
	bool Send(mpz_srcptr m, const size_t i, time_t) override {
		if (i >= n) return false;
		net->send(j, i, m); numWrite++; net->s->events++;
		if (tl_task) { tl_task->spin = 0; if (net->preempt_p > 0 && (net->s->pick.next() >> 11) * (1.0 / 9007199254740992.0) < net->preempt_p) net->s->yield(); }
		return true;
	}
	bool Send(const std::vector<mpz_srcptr> &m, const size_t i, time_t to) override { for (auto x : m) if (!Send(x, i, to)) return false; return true; }
	bool ready(size_t i, size_t need) const { return i < n && net->avail(i, j) >= need; }
	bool any_ready(size_t want, size_t sched, size_t need) const { if (sched == aio_scheduler_direct) return ready(want, need); for (size_t k = 0; k < n; k++) if (ready(k, need)) return true; return false; }
	bool pickfrom(size_t &i_out, size_t sched, size_t need) {
		if (sched == aio_scheduler_direct) return ready(i_out, need);
		std::vector<size_t> c; for (size_t k = 0; k < n; k++) { size_t i = (rr + k) % n; if (ready(i, need)) c.push_back(i); }
		if (c.empty()) return false;
		if (sched == aio_scheduler_random) i_out = c[cur_rng().below(c.size())]; else { i_out = c[0]; rr = (i_out + 1) % n; }
		return true;
	}
	bool recvN(std::vector<mpz_ptr> &m, size_t &i_out, size_t sched, time_t timeout) {
		if (tl_task) tl_task->spin = 0;
		if (sched == aio_scheduler_default) sched = aio_default_scheduler;
		if (timeout == aio_timeout_default) timeout = aio_default_timeout;
		if (sched == aio_scheduler_direct && i_out >= n) return false;
		if (sched != aio_scheduler_direct && sched != aio_scheduler_roundrobin && sched != aio_scheduler_random) { i_out = n; return false; }
		Sched *s = net->s; long entry = g_vtime; size_t need = m.size(), want = i_out; bool first = true;
		for (;;) {
			size_t i = want;
			if (pickfrom(i, sched, need)) {
				for (size_t k = 0; k < need; k++) { Msg *x = net->q[i][j].front(); net->q[i][j].pop_front(); mpz_set(m[k], x->v); mpz_clear(x->v); delete x; net->recvd++; numRead++; }
				i_out = i; s->events++; return true;
			}
			if (!first && g_vtime >= entry + timeout) { if (sched != aio_scheduler_direct) i_out = n; return false; }
			first = false;
			if (!tl_task) { if (sched != aio_scheduler_direct) i_out = n; return false; }   // no engine: plain poll
			long dl = (timeout == 0) ? g_vtime + 1 : entry + timeout; if (dl <= g_vtime) dl = g_vtime + 1;
			long na = net->next_arrival(j); if (na >= 0 && na < dl) dl = na;
			s->wait([this, want, sched, need]() { return any_ready(want, sched, need); }, dl);
			if (timeout == 0 && !any_ready(want, sched, need)) { if (sched != aio_scheduler_direct) i_out = n; return false; }
		}
	}
	bool Receive(mpz_ptr m, size_t &i_out, const size_t sched, const time_t to) override { std::vector<mpz_ptr> v; v.push_back(m); return recvN(v, i_out, sched, to); }
	bool Receive(std::vector<mpz_ptr> &m, size_t &i_out, const size_t sched, const time_t to) override { return recvN(m, i_out, sched, to); }
	void Reset(const size_t, const bool) override {}
};

// phase barrier with service (see DESIGN 2.4): after finishing a phase a party keeps
// pumping its broadcast until every party of the scenario finished the same phase
struct Barrier {
	size_t n; std::vector<int> phase;
	explicit Barrier(size_t n_) : n(n_), phase(n_, 0) {}
	bool all_at(int ph, const std::vector<bool> *skip = nullptr) const { for (size_t i = 0; i < n; i++) { if (skip && (*skip)[i]) continue; if (phase[i] < ph) return false; } return true; }
	void arrive_and_serve(size_t me, CachinKursawePetzoldShoupRBC *rbc, const std::vector<bool> *skip = nullptr) {
		int ph = ++phase[me]; mpz_t m; mpz_init(m); size_t l; long guard = 0;
		while (!all_at(ph, skip) && guard++ < 100000) { if (rbc) rbc->Deliver(m, l, aiounicast::aio_scheduler_roundrobin, 1); else if (tl_task) g_sched->wait([]() { return false; }, g_vtime + 1); }
		mpz_clear(m);
	}
};

void null_cerr();        // send std::cerr/std::clog of the library to a null buffer (fd 2 stays usable)

} // namespace vf
