// c20_util.hh — helpers of the C20 workload (w_c20.cc): octet utilities, key material
// generated with libgcrypt, an independent OpenPGP packet walker that labels every
// octet of an artefact with its format region (written from RFC 4880 / RFC 6637 /
// draft-ietf-openpgp-rfc4880bis, not from the library's parser), signature helpers.
#pragma once
#include "engine.hh"
#include <map>
#include <memory>
#include <set>
#include <unistd.h>
#include <sys/stat.h>

typedef CallasDonnerhackeFinneyShawThayerRFC4880 PGP;
typedef tmcg_openpgp_octets_t Oct;
typedef tmcg_openpgp_secure_octets_t SOct;

namespace c20 {
using namespace vf;

// ------------------------------------------------------------------ octets
inline void app(Oct &o, const Oct &x) { o.insert(o.end(), x.begin(), x.end()); }
inline Oct cat(const Oct &a, const Oct &b) { Oct o(a); app(o, b); return o; }
inline Oct sub(const Oct &a, size_t off, size_t len) { if (off > a.size()) off = a.size(); if (off + len > a.size()) len = a.size() - off; return Oct(a.begin() + off, a.begin() + off + len); }
inline Oct str2oct(const std::string &s) { return Oct(s.begin(), s.end()); }
inline std::string hexs(const Oct &o, size_t max = 1u << 30) { if (o.size() <= max) return hex(o); return hex(o.data(), max / 2) + "..(" + std::to_string(o.size()) + " octets).." + hex(o.data() + o.size() - max / 2, max / 2); }
inline std::string mpihex(gcry_mpi_t m) { if (!m) return "null"; unsigned char *b = nullptr; size_t n = 0; if (gcry_mpi_aprint(GCRYMPI_FMT_HEX, &b, &n, m)) return "err"; std::string s((char *)b); gcry_free(b); return s; }
inline std::string sexp2str(gcry_sexp_t s) { if (!s) return "null"; size_t n = gcry_sexp_sprint(s, GCRYSEXP_FMT_CANON, nullptr, 0); std::string b(n ? n : 1, '\0'); gcry_sexp_sprint(s, GCRYSEXP_FMT_CANON, &b[0], n); return hex((const unsigned char *)b.data(), n ? n - 1 : 0); }
inline bool write_file(const std::string &p, const Oct &o) { FILE *f = fopen(p.c_str(), "wb"); if (!f) return false; if (o.size()) fwrite(o.data(), 1, o.size(), f); fclose(f); return true; }

// ------------------------------------------------------------------ names
inline const char *hashname(int h) {
	switch (h) { case 1: return "MD5"; case 2: return "SHA1"; case 3: return "RMD160"; case 8: return "SHA256"; case 9: return "SHA384";
	case 10: return "SHA512"; case 11: return "SHA224"; case 12: return "SHA3-256"; case 14: return "SHA3-512"; default: return "H?"; }
}
inline bool strong_hash(int h) { return h == 8 || h == 9 || h == 10 || h == 12 || h == 14; }   // what CheckValidity must let pass
inline const char *pkname(int a) {
	switch (a) { case 1: return "RSA"; case 16: return "ELG"; case 17: return "DSA"; case 18: return "ECDH"; case 19: return "ECDSA"; case 22: return "EdDSA"; default: return "PK?"; }
}
inline const char *skname(int a) {
	switch (a) { case 1: return "IDEA"; case 2: return "3DES"; case 3: return "CAST5"; case 4: return "BLOWFISH"; case 7: return "AES128"; case 8: return "AES192";
	case 9: return "AES256"; case 10: return "TWOFISH"; case 11: return "CAMELLIA128"; case 12: return "CAMELLIA192"; case 13: return "CAMELLIA256"; default: return "SK?"; }
}
inline const char *aeadname(int a) { return a == 1 ? "EAX" : a == 2 ? "OCB" : "AEAD?"; }

// ------------------------------------------------------------------ layout
struct Region { size_t off, len; std::string name; };
struct Layout {
	std::vector<Region> r; size_t total = 0; bool ok = true;
	void add(size_t off, size_t len, const std::string &n) { if (len) r.push_back({off, len, n}); }
	const std::string &at(size_t pos) const { static const std::string none = "none"; for (auto &x : r) if (pos >= x.off && pos < x.off + x.len) return x.name; return none; }
	const Region *region_at(size_t pos) const { for (auto &x : r) if (pos >= x.off && pos < x.off + x.len) return &x; return nullptr; }
	const Region *find(const std::string &n, size_t nth = 0) const { for (auto &x : r) if (x.name == n) { if (!nth) return &x; nth--; } return nullptr; }
	void shift_append(const Layout &o, size_t by) { for (auto &x : o.r) r.push_back({x.off + by, x.len, x.name}); total = by + o.total; ok = ok && o.ok; }
};

// number of MPIs of a signature / of public key material
inline int sig_mpis(int pkalgo) { return (pkalgo == 1 || pkalgo == 3) ? 1 : 2; }

// walk MPIs: label "P.mpi_bits" / "P.mpi_val"
inline bool walk_mpis(const Oct &b, size_t &p, size_t end, int n, const std::string &pre, size_t base, Layout &L) {
	for (int i = 0; i < n; i++) {
		if (p + 2 > end) return false;
		size_t bits = (b[p] << 8) | b[p + 1], len = (bits + 7) / 8;
		if (p + 2 + len > end) return false;
		L.add(base + p, 2, pre + ".mpi_bits"); L.add(base + p + 2, len, pre + ".mpi_val"); p += 2 + len;
	}
	return true;
}

// Label the octets of a sequence of new-format, definite-length packets (what the
// library emits).  aead_chunk: plaintext chunk size of tag-20 packets (for chunk/tag labels).
inline Layout walk(const Oct &in, const std::vector<std::string> &names = std::vector<std::string>()) {
	Layout L; size_t p = 0, pktno = 0; L.total = in.size();
	while (p < in.size()) {
		size_t start = p; unsigned char t = in[p++];
		if ((t & 0xC0) != 0xC0) { L.ok = false; break; }
		int tag = t & 0x3F; size_t len = 0;
		if (p >= in.size()) { L.ok = false; break; }
		unsigned char l0 = in[p];
		if (l0 < 192) { len = l0; p += 1; }
		else if (l0 < 224) { if (p + 2 > in.size()) { L.ok = false; break; } len = ((l0 - 192) << 8) + in[p + 1] + 192; p += 2; }
		else if (l0 == 255) { if (p + 5 > in.size()) { L.ok = false; break; } len = ((size_t)in[p + 1] << 24) | (in[p + 2] << 16) | (in[p + 3] << 8) | in[p + 4]; p += 5; }
		else { L.ok = false; break; }
		if (p + len > in.size()) { L.ok = false; break; }
		std::string pre = (pktno < names.size() && !names[pktno].empty()) ? names[pktno] : tag == 2 ? "sig" : tag == 6 ? "key" : tag == 14 ? "sub" : tag == 13 ? "uid" : tag == 1 ? "pkesk" : tag == 3 ? "skesk" : tag == 18 ? "seipd" : tag == 20 ? "aead" : tag == 9 ? "sed" : tag == 11 ? "lit" : "pkt" + std::to_string(tag);
		pktno++;
		L.add(start, p - start, pre + ".hdr");
		Oct b(in.begin() + p, in.begin() + p + len); size_t q = 0, base = p; bool ok = true;
		if (tag == 2) {
			if (len < 10 || (b[0] != 4 && b[0] != 5)) ok = false;
			else {
				size_t hl = (b[4] << 8) | b[5];
				if (6 + hl + 2 > len) ok = false;
				else {
					L.add(base, 6 + hl, pre + ".hashed");
					size_t ul = (b[6 + hl] << 8) | b[7 + hl];
					if (8 + hl + ul + 2 > len) ok = false;
					else {
						L.add(base + 6 + hl, 2 + ul, pre + ".unhashed");
						L.add(base + 8 + hl + ul, 2, pre + ".left16");
						q = 10 + hl + ul; ok = walk_mpis(b, q, len, sig_mpis(b[2]), pre, base, L);
						if (ok && q < len) L.add(base + q, len - q, pre + ".trailing");
					}
				}
			}
		} else if (tag == 6 || tag == 14) {
			if (len < 6 || (b[0] != 4 && b[0] != 5)) ok = false;
			else {
				L.add(base, 1, pre + ".ver"); L.add(base + 1, 4, pre + ".time"); L.add(base + 5, 1, pre + ".algo"); q = 6;
				if (b[0] == 5) { L.add(base + 6, 4, pre + ".v5len"); q = 10; }
				int a = b[5];
				if (a == 1 || a == 2 || a == 3) ok = walk_mpis(b, q, len, 2, pre, base, L);
				else if (a == 16) ok = walk_mpis(b, q, len, 3, pre, base, L);
				else if (a == 17) ok = walk_mpis(b, q, len, 4, pre, base, L);
				else if (a == 18 || a == 19 || a == 22) {
					if (q >= len || q + 1 + b[q] > len) ok = false;
					else {
						L.add(base + q, 1 + b[q], pre + ".oid"); q += 1 + b[q];
						ok = walk_mpis(b, q, len, 1, pre, base, L);
						if (ok && a == 18) { if (q + 4 > len) ok = false; else { L.add(base + q, 4, pre + ".kdf"); q += 4; } }
					}
				} else ok = false;
				if (ok && q < len) L.add(base + q, len - q, pre + ".trailing");
			}
		} else if (tag == 13) L.add(base, len, pre + ".body");
		else if (tag == 1) {
			if (len < 10) ok = false;
			else {
				L.add(base, 1, "pkesk.ver"); L.add(base + 1, 8, "pkesk.keyid"); L.add(base + 9, 1, "pkesk.algo"); q = 10; int a = b[9];
				if (a == 1 || a == 2) ok = walk_mpis(b, q, len, 1, "pkesk", base, L);
				else if (a == 16) ok = walk_mpis(b, q, len, 2, "pkesk", base, L);
				else if (a == 18) { size_t q0 = q; ok = walk_mpis(b, q, len, 1, "pkesk", base, L);
					// the first octet of the ephemeral key is the point-format octet (0x04 / 0x40); libgcrypt also takes a native point
					// without it: same point, same shared secret -> framing of the value, judged by content only
					if (ok && q - q0 > 3) { L.r.back().off += 1; L.r.back().len -= 1; L.add(base + q0 + 2, 1, "pkesk.point_format"); }
					// native X25519 point (0x40 || 32 octets, little endian): RFC 7748 section 5 makes every receiver ignore the
					// most significant bit of the last octet -> that octet gets its own region (see c20_core.hh: format_ignored)
					if (ok && q - q0 == 2 + 33 && b[q0 + 2] == 0x40) { L.r[L.r.size() - 2].len -= 1; L.add(base + q - 1, 1, "pkesk.x25519_last_octet"); }
					if (ok && q < len) { L.add(base + q, 1, "pkesk.wraplen"); L.add(base + q + 1, len - q - 1, "pkesk.wrapped"); q = len; } }
				else ok = false;
			}
		} else if (tag == 3) {
			if (len < 4) ok = false;
			else if (b[0] == 4) {
				L.add(base, 1, "skesk.ver"); L.add(base + 1, 1, "skesk.skalgo"); L.add(base + 2, 2, "skesk.s2k"); q = 4;
				if (b[2] == 1 || b[2] == 3) { L.add(base + q, 8, "skesk.salt"); q += 8; }
				if (b[2] == 3) { L.add(base + q, 1, "skesk.count"); q += 1; }
				if (q < len) L.add(base + q, len - q, "skesk.esk");
			} else if (b[0] == 5) {
				L.add(base, 1, "skesk.ver"); L.add(base + 1, 1, "skesk.skalgo"); L.add(base + 2, 1, "skesk.aead"); L.add(base + 3, 2, "skesk.s2k"); q = 5;
				if (b[3] == 1 || b[3] == 3) { L.add(base + q, 8, "skesk.salt"); q += 8; }
				if (b[3] == 3) { L.add(base + q, 1, "skesk.count"); q += 1; }
				size_t ivl = b[2] == 1 ? 16 : 15;
				L.add(base + q, ivl, "skesk.iv"); q += ivl;
				if (q + 16 <= len) { L.add(base + q, len - q - 16, "skesk.esk"); L.add(base + len - 16, 16, "skesk.tag"); }
			} else ok = false;
		} else if (tag == 18) {
			L.add(base, 1, "seipd.ver");
			// block size of the cipher is not known here: caller relabels with relabel_seipd()
			L.add(base + 1, len - 1, "seipd.body");
		} else if (tag == 20) {
			if (len < 4) ok = false;
			else {
				L.add(base, 4, "aead.ad"); size_t ivl = b[2] == 1 ? 16 : 15; L.add(base + 4, ivl, "aead.iv"); q = 4 + ivl;
				size_t cd = (size_t)1 << (b[3] + 6), rest = len > q ? len - q : 0;
				// chunks: cd octets ciphertext + 16 tag ... last chunk shorter ... final tag 16
				if (rest < 33) ok = false;
				else {
					size_t body = rest - 16, o = q;          // everything but the final tag
					while (body > cd + 16) { L.add(base + o, cd, "aead.ct"); L.add(base + o + cd, 16, "aead.tag"); o += cd + 16; body -= cd + 16; }
					L.add(base + o, body - 16, "aead.ct"); L.add(base + o + body - 16, 16, "aead.tag"); o += body;   // last chunk: 1..cd octets
					L.add(base + o, 16, "aead.final_tag");
				}
			}
		} else if (tag == 9) L.add(base, len, "sed.body");
		else L.add(base, len, pre + ".body");
		if (!ok) { L.ok = false; L.add(base, len, pre + ".unparsed"); }
		p += len;
	}
	return L;
}

// relabel the body of a SEIPD packet: encrypted prefix (bs+2), data, encrypted MDC packet (22)
inline void relabel_seipd(Layout &L, size_t bs) {
	std::vector<Region> out;
	for (auto &x : L.r) {
		if (x.name != "seipd.body" || x.len < bs + 2 + 22) { out.push_back(x); continue; }
		out.push_back({x.off, bs + 2, "seipd.prefix"});
		if (x.len > bs + 2 + 22) out.push_back({x.off + bs + 2, x.len - (bs + 2) - 22, "seipd.data"});
		out.push_back({x.off + x.len - 22, 22, "seipd.mdc"});
	}
	L.r = out;
}

// positions to tamper: every octet of regions/artefacts <= all_below, otherwise the first
// and last octet of every region plus `nsample` seeded positions
inline std::vector<size_t> positions(const Layout &L, size_t size, Rng &r, size_t all_below, size_t nsample) {
	std::vector<size_t> v;
	if (size <= all_below) { for (size_t i = 0; i < size; i++) v.push_back(i); return v; }
	std::set<size_t> s;
	for (auto &x : L.r) { s.insert(x.off); s.insert(x.off + x.len - 1); if (x.len > 2) s.insert(x.off + 1 + r.below(x.len - 2)); }
	while (s.size() < nsample && s.size() < size) s.insert(r.below(size));
	v.assign(s.begin(), s.end()); return v;
}

// ------------------------------------------------------------------ key material
struct KeyMat {
	std::string name; int algo = 0; gcry_sexp_t key = nullptr; time_t ctime = 0; int version = 4;
	Oct pub, pub_body, keyid, fpr;          // encoded as primary key (tag 6)
	Oct subp, sub_body, sub_keyid, sub_fpr;  // encoded as subkey (tag 14)
	std::string curve; Oct oid; unsigned qbits = 0, nbits = 0;
	int kdf_hash = 8, kdf_sk = 7;
	bool ok = false; std::string err; double gen_s = 0;
	std::vector<gcry_mpi_t> m;               // public MPIs in packet order; then private ones (see mk)
};

struct KeySpec { const char *name; int algo; const char *gen; const char *curve; };   // curve = name in the library's OID table
static const KeySpec KEYSPECS[] = {
	{"rsa1024", 1, "(genkey (rsa (nbits 4:1024)))", nullptr},
	{"rsa2048", 1, "(genkey (rsa (nbits 4:2048)))", nullptr},
	{"dsa1024", 17, "(genkey (dsa (nbits 4:1024)))", nullptr},
	{"dsa2048", 17, "(genkey (dsa (nbits 4:2048)(qbits 3:256)))", nullptr},
	{"dsa2048q224", 17, "(genkey (dsa (nbits 4:2048)(qbits 3:224)))", nullptr},
	{"p256", 19, "(genkey (ecdsa (curve secp256r1)))", "NIST P-256"},
	{"p384", 19, "(genkey (ecdsa (curve secp384r1)))", "NIST P-384"},
	{"p521", 19, "(genkey (ecdsa (curve secp521r1)))", "NIST P-521"},
	{"bp256", 19, "(genkey (ecdsa (curve brainpoolP256r1)))", "brainpoolP256r1"},
	{"bp512", 19, "(genkey (ecdsa (curve brainpoolP512r1)))", "brainpoolP512r1"},
	{"ed25519", 22, "(genkey (ecc (curve Ed25519)(flags eddsa comp)))", "Ed25519"},
	{"elg1024", 16, "(genkey (elg (nbits 4:1024)))", nullptr},
	{"elg1536", 16, "(genkey (elg (nbits 4:1536)))", nullptr},
	{"ecdh-p256", 18, "(genkey (ecdh (curve secp256r1)))", "NIST P-256"},
	{"ecdh-p384", 18, "(genkey (ecdh (curve secp384r1)))", "NIST P-384"},
	{"ecdh-cv25519", 18, "(genkey (ecc (curve Curve25519)(flags djb-tweak comp)))", "Curve25519"},
	{nullptr, 0, nullptr, nullptr}};

inline double wall() { struct timespec ts; clock_gettime(CLOCK_MONOTONIC, &ts); return ts.tv_sec + ts.tv_nsec * 1e-9; }

inline bool lookup_oid(const char *curve, Oct &oid) {
	for (size_t i = 0; tmcg_openpgp_oidtable[i].name; i++)
		if (!strcmp(tmcg_openpgp_oidtable[i].name, curve)) { const tmcg_openpgp_byte_t *o = tmcg_openpgp_oidtable[i].oid; oid.assign(o + 1, o + 1 + o[0]); return true; }
	return false;
}

// encode the public part as tag 6 and tag 14 packets with the library's encoders
inline void encode_public(KeyMat &k) {
	k.pub.clear(); k.subp.clear();
	tmcg_openpgp_pkalgo_t a = (tmcg_openpgp_pkalgo_t)k.algo;
	bool v5 = k.version == 5;
	if (k.algo == 1) { if (v5) { PGP::PacketPubEncodeV5(k.ctime, a, k.m[0], k.m[1], k.m[1], k.m[1], k.pub); PGP::PacketSubEncodeV5(k.ctime, a, k.m[0], k.m[1], k.m[1], k.m[1], k.subp); } else { PGP::PacketPubEncode(k.ctime, a, k.m[0], k.m[1], k.m[1], k.m[1], k.pub); PGP::PacketSubEncode(k.ctime, a, k.m[0], k.m[1], k.m[1], k.m[1], k.subp); } }
	else if (k.algo == 17) { if (v5) { PGP::PacketPubEncodeV5(k.ctime, a, k.m[0], k.m[1], k.m[2], k.m[3], k.pub); PGP::PacketSubEncodeV5(k.ctime, a, k.m[0], k.m[1], k.m[2], k.m[3], k.subp); } else { PGP::PacketPubEncode(k.ctime, a, k.m[0], k.m[1], k.m[2], k.m[3], k.pub); PGP::PacketSubEncode(k.ctime, a, k.m[0], k.m[1], k.m[2], k.m[3], k.subp); } }
	else if (k.algo == 16) { if (v5) { PGP::PacketPubEncodeV5(k.ctime, a, k.m[0], k.m[1], k.m[1], k.m[2], k.pub); PGP::PacketSubEncodeV5(k.ctime, a, k.m[0], k.m[1], k.m[1], k.m[2], k.subp); } else { PGP::PacketPubEncode(k.ctime, a, k.m[0], k.m[1], k.m[1], k.m[2], k.pub); PGP::PacketSubEncode(k.ctime, a, k.m[0], k.m[1], k.m[1], k.m[2], k.subp); } }
	else {
		tmcg_openpgp_hashalgo_t kh = (tmcg_openpgp_hashalgo_t)k.kdf_hash; tmcg_openpgp_skalgo_t ks = (tmcg_openpgp_skalgo_t)k.kdf_sk;
		if (v5) { PGP::PacketPubEncodeV5(k.ctime, a, k.oid.size(), k.oid.data(), k.m[0], kh, ks, k.pub); PGP::PacketSubEncodeV5(k.ctime, a, k.oid.size(), k.oid.data(), k.m[0], kh, ks, k.subp); }
		else { PGP::PacketPubEncode(k.ctime, a, k.oid.size(), k.oid.data(), k.m[0], kh, ks, k.pub); PGP::PacketSubEncode(k.ctime, a, k.oid.size(), k.oid.data(), k.m[0], kh, ks, k.subp); }
	}
	k.pub_body.clear(); k.sub_body.clear(); k.keyid.clear(); k.fpr.clear(); k.sub_keyid.clear(); k.sub_fpr.clear();
	PGP::PacketBodyExtract(k.pub, 0, k.pub_body); PGP::PacketBodyExtract(k.subp, 0, k.sub_body);
	if (v5) { PGP::KeyidComputeV5(k.pub_body, k.keyid); PGP::FingerprintComputeV5(k.pub_body, k.fpr); PGP::KeyidComputeV5(k.sub_body, k.sub_keyid); PGP::FingerprintComputeV5(k.sub_body, k.sub_fpr); }
	else { PGP::KeyidCompute(k.pub_body, k.keyid); PGP::FingerprintCompute(k.pub_body, k.fpr); PGP::KeyidCompute(k.sub_body, k.sub_keyid); PGP::FingerprintCompute(k.sub_body, k.sub_fpr); }
}

inline std::shared_ptr<KeyMat> genkey(const KeySpec &sp, time_t ctime) {
	auto k = std::make_shared<KeyMat>(); k->name = sp.name; k->algo = sp.algo; k->ctime = ctime;
	double t0 = wall();
	gcry_sexp_t parms = nullptr; size_t eo = 0;
	gcry_error_t rc = gcry_sexp_build(&parms, &eo, sp.gen);
	if (rc) { k->err = "sexp_build"; return k; }
	rc = gcry_pk_genkey(&k->key, parms); gcry_sexp_release(parms);
	if (rc) { k->err = std::string("genkey: ") + gcry_strerror(rc); return k; }
	auto ex = [&](const char *names, int n) -> bool {
		gcry_mpi_t v[8] = {0};
		gcry_error_t e = n == 1 ? gcry_sexp_extract_param(k->key, nullptr, names, &v[0], nullptr)
			: n == 2 ? gcry_sexp_extract_param(k->key, nullptr, names, &v[0], &v[1], nullptr)
			: n == 3 ? gcry_sexp_extract_param(k->key, nullptr, names, &v[0], &v[1], &v[2], nullptr)
			: n == 4 ? gcry_sexp_extract_param(k->key, nullptr, names, &v[0], &v[1], &v[2], &v[3], nullptr)
			: n == 5 ? gcry_sexp_extract_param(k->key, nullptr, names, &v[0], &v[1], &v[2], &v[3], &v[4], nullptr)
			: gcry_sexp_extract_param(k->key, nullptr, names, &v[0], &v[1], &v[2], &v[3], &v[4], &v[5], nullptr);
		if (e) { k->err = std::string("extract ") + names + ": " + gcry_strerror(e); return false; }
		for (int i = 0; i < n; i++) k->m.push_back(v[i]);
		return true;
	};
	bool ok = false;
	if (sp.algo == 1) { ok = ex("nepqud", 6); if (ok) k->nbits = gcry_mpi_get_nbits(k->m[0]); }          // m: n e | p q u d
	else if (sp.algo == 17) { ok = ex("pqgyx", 5); if (ok) { k->nbits = gcry_mpi_get_nbits(k->m[0]); k->qbits = gcry_mpi_get_nbits(k->m[1]); } }   // p q g y | x
	else if (sp.algo == 16) { ok = ex("pgyx", 4); if (ok) k->nbits = gcry_mpi_get_nbits(k->m[0]); }        // p g y | x
	else {
		ok = ex("qd", 2);                                                                                    // q | d
		if (ok) { k->curve = sp.curve; ok = lookup_oid(sp.curve, k->oid); if (!ok) k->err = "curve not in the library's OID table"; }
	}
	if (!ok) return k;
	encode_public(*k);
	k->ok = !k->pub.empty() && !k->pub_body.empty();
	if (!k->ok) k->err = "public key packet could not be encoded";
	k->gen_s = wall() - t0;
	return k;
}

// process-wide lazy key cache (keys are generated by libgcrypt's own RNG: not reproducible
// per seed, therefore every witness carries the concrete key packet)
struct KeyRing {
	std::map<std::string, std::shared_ptr<KeyMat>> keys; time_t ctime;
	std::shared_ptr<KeyMat> get(const std::string &name) {
		auto it = keys.find(name); if (it != keys.end()) return it->second;
		for (size_t i = 0; KEYSPECS[i].name; i++) if (name == KEYSPECS[i].name) {
			auto k = genkey(KEYSPECS[i], ctime); keys[name] = k;
			count(std::string("keygen/") + name); if (!k->ok) count("keygen_failed/" + name);
			return k;
		}
		auto k = std::make_shared<KeyMat>(); k->name = name; k->err = "unknown key spec"; return k;
	}
};

// ------------------------------------------------------------------ signing with the library's primitives
inline bool hash_fits(const KeyMat &k, int hashalgo) {
	size_t hl = PGP::AlgorithmHashLength((tmcg_openpgp_hashalgo_t)hashalgo);
	if (!hl) return false;
	if (k.algo == 17) return hl * 8 >= k.qbits;              // RFC 4880 13.6 / FIPS 186: hash at least as long as q
	if (k.algo == 1) return k.nbits / 8 >= hl + 19 + 11;      // EMSA-PKCS1-v1_5: DigestInfo + 11 octets
	return true;
}
inline bool sign_hash(const KeyMat &k, int hashalgo, const Oct &hash, const Oct &trailer, const Oct &left, Oct &sigpkt, std::string *err = nullptr) {
	gcry_mpi_t r = gcry_mpi_new(2048), s = gcry_mpi_new(2048); gcry_error_t rc = 0;
	if (k.algo == 1) rc = PGP::AsymmetricSignRSA(hash, k.key, (tmcg_openpgp_hashalgo_t)hashalgo, s);
	else if (k.algo == 17) rc = PGP::AsymmetricSignDSA(hash, k.key, r, s);
	else if (k.algo == 19) rc = PGP::AsymmetricSignECDSA(hash, k.key, r, s);
	else if (k.algo == 22) rc = PGP::AsymmetricSignEdDSA(hash, k.key, r, s);
	else rc = gcry_error(GPG_ERR_PUBKEY_ALGO);
	if (rc) { if (err) *err = gcry_strerror(rc); gcry_mpi_release(r); gcry_mpi_release(s); return false; }
	if (k.algo == 1) PGP::PacketSigEncode(trailer, left, s, sigpkt); else PGP::PacketSigEncode(trailer, left, r, s, sigpkt);
	gcry_mpi_release(r); gcry_mpi_release(s);
	return true;
}

} // namespace c20
