// w_c08.cc — C08: all players derive the same common card key.
// Sequential reference model per player instance: set A of accepted foreign public keys;
// after EVERY operation  h == h_own * prod(A) mod p  (recomputed from scratch with GMP) and
// NumberOfKeys == |A|.  UpdateKey: valid contribution -> true + added; malformed ->
// false/std::exception + nothing changes.  RemoveKey: member -> true + removed; non-member ->
// false/std::exception + nothing changes.  Masking rounds (c_2 == m * h_model^r) and
// decryption rounds detect stale fixed-base tables / fingerprint maps after Finalize.
// Every operation is also written as a record and re-checked by an independent Python model
// (lib/vf/props/c08.py).
#include "engine.hh"
#include "c06_ref.hh"
#include <algorithm>
#include <memory>
#include <set>

using namespace vf;
using c06::Z;


static const char *CLS[3] = {"VTMF_dlog", "VTMF_dlog-canonical", "VTMF_dlog_GroupQR"};
struct Group { int kind; std::string text; Z p, q, g; unsigned long F, G; };
static Group groups[3];
static bool g_record = true;

static BarnettSmartVTMF_dlog *import_group(const Group &gr) {
	std::istringstream in(gr.text);
	if (gr.kind == 2) return new BarnettSmartVTMF_dlog_GroupQR(in, gr.F, gr.G);
	return new BarnettSmartVTMF_dlog(in, gr.F, gr.G, gr.kind == 1, true);
}
static void setup_groups(bool dflt) {
	for (int kind = 0; kind < 3; kind++) {
		Rng r = setup_rng(200 + kind); tl_rng = &r;
		Group &gr = groups[kind]; gr.kind = kind;
		std::unique_ptr<BarnettSmartVTMF_dlog> v;
		if (kind == 2) { gr.F = 512; gr.G = 160; v.reset(new BarnettSmartVTMF_dlog_GroupQR(gr.F, gr.G)); }
		else { gr.F = dflt && kind == 0 ? 2048 : 512; gr.G = dflt && kind == 0 ? 256 : 160; v.reset(new BarnettSmartVTMF_dlog(gr.F, gr.G, kind == 1, true)); }
		if (!v->CheckGroup()) { fprintf(stderr, "c08 setup: generated group refused\n"); exit(2); }
		std::ostringstream os; v->PublishGroup(os); gr.text = os.str(); gr.p = Z(v->p); gr.q = Z(v->q); gr.g = Z(v->g);
		tl_rng = nullptr;
	}
}

// ---------------------------------------------------------------- world + reference model
struct Player {
	std::unique_ptr<BarnettSmartVTMF_dlog> v; Rng rng; std::string keytext; Z hi;
	std::set<size_t> A;      // model: indices of players whose contribution is accepted
	bool tainted = false;    // after an unspecified (duplicate) operation the instance is no longer judged
	bool finalized_current = false;
};
struct World {
	const Group *gr; std::vector<Player> pl; std::string cls; long long ops = 0, checks = 0;
	std::string hist;   // compact op history for witnesses
};
static std::vector<std::string> key_lines(const std::string &t) { std::vector<std::string> v; std::string cur; for (char c : t) { if (c == '\n') { v.push_back(cur); cur.clear(); } else cur += c; } if (!cur.empty()) v.push_back(cur); return v; }
static std::string join3(const std::vector<std::string> &l) { std::string s; for (auto &x : l) { s += x; s += "\n"; } return s; }

static World *make_world(int kind, size_t k, long kcase) {
	World *w = new World; w->gr = &groups[kind]; w->cls = CLS[kind]; w->pl.resize(k);
	for (size_t i = 0; i < k; i++) {
		Player &P = w->pl[i]; P.rng = case_rng(kcase, 100 + i); tl_rng = &P.rng;
		P.v.reset(import_group(*w->gr));
		P.v->KeyGenerationProtocol_GenerateKey();
		std::ostringstream os; P.v->KeyGenerationProtocol_PublishKey(os); P.keytext = os.str();
		P.hi = Z(P.v->h_i);
		tl_rng = nullptr;
		std::vector<std::string> l = key_lines(P.keytext);
		if (l.size() != 3 || l[0] != mpz_b62(P.hi)) { fprintf(stderr, "c08: published key layout changed\n"); exit(2); }
	}
	if (g_record) { std::vector<std::string> ks; for (auto &P : w->pl) ks.push_back(mpz_dec(P.hi)); record(J().kv("r", "world").kv("cls", w->cls).kz("p", w->gr->p).arr("keys", ks).str()); }
	return w;
}
static void model_h(const World &w, size_t pi, Z &out) {
	mpz_set(out, w.pl[pi].hi);
	for (size_t a : w.pl[pi].A) { mpz_mul(out, out, w.pl[a].hi); mpz_mod(out, out, w.gr->p); }
}
static std::string witness(const World &w, size_t pi, const std::string &op, const std::string &arg) {
	std::vector<long long> A(w.pl[pi].A.begin(), w.pl[pi].A.end()); Z mh; model_h(w, pi, mh);
	return J().kv("class", w.cls).kv("players", (long long)w.pl.size()).kv("player", (long long)pi).kv("op", op).kv("argument", shorten(arg, 700))
		.arrn("model_accepted_set", A).kz("library_h", w.pl[pi].v->h).kz("model_h", mh).kv("NumberOfKeys", (long long)w.pl[pi].v->KeyGenerationProtocol_NumberOfKeys())
		.kz("p", w.gr->p).kv("history", shorten(w.hist, 1500)).str();
}
// the state check after every operation
static void check_state(World &w, size_t pi, const std::string &opkind, const std::string &op, const std::string &arg) {
	Player &P = w.pl[pi]; if (P.tainted) return;
	Z mh; model_h(w, pi, mh); w.checks++;
	// after a state mismatch the instance is not judged any further (one key per first failure, no cascades)
	if (mpz_cmp(mh, P.v->h)) { violation("C08/" + w.cls + "/h-mismatch-after-" + opkind, "common key differs from h_own * product of the accepted contributions", witness(w, pi, op, arg)); P.tainted = true; }
	if (P.v->KeyGenerationProtocol_NumberOfKeys() != P.A.size()) { violation("C08/" + w.cls + "/number-of-keys-after-" + opkind, "NumberOfKeys differs from the size of the accepted set", witness(w, pi, op, arg)); P.tainted = true; }
}
// ex: accept | refuse | either | dup | fin | mask  (what the reference model expects of this operation)
static void rec_op(World &w, size_t pi, const char *op, long long src, const std::string &ex, int ret, const std::string &detail) {
	w.ops++; w.hist += std::string(op) + std::to_string(pi) + "<" + std::to_string(src) + ":" + ex + (detail.empty() ? "" : "(" + detail + ")") + "=" + std::to_string(ret) + " ";
	if (!g_record) return;
	record(J().kv("r", "op").kv("pl", (long long)pi).kv("op", op).kv("src", src).kv("ex", ex).kv("ret", ret).kz("h", w.pl[pi].v->h).kv("n", (long long)w.pl[pi].v->KeyGenerationProtocol_NumberOfKeys()).kv("d", detail).str());
}

enum Expect { ACCEPT, REFUSE, EITHER };
static const char *exs(Expect e) { return e == ACCEPT ? "accept" : e == REFUSE ? "refuse" : "either"; }
// UpdateKey of `text` (derived from the contribution of player src) at player pi
static int op_update(World &w, size_t pi, size_t src, const std::string &text, Expect ex, const std::string &kind, const std::string &detail) {
	Player &P = w.pl[pi]; tl_rng = &P.rng; std::string exc;
	int ret = accepted([&] { std::istringstream in(text); return P.v->KeyGenerationProtocol_UpdateKey(in); }, &exc);
	tl_rng = nullptr;
	if (!exc.empty()) count("update_exceptions");
	P.finalized_current = false;
	bool dup = P.A.count(src) && (ex == ACCEPT || ex == EITHER);
	if (dup) { count("duplicate_resubmissions_not_judged"); rec_op(w, pi, "U", (long long)src, "dup", ret, detail); P.tainted = true; return ret; }
	rec_op(w, pi, "U", (long long)src, P.tainted ? "unjudged" : exs(ex), ret, detail);
	if (P.tainted) return ret;
	if (ex == ACCEPT) { count("update_valid"); if (!ret) violation("C08/" + w.cls + "/valid-contribution-refused", "UpdateKey refused a valid contribution" + (exc.empty() ? std::string() : " (exception: " + exc + ")"), witness(w, pi, "UpdateKey", text)); else P.A.insert(src); }
	else if (ex == REFUSE) { count("update_malformed"); if (ret) { violation("C08/" + w.cls + "/malformed-contribution-accepted/" + kind, "UpdateKey accepted a malformed contribution (" + detail + ")", witness(w, pi, "UpdateKey", text)); P.tainted = true; } }
	else { count("update_equivalent_text_not_judged"); if (ret) P.A.insert(src); }
	check_state(w, pi, ex == ACCEPT ? "update-valid" : ex == REFUSE ? "update-malformed" : "update-equivalent", "UpdateKey", text);
	return ret;
}
static int op_remove(World &w, size_t pi, size_t src, const std::string &text, Expect ex, const std::string &kind, const std::string &detail) {
	Player &P = w.pl[pi]; tl_rng = &P.rng; std::string exc;
	int ret = accepted([&] { std::istringstream in(text); return P.v->KeyGenerationProtocol_RemoveKey(in); }, &exc);
	tl_rng = nullptr;
	if (!exc.empty()) count("remove_exceptions");
	P.finalized_current = false;
	rec_op(w, pi, "R", (long long)src, P.tainted ? "unjudged" : exs(ex), ret, detail);
	if (P.tainted) return ret;
	if (ex == ACCEPT) { count("remove_member"); if (!ret) violation("C08/" + w.cls + "/remove-member-refused", "RemoveKey refused a previously accepted contribution", witness(w, pi, "RemoveKey", text)); else P.A.erase(src); }
	else if (ex == REFUSE) { count("remove_nonmember"); if (ret) { violation("C08/" + w.cls + "/remove-nonmember-accepted", "RemoveKey returned true for a contribution that is not accepted (" + detail + ")", witness(w, pi, "RemoveKey", text)); P.tainted = true; } }
	else { count("remove_member_with_altered_proof_not_judged"); if (ret) P.A.erase(src); }
	check_state(w, pi, ex == ACCEPT ? "remove-member" : ex == REFUSE ? "remove-nonmember" : "remove-altered", "RemoveKey", text);
	return ret;
}
static void op_finalize(World &w, size_t pi) {
	Player &P = w.pl[pi]; tl_rng = &P.rng; std::string exc;
	int ok = accepted([&] { P.v->KeyGenerationProtocol_Finalize(); return true; }, &exc);
	tl_rng = nullptr; P.finalized_current = true; count("finalize_calls");
	rec_op(w, pi, "F", -1, "fin", ok, "");
	if (!ok && !P.tainted) violation("C08/" + w.cls + "/finalize-exception", "KeyGenerationProtocol_Finalize threw: " + exc, witness(w, pi, "Finalize", ""));
	check_state(w, pi, "finalize", "Finalize", "");
}
// masking under the player's common key; c_2 must be m * h_model^r.  With decrypt=true all players of
// the accepted set hold the same h and contribute verifiable decryption shares; otherwise the
// plaintext is recovered with GMP from the private keys.
static void op_mask_round(World &w, size_t pi, bool decrypt) {
	Player &P = w.pl[pi]; if (P.tainted) return;
	if (!P.finalized_current) op_finalize(w, pi);
	const Group &gr = *w.gr; Z m, c1, c2, r, mh, t, u; std::string exc; tl_rng = &P.rng;
	P.v->RandomElement(m);
	int ok = accepted([&] { P.v->VerifiableMaskingProtocol_Mask(m, c1, c2, r); return true; }, &exc);
	tl_rng = nullptr; count("masking_rounds");
	rec_op(w, pi, "M", -1, "mask", ok, "");
	if (!ok) { violation("C08/" + w.cls + "/masking-after-finalize-threw", "masking with the finalized common key threw: " + exc, witness(w, pi, "Mask", "")); return; }
	model_h(w, pi, mh);
	mpz_powm(t, gr.g, r, gr.p); mpz_powm(u, mh, r, gr.p); mpz_mul(u, u, m); mpz_mod(u, u, gr.p); w.checks++;
	if (mpz_cmp(t, c1) || mpz_cmp(u, c2)) { violation("C08/" + w.cls + "/masking-uses-stale-key", "ciphertext is not (g^r, m*h^r) for the model key h", witness(w, pi, "Mask", "")); return; }
	// GMP decryption with the private keys of the accepted set
	Z xs(P.v->x_i); for (size_t a : P.A) mpz_add(xs, xs, w.pl[a].v->x_i);
	mpz_powm(t, c1, xs, gr.p); mpz_invert(t, t, gr.p); mpz_mul(t, t, c2); mpz_mod(t, t, gr.p);
	if (mpz_cmp(t, m)) violation("C08/" + w.cls + "/key-is-not-product-of-shares", "ciphertext under h does not decrypt with the sum of the private keys of the accepted set", witness(w, pi, "Mask", ""));
	if (!decrypt) return;
	count("decryption_rounds"); tl_rng = &P.rng;
	P.v->VerifiableDecryptionProtocol_Verify_Initialize(c1);
	bool all = true;
	for (size_t a : P.A) {
		std::stringstream proof; tl_rng = &w.pl[a].rng; w.pl[a].v->VerifiableDecryptionProtocol_Prove(c1, proof); tl_rng = &P.rng;
		std::string e2; int v = accepted([&] { return P.v->VerifiableDecryptionProtocol_Verify_Update(c1, proof); }, &e2);
		if (!v) { all = false; violation("C08/" + w.cls + "/decryption-share-refused", "share of an accepted player refused in the decryption round" + (e2.empty() ? std::string() : " (" + e2 + ")"), witness(w, pi, "Verify_Update", std::to_string(a))); }
	}
	Z m2; P.v->VerifiableDecryptionProtocol_Verify_Finalize(c2, m2); tl_rng = nullptr; w.checks++;
	if (all && mpz_cmp(m2, m)) violation("C08/" + w.cls + "/decryption-wrong-plaintext", "decryption round returned a different plaintext", witness(w, pi, "Verify_Finalize", ""));
}
static void check_agreement(World &w, const std::string &when) {
	for (size_t i = 0; i < w.pl.size(); i++) for (size_t j = i + 1; j < w.pl.size(); j++) {
		if (w.pl[i].tainted || w.pl[j].tainted) continue;
		std::set<size_t> si = w.pl[i].A, sj = w.pl[j].A; si.insert(i); sj.insert(j);
		if (si != sj) continue;
		w.checks++; count("agreement_checks");
		if (mpz_cmp(w.pl[i].v->h, w.pl[j].v->h)) violation("C08/" + w.cls + "/players-disagree", "two players that accepted the same set of contributions hold different common keys (" + when + ")", witness(w, i, "compare", std::to_string(j)));
	}
}

// ---------------------------------------------------------------- malformed contributions
static const char *FIELD[3] = {"h_j", "c", "r"};
static const char *MUT[] = {"+1", "other-member", "-v", "0", "1", "p-1", "p", "q", "v+q", "v+p", "oversized", "order-k-nonmember", "times-order-2-element",
                            "swap-with-next", "delete-line", "truncate", "empty-line"};
static const size_t NMUT = sizeof(MUT) / sizeof(MUT[0]);
static const char *WHOLE[] = {"proof-of-other-key", "empty-text", "key-without-proof", "crafted-order-2-key-with-matching-proof", "no-trailing-newline"};
static const size_t NWHOLE = sizeof(WHOLE) / sizeof(WHOLE[0]);

// returns false when the mutation leaves the text unchanged
static bool mutate_field(const Group &gr, const std::string &text, int field, const std::string &mut, std::string &out) {
	std::vector<std::string> l = key_lines(text); Z v, n; mpz_set_str(v, l[field].c_str(), 62);
	bool num = true;
	if (mut == "+1") mpz_add_ui(n, v, 1); else if (mut == "other-member") { mpz_mul(n, v, gr.g); mpz_mod(n, n, gr.p); }
	else if (mut == "-v") mpz_neg(n, v); else if (mut == "0") mpz_set_ui(n, 0); else if (mut == "1") mpz_set_ui(n, 1);
	else if (mut == "p-1") mpz_sub_ui(n, gr.p, 1); else if (mut == "p") mpz_set(n, gr.p); else if (mut == "q") mpz_set(n, gr.q);
	else if (mut == "v+q") mpz_add(n, v, gr.q); else if (mut == "v+p") mpz_add(n, v, gr.p);
	else if (mut == "oversized") { mpz_set_ui(n, 1); mpz_mul_2exp(n, n, 4096); mpz_add(n, n, v); }
	else if (mut == "order-k-nonmember") { Z x(3); do { mpz_powm(n, x, gr.q, gr.p); mpz_add_ui(x, x, 2); } while (mpz_cmp_ui(n, 1) <= 0); }
	else if (mut == "times-order-2-element") { mpz_sub(n, gr.p, v); mpz_mod(n, n, gr.p); }
	else num = false;
	if (num) l[field] = mpz_b62(n);
	else if (mut == "swap-with-next") std::swap(l[field], l[(field + 1) % 3]);
	else if (mut == "delete-line") l.erase(l.begin() + field);
	else if (mut == "truncate") l[field] = l[field].substr(0, l[field].size() - 1);
	else if (mut == "empty-line") l[field] = "";
	out = join3(l);
	return out != text;
}
// hostile contribution: key h' = g^x * (p-1) (outside the order-q subgroup) with a Schnorr proof that verifies
// whenever the in-group test is skipped (needs an even challenge)
static std::string crafted_order2(const Group &gr, Rng &r) {
	Z x, hp, v, t, c, rr, pm1; mpz_sub_ui(pm1, gr.p, 1);
	r.mpz_below(x, gr.q); mpz_powm(hp, gr.g, x, gr.p); mpz_mul(hp, hp, pm1); mpz_mod(hp, hp, gr.p);
	for (;;) {
		r.mpz_below(v, gr.q); mpz_powm(t, gr.g, v, gr.p);
		tmcg_mpz_shash(c, 5, (mpz_srcptr)gr.p, (mpz_srcptr)gr.q, (mpz_srcptr)gr.g, (mpz_srcptr)hp, (mpz_srcptr)t);
		if (mpz_even_p(c)) break;
	}
	mpz_mul(rr, c, x); mpz_sub(rr, v, rr); mpz_mod(rr, rr, gr.q);
	return mpz_b62(hp) + "\n" + mpz_b62(c) + "\n" + mpz_b62(rr) + "\n";
}
static bool whole_mutation(World &w, size_t src, size_t other, const std::string &mut, Rng &r, std::string &out, Expect &ex) {
	std::vector<std::string> l = key_lines(w.pl[src].keytext), lo = key_lines(w.pl[other].keytext); ex = REFUSE;
	if (mut == "proof-of-other-key") { if (src == other) return false; out = l[0] + "\n" + lo[1] + "\n" + lo[2] + "\n"; }
	else if (mut == "empty-text") out = "";
	else if (mut == "key-without-proof") out = l[0] + "\n";
	else if (mut == "crafted-order-2-key-with-matching-proof") out = crafted_order2(*w.gr, r);
	else if (mut == "no-trailing-newline") { out = w.pl[src].keytext.substr(0, w.pl[src].keytext.size() - 1); ex = EITHER; }
	return true;
}
// expectation for RemoveKey of a field-mutated text whose source is a member of A: the key line decides
static Expect remove_expect_member(int field, const std::string &mut) {
	if (mut == "delete-line" || mut == "empty-line") return REFUSE;
	if (field == 0) return REFUSE;
	if (mut == "swap-with-next" && field == 2) return REFUSE;
	if (mut == "truncate" && false) return REFUSE;
	return EITHER;   // key line intact, proof altered: removal by key value, not judged
}

// ---------------------------------------------------------------- H1: all processing orders
static void run_orders(long &kcase) {
	std::vector<size_t> ks = ctx.quick() ? std::vector<size_t>{1, 2, 3, 4} : std::vector<size_t>{1, 2, 3, 4, 5};
	const size_t BLOCK = 6;
	for (int kind = 0; kind < 3; kind++) for (size_t k : ks) {
		std::vector<size_t> perm(k); for (size_t i = 0; i < k; i++) perm[i] = i;
		std::vector<std::vector<size_t>> perms; do perms.push_back(perm); while (std::next_permutation(perm.begin(), perm.end()));
		for (size_t b0 = 0; b0 < perms.size(); b0 += BLOCK) {
			J d; d.kv("h", "orders").kv("class", CLS[kind]).kv("k", (long long)k).kv("first_perm", (long long)b0);
			if (!case_begin(kcase++, d.str())) continue;
			std::unique_ptr<World> w(make_world(kind, k, kcase)); Rng r = case_rng(kcase, 7);
			long long done = 0; std::string sample;
			for (size_t bi = b0; bi < perms.size() && bi < b0 + BLOCK; bi++) {
				const std::vector<size_t> &pm = perms[bi]; std::string ps; for (size_t x : pm) ps += std::to_string(x);
				w->hist += "[order " + ps + "] ";
				for (size_t pi = 0; pi < k; pi++) for (size_t src : pm) if (src != pi) op_update(*w, pi, src, w->pl[src].keytext, ACCEPT, "valid", "");
				// every player must now hold the product of all public keys
				Z prod(1UL); for (auto &P : w->pl) { mpz_mul(prod, prod, P.hi); mpz_mod(prod, prod, w->gr->p); }
				for (size_t pi = 0; pi < k; pi++) { w->checks++; if (!w->pl[pi].tainted && mpz_cmp(prod, w->pl[pi].v->h)) violation("C08/" + w->cls + "/key-not-product-of-all-keys", "after processing all contributions the common key is not the product of all public keys", witness(*w, pi, "order " + ps, "")); }
				check_agreement(*w, "order " + ps);
				for (size_t pi = 0; pi < k; pi++) op_finalize(*w, pi);
				size_t opener = r.below(k); op_mask_round(*w, opener, true);
				// remove everything again in a random order: the key in effect without each contribution comes back
				for (size_t pi = 0; pi < k; pi++) { std::vector<size_t> ord(w->pl[pi].A.begin(), w->pl[pi].A.end()); for (size_t i = ord.size(); i > 1; i--) std::swap(ord[i - 1], ord[r.below(i)]);
					for (size_t src : ord) op_remove(*w, pi, src, w->pl[src].keytext, ACCEPT, "member", ""); }
				for (size_t pi = 0; pi < k; pi++) { w->checks++; if (!w->pl[pi].tainted && mpz_cmp(w->pl[pi].hi, w->pl[pi].v->h)) violation("C08/" + w->cls + "/key-not-restored-after-removing-all", "after removing every contribution h differs from the own public key", witness(*w, pi, "order " + ps, "")); }
				count("orders_processed"); count("cov_orders/" + std::string(CLS[kind]) + "/k=" + std::to_string(k)); done++;
				if (sample.empty()) sample = J().kv("history", "orders").kv("class", CLS[kind]).kv("k", (long long)k).kv("order", ps).kv("opener", (long long)opener).kz("common_key", prod).str();
				if (w->hist.size() > 4000) w->hist.erase(0, w->hist.size() - 2000);
			}
			count("operations", w->ops); count("oracle_checks", w->checks);
			case_end(d.str(), done > 0, sample, w->checks, done);
		}
	}
}

// ---------------------------------------------------------------- H3: full malformed catalogue
static void run_catalogue(long &kcase) {
	for (int kind = 0; kind < 3; kind++) for (size_t mi = 0; mi < 3 * NMUT + NWHOLE; mi++) {
		int field = mi < 3 * NMUT ? (int)(mi / NMUT) : -1; std::string mut = field >= 0 ? MUT[mi % NMUT] : WHOLE[mi - 3 * NMUT];
		std::string fname = field >= 0 ? FIELD[field] : "whole";
		J d; d.kv("h", "catalogue").kv("class", CLS[kind]).kv("field", fname).kv("mutation", mut);
		if (!case_begin(kcase++, d.str())) continue;
		std::unique_ptr<World> w(make_world(kind, 3, kcase)); Rng r = case_rng(kcase, 8);
		// player 0 has accepted player 1; player 2 is unknown to it
		op_update(*w, 0, 1, w->pl[1].keytext, ACCEPT, "valid", "");
		op_finalize(*w, 0);
		long long applied = 0; std::string sample;
		for (size_t src : {(size_t)2, (size_t)1}) {
			std::string text; Expect ex = REFUSE; bool changed;
			if (field >= 0) changed = mutate_field(*w->gr, w->pl[src].keytext, field, mut, text);
			else changed = whole_mutation(*w, src, src == 2 ? 1 : 2, mut, r, text, ex);
			if (!changed) { count("mutation_identical_skipped"); continue; }
			std::string detail = fname + ":" + mut + (src == 1 ? " of an accepted contribution" : " of a new contribution");
			// a member's text with an equivalent representation would be a duplicate: only for the new contribution
			if (ex == EITHER && src == 1) continue;
			op_update(*w, 0, src, text, ex, fname, detail);
			applied++; count("cov_update_malformed/" + fname + "/" + mut);
			if (ex == EITHER) { if (w->pl[0].A.count(2)) op_remove(*w, 0, 2, w->pl[2].keytext, ACCEPT, "member", ""); continue; }
			// RemoveKey with the same text
			Expect rex = REFUSE;
			if (src == 1 && field >= 0) rex = remove_expect_member(field, mut);
			if (src == 1 && field < 0 && mut == "proof-of-other-key") rex = EITHER;   // key line of a member, foreign proof
			op_remove(*w, 0, src, text, rex, rex == EITHER ? "member-altered-proof" : "nonmember", detail);
			count("cov_remove_mutated/" + fname + "/" + mut);
			if (rex == EITHER && !w->pl[0].A.count(1)) op_update(*w, 0, 1, w->pl[1].keytext, ACCEPT, "valid", "re-add");
			if (sample.empty()) sample = J().kv("history", "catalogue").kv("class", CLS[kind]).kv("field", fname).kv("mutation", mut).kv("submitted", shorten(text, 200)).kv("last_ops", shorten(w->hist, 300)).str();
		}
		// the instance must still work: unknown valid contribution accepted, non-member removal refused, masking round
		op_remove(*w, 0, 2, w->pl[2].keytext, REFUSE, "nonmember", "valid text of a player that was never accepted");
		op_update(*w, 0, 2, w->pl[2].keytext, ACCEPT, "valid", "");
		op_mask_round(*w, 0, false);
		// bring the others to the same set and run a full decryption round
		for (size_t pi = 1; pi < 3; pi++) for (size_t src = 0; src < 3; src++) if (src != pi) op_update(*w, pi, src, w->pl[src].keytext, ACCEPT, "valid", "");
		check_agreement(*w, "end of catalogue history");
		for (size_t pi = 0; pi < 3; pi++) op_finalize(*w, pi);
		op_mask_round(*w, r.below(3), true);
		count("operations", w->ops); count("oracle_checks", w->checks); count("catalogue_histories");
		case_end(d.str(), applied > 0, sample, w->checks, 1);
	}
}

// ---------------------------------------------------------------- H2: random add/remove interleavings
static void run_random(long &kcase) {
	long nhist = ctx.option_l("random", ctx.quick() ? 450 : 6000);
	size_t steps = ctx.quick() ? 40 : 60;
	for (long hi = 0; hi < nhist; hi++) {
		int kind = hi % 3; size_t k = 2 + (hi / 3) % 7;   // 2..8 players
		J d; d.kv("h", "random").kv("class", CLS[kind]).kv("k", (long long)k).kv("idx", hi);
		if (!case_begin(kcase++, d.str())) continue;
		g_record = ctx.quick() || hi % 8 == 0;
		std::unique_ptr<World> w(make_world(kind, k, kcase)); Rng r = case_rng(kcase, 9);
		for (size_t s = 0; s < steps; s++) {
			size_t pi = r.below(k); Player &P = w->pl[pi]; if (P.tainted) continue;
			std::vector<size_t> non, mem; for (size_t j = 0; j < k; j++) if (j != pi) (P.A.count(j) ? mem : non).push_back(j);
			unsigned x = r.below(100);
			if (x < 30 && !non.empty()) { size_t src = non[r.below(non.size())]; op_update(*w, pi, src, w->pl[src].keytext, ACCEPT, "valid", ""); count("rnd_add_valid"); }
			else if (x < 50) { size_t src = (pi + 1 + r.below(k - 1)) % k; int field = r.below(3); std::string mut = MUT[r.below(NMUT)], text;
				if (mutate_field(*w->gr, w->pl[src].keytext, field, mut, text)) { op_update(*w, pi, src, text, REFUSE, FIELD[field], std::string(FIELD[field]) + ":" + mut); count("rnd_add_malformed"); } }
			else if (x < 55) { Expect ex; std::string text; size_t src = (pi + 1 + r.below(k - 1)) % k, other = (src + 1 + r.below(k - 1)) % k; std::string mut = WHOLE[r.below(NWHOLE - 1)];
				if (whole_mutation(*w, src, other, mut, r, text, ex)) { op_update(*w, pi, src, text, ex, "whole", "whole:" + mut); count("rnd_add_malformed"); } }
			else if (x < 70 && !mem.empty()) { size_t src = mem[r.below(mem.size())]; op_remove(*w, pi, src, w->pl[src].keytext, ACCEPT, "member", ""); count("rnd_remove_member"); }
			else if (x < 78 && !non.empty()) { size_t src = non[r.below(non.size())]; op_remove(*w, pi, src, w->pl[src].keytext, REFUSE, "nonmember", "valid text, not accepted (never, or removed before)"); count("rnd_remove_nonmember"); }
			else if (x < 84) { size_t src = (pi + 1 + r.below(k - 1)) % k; int field = r.below(3); std::string mut = MUT[r.below(NMUT)], text;
				if (mutate_field(*w->gr, w->pl[src].keytext, field, mut, text)) { Expect ex = P.A.count(src) ? remove_expect_member(field, mut) : REFUSE;
					op_remove(*w, pi, src, text, ex, ex == EITHER ? "member-altered-proof" : "nonmember", std::string(FIELD[field]) + ":" + mut); count("rnd_remove_mutated"); } }
			else if (x < 90) { op_update(*w, pi, pi, crafted_order2(*w->gr, r), REFUSE, "h_j", "crafted order-2 key with matching proof"); count("rnd_crafted"); }
			else if (x < 95) op_finalize(*w, pi);
			else op_mask_round(*w, pi, false);
			if (w->hist.size() > 6000) w->hist.erase(0, w->hist.size() - 3000);
		}
		check_agreement(*w, "end of random history");
		// closing phase: everybody adds what is missing, then all keys must agree and a decryption round must work
		for (size_t pi = 0; pi < k; pi++) for (size_t src = 0; src < k; src++) if (src != pi && !w->pl[pi].A.count(src) && !w->pl[pi].tainted) op_update(*w, pi, src, w->pl[src].keytext, ACCEPT, "valid", "closing");
		check_agreement(*w, "after closing phase");
		bool any_tainted = false; for (auto &P : w->pl) any_tainted |= P.tainted;
		for (size_t pi = 0; pi < k; pi++) op_finalize(*w, pi);
		if (!any_tainted) op_mask_round(*w, r.below(k), true);
		// duplicate re-submission: executed and recorded, excluded from the oracle
		{ size_t pi = r.below(k), src = (pi + 1 + r.below(k - 1)) % k; if (!w->pl[pi].tainted && w->pl[pi].A.count(src)) op_update(*w, pi, src, w->pl[src].keytext, ACCEPT, "valid", "duplicate"); }
		count("operations", w->ops); count("oracle_checks", w->checks); count("random_histories"); count("cov_random/" + std::string(CLS[kind]) + "/k=" + std::to_string(k));
		case_end(d.str(), w->checks > 0, J().kv("history", "random").kv("class", CLS[kind]).kv("k", (long long)k).kv("operations", w->ops).kv("ops", shorten(w->hist, 400)).str(), w->checks, 1);
		g_record = true;
	}
}

int main(int argc, char **argv) {
	init(argc, argv);
	null_cerr();
	if (!init_libTMCG()) { fprintf(stderr, "init_libTMCG failed\n"); return 2; }
	ctx.max_samples = 2;
	setup_groups(ctx.thorough());
	long k = 0;
	run_orders(k);
	run_catalogue(k);
	run_random(k);
	finish();
	return 0;
}
