// c05_mut.hh — C05 mutation catalogue: value classes, per-line / per-field / public-input mutations.
//
// dlog family (values live in Z_p^* / its order-q subgroup, exponents in Z_q):
//   +1, other (another member v*g mod p for elements, another residue (3v+7) mod q otherwise), neg (-v),
//   zero, one, p-1, p, q, +q, +p, oversized (v+2^4096), nonmember ((-1)*v mod p: order-2 component),
//   line level: delete, truncate (drop last character), swap (with next line), empty.
//   Every one of them is a different residue mod q AND a different element mod p or lies outside
//   [0,q) resp. [1,p): non-equivalent under either reading of the line.  (v-q is NOT in the catalogue.)
// QR family (Rabin-type roots / squares mod m, parity bits): only mutations that change the square:
//   +1 (= flip for a bit), 2v mod m, zero, one, delete, truncate, swap, empty;
//   executed but NOT judged: neg (-v), m-v, +m, m (same square / same residue).
// Structured lines (sts^ stk^ crs| crd| pub| sig| nzk^ ...): tokenised at '^' and '|', each field mutated with
//   the catalogue of its class; decimal count / index fields +-1; tags corrupted; text appended after the
//   last delimiter is an equivalent representation (executed, recorded, not judged).
#pragma once
#include "protos.hh"

namespace c05 {
using namespace vf;

inline bool parse62(const std::string &t, mpz_ptr v) {
	if (t.empty()) return false;
	for (size_t i = 0; i < t.size(); i++) { unsigned char c = (unsigned char)t[i]; if (!(isalnum(c) || (i == 0 && c == '-' && t.size() > 1))) return false; }
	return mpz_set_str(v, t.c_str(), 62) == 0;
}

struct Cat {
	bool qr; mpz_t p, q, m, g, big, t, u;
	explicit Cat(pr::Instance &I) {
		mpz_init_set(p, I.p); mpz_init_set(q, I.q); mpz_init_set(m, I.m); mpz_init(g); mpz_init(big); mpz_init(t); mpz_init(u);
		qr = I.family == "qr"; mpz_ui_pow_ui(big, 2, 4096);
		if (!qr && mpz_sgn(p) > 0 && mpz_sgn(q) > 0) {   // an element of order q: x^((p-1)/q) != 1
			mpz_t k; mpz_init(k); mpz_sub_ui(k, p, 1); mpz_divexact(k, k, q);
			for (unsigned long x = 2; x < 1000; x++) { mpz_set_ui(g, x); mpz_powm(g, g, k, p); if (mpz_cmp_ui(g, 1)) break; }
			mpz_clear(k);
		}
	}
	~Cat() { mpz_clear(p); mpz_clear(q); mpz_clear(m); mpz_clear(g); mpz_clear(big); mpz_clear(t); mpz_clear(u); }
	Cat(const Cat &) = delete;
};

// value classes
inline std::string vclass(Cat &C, mpz_srcptr v) {
	if (mpz_sgn(v) >= 0 && mpz_cmp_ui(v, 1) <= 0) return "bit";
	if (mpz_sgn(v) > 0 && mpz_sizeinbase(v, 2) <= 32) return "int";
	if (C.qr) return "resid";
	if (mpz_sgn(v) > 0 && mpz_cmp(v, C.p) < 0) { mpz_powm(C.u, v, C.q, C.p); if (!mpz_cmp_ui(C.u, 1)) return "elem"; }
	return "scalar";
}

struct VMut { std::string mut, text; bool judged; std::string why; };   // why: reason an unjudged mutation is an equivalent representation

// value-level catalogue for one integer (line or field)
inline std::vector<VMut> value_muts(Cat &C, const std::string &cls, mpz_srcptr v, bool full, bool unjudged_too) {
	std::vector<VMut> o; mpz_ptr t = C.t;
	auto add = [&](const char *nm, bool judged = true, const char *why = "") { o.push_back({nm, mpz_b62(t), judged, why}); };
	if (C.qr) {
		mpz_add_ui(t, v, 1); add("+1");
		mpz_mul_2exp(t, v, 1); mpz_mod(t, t, C.m); add("2v");
		mpz_set_ui(t, 0); add("zero");
		mpz_set_ui(t, 1); add("one");
		if (full || unjudged_too) {
			mpz_neg(t, v); add("neg", false, "same-square");
			mpz_sub(t, C.m, v); add("m-v", false, "same-square");
			mpz_add(t, v, C.m); add("+m", false, "same-residue-mod-m");
			mpz_set(t, C.m); add("m", false, "not-judged-by-design");
		}
		return o;
	}
	mpz_add_ui(t, v, 1); add("+1");
	if (cls == "elem") { mpz_mul(t, v, C.g); mpz_mod(t, t, C.p); } else { mpz_mul_ui(t, v, 3); mpz_add_ui(t, t, 7); mpz_mod(t, t, C.q); }
	add("other");
	mpz_add(t, v, C.q); add("+q");
	mpz_add(t, v, C.p); add("+p");
	mpz_neg(t, v); mpz_mod(t, t, C.p); add("nonmember");
	mpz_neg(t, v); add("neg");
	if (full) {
		mpz_set_ui(t, 0); add("zero");
		mpz_set_ui(t, 1); add("one");
		mpz_sub_ui(t, C.p, 1); add("p-1");
		mpz_set(t, C.p); add("p");
		mpz_set(t, C.q); add("q");
		mpz_add(t, v, C.big); add("oversized");
	}
	return o;
}

struct LineMut {
	size_t k = 0; int field = -1; std::string role /* stable name of the target */, cls /* value class */, mut, orig, text, why; enum Op { REPL, DEL, SWAP } op = REPL; bool judged = true, equal = false;
};

struct Tok { std::string text; char delim; };
inline std::vector<Tok> split_fields(const std::string &l) {
	std::vector<Tok> t; std::string cur;
	for (char c : l) { if (c == '^' || c == '|') { t.push_back({cur, c}); cur.clear(); } else cur.push_back(c); }
	t.push_back({cur, 0}); return t;
}
inline std::string join_fields(const std::vector<Tok> &t) { std::string s; for (auto &x : t) { s += x.text; if (x.delim) s.push_back(x.delim); } return s; }
inline bool structured(const std::string &l) { return l.find('^') != std::string::npos || l.find('|') != std::string::npos; }
inline bool is_tag(const std::string &s) { static const char *tags[] = {"sts", "stk", "crs", "crd", "pub", "sec", "sig", "nzk", "ost", nullptr}; for (int i = 0; tags[i]; i++) if (s == tags[i]) return true; return false; }
inline bool is_dec(const std::string &s) { if (s.empty() || s.size() > 6) return false; for (char c : s) if (!isdigit((unsigned char)c)) return false; return true; }

inline std::string line_role(Cat &C, const std::string &l) {
	if (structured(l)) { auto t = split_fields(l); return "struct:" + t[0].text; }
	mpz_t v; mpz_init(v); std::string r = parse62(l, v) ? vclass(C, v) : "text"; mpz_clear(v); return r;
}

// cut-and-choose protocols re-read 640 MiB line buffers per round: their structured fields are sampled in quick
inline bool heavy(const std::string &proto) { return proto.compare(0, 12, "tmcg/stackeq") == 0 || proto == "rabin/key-nizk"; }
inline size_t blocks_of(const std::string &proto) {
	auto has = [&](const char *x) { return proto.find(x) != std::string::npos; };
	if (proto == "rabin/key-nizk") return 4;
	if (heavy(proto)) return 6;
	if (proto == "tmcg/maskcard-qr" || proto == "tmcg/cardsecret-qr") return 4;
	if (has("publiccoin") || proto == "tmcg/groth" || proto == "tmcg/hoogh") return 4;        // every challenge is a two-party coin flip
	if (has("hoogh") || has("groth")) return 2;
	return 1;
}

// positional names of the lines of fixed-shape transcripts (from the protocol code); other protocols: value class
inline std::vector<std::string> line_names(const std::string &proto, size_t nlines) {
	std::vector<std::string> n;
	if (proto == "vtmf/key-nizk") n = {"h_i", "c", "r"};
	else if (proto == "vtmf/key-interactive") n = {"m_1", "m_2"};
	else if (proto == "vtmf/cp-plain" || proto == "vtmf/cp-table" || proto == "vtmf/mask" || proto == "vtmf/remask" || proto == "tmcg/maskcard-vtmf") n = {"c", "r"};
	else if (proto == "vtmf/or-first" || proto == "vtmf/or-second") n = {"c_1", "c_2", "r_1", "r_2"};
	else if (proto == "vtmf/decrypt" || proto == "tmcg/cardsecret-vtmf") n = {"d_i", "fingerprint", "c", "r"};
	else if (proto == "pedersen/commit" || proto == "pedersen/trapdoor-commit") n = {"c", "r"};
	if (n.size() != nlines) n.clear();
	return n;
}

inline std::vector<LineMut> gen_line_muts(Cat &C, const std::vector<std::string> &pl, bool full, const std::string &proto) {
	std::vector<LineMut> out; mpz_t v; mpz_init(v);
	bool ni_qr = C.qr && (proto == "rabin/sign" || proto == "rabin/key-nizk");
	size_t rot = 0; std::vector<std::string> names = line_names(proto, pl.size());
	for (size_t k = 0; k < pl.size(); k++) {
		const std::string &l = pl[k];
		auto push = [&](int field, const std::string &role, const std::string &mut, const std::string &orig, const std::string &text, bool judged, LineMut::Op op = LineMut::REPL, const std::string &why = "") {
			LineMut m; m.why = why; m.k = k; m.field = field; m.role = (field < 0 && !names.empty()) ? names[k] : role; m.cls = role; m.mut = mut; m.orig = orig; m.text = text; m.judged = judged; m.op = op;
			m.equal = (op == LineMut::REPL && text == l) || (op == LineMut::SWAP && (k + 1 >= pl.size() || pl[k + 1] == l));
			out.push_back(m);
		};
		std::string lrole;
		if (structured(l)) {
			std::vector<Tok> T = split_fields(l); std::string tag = T[0].text, outer = T[0].text; lrole = "struct:" + tag;
			for (size_t j = 0; j + 1 < T.size(); j++) {      // the last token is the text after the last delimiter
				std::string f = T[j].text, role;
				auto with = [&](const std::string &nf) { std::vector<Tok> T2 = T; T2[j].text = nf; return join_fields(T2); };
				if (f.empty() && j > 0 && T[j - 1].delim == '|' && T[j].delim == '^') {
					std::string inner = tag; tag = outer;      // the nested record (crs| crd|) ends here
					// "crs|r|<here>^": text after the last delimiter of the nested record, ignored by its field parser (equivalent representation)
					if (full) push((int)j, inner + ".trailer", "append-after-last-delimiter", f, with("x"), false, LineMut::REPL, "text-after-last-delimiter");
					continue;
				}
				if (is_tag(f) || (f.size() >= 3 && f.compare(0, 2, "ID") == 0 && is_dec(f.substr(2)))) {
					if (is_tag(f)) tag = f;
					push((int)j, f.compare(0, 2, "ID") == 0 ? tag + ".idtag" : tag + ".tag", "corrupt", f, with(f + "x"), true);
					continue;
				}
				if (is_dec(f) && !(tag == "crs" || tag == "crd")) {
					role = tag + ".count"; unsigned long d = strtoul(f.c_str(), 0, 10);
					push((int)j, role, "+1", f, with(std::to_string(d + 1)), true);
					if (d > 0) push((int)j, role, "-1", f, with(std::to_string(d - 1)), true);
					if (full) push((int)j, role, "empty", f, with(""), d != 0, LineMut::REPL, d != 0 ? "" : "empty-decimal-field-reads-as-0");
					continue;
				}
				if (parse62(f, v) && f.find_first_not_of("0123456789ABCDEFGHIJKLMNOPQRSTUVWXYZabcdefghijklmnopqrstuvwxyz-") == std::string::npos && !(tag == "pub" && j <= 3)) {
					std::string cls = vclass(C, v); role = tag + "." + cls;
					if (tag == "crs" && !C.qr) { cls = "scalar"; role = "crs.r"; }                    // masking exponent of a VTMF card secret
					else if (tag == "crs") role = cls == "bit" ? "crs.b" : "crs.r";                     // Rabin-type root / parity bit of a QR card secret
					std::vector<VMut> VM = value_muts(C, cls, v, full, ni_qr);
					for (size_t i = 0; i < VM.size(); i++) {
						// quick: every third (field, mutation) pair, rotating (Rabin key text: every ninth - each field is bound by
						// the self-signature over the whole text and one check costs 500 Miller-Rabin rounds)
						// the range class (+q) is never sampled away
						if (!full && heavy(proto) && VM[i].mut != "+q" && ((rot++) % (proto == "rabin/key-nizk" ? 9 : 3)) != 0) continue;
						push((int)j, role, VM[i].mut, f, with(VM[i].text), VM[i].judged, LineMut::REPL, VM[i].why);
					}
					if (full) push((int)j, role, "empty", f, with(""), true);
					continue;
				}
				role = tag + ".text";
				{ std::string nf = f; if (nf.empty()) nf = "x"; else nf[nf.size() / 2] = (nf[nf.size() / 2] == 'x' ? 'y' : 'x'); push((int)j, role, "corrupt", f, with(nf), true); }
			}
			if (full) push(-1, lrole, "append-after-last-delimiter", l, l + "x", false, LineMut::REPL, "text-after-last-delimiter");
		} else if (parse62(l, v)) {
			std::string cls = vclass(C, v); lrole = cls;
			for (auto &vm : value_muts(C, cls, v, full, ni_qr)) push(-1, cls, vm.mut, l, vm.text, vm.judged, LineMut::REPL, vm.why);
		} else lrole = "text";
		push(-1, lrole, "delete", l, "", true, LineMut::DEL);
		if (full || C.qr) push(-1, lrole, "truncate", l, l.substr(0, l.size() ? l.size() - 1 : 0), true);
		if (full) { push(-1, lrole, "swap", l, k + 1 < pl.size() ? pl[k + 1] : "", true, LineMut::SWAP); push(-1, lrole, "empty", l, "", true); }
	}
	mpz_clear(v); return out;
}

struct PubMut { std::string mut, why; mpz_t v; bool judged; PubMut(const std::string &m, mpz_srcptr x, bool j, const std::string &w) : mut(m), why(w), judged(j) { mpz_init_set(v, x); } PubMut(const PubMut &o) : mut(o.mut), why(o.why), judged(o.judged) { mpz_init_set(v, o.v); } ~PubMut() { mpz_clear(v); } };

// Public inputs (altered in the verifier's view only).  Judged: changes to another WELL-FORMED value (another group
// element / residue / Z_m value).  Executed and recorded, not judged:
//   v+p, v+q          the same element / residue for a verifier computing mod p / mod q; a public input is a function
//                     argument, not a transmitted value (the refusal clause of the property speaks of the latter)
//   (-1)*v, -v, 0, p-1 as an "element": the statement is ill-formed (input outside the group); validating received
//                     cards / keys (CheckElement) is the caller's step and the subject of C06
inline std::vector<PubMut> gen_pub_muts(Cat &C, const std::string &kind, mpz_srcptr v, mpz_srcptr next, bool full) {
	std::vector<PubMut> o; mpz_ptr t = C.t;
	auto add = [&](const char *nm, bool judged = true, const char *why = "") { o.push_back(PubMut(nm, t, judged, why)); };
	mpz_add_ui(t, v, 1); add("+1");
	if (kind == "qr") {
		mpz_mul_2exp(t, v, 1); mpz_mod(t, t, C.m); add("2v");
		if (full) { mpz_set_ui(t, 0); add("zero"); mpz_set_ui(t, 1); add("one"); mpz_neg(t, v); add("neg", false, "same-square"); mpz_add(t, v, C.m); add("+m", false, "same-residue-mod-m"); }
	} else if (kind == "elem") {
		mpz_mul(t, v, C.g); mpz_mod(t, t, C.p); add("other");
		mpz_add(t, v, C.p); add("+p", false, "same-element-mod-p");
		if (full) {
			mpz_set_ui(t, 1); add("one");
			mpz_neg(t, v); mpz_mod(t, t, C.p); add("nonmember", false, "ill-formed-statement");
			mpz_set_ui(t, 0); add("zero", false, "ill-formed-statement");
			mpz_sub_ui(t, C.p, 1); add("p-1", false, "ill-formed-statement");
			mpz_neg(t, v); add("neg", false, "ill-formed-statement");
		}
	} else if (kind == "exp") {
		mpz_mul_ui(t, v, 3); mpz_add_ui(t, t, 7); mpz_mod(t, t, C.q); add("other");
		mpz_add(t, v, C.q); add("+q", false, "same-residue-mod-q");
		if (full) { mpz_set_ui(t, 0); add("zero"); mpz_neg(t, v); add("neg"); }
	}
	if (full && next) { mpz_set(t, next); add("swap-next"); }
	return o;
}

inline void prepare_world(pr::World &W, const std::vector<size_t> &sizes, bool with_rabin) {
	// lazily created members draw from W.rng: create them in a fixed order so that a case replays identically in any shard layout
	W.rng = Rng(W.rng.s[0], 0xc05, 1); W.need_edcf();
	W.rng = Rng(W.rng.s[0], 0xc05, 2); W.need_vrhe();
	for (size_t n : sizes) { W.rng = Rng(W.rng.s[1], 0xc05, 100 + n); W.need_vsshe(n); }
	if (with_rabin) { W.rng = Rng(W.rng.s[2], 0xc05, 3); W.need_rabin(); }
}

} // namespace c05
