// c20_cases.hh — case groups of w_c20.cc
#pragma once
#include "c20_sig.hh"
#include "c20_sig2.hh"
#include "c20_enc.hh"
