// c20_cases.hh — case groups of w_c20.cc
#pragma once
#include "c20_sig.hh"
namespace c20 {
inline void run_keysig(long &) {}
inline void run_keyblock(long &) {}
inline void run_enc(long &) {}
}
