// c04_stack.hh — C04: stack statements with separate prover / verifier views of the OUTPUT stack,
// derivation of false statements (substituted / duplicated / dropped / re-typed / non-member card,
// non-cyclic permutation, type-flipping mask) and pr::Instance builders for every stack-level
// prover/verifier pair of the library (cut-and-choose both encodings, Groth, rotation argument,
// the shuffle / rotation arguments called directly, PUB-ROT-ZK).
#pragma once
#include "c04_common.hh"

namespace c04 {

typedef TMCG_Stack<VTMF_Card> DStack; typedef TMCG_StackSecret<VTMF_CardSecret> DSecret;
typedef TMCG_Stack<TMCG_Card> QStack; typedef TMCG_StackSecret<TMCG_CardSecret> QSecret;

template <class Stack, class Secret> struct StmtT {
	Stack s, s2P, s2V;          // input stack (common), output stack as the prover / the verifier sees it
	Secret ss;                  // the prover's witness
	size_t n = 0; std::vector<size_t> pi, types;
	void same_view() { s2V = s2P; }
};
typedef StmtT<DStack, DSecret> DStmt;
typedef StmtT<QStack, QSecret> QStmt;

// ------------------------------------------------------------------ true statements
inline std::vector<size_t> pick_types(Rng &rg, size_t n, size_t space, bool repeat) {
	std::vector<size_t> t(n); for (size_t i = 0; i < n; i++) t[i] = (i * 5 + rg.below(3)) % space;
	if (space < 5 * n) { size_t base = rg.below(space); for (size_t i = 0; i < n; i++) t[i] = 2 * n <= space ? (base + 2 * i + rg.below(2)) % space : (n <= space ? (base + i) % space : (i + rg.below(2)) % space); }   // small type spaces (QR encoding, w = 3): distinct while they fit
	if (repeat && n >= 3) t[n - 1] = t[0];
	return t;
}
inline std::shared_ptr<DStmt> make_dstmt(World &W, SchindelhauerTMCG &tm, Rng &rg, size_t n, const std::vector<size_t> &pi, bool repeat) {
	auto st = std::make_shared<DStmt>(); st->n = n; st->pi = pi; st->types = pick_types(rg, n, 64, repeat);
	for (size_t i = 0; i < n; i++) { VTMF_Card o, c; tm.TMCG_CreateOpenCard(o, W.vP, st->types[i]); VTMF_CardSecret s0; tm.TMCG_CreateCardSecret(s0, W.vP); tm.TMCG_MaskCard(o, c, s0, W.vP); st->s.push(c); }
	tm.TMCG_CreateStackSecret(st->ss, pi, n, W.vP); tm.TMCG_MixStack(st->s, st->s2P, st->ss, W.vP); st->same_view();
	return st;
}
inline std::shared_ptr<QStmt> make_qstmt(World &W, SchindelhauerTMCG &tm, Rng &rg, size_t n, const std::vector<size_t> &pi, bool repeat) {
	auto st = std::make_shared<QStmt>(); st->n = n; st->pi = pi; st->types = pick_types(rg, n, (size_t)1 << W.qr_w, repeat);
	for (size_t i = 0; i < n; i++) { TMCG_Card c(2, W.qr_w); TMCG_CardSecret cs(2, W.qr_w); if (rg.coin()) tm.TMCG_CreateOpenCard(c, *W.ring, st->types[i]); else tm.TMCG_CreatePrivateCard(c, cs, *W.ring, rg.below(2), st->types[i]); st->s.push(c); }
	tm.TMCG_CreateStackSecret(st->ss, pi, *W.ring, 0, n); tm.TMCG_MixStack(st->s, st->s2P, st->ss, *W.ring); st->same_view();
	return st;
}

// ------------------------------------------------------------------ derivation of false statements (output stack)
// kinds: subst dup drop retype nonmember ; returns a description, "" if not applicable
inline std::string alter_dstack(World &W, SchindelhauerTMCG &tm, const DStmt &st, DStack &s2, const std::string &kind, size_t pos, size_t aux, Rng &rg) {
	size_t n = s2.size(); if (pos >= n) return "";
	mpz_srcptr p = W.vP->p;
	if (kind == "subst") {
		size_t cur = st.types[st.pi[pos]], T;
		if (aux % 2 == 1 && n >= 2) T = st.types[st.pi[(pos + 1 + rg.below(n - 1)) % n]]; else T = (cur + 1 + rg.below(62)) % 64;   // a type of another card of the stack / any other type
		if (T == cur) T = (cur + 7) % 64;
		VTMF_Card c; VTMF_CardSecret cs; tm.TMCG_CreatePrivateCard(c, cs, W.vP, T); s2[pos] = c;
		return "fresh masking of type " + std::to_string(T) + " instead of type " + std::to_string(cur);
	}
	if (kind == "dup") { if (n < 2) return ""; size_t from = (pos + 1 + aux % (n - 1)) % n; s2[pos] = s2[from]; return "copy of output card " + std::to_string(from); }
	if (kind == "drop") { s2.stack.erase(s2.stack.begin() + (long)pos); return "output card removed"; }
	if (kind == "retype") {
		MZ f; unsigned long d = aux % 2 ? 1 + rg.below(63) : 1; W.vP->IndexElement(f, d);
		mpz_mul(s2[pos].c_2, s2[pos].c_2, f); mpz_mod(s2[pos].c_2, s2[pos].c_2, p); return "c_2 multiplied by the message-space element g^" + std::to_string(d);
	}
	if (kind == "nonmember") {   // card replaced by a pair that is no element of the group (factor -1 of order 2)
		if (aux % 2) { mpz_sub(s2[pos].c_1, p, s2[pos].c_1); return "c_1 replaced by p - c_1 (not in the group)"; }
		mpz_sub(s2[pos].c_2, p, s2[pos].c_2); return "c_2 replaced by p - c_2 (not in the group)";
	}
	return "";
}
// QR encoding. kinds: subst dup drop retype jacobi
inline std::string alter_qstack(World &W, SchindelhauerTMCG &tm, const QStmt &st, QStack &s2, const std::string &kind, size_t pos, size_t aux, Rng &rg) {
	size_t n = s2.size(); if (pos >= n) return "";
	size_t space = (size_t)1 << W.qr_w;
	if (kind == "subst") {
		size_t cur = st.types[st.pi[pos]], T = (cur + 1 + rg.below(space - 1)) % space;
		TMCG_Card c(2, W.qr_w); TMCG_CardSecret cs(2, W.qr_w); tm.TMCG_CreatePrivateCard(c, cs, *W.ring, aux % 2, T); s2[pos] = c;
		return "fresh private card of type " + std::to_string(T) + " instead of type " + std::to_string(cur);
	}
	if (kind == "dup") { if (n < 2) return ""; size_t from = (pos + 1 + aux % (n - 1)) % n; s2[pos] = s2[from]; return "copy of output card " + std::to_string(from); }
	if (kind == "drop") { s2.stack.erase(s2.stack.begin() + (long)pos); return "output card removed"; }
	size_t k = aux % 2, w = (aux / 2) % W.qr_w; mpz_srcptr m = W.ring->keys[k].m;
	if (kind == "retype") { mpz_mul(&s2[pos].z[k][w], &s2[pos].z[k][w], W.ring->keys[k].y); mpz_mod(&s2[pos].z[k][w], &s2[pos].z[k][w], m); return "z[" + std::to_string(k) + "][" + std::to_string(w) + "] multiplied by y (type bit flipped)"; }
	if (kind == "jacobi") { MZ u; jacobi_minus_one(u, m, rg); mpz_mul(&s2[pos].z[k][w], &s2[pos].z[k][w], u); mpz_mod(&s2[pos].z[k][w], &s2[pos].z[k][w], m); return "z[" + std::to_string(k) + "][" + std::to_string(w) + "] multiplied by an element of Jacobi symbol -1"; }
	return "";
}
template <class Stack> inline std::string stack_text(const Stack &s) { std::ostringstream o; o << s; return o.str(); }
template <class St> inline std::string stmt_json(const St &st) { return J().kv("s", stack_text(st.s)).kv("s2_prover_view", stack_text(st.s2P)).kv("s2_verifier_view", stack_text(st.s2V)).kv("witness_pi", perm_str(st.pi)).str(); }

// ------------------------------------------------------------------ instances (library provers / verifiers)
inline bool is_cc(const std::string &proto) { return proto.find("tmcg/stackeq-") == 0; }
inline bool is_rotation_proto(const std::string &proto) { return proto.find("cyclic") != std::string::npos || proto.find("hoogh") != std::string::npos; }
inline bool is_tmcg_level(const std::string &proto) { return proto.find("tmcg/") == 0; }

static const char *const DSTACK_PROTOS[] = {"tmcg/stackeq-vtmf", "tmcg/stackeq-vtmf-cyclic", "tmcg/groth", "tmcg/groth-noninteractive", "tmcg/hoogh", "tmcg/hoogh-noninteractive",
	"groth/vsshe-interactive", "groth/vsshe-publiccoin", "groth/vsshe-noninteractive", "hoogh/vrhe-interactive", "hoogh/vrhe-publiccoin", "hoogh/vrhe-noninteractive"};

// r_override >= 0: rotation offset handed to the rotation prover instead of the one derived from the witness
inline Instance *dstack_instance(World &W, const std::string &proto, std::shared_ptr<DStmt> st, unsigned long kappa, long r_override = -1) {
	Instance *I = new Instance; I->proto = proto; I->n = st->n; set_moduli(*I, W); I->keep.push_back(st);
	World *w = &W;
	bool ni = proto.find("noninteractive") != std::string::npos;
	I->interactive = !ni;
	if (is_cc(proto)) {
		bool cy = proto.find("cyclic") != std::string::npos; I->variant = "kappa=" + std::to_string(kappa);
		auto tmP = PR_TM(kappa, 2, 6), tmV = PR_TM(kappa, 2, 6); I->keep.push_back(tmP); I->keep.push_back(tmV);
		I->prove = [w, tmP, st, cy](std::istream &in, std::ostream &out) { tmP->TMCG_ProveStackEquality(st->s, st->s2P, st->ss, cy, w->vP, in, out); };
		I->verify = [w, tmV, st, cy](std::istream &in, std::ostream &out) { return tmV->TMCG_VerifyStackEquality(st->s, st->s2V, cy, w->vV, in, out); };
		return I;
	}
	auto tmP = PR_TM(8, 2, 6), tmV = PR_TM(8, 2, 6); I->keep.push_back(tmP); I->keep.push_back(tmV);
	if (proto.find("tmcg/groth") == 0) {
		auto vs = W.need_vsshe(st->n); if (!ni) W.need_edcf(); GrothVSSHE *gp = vs.first, *gv = vs.second;
		if (ni) { I->prove = [w, tmP, st, gp](std::istream &, std::ostream &out) { tmP->TMCG_ProveStackEquality_Groth_noninteractive(st->s, st->s2P, st->ss, w->vP, gp, out); };
			I->verify = [w, tmV, st, gv](std::istream &in, std::ostream &) { return tmV->TMCG_VerifyStackEquality_Groth_noninteractive(st->s, st->s2V, w->vV, gv, in); }; }
		else { I->prove = [w, tmP, st, gp](std::istream &in, std::ostream &out) { tmP->TMCG_ProveStackEquality_Groth(st->s, st->s2P, st->ss, w->vP, gp, in, out); };
			I->verify = [w, tmV, st, gv](std::istream &in, std::ostream &out) { return tmV->TMCG_VerifyStackEquality_Groth(st->s, st->s2V, w->vV, gv, in, out); }; }
		return I;
	}
	if (proto.find("tmcg/hoogh") == 0) {
		W.need_vrhe(); if (!ni) W.need_edcf();
		if (ni) { I->prove = [w, tmP, st](std::istream &, std::ostream &out) { tmP->TMCG_ProveStackEquality_Hoogh_noninteractive(st->s, st->s2P, st->ss, w->vP, w->rP, out); };
			I->verify = [w, tmV, st](std::istream &in, std::ostream &) { return tmV->TMCG_VerifyStackEquality_Hoogh_noninteractive(st->s, st->s2V, w->vV, w->rV, in); }; }
		else { I->prove = [w, tmP, st](std::istream &in, std::ostream &out) { tmP->TMCG_ProveStackEquality_Hoogh(st->s, st->s2P, st->ss, w->vP, w->rP, in, out); };
			I->verify = [w, tmV, st](std::istream &in, std::ostream &out) { return tmV->TMCG_VerifyStackEquality_Hoogh(st->s, st->s2V, w->vV, w->rV, in, out); }; }
		return I;
	}
	int var = proto.find("-interactive") != std::string::npos ? 0 : proto.find("-publiccoin") != std::string::npos ? 1 : 2;
	if (var == 1) W.need_edcf();
	typedef std::vector<std::pair<mpz_ptr, mpz_ptr>> PV;
	if (proto.find("groth/vsshe-") == 0) {
		auto vs = W.need_vsshe(st->n); GrothVSSHE *gp = vs.first, *gv = vs.second;
		I->prove = [w, tmP, st, gp, var](std::istream &in, std::ostream &out) {
			std::vector<size_t> pi; std::vector<mpz_ptr> R; PV e, E; tmP->TMCG_InitializeStackEquality_Groth(pi, R, e, E, st->s, st->s2P, st->ss);
			struct G { SchindelhauerTMCG *t; std::vector<size_t> &pi; std::vector<mpz_ptr> &R; PV &e, &E; ~G() { t->TMCG_ReleaseStackEquality_Groth(pi, R, e, E); } } g{tmP.get(), pi, R, e, E};
			if (var == 0) gp->Prove_interactive(pi, R, e, E, in, out); else if (var == 1) gp->Prove_interactive_publiccoin(pi, R, e, E, w->eP, in, out); else gp->Prove_noninteractive(pi, R, e, E, out); };
		I->verify = [w, tmV, st, gv, var](std::istream &in, std::ostream &out) {
			PV e, E; tmV->TMCG_InitializeStackEquality_Groth(e, E, st->s, st->s2V);
			struct G { SchindelhauerTMCG *t; PV &e, &E; ~G() { t->TMCG_ReleaseStackEquality_Groth(e, E); } } g{tmV.get(), e, E};
			if (var == 0) return gv->Verify_interactive(e, E, in, out); if (var == 1) return gv->Verify_interactive_publiccoin(e, E, w->eV, in, out); return gv->Verify_noninteractive(e, E, in); };
		return I;
	}
	// hoogh/vrhe-*
	W.need_vrhe();
	I->prove = [w, tmP, st, var, r_override](std::istream &in, std::ostream &out) {
		std::vector<mpz_ptr> R; PV e, E; tmP->TMCG_InitializeStackEquality_Hoogh(R, e, E, st->s, st->s2P, st->ss);
		struct G { SchindelhauerTMCG *t; std::vector<mpz_ptr> &R; PV &e, &E; ~G() { t->TMCG_ReleaseStackEquality_Hoogh(R, e, E); } } g{tmP.get(), R, e, E};
		size_t r = r_override >= 0 ? (size_t)r_override : (st->ss.size() - st->ss[0].first) % st->ss.size();
		if (var == 0) w->rP->Prove_interactive(r, R, e, E, in, out); else if (var == 1) w->rP->Prove_interactive_publiccoin(r, R, e, E, w->eP, in, out); else w->rP->Prove_noninteractive(r, R, e, E, out); };
	I->verify = [w, tmV, st, var](std::istream &in, std::ostream &out) {
		PV e, E; tmV->TMCG_InitializeStackEquality_Groth(e, E, st->s, st->s2V);
		struct G { SchindelhauerTMCG *t; PV &e, &E; ~G() { t->TMCG_ReleaseStackEquality_Groth(e, E); } } g{tmV.get(), e, E};
		if (var == 0) return w->rV->Verify_interactive(e, E, in, out); if (var == 1) return w->rV->Verify_interactive_publiccoin(e, E, w->eV, in, out); return w->rV->Verify_noninteractive(e, E, in); };
	return I;
}

inline Instance *qstack_instance(World &W, bool cyclic, std::shared_ptr<QStmt> st, unsigned long kappa) {
	Instance *I = new Instance; I->proto = cyclic ? "tmcg/stackeq-qr-cyclic" : "tmcg/stackeq-qr"; I->family = "qr"; I->interactive = true; I->n = st->n; mpz_set(I->m, W.ring->keys[0].m);
	I->variant = "kappa=" + std::to_string(kappa); I->keep.push_back(st);
	auto tmP = PR_TM(kappa, 2, W.qr_w), tmV = PR_TM(kappa, 2, W.qr_w); I->keep.push_back(tmP); I->keep.push_back(tmV);
	World *w = &W;
	I->prove = [w, tmP, st, cyclic](std::istream &in, std::ostream &out) { tmP->TMCG_ProveStackEquality(st->s, st->s2P, st->ss, cyclic, *w->ring, 0, in, out); };
	I->verify = [w, tmV, st, cyclic](std::istream &in, std::ostream &out) { return tmV->TMCG_VerifyStackEquality(st->s, st->s2V, cyclic, *w->ring, in, out); };
	return I;
}

// ------------------------------------------------------------------ PUB-ROT-ZK: c_k = g^{alpha_{pi(k)}} h^{s_k}
struct RStmt { std::shared_ptr<ZV> alpha, s, cP, cV; size_t n = 0; std::vector<size_t> pi; };
// pi[k] = index of the alpha committed at position k; a rotation by r means pi[k] = k - r (mod n)
inline std::shared_ptr<RStmt> make_rstmt(World &W, size_t n, const std::vector<size_t> &pi) {
	auto st = std::make_shared<RStmt>(); st->n = n; st->pi = pi; st->alpha.reset(new ZV(n)); st->s.reset(new ZV(n)); st->cP.reset(new ZV(n)); st->cV.reset(new ZV(n));
	MZ t; for (size_t i = 0; i < n; i++) rand_exp(W, st->alpha->v[i]);
	for (size_t k = 0; k < n; k++) { rand_exp(W, st->s->v[k]); mpz_powm(st->cP->v[k], W.vP->g, st->alpha->v[pi[k]], W.vP->p); mpz_powm(t, W.vP->h, st->s->v[k], W.vP->p); mpz_mul(st->cP->v[k], st->cP->v[k], t); mpz_mod(st->cP->v[k], st->cP->v[k], W.vP->p); mpz_set(st->cV->v[k], st->cP->v[k]); }
	return st;
}
inline Instance *pubrot_instance(World &W, int var, std::shared_ptr<RStmt> st, size_t r) {
	if (var == 1) W.need_edcf();
	Instance *I = new Instance; I->proto = std::string("hoogh/pubrotzk-") + (var == 0 ? "interactive" : var == 1 ? "publiccoin" : "noninteractive"); I->interactive = var != 2; I->n = st->n; set_moduli(*I, W); I->keep.push_back(st);
	auto P = std::shared_ptr<HooghSchoenmakersSkoricVillegasPUBROTZK>(new HooghSchoenmakersSkoricVillegasPUBROTZK(W.vP->p, W.vP->q, W.vP->g, W.vP->h));
	auto V = std::shared_ptr<HooghSchoenmakersSkoricVillegasPUBROTZK>(new HooghSchoenmakersSkoricVillegasPUBROTZK(W.vV->p, W.vV->q, W.vV->g, W.vV->h));
	I->keep.push_back(P); I->keep.push_back(V); World *w = &W;
	I->prove = [w, P, st, r, var](std::istream &in, std::ostream &out) { if (var == 0) P->Prove_interactive(r, st->s->v, st->alpha->v, st->cP->v, in, out); else if (var == 1) P->Prove_interactive_publiccoin(r, st->s->v, st->alpha->v, st->cP->v, w->eP, in, out); else P->Prove_noninteractive(r, st->s->v, st->alpha->v, st->cP->v, out); };
	I->verify = [w, V, st, var](std::istream &in, std::ostream &out) { if (var == 0) return V->Verify_interactive(st->alpha->v, st->cV->v, in, out); if (var == 1) return V->Verify_interactive_publiccoin(st->alpha->v, st->cV->v, w->eV, in, out); return V->Verify_noninteractive(st->alpha->v, st->cV->v, in); };
	return I;
}

} // namespace c04
