// w_c04.cc — C04 soundness.
//  (a) false statements derived from true ones (substituted / duplicated / dropped / re-typed / non-member
//      card, non-cyclic permutation presented as a rotation, type-changing mask, decryption share under
//      another key, shifted key share) presented to every verifier by (i) the library prover run on the
//      false statement with the non-fitting witness ("both": prover and verifier see the false statement),
//      (ii) the honest prover of the original statement / a recorded honest transcript ("vonly": only the
//      verifier sees the false statement).  Oracle: verdict false or std::exception.  For cut-and-choose
//      proofs strategy (i)/(ii) is a guessing prover prepared for the string 1^k / 0^k: accepted <=> the
//      challenge string observed on the wire equals that string (verifier coins are scripted to steer).
//  (b) guessing provers (harness code) against the cut-and-choose verifiers with scripted verifier
//      coins: verdict true <=> guess string == observed challenge string.
// Every derived statement is checked to be REALLY false with the secrets the harness holds.
#include "c04_guess.hh"
using namespace c04;

struct WorldSpec { const PSet *ps; int vkind; const char *tag; };
static std::vector<WorldSpec> g_worlds;
static std::map<int, World *> g_wcache;
static World &world(size_t wi) { World *&W = g_wcache[(int)wi]; if (!W) W = new World(*g_worlds[wi].ps, g_worlds[wi].vkind, ctx.seed); return *W; }
static bool quick;
static long g_case = 0;
// development aid: --opt match=<substring> runs only the cases whose description contains it (numbering unchanged)
static bool skip_by_match(const std::string &desc) { static std::string m = ctx.option("match"); return !m.empty() && desc.find(m) == std::string::npos; }

static std::vector<size_t> positions(size_t n, Rng &rg, size_t maxall) { std::vector<size_t> p; if (n <= maxall) { for (size_t i = 0; i < n; i++) p.push_back(i); } else { p.push_back(rg.below(n)); size_t b; do b = rg.below(n); while (b == p[0]); p.push_back(b); } return p; }
static std::vector<int> rand_bits(Rng &rg, size_t n) { std::vector<int> b(n); for (auto &x : b) x = rg.coin(); return b; }
// coins for a cut-and-choose false-statement run: mostly a string the strategy is NOT prepared for
static std::vector<int> fs_coins(Rng &rg, size_t rounds, Prepared P, bool want_prepared) {
	if (P == P_NONE) return std::vector<int>(rounds, want_prepared ? 1 : 0);
	std::vector<int> want(rounds, P == P_ALL1 ? 1 : 0); if (want_prepared) return want;
	std::vector<int> b = rand_bits(rg, rounds); if (b == want) b[rg.below(rounds)] ^= 1; return b;
}
static void control_failed(const std::string &proto, const RunResult &R, const std::string &what) {
	count("control_rejected");
	violation("C04/harness/control-rejected/" + proto, "HARNESS ERROR (or completeness failure): the honest control run of the true statement was rejected: " + what, J().kv("proto", proto).kv("exc", R.exc).arr("transcript_tail", transcript_tail(R)).str());
}

// ============================================================ (a) dlog stack family
static void fs_dstack(size_t wi, const std::string &proto, const std::string &kind) {
	std::string desc = std::string(g_worlds[wi].tag) + " fs " + proto + " " + kind;
	long k = g_case++; if (skip_by_match(desc) || !case_begin(k, desc)) return;
	World &W = world(wi); Rng rg = case_rng(k, 4); tl_rng = &rg; Dec dec(W); Acc acc;
	bool cc = is_cc(proto), rot = is_rotation_proto(proto), direct_vrhe = proto.find("hoogh/vrhe-") == 0;
	SchindelhauerTMCG tm(8, 2, 6);
	uint64_t runidx = 0; auto nextsb = [&]() { return (uint64_t)k * 100003 + (++runidx); };
	auto truth = [&](const DStmt &st) { return rot ? dec.is_rotation(st.s, st.s2V) : dec.is_shuffle(st.s, st.s2V); };
	auto run_one = [&](std::shared_ptr<DStmt> st, FsCase c, Prepared P, long r_override, bool want_prepared) {
		unsigned long kappa = cc ? (quick ? 2 + rg.below(2) : 2 + rg.below(4)) : 0;
		std::unique_ptr<Instance> I(dstack_instance(W, proto, st, kappa, r_override));
		c.world = g_worlds[wi].tag; c.proto = proto; c.variant = I->variant; c.n = st->n; c.kappa = kappa; c.sa = ctx.seed; c.sb = nextsb();
		if (cc) {
			std::vector<int> coins = fs_coins(rg, kappa, P, want_prepared); RunOpt o; o.cfgV = script_coins(coins);
			RunResult R = run(*I, c.sa, c.sb, o); auto vl = written(R, 1);
			judge_fs_cc(acc, c, R, P, observed_bits(vl, 1, kappa), kappa, coins, stmt_json(*st));
		} else {
			RunResult R = run(*I, c.sa, c.sb);
			if (c.kind == "nonmember" && !is_tmcg_level(proto)) {   // recorded, not judged: the argument classes called directly leave the membership of e, E to the caller
				count("obs/nonmember-direct/" + proto + "/" + c.strategy + (R.ok ? "/accepted" : "/refused")); acc.note(c.tuple(), c.json().kv("verifier_verdict", R.ok).kv("judged", false).str()); acc.judged++;
			} else judge_fs(acc, c, R, stmt_json(*st));
		}
	};
	if (kind == "noncyclic") {
		std::vector<size_t> ns = quick ? std::vector<size_t>{3, 4} : std::vector<size_t>{3, 4, 5, 6};
		for (size_t n : ns) {
			std::vector<std::vector<size_t>> perms; all_noncyclic_or_sample(n, rg, quick ? (cc ? 5 : (direct_vrhe ? 4 : 6)) : (cc ? 12 : 24), &perms);
			if (n == ns.back()) { size_t m = quick ? 6 : 8; for (size_t t = 0; t < (cc ? 7u : (direct_vrhe ? 1u : 2u)); t++) perms.push_back(near_rotation(m, rg)); }   // near-rotations of a larger stack
			for (auto &pi_ : perms) { const std::vector<size_t> &pi = pi_; size_t n = pi.size();
				auto st = make_dstmt(W, tm, rg, n, pi, false);
				if (truth(*st)) { count("skipped_true/noncyclic"); continue; }
				FsCase c; c.kind = kind; c.strategy = "both"; c.detail = "pi=" + perm_str(pi);
				if (direct_vrhe) { for (size_t r = 0; r < n; r++) { FsCase c2 = c; c2.pos = (long)r; c2.detail += " r=" + std::to_string(r); run_one(st, c2, P_ALL1, (long)r, false); } }
				else run_one(st, c, P_ALL1, -1, cc && rg.below(5) == 0);
			}
		}
	} else {
		std::vector<size_t> ns = quick ? std::vector<size_t>{2, 3} : std::vector<size_t>{2, 3, 4, 5, 8};
		if (quick && wi > 0) ns = {3};                                   // second world of the quick tier: one size
		if (quick && wi == 0 && !cc && kind == "retype") ns.push_back(5);
		for (size_t n : ns) {
			std::vector<size_t> pi = rot ? rotation(n, rg.below(n)) : rand_perm(rg, n);
			auto st0 = make_dstmt(W, tm, rg, n, pi, n >= 4 && rg.coin());
			if (n == ns[0]) {   // control: the machinery accepts the true statement
				std::unique_ptr<Instance> I(dstack_instance(W, proto, st0, 2)); RunResult R = run(*I, ctx.seed, nextsb()); count("control_runs"); count("control/" + proto);
				if (!R.ok) control_failed(proto, R, "n=" + std::to_string(n));   // flagged; the false statements are presented nevertheless
			}
			for (size_t pos : positions(n, rg, quick ? 3 : 8)) {
				std::vector<std::string> strategies = {"both", "vonly"}; if (kind == "drop") strategies = {"vonly"};
				for (auto &strat : strategies) for (size_t aux = 0; aux < (quick ? 1u : 2u); aux++) {
					size_t a = quick ? (pos + n + (strat == "both")) : aux;
					auto st = std::make_shared<DStmt>(*st0);
					Rng ar(ctx.seed, (uint64_t)k * 977 + pos * 31 + a, 11); Rng *old = tl_rng; tl_rng = &ar;
					std::string detail = alter_dstack(W, tm, *st, st->s2V, kind, pos, a, ar); tl_rng = old;
					if (detail.empty()) continue;
					if (strat == "both") st->s2P = st->s2V;
					if (truth(*st)) { count("skipped_true/" + kind); continue; }
					FsCase c; c.kind = kind; c.strategy = strat; c.pos = (long)pos; c.detail = detail;
					Prepared P = (kind == "drop" || kind == "nonmember") ? P_NONE : (strat == "both" ? P_ALL1 : P_ALL0);
					// drop / non-member: script the string a verifier without the size / membership check would accept
					bool wantp = (P == P_NONE) ? (strat == "both") : (cc && rg.below(5) == 0);
					run_one(st, c, P, -1, wantp);
				}
			}
		}
	}
	tl_rng = nullptr;
	case_end(desc, acc.judged > 0, acc.sample, acc.runs, (long long)acc.distinct.size());
}

// type of a QR-encoded card as the library itself opens it (both players contribute their secret bits)
static size_t lib_open_type(World &W, SchindelhauerTMCG &tm, const TMCG_Card &c) { TMCG_CardSecret cs(c.z.size(), c.z[0].size()); tm.TMCG_SelfCardSecret(c, cs, *W.skA, 0); tm.TMCG_SelfCardSecret(c, cs, *W.skB, 1); return tm.TMCG_TypeOfCard(cs); }
static std::string qstmt_json(World &W, SchindelhauerTMCG &tm, const QStmt &st) {
	std::vector<size_t> a, b; for (size_t i = 0; i < st.s.size(); i++) a.push_back(lib_open_type(W, tm, st.s[i])); for (size_t i = 0; i < st.s2V.size(); i++) b.push_back(lib_open_type(W, tm, st.s2V[i]));
	return J().kv("s", stack_text(st.s)).kv("s2_prover_view", stack_text(st.s2P)).kv("s2_verifier_view", stack_text(st.s2V)).kv("witness_pi", perm_str(st.pi)).arrn("types_of_s_opened_by_library", a).arrn("types_of_s2_opened_by_library", b).str();
}

// ============================================================ (a) QR stack family
static void fs_qstack(bool cyclic, const std::string &kind) {
	std::string proto = cyclic ? "tmcg/stackeq-qr-cyclic" : "tmcg/stackeq-qr";
	std::string desc = std::string(g_worlds[0].tag) + " fs " + proto + " " + kind;
	long k = g_case++; if (skip_by_match(desc) || !case_begin(k, desc)) return;
	World &W = world(0); W.need_rabin(); Rng rg = case_rng(k, 4); tl_rng = &rg; QRO qro(W); Acc acc;
	SchindelhauerTMCG tm(8, 2, W.qr_w);
	uint64_t runidx = 0; auto nextsb = [&]() { return (uint64_t)k * 100003 + (++runidx); };
	auto truth = [&](const QStmt &st) { return cyclic ? qro.is_rotation(st.s, st.s2V) : qro.is_shuffle(st.s, st.s2V); };
	auto run_one = [&](std::shared_ptr<QStmt> st, FsCase c, Prepared P, bool want_prepared) {
		unsigned long kappa = quick ? 2 + rg.below(2) : 2 + rg.below(4);
		std::unique_ptr<Instance> I(qstack_instance(W, cyclic, st, kappa));
		c.world = g_worlds[0].tag; c.proto = proto; c.variant = I->variant; c.n = st->n; c.kappa = kappa; c.sa = ctx.seed; c.sb = nextsb();
		std::vector<int> coins = fs_coins(rg, kappa, P, want_prepared); RunOpt o; o.cfgV = script_coins(coins);
		RunResult R = run(*I, c.sa, c.sb, o); auto vl = written(R, 1);
		judge_fs_cc(acc, c, R, P, observed_bits(vl, 1, kappa), kappa, coins, qstmt_json(W, tm, *st));
	};
	if (kind == "noncyclic") {
		for (size_t n : (quick ? std::vector<size_t>{3, 4} : std::vector<size_t>{3, 4, 5})) {
			std::vector<std::vector<size_t>> perms; all_noncyclic_or_sample(n, rg, quick ? 4 : 12, &perms);
			if (n == 4) for (size_t t = 0; t < 8; t++) perms.push_back(near_rotation(quick ? 6 : 8, rg));   // near-rotations of a larger stack
			for (auto &pi_ : perms) { const std::vector<size_t> &pi = pi_; size_t n = pi.size();
				auto st = make_qstmt(W, tm, rg, n, pi, false);
				if (truth(*st)) { count("skipped_true/noncyclic"); continue; }
				FsCase c; c.kind = kind; c.strategy = "both"; c.detail = "pi=" + perm_str(pi); run_one(st, c, P_ALL1, rg.below(5) == 0);
			}
		}
	} else {
		for (size_t n : (quick ? std::vector<size_t>{2, 3} : std::vector<size_t>{2, 3, 4, 5})) {
			std::vector<size_t> pi = cyclic ? rotation(n, rg.below(n)) : rand_perm(rg, n);
			auto st0 = make_qstmt(W, tm, rg, n, pi, n >= 4 && rg.coin());
			if (n == 2) { std::unique_ptr<Instance> I(qstack_instance(W, cyclic, st0, 2)); RunResult R = run(*I, ctx.seed, nextsb()); count("control_runs"); count("control/" + proto); if (!R.ok) control_failed(proto, R, "n=2"); }
			for (size_t pos : positions(n, rg, quick ? 3 : 5)) {
				std::vector<std::string> strategies = {"both", "vonly"}; if (kind == "drop") strategies = {"vonly"}; if (kind == "maskflip") strategies = {"fitting-witness"};
				// maskflip: aux = flip pattern (0 one bit, 1 two type bits of one player [even Hamming distance], 2 one bit at each of two players
				// at different type bits, 3.. random non-empty bit sets); patterns whose flips cancel leave a true statement and are skipped below
				for (auto &strat : strategies) for (size_t aux = 0; aux < (kind == "maskflip" ? (quick ? 3u : 8u) : (quick ? 1u : 2u)); aux++) {
					size_t a = quick ? (pos * 3 + n + (strat == "both")) : aux * 3 + pos;
					auto st = std::make_shared<QStmt>(*st0);
					Rng ar(ctx.seed, (uint64_t)k * 977 + pos * 31 + a, 11); Rng *old = tl_rng; tl_rng = &ar;
					std::string detail; Prepared P;
					if (kind == "maskflip") {
						// the witness itself is altered: one mask bit of the card secret applied to input card `pos` flipped, output stack
						// recomputed from it: a consistent "shuffle" by a mask that changes the type of one card
						size_t kk = a % 2, ww = (a / 2) % W.qr_w;
						std::vector<std::pair<size_t, size_t>> flips;
						if (aux == 0) flips = {{kk, ww}};
						else if (aux == 1) flips = {{kk, ww}, {kk, (ww + 1) % W.qr_w}};
						else if (aux == 2) flips = {{0, ww}, {1, (ww + 1 + ar.below(W.qr_w - 1)) % W.qr_w}};
						else { for (size_t k2 = 0; k2 < 2; k2++) for (size_t w2 = 0; w2 < W.qr_w; w2++) if (ar.coin()) flips.push_back({k2, w2}); if (flips.empty()) flips = {{kk, ww}}; }
						std::string fl;
						for (auto &f : flips) { mpz_ptr b = &st->ss[pos].second.b[f.first][f.second]; mpz_set_ui(b, (mpz_get_ui(b) & 1UL) ^ 1UL); fl += " b[" + std::to_string(f.first) + "][" + std::to_string(f.second) + "]"; }
						count("maskflip_bits/" + std::to_string(flips.size()));
						tm.TMCG_MixStack(st->s, st->s2P, st->ss, *W.ring); st->same_view();
						detail = "witness: mask bit(s)" + fl + " of the card secret for input card " + std::to_string(pos) + " flipped (type-changing mask), s2 = MixStack(s, witness)"; P = P_ALL1;   // a verifier that checks the revealed secrets can be passed with fresh (type-preserving) re-mix secrets only, i.e. for 1^k
					} else {
						detail = alter_qstack(W, tm, *st, st->s2V, kind, pos, a, ar);
						if (strat == "both") st->s2P = st->s2V;
						P = kind == "drop" ? P_NONE : (strat == "both" ? P_ALL1 : P_ALL0);
					}
					tl_rng = old;
					if (detail.empty()) continue;
					if (truth(*st)) { count("skipped_true/" + kind); continue; }
					FsCase c; c.kind = kind; c.strategy = strat; c.pos = (long)pos; c.detail = detail;
					run_one(st, c, P, P == P_NONE ? rg.coin() : rg.below(5) == 0);
				}
			}
		}
	}
	tl_rng = nullptr;
	case_end(desc, acc.judged > 0, acc.sample, acc.runs, (long long)acc.distinct.size());
}

// ============================================================ (a) PUB-ROT-ZK
static void fs_pubrot(size_t wi, int var, const std::string &kind) {
	std::string proto = std::string("hoogh/pubrotzk-") + (var == 0 ? "interactive" : var == 1 ? "publiccoin" : "noninteractive");
	std::string desc = std::string(g_worlds[wi].tag) + " fs " + proto + " " + kind;
	long k = g_case++; if (skip_by_match(desc) || !case_begin(k, desc)) return;
	World &W = world(wi); Rng rg = case_rng(k, 4); tl_rng = &rg; Acc acc;
	uint64_t runidx = 0; auto nextsb = [&]() { return (uint64_t)k * 100003 + (++runidx); };
	auto rstmt_json = [](const RStmt &st) { std::vector<std::string> a, c; for (size_t i = 0; i < st.n; i++) { a.push_back(mpz_dec(st.alpha->v[i])); c.push_back(mpz_dec(st.cV->v[i])); } return J().arr("alpha", a).arr("c_verifier_view", c).kv("committed_index_per_position", perm_str(st.pi)).str(); };
	if (kind == "noncyclic") {
		for (size_t n : (quick ? std::vector<size_t>{3, 4} : std::vector<size_t>{3, 4, 5, 6})) {
			std::vector<std::vector<size_t>> perms; all_noncyclic_or_sample(n, rg, quick ? 4 : 20, &perms);
			for (auto &pi : perms) { auto st = make_rstmt(W, n, pi);
				for (size_t r = 0; r < n; r++) { std::unique_ptr<Instance> I(pubrot_instance(W, var, st, r)); FsCase c; c.world = g_worlds[wi].tag; c.proto = proto; c.kind = kind; c.strategy = "both"; c.n = n; c.pos = (long)r; c.detail = "pi=" + perm_str(pi) + " r=" + std::to_string(r); c.sa = ctx.seed; c.sb = nextsb();
					RunResult R = run(*I, c.sa, c.sb); judge_fs(acc, c, R, rstmt_json(*st)); } }
		}
	} else {   // subst: one commitment re-bound to alpha+1 (c_k * g)
		for (size_t n : (quick ? std::vector<size_t>{2, 3} : std::vector<size_t>{2, 3, 4, 8})) {
			size_t r0 = rg.below(n); auto st0 = make_rstmt(W, n, rotation(n, (n - r0) % n));
			if (n == 2) { std::unique_ptr<Instance> I(pubrot_instance(W, var, st0, r0)); RunResult R = run(*I, ctx.seed, nextsb()); count("control_runs"); count("control/" + proto); if (!R.ok) control_failed(proto, R, "n=2"); }
			for (size_t pos : positions(n, rg, quick ? 3 : 8)) for (int both = 0; both < 2; both++) {
				auto st = std::make_shared<RStmt>(*st0); st->cP.reset(new ZV(n)); st->cV.reset(new ZV(n));
				for (size_t i = 0; i < n; i++) { mpz_set(st->cP->v[i], st0->cP->v[i]); mpz_set(st->cV->v[i], st0->cV->v[i]); }
				mpz_mul(st->cV->v[pos], st->cV->v[pos], W.vP->g); mpz_mod(st->cV->v[pos], st->cV->v[pos], W.vP->p); if (both) mpz_set(st->cP->v[pos], st->cV->v[pos]);
				std::unique_ptr<Instance> I(pubrot_instance(W, var, st, r0)); FsCase c; c.world = g_worlds[wi].tag; c.proto = proto; c.kind = kind; c.strategy = both ? "both" : "vonly"; c.n = n; c.pos = (long)pos; c.detail = "c[pos] multiplied by g (commits to alpha+1)"; c.sa = ctx.seed; c.sb = nextsb();
				RunResult R = run(*I, c.sa, c.sb); judge_fs(acc, c, R, rstmt_json(*st));
			}
		}
	}
	tl_rng = nullptr;
	case_end(desc, acc.judged > 0, acc.sample, acc.runs, (long long)acc.distinct.size());
}

// ============================================================ (a) scalar protocols of the registry (statement handles `pub`)
static Factory *find_factory(const std::string &name) { for (auto &f : registry()) if (f.name == name) return &f; return nullptr; }
static mpz_ptr pubv(Instance &I, const std::string &nm) { for (auto &p : I.pub) if (p.name == nm) return p.v; throw std::logic_error("C04 harness: pub handle not found: " + nm); }
struct Alter { std::string kind, handle, how; };   // how: mulg<d> | mulh | mulgg | mulhh | neg | add1

static void apply_alter(World &W, Instance &I, const Alter &a, Rng &rg) {
	mpz_ptr v = pubv(I, a.handle); mpz_srcptr p = I.p;
	MZ f;
	if (a.how == "mulg1") mpz_set(f, W.vP->g);
	else if (a.how == "mulgT") { W.vP->IndexElement(f, 2 + rg.below(62)); }
	else if (a.how == "mulgR") { MZ e; rg.mpz_below(e, W.vP->q); if (mpz_cmp_ui(e.v, 2) < 0) mpz_set_ui(e, 2); mpz_powm(f, W.vP->g, e, p); }
	else if (a.how == "mulh") mpz_set(f, W.vP->h);
	else if (a.how == "mulgg") mpz_set(f, pubv(I, "gg"));
	else if (a.how == "mulhh") mpz_set(f, pubv(I, "hh"));
	else if (a.how == "neg") { mpz_sub(v, p, v); return; }
	else if (a.how == "add1") { mpz_add_ui(v, v, 1); mpz_mod(v, v, I.q); return; }
	else throw std::logic_error("C04 harness: unknown alteration " + a.how);
	mpz_mul(v, v, f); mpz_mod(v, v, p);
}
static std::string pubs_json(Instance &I) { J j; for (auto &p : I.pub) j.kz(p.name.c_str(), p.v); return j.str(); }

static void fs_scalar(size_t wi, const std::string &proto, const std::string &kind, const std::vector<Alter> &alts, bool with_both, bool with_replay) {
	std::string desc = std::string(g_worlds[wi].tag) + " fs " + proto + " " + kind;
	long k = g_case++; if (skip_by_match(desc) || !case_begin(k, desc)) return;
	World &W = world(wi); Rng rg = case_rng(k, 4); tl_rng = &rg; Acc acc; Dec dec(W);
	Factory *f = find_factory(proto); if (!f) throw std::logic_error("C04 harness: no factory " + proto);
	uint64_t runidx = 0; auto nextsb = [&]() { return (uint64_t)k * 100003 + (++runidx); };
	long reps = quick ? 2 : 5;
	std::vector<size_t> ns = f->sized ? (quick ? std::vector<size_t>{2, 3} : std::vector<size_t>{2, 3, 4, 8}) : std::vector<size_t>{0};
	for (size_t n : ns) for (long rep = 0; rep < reps; rep++) {
		std::unique_ptr<Instance> I(f->make(W, rg, n));
		uint64_t sb0 = nextsb();
		RunResult R0 = run(*I, ctx.seed, sb0); count("control_runs"); count("control/" + proto);
		if (!R0.ok) control_failed(proto, R0, "registry instance");
		for (auto a : alts) {
			std::vector<std::string> handles; if (a.handle == "m[*]") { for (size_t i = 0; i < n; i++) handles.push_back("m[" + std::to_string(i) + "]"); } else handles.push_back(a.handle);
			for (size_t hi = 0; hi < handles.size(); hi++) {
				Alter a1 = a; a1.handle = handles[hi];
				mpz_ptr v = pubv(*I, a1.handle); MZ saved; mpz_set(saved, v);
				apply_alter(W, *I, a1, rg);
				if (!mpz_cmp(saved, v)) { count("skipped_true/" + kind); continue; }   // statement unchanged
				// the relation proved pins the altered value uniquely given the other public inputs (prime-order group), so a changed value = false statement;
				// for the masking family this is double-checked by decryption
				if (kind == "typechange" && proto == "vtmf/mask" && dec.plain(pubv(*I, "c_1"), pubv(*I, "c_2")) == mpz_dec(pubv(*I, "m"))) throw std::logic_error("C04 harness: altered masking still decrypts to m");
				if (kind == "typechange" && proto == "vtmf/remask" && dec.plain(pubv(*I, "c_1"), pubv(*I, "c_2")) == dec.plain(pubv(*I, "c'_1"), pubv(*I, "c'_2"))) throw std::logic_error("C04 harness: altered re-masking still decrypts equally");
				if (kind == "typechange" && proto == "tmcg/maskcard-vtmf" && dec.plain(pubv(*I, "c.c_1"), pubv(*I, "c.c_2")) == dec.plain(pubv(*I, "cc.c_1"), pubv(*I, "cc.c_2"))) throw std::logic_error("C04 harness: altered card mask still decrypts equally");
				FsCase c; c.world = g_worlds[wi].tag; c.proto = proto; c.variant = I->variant; c.kind = kind; c.n = n; c.pos = a.handle == "m[*]" ? (long)hi : -1; c.detail = a1.handle + ":" + a1.how + " rep=" + std::to_string(rep); c.sa = ctx.seed;
				if (with_both) { c.strategy = "both"; c.sb = nextsb(); RunResult R = run(*I, c.sa, c.sb); judge_fs(acc, c, R, pubs_json(*I)); }
				if (with_replay) {   // recorded honest transcript of the original statement, same seeds => same verifier coins
					c.strategy = "vonly"; c.sb = sb0; ProveFn keep = I->prove; I->prove = replayer(R0.log); RunResult R = run(*I, c.sa, c.sb); I->prove = keep; judge_fs(acc, c, R, pubs_json(*I));
				}
				mpz_set(v, saved);
			}
		}
	}
	tl_rng = nullptr;
	case_end(desc, acc.judged > 0, acc.sample, acc.runs, (long long)acc.distinct.size());
}

// key share h' = g^x * g^d with the proof for g^x (non-interactive variant: own prover object)
static void fs_key_nizk(size_t wi) {
	std::string proto = "vtmf/key-nizk", kind = "keyshift", desc = std::string(g_worlds[wi].tag) + " fs " + proto + " " + kind;
	long k = g_case++; if (skip_by_match(desc) || !case_begin(k, desc)) return;
	World &W = world(wi); Rng rg = case_rng(k, 4); tl_rng = &rg; Acc acc;
	uint64_t runidx = 0; auto nextsb = [&]() { return (uint64_t)k * 100003 + (++runidx); };
	std::unique_ptr<Instance> I(find_factory(proto)->make(W, rg, 0));
	RunResult R0 = run(*I, ctx.seed, nextsb()); count("control_runs"); count("control/" + proto);
	if (!R0.ok) control_failed(proto, R0, "registry instance");
	for (long rep = 0; rep < (quick ? 4 : 12); rep++) {
		MZ f, hp, e; if (rep == 0) mpz_set(f, W.vP->g); else { rg.mpz_below(e, W.vP->q); if (mpz_cmp_ui(e.v, 2) < 0) mpz_set_ui(e, 2); mpz_powm(f, W.vP->g, e, W.vP->p); }
		mpz_mul(hp, W.vP->h_i, f); mpz_mod(hp, hp, W.vP->p);
		FsCase c; c.world = g_worlds[wi].tag; c.proto = proto; c.kind = kind; c.detail = rep == 0 ? "h' = h_i*g" : "h' = h_i*g^e, e random"; c.sa = ctx.seed;
		std::string stj = J().kz("h_i", W.vP->h_i).kz("h_prime", hp).str();
		{   // proof for g^x, share line replaced
			c.strategy = "vonly"; c.sb = nextsb(); std::string hline = mpz_b62(hp); RunOpt o; o.relayP = [hline](size_t idx, const std::string &l) { return std::vector<std::string>{idx == 0 ? hline : l}; };
			RunResult R = run(*I, c.sa, c.sb, o); judge_fs(acc, c, R, stj); }
		{   // library prover whose public share is h' but whose secret is still x
			c.strategy = "both"; c.sb = nextsb(); std::shared_ptr<BarnettSmartVTMF_dlog> P2(clone_vtmf(W, W.vP)); mpz_set(P2->h_i, hp);
			ProveFn keep = I->prove; I->prove = [P2](std::istream &, std::ostream &out) { P2->KeyGenerationProtocol_PublishKey(out); }; RunResult R = run(*I, c.sa, c.sb); I->prove = keep; judge_fs(acc, c, R, stj); }
	}
	tl_rng = nullptr;
	case_end(desc, acc.judged > 0, acc.sample, acc.runs, (long long)acc.distinct.size());
}

// decryption share computed with another key x' != x_j
static void fs_otherkey(size_t wi, const std::string &proto) {
	std::string kind = "otherkey", desc = std::string(g_worlds[wi].tag) + " fs " + proto + " " + kind;
	long k = g_case++; if (skip_by_match(desc) || !case_begin(k, desc)) return;
	World &W = world(wi); Rng rg = case_rng(k, 4); tl_rng = &rg; Acc acc;
	uint64_t runidx = 0; auto nextsb = [&]() { return (uint64_t)k * 100003 + (++runidx); };
	bool tmcg = proto.find("tmcg/") == 0; std::string h1 = tmcg ? "c.c_1" : "c_1";
	auto tm = PR_TM(8, 2, 6);
	for (long rep = 0; rep < (quick ? 3 : 8); rep++) {
		std::unique_ptr<Instance> I(find_factory(proto)->make(W, rg, 0));
		RunResult R0 = run(*I, ctx.seed, nextsb()); count("control_runs"); count("control/" + proto);
		if (!R0.ok) control_failed(proto, R0, "registry instance");
		mpz_ptr c1 = pubv(*I, h1);
		MZ xo, d_true, d_false; rg.mpz_below(xo, W.vP->q); if (!mpz_cmp(xo, W.vP->x_i)) mpz_add_ui(xo, xo, 1);
		mpz_powm(d_true, c1, W.vP->x_i, W.vP->p); mpz_powm(d_false, c1, xo, W.vP->p);
		if (!mpz_cmp(d_true, d_false)) { count("skipped_true/otherkey"); continue; }
		std::string stj = J().kz("c_1", c1).kz("share_with_x_j", d_true).kz("share_with_other_key", d_false).str();
		FsCase c; c.world = g_worlds[wi].tag; c.proto = proto; c.kind = kind; c.sa = ctx.seed;
		auto card = std::make_shared<VTMF_Card>(); mpz_set(card->c_1, c1); mpz_set_ui(card->c_2, 1);
		auto prover_of = [&](std::shared_ptr<BarnettSmartVTMF_dlog> P2) -> ProveFn { if (tmcg) return [P2, tm, card](std::istream &in, std::ostream &out) { tm->TMCG_ProveCardSecret(*card, P2.get(), in, out); }; return [P2, card](std::istream &, std::ostream &out) { P2->VerifiableDecryptionProtocol_Prove(card->c_1, out); }; };
		ProveFn keep = I->prove;
		{   // honest proof, share line replaced by c_1^x'
			c.strategy = "vonly"; c.detail = "share line replaced by c_1^x'"; c.sb = nextsb(); std::string dl = mpz_b62(d_false); RunOpt o; o.relayP = [dl](size_t idx, const std::string &l) { return std::vector<std::string>{idx == 0 ? dl : l}; };
			RunResult R = run(*I, c.sa, c.sb, o); judge_fs(acc, c, R, stj); }
		{   // library prover holding x' but presenting P's public key share / fingerprint
			c.strategy = "both"; c.detail = "library prover with secret x', public key share and fingerprint of the real player"; c.sb = nextsb();
			std::shared_ptr<BarnettSmartVTMF_dlog> P2(clone_vtmf(W, W.vP)); mpz_set(P2->x_i, xo); I->prove = prover_of(P2); RunResult R = run(*I, c.sa, c.sb); judge_fs(acc, c, R, stj); }
		{   // library prover with its own key pair (x', g^x'): the verifier does not know this key
			c.strategy = "both-foreign-identity"; c.detail = "library prover with its own key pair (x', g^x')"; c.sb = nextsb();
			std::shared_ptr<BarnettSmartVTMF_dlog> P2(W.fresh_vtmf()); { Rng *old = tl_rng; Rng kr(ctx.seed, (uint64_t)k * 31 + rep, 5); tl_rng = &kr; P2->KeyGenerationProtocol_GenerateKey(); tl_rng = old; }
			I->prove = prover_of(P2); RunResult R = run(*I, c.sa, c.sb); judge_fs(acc, c, R, stj); }
		I->prove = keep;
		{   // honest share of the ORIGINAL card presented for another card (verifier sees c_1*g)
			c.strategy = "vonly-othercard"; c.detail = "recorded honest proof for c_1 presented for c_1*g"; MZ saved; mpz_set(saved, c1); mpz_mul(c1, c1, W.vP->g); mpz_mod(c1, c1, W.vP->p);
			c.sb = nextsb(); I->prove = replayer(R0.log); RunResult R = run(*I, c.sa, c.sb); I->prove = keep; mpz_set(c1, saved); judge_fs(acc, c, R, stj); }
	}
	tl_rng = nullptr;
	case_end(desc, acc.judged > 0, acc.sample, acc.runs, (long long)acc.distinct.size());
}

// ============================================================ (a) QR encoding, card level
struct QMask { TMCG_Card c, ccP, ccV; TMCG_CardSecret cs; QMask(size_t w) : c(2, w), ccP(2, w), ccV(2, w), cs(2, w) {} };
static Instance *qmask_instance(World &W, std::shared_ptr<QMask> st, unsigned long kappa) {
	Instance *I = new Instance; I->proto = "tmcg/maskcard-qr"; I->family = "qr"; I->interactive = true; I->variant = "kappa=" + std::to_string(kappa); mpz_set(I->m, W.ring->keys[0].m); I->keep.push_back(st);
	size_t w_ = st->c.z[0].size(); auto tmP = PR_TM(kappa, 2, w_), tmV = PR_TM(kappa, 2, w_); I->keep.push_back(tmP); I->keep.push_back(tmV); World *w = &W;
	I->prove = [w, tmP, st](std::istream &in, std::ostream &out) { tmP->TMCG_ProveMaskCard(st->c, st->ccP, st->cs, *w->ring, in, out); };
	I->verify = [w, tmV, st](std::istream &in, std::ostream &out) { return tmV->TMCG_VerifyMaskCard(st->c, st->ccV, *w->ring, in, out); };
	return I;
}
static std::string card_text(const TMCG_Card &c) { std::ostringstream o; o << c; return o.str(); }
static void fs_qmask(const std::string &kind) {
	std::string proto = "tmcg/maskcard-qr", desc = std::string(g_worlds[0].tag) + " fs " + proto + " " + kind;
	long k = g_case++; if (skip_by_match(desc) || !case_begin(k, desc)) return;
	World &W = world(0); W.need_rabin(); Rng rg = case_rng(k, 4); tl_rng = &rg; QRO qro(W); Acc acc; size_t w_ = W.qr_w;
	SchindelhauerTMCG tm(8, 2, w_);
	uint64_t runidx = 0; auto nextsb = [&]() { return (uint64_t)k * 100003 + (++runidx); };
	for (long rep = 0; rep < (quick ? 2 : 4); rep++) {
		auto st0 = std::make_shared<QMask>(w_); size_t T = rg.below((size_t)1 << w_);
		if (rg.coin()) tm.TMCG_CreateOpenCard(st0->c, *W.ring, T); else { TMCG_CardSecret s0(2, w_); tm.TMCG_CreatePrivateCard(st0->c, s0, *W.ring, rg.below(2), T); }
		tm.TMCG_CreateCardSecret(st0->cs, *W.ring, 0); tm.TMCG_MaskCard(st0->c, st0->ccP, st0->cs, *W.ring); st0->ccV = st0->ccP;
		if (rep == 0) { std::unique_ptr<Instance> I(qmask_instance(W, st0, 2)); RunResult R = run(*I, ctx.seed, nextsb()); count("control_runs"); count("control/" + proto); if (!R.ok) control_failed(proto, R, ""); }
		for (size_t kk = 0; kk < 2; kk++) for (size_t ww = 0; ww < w_; ww++) {
			if (quick && ((kk * w_ + ww + rep) % 2)) continue;   // quick: every other component per repetition (all components over the repetitions)
			std::vector<std::string> strategies = {"both", "vonly"}; if (kind == "maskflip") strategies = {"fitting-witness"};
			for (auto &strat : strategies) {
				auto st = std::make_shared<QMask>(*st0); mpz_srcptr m = W.ring->keys[kk].m; std::string detail; Prepared P = strat == "both" ? P_ALL1 : P_ALL0;
				if (kind == "maskflip") { mpz_ptr b = &st->cs.b[kk][ww]; mpz_set_ui(b, (mpz_get_ui(b) & 1UL) ^ 1UL); tm.TMCG_MaskCard(st->c, st->ccP, st->cs, *W.ring); st->ccV = st->ccP; P = P_ALL1; detail = "witness: mask bit b flipped (mask changes the type), cc = MaskCard(c, witness)"; }
				else { mpz_ptr z = &st->ccV.z[kk][ww]; if (kind == "retype") { mpz_mul(z, z, W.ring->keys[kk].y); detail = "cc.z multiplied by y (type bit flipped)"; } else { MZ u; jacobi_minus_one(u, m, rg); mpz_mul(z, z, u); detail = "cc.z multiplied by an element of Jacobi symbol -1"; } mpz_mod(z, z, m); if (strat == "both") st->ccP = st->ccV; }
				// really false: the type of cc differs from the type of c (or cc is no card at all)
				if (qro.wellformed(st->ccV) && qro.type(st->ccV) == qro.type(st->c)) { count("skipped_true/" + kind); continue; }
				unsigned long kappa = 2 + rg.below(quick ? 2 : 4); size_t comp = kk * w_ + ww, ncomp = 2 * w_;
				std::vector<int> coins = rand_bits(rg, ncomp * kappa); std::vector<int> cc = fs_coins(rg, kappa, P, P == P_NONE ? rg.coin() : rg.below(5) == 0); for (size_t i = 0; i < kappa; i++) coins[comp * kappa + i] = cc[i];
				std::unique_ptr<Instance> I(qmask_instance(W, st, kappa)); RunOpt o; o.cfgV = script_coins(coins);
				FsCase c; c.world = g_worlds[0].tag; c.proto = proto; c.variant = I->variant; c.kind = kind; c.strategy = strat; c.pos = (long)comp; c.detail = "component z[" + std::to_string(kk) + "][" + std::to_string(ww) + "]: " + detail; c.kappa = kappa; c.sa = ctx.seed; c.sb = nextsb();
				RunResult R = run(*I, c.sa, c.sb, o); auto vl = written(R, 1);
				std::string stj = J().kv("c", card_text(st->c)).kv("cc_prover_view", card_text(st->ccP)).kv("cc_verifier_view", card_text(st->ccV)).kv("type_c", (long long)qro.type(st->c)).kv("type_cc", (long long)qro.type(st->ccV)).kv("type_c_opened_by_library", (long long)lib_open_type(W, tm, st->c)).kv("type_cc_opened_by_library", (long long)lib_open_type(W, tm, st->ccV)).str();
				judge_fs_cc(acc, c, R, P, observed_bits(vl, comp * (kappa + 1) + 1, kappa), kappa, cc, stj);
			}
		}
	}
	tl_rng = nullptr;
	case_end(desc, acc.judged > 0, acc.sample, acc.runs, (long long)acc.distinct.size());
}

struct QCS { TMCG_Card cP, cV; QCS(size_t w) : cP(2, w), cV(2, w) {} };
static Instance *qcs_instance(World &W, std::shared_ptr<QCS> st, unsigned long kappa, bool other_key) {
	Instance *I = new Instance; I->proto = "tmcg/cardsecret-qr"; I->family = "qr"; I->interactive = true; I->variant = "kappa=" + std::to_string(kappa); mpz_set(I->m, W.ring->keys[0].m); I->keep.push_back(st);
	size_t w_ = st->cP.z[0].size(); auto tmP = PR_TM(kappa, 2, w_), tmV = PR_TM(kappa, 2, w_); I->keep.push_back(tmP); I->keep.push_back(tmV); World *w = &W;
	I->prove = [w, tmP, st, other_key](std::istream &in, std::ostream &out) { tmP->TMCG_ProveCardSecret(st->cP, other_key ? *w->skB : *w->skA, 0, in, out); };
	I->verify = [w, tmV, st, w_](std::istream &in, std::ostream &out) { TMCG_CardSecret cs(2, w_); return tmV->TMCG_VerifyCardSecret(st->cV, cs, w->ring->keys[0], 0, in, out); };
	return I;
}
static void fs_qcardsecret(const std::string &kind) {
	std::string proto = "tmcg/cardsecret-qr", desc = std::string(g_worlds[0].tag) + " fs " + proto + " " + kind;
	long k = g_case++; if (skip_by_match(desc) || !case_begin(k, desc)) return;
	World &W = world(0); W.need_rabin(); Rng rg = case_rng(k, 4); tl_rng = &rg; QRO qro(W); Acc acc; size_t w_ = W.qr_w;
	SchindelhauerTMCG tm(8, 2, w_);
	uint64_t runidx = 0; auto nextsb = [&]() { return (uint64_t)k * 100003 + (++runidx); };
	long want = quick ? 6 : 20, tries = 0;
	for (long rep = 0; rep < want && tries < 4000; tries++) {
		auto st = std::make_shared<QCS>(w_); { TMCG_CardSecret s0(2, w_); tm.TMCG_CreatePrivateCard(st->cP, s0, *W.ring, 1, rg.below((size_t)1 << w_)); } st->cV = st->cP;
		if (rep == 0 && tries == 0) { std::unique_ptr<Instance> I(qcs_instance(W, st, 2, false)); RunResult R = run(*I, ctx.seed, nextsb()); count("control_runs"); count("control/" + proto); if (!R.ok) control_failed(proto, R, ""); }
		unsigned long kappa = 2 + rg.below(4); std::string detail; bool other = false;
		if (kind == "otherkey") {
			// the library prover asserts unless, under the OTHER player's key, every z is a residue or z*y^-1 is one: pick such cards
			bool ok = true; MZ bar; for (size_t ww = 0; ww < w_ && ok; ww++) { mpz_srcptr z = &st->cP.z[0][ww]; if (tmcg_mpz_qrmn_p(z, W.skB->p, W.skB->q)) continue; mpz_mul(bar, z, W.skB->y1); mpz_mod(bar, bar, W.skB->m); if (!tmcg_mpz_qrmn_p(bar, W.skB->p, W.skB->q)) ok = false; }
			if (!ok) { count("qcs_otherkey_card_skipped_prover_would_assert"); continue; }
			other = true; detail = "library prover with the other player's secret key";
		} else {
			size_t ww = rep % w_; mpz_ptr z = &st->cV.z[0][ww]; mpz_srcptr m = W.ring->keys[0].m;
			if (kind == "retype") { mpz_mul(z, z, W.ring->keys[0].y); detail = "verifier's card: z[0][" + std::to_string(ww) + "] multiplied by y (other secret bit)"; } else { MZ u; jacobi_minus_one(u, m, rg); mpz_mul(z, z, u); detail = "verifier's card: z[0][" + std::to_string(ww) + "] multiplied by an element of Jacobi symbol -1"; }
			mpz_mod(z, z, m);
		}
		rep++;
		std::unique_ptr<Instance> I(qcs_instance(W, st, kappa, other));
		FsCase c; c.world = g_worlds[0].tag; c.proto = proto; c.variant = I->variant; c.kind = kind; c.strategy = other ? "both" : "vonly"; c.pos = (long)(rep % w_); c.detail = detail; c.kappa = kappa; c.sa = ctx.seed; c.sb = nextsb();
		RunResult R = run(*I, c.sa, c.sb); judge_fs(acc, c, R, J().kv("card_prover_view", card_text(st->cP)).kv("card_verifier_view", card_text(st->cV)).str());
	}
	tl_rng = nullptr;
	case_end(desc, acc.judged > 0, acc.sample, acc.runs, (long long)acc.distinct.size());
}

// ============================================================ (b) guessing provers
struct GuessAcc { long long pairs = 0, acc_eq = 0, rej_neq = 0; std::set<std::string> observed_strings; std::string sample; };
static void judge_guess(GuessAcc &ga, const std::string &proto, const std::string &stmt, unsigned long kappa, const std::vector<int> &guess, const std::vector<int> &script, const std::string &observed, const RunResult &R, uint64_t sb, const std::string &stj) {
	std::string g = bits_str(guess); bool eq = observed == g;
	count("guess_pairs"); count("guess_pairs/" + proto + "/kappa=" + std::to_string(kappa)); ga.pairs++; ga.observed_strings.insert(observed);
	J w; w.kv("proto", proto).kv("statement", stmt).kv("kappa", (unsigned long long)kappa).kv("guess", g).kv("scripted_coins", bits_str(script)).kv("observed_challenges", observed).kv("verifier_verdict", R.ok).kv("seedA", (unsigned long long)ctx.seed).kv("seedB", (unsigned long long)sb);
	if (bits_str(script).compare(0, observed.size(), observed) != 0 || observed.size() > script.size()) { count("guess_coin_control_failed"); violation("C04/harness/coin-control/" + proto, "HARNESS ERROR: the challenge bits on the wire are not the scripted verifier coins", w.str()); }
	else count("guess_coin_control_ok");
	if (R.ok && eq) { count("guess_accepted_equal"); ga.acc_eq++; }
	else if (R.ok && !eq) { count("guess_accepted_unequal"); violation("C04/guess-accepted/" + proto, "guessing prover accepted although its guess differs from the observed challenge string", w.raw("false_statement", stj).arr("transcript_tail", transcript_tail(R)).str()); }
	else if (!R.ok && eq) { count("guess_rejected_equal"); violation("C04/harness/guess-rejected/" + proto, "HARNESS ERROR: guessing prover rejected although guess == observed challenge string", w.kv("exc", R.exc).arr("transcript_tail", transcript_tail(R)).str()); }
	else {
		count("guess_rejected_unequal"); ga.rej_neq++;
		size_t fm = 0; while (fm < g.size() && fm < observed.size() && g[fm] == observed[fm]) fm++;
		if (observed.size() == fm + 1) count("guess_rejected_at_first_mismatch");
		else if (observed.size() > fm + 1) count("guess_rejected_later_than_first_mismatch");
		else { count("guess_rejected_before_mismatch"); violation("C04/harness/guess-rejected-early/" + proto, "HARNESS ERROR: verifier stopped before the first round in which the guess is wrong", w.kv("exc", R.exc).arr("transcript_tail", transcript_tail(R)).str()); }
	}
	if (ga.sample.empty() || (R.ok && ga.sample.find("\"verifier_verdict\":true") == std::string::npos)) ga.sample = w.str();
}

// one (proto, statement kind, kappa): build the false statement once, then run the listed (guess, coins) pairs
static void guess_case(const std::string &proto, const std::string &stmt, unsigned long kappa, size_t n, const std::vector<std::pair<unsigned long long, unsigned long long>> &pairs_small, const std::vector<std::pair<std::vector<int>, std::vector<int>>> &pairs_big, const std::string &label, bool exhaustive_coins) {
	std::string desc = "guess " + proto + " " + stmt + " kappa=" + std::to_string(kappa) + " " + label;
	long k = g_case++; if (skip_by_match(desc) || !case_begin(k, desc)) return;
	World &W = world(0); Rng rg = case_rng(k, 4); tl_rng = &rg; GuessAcc ga;
	bool qr = proto.find("-qr") != std::string::npos; if (qr) W.need_rabin();
	uint64_t runidx = 0; auto nextsb = [&]() { return (uint64_t)k * 100003 + (++runidx); };
	std::vector<std::pair<std::vector<int>, std::vector<int>>> pairs = pairs_big; for (auto &p : pairs_small) pairs.push_back(std::make_pair(bits_of(p.first, kappa), bits_of(p.second, kappa)));
	bool cyclic = stmt == "noncyclic-as-rotation" || stmt == "unrelated-cyclic";
	std::function<ProveFn(const std::vector<int> &)> mkprover; VerifyFn verify; std::string stj; size_t first_line = 1;
	bool really_false = false; size_t pre_coins = 0;
	for (int attempt = 0; attempt < 20 && !really_false; attempt++) {
	if (attempt) count("guess_statement_retry");
	if (proto == "tmcg/stackeq-vtmf") {
		Dec dec(W); auto tm = PR_TM(kappa, 2, 6); auto tmV = PR_TM(kappa, 2, 6);
		std::shared_ptr<DStmt> st;
		if (stmt == "noncyclic-as-rotation") { std::vector<std::vector<size_t>> perms; all_noncyclic_or_sample(n, rg, 1000, &perms); st = make_dstmt(W, *tm, rg, n, perms[rg.below(perms.size())], false); really_false = !dec.is_rotation(st->s, st->s2V); }
		else { st = make_dstmt(W, *tm, rg, n, rand_perm(rg, n), false); DStack f; for (size_t i = 0; i < n; i++) { VTMF_Card c; VTMF_CardSecret cs; tm->TMCG_CreatePrivateCard(c, cs, W.vP, (st->types[i] + 1 + rg.below(3)) % 64); f.push(c); } st->s2P = f; st->same_view(); really_false = !dec.is_shuffle(st->s, st->s2V); }
		auto s = std::make_shared<DStack>(st->s), s2 = std::make_shared<DStack>(st->s2V); World *w = &W;
		mkprover = [=](const std::vector<int> &g) { return guess_stack_prover<DStack, DSecret>(s, s2, g, [=](DSecret &ss2) { tm->TMCG_CreateStackSecret(ss2, cyclic, n, w->vP); }, [=](const DStack &a, DStack &b, const DSecret &ss2) { tm->TMCG_MixStack(a, b, ss2, w->vP); }); };
		verify = [=](std::istream &in, std::ostream &out) { return tmV->TMCG_VerifyStackEquality(*s, *s2, cyclic, w->vV, in, out); };
		stj = stmt_json(*st);
	} else if (proto == "tmcg/stackeq-qr") {
		QRO qro(W); auto tm = PR_TM(kappa, 2, W.qr_w); auto tmV = PR_TM(kappa, 2, W.qr_w); size_t space = (size_t)1 << W.qr_w;
		std::shared_ptr<QStmt> st;
		if (stmt == "noncyclic-as-rotation") { std::vector<std::vector<size_t>> perms; all_noncyclic_or_sample(n, rg, 1000, &perms); st = make_qstmt(W, *tm, rg, n, perms[rg.below(perms.size())], false); really_false = !qro.is_rotation(st->s, st->s2V); }
		else { st = make_qstmt(W, *tm, rg, n, rand_perm(rg, n), false); QStack f; for (size_t i = 0; i < n; i++) { TMCG_Card c(2, W.qr_w); TMCG_CardSecret cs(2, W.qr_w); tm->TMCG_CreatePrivateCard(c, cs, *W.ring, rg.below(2), (st->types[i] + (i == 0 ? 1 + rg.below(space - 1) : 0)) % space); f.push(c); } st->s2P = f; st->same_view(); really_false = !qro.is_shuffle(st->s, st->s2V); }
		auto s = std::make_shared<QStack>(st->s), s2 = std::make_shared<QStack>(st->s2V); World *w = &W;
		mkprover = [=](const std::vector<int> &g) { return guess_stack_prover<QStack, QSecret>(s, s2, g, [=](QSecret &ss2) { tm->TMCG_CreateStackSecret(ss2, cyclic, *w->ring, 0, n); }, [=](const QStack &a, QStack &b, const QSecret &ss2) { tm->TMCG_MixStack(a, b, ss2, *w->ring); }); };
		verify = [=](std::istream &in, std::ostream &out) { return tmV->TMCG_VerifyStackEquality(*s, *s2, cyclic, *w->ring, in, out); };
		stj = stmt_json(*st);
	} else if (proto == "tmcg/maskcard-qr") {
		// w = 1, two players: components (0,0) honest, (1,0) false (or the other way round): cc.z = mask(z) * u, Jacobi(u) = -1 => no mask exists
		QRO qro(W); auto tm = PR_TM(kappa, 2, 1); auto tmV = PR_TM(kappa, 2, 1);
		auto c = std::make_shared<TMCG_Card>(2, 1), cc = std::make_shared<TMCG_Card>(2, 1); auto cs = std::make_shared<TMCG_CardSecret>(2, 1);
		tm->TMCG_CreateOpenCard(*c, *W.ring, rg.below(2)); tm->TMCG_CreateCardSecret(*cs, *W.ring, 0); tm->TMCG_MaskCard(*c, *cc, *cs, *W.ring);
		size_t bk = stmt == "component-1-jacobi" ? 1 : 0; { MZ u; jacobi_minus_one(u, W.ring->keys[bk].m, rg); mpz_mul(&cc->z[bk][0], &cc->z[bk][0], u); mpz_mod(&cc->z[bk][0], &cc->z[bk][0], W.ring->keys[bk].m); }
		really_false = !qro.wellformed(*cc);
		World *w = &W; MaskGuess G; G.c = c; G.cc = cc; G.cs = cs; G.bad_k = bk; G.bad_w = 0;
		mkprover = [=](const std::vector<int> &g) { MaskGuess G2 = G; G2.guess = g; return guess_maskcard_prover(*w, G2); };
		verify = [=](std::istream &in, std::ostream &out) { return tmV->TMCG_VerifyMaskCard(*c, *cc, *w->ring, in, out); };
		first_line = bk * (kappa + 1) + 1; pre_coins = bk * kappa;
		stj = J().kv("c", card_text(*c)).kv("cc", card_text(*cc)).kv("false_component_player", (long long)bk).str();
	} else if (proto == "tmcg/cardsecret-qr") {
		QRO qro(W); auto tm = PR_TM(kappa, 2, 1); auto tmV = PR_TM(kappa, 2, 1);
		auto c = std::make_shared<TMCG_Card>(2, 1); { TMCG_CardSecret s0(2, 1); tm->TMCG_CreatePrivateCard(*c, s0, *W.ring, 1, rg.below(2)); }
		bool isqr = tmcg_mpz_qrmn_p(&c->z[0][0], W.skA->p, W.skA->q); int claim = isqr ? 1 : 0;   // the wrong bit
		really_false = (mpz_jacobi(&c->z[0][0], W.skA->m) == 1);
		World *w = &W;
		mkprover = [=](const std::vector<int> &g) { return guess_cardsecret_prover(*w, c, 0, claim, g); };
		verify = [=](std::istream &in, std::ostream &out) { TMCG_CardSecret cs(2, 1); return tmV->TMCG_VerifyCardSecret(*c, cs, w->ring->keys[0], 0, in, out); };
		stj = J().kv("c", card_text(*c)).kv("true_bit", (long long)(isqr ? 0 : 1)).kv("claimed_bit", (long long)claim).str();
	} else throw std::logic_error("C04 harness: unknown guess proto");
	}
	if (!really_false) { count("guess_statement_not_false_skipped"); tl_rng = nullptr; case_end(desc, false, "", 0, 0); return; }
	for (auto &pr_ : pairs) {
		Instance I; I.proto = proto; I.interactive = true; I.prove = mkprover(pr_.first); I.verify = verify;
		std::vector<int> script = rand_bits(rg, pre_coins); script.insert(script.end(), pr_.second.begin(), pr_.second.end());
		if (proto == "tmcg/maskcard-qr" && pre_coins == 0) { auto more = rand_bits(rg, kappa); script.insert(script.end(), more.begin(), more.end()); }
		RunOpt o; o.cfgV = script_coins(script); uint64_t sb = nextsb();
		RunResult R = run(I, ctx.seed, sb, o); auto vl = written(R, 1);
		judge_guess(ga, proto, stmt, kappa, pr_.first, pr_.second, observed_bits(vl, first_line, kappa), R, sb, stj);
	}
	if (exhaustive_coins) {   // all 2^kappa coin strings for one guess: exactly one accepted, every string observed
		count("guess_exhaustive_rows");
		if (ga.acc_eq == 1 && ga.acc_eq + ga.rej_neq == ga.pairs && ga.pairs == (1LL << kappa)) count("guess_exhaustive_rows_exactly_one_accepted");
	}
	tl_rng = nullptr;
	case_end(desc, ga.pairs > 0, ga.sample, ga.pairs, ga.pairs);
}

static void run_guess_exhaustive(unsigned long kmax_stack, unsigned long kmax_cyc, unsigned long kmax_card, bool only_stack_n2) {
	typedef std::vector<std::pair<unsigned long long, unsigned long long>> PS;
	auto rows = [&](const std::string &proto, const std::string &stmt, unsigned long kmax, size_t n) {
		for (unsigned long kappa = 1; kappa <= kmax; kappa++) for (unsigned long long g = 0; g < (1ULL << kappa); g++) {
			PS ps; for (unsigned long long c = 0; c < (1ULL << kappa); c++) ps.push_back(std::make_pair(g, c));
			guess_case(proto, stmt, kappa, n, ps, {}, "guess=" + bits_str(bits_of(g, kappa)), true);
		}
	};
	rows("tmcg/stackeq-vtmf", "unrelated", kmax_stack, 2); rows("tmcg/stackeq-qr", "unrelated", kmax_stack, 2);
	if (only_stack_n2) return;
	rows("tmcg/stackeq-vtmf", "noncyclic-as-rotation", kmax_cyc, 3); rows("tmcg/stackeq-qr", "noncyclic-as-rotation", kmax_cyc, 3);
	rows("tmcg/stackeq-vtmf", "unrelated-cyclic", 2, 3);
	rows("tmcg/maskcard-qr", "component-0-jacobi", kmax_card, 0); rows("tmcg/maskcard-qr", "component-1-jacobi", kmax_card > 3 ? 3 : kmax_card, 0);
	rows("tmcg/cardsecret-qr", "wrong-bit", kmax_card, 0);
}
static void run_guess_sampled(const std::vector<unsigned long> &kappas, long pairs_per_kappa) {
	Rng sr = setup_rng(77);
	for (const char *proto : {"tmcg/stackeq-vtmf", "tmcg/stackeq-qr"}) for (unsigned long kappa : kappas) {
		long per_case = kappa >= 64 ? 2 : (kappa >= 16 ? 5 : 10);
		for (long done = 0, blk = 0; done < pairs_per_kappa; done += per_case, blk++) {
			std::vector<std::pair<std::vector<int>, std::vector<int>>> big;
			for (long i = 0; i < per_case; i++) {
				std::vector<int> g(kappa), c; for (auto &x : g) x = sr.coin();
				int mode = (int)((done + i) % 4);   // equal / one bit differs (early, late) / random
				c = g; if (mode == 1) c[sr.below(kappa)] ^= 1; else if (mode == 2) c[kappa - 1 - sr.below(kappa < 3 ? 1 : 3)] ^= 1; else if (mode == 3) { for (auto &x : c) x = sr.coin(); }
				big.push_back(std::make_pair(g, c));
			}
			guess_case(proto, "unrelated", kappa, 2, {}, big, "sampled block " + std::to_string(blk), false);
		}
	}
}

// ============================================================ main
int main(int argc, char **argv) {
	init(argc, argv);
	null_cerr();
	if (!init_libTMCG()) return 2;
	quick = ctx.quick();
	g_worlds = {{&PS_S, 0, "S/random-g"}, {&PS_S, 2, "S/groupQR"}};
	if (!quick) { g_worlds.push_back({&PS_S, 1, "S/canonical-g"}); g_worlds.push_back({&PS_G, 0, "G/random-g"}); }
	std::string part = ctx.option("part", "all");
	if (part == "all" || part == "fs") {
		for (size_t wi = 0; wi < g_worlds.size(); wi++) {
			bool first = wi == 0, groth_world = g_worlds[wi].ps == &PS_G;
			// --- stack level, discrete-log encoding
			for (const char *pr_ : DSTACK_PROTOS) {
				std::string proto = pr_;
				if (!first && !is_tmcg_level(proto) && !groth_world) continue;       // direct argument calls: first world (+ the l_e=80 world)
				if (groth_world && (is_cc(proto) || proto.find("hoogh") != std::string::npos)) continue;
				std::vector<std::string> kinds = {"subst", "dup", "retype"};
				if (is_tmcg_level(proto)) { kinds.push_back("drop"); kinds.push_back("nonmember"); }
				else if (first && proto.find("noninteractive") != std::string::npos) kinds.push_back("nonmember");   // observation only (not judged)
				if (is_rotation_proto(proto)) kinds.push_back("noncyclic");
				for (auto &kind : kinds) fs_dstack(wi, proto, kind);
			}
			if (groth_world) continue;
			for (int var = 0; var < 3; var++) for (const char *kind : {"noncyclic", "subst"}) if (first || var == 2) fs_pubrot(wi, var, kind);
			// --- scalar protocols
			fs_key_nizk(wi);
			for (const char *p : {"vtmf/key-interactive", "vtmf/key-publiccoin"}) fs_scalar(wi, p, "keyshift", {{"keyshift", "key", "mulg1"}, {"keyshift", "key", "mulgT"}, {"keyshift", "key", "mulgR"}}, true, false);
			fs_scalar(wi, "vtmf/cp-plain", "unequal-dlog", {{"", "y", "mulhh"}, {"", "x", "mulgg"}, {"", "y", "mulgR"}}, true, true);
			fs_scalar(wi, "vtmf/cp-table", "unequal-dlog", {{"", "y", "mulh"}, {"", "x", "mulg1"}, {"", "y", "mulgR"}}, true, true);
			fs_scalar(wi, "vtmf/mask", "typechange", {{"", "c_2", "mulg1"}, {"", "c_2", "mulgT"}, {"", "m", "mulg1"}, {"", "c_1", "mulg1"}}, true, true);
			fs_scalar(wi, "vtmf/mask", "nonmember", {{"", "c_2", "neg"}, {"", "c_1", "neg"}}, true, true);
			fs_scalar(wi, "vtmf/remask", "typechange", {{"", "c'_2", "mulg1"}, {"", "c'_2", "mulgT"}, {"", "c'_1", "mulg1"}, {"", "c_2", "mulg1"}}, true, true);
			fs_scalar(wi, "vtmf/remask", "nonmember", {{"", "c'_2", "neg"}, {"", "c'_1", "neg"}}, true, true);
			fs_scalar(wi, "tmcg/maskcard-vtmf", "typechange", {{"", "cc.c_2", "mulg1"}, {"", "cc.c_2", "mulgT"}, {"", "cc.c_1", "mulg1"}, {"", "c.c_2", "mulg1"}}, true, true);
			fs_scalar(wi, "tmcg/maskcard-vtmf", "nonmember", {{"", "cc.c_2", "neg"}, {"", "cc.c_1", "neg"}}, true, true);
			fs_otherkey(wi, "vtmf/decrypt"); fs_otherkey(wi, "tmcg/cardsecret-vtmf");
			if (first) for (const char *p : {"groth/skc-interactive", "groth/skc-publiccoin", "groth/skc-noninteractive"}) fs_scalar(wi, p, "subst-message", {{"", "m[*]", "add1"}}, true, true);
			// --- QR encoding
			if (first) {
				for (int cyc = 0; cyc < 2; cyc++) { std::vector<std::string> kinds = {"subst", "dup", "drop", "retype", "jacobi", "maskflip"}; if (cyc) kinds.push_back("noncyclic"); for (auto &kind : kinds) fs_qstack(cyc, kind); }
				for (const char *kind : {"retype", "jacobi", "maskflip"}) fs_qmask(kind);
				for (const char *kind : {"otherkey", "retype", "jacobi"}) fs_qcardsecret(kind);
			}
		}
	}
	if (part == "all" || part == "guess") {
		if (quick) { run_guess_exhaustive(4, 3, 4, false); run_guess_sampled({8, 16}, 100); }
		else { run_guess_exhaustive(5, 4, 6, false); run_guess_sampled({8, 16, 80}, 80); }
	}
	if (part == "guessfast") run_guess_exhaustive((unsigned long)ctx.option_l("kmax", 8), 0, 0, true);   // "fast" flavour stage: exhaustive up to kappa = 8, n = 2
	finish();
	return 0;
}
