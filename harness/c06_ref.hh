// c06_ref.hh — independent reference predicates for C06 (plain GMP, written from the
// property text; the only library function used is the public hash tmcg_mpz_shash for
// the documented canonical-generator derivation).  Shared by w_c06.cc and w_c08.cc.
#pragma once
#include "vf.hh"
#include <libTMCG.hh>
#include <map>
#include <string>
#include <vector>

namespace c06 {

struct Z {
	mpz_t v;
	Z() { mpz_init(v); }
	Z(const Z &o) { mpz_init_set(v, o.v); }
	explicit Z(unsigned long u) { mpz_init_set_ui(v, u); }
	Z(mpz_srcptr o) { mpz_init_set(v, o); }
	Z &operator=(const Z &o) { if (this != &o) mpz_set(v, o.v); return *this; }
	~Z() { mpz_clear(v); }
	operator mpz_ptr() { return v; }
	operator mpz_srcptr() const { return v; }
	__mpz_struct *operator->() { return v; }
	const __mpz_struct *operator->() const { return v; }
};
typedef std::map<std::string, Z> Fields;

static const int MR = 64;   // Miller-Rabin rounds demanded by the property's design (4^-64)

// ---- Schnorr group p = kq+1 -------------------------------------------------
// k_given == nullptr: the class has no k field, k := (p-1)/q must be integral.
// returns true iff well-formed; `why` names the first violated clause; kout = cofactor
inline bool ref_schnorr(mpz_srcptr p, mpz_srcptr q, mpz_srcptr k_given, unsigned long F, unsigned long G,
                        Z &kout, std::string &why) {
	if (mpz_sgn(p) <= 0) { why = "p<=0"; return false; }
	if (mpz_sgn(q) <= 0) { why = "q<=0"; return false; }
	if (mpz_sizeinbase(p, 2) < F) { why = "p shorter than configured"; return false; }
	if (mpz_sizeinbase(q, 2) < G) { why = "q shorter than configured"; return false; }
	if (!mpz_probab_prime_p(p, MR)) { why = "p composite"; return false; }
	if (!mpz_probab_prime_p(q, MR)) { why = "q composite"; return false; }
	Z pm1; mpz_sub_ui(pm1, p, 1);
	if (k_given) {
		Z t; mpz_mul(t, k_given, q); mpz_add_ui(t, t, 1);
		if (mpz_cmp(t, p)) { why = "p != kq+1"; return false; }
		mpz_set(kout, k_given);
	} else {
		if (!mpz_divisible_p(pm1, q)) { why = "q does not divide p-1"; return false; }
		mpz_divexact(kout, pm1, q);
	}
	Z gcd; mpz_gcd(gcd, kout, q);
	if (mpz_cmp_ui(gcd, 1)) { why = "gcd(k,q) != 1"; return false; }
	return true;
}

// generator: 1 < x < p-1 and x^q = 1 (p, q already known to be prime, q odd or 2)
inline bool ref_gen(mpz_srcptr x, mpz_srcptr p, mpz_srcptr q) {
	Z pm1; mpz_sub_ui(pm1, p, 1);
	if (mpz_cmp_ui(x, 1) <= 0 || mpz_cmp(x, pm1) >= 0) return false;
	Z t; mpz_powm(t, x, q, p);
	return mpz_cmp_ui(t, 1) == 0;
}

// element check of the property: member of the order-q subgroup in 1..p-1
inline bool ref_member(mpz_srcptr a, mpz_srcptr p, mpz_srcptr q) {
	if (mpz_sgn(a) <= 0 || mpz_cmp(a, p) >= 0) return false;
	Z t; mpz_powm(t, a, q, p);
	return mpz_cmp_ui(t, 1) == 0;
}

// documented derivation (FIPS 186-3 A.2.3 style): U = "LibTMCG|p|q|ggen|", g = H(U)^k mod p,
// U += g + "|" until 1 < g < p-1 and g^q = 1; returns the number of rejected candidates
inline unsigned ref_canonical_g(mpz_ptr out, mpz_srcptr p, mpz_srcptr q, mpz_srcptr k) {
	std::string U = "LibTMCG|" + vf::mpz_b62(p) + "|" + vf::mpz_b62(q) + "|ggen|";
	Z hsh, pm1, t; mpz_sub_ui(pm1, p, 1);
	unsigned rejected = 0;
	for (;;) {
		tmcg_mpz_shash(hsh, U);
		mpz_powm(out, hsh, k, p);
		U += vf::mpz_b62(out) + "|";
		mpz_powm(t, out, q, p);
		if (mpz_cmp_ui(out, 1) > 0 && mpz_cmp(out, pm1) < 0 && mpz_cmp_ui(t, 1) == 0) return rejected;
		if (++rejected > 100000) { mpz_set_ui(out, 0); return rejected; }
	}
}

// quadratic-residue group: p = 2q+1, p = 7 mod 8, shifted generator 2^(2^(|p|-E)) [KK04]
inline bool ref_groupqr(mpz_srcptr p, mpz_srcptr q, unsigned long F, unsigned long E, Z &gout, std::string &why) {
	if (mpz_sgn(p) <= 0) { why = "p<=0"; return false; }
	if (mpz_sgn(q) <= 0) { why = "q<=0"; return false; }
	if (mpz_sizeinbase(p, 2) < F) { why = "p shorter than configured"; return false; }
	if (mpz_sizeinbase(q, 2) + 1 < F) { why = "q shorter than configured"; return false; }
	if (!mpz_probab_prime_p(p, MR)) { why = "p composite"; return false; }
	if (!mpz_probab_prime_p(q, MR)) { why = "q composite"; return false; }
	Z t; mpz_mul_2exp(t, q, 1); mpz_add_ui(t, t, 1);
	if (mpz_cmp(t, p)) { why = "p != 2q+1"; return false; }
	if (mpz_fdiv_ui(p, 8) != 7) { why = "p != 7 mod 8"; return false; }
	if (mpz_sizeinbase(p, 2) < E) { why = "exponent size exceeds |p|: no derived generator"; return false; }
	Z e; mpz_set_ui(e, 1); mpz_mul_2exp(e, e, mpz_sizeinbase(p, 2) - E);
	mpz_set_ui(gout, 2); mpz_powm(gout, gout, e, p);
	if (!ref_gen(gout, p, q)) { why = "derived generator trivial or not of order q"; return false; }
	return true;
}

// ---- generators of test material (plain GMP + the harness PRNG) -------------
inline void rand_bits_exact(mpz_ptr r, unsigned long bits, vf::Rng &rng) { rng.mpz_bits(r, bits); mpz_setbit(r, bits - 1); }

// p = kq+1 with exactly Fbits/Gbits bits; shared=true: q divides k (gcd(k,q) = q, everything else fine)
inline void gen_schnorr(Z &p, Z &q, Z &k, unsigned long Fbits, unsigned long Gbits, vf::Rng &rng, bool shared) {
	do { rand_bits_exact(q, Gbits, rng); mpz_nextprime(q, q); } while (mpz_sizeinbase(q, 2) != Gbits);
	// p = m*Q + 1 with Q = q (resp. q^2): draw m from the interval that gives exactly Fbits bits
	Z Q, lo, hi, span, m, g;
	if (shared) mpz_mul(Q, q, q); else mpz_set(Q, q);
	mpz_set_ui(lo, 1); mpz_mul_2exp(lo, lo, Fbits - 1); mpz_fdiv_q(lo, lo, Q); mpz_add_ui(lo, lo, 1);
	mpz_set_ui(hi, 1); mpz_mul_2exp(hi, hi, Fbits); mpz_sub_ui(hi, hi, 1); mpz_fdiv_q(hi, hi, Q);
	mpz_sub(span, hi, lo);
	if (mpz_cmp_ui(span, 16) < 0) { fprintf(stderr, "gen_schnorr: sizes too close\n"); exit(2); }
	for (;;) {
		rng.mpz_below(m, span); mpz_add(m, m, lo); if (mpz_odd_p(m)) mpz_add_ui(m, m, 1);
		if (mpz_cmp(m, hi) > 0) continue;
		if (shared) mpz_mul(k, m, q); else mpz_set(k, m);
		mpz_gcd(g, m, q); if (mpz_cmp_ui(g, 1)) continue;
		mpz_mul(p, k, q); mpz_add_ui(p, p, 1);
		if (mpz_sizeinbase(p, 2) != Fbits) continue;
		if (!mpz_probab_prime_p(p, 8)) continue;
		if (mpz_probab_prime_p(p, MR)) return;
	}
}
// safe prime p = 2q+1 with p mod 8 == res (res 7 or 3), exactly bits bits
inline void gen_safeprime(Z &p, Z &q, unsigned long bits, unsigned res, vf::Rng &rng) {
	for (;;) {
		rand_bits_exact(q, bits - 1, rng); mpz_setbit(q, 0);
		mpz_mul_2exp(p, q, 1); mpz_add_ui(p, p, 1);
		if (mpz_fdiv_ui(p, 8) != res) continue;
		if (mpz_fdiv_ui(q, 3) == 0 || mpz_fdiv_ui(p, 3) == 0 || mpz_fdiv_ui(q, 5) == 0 || mpz_fdiv_ui(p, 5) == 0 || mpz_fdiv_ui(q, 7) == 0 || mpz_fdiv_ui(p, 7) == 0) continue;
		if (!mpz_probab_prime_p(q, 4) || !mpz_probab_prime_p(p, 4)) continue;
		if (mpz_probab_prime_p(q, MR) && mpz_probab_prime_p(p, MR)) return;
	}
}
// random element of order q (x^k, not 0/1/p-1)
inline void rand_gen(mpz_ptr g, mpz_srcptr p, mpz_srcptr k, vf::Rng &rng) {
	Z pm1; mpz_sub_ui(pm1, p, 1);
	do { rng.mpz_below(g, p); mpz_powm(g, g, k, p); } while (mpz_cmp_ui(g, 1) <= 0 || mpz_cmp(g, pm1) >= 0);
}

} // namespace c06
