#include "engine.hh"
#include <unistd.h>

namespace vf {

thread_local Task *tl_task = nullptr;
Sched *g_sched = nullptr;

static void time_hook() {
	Task *t = tl_task; Sched *s = g_sched;
	if (!t || !s || !s->use_vclock || s->aborting) return;
	if (++t->spin > s->spin_limit) {
		// the library spins on time() without touching a channel: let the clock move
		t->spin = 0; t->spin_parks++;
		s->wait([]() { return false; }, g_vtime + 1);
	}
}

void Sched::run() {
	Sched *prev = g_sched; g_sched = this;
	void (*prev_hook)() = g_time_hook; g_time_hook = time_hook;
	pthread_attr_t a; pthread_attr_init(&a); pthread_attr_setstacksize(&a, 64 << 20);
	for (auto t : tasks) if (pthread_create(&t->th, &a, tramp, t)) { perror("pthread_create"); _exit(2); }
	pthread_attr_destroy(&a);
	pthread_mutex_lock(&mu); pick_next(); pthread_mutex_unlock(&mu);
	for (auto t : tasks) pthread_join(t->th, 0);
	g_time_hook = prev_hook; g_sched = prev;
}

struct NullBuf : public std::streambuf { int overflow(int c) override { return c; } std::streamsize xsputn(const char *, std::streamsize n) override { return n; } };
void null_cerr() { static NullBuf *nb = new NullBuf; static std::streambuf *oc = std::cerr.rdbuf(nb), *ol = std::clog.rdbuf(nb); (void)oc; (void)ol; }
// note: the buffers are never restored/destroyed; ios_base::Init::~Init only flushes

} // namespace vf
