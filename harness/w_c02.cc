// w_c02.cc — C02: a shuffle is exactly a permutation plus re-masking.
//   (a) |out| = |in| and type(out[i]) = type(in[pi[i]]) where pi is the index component of the
//       stack secret handed to TMCG_MixStack (types obtained by really opening every output card);
//   (b) every generated stack secret holds a bijection on 0..n-1; cyclic=true => rotation by
//       exactly the returned offset R: input position j is found at output position (j+R) mod n;
//   (c) TMCG_StackSecret::import accepts the library's own export text with rewritten index
//       fields iff the index vector is a bijection on 0..n-1 (reference: sort and compare).
// Reference model for types: the type each input card was created with (harness bookkeeping).
#include "engine.hh"
#include <algorithm>
#include <memory>
#include <numeric>
#include <set>

using namespace vf;
typedef long long ll;

// ---------------------------------------------------------------- worlds (deterministic in ctx.seed)
struct DlogWorld {
	std::vector<BarnettSmartVTMF_dlog *> v; size_t k; int kind;
	SchindelhauerTMCG *tm;    // one TMCG object per group (it caches the IndexElement values)
};

static DlogWorld *dlog_world(size_t k) {
	static std::map<size_t, DlogWorld *> cache;
	auto it = cache.find(k); if (it != cache.end()) return it->second;
	Rng r = setup_rng(100 + k); Rng *old = tl_rng; tl_rng = &r;
	DlogWorld *w = new DlogWorld; w->k = k; w->kind = (k == 2) ? 2 : (k == 3 ? 1 : 0);   // 0 random g, 1 canonical g, 2 GroupQR
	BarnettSmartVTMF_dlog *first = (w->kind == 2) ? new BarnettSmartVTMF_dlog_GroupQR(512, 160)
	                                             : new BarnettSmartVTMF_dlog(512, 160, w->kind == 1, true);
	if (!first->CheckGroup()) { fprintf(stderr, "C02 setup: generated group refused\n"); exit(2); }
	w->v.push_back(first);
	std::stringstream grp; first->PublishGroup(grp);
	for (size_t i = 1; i < k; i++) {
		std::stringstream in(grp.str());
		if (w->kind == 2) w->v.push_back(new BarnettSmartVTMF_dlog_GroupQR(in, 512, 160));
		else w->v.push_back(new BarnettSmartVTMF_dlog(in, 512, 160, w->kind == 1, true));
	}
	for (auto p : w->v) p->KeyGenerationProtocol_GenerateKey();
	for (size_t i = 0; i < k; i++) {
		std::stringstream key; w->v[i]->KeyGenerationProtocol_PublishKey(key);
		for (size_t j = 0; j < k; j++) if (j != i) {
			std::stringstream in(key.str());
			if (!w->v[j]->KeyGenerationProtocol_UpdateKey(in)) { fprintf(stderr, "C02 setup: honest key share refused\n"); exit(2); }
		}
	}
	for (auto p : w->v) p->KeyGenerationProtocol_Finalize();
	w->tm = new SchindelhauerTMCG(16, k, 10);
	tl_rng = old;
	cache[k] = w; return w;
}

struct QrWorld {
	size_t k, w; std::vector<TMCG_SecretKey *> sk; TMCG_PublicKeyRing *ring; SchindelhauerTMCG *tm;
};
static TMCG_SecretKey *qr_key(size_t i) {
	static std::map<size_t, TMCG_SecretKey *> keys;
	auto it = keys.find(i); if (it != keys.end()) return it->second;
	Rng r = setup_rng(200 + i); Rng *old = tl_rng; tl_rng = &r;
	TMCG_SecretKey *k = new TMCG_SecretKey("P" + std::to_string(i), "p@x", 512 + 64 * (i % 2), false);
	tl_rng = old; keys[i] = k; return k;
}
static QrWorld *qr_world(size_t k, size_t w) {
	static std::map<std::pair<size_t, size_t>, QrWorld *> cache;
	auto key = std::make_pair(k, w);
	auto it = cache.find(key); if (it != cache.end()) return it->second;
	QrWorld *W = new QrWorld; W->k = k; W->w = w; W->ring = new TMCG_PublicKeyRing(k);
	for (size_t i = 0; i < k; i++) { W->sk.push_back(qr_key(i)); W->ring->keys[i] = TMCG_PublicKey(*W->sk[i]); }
	W->tm = new SchindelhauerTMCG(4, k, w);
	cache[key] = W; return W;
}

// ---------------------------------------------------------------- opening
// every share is proved by its owner and verified by the opener (library opening path)
static size_t open_dlog(DlogWorld *W, const VTMF_Card &c, size_t opener, bool &proofs_ok) {
	BarnettSmartVTMF_dlog *me = W->v[opener];
	W->tm->TMCG_SelfCardSecret(c, me);
	for (size_t j = 0; j < W->k; j++) {
		if (j == opener) continue;
		std::stringstream proof, dummy_in, dummy_out;
		W->tm->TMCG_ProveCardSecret(c, W->v[j], dummy_in, proof);
		if (!W->tm->TMCG_VerifyCardSecret(c, me, proof, dummy_out)) proofs_ok = false;
	}
	return W->tm->TMCG_TypeOfCard(c, me);
}
// QR encoding: every player computes his own row of the card secret (the interactive
// transfer of that row is C01's subject), then the type is read off
static size_t open_qr(QrWorld *W, const TMCG_Card &c) {
	TMCG_CardSecret open(W->k, W->w);
	for (size_t j = 0; j < W->k; j++) W->tm->TMCG_SelfCardSecret(c, open, *W->sk[j], j);
	return W->tm->TMCG_TypeOfCard(open);
}

// ---------------------------------------------------------------- encoding adaptors
struct EncDlog {
	typedef VTMF_Card Card; typedef VTMF_CardSecret Secret;
	DlogWorld *W; size_t shuffler = 0;
	const char *name() const { return "dlog"; }
	size_t players() const { return W->k; }
	size_t maxtype() const { return 1024; }
	Card make(size_t T, bool priv, Rng &r) {
		Card c; size_t creator = r.below(W->k);
		if (priv) { Secret cs; W->tm->TMCG_CreatePrivateCard(c, cs, W->v[creator], T); } else W->tm->TMCG_CreateOpenCard(c, W->v[creator], T);
		return c;
	}
	size_t gen(TMCG_StackSecret<Secret> &ss, bool cyclic, size_t n) { return W->tm->TMCG_CreateStackSecret(ss, cyclic, n, W->v[shuffler]); }
	void given(TMCG_StackSecret<Secret> &ss, const std::vector<size_t> &pi) { W->tm->TMCG_CreateStackSecret(ss, pi, pi.size(), W->v[shuffler]); }
	void mix(const TMCG_Stack<Card> &s, TMCG_Stack<Card> &s2, const TMCG_StackSecret<Secret> &ss, bool prot) { W->tm->TMCG_MixStack(s, s2, ss, W->v[shuffler], prot); }
	size_t open(const Card &c, Rng &r, bool &ok) { return open_dlog(W, c, r.below(W->k), ok); }
};
struct EncQr {
	typedef TMCG_Card Card; typedef TMCG_CardSecret Secret;
	QrWorld *W; size_t shuffler = 0;
	const char *name() const { return "qr"; }
	size_t players() const { return W->k; }
	size_t maxtype() const { return (size_t)1 << W->w; }
	Card make(size_t T, bool priv, Rng &r) {
		Card c(W->k, W->w);
		if (priv) { Secret cs(W->k, W->w); W->tm->TMCG_CreatePrivateCard(c, cs, *W->ring, r.below(W->k), T); } else W->tm->TMCG_CreateOpenCard(c, *W->ring, T);
		return c;
	}
	size_t gen(TMCG_StackSecret<Secret> &ss, bool cyclic, size_t n) { return W->tm->TMCG_CreateStackSecret(ss, cyclic, *W->ring, shuffler, n); }
	void given(TMCG_StackSecret<Secret> &ss, const std::vector<size_t> &pi) { W->tm->TMCG_CreateStackSecret(ss, pi, *W->ring, shuffler, pi.size()); }
	void mix(const TMCG_Stack<Card> &s, TMCG_Stack<Card> &s2, const TMCG_StackSecret<Secret> &ss, bool prot) { W->tm->TMCG_MixStack(s, s2, ss, *W->ring, prot); }
	size_t open(const Card &c, Rng &, bool &) { return open_qr(W, c); }
};

// ---------------------------------------------------------------- helpers
static bool is_bijection(const std::vector<size_t> &v) {          // reference: sort and compare
	std::vector<size_t> s(v); std::sort(s.begin(), s.end());
	for (size_t i = 0; i < s.size(); i++) if (s[i] != i) return false;
	return true;
}
static std::string vec_json(const std::vector<size_t> &v, size_t max = 80) {
	std::string s = "["; for (size_t i = 0; i < v.size() && i < max; i++) { if (i) s += ","; s += std::to_string(v[i]); }
	if (v.size() > max) s += ",\"...(" + std::to_string(v.size()) + ")\""; return s + "]";
}
template <class SS> static std::vector<size_t> index_of(const SS &ss) { std::vector<size_t> pi; for (size_t i = 0; i < ss.size(); i++) pi.push_back(ss[i].first); return pi; }

// type patterns: 0 distinct, 1 repeated (alphabet ~ n/3), 2 all equal, 3 two values
static std::vector<size_t> make_types(size_t n, int pattern, size_t maxtype, Rng &r) {
	std::vector<size_t> T(n);
	if (pattern == 0 && n > maxtype) pattern = 1;
	if (pattern == 0) {   // n distinct types drawn from the whole type space
		std::vector<size_t> all(maxtype); std::iota(all.begin(), all.end(), 0);
		for (size_t i = 0; i < n; i++) { size_t j = i + r.below(maxtype - i); std::swap(all[i], all[j]); T[i] = all[i]; }
	} else if (pattern == 1) {
		size_t a = std::max<size_t>(1, std::min(maxtype, (n + 2) / 3)); size_t base = r.below(maxtype - a + 1);
		for (auto &t : T) t = base + r.below(a);
	} else if (pattern == 2) { size_t t = r.below(maxtype); for (auto &x : T) x = t; }
	else { size_t a = r.below(maxtype), b = r.below(maxtype); for (auto &x : T) x = r.coin() ? a : b; }
	return T;
}
static const char *pat_name(int p) { static const char *n[] = {"distinct", "repeated", "all-equal", "two-valued"}; return n[p & 3]; }

template <class E> static TMCG_Stack<typename E::Card> make_stack(E &e, const std::vector<size_t> &T, Rng &r) {
	TMCG_Stack<typename E::Card> s;
	for (size_t t : T) s.push(e.make(t, r.below(3) != 0, r));
	return s;
}

struct Tally { ll shuffles = 0, cards = 0, evals = 0; std::set<uint64_t> distinct; std::string sample; };

// oracle (a) on an opened stack: out types must be T[pi[i]]
template <class E> static bool check_mix(E &e, const char *src, const std::vector<size_t> &T, const std::vector<size_t> &pi,
                                         const TMCG_Stack<typename E::Card> &out, Rng &r, Tally &tl, const std::string &ctxj, std::vector<size_t> *opened_out = nullptr) {
	std::string enc = e.name();
	bool good = true;
	if (out.size() != T.size()) {
		violation("C02/" + enc + "/size-changed", "mixed stack has a different size than the input stack",
		          J().kv("src", src).kv("n_in", (ll)T.size()).kv("n_out", (ll)out.size()).raw("pi", vec_json(pi)).raw("ctx", ctxj).str());
		return false;
	}
	std::vector<size_t> got(out.size()); bool proofs = true;
	for (size_t i = 0; i < out.size(); i++) { got[i] = e.open(out[i], r, proofs); tl.cards++; }
	if (opened_out) *opened_out = got;
	if (!proofs) { violation("C02/" + enc + "/opening-proof-rejected", "honest decryption share refused while opening the mixed stack", J().kv("src", src).raw("ctx", ctxj).str()); good = false; }
	// multiset
	std::vector<size_t> a(T), b(got); std::sort(a.begin(), a.end()); std::sort(b.begin(), b.end());
	for (size_t i = 0; i < got.size(); i++) {
		tl.evals++;
		if (got[i] != T[pi[i]]) {
			violation("C02/" + enc + "/wrong-card-at-position", "output card i does not open to the type of input card pi[i]",
			          J().kv("src", src).kv("n", (ll)T.size()).kv("i", (ll)i).kv("pi_i", (ll)pi[i]).kv("expected_type", (ll)T[pi[i]]).kv("opened_type", (ll)got[i])
			              .kv("multiset_preserved", a == b).raw("pi", vec_json(pi)).raw("in_types", vec_json(T)).raw("out_types", vec_json(got)).raw("ctx", ctxj).str());
			good = false; break;
		}
	}
	if (good && a != b) { violation("C02/" + enc + "/multiset-changed", "multiset of types changed", J().kv("src", src).raw("ctx", ctxj).str()); good = false; }
	return good;
}

// ---------------------------------------------------------------- family P: all n! given permutations
template <class E> static void family_given(E &e, long &kc, size_t n) {
	J d; d.kv("fam", "given-pi").kv("enc", e.name()).kv("k", (ll)e.players()).kv("n", (ll)n);
	if (!case_begin(kc++, d.str())) return;
	Rng r = case_rng(kc, 1); tl_rng = &r;
	Tally tl; std::vector<size_t> pi(n); std::iota(pi.begin(), pi.end(), 0);
	ll perms = 0;
	do {
		for (int pattern : {0, 1}) {
			if (n == 1 && pattern == 1) continue;
			if (ctx.quick() && n >= 5 && pattern != (int)(perms & 1)) continue;   // quick: alternate the two patterns at n = 5
			std::vector<size_t> T = make_types(n, pattern, e.maxtype(), r);
			e.shuffler = r.below(e.players());
			auto s = make_stack(e, T, r);
			TMCG_StackSecret<typename E::Secret> ss; e.given(ss, pi);
			std::vector<size_t> idx = index_of(ss);
			if (idx != pi) violation(std::string("C02/") + e.name() + "/given-pi-not-stored", "TMCG_CreateStackSecret(ss, pi, ...) stored another index vector", J().raw("pi", vec_json(pi)).raw("stored", vec_json(idx)).str());
			TMCG_Stack<typename E::Card> s2; bool prot = r.coin();
			e.mix(s, s2, ss, prot);
			std::string cj = J().kv("pattern", pat_name(pattern)).kv("protect", prot).kv("shuffler", (ll)e.shuffler).str();
			check_mix(e, "given", T, idx, s2, r, tl, cj);
			tl.shuffles++; tl.distinct.insert(fnv(vec_json(pi) + pat_name(pattern)));
			if (tl.sample.empty() && perms == (ll)n) tl.sample = J().kv("enc", e.name()).kv("k", (ll)e.players()).kv("src", "given").raw("pi", vec_json(pi)).raw("in_types", vec_json(T)).kv("verdict", "out[i] opens to in[pi[i]]").str();
		}
		perms++;
	} while (std::next_permutation(pi.begin(), pi.end()));
	count(std::string(e.name()) + "_given_perms", perms); count(std::string(e.name()) + "_shuffles", tl.shuffles); count(std::string(e.name()) + "_cards_opened", tl.cards);
	count("given_perms_n" + std::to_string(n), perms);
	tl_rng = nullptr;
	case_end(d.str(), tl.evals > 0, tl.sample, tl.evals, (ll)tl.distinct.size());
}

// ---------------------------------------------------------------- family G: generated secrets
template <class E> static void family_generated(E &e, long &kc, size_t n, int reps) {
	J d; d.kv("fam", "generated").kv("enc", e.name()).kv("k", (ll)e.players()).kv("n", (ll)n);
	if (!case_begin(kc++, d.str())) return;
	Rng r = case_rng(kc, 2); tl_rng = &r;
	Tally tl; std::string enc = e.name();
	// every other secret is generated into an object that already holds a secret (of another size at first): a chain of shuffles
	// or a retry loop that keeps one variable does exactly that (seeded change c02_createstacksecret_append)
	TMCG_StackSecret<typename E::Secret> ss_used; e.shuffler = 0; e.gen(ss_used, false, n > 2 ? n - 1 : n + 1);
	for (int rep = 0; rep < reps; rep++) for (int cyc = 0; cyc < 2; cyc++) {
		if (cyc && n < 2) continue;      // rotations are defined for 2..TMCG_MAX_CARDS
		int pattern = cyc ? (rep % 2 ? 1 : 0) : (int)((rep + n) % 4);
		std::vector<size_t> T = make_types(n, pattern, e.maxtype(), r);
		e.shuffler = r.below(e.players());
		auto s = make_stack(e, T, r);
		TMCG_StackSecret<typename E::Secret> ss_fresh;
		bool reuse = ((rep + cyc) % 2) == 1;
		TMCG_StackSecret<typename E::Secret> &ss = reuse ? ss_used : ss_fresh;
		count(reuse ? "generated_into_used_object" : "generated_into_fresh_object");
		size_t R = e.gen(ss, cyc != 0, n);
		std::vector<size_t> pi = index_of(ss);
		std::string cj = J().kv("cyclic", cyc != 0).kv("R", (ll)R).kv("pattern", pat_name(pattern)).kv("shuffler", (ll)e.shuffler).str();
		tl.evals++;
		count(cyc ? "generated_cyclic_secrets" : "generated_secrets");
		if (pi.size() != n || !is_bijection(pi)) {
			violation("C02/" + enc + (cyc ? "/cyclic-secret-not-bijection" : "/generated-secret-not-bijection"), "index component of a freshly generated stack secret is not a bijection on 0..n-1",
			          J().kv("n", (ll)n).raw("pi", vec_json(pi, 600)).raw("ctx", cj).str());
			continue;   // mixing with such a secret is undefined for the oracle below
		}
		bool rot_ok = true;
		if (cyc) {
			if (R >= n) { violation("C02/" + enc + "/rotation-offset-out-of-range", "returned offset is not in 0..n-1", J().kv("n", (ll)n).kv("R", (ll)R).str()); rot_ok = false; }
			else for (size_t j = 0; j < n; j++) if (pi[(j + R) % n] != j) {
				violation("C02/" + enc + "/rotation-not-by-reported-offset", "cyclic secret is not the shift by the returned offset: input position j is not designated by output position (j+R) mod n",
				          J().kv("n", (ll)n).kv("R", (ll)R).kv("j", (ll)j).raw("pi", vec_json(pi, 600)).str());
				rot_ok = false; break;
			}
			if (R != 0) count("rotations_nonzero_offset");
		} else {
			// sanity: R must be 0 for non-cyclic secrets (documented return value)
			if (R != 0) violation("C02/" + enc + "/nonzero-offset-for-permutation", "non-cyclic secret reported an offset", J().kv("R", (ll)R).str());
		}
		TMCG_Stack<typename E::Card> s2; bool prot = r.coin();
		e.mix(s, s2, ss, prot);
		std::vector<size_t> got;
		bool ok = check_mix(e, cyc ? "cyclic" : "generated", T, pi, s2, r, tl, cj, &got);
		if (cyc && ok && rot_ok && got.size() == n) {
			// confirmed by opening: input card j is found at output position (j+R) mod n
			for (size_t j = 0; j < n; j++) if (got[(j + R) % n] != T[j]) {
				violation("C02/" + enc + "/rotation-opening-mismatch", "opened output position (j+R) mod n does not show input card j", J().kv("n", (ll)n).kv("R", (ll)R).kv("j", (ll)j).raw("ctx", cj).str());
				break;
			}
			count("rotations_confirmed_by_opening");
		}
		tl.shuffles++; tl.distinct.insert(fnv(vec_json(pi, 600) + cj));
		if (tl.sample.empty() && n >= 3) tl.sample = J().kv("enc", e.name()).kv("k", (ll)e.players()).kv("src", cyc ? "cyclic" : "generated").kv("n", (ll)n).kv("R", (ll)R).raw("pi", vec_json(pi, 16)).raw("in_types", vec_json(T, 16)).raw("out_types", vec_json(got, 16)).str();
	}
	count(enc + "_shuffles", tl.shuffles); count(enc + "_cards_opened", tl.cards); count("generated_sizes_" + enc);
	if (n >= 128) count("generated_big_sizes");
	tl_rng = nullptr;
	case_end(d.str(), tl.evals > 0, tl.sample, tl.evals, (ll)tl.distinct.size());
}

// ---------------------------------------------------------------- family C: chains of shuffles
template <class E> static void family_chain(E &e, long &kc, size_t n, size_t len, int reps) {
	J d; d.kv("fam", "chain").kv("enc", e.name()).kv("k", (ll)e.players()).kv("n", (ll)n).kv("len", (ll)len);
	if (!case_begin(kc++, d.str())) return;
	Rng r = case_rng(kc, 3); tl_rng = &r;
	Tally tl; std::string enc = e.name();
	for (int rep = 0; rep < reps; rep++) {
		int pattern = rep % 2 ? 1 : 0;
		std::vector<size_t> T = make_types(n, pattern, e.maxtype(), r);
		auto cur = make_stack(e, T, r);
		std::vector<size_t> comp(n); std::iota(comp.begin(), comp.end(), 0);   // out[i] = in[comp[i]]
		std::string srcs; bool usable = true;
		for (size_t step = 0; step < len && usable; step++) {
			e.shuffler = (step + rep) % e.players();     // consecutive shuffles by different players
			int kind = (int)r.below(3); if (n < 2 && kind == 1) kind = 0;
			TMCG_StackSecret<typename E::Secret> ss;
			if (kind == 0) e.gen(ss, false, n);
			else if (kind == 1) e.gen(ss, true, n);
			else { std::vector<size_t> pi(n); std::iota(pi.begin(), pi.end(), 0); for (size_t i = 0; i + 1 < n; i++) std::swap(pi[i], pi[i + r.below(n - i)]); e.given(ss, pi); }
			srcs += (kind == 0 ? "g" : kind == 1 ? "c" : "p"); srcs += std::to_string(e.shuffler);
			std::vector<size_t> pi = index_of(ss);
			if (pi.size() != n || !is_bijection(pi)) { violation("C02/" + enc + "/generated-secret-not-bijection", "index component of a freshly generated stack secret is not a bijection on 0..n-1", J().kv("n", (ll)n).raw("pi", vec_json(pi, 600)).kv("in", "chain").str()); usable = false; break; }
			TMCG_Stack<typename E::Card> nxt; e.mix(cur, nxt, ss, r.coin());
			if (nxt.size() != n) { violation("C02/" + enc + "/size-changed", "mixed stack has a different size than the input stack", J().kv("in", "chain").kv("step", (ll)step).str()); usable = false; break; }
			std::vector<size_t> c2(n); for (size_t i = 0; i < n; i++) c2[i] = comp[pi[i]];
			comp = c2; cur = nxt; tl.shuffles++;
		}
		if (!usable) continue;
		std::string cj = J().kv("chain", srcs).kv("pattern", pat_name(pattern)).str();
		check_mix(e, "chain", T, comp, cur, r, tl, cj);
		count("chains"); count("chain_steps", (ll)len);
		tl.distinct.insert(fnv(vec_json(comp, 600) + cj));
		if (tl.sample.empty()) tl.sample = J().kv("enc", e.name()).kv("src", "chain").kv("chain", srcs).kv("n", (ll)n).raw("composition", vec_json(comp, 16)).raw("in_types", vec_json(T, 16)).str();
	}
	count(enc + "_shuffles", tl.shuffles); count(enc + "_cards_opened", tl.cards);
	tl_rng = nullptr;
	case_end(d.str(), tl.evals > 0, tl.sample, tl.evals, (ll)tl.distinct.size());
}

// ---------------------------------------------------------------- family I: import of rewritten index fields
// split the exported text "sts^n^i0^cs0^i1^cs1^...^" into its fields
static bool split_sts(const std::string &text, size_t &n, std::vector<std::string> &idx, std::vector<std::string> &cs) {
	std::vector<std::string> f; size_t p = 0;
	for (;;) { size_t q = text.find('^', p); if (q == std::string::npos) { f.push_back(text.substr(p)); break; } f.push_back(text.substr(p, q - p)); p = q + 1; }
	if (f.size() < 3 || f[0] != "sts") return false;
	n = strtoul(f[1].c_str(), 0, 10);
	if (f.size() != 2 + 2 * n + 1 || !f.back().empty()) return false;
	idx.clear(); cs.clear();
	for (size_t i = 0; i < n; i++) { idx.push_back(f[2 + 2 * i]); cs.push_back(f[3 + 2 * i]); }
	return true;
}
static std::string join_sts(const std::vector<std::string> &idx, const std::vector<std::string> &cs) {
	std::string s = "sts^" + std::to_string(idx.size()) + "^";
	for (size_t i = 0; i < idx.size(); i++) s += idx[i] + "^" + cs[i] + "^";
	return s;
}

template <class E> struct ImportBase {
	std::vector<std::string> cs; size_t n;
	bool build(E &e, size_t n_, const std::string &enc) {
		n = n_;
		TMCG_StackSecret<typename E::Secret> ss; e.gen(ss, false, n);
		std::ostringstream o; o << ss;
		size_t pn; std::vector<std::string> idx;
		bool ok = split_sts(o.str(), pn, idx, cs) && pn == n && ss.size() == n;
		if (ok) for (size_t i = 0; i < n; i++) if (idx[i] != std::to_string(ss[i].first)) ok = false;
		if (!ok) violation("C02/" + enc + "/export-text-shape", "exported stack secret text is not sts^n^(index^cardsecret^)*n with the decimal indices of the secret", J().kv("n", (ll)n).kv("text", shorten(o.str(), 300)).str());
		return ok;
	}
	// returns -1 on oracle disagreement handled inside, else 0/1 accepted
	int try_import(const std::vector<std::string> &idx_text, const std::vector<size_t> *vals, bool expect, const std::string &enc, const char *cls) {
		std::string text = join_sts(idx_text, cs);
		TMCG_StackSecret<typename E::Secret> imp;
		std::string exc;
		int acc = accepted([&] { return imp.import(text); }, &exc);
		if (acc != (expect ? 1 : 0)) {
			violation("C02/" + enc + (expect ? "/import-refused-bijection" : "/import-accepted-non-bijection"),
			          expect ? "import refused a stack secret whose index vector is a bijection" : "import accepted a stack secret whose index vector is not a bijection on 0..n-1",
			          J().kv("n", (ll)n).kv("class", cls).arr("index_fields", std::vector<std::string>(idx_text.begin(), idx_text.begin() + std::min<size_t>(idx_text.size(), 80))).kv("text", shorten(text, 400)).kv("exception", exc).str());
			return acc;
		}
		if (acc && vals) {
			bool same = imp.size() == n;
			for (size_t i = 0; same && i < n; i++) if (imp[i].first != (*vals)[i]) same = false;
			std::ostringstream o; o << imp;
			if (!same || o.str() != text) violation("C02/" + enc + "/import-altered-secret", "accepted import does not hold the index vector / card secrets of the text", J().kv("n", (ll)n).kv("class", cls).kv("text", shorten(text, 400)).kv("reexport", shorten(o.str(), 400)).str());
		}
		return acc;
	}
};

template <class E> static void family_import_all(E &e, long &kc, size_t n, size_t part, size_t parts) {
	J d; d.kv("fam", "import-all-vectors").kv("enc", e.name()).kv("n", (ll)n).kv("part", (ll)part);
	if (!case_begin(kc++, d.str())) return;
	Rng r = case_rng(kc, 4); tl_rng = &r; std::string enc = e.name();
	ImportBase<E> B; ll tried = 0, acc = 0; std::string sample;
	if (B.build(e, n, enc)) {
		size_t total = 1; for (size_t i = 0; i < n; i++) total *= n;
		for (size_t code = part; code < total; code += parts) {
			std::vector<size_t> v(n); size_t c = code; for (size_t i = 0; i < n; i++) { v[i] = c % n; c /= n; }
			std::vector<std::string> t; for (size_t x : v) t.push_back(std::to_string(x));
			bool expect = is_bijection(v);
			int a = B.try_import(t, &v, expect, enc, "enumerated");
			tried++; if (a == 1) acc++;
			if (sample.empty() && !expect && code > total / 2) sample = J().kv("enc", enc).kv("src", "import").raw("index_vector", vec_json(v)).kv("bijection", expect).kv("accepted", a == 1).str();
		}
	}
	count("imports_enumerated", tried); count("imports_enumerated_accepted", acc); count("imports_" + enc, tried);
	if (parts == 1) count("import_all_vectors_n" + std::to_string(n) + "_" + enc, tried);
	tl_rng = nullptr;
	case_end(d.str(), tried > 0, sample, tried, tried);
}

template <class E> static void family_import_random(E &e, long &kc, size_t n, int reps) {
	J d; d.kv("fam", "import-random").kv("enc", e.name()).kv("n", (ll)n);
	if (!case_begin(kc++, d.str())) return;
	Rng r = case_rng(kc, 5); tl_rng = &r; std::string enc = e.name();
	ImportBase<E> B; ll tried = 0; std::set<uint64_t> distinct; std::string sample;
	if (B.build(e, n, enc)) for (int rep = 0; rep < reps; rep++) {
		std::vector<size_t> base(n); std::iota(base.begin(), base.end(), 0);
		for (size_t i = 0; i + 1 < n; i++) std::swap(base[i], base[i + r.below(n - i)]);
		auto text_of = [](const std::vector<size_t> &v) { std::vector<std::string> t; for (size_t x : v) t.push_back(std::to_string(x)); return t; };
		// controls: bijections must be accepted
		{
			std::vector<size_t> id(n), rev(n), rot(n); size_t sh = r.below(n);
			for (size_t i = 0; i < n; i++) { id[i] = i; rev[i] = n - 1 - i; rot[i] = (i + sh) % n; }
			for (auto *v : {&base, &id, &rev, &rot}) { B.try_import(text_of(*v), v, true, enc, "bijection"); tried++; count("imports_bijection_controls"); }
		}
		if (n >= 2) {
			size_t a = r.below(n), b = (a + 1 + r.below(n - 1)) % n;
			// one duplicate (value of position a copied to position b)
			{ auto v = base; v[b] = v[a]; B.try_import(text_of(v), &v, false, enc, "one-duplicate"); tried++; count("imports_class_duplicate"); distinct.insert(1); }
			// duplicate that makes the value 0 / the value n-1 disappear (boundary of the checking loop)
			for (size_t miss : {(size_t)0, n - 1}) {
				auto v = base; size_t pos = std::find(v.begin(), v.end(), miss) - v.begin(); v[pos] = (miss + 1 + r.below(n - 1)) % n;
				B.try_import(text_of(v), &v, false, enc, miss ? "missing-last-value" : "missing-first-value"); tried++; count(miss ? "imports_class_missing_last" : "imports_class_missing_first"); distinct.insert(2 + (miss ? 1 : 0));
			}
			// all positions equal
			{ std::vector<size_t> v(n, r.below(n)); B.try_import(text_of(v), &v, false, enc, "all-equal"); tried++; count("imports_class_all_equal"); distinct.insert(4); }
		}
		// one out-of-range value at a random position / at the first / at the last position
		const char *oor[] = {"n", "n+1", "2^64-1", "2^64", "2^63", "2n"};
		for (int oc = 0; oc < 6; oc++) {
			size_t pos = ((rep + oc) % 3 == 0) ? r.below(n) : ((rep + oc) % 3 == 1 ? 0 : n - 1);
			auto t = text_of(base);
			switch (oc) {
			case 0: t[pos] = std::to_string(n); break;
			case 1: t[pos] = std::to_string(n + 1); break;
			case 2: t[pos] = "18446744073709551615"; break;
			case 3: t[pos] = "18446744073709551616"; break;
			case 4: t[pos] = "9223372036854775808"; break;
			default: t[pos] = std::to_string(2 * n); break;
			}
			B.try_import(t, nullptr, false, enc, oor[oc]); tried++; count(std::string("imports_class_out_of_range_") + oor[oc]); distinct.insert(10 + oc);
			if (sample.empty() && oc == 2) sample = J().kv("enc", enc).kv("src", "import").kv("n", (ll)n).kv("class", "one index = 2^64-1").kv("position", (ll)pos).kv("accepted", false).str();
		}
	}
	// recorded, not judged (text syntax of a field is C11/C12's subject, the parsed vector stays a bijection):
	// which spellings of the index 1 does strtoul-based parsing take?
	if (n == 3 && B.cs.size() == n) {
		const char *sp[][2] = {{"empty-for-0", ""}, {"plus-sign", "+1"}, {"leading-space", " 1"}, {"leading-zero", "01"}, {"minus-2^64-1", "-18446744073709551615"}, {"trailing-space", "1 "}, {"hex", "0x1"}};
		for (auto &v : sp) {
			std::vector<std::string> t = {"2", v[1], std::string(v[0]) == "empty-for-0" ? "1" : "0"};
			TMCG_StackSecret<typename E::Secret> imp; int a = accepted([&] { return imp.import(join_sts(t, B.cs)); });
			count(std::string("observed_index_spelling_") + v[0] + (a ? "_accepted" : "_refused"));
		}
	}
	count("imports_random", tried); count("imports_" + enc, tried); if (n >= 128) count("imports_big_n", tried);
	tl_rng = nullptr;
	case_end(d.str(), tried > 0, sample, tried, (ll)distinct.size());
}


// ---------------------------------------------------------------- family R: import into an object that already holds a secret
// (the property does not restrict the state of the importing object: `in >> ss` in a loop re-uses it)
template <class E> static void family_import_reuse(E &e, long &kc, size_t n) {
	J d; d.kv("fam", "import-into-used-object").kv("enc", e.name()).kv("n", (ll)n);
	if (!case_begin(kc++, d.str())) return;
	Rng r = case_rng(kc, 6); tl_rng = &r; std::string enc = e.name();
	ImportBase<E> B; ll tried = 0; std::string sample;
	if (B.build(e, n, enc)) {
		auto text_of = [](const std::vector<size_t> &v) { std::vector<std::string> t; for (size_t x : v) t.push_back(std::to_string(x)); return t; };
		std::vector<size_t> first(n); std::iota(first.begin(), first.end(), 0);
		for (size_t i = 0; i + 1 < n; i++) std::swap(first[i], first[i + r.below(n - i)]);
		std::vector<std::vector<size_t>> seconds;
		seconds.push_back(std::vector<size_t>(n, 0));                       // all zero
		{ auto v = first; v[n - 1] = v[0]; seconds.push_back(v); }            // one duplicate
		for (auto &second : seconds) {
			TMCG_StackSecret<typename E::Secret> obj;
			std::string t1 = join_sts(text_of(first), B.cs), t2 = join_sts(text_of(second), B.cs);
			bool a1 = accepted([&] { return obj.import(t1); });
			if (!a1) { violation("C02/" + enc + "/import-refused-bijection", "import refused a stack secret whose index vector is a bijection", J().kv("text", shorten(t1, 300)).str()); continue; }
			bool a2 = accepted([&] { return obj.import(t2); });
			tried++; count("imports_into_used_object");
			if (a2) violation("C02/import-into-used-object/accepted-non-bijection/" + enc,
			                  "import() into a stack secret object that already holds an (earlier imported) secret accepted an index vector that is not a bijection",
			                  J().kv("n", (ll)n).raw("first_vector", vec_json(first)).raw("second_vector", vec_json(second)).kv("first_text", shorten(t1, 300)).kv("second_text", shorten(t2, 300)).kv("size_after", (ll)obj.size()).raw("index_component_after", vec_json(index_of(obj))).str());
			if (sample.empty()) sample = J().kv("enc", enc).kv("src", "import into used object").raw("first_vector", vec_json(first)).raw("second_vector", vec_json(second)).kv("second_accepted", a2).kv("size_after", (ll)obj.size()).str();
		}
		// a second import of another bijection must leave exactly that secret in the object
		{
			std::vector<size_t> second(first.rbegin(), first.rend());
			TMCG_StackSecret<typename E::Secret> obj; std::string t1 = join_sts(text_of(first), B.cs), t2 = join_sts(text_of(second), B.cs);
			bool a1 = accepted([&] { return obj.import(t1); }), a2 = a1 && accepted([&] { return obj.import(t2); });
			tried++; count("imports_into_used_object");
			if (a1 && !a2) violation("C02/import-into-used-object/refused-bijection/" + enc, "import() into a used object refused a stack secret whose index vector is a bijection", J().kv("second_text", shorten(t2, 300)).str());
			if (a2) {
				std::ostringstream o; o << obj;
				if (index_of(obj) != second || o.str() != t2)
					violation("C02/import-into-used-object/altered-secret/" + enc, "after an accepted import into a used object the object does not hold the index vector / card secrets of the imported text",
					          J().kv("n", (ll)n).raw("first_vector", vec_json(first)).raw("second_vector", vec_json(second)).kv("size_after", (ll)obj.size()).raw("index_component_after", vec_json(index_of(obj))).str());
				count(obj.size() == n ? "observed_second_import_replaces" : "observed_second_import_appends");
			}
		}
	}
	tl_rng = nullptr;
	case_end(d.str(), tried > 0, sample, tried, tried);
}

// ----------------------------------------------------------------
int main(int argc, char **argv) {
	init(argc, argv);
	null_cerr();
	if (!init_libTMCG()) { fprintf(stderr, "init_libTMCG failed\n"); return 2; }
	bool quick = ctx.quick();
	long kc = 0;
	// lazily created worlds: a shard only builds what its cases need
	auto will_run = [&](long k) {   // mirror of case_begin's selection (to avoid building unused worlds)
		if (ctx.only >= 0) return k == ctx.only;
		if (k < ctx.start) return false;
		return !(ctx.nshards > 1 && (k % ctx.nshards) != ctx.shard);
	};
	std::vector<size_t> dk = quick ? std::vector<size_t>{1, 2, 3} : std::vector<size_t>{1, 2, 3, 4};
	std::vector<std::pair<size_t, size_t>> qk = quick ? std::vector<std::pair<size_t, size_t>>{{1, 3}, {2, 3}, {3, 4}}
	                                                  : std::vector<std::pair<size_t, size_t>>{{1, 3}, {2, 3}, {3, 4}, {2, 6}, {4, 3}};
	// P: all n! given permutations, n = 1..5 (thorough: n = 6 for the dlog encoding with k = 2)
	for (size_t k : dk) for (size_t n = 1; n <= 5; n++) { if (will_run(kc)) { EncDlog e; e.W = dlog_world(k); family_given(e, kc, n); } else kc++; }
	for (auto kw : qk) for (size_t n = 1; n <= 5; n++) { if (kw.second < 3) continue; if (will_run(kc)) { EncQr e; e.W = qr_world(kw.first, kw.second); family_given(e, kc, n); } else kc++; }
	if (!quick) { if (will_run(kc)) { EncDlog e; e.W = dlog_world(2); family_given(e, kc, 6); } else kc++;
	              if (will_run(kc)) { EncQr e; e.W = qr_world(2, 3); family_given(e, kc, 6); } else kc++; }
	// G: generated secrets n = 1..64, 128, 511, 512
	std::vector<size_t> sizes; for (size_t n = 1; n <= 64; n++) sizes.push_back(n);
	sizes.push_back(128); sizes.push_back(511); sizes.push_back(512);
	for (size_t n : sizes) {
		std::vector<size_t> ks = quick ? std::vector<size_t>{1 + (n % 3)} : dk;
		for (size_t k : ks) {
			int reps = quick ? (n <= 64 ? 2 : 1) : (n <= 64 ? 12 : 3);
			if (will_run(kc)) { EncDlog e; e.W = dlog_world(k); family_generated(e, kc, n, reps); } else kc++;
		}
	}
	{
		std::vector<size_t> qsizes; for (size_t n = 1; n <= 16; n++) qsizes.push_back(n);
		if (!quick) { qsizes.push_back(52); qsizes.push_back(64); }
		for (size_t n : qsizes) for (auto kw : qk) {
			if (quick && kw.first != 1 + (n % 3)) continue;
			if (n > ((size_t)1 << kw.second) * 4) continue;
			if (will_run(kc)) { EncQr e; e.W = qr_world(kw.first, kw.second); family_generated(e, kc, n, quick ? 2 : 10); } else kc++;
		}
	}
	// C: chains by 2..4 shufflers
	for (size_t n : quick ? std::vector<size_t>{1, 2, 3, 5, 8, 13, 52} : std::vector<size_t>{1, 2, 3, 4, 5, 8, 13, 32, 52, 64, 128})
		for (size_t len = 2; len <= 4; len++) {
			size_t k = quick ? 3 : (len == 4 ? 4 : 3);
			if (will_run(kc)) { EncDlog e; e.W = dlog_world(k); family_chain(e, kc, n, len, quick ? 2 : 8); } else kc++;
		}
	for (size_t n : quick ? std::vector<size_t>{2, 5, 8} : std::vector<size_t>{1, 2, 3, 5, 8, 16})
		for (size_t len = 2; len <= 4; len++) {
			if (will_run(kc)) { EncQr e; e.W = qr_world(3, 4); family_chain(e, kc, n, len, quick ? 2 : 6); } else kc++;
		}
	// I: imports — all n^n index vectors
	size_t nmax = quick ? 4 : 6;
	for (size_t n = 1; n <= nmax; n++) {
		size_t parts = n <= 5 ? 1 : 8;
		for (size_t part = 0; part < parts; part++) {
			if (will_run(kc)) { EncDlog e; e.W = dlog_world(1); family_import_all(e, kc, n, part, parts); } else kc++;
			if (will_run(kc)) { EncQr e; e.W = qr_world(2, 3); family_import_all(e, kc, n, part, parts); } else kc++;
		}
	}
	// I: random non-bijections and out-of-range values up to n = 512
	for (size_t n : std::vector<size_t>{1, 2, 3, 5, 8, 16, 52, 64, 128, 511, 512}) {
		int reps = quick ? (n <= 64 ? 3 : 1) : (n <= 64 ? 60 : 12);
		if (will_run(kc)) { EncDlog e; e.W = dlog_world(1); family_import_random(e, kc, n, reps); } else kc++;
		if (n <= 64 || !quick) { if (will_run(kc)) { EncQr e; e.W = qr_world(2, 3); family_import_random(e, kc, n, n > 128 ? 3 : reps); } else kc++; }
	}
	// R: import into an object that is not empty
	for (size_t n : {2, 3, 5}) {
		if (will_run(kc)) { EncDlog e; e.W = dlog_world(1); family_import_reuse(e, kc, n); } else kc++;
		if (will_run(kc)) { EncQr e; e.W = qr_world(2, 3); family_import_reuse(e, kc, n); } else kc++;
	}
	finish();
	return 0;
}
