// w_c03.cc — C03 completeness: every honest prover/verifier pair of the registry
// (harness/protos.hh) over line channels must end with the verifier accepting.
// Oracle: expected-true.  Coverage obligation: every pair exercised (floors).
#include "protos.hh"
using namespace vf;
using namespace pr;

struct WorldSpec { const PSet *ps; int vkind; const char *tag; int loose = 0; };

int main(int argc, char **argv) {
	init(argc, argv);
	null_cerr();
	if (!init_libTMCG()) return 2;
	bool quick = ctx.quick();
	std::vector<WorldSpec> worlds = {{&PS_S, 0, "S/random-g"}, {&PS_S, 1, "S/canonical-g"}, {&PS_S, 2, "S/groupQR"}, {&PS_G, 0, "G/random-g"}};
	// importing instances that declare smaller (still admissible) sizes than the group really has: once the verifier side, once the prover side
	worlds.push_back({&PS_L, 0, "L/verifier-declares-less", 1}); worlds.push_back({&PS_L, 1, "L/prover-declares-less", 2});
	if (!quick) { worlds.push_back({&PS_G, 1, "G/canonical-g"}); worlds.push_back({&PS_D, 0, "D/random-g"}); }
	std::vector<size_t> sizes = quick ? std::vector<size_t>{2, 3, 4, 8} : std::vector<size_t>{2, 3, 4, 5, 7, 8, 16, 52};
	std::vector<size_t> qr_sizes = quick ? std::vector<size_t>{2, 3} : std::vector<size_t>{2, 3, 4, 8};
	long reps = ctx.option_l("reps", quick ? 2 : 6);
	std::map<int, World *> wcache;
	auto &F = registry();
	long k = 0;
	for (size_t wi = 0; wi < worlds.size(); wi++) for (size_t fi = 0; fi < F.size(); fi++) {
		Factory &f = F[fi];
		bool isD = worlds[wi].ps == &PS_D;
		// QR-encoding and key-generation protocols do not depend on the dlog group kind: run them in world 0 (and the default-size world)
		if (f.family == "qr" && !(wi == 0 || isD)) continue;
		if (f.name == "rabin/key-nizk" && wi != 0) continue;
		std::string desc = std::string(worlds[wi].tag) + " " + f.name;
		if (!case_begin(k++, desc)) continue;
		World *&W = wcache[(int)wi];
		if (!W) W = new World(*worlds[wi].ps, worlds[wi].vkind, ctx.seed, worlds[wi].loose);
		if (isD) W->rabin_bits = 1024;
		Rng rg = case_rng(k, 3); tl_rng = &rg;
		std::vector<size_t> ns = f.sized ? (f.family == "qr" ? qr_sizes : sizes) : std::vector<size_t>{0};
		if (isD && f.sized) ns = {2, 8};
		long long runs = 0, distinct = 0; std::string sample; long long lines = 0;
		for (size_t n : ns) {
			long r_here = (f.name == "rabin/key-nizk") ? 1 : ((n >= 16 || isD) ? 1 : reps);
			for (long r = 0; r < r_here; r++) {
				std::unique_ptr<Instance> I(f.make(*W, rg, n));
				tl_rng = nullptr;
				RunResult R = run(*I, ctx.seed, (uint64_t)k * 7919 + n * 131 + (uint64_t)r);
				tl_rng = &rg;
				runs++; distinct++; lines += (long long)(R.plines + R.vlines);
				count("runs/" + f.name);
				if (f.cyclic) count("cyclic_runs");
				if (!R.ok) {
					J w; w.kv("world", worlds[wi].tag).kv("proto", f.name).kv("variant", I->variant).kv("n", (long long)n).kv("rep", (long long)r)
					 .kv("verifier_exception", R.v_exc).kv("exc", R.exc).kv("eof_injected", R.eof).kv("prover_lines", (long long)R.plines).kv("verifier_lines", (long long)R.vlines);
					std::vector<std::string> tail; for (size_t i = R.log.size() > 12 ? R.log.size() - 12 : 0; i < R.log.size(); i++) tail.push_back(std::string(1, "PV"[R.log[i].side]) + R.log[i].kind + ":" + shorten(R.log[i].text, 60));
					w.arr("transcript_tail", tail);
					violation("C03/rejected/" + f.name, "verifier rejected an honest, unmodified run", w.str());
				}
				if (sample.empty()) sample = J().kv("world", worlds[wi].tag).kv("proto", f.name).kv("variant", I->variant).kv("n", (long long)n).kv("accepted", R.ok).kv("prover_lines", (long long)R.plines).kv("verifier_lines", (long long)R.vlines).str();
			}
		}
		count("runs_total", runs); count("lines_total", lines); count("pairs_exercised/" + std::string(worlds[wi].tag));
		tl_rng = nullptr;
		case_end(desc, runs > 0, sample, runs, distinct);
	}
	finish();
	return 0;
}
