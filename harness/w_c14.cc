// w_c14.cc — C14: reliable broadcast (CachinKursawePetzoldShoupRBC): agreement,
// integrity, order, channel isolation, and (at quiescence) validity + totality.
//
// Step network (DESIGN 2.5): StepUnicast implements the abstract aiounicast
// interface in memory.  The harness owns every in-flight message (per-link FIFO
// queues), the Byzantine parties (their messages are fabricated here, never by
// library code) and the schedule.  One Deliver(m,i,scheduler,0) call at party p
// processes at most one handed-over message (the interposed time() is frozen).
// All oracles are evaluated in C++ while the run executes (so a violation replays
// with --only <case>); a sample of complete event logs is recorded for the
// independent offline checker ref/c14_check.py.
#include "engine.hh"
#include <algorithm>
#include <array>
#include <deque>
#include <map>
#include <set>

using namespace vf;

typedef std::array<std::string, 5> Tup;   // ID, j, s, action, payload  (decimal text)

static const long long PAY_BASE = 9000000000000LL;
static long long pay_make(int sender, int ctx, long slot, int variant) { return PAY_BASE + (long long)sender * 10000000000LL + (long long)ctx * 100000000LL + (long long)slot * 1000LL + variant; }
struct Pay { bool ok = false; int sender = 0, ctx = 0, variant = 0; long slot = 0; };
static Pay pay_decode(const std::string &s) {
	Pay p; if (s.size() != 13 || s[0] != '9') return p;
	for (char c : s) if (c < '0' || c > '9') return p;
	long long v = atoll(s.c_str()) - PAY_BASE;
	p.sender = (int)(v / 10000000000LL); v %= 10000000000LL;
	p.ctx = (int)(v / 100000000LL); v %= 100000000LL;
	p.slot = (long)(v / 1000LL); p.variant = (int)(v % 1000LL); p.ok = true; return p;
}
static std::string Hdig(const std::string &pay) {        // H(m) as the library computes it for echo/ready
	static std::map<std::string, std::string> cache;
	auto it = cache.find(pay); if (it != cache.end()) return it->second;
	mpz_t m, d; mpz_init(m); mpz_init(d);
	mpz_set_str(m, pay.c_str(), 10); tmcg_mpz_shash(d, 1, m);
	std::string r = mpz_dec(d); mpz_clear(m); mpz_clear(d);
	if (cache.size() > 20000) cache.clear();
	cache[pay] = r; return r;
}
static const char *ACTN[] = {"a0", "send", "echo", "ready", "request", "answer", "retrieve", "ldeliver", "lfail", "a9"};

struct WMsg { Tup f; int from = 0, to = 0; bool byz = false; long act = -1; };
struct WEv { char k; int a, b; int mi; long x; std::string v; };
// k: 'S' honest send a->b msg mi | 'I' injected a->b | 'H' handed over a->b (x: api mode -1 Deliver, i DeliverFrom(i))
//    'A' api at a: x = op code ('S','R','U','B'), b = ctx, v = payload for B
//    'D' delivery at a: b = sender, x = via (0 Deliver, 1 DeliverFrom, 2 buffered inside DeliverFrom), mi = ctx of party, v = value
//    'Q' phase marker: x = 0 main end, 1 epilogue ctx b begin, 2 quiescent

struct CtxDef { int parent; std::string name; bool fifo; std::string id; };
struct Op { char k; int c; };

struct Cfg {
	int n = 4, t = 1; std::vector<char> byz; std::vector<CtxDef> ctx; int tmpl = 0; int fifo_mode = 1;
	std::vector<std::vector<Op>> pprog;      // per party flat program
	std::vector<int> style;                  // 0 Deliver only, 1 mixed, 2 DeliverFrom only
	int sched = 0;                           // 0 random, 1 PCT, 2 starve, 3 scripted
	int pct_d = 0; int w_api = 10, w_adv = 6, w_idle = 3;
	int adv_budget = 0, adv_profile = 0;
	std::vector<std::pair<int, int>> frozen; // starve: links withheld until nothing else can move
	int nbcast = 0;
};

struct Run;
struct StepUnicast : public aiounicast {
	Run *R;
	StepUnicast(size_t n_in, size_t j_in, Run *r) : aiounicast(n_in, j_in, aio_scheduler_roundrobin, 1, false, false, false), R(r) {}
	bool Send(mpz_srcptr, const size_t, const time_t) override { return false; }            // the broadcast layer sends 5-tuples only
	bool Send(const std::vector<mpz_srcptr> &m, const size_t i_in, const time_t) override;
	bool Receive(mpz_ptr, size_t &i_out, const size_t, const time_t) override { i_out = n; return false; }
	bool Receive(std::vector<mpz_ptr> &m, size_t &i_out, const size_t, const time_t) override;
	void Reset(const size_t, const bool) override {}
};

struct Viol { std::string key, what; size_t at; };

struct Run {
	Cfg cfg; int n, t; Rng srng, arng;      // scheduler / adversary streams
	std::vector<StepUnicast *> uni; std::vector<CachinKursawePetzoldShoupRBC *> rbc; std::vector<Rng> prng;
	std::vector<WMsg> msgs; std::vector<std::vector<std::deque<int>>> q; long inflight = 0;
	std::vector<int> handed, handed_from; std::vector<char> consumed; int consumed_mi = -1;
	std::vector<WEv> ev; std::vector<Viol> viols; std::set<std::string> vkeys;
	std::vector<size_t> pc; std::vector<std::vector<int>> stack;   // program counter, ctx stack per party
	uint64_t shash = 1469598103934665603ULL; long steps = 0, handovers = 0;
	int cur_sender = -1; std::string cur_bpay; int cur_bsent = 0;     // Broadcast in progress
	long sends_in_call = 0, nonchatter_sends = 0, deliv_in_call = 0;
	bool quiescent = false, capped = false, flood = false; long retrieves = 0; int react_mode = -1;   // directed runs: 0 ignore, 1 answer with the right payload, 2 wrong
	std::map<std::string, long long> cnt;
	// ---- monitor state
	std::vector<std::vector<int>> nb;                                 // nb[p][ctx] broadcasts so far
	struct TagSt { std::vector<int> echo_to, ready_to; std::string echo_d, ready_d; std::map<std::string, unsigned> E, Rr; std::set<std::string> rsend_pay; };
	std::vector<std::map<std::string, TagSt>> tst;                    // per honest party, per tag
	typedef std::array<long, 3> SlotKey;                              // sender, ctx, slot
	std::vector<std::set<SlotKey>> api_seen, rbc_seen;
	std::vector<std::map<std::pair<int, int>, long>> fifo_next;       // per party (sender,ctx) -> last delivered slot
	std::vector<std::vector<std::deque<std::pair<int, std::string>>>> pending; // [p][sender] (ctx,value) buffered inside DeliverFrom
	std::map<SlotKey, int> agreed; std::set<std::pair<long, long>> via_ldeliver;   // (sender, ctx) with a delivery that came out of the l-retrieve/l-deliver path
	// adversary knowledge
	struct Known { int ctx; std::string id, j, s; std::vector<std::string> pays; bool honest; };
	std::vector<Known> known; std::map<std::string, int> known_ix;
	std::map<std::pair<int, int>, long> own_next; std::vector<int> byz_ids, honest_ids;
	std::vector<int> byz_msgs;

	Run(const Cfg &c, uint64_t seed_a, uint64_t seed_b) : cfg(c), n(c.n), t(c.t), srng(seed_a, seed_b, 11), arng(seed_a, seed_b, 12) {
		uni.resize(n); rbc.assign(n, nullptr); q.assign(n, std::vector<std::deque<int>>(n));
		handed.assign(n, -1); handed_from.assign(n, -1); consumed.assign(n, 0);
		pc.assign(n, 0); stack.assign(n, std::vector<int>(1, 0)); nb.assign(n, std::vector<int>(cfg.ctx.size(), 0));
		tst.resize(n); api_seen.resize(n); rbc_seen.resize(n); fifo_next.resize(n);
		pending.assign(n, std::vector<std::deque<std::pair<int, std::string>>>(n));
		for (int i = 0; i < n; i++) { prng.push_back(Rng(seed_a, seed_b, 100 + i)); (cfg.byz[i] ? byz_ids : honest_ids).push_back(i); }
		for (int i = 0; i < n; i++) {
			uni[i] = new StepUnicast(n, i, this);
			if (!cfg.byz[i]) { tl_rng = &prng[i]; rbc[i] = new CachinKursawePetzoldShoupRBC(n, t, i, uni[i]); tl_rng = nullptr; }
		}
	}
	~Run() { for (int i = 0; i < n; i++) { delete rbc[i]; delete uni[i]; } }
	bool honest(int p) const { return !cfg.byz[p]; }
	int curctx(int p) const { return stack[p].back(); }
	void mix(uint64_t v) { shash = (shash ^ v) * 1099511628211ULL; }
	void bad(const std::string &key, const std::string &what) { cnt["viol:" + key]++; if (vkeys.insert(key).second) viols.push_back({key, what, ev.size()}); }
	static std::string tagkey(const Tup &f) { return f[0] + "|" + f[1] + "|" + f[2]; }
	int ctx_of_id(const std::string &id) const { for (size_t c = 0; c < cfg.ctx.size(); c++) if (cfg.ctx[c].id == id) return (int)c; return -1; }

	// ------------------------------------------------------------ wire
	int add_msg(const Tup &f0, int from, int to, bool byzmade) {
		// fields are compared as decimal strings by the monitors: keep them canonical (a fabricated "07" is the integer 7 on the
		// wire, and the library's answer carries "7" — comparing the two as text raised a false echo-without-r-send alarm in the
		// thorough tier, see DESIGN 8.3)
		Tup f = f0; for (auto &x : f) { mpz_t z; mpz_init(z); if (mpz_set_str(z, x.c_str(), 10) == 0) { char *c = mpz_get_str(nullptr, 10, z); x = c; free(c); } mpz_clear(z); }
		WMsg m; m.f = f; m.from = from; m.to = to; m.byz = byzmade;
		m.act = (f[3].size() <= 2 && !f[3].empty() && f[3][0] != '-') ? atol(f[3].c_str()) : -1;
		msgs.push_back(m); return (int)msgs.size() - 1;
	}
	void learn(const Tup &f, bool from_honest) {           // r-send seen on the wire: the adversary knows tag and payload
		std::string k = tagkey(f); auto it = known_ix.find(k);
		if (it == known_ix.end()) { Known kn; kn.ctx = ctx_of_id(f[0]); kn.id = f[0]; kn.j = f[1]; kn.s = f[2]; kn.honest = from_honest; kn.pays.push_back(f[4]); known_ix[k] = (int)known.size(); known.push_back(kn); }
		else { auto &pv = known[it->second].pays; if (std::find(pv.begin(), pv.end(), f[4]) == pv.end()) pv.push_back(f[4]); }
	}
	void on_send(int p, int to, const Tup &f);              // honest party p sends (called from StepUnicast::Send)
	void inject(int b, int to, const Tup &f) {             // Byzantine b puts a tuple on its link to `to`
		if (to < 0 || to >= n || cfg.byz[to]) return;
		int mi = add_msg(f, b, to, true); q[b][to].push_back(mi); inflight++; byz_msgs.push_back(mi);
		ev.push_back({'I', b, to, mi, 0, ""}); cnt["injected"]++;
		if (msgs[mi].act == 1) learn(msgs[mi].f, false);
	}
	void react(int b, int from, const Tup &f, long act);    // Byzantine b got a request / l-retrieve from honest `from`

	// ------------------------------------------------------------ monitors
	void on_deliver(int p, int via, size_t who, const std::string &val);
	void on_handed(int p, int from, const WMsg &m) {         // boundary bookkeeping for the echo/ready discipline
		if (m.act < 1 || m.act > 3) return;
		TagSt &ts = tst[p][tagkey(m.f)];
		if (m.act == 1) { if (m.f[1] == std::to_string(from)) ts.rsend_pay.insert(m.f[4]); }
		else if (m.act == 2) ts.E[m.f[4]] |= 1u << from;
		else ts.Rr[m.f[4]] |= 1u << from;
	}

	// ------------------------------------------------------------ library calls
	bool deliver_call(int p, int mode);
	bool handover(int a, int b, int mode) {
		if (q[a][b].empty()) return false;
		int mi = q[a][b].front(); handed[b] = mi; handed_from[b] = a; consumed[b] = 0;
		deliver_call(b, mode);
		bool c = consumed[b]; handed[b] = -1; handed_from[b] = -1;
		if (c) { q[a][b].pop_front(); inflight--; handovers++; }
		mix(0x1000 + a * 64 + b + (c ? 0 : 4096)); steps++;
		return c;
	}
	int pick_mode(int p) {
		int st = cfg.style[p];
		if (st == 0) return -1;
		if (st == 1) return srng.below(100) < 50 ? -1 : (int)srng.below(n);
		return (int)srng.below(n);
	}
	bool api_enabled(int p) const { return honest(p) && pc[p] < cfg.pprog[p].size(); }
	void api_step(int p);
	void do_op(int p, Op op);
	void navigate(int p, int target);                       // epilogue: recoverID along the path root -> target
	void unwind(int p);                                     // unsetID back to root

	// ------------------------------------------------------------ phases
	void adv_move();
	void drain(long cap);
	void epilogue();
	void final_checks();
	std::string trace_json(size_t from, size_t to) const;
	std::string cfg_json() const;
	std::string rec_json() const;
};

bool StepUnicast::Send(const std::vector<mpz_srcptr> &m, const size_t i_in, const time_t) {
	if (m.size() != 5) { R->bad("C14/harness/send-arity", "Send with " + std::to_string(m.size()) + " values"); return false; }
	Tup f; for (int k = 0; k < 5; k++) f[k] = mpz_dec(m[k]);
	if (i_in >= n) { R->bad("C14/discipline/send-to-nonexistent-party", "honest party addressed party >= n"); return false; }
	R->on_send((int)j, (int)i_in, f);
	return true;
}
bool StepUnicast::Receive(std::vector<mpz_ptr> &m, size_t &i_out, const size_t, const time_t) {
	int mi = R->handed[j];
	if (mi < 0 || R->consumed[j] || m.size() != 5) { i_out = n; return false; }
	const WMsg &ms = R->msgs[mi];
	for (int k = 0; k < 5; k++) mpz_set_str(m[k], ms.f[k].c_str(), 10);
	i_out = (size_t)R->handed_from[j]; R->consumed[j] = 1; R->consumed_mi = mi;
	R->ev.push_back({'H', R->handed_from[j], (int)j, mi, 0, ""});
	R->on_handed((int)j, R->handed_from[j], ms);
	if (ms.act >= 0 && ms.act <= 9) R->cnt[std::string("handed_") + ACTN[ms.act]]++; else R->cnt["handed_other"]++;
	return true;
}

void Run::on_send(int p, int to, const Tup &f) {
	int mi = add_msg(f, p, to, false); long act = msgs[mi].act;
	ev.push_back({'S', p, to, mi, 0, ""}); sends_in_call++;
	if (act != 6 && act != 8) nonchatter_sends++;
	if (act == 6 && ++retrieves > 300 && !flood) { flood = true; cnt["obs_lretrieve_flood_runs"]++; }   // Byzantine huge-s slot on a FIFO channel: unbounded l-retrieve traffic, run is cut
	if (act >= 0 && act <= 9) cnt[std::string("sent_") + ACTN[act]]++;
	std::string tk = tagkey(f);
	if (act == 1) {
		learn(f, true);
		if (cur_sender != p || f[4] != cur_bpay || f[1] != std::to_string(p) || f[0] != cfg.ctx[curctx(p)].id)
			bad("C14/discipline/r-send-not-own-broadcast", "honest party sent an r-send that is not the broadcast in progress");
		else cur_bsent++;
	} else if (act == 2) {
		TagSt &ts = tst[p][tk]; if (ts.echo_to.empty()) ts.echo_to.assign(n, 0);
		if (++ts.echo_to[to] > 1 || (!ts.echo_d.empty() && ts.echo_d != f[4])) bad("C14/discipline/second-echo", "honest party sent more than one echo for a slot");
		ts.echo_d = f[4];
		bool just = false; for (auto &pl : ts.rsend_pay) if (Hdig(pl) == f[4]) just = true;
		if (!just) bad("C14/discipline/echo-without-r-send", "echo not preceded by a matching r-send handed over from the slot's sender");
	} else if (act == 3) {
		TagSt &ts = tst[p][tk]; if (ts.ready_to.empty()) ts.ready_to.assign(n, 0);
		if (++ts.ready_to[to] > 1 || (!ts.ready_d.empty() && ts.ready_d != f[4])) bad("C14/discipline/second-ready", "honest party sent more than one ready for a slot");
		bool first = ts.ready_d.empty(); ts.ready_d = f[4];
		int E = __builtin_popcount(ts.E[f[4]]), Rr = __builtin_popcount(ts.Rr[f[4]]);
		if (E < n - t && Rr < t + 1) bad("C14/discipline/ready-without-quorum", "ready sent with " + std::to_string(E) + " matching echoes and " + std::to_string(Rr) + " matching readys handed over");
		if (first && E < n - t && Rr >= t + 1) cnt["path_ready_amplification"]++;
	} else if (act == 4) { if (to == 0 || true) cnt["path_request_msgs"]++; }
	if (to >= 0 && to < n && !cfg.byz[to]) { q[p][to].push_back(mi); inflight++; }
	else { cnt["to_byzantine_dropped"]++; if (act == 4 || act == 6) react(to, p, f, act); }
}

void Run::on_deliver(int p, int via, size_t who, const std::string &val) {
	int cc = curctx(p);
	ev.push_back({'D', p, (int)who, cc, via, val});
	static const char *VIA[] = {"Deliver", "DeliverFrom", "DeliverFrom-buffer"};
	cnt[std::string("delivered_via_") + VIA[via]]++; if (via != 1) deliv_in_call++;
	Pay py = pay_decode(val);
	if (!py.ok || py.sender >= n || py.ctx >= (int)cfg.ctx.size()) { bad("C14/creation/unknown-value", "delivered value was never put on the wire as a payload: " + shorten(val, 40)); return; }
	if ((size_t)py.sender != who) bad("C14/creation/sender-mismatch", "value delivered under another sender than the one it was broadcast by");
	if (py.ctx != cc) bad(std::string("C14/isolation/") + VIA[via], "value broadcast under channel " + cfg.ctx[py.ctx].name + " delivered while the party's channel is " + cfg.ctx[cc].name);
	if (honest(py.sender) && (py.variant != 0 || py.slot < 1 || py.slot > nb[py.sender][py.ctx])) bad("C14/creation/value-not-broadcast", "value delivered for an honest sender that it did not broadcast");
	SlotKey sk = {py.sender, py.ctx, py.slot};
	if (via != 2) { if (!api_seen[p].insert(sk).second) bad("C14/no-duplication/api", "slot returned twice by Deliver/DeliverFrom at one party"); }
	if (via != 1) {
		if (!rbc_seen[p].insert(sk).second) bad("C14/no-duplication/delivery", "slot delivered twice by one honest party");
		if (cfg.ctx[py.ctx].fifo) {
			long &last = fifo_next[p][{py.sender, py.ctx}];
			if (py.slot != last + 1) bad("C14/fifo/order", "FIFO channel: slot " + std::to_string(py.slot) + " delivered after slot " + std::to_string(last));
			last = py.slot;
		}
		auto ag = agreed.find(sk);
		if (ag == agreed.end()) agreed[sk] = py.variant; else if (ag->second != py.variant) bad("C14/agreement", "two honest parties delivered different values for one sender and slot");
	}
	if (via == 2) pending[p][who].push_back({cc, val});
	if (via == 1) {
		auto &pd = pending[p][who]; bool found = false;
		for (auto it = pd.begin(); it != pd.end(); ++it) if (it->first == cc) { if (it->second != val) bad("C14/fifo/deliverfrom-order", "DeliverFrom returned a later buffered value before an earlier one of the same channel"); found = true; break; }
		if (found) { for (auto it = pd.begin(); it != pd.end(); ++it) if (it->second == val) { pd.erase(it); break; } }
		else { bool any = false; for (auto it = pd.begin(); it != pd.end(); ++it) if (it->second == val) { pd.erase(it); any = true; break; }
			if (!any) bad("C14/creation/deliverfrom-unbuffered", "DeliverFrom returned a value that no delivery step produced"); }
	}
}

bool Run::deliver_call(int p, int mode) {
	mpz_t m; mpz_init(m); size_t who = n; bool r = false; sends_in_call = 0; consumed_mi = -1; deliv_in_call = 0;
	size_t dbuf0 = rbc[p]->deliver_buf.size();
	tl_rng = &prng[p];
	try {
		if (mode < 0) { r = rbc[p]->Deliver(m, who, aiounicast::aio_scheduler_roundrobin, 0); if (r) on_deliver(p, 0, who, mpz_dec(m)); }
		else {
			std::vector<size_t> before(n); bool had = false, foreign_only = false;
			for (int i = 0; i < n; i++) before[i] = rbc[p]->buf_mpz[i].size();
			if (before[mode] > 0) { had = true; foreign_only = true; for (auto id : rbc[p]->buf_id[mode]) if (!mpz_cmp(id, rbc[p]->ID)) foreign_only = false; }
			r = rbc[p]->DeliverFrom(m, mode, aiounicast::aio_scheduler_roundrobin, 0);
			if (r) on_deliver(p, 1, mode, mpz_dec(m));
			else {
				for (int i = 0; i < n; i++) if (rbc[p]->buf_mpz[i].size() > before[i]) {
					if (mpz_cmp(rbc[p]->buf_id[i].back(), rbc[p]->ID)) bad("C14/harness/buffer-id", "buffered value tagged with a foreign channel id");
					on_deliver(p, 2, i, mpz_dec(rbc[p]->buf_mpz[i].back()));
				}
				if (had && foreign_only) cnt["obs_deliverfrom_blocked_by_foreign_buffer"]++;
			}
		}
	} catch (std::exception &e) { bad(std::string("C14/exception/") + e.what(), "library call threw at an honest party"); }
	tl_rng = nullptr; mpz_clear(m);
	// protocol path bookkeeping (evidence only)
	size_t dbuf1 = rbc[p]->deliver_buf.size();
	bool got = deliv_in_call > 0;
	if (got && consumed_mi < 0 && dbuf1 < dbuf0) cnt["path_fifo_or_channel_buffer_delivery"]++;
	if (got && consumed_mi >= 0) { long a = msgs[consumed_mi].act; if (a == 5) cnt["path_request_answer_delivery"]++; else if (a == 7) { cnt["path_lretrieve_ldeliver_delivery"]++; const WEv &de = ev.back(); Pay py = pay_decode(de.v); if (py.ok) via_ldeliver.insert({py.sender, py.ctx}); } else if (a == 3) cnt["path_ready_quorum_delivery"]++; }
	if (dbuf1 > dbuf0) cnt["path_buffered_for_later"]++;
	if (dbuf1 + ((got && consumed_mi < 0) ? 1 : 0) < dbuf0) cnt["path_obsolete_cleanup"]++;
	return r;
}

void Run::do_op(int p, Op op) {
	tl_rng = &prng[p];
	if (op.k == 'S' || op.k == 'R') {
		const CtxDef &c = cfg.ctx[op.c];
		if (c.parent != curctx(p)) bad("C14/harness/program", "channel op from wrong context");
		if (op.k == 'S') rbc[p]->setID(c.name, c.fifo); else rbc[p]->recoverID(c.name, c.fifo);
		stack[p].push_back(op.c);
		if (mpz_dec(rbc[p]->ID) != c.id) bad("C14/harness/id-mismatch", "channel id differs from the precomputed one");
		ev.push_back({'A', p, op.c, -1, op.k, ""}); cnt[op.k == 'S' ? "api_setID" : "api_recoverID"]++;
	} else if (op.k == 'U') {
		if (stack[p].size() < 2) { bad("C14/harness/program", "unset at root"); tl_rng = nullptr; return; }
		stack[p].pop_back(); rbc[p]->unsetID(cfg.ctx[curctx(p)].fifo);
		if (mpz_dec(rbc[p]->ID) != cfg.ctx[curctx(p)].id) bad("C14/harness/id-mismatch", "channel id after unsetID differs from the precomputed one");
		ev.push_back({'A', p, curctx(p), -1, 'U', ""}); cnt["api_unsetID"]++;
	} else if (op.k == 'B') {
		int c = curctx(p); long k = ++nb[p][c];
		std::string pay = std::to_string(pay_make(p, c, k, 0));
		mpz_t m; mpz_init(m); mpz_set_str(m, pay.c_str(), 10);
		cur_sender = p; cur_bpay = pay; cur_bsent = 0;
		ev.push_back({'A', p, c, -1, 'B', pay}); cnt["api_Broadcast"]++;
		rbc[p]->Broadcast(m);
		if (cur_bsent != n) bad("C14/validity/broadcast-not-sent-to-all", "Broadcast put " + std::to_string(cur_bsent) + " r-send messages on the wire instead of n");
		cur_sender = -1; mpz_clear(m);
	}
	tl_rng = nullptr;
}
void Run::api_step(int p) { Op op = cfg.pprog[p][pc[p]++]; do_op(p, op); mix(0x900000 + p * 256 + op.k); steps++; }
void Run::navigate(int p, int target) {
	std::vector<int> path; for (int c = target; c != 0; c = cfg.ctx[c].parent) path.push_back(c);
	for (auto it = path.rbegin(); it != path.rend(); ++it) do_op(p, Op{'R', *it});
}
void Run::unwind(int p) { while (stack[p].size() > 1) do_op(p, Op{'U', 0}); }

// ================================================================ adversary
// Everything a Byzantine party "does" is a tuple put on one of its links here.
static const char *ADVK[] = {"own_rsend", "own_echo", "own_ready", "foreign_echo_ready", "answer", "request", "lmsg", "fake_rsend", "malformed", "dup"};
static std::string wrong_variant(const std::string &pay, int v) { Pay p = pay_decode(pay); if (!p.ok) return "9999999999999"; return std::to_string(pay_make(p.sender, p.ctx, p.slot, v)); }

void Run::react(int b, int from, const Tup &f, long act) {
	auto it = known_ix.find(tagkey(f));
	std::string right = (it != known_ix.end()) ? known[it->second].pays[arng.below(known[it->second].pays.size())] : "";
	std::string wrong = right.empty() ? "9999999999999" : wrong_variant(right, 900 + (int)arng.below(50));
	int c = (int)arng.below(100);
	if (react_mode == 0) return; if (react_mode == 1) c = 40; if (react_mode == 2) c = 60;
	Tup g = f;
	if (act == 4) {
		g[3] = "5"; cnt["adv_react_request"]++;
		if (c < 25) return;
		if (c < 50 && !right.empty()) { g[4] = right; inject(b, from, g); }
		else if (c < 65) { g[4] = wrong; inject(b, from, g); }
		else if (c < 85) { g[4] = wrong; inject(b, from, g); if (!right.empty()) { g[4] = right; inject(b, from, g); } }
		else if (!right.empty()) { g[4] = right; inject(b, from, g); inject(b, from, g); }
	} else {
		cnt["adv_react_retrieve"]++;
		if (c < 30) return;
		if (c < 55 && !right.empty()) { g[3] = "7"; g[4] = right; inject(b, from, g); }
		else if (c < 80) { g[3] = "7"; g[4] = wrong; inject(b, from, g); }
		else { g[3] = "8"; g[4] = "8"; inject(b, from, g); }
	}
}

void Run::adv_move() {
	if (byz_ids.empty()) return;
	int b = byz_ids[arng.below(byz_ids.size())];
	static const int W[5][10] = {
		{22, 12, 12, 10, 10, 3, 8, 6, 8, 9},     // 0 mix
		{40, 25, 25, 2, 2, 0, 0, 2, 2, 2},       // 1 equivocator
		{34, 30, 30, 0, 2, 0, 2, 0, 0, 2},       // 2 near-honest sender
		{34, 25, 25, 4, 4, 0, 2, 2, 2, 2},       // 3 stingy (partial sends)
		{5, 5, 5, 15, 15, 5, 15, 10, 15, 10}};   // 4 noise
	int prof = cfg.adv_profile % 5; int tot = 0; for (int i = 0; i < 10; i++) tot += W[prof][i];
	int r = (int)arng.below(tot), kind = 0; while (r >= W[prof][kind]) { r -= W[prof][kind]; kind++; }
	auto subset = [&](int how) { std::vector<int> d;
		if (how == 0) d = honest_ids;
		else if (how == 1) { for (int x : honest_ids) if (arng.coin()) d.push_back(x); }
		else if (how == 2) d.push_back(honest_ids[arng.below(honest_ids.size())]);
		else { size_t k = arng.below(honest_ids.size() + 1); std::vector<int> h = honest_ids; for (size_t i = 0; i < k && !h.empty(); i++) { size_t x = arng.below(h.size()); d.push_back(h[x]); h.erase(h.begin() + x); } }
		return d; };
	auto how = [&]() { if (prof == 2) return arng.below(10) < 9 ? 0 : 3; if (prof == 3) return (int)(1 + 2 * arng.below(2)); return (int)arng.below(4); };
	// own slots are Known entries with j == b
	std::vector<int> own; for (size_t i = 0; i < known.size(); i++) if (known[i].j == std::to_string(b)) own.push_back((int)i);
	if ((kind == 1 || kind == 2) && own.empty()) kind = 0;
	if ((kind >= 3 && kind <= 6) && known.empty()) kind = 0;
	if (kind == 9 && msgs.empty()) kind = 0;
	cnt[std::string("adv_") + ADVK[kind]]++;
	Tup g;
	switch (kind) {
	case 0: {
		int c; std::string s; long code;
		if (!own.empty() && arng.below(100) < 45) { const Known &k = known[own[arng.below(own.size())]]; c = k.ctx; s = k.s; code = pay_decode(k.pays[0]).slot; if (c < 0) return; }
		else {
			c = (int)arng.below(cfg.ctx.size()); long &nx = own_next[{b, c}]; int z = (int)arng.below(100);
			if (z < 8) { nx++; cnt["adv_gap_slot"]++; }
			if (z >= 97 || (z >= 94 && !cfg.ctx[c].fifo)) { code = 99000 + (long)arng.below(900); s = "1180591620717411303" + std::to_string(code); cnt["adv_huge_slot"]++; }
			else { code = ++nx; s = std::to_string(code); }
		}
		g = {cfg.ctx[c].id, std::to_string(b), s, "1", ""};
		std::vector<int> d = subset(how());
		for (int x : d) {
			int v = 1;
			if (prof == 1) v = 1 + (x % 2); else if (prof == 0) v = 1 + (int)arng.below(2); else if (prof == 3 && arng.below(10) == 0) v = 2;
			g[4] = std::to_string(pay_make(b, c, code, v)); inject(b, x, g);
		}
		break; }
	case 1: case 2: {
		const Known &k = known[own[arng.below(own.size())]];
		std::string pay = k.pays[arng.below(k.pays.size())];
		if (prof != 2 && arng.below(10) == 0) pay = wrong_variant(pay, 2);
		g = {k.id, k.j, k.s, kind == 1 ? "2" : "3", Hdig(pay)};
		for (int x : subset(how())) inject(b, x, g);
		break; }
	case 3: {
		const Known &k = known[arng.below(known.size())];
		std::string pay = k.pays[arng.below(k.pays.size())]; if (arng.below(100) < 40) pay = wrong_variant(pay, 901);
		g = {k.id, k.j, k.s, arng.coin() ? "2" : "3", Hdig(pay)};
		for (int x : subset((int)arng.below(4))) inject(b, x, g);
		break; }
	case 4: {
		const Known &k = known[arng.below(known.size())];
		std::string pay = k.pays[arng.below(k.pays.size())]; if (arng.below(100) < 50) pay = wrong_variant(pay, 902 + (int)arng.below(20));
		g = {k.id, k.j, k.s, "5", pay};
		for (int x : subset(arng.coin() ? 2 : 0)) inject(b, x, g);
		break; }
	case 5: {
		const Known &k = known[arng.below(known.size())];
		g = {k.id, k.j, k.s, "4", Hdig(k.pays[0])};
		for (int x : subset(2)) inject(b, x, g);
		break; }
	case 6: {
		const Known &k = known[arng.below(known.size())];
		std::string s = k.s; if (s.size() < 9 && arng.below(3) == 0) s = std::to_string(std::max(1L, atol(s.c_str()) + (long)arng.below(3) - 1));
		int z = (int)arng.below(3);
		std::string pay = k.pays[arng.below(k.pays.size())]; if (arng.coin()) pay = wrong_variant(pay, 930);
		g = {k.id, k.j, s, z == 0 ? "6" : (z == 1 ? "7" : "8"), z == 0 ? "6" : (z == 1 ? pay : "8")};
		for (int x : subset((int)arng.below(4))) inject(b, x, g);
		break; }
	case 7: {
		int i = honest_ids[arng.below(honest_ids.size())]; int c = (int)arng.below(cfg.ctx.size());
		std::string s; long code;
		std::vector<int> his; for (size_t q = 0; q < known.size(); q++) if (known[q].honest && known[q].j == std::to_string(i)) his.push_back((int)q);
		if (!his.empty() && arng.coin()) { const Known &k = known[his[arng.below(his.size())]]; if (k.ctx < 0) return; c = k.ctx; s = k.s; code = pay_decode(k.pays[0]).slot; }
		else { code = nb[i][c] + 1; s = std::to_string(code); }
		g = {cfg.ctx[c].id, std::to_string(i), s, "1", std::to_string(pay_make(i, c, code, 800 + (int)arng.below(50)))};
		for (int x : subset((int)arng.below(4))) inject(b, x, g);
		break; }
	case 8: {
		if (!known.empty()) { const Known &k = known[arng.below(known.size())]; g = {k.id, k.j, k.s, std::to_string(1 + arng.below(5)), k.pays[0]}; if (g[3] == "2" || g[3] == "3") g[4] = Hdig(k.pays[0]); }
		else g = {cfg.ctx[arng.below(cfg.ctx.size())].id, std::to_string(b), "1", "1", std::to_string(pay_make(b, 0, 77, 7))};
		static const char *HUGEV = "1427247692705959881058285969449495136382746624";
		int z = (int)arng.below(14);
		switch (z) {
		case 0: g[1] = std::to_string(n); break; case 1: g[1] = std::to_string(n + 5); break; case 2: g[1] = HUGEV; break; case 3: g[1] = "-1"; break;
		case 4: g[2] = "0"; break; case 5: g[2] = "-3"; break; case 6: g[2] = HUGEV; break;
		case 7: g[3] = "0"; break; case 8: g[3] = "8"; break; case 9: g[3] = "9"; break; case 10: g[3] = HUGEV; break; case 11: g[3] = "-1"; break;
		case 12: g[0] = (arng.coin() ? g[0] + "7" : std::string("424242")); break;
		default: g[3] = arng.coin() ? "2" : "3"; g[4] = std::string(HUGEV) + HUGEV + HUGEV + HUGEV + HUGEV; break; }   // over-long digest
		if ((z == 6 || z == 12) && g[3] == "1") { int sj = (g[1].size() < 3 && atoi(g[1].c_str()) >= 0 && atoi(g[1].c_str()) < n) ? atoi(g[1].c_str()) : b; int sc = ctx_of_id(g[0]) >= 0 ? ctx_of_id(g[0]) : 0; g[4] = std::to_string(pay_make(sj, sc, 98000 + (long)arng.below(999), 7)); }   // keep payloads unique per tag
		cnt[std::string("adv_malformed_") + std::to_string(z)]++;
		for (int x : subset((int)arng.below(4))) inject(b, x, g);
		break; }
	default: {
		const WMsg &m0 = msgs[arng.below(msgs.size())];
		g = m0.f; int x = (m0.byz && arng.coin() && !cfg.byz[m0.to]) ? m0.to : honest_ids[arng.below(honest_ids.size())];
		inject(b, x, g); if (arng.below(4) == 0) inject(b, x, g);
		break; }
	}
}

// ================================================================ phases
void Run::drain(long cap) {
	long work = 0;
	auto over = [&]() { return flood || ++work > cap || (long)msgs.size() > 25000; };
	for (int round = 0; round < 200; round++) {
		bool any = false;
		while (inflight > 0) {
			if (over()) { capped = true; return; }
			std::vector<std::pair<int, int>> L;
			for (int a = 0; a < n; a++) for (int b = 0; b < n; b++) if (!q[a][b].empty()) L.push_back({a, b});
			auto lk = L[srng.below(L.size())];
			handover(lk.first, lk.second, -1); any = true;
		}
		// idle round: every honest party pumps Deliver and empties DeliverFrom's buffers
		for (int p : honest_ids) {
			for (int k = 0; k < 400; k++) { if (over()) { capped = true; return; } bool r = deliver_call(p, -1); if (r || sends_in_call > 0) any = true; else break; }
			for (int pass = 0; pass < 50; pass++) { bool moved = false;
				for (int i = 0; i < n; i++) for (int k = 0; k < 400; k++) { if (over()) { capped = true; return; } bool r = deliver_call(p, i); if (r || deliv_in_call > 0 || sends_in_call > 0) { moved = true; any = true; } if (!r) break; }
				if (!moved) break; }
		}
		if (!any && inflight == 0) { quiescent = true; return; }
	}
	capped = true;
}

void Run::epilogue() {
	ev.push_back({'Q', 0, 0, -1, 0, ""});
	quiescent = false; drain(100000); if (capped) return;
	for (size_t ci = 1; ci <= cfg.ctx.size(); ci++) {
		int c = (int)(ci % cfg.ctx.size());            // 1,2,..,root last
		for (int p : honest_ids) { unwind(p); navigate(p, c); }
		ev.push_back({'Q', 0, c, -1, 1, ""});
		quiescent = false; drain(100000); if (capped) return;
	}
	for (int p : honest_ids) unwind(p);
	ev.push_back({'Q', 0, 0, -1, 2, ""});
}

void Run::final_checks() {
	if (capped || !quiescent) {
		cnt["runs_not_quiescent"]++;
		if (byz_ids.empty()) bad("C14/liveness/no-quiescence", "all-honest run did not become quiescent within the step bound");
		return;
	}
	cnt["runs_quiescent"]++;
	for (int p : honest_ids) for (int i = 0; i < n; i++) if (!pending[p][i].empty()) bad("C14/validity/stuck-in-deliverfrom-buffer", "a delivered value stayed in DeliverFrom's buffer although its channel was revisited and emptied");
	for (int i : honest_ids) for (size_t c = 0; c < cfg.ctx.size(); c++) for (long k = 1; k <= nb[i][c]; k++) {
		cnt["oracle_validity_slots"]++;
		for (int p : honest_ids) if (!api_seen[p].count(SlotKey{i, (long)c, k})) { bad("C14/validity/missing", "broadcast of honest party " + std::to_string(i) + " (channel " + cfg.ctx[c].name + ", slot " + std::to_string(k) + ") not delivered by honest party " + std::to_string(p) + " at quiescence"); }
	}
	std::set<SlotKey> all; for (int p : honest_ids) all.insert(api_seen[p].begin(), api_seen[p].end());
	for (auto &sk : all) { cnt["oracle_totality_slots"]++; if (cfg.byz[sk[0]]) cnt["byz_slots_delivered"]++;
		for (int p : honest_ids) if (!api_seen[p].count(sk)) bad(via_ldeliver.count({sk[0], sk[1]}) ? "C14/totality/after-l-deliver-retrieval" : "C14/totality", "slot (sender " + std::to_string(sk[0]) + ", channel " + cfg.ctx[sk[1]].name + ", slot " + std::to_string(sk[2]) + ") delivered by one honest party but not by party " + std::to_string(p) + " at quiescence"); }
}

// ================================================================ JSON
static std::string fmt_val(const std::string &v) {
	Pay p = pay_decode(v); if (p.ok) return "P(from" + std::to_string(p.sender) + ",ch" + std::to_string(p.ctx) + ",#" + std::to_string(p.slot) + ",v" + std::to_string(p.variant) + ")";
	if (v.size() > 12) return "d:" + v.substr(0, 8) + ".." + std::to_string(v.size());
	return v;
}
std::string Run::trace_json(size_t from, size_t to) const {
	std::vector<std::string> out;
	for (size_t i = from; i < to && i < ev.size(); i++) {
		const WEv &e = ev[i]; std::string s = std::to_string(i) + " ";
		if (e.k == 'S' || e.k == 'I' || e.k == 'H') {
			const WMsg &m = msgs[e.mi]; int c = ctx_of_id(m.f[0]);
			s += (e.k == 'S' ? "sent " : e.k == 'I' ? "BYZ-inject " : "HANDOVER ") + std::to_string(e.a) + ">" + std::to_string(e.b) + " [" + (c >= 0 ? "ch" + std::to_string(c) : fmt_val(m.f[0])) + " j=" + shorten(m.f[1], 12) + " s=" + (m.f[2].size() > 9 ? "#" + m.f[2].substr(0, 6) : m.f[2]) + " " + ((m.act >= 0 && m.act <= 9) ? ACTN[m.act] : shorten(m.f[3], 10).c_str()) + " " + fmt_val(m.f[4]) + "]";
		} else if (e.k == 'A') { s += "API p" + std::to_string(e.a) + " " + (e.x == 'S' ? "setID" : e.x == 'R' ? "recoverID" : e.x == 'U' ? "unsetID->" : "Broadcast on") + " ch" + std::to_string(e.b) + (e.v.empty() ? "" : " " + fmt_val(e.v)); }
		else if (e.k == 'D') { static const char *VIA[] = {"Deliver", "DeliverFrom", "DeliverFrom-buffer"}; s += "DELIVER p" + std::to_string(e.a) + " via " + VIA[e.x] + " sender=" + std::to_string(e.b) + " " + fmt_val(e.v) + " party-on ch" + std::to_string(e.mi); }
		else s += std::string("PHASE ") + (e.x == 0 ? "main-end" : e.x == 1 ? "epilogue ch" + std::to_string(e.b) : "end");
		out.push_back(s);
	}
	return J().arr("t", out).str();
}
std::string Run::cfg_json() const {
	J j; j.kv("n", n).kv("thr", t); std::vector<int> bz(byz_ids.begin(), byz_ids.end()); j.arrn("byz", bz);
	std::string cs = "["; for (size_t c = 0; c < cfg.ctx.size(); c++) { if (c) cs += ","; cs += J().kv("name", cfg.ctx[c].name).kv("parent", cfg.ctx[c].parent).kv("fifo", cfg.ctx[c].fifo).kv("id", cfg.ctx[c].id).str(); } cs += "]";
	j.raw("ctx", cs).kv("tmpl", cfg.tmpl).kv("sched", cfg.sched).kv("pct_d", cfg.pct_d).kv("adv_profile", cfg.adv_profile).kv("adv_budget", cfg.adv_budget);
	j.arrn("style", cfg.style);
	std::vector<std::string> pr; for (int p = 0; p < n; p++) { std::string s; for (auto &o : cfg.pprog[p]) { s += o.k; if (o.k == 'S' || o.k == 'R') s += std::to_string(o.c); } pr.push_back(s); }
	j.arr("programs", pr);
	std::vector<std::string> fz; for (auto &l : cfg.frozen) fz.push_back(std::to_string(l.first) + ">" + std::to_string(l.second)); j.arr("starved_links", fz);
	return j.str();
}
std::string Run::rec_json() const {
	std::string ms = "["; for (size_t i = 0; i < msgs.size(); i++) { const WMsg &m = msgs[i]; if (i) ms += ","; int c = ctx_of_id(m.f[0]);
		ms += "[\"" + (c >= 0 ? "c" + std::to_string(c) : m.f[0]) + "\",\"" + m.f[1] + "\",\"" + m.f[2] + "\",\"" + m.f[3] + "\",\"" + m.f[4] + "\"]"; } ms += "]";
	std::string es = "["; for (size_t i = 0; i < ev.size(); i++) { const WEv &e = ev[i]; if (i) es += ",";
		es += std::string("[\"") + e.k + "\"," + std::to_string(e.a) + "," + std::to_string(e.b) + "," + std::to_string(e.mi) + "," + std::to_string(e.x) + ",\"" + e.v + "\"]"; } es += "]";
	std::vector<std::string> ks; for (auto &v : viols) ks.push_back(v.key);
	return J().kv("k", "run").raw("cfg", cfg_json()).kv("quiescent", quiescent && !capped).raw("msgs", ms).raw("ev", es).arr("cxx", ks).str();
}

// ================================================================ schedulers
struct MainSched {
	Run &R; long adv_left; std::map<int, long> prio; std::set<long> change; long lowest = 0, stall = 0; bool released = false;
	MainSched(Run &r) : R(r), adv_left(r.byz_ids.empty() ? 0 : r.cfg.adv_budget) {
		if (R.cfg.sched == 1) {
			long est = (long)R.cfg.nbcast * (R.n + 2L * R.n * R.n) + 20;
			for (int i = 0; i < R.cfg.pct_d; i++) change.insert(1 + (long)R.srng.below(est));
		}
	}
	long pr(int th) { auto it = prio.find(th); if (it != prio.end()) return it->second; long v = 1 + (long)R.srng.below(1000000); prio[th] = v; return v; }
	void run() {
		int n = R.n; const Cfg &c = R.cfg;
		for (;;) {
			if (R.flood || R.steps > 30000 || (long)R.msgs.size() > 20000) { R.capped = true; return; }
			std::vector<std::pair<int, int>> L, Lf;
			for (int a = 0; a < n; a++) for (int b = 0; b < n; b++) if (!R.q[a][b].empty()) {
				bool fr = false; if (c.sched == 2 && !released) for (auto &f : c.frozen) if (f.first == a && f.second == b) fr = true;
				(fr ? Lf : L).push_back({a, b}); }
			std::vector<int> P; for (int p : R.honest_ids) if (R.api_enabled(p)) P.push_back(p);
			bool adv = adv_left > 0;
			if (L.empty() && P.empty() && !adv) { if (!Lf.empty()) { released = true; R.cnt["starve_released"]++; continue; } return; }
			if (c.sched == 1) {       // PCT: highest priority enabled thread runs; at a change point it drops below all others
				int best = -1; long bp = -1e18;
				for (auto &l : L) { int th = l.first * n + l.second; if (pr(th) > bp) { bp = pr(th); best = th; } }
				for (int p : P) { int th = n * n + p; if (pr(th) > bp) { bp = pr(th); best = th; } }
				if (adv) { int th = n * n + n; if (pr(th) > bp) { bp = pr(th); best = th; } }
				if (best < n * n) { size_t e0 = R.ev.size(); R.handover(best / n, best % n, R.pick_mode(best % n));
					if (R.ev.size() == e0) { if (++stall > 300) { for (auto &st : R.cfg.style) st = 0; stall = 0; R.cnt["obs_deliverfrom_only_party_stalled"]++; } } else stall = 0; }
				else if (best < n * n + n) R.api_step(best - n * n);
				else { R.adv_move(); adv_left--; R.mix(0xA0000); R.steps++; }
				if (change.count(R.steps)) { prio[best] = --lowest; R.cnt["pct_change_points"]++; }
				continue;
			}
			std::vector<int> I; for (int p : R.honest_ids) if (!R.rbc[p]->deliver_buf.empty()) I.push_back(p);
			long wL = L.empty() ? 0 : 100, wP = P.empty() ? 0 : c.w_api, wA = adv ? c.w_adv : 0, wI = I.empty() ? 0 : c.w_idle;
			if (L.empty()) { wP *= 4; wA *= 4; }
			long r = (long)R.srng.below(wL + wP + wA + wI);
			if (r < wL) { auto l = L[R.srng.below(L.size())]; size_t e0 = R.ev.size(); R.handover(l.first, l.second, R.pick_mode(l.second));
				if (R.ev.size() == e0) { if (++stall > 300) { for (auto &st : R.cfg.style) st = 0; stall = 0; R.cnt["obs_deliverfrom_only_party_stalled"]++; } } else stall = 0; }
			else if (r < wL + wP) R.api_step(P[R.srng.below(P.size())]);
			else if (r < wL + wP + wA) { R.adv_move(); adv_left--; R.mix(0xA0000); R.steps++; }
			else { int p = I[R.srng.below(I.size())]; R.deliver_call(p, R.pick_mode(p)); R.mix(0xB0000 + p); R.steps++; R.cnt["idle_deliver_calls"]++; }
		}
	}
};

// ================================================================ configurations
// channel contexts: 0 root (ID 0, FIFO), 1 "A" under root, 2 "B" under A, 3 "C" under root
static const char *TMPL[] = {"S1 b U", "S1 b S2 b U b R2 b U U", "S1 b U S3 b U R1 b U", "b S1 b U b", "S1 b U R1 b U", "S1 b R2 b U b U"};
static const int NTMPL = 6;
struct NullUnicast : public aiounicast {
	NullUnicast() : aiounicast(2, 0, aio_scheduler_roundrobin, 1, false, false, false) {}
	bool Send(mpz_srcptr, const size_t, const time_t) override { return true; }
	bool Send(const std::vector<mpz_srcptr> &, const size_t, const time_t) override { return true; }
	bool Receive(mpz_ptr, size_t &i, const size_t, const time_t) override { i = 2; return false; }
	bool Receive(std::vector<mpz_ptr> &, size_t &i, const size_t, const time_t) override { i = 2; return false; }
	void Reset(const size_t, const bool) override {}
};
static void fill_ctx(Cfg &c, int fifo_mode, Rng &r) {
	c.fifo_mode = fifo_mode;
	c.ctx = {{-1, "root", true, "0"}, {0, "chanA", true, ""}, {1, "chanB", true, ""}, {0, "chanC", true, ""}};
	for (size_t i = 1; i < c.ctx.size(); i++) c.ctx[i].fifo = fifo_mode == 1 ? true : fifo_mode == 0 ? false : r.coin();
	NullUnicast nu; CachinKursawePetzoldShoupRBC o(2, 0, 0, &nu);
	o.setID(c.ctx[1].name, true); c.ctx[1].id = mpz_dec(o.ID);
	o.setID(c.ctx[2].name, true); c.ctx[2].id = mpz_dec(o.ID); o.unsetID(); o.unsetID();
	o.setID(c.ctx[3].name, true); c.ctx[3].id = mpz_dec(o.ID); o.unsetID();
}
// per-party flat programs from a template; bc(p, seg, ctx) gives the number of broadcasts of p in segment seg
template <class F> static void fill_programs(Cfg &c, int tmpl, F bc) {
	c.tmpl = tmpl; c.pprog.assign(c.n, {}); c.nbcast = 0;
	for (int p = 0; p < c.n; p++) {
		if (c.byz[p]) continue;
		std::vector<int> st(1, 0); int seg = 0; std::istringstream is(TMPL[tmpl]); std::string tok;
		while (is >> tok) {
			if (tok[0] == 'S' || tok[0] == 'R') { int x = tok[1] - '0'; c.pprog[p].push_back({tok[0], x}); st.push_back(x); }
			else if (tok[0] == 'U') { c.pprog[p].push_back({'U', 0}); st.pop_back(); }
			else { int k = bc(p, seg, st.back()); for (int i = 0; i < k; i++) c.pprog[p].push_back({'B', 0}); c.nbcast += k; seg++; }
		}
	}
}

static Cfg random_cfg(Rng &r, int n, int t, int f, int sched) {
	Cfg c; c.n = n; c.t = t; c.byz.assign(n, 0); c.sched = sched;
	for (int k = 0; k < f; k++) { int b; do b = (int)r.below(n); while (c.byz[b]); c.byz[b] = 1; }
	fill_ctx(c, (int)r.below(3), r);
	int tmpl = (int)r.below(NTMPL);
	std::vector<int> hon; for (int i = 0; i < n; i++) if (!c.byz[i]) hon.push_back(i);
	int maxs = std::min<int>((int)hon.size(), n >= 7 ? 2 : 3), ns = 1 + (int)r.below(maxs);
	std::set<int> senders; while ((int)senders.size() < ns) senders.insert(hon[r.below(hon.size())]);
	int cap = n <= 4 ? 12 : n == 5 ? 8 : 5; int total = 0;
	std::map<std::pair<int, int>, int> perctx; std::map<std::pair<int, int>, int> plan;
	for (int rep = 0; rep < 2 && total == 0; rep++) for (int p : senders) for (int seg = 0; seg < 4; seg++) plan[{p, seg}] = (int)r.below(rep ? 2 : 3) + rep;
	fill_programs(c, tmpl, [&](int p, int seg, int cx) { if (!senders.count(p)) return 0; int k = plan[{p, seg}]; int &pc = perctx[{p, cx}]; k = std::min(k, 3 - pc); k = std::min(k, cap - total); if (k < 0) k = 0; pc += k; total += k; return k; });
	if (c.nbcast == 0) { int p = *senders.begin(); for (size_t i = 0; i <= c.pprog[p].size(); i++) if (i == c.pprog[p].size() || c.pprog[p][i].k == 'U') { c.pprog[p].insert(c.pprog[p].begin() + i, Op{'B', 0}); break; } c.nbcast = 1; }
	c.style.assign(n, 0); int sm = (int)r.below(4);
	for (int p = 0; p < n; p++) c.style[p] = sm == 0 ? 0 : sm == 1 ? 1 : sm == 2 ? (int)r.below(3) : 2;
	static const int WAPI[] = {2, 10, 40, 150}, WADV[] = {3, 10, 30}; c.w_api = WAPI[r.below(4)]; c.w_adv = WADV[r.below(3)]; c.w_idle = (int)r.below(8);
	c.pct_d = (int)r.below(4);
	if (f > 0) { c.adv_profile = (int)r.below(5); c.adv_budget = r.below(12) == 0 ? 0 : 2 + (int)r.below(n >= 7 ? 10 : 16); }
	if (sched == 2) {
		int z = (int)r.below(4); int snd = *senders.begin(); int victim = hon[r.below(hon.size())];
		if (z == 0) c.frozen.push_back({snd, victim});
		else if (z == 1) for (int p : senders) c.frozen.push_back({p, victim});
		else if (z == 2) { c.frozen.push_back({snd, victim}); c.frozen.push_back({hon[r.below(hon.size())], hon[r.below(hon.size())]}); }
		else for (int k = 0; k < 1 + (int)r.below(3); k++) c.frozen.push_back({(int)r.below(n), hon[r.below(hon.size())]});
	}
	return c;
}

// ================================================================ case bookkeeping
struct CaseAcc {
	std::set<uint64_t> hashes; long long evals = 0; std::string sample; std::set<std::string> reported; int recs = 0;
	void absorb(Run &R, const std::string &kind, int runix) {
		hashes.insert(R.shash); evals++;
		for (auto &kv : R.cnt) count(kv.first, kv.second);
		count("runs"); count("runs_" + kind); count("runs_n" + std::to_string(R.n)); count(R.t == 0 ? "runs_t0" : "runs_tmax");
		count(R.byz_ids.empty() ? "runs_all_honest" : "runs_with_byzantine"); count("runs_fifo_mode_" + std::to_string(R.cfg.fifo_mode)); count("runs_template_" + std::to_string(R.cfg.tmpl));
		count("handovers", R.handovers); count("messages", (long long)R.msgs.size());
		for (auto &v : R.viols) if (reported.insert(v.key).second) {
			size_t from = v.at > 250 ? v.at - 250 : 0;
			violation(v.key, v.what, J().kv("run_in_case", runix).kv("kind", kind).raw("cfg", R.cfg_json()).kv("event_index", (long long)v.at).kv("events_total", (long long)R.ev.size()).raw("trace_before", R.trace_json(from, v.at + 3)).str());
		}
		bool keep = (recs == 0 && (ctx.quick() || ctx.cur_case % 12 == 0)) || (!R.viols.empty() && recs < 3);
		if (keep && R.ev.size() < 6000) { record(R.rec_json()); recs++; count("recorded_runs"); }
		if (sample.empty() && R.quiescent) {
			long dl = 0; for (auto &e : R.ev) if (e.k == 'D' && e.x != 2) dl++;
			sample = J().kv("kind", kind).raw("cfg", R.cfg_json()).kv("handovers", R.handovers).kv("messages", (long long)R.msgs.size()).kv("deliveries_returned", dl).kv("quiescent", true).kv("schedule_hash", hex((const unsigned char *)&R.shash, 8)).raw("first_events", R.trace_json(0, 12)).str();
		}
	}
};
static void run_full(Run &R) {
	MainSched ms(R); ms.run();
	if (R.capped && !R.flood && (long)R.msgs.size() <= 20000) {      // only the step bound was hit (e.g. a PCT priority schedule that starves a link): finish fairly
		R.capped = false; R.cnt["obs_main_phase_step_bound"]++;
		for (int p : R.honest_ids) while (R.api_enabled(p)) R.api_step(p);
	}
	if (!R.capped) R.epilogue();
	R.final_checks();
}

// ================================================================ scripted runs (systematic + directed)
static Cfg fixed_cfg(int n, int t, std::vector<int> byz, int fifo_mode, int tmpl, std::map<int, int> bcasts /* sender -> count (first segment) */) {
	Cfg c; c.n = n; c.t = t; c.byz.assign(n, 0); for (int b : byz) c.byz[b] = 1; c.sched = 3;
	Rng dummy(1, 1); fill_ctx(c, fifo_mode, dummy);
	fill_programs(c, tmpl, [&](int p, int seg, int) { return (seg == 0 && bcasts.count(p)) ? bcasts[p] : 0; });
	c.style.assign(n, 0); return c;
}
// executes API ops of party p up to (not including) its first 'U'
static void pre_ops(Run &R, int p) { while (R.api_enabled(p) && R.cfg.pprog[p][R.pc[p]].k != 'U') R.api_step(p); }
static void finish_scripted(Run &R) {
	for (int p : R.honest_ids) while (R.api_enabled(p)) R.api_step(p);
	R.epilogue(); R.final_checks();
}
static std::vector<std::pair<int, int>> links_oldest_first(Run &R) {
	std::vector<std::pair<int, std::pair<int, int>>> v;
	for (int a = 0; a < R.n; a++) for (int b = 0; b < R.n; b++) if (!R.q[a][b].empty()) v.push_back({R.q[a][b].front(), {a, b}});
	std::sort(v.begin(), v.end()); std::vector<std::pair<int, int>> o; for (auto &x : v) o.push_back(x.second); return o;
}

// ---- n = 2: every schedule of one broadcast (sleep sets: one representative per class of
// schedules that differ only in the order of hand-overs to different parties)
struct Sys2 {
	Cfg cfg; uint64_t sa, sb; int sender; bool late_set; CaseAcc &acc; long traces = 0, blocked = 0, nodes = 0, cap; bool use_sleep = true;
	Sys2(const Cfg &c, uint64_t a, uint64_t b, int snd, bool late, CaseAcc &ac, long cap_) : cfg(c), sa(a), sb(b), sender(snd), late_set(late), acc(ac), cap(cap_) {}
	// transitions: 0..3 link a*2+b, 4 = receiver's setID
	static bool indep(int x, int y) { int rx = x == 4 ? -1 : x % 2, ry = y == 4 ? -1 : y % 2; return rx != ry; }
	void apply(Run &R, int tr) { int recv = 1 - sender; if (tr == 4) R.api_step(recv); else R.handover(tr / 2, tr % 2, -1); }
	std::vector<int> enabled(Run &R) { std::vector<int> e; for (int a = 0; a < 2; a++) for (int b = 0; b < 2; b++) if (!R.q[a][b].empty()) e.push_back(a * 2 + b);
		int recv = 1 - sender; if (R.api_enabled(recv) && R.cfg.pprog[recv][R.pc[recv]].k != 'U') e.push_back(4); return e; }
	void explore(std::vector<int> &prefix, std::set<int> sleep) {
		if (traces >= cap) return;
		nodes++;
		Run R(cfg, sa, sb);
		pre_ops(R, sender); if (!late_set) pre_ops(R, 1 - sender);
		for (int tr : prefix) apply(R, tr);
		std::vector<int> en = enabled(R);
		if (en.empty()) { finish_scripted(R); traces++; acc.absorb(R, "sys2", (int)traces); return; }
		std::vector<int> done; bool any = false;
		for (int tr : en) {
			if (use_sleep && sleep.count(tr)) continue;
			any = true;
			std::set<int> ns; for (int s : sleep) if (indep(s, tr)) ns.insert(s); for (int s : done) if (indep(s, tr)) ns.insert(s);
			prefix.push_back(tr); explore(prefix, ns); prefix.pop_back();
			done.push_back(tr);
		}
		if (!any) blocked++;
	}
};

// ---- n = 4: oldest-message-first order with at most two deviations.
// FREEZE(k, link): from step k on the link is withheld until nothing else can be handed over;
// SWAP(k, c): at step k the c-th oldest eligible link is served instead of the oldest.
struct Dev { char kind; int k; int x; };
static long run_deviations(Run &R, const std::vector<Dev> &devs, bool finish = true) {
	for (int p : R.honest_ids) pre_ops(R, p);
	std::set<std::pair<int, int>> frozen; long k = 0;
	for (;; k++) {
		if (k > 20000) { R.capped = true; break; }
		for (auto &d : devs) if (d.kind == 'F' && d.k == k) frozen.insert({d.x / R.n, d.x % R.n});
		std::vector<std::pair<int, int>> all = links_oldest_first(R), el;
		if (all.empty()) break;
		for (auto &l : all) if (!frozen.count(l)) el.push_back(l);
		if (el.empty()) { frozen.clear(); el = all; }
		size_t ix = 0; for (auto &d : devs) if (d.kind == 'S' && d.k == k && (size_t)d.x < el.size()) ix = d.x;
		R.handover(el[ix].first, el[ix].second, -1);
	}
	if (finish) finish_scripted(R);
	return k;
}
struct Sys4Variant { int sender, fifo, nb; std::vector<int> byz; };
static const Sys4Variant SYS4V[] = {{3, 0, 1, {}}, {0, 1, 2, {}}, {3, 0, 1, {1}}, {1, 0, 1, {0}}, {3, 1, 2, {}}, {2, 2, 2, {3}}};

// ---- directed: ready quorum first, r-request sent, then the sender's r-send, then the answers
static void directed_request_then_payload(CaseAcc &acc, uint64_t sa, uint64_t sb, int fifo, int victim, int variant) {
	Cfg c = fixed_cfg(4, 1, {}, fifo, 0, {{3, fifo ? 2 : 1}});
	Run R(c, sa, sb);
	for (int p : R.honest_ids) pre_ops(R, p);
	bool requested = false, payload_in = false; long guard = 0;
	for (;;) {
		if (++guard > 5000) { R.capped = true; break; }
		if (!requested) for (size_t i = 0; i < R.msgs.size(); i++) if (R.msgs[i].from == victim && R.msgs[i].act == 4) requested = true;
		std::vector<std::pair<int, int>> all = links_oldest_first(R), el;
		if (all.empty()) break;
		if (!requested) { for (auto &l : all) if (!(l.first == 3 && l.second == victim)) el.push_back(l); }
		else if (!payload_in) { for (auto &l : all) if (l.first == 3 && l.second == victim) el.push_back(l);
			// hand over the withheld r-send(s) of the sender first, then (variant 1) let the answers race in reverse order
			if (!el.empty() && R.msgs[R.q[3][victim].front()].act != 1) el.clear();
			if (el.empty()) payload_in = true; }
		if (el.empty()) { el = all; if (variant == 1) std::reverse(el.begin(), el.end()); }
		R.handover(el[0].first, el[0].second, -1);
	}
	if (requested) count("directed_request_before_payload"); else R.bad("C14/harness/directed", "directed schedule did not reach the r-request step");
	finish_scripted(R);
	acc.absorb(R, "directed", variant + 2 * fifo + 4 * victim);
}

// hands over oldest-first every message whose link head is not held, until nothing eligible is left
template <class F> static void pump(Run &R, F hold) {
	for (long guard = 0; guard < 20000; guard++) {
		std::vector<std::pair<int, int>> all = links_oldest_first(R); bool did = false;
		for (auto &l : all) { const WMsg &m = R.msgs[R.q[l.first][l.second].front()]; if (hold(l.first, l.second, m)) continue; R.handover(l.first, l.second, -1); did = true; break; }
		if (!did) { bool idle = false; for (int p : R.honest_ids) if (!R.rbc[p]->deliver_buf.empty()) { size_t before = R.ev.size(); R.deliver_call(p, -1); if (R.ev.size() != before) idle = true; } if (!idle) return; }
	}
	R.capped = true;
}
static Tup tup(const Run &R, int c, int j, long s, int act, const std::string &pay) { return Tup{R.cfg.ctx[c].id, std::to_string(j), std::to_string(s), std::to_string(act), pay}; }

// ---- directed: Byzantine sender 3 on FIFO channel A lets P = 0 acknowledge slot 2 before slot 1, P retrieves
// slot 1 with l-retrieve/l-deliver from parties that delivered it; the late ready quorum for slot 1 is then obsolete
static void directed_lretrieve(CaseAcc &acc, uint64_t sa, uint64_t sb) {
	Cfg c = fixed_cfg(4, 1, {3}, 1, 0, {});
	Run R(c, sa, sb); R.react_mode = 1;
	for (int p : R.honest_ids) pre_ops(R, p);
	std::string v1 = std::to_string(pay_make(3, 1, 1, 1)), v2 = std::to_string(pay_make(3, 1, 2, 1));
	for (int x : {1, 2}) { R.inject(3, x, tup(R, 1, 3, 1, 1, v1)); R.inject(3, x, tup(R, 1, 3, 1, 2, Hdig(v1))); R.inject(3, x, tup(R, 1, 3, 1, 3, Hdig(v1))); }
	for (int x : {0, 1, 2}) { R.inject(3, x, tup(R, 1, 3, 2, 1, v2)); R.inject(3, x, tup(R, 1, 3, 2, 2, Hdig(v2))); R.inject(3, x, tup(R, 1, 3, 2, 3, Hdig(v2))); }
	pump(R, [](int a, int b, const WMsg &) { return a == 0 && b == 0; });      // party 0's messages to itself are in flight
	long ld = R.cnt["path_lretrieve_ldeliver_delivery"];
	pump(R, [](int, int, const WMsg &) { return false; });
	if (ld > 0) count("directed_lretrieve_ldeliver_delivery"); else R.bad("C14/harness/directed", "directed schedule did not reach the l-deliver delivery");
	finish_scripted(R);
	acc.absorb(R, "directed", 100);
}

// ---- directed: parties on different channels.  P = 0 is on FIFO channel A; parties 1 and 2 have moved on to channel C.
// Byzantine sender 3 gives slot 1 of channel A only to parties 1 and 2 (never enough for a quorum) and completes slot 2.
// P asks for slot 1 with l-retrieve.  Totality/agreement must survive whatever the parties on channel C answer.
static void directed_cross_channel_retrieve(CaseAcc &acc, uint64_t sa, uint64_t sb, int fifoC, int variant) {
	Cfg c = fixed_cfg(4, 1, {3}, 1, 2, {});           // template 2: S1 b U S3 b U R1 b U
	c.ctx[3].fifo = fifoC;
	Run R(c, sa, sb); R.react_mode = variant == 0 ? 1 : 2;
	pre_ops(R, 0);                                     // party 0: setID(A)
	for (int p : {1, 2}) { pre_ops(R, p); R.api_step(p); pre_ops(R, p); }   // parties 1,2: setID(A) unsetID setID(C)
	std::string v1 = std::to_string(pay_make(3, 1, 1, 1)), v2 = std::to_string(pay_make(3, 1, 2, 1)), w1 = std::to_string(pay_make(3, 3, 1, 1));
	if (fifoC) for (int x : {0, 1, 2}) { R.inject(3, x, tup(R, 3, 3, 1, 1, w1)); R.inject(3, x, tup(R, 3, 3, 1, 2, Hdig(w1))); R.inject(3, x, tup(R, 3, 3, 1, 3, Hdig(w1))); }   // one complete slot on C
	for (int x : {1, 2}) R.inject(3, x, tup(R, 1, 3, 1, 1, v1));
	for (int x : {0, 1, 2}) { R.inject(3, x, tup(R, 1, 3, 2, 1, v2)); R.inject(3, x, tup(R, 1, 3, 2, 2, Hdig(v2))); R.inject(3, x, tup(R, 1, 3, 2, 3, Hdig(v2))); }
	pump(R, [](int, int, const WMsg &) { return false; });
	R.react_mode = 0;                                  // the Byzantine party is silent from here on
	count("directed_cross_channel_runs");
	finish_scripted(R);
	acc.absorb(R, "directed", 200 + 2 * fifoC + variant);
}

// ================================================================ cases
struct RClass { int sched, n, t, fmin, fmax, reps_q; };
int main(int argc, char **argv) {
	init(argc, argv);
	null_cerr();
	if (!init_libTMCG()) { fprintf(stderr, "init_libTMCG failed\n"); return 2; }
	bool quick = ctx.quick();
	const int RUNS = (int)ctx.option_l("runs_per_case", 10);
	const int mult = (int)ctx.option_l("mult", quick ? 1 : 10);
	static const char *SCHEDN[] = {"random", "pct", "starve"};
	std::vector<RClass> classes;
	for (int sched = 0; sched < 3; sched++) {
		int w = sched == 0 ? 3 : 2;
		classes.push_back({sched, 2, 0, 0, 0, 2 * w}); classes.push_back({sched, 3, 0, 0, 0, 2 * w});
		for (int n : {4, 5, 7}) { int tm = (n - 1) / 3; int hv = n == 7 ? 1 : 2;
			classes.push_back({sched, n, 0, 0, 0, 1 * w}); classes.push_back({sched, n, tm, 0, 0, hv * w}); classes.push_back({sched, n, tm, 1, tm, (n == 4 ? 5 : n == 5 ? 3 : 2) * w}); }
	}
	long k = 0;
	// ---- A. seeded exploration: random link choice, PCT priorities, starved links
	for (auto &rc : classes) for (int rep = 0; rep < rc.reps_q * mult; rep++) {
		J d; d.kv("class", "explore").kv("sched", SCHEDN[rc.sched]).kv("n", rc.n).kv("t", rc.t).kv("byz", rc.fmax > 0).kv("rep", rep);
		if (!case_begin(k++, d.str())) continue;
		CaseAcc acc; Rng cr = case_rng(k, 7);
		for (int i = 0; i < RUNS; i++) {
			int f = rc.fmax == 0 ? 0 : rc.fmin + (int)cr.below(rc.fmax - rc.fmin + 1);
			Cfg c = random_cfg(cr, rc.n, rc.t, f, rc.sched);
			Run R(c, ctx.seed * 1000003ULL + (uint64_t)k, (uint64_t)i + 1);
			run_full(R); acc.absorb(R, SCHEDN[rc.sched], i);
		}
		case_end(d.str() + std::to_string(ctx.seed), acc.evals > 0, acc.sample, acc.evals, (long long)acc.hashes.size());
	}
	// ---- B. n = 2: all schedules of a single broadcast
	for (int raw = 0; raw < (quick ? 1 : 2); raw++) for (int sender = 0; sender < 2; sender++) for (int fifo = 0; fifo < 2; fifo++) for (int late = 0; late < 2; late++) {
		J d; d.kv("class", "sys2").kv("sender", sender).kv("fifo", fifo).kv("receiver_sets_channel_late", late).kv("sleep_sets", !raw);
		if (!case_begin(k++, d.str())) continue;
		CaseAcc acc; Cfg c = fixed_cfg(2, 0, {}, fifo, 0, {{sender, 1}});
		Sys2 s2(c, ctx.seed * 7919ULL + 5, (uint64_t)k, sender, late, acc, ctx.option_l("sys2_cap", quick ? 1500 : 400000));
		s2.use_sleep = !raw; if (raw) s2.cap = ctx.option_l("sys2_raw_cap", 6000);
		std::vector<int> prefix; s2.explore(prefix, {});
		count("sys2_complete_schedules", s2.traces); count("sys2_sleep_blocked", s2.blocked); count("sys2_nodes", s2.nodes); if (s2.traces >= s2.cap) count("sys2_capped_cases");
		case_end(d.str(), acc.evals > 0, acc.sample, acc.evals, (long long)acc.hashes.size());
	}
	// ---- C. n = 4: oldest-first order with <= 2 deviations
	{
		int nvar = quick ? 4 : 6; const int B = 4, NBLK = 30;
		for (int v = 0; v < nvar; v++) for (int blk = 0; blk < NBLK; blk++) {
			J d; d.kv("class", "sys4").kv("variant", v).kv("first_deviation_steps", std::to_string(blk * B) + ".." + std::to_string(blk * B + B - 1));
			if (!case_begin(k++, d.str())) continue;
			const Sys4Variant &sv = SYS4V[v]; CaseAcc acc; Rng cr = case_rng(k, 9);
			Cfg c = fixed_cfg(4, 1, sv.byz, sv.fifo, 0, {{sv.sender, sv.nb}});
			if (sv.fifo == 2) { c.ctx[1].fifo = true; }
			uint64_t sa = ctx.seed * 104729ULL + 3, sb = 77 + v;
			long Lb; { Run R(c, sa, sb); Lb = run_deviations(R, {}); if (blk == 0) acc.absorb(R, "sys4", 0); }
			int stride = (int)ctx.option_l("sys4_stride", quick ? (v < 2 ? 4 : 8) : (v < 2 ? 1 : 2));
			int npairs = (int)ctx.option_l("sys4_pairs", quick ? 1 : 3);
			int ri = 1;
			for (int k1 = blk * B; k1 < blk * B + B && k1 < Lb; k1++) {
				if (k1 % stride) continue;
				std::vector<Dev> firsts;
				for (int x = 0; x < 16; x++) if (!c.byz[x % 4] && !c.byz[x / 4]) firsts.push_back({'F', k1, x});
				for (int x = 1; x <= (quick ? 3 : 6); x++) firsts.push_back({'S', k1, x});
				for (auto &d1 : firsts) {
					{ Run R(c, sa, sb); run_deviations(R, {d1}); acc.absorb(R, "sys4", ri++); count("sys4_single_deviation_runs"); }
					std::vector<Dev> seconds;
					if (!quick && d1.kind == 'F') for (int x = d1.x + 1; x < 16; x++) if (!c.byz[x % 4] && !c.byz[x / 4]) seconds.push_back({'F', k1, x});
					for (int j = 0; j < npairs; j++) { int k2 = k1 + 1 + (int)cr.below((uint64_t)(Lb + 6 - k1)); if (cr.coin()) seconds.push_back({'F', k2, (int)cr.below(16)}); else seconds.push_back({'S', k2, 1 + (int)cr.below(4)}); }
					for (auto &d2 : seconds) { Run R(c, sa, sb); run_deviations(R, {d1, d2}); acc.absorb(R, "sys4", ri++); count("sys4_double_deviation_runs"); }
				}
			}
			case_end(d.str(), acc.evals > 0, acc.sample, acc.evals, (long long)acc.hashes.size());
		}
	}
	// ---- D. directed schedules around the payload request
	{
		J d; d.kv("class", "directed").kv("what", "ready quorum, r-request, then r-send, then answers");
		if (case_begin(k++, d.str())) {
			CaseAcc acc;
			for (int fifo = 0; fifo < 2; fifo++) for (int victim = 0; victim < 3; victim++) for (int variant = 0; variant < 2; variant++)
				directed_request_then_payload(acc, ctx.seed * 31ULL + 1, 5, fifo, victim, variant);
			directed_lretrieve(acc, ctx.seed * 31ULL + 2, 6);
			for (int fifoC = 0; fifoC < 2; fifoC++) for (int variant = 0; variant < 2; variant++) directed_cross_channel_retrieve(acc, ctx.seed * 31ULL + 3, 7, fifoC, variant);
			case_end(d.str(), acc.evals > 0, acc.sample, acc.evals, (long long)acc.hashes.size());
		}
	}
	finish();
	return 0;
}
