// c20_core.hh — tamper engine and object-model check helpers for w_c20.cc
#pragma once
#include "c20_util.hh"
#include <functional>
#include <signal.h>

namespace c20 {

static KeyRing KR;
static const time_t NOW0 = 1600000000;       // initial value of the interposed clock
static std::string g_cwd;
static bool g_thorough = false;

struct Stats { long long evals = 0; std::set<std::string> distinct; std::string sample; bool reached = false; };

// at most a few witnesses per violation key and process (a broken library fires thousands)
static std::map<std::string, int> g_vcount;
inline void viol(const std::string &key, const std::string &what, const std::string &wit) {
	int &n = g_vcount[key]; if (n++ < 2) violation(key, what, wit);
}

// what the sweep was doing when the process died (printed from the sanitizer's death callback,
// so that the runner's crash witness carries the concrete input)
static const char *g_cur_kind = "", *g_cur_part = ""; static const Oct *g_cur_art = nullptr; static const Oct *g_cur_aux = nullptr; static long g_cur_pos = -1; static unsigned g_cur_mask = 0; static std::string g_cur_region;
#if defined(__SANITIZE_ADDRESS__)
extern "C" void __sanitizer_set_death_callback(void (*)(void));
#endif
static void death_note() {
	static bool done = false; if (done || !g_cur_art) return; done = true;
	fprintf(stderr, "\nC20-LAST-INPUT kind=%s part=%s region=%s offset=%ld xor_mask=0x%02x case=%ld\nC20-LAST-INPUT untouched_artefact_hex=%s\n", g_cur_kind, g_cur_part, g_cur_region.c_str(), g_cur_pos, g_cur_mask, ctx.cur_case, hexs(*g_cur_art, 6000).c_str());
	if (g_cur_aux) fprintf(stderr, "C20-LAST-INPUT companion_hex=%s\n", hexs(*g_cur_aux, 3000).c_str());
	fflush(stderr);
}

static void abort_note(int sig) { death_note(); signal(sig, SIG_DFL); raise(sig); }

inline void setup() {
#if defined(__SANITIZE_ADDRESS__)
	__sanitizer_set_death_callback(death_note);
#endif
	signal(SIGABRT, abort_note);      // libgcrypt's log_bug()/assert end in abort()
	g_thorough = ctx.thorough();
	char buf[4096]; g_cwd = getcwd(buf, sizeof buf) ? buf : ".";
	KR.ctime = NOW0 - 86400 * 30;
	g_vtime = NOW0;
}

inline std::vector<unsigned> masks(Rng &r) {
	std::vector<unsigned> m;
	if (g_thorough) { for (int i = 0; i < 8; i++) m.push_back(1u << i); m.push_back(0xFF); }
	else { m.push_back(0x01); m.push_back(0x80); }
	unsigned x; do x = 1 + r.below(255); while (std::find(m.begin(), m.end(), x) != m.end());
	m.push_back(x); return m;
}

struct Acc { bool accepted = false; std::string sem; };
typedef std::function<Acc(const Oct &)> AccFn;
typedef std::function<bool(const std::string &)> JudgeFn;

// region name without packet prefix: "sig.hashed" -> "hashed"
inline std::string rsuffix(const std::string &r) { size_t p = r.find('.'); return p == std::string::npos ? r : r.substr(p + 1); }

// bits that the format itself defines as ignored by every receiver: bit 7 of the last octet of an X25519 public value
inline bool format_ignored(const std::string &reg, unsigned mask) { return reg == "pkesk.x25519_last_octet" && mask == 0x80; }

// the generic single-octet sweep.  sem0: semantic content of the untouched artefact.
inline void sweep(const std::string &kind, const std::string &part, const Oct &art, const Layout &L, JudgeFn judged,
                  const std::string &sem0, AccFn acc, Rng &r, const std::string &ctxjson, Stats &st) {
	if (!L.ok) viol("C20/harness/layout-" + kind, "the packet walker could not label the artefact", J().kv("part", part).kv("artefact", hexs(art, 2048)).raw("ctx", ctxjson).str());
	std::vector<size_t> pos = positions(L, art.size(), r, g_thorough ? 4096 : 150, g_thorough ? 700 : 150);
	std::vector<unsigned> mk = masks(r);
	Oct t(art);
	g_cur_kind = kind.c_str(); g_cur_part = part.c_str(); g_cur_art = &art;
	for (size_t p : pos) {
		const std::string &reg = L.at(p);
		bool jd = judged(reg);
		g_cur_region = reg; g_cur_pos = (long)p;
		// format-aware substitutions: the first octet of an MPI value is the point-format octet of EC keys,
		// signatures and ephemeral keys (0x04 uncompressed, 0x40 native, 0x02/0x03 compressed)
		std::vector<unsigned> mk2(mk);
		{ const Region *rg = L.region_at(p);
		  if (rg && rg->off == p && (rsuffix(reg) == "mpi_val" || rsuffix(reg) == "point_format")) for (unsigned v : {0x00u, 0x02u, 0x03u, 0x04u, 0x40u, 0x41u, 0xFFu}) { unsigned m = art[p] ^ v; if (m && std::find(mk2.begin(), mk2.end(), m) == mk2.end()) mk2.push_back(m); } }
		for (unsigned m : mk2) {
			t[p] = art[p] ^ m; g_cur_mask = m;
			Acc a = acc(t);
			st.evals++;
			count("flip/" + kind + "/" + reg);
			if (a.accepted && format_ignored(reg, m) && a.sem == sem0) { count("equiv_accepted/" + kind + "/" + reg + "(ignored-bit)"); continue; }
			if (a.accepted) {
				std::string w = J().kv("part", part).kv("region", reg).kv("offset", (long long)p).kv("xor_mask", (long long)m)
					.kv("artefact_hex", hexs(art, 8192)).kv("accepted_content", shorten(a.sem, 600)).kv("original_content", shorten(sem0, 600)).raw("ctx", ctxjson).str();
				if (jd) viol("C20/tamper-accepted/" + kind + "/" + reg, "a flipped octet in a region that is signed/authenticated was accepted", w);
				else if (a.sem != sem0) viol("C20/tamper-accepted-different-content/" + kind + "/" + reg, "a flipped framing/unhashed octet made the library accept different content", w);
				else count("equiv_accepted/" + kind + "/" + reg);
			}
		}
		t[p] = art[p];
		st.distinct.insert(kind + "/" + part + "/" + reg + "/" + std::to_string(p));
	}
	g_cur_art = nullptr; g_cur_aux = nullptr;
}

// ------------------------------------------------------------------ signatures (object model)
inline std::string sig_sem(const TMCG_OpenPGP_Signature *s) {
	std::string x = "v" + std::to_string((int)s->version) + " t" + std::to_string((int)s->type) + " pk" + std::to_string((int)s->pkalgo) + " h" + std::to_string((int)s->hashalgo)
		+ " hspd=" + hex(s->hspd) + " ct=" + std::to_string((long long)s->creationtime) + " exp=" + std::to_string((long long)s->expirationtime);
	if (s->pkalgo == TMCG_OPENPGP_PKALGO_RSA || s->pkalgo == TMCG_OPENPGP_PKALGO_RSA_SIGN_ONLY) x += " s=" + mpihex(s->rsa_md);
	else x += " r=" + mpihex(s->dsa_r) + " s=" + mpihex(s->dsa_s);
	return x;
}

enum SKind { S_DOC, S_STANDALONE, S_KEY, S_KEYSUB, S_CERT, S_UAT };
struct SigTarget { SKind k = S_DOC; Oct data; Oct h1, h2; std::string uid; Oct uat; };
struct SigRes { bool parsed = false, crypto = false, validity = false; std::string sem; };

inline bool verify_target(TMCG_OpenPGP_Signature *sig, gcry_sexp_t key, const SigTarget &t) {
	return accepted([&] {
		switch (t.k) {
		case S_DOC: return sig->VerifyData(key, t.data, 0);
		case S_STANDALONE: return sig->Verify(key, 0);
		case S_KEY: return sig->Verify(key, t.h1, 0);
		case S_KEYSUB: return sig->Verify(key, t.h1, t.h2, 0);
		case S_CERT: return sig->Verify(key, t.h1, t.uid, 0);
		case S_UAT: return sig->Verify(key, t.h1, t.uat, 0, 0);
		}
		return false; });
}

inline TMCG_OpenPGP_Signature *parse_sig(const Oct &sigpkt) {
	TMCG_OpenPGP_Signature *sig = nullptr;
	bool ok = accepted([&] { return PGP::SignatureParse(sigpkt, 0, sig); });
	return ok ? sig : nullptr;      // on failure the library has already destroyed the object
}

inline SigRes lib_check(const Oct &sigpkt, gcry_sexp_t key, const SigTarget &t, time_t keyctime) {
	SigRes R; TMCG_OpenPGP_Signature *sig = parse_sig(sigpkt);
	if (!sig) return R;
	R.parsed = true; R.sem = sig_sem(sig);
	R.crypto = key ? verify_target(sig, key, t) : false;
	R.validity = accepted([&] { return sig->CheckValidity(keyctime, 0); });
	delete sig; return R;
}

// parse a (possibly tampered) key block; returns nullptr when refused
inline TMCG_OpenPGP_Pubkey *parse_pub(const Oct &blk) {
	TMCG_OpenPGP_Pubkey *pub = nullptr;
	bool ok = accepted([&] { return PGP::PublicKeyBlockParse(blk, 0, pub); });
	if (!ok) return nullptr;
	if (!pub) return nullptr;
	if (!pub->Good() || !pub->key) { delete pub; return nullptr; }
	return pub;
}

// which regions of a signature packet must make verification fail
inline bool sig_judged(const std::string &reg) { std::string s = rsuffix(reg); return s == "hashed" || s == "mpi_val"; }
// body regions of a key packet
inline bool keybody_region(const std::string &reg) { std::string s = rsuffix(reg); return s == "ver" || s == "time" || s == "algo" || s == "v5len" || s == "oid" || s == "mpi_bits" || s == "mpi_val" || s == "kdf"; }

// structural tamper: put subpackets into the (empty) unhashed area of a signature packet made by the library
inline Oct inject_unhashed(const Oct &sigpkt, const Oct &subpkts) {
	Layout L = walk(sigpkt); const Region *h = L.find("sig.hashed"), *u = L.find("sig.unhashed"), *hd = L.find("sig.hdr");
	if (!L.ok || !h || !u || !hd) return Oct();
	Oct body = sub(sigpkt, h->off, h->len);
	body.push_back((subpkts.size() >> 8) & 0xFF); body.push_back(subpkts.size() & 0xFF); app(body, subpkts);
	app(body, sub(sigpkt, u->off + u->len, sigpkt.size()));
	Oct out; PGP::PacketTagEncode(2, out); PGP::PacketLengthEncode(body.size(), out); app(out, body); return out;
}
inline void unhashed_injection(const std::string &kind, const Oct &sigpkt, gcry_sexp_t key, const SigTarget &t, time_t keyct, time_t sigtime, const std::string &sem0, const std::string &cj, Stats &st) {
	struct Inj { const char *name; std::vector<unsigned char> sp; };
	unsigned long ft = (unsigned long)sigtime + 40000000UL;
	std::vector<Inj> inj = {
		{"creation-time", {5, 2, (unsigned char)(ft >> 24), (unsigned char)(ft >> 16), (unsigned char)(ft >> 8), (unsigned char)ft}},
		{"expiration-time", {5, 3, 0x7F, 0xFF, 0xFF, 0x00}},
		{"key-expiration", {5, 9, 0x00, 0x00, 0x00, 0x01}},
		{"issuer", {9, 16, 1, 2, 3, 4, 5, 6, 7, 8}},
		{"revocable-exportable", {2, 7, 0, 2, 4, 0}},
		{"all", {5, 2, (unsigned char)(ft >> 24), (unsigned char)(ft >> 16), (unsigned char)(ft >> 8), (unsigned char)ft, 5, 3, 0, 0, 0, 1, 2, 27, 0xFF}}};
	for (auto &i : inj) {
		Oct sp(i.sp.begin(), i.sp.end()), tp = inject_unhashed(sigpkt, sp);
		if (tp.empty()) continue;
		SigRes q = lib_check(tp, key, t, keyct); st.evals++; count("struct/" + kind + "/unhashed-" + i.name);
		if (q.parsed && q.crypto && q.sem != sem0)
			viol("C20/tamper-accepted-different-content/" + kind + "/sig.unhashed-injection", std::string("subpacket (") + i.name + ") injected into the unhashed area changed what the verified signature says",
				J().kv("injected", i.name).kv("tampered_sig_hex", hexs(tp, 4096)).kv("accepted_content", shorten(q.sem, 600)).kv("original_content", shorten(sem0, 600)).raw("ctx", cj).str());
		else if (q.parsed && q.crypto) count("equiv_accepted/" + kind + "/sig.unhashed-injection");
		st.distinct.insert(kind + "/struct/unhashed-" + i.name);
	}
}

// validity catalogue on one signature packet (times through the interposed clock and the
// key-creation-time parameter).  sigtime/sigexp are what the harness put into the packet.
inline void validity_checks(const std::string &kind, const Oct &sigpkt, gcry_sexp_t key, const SigTarget &t, time_t sigtime, time_t sigexp,
                            int hashalgo, const std::string &ctxjson, Stats &st) {
	long saved = g_vtime;
	auto chk = [&](long now, time_t keyct) { g_vtime = now; SigRes r = lib_check(sigpkt, key, t, keyct); g_vtime = saved; st.evals++; return r; };
	auto wit = [&](const char *what, long now, time_t keyct) { return J().kv("scenario", what).kv("clock", (long long)now).kv("key_creation_time", (long long)keyct).kv("sig_creation_time", (long long)sigtime)
		.kv("sig_expiration", (long long)sigexp).kv("hash", hashname(hashalgo)).kv("sig_hex", hexs(sigpkt, 4096)).raw("ctx", ctxjson).str(); };
	bool strong = strong_hash(hashalgo);
	time_t keyct = sigtime - 1000;
	SigRes r0 = chk(sigtime + 10, keyct);
	if (strong) {
		count("validity/" + kind + "/fresh");
		if (!(r0.parsed && r0.crypto && r0.validity)) viol("C20/validity/" + kind + "/fresh-signature-rejected", "a correct, unexpired signature with a strong hash was rejected", wit("fresh", sigtime + 10, keyct));
	} else {
		count("validity/" + kind + "/weak-hash");
		if (r0.parsed && r0.crypto && r0.validity) viol("C20/validity/" + kind + "/weak-hash-accepted", "a signature made with a weak hash passed CheckValidity and verification", wit("weak hash", sigtime + 10, keyct));
		g_vtime = saved; return;   // the remaining scenarios are about time only
	}
	if (sigexp) {
		SigRes r = chk(sigtime + sigexp + 1, keyct); count("validity/" + kind + "/expired");
		if (r.parsed && r.crypto && r.validity) viol("C20/validity/" + kind + "/expired-accepted", "an expired signature passed CheckValidity and verification", wit("expired by one second", sigtime + sigexp + 1, keyct));
		r = chk(sigtime + sigexp + 86400 * 365, keyct);
		if (r.parsed && r.crypto && r.validity) viol("C20/validity/" + kind + "/expired-accepted", "an expired signature passed CheckValidity and verification", wit("expired by a year", sigtime + sigexp + 86400 * 365, keyct));
		r = chk(sigtime + sigexp - 1, keyct); count("validity/" + kind + "/not-yet-expired");
		if (!(r.parsed && r.crypto && r.validity)) viol("C20/validity/" + kind + "/unexpired-rejected", "a signature one second before its expiration was rejected", wit("one second before expiry", sigtime + sigexp - 1, keyct));
	} else {
		SigRes r = chk(sigtime + 200000000L, keyct); count("validity/" + kind + "/no-expiry");
		if (!(r.parsed && r.crypto && r.validity)) viol("C20/validity/" + kind + "/unexpired-rejected", "a signature without expiration was rejected six years later", wit("no expiration", sigtime + 200000000L, keyct));
	}
	{ SigRes r = chk(sigtime + 10, sigtime + 1); count("validity/" + kind + "/older-than-key");
	  if (r.parsed && r.crypto && r.validity) viol("C20/validity/" + kind + "/older-than-key-accepted", "a signature older than its key passed CheckValidity", wit("key created one second after the signature", sigtime + 10, sigtime + 1));
	  r = chk(sigtime + 10, sigtime + 86400);
	  if (r.parsed && r.crypto && r.validity) viol("C20/validity/" + kind + "/older-than-key-accepted", "a signature older than its key passed CheckValidity", wit("key created one day after the signature", sigtime + 10, sigtime + 86400)); }
	{ SigRes r = chk(sigtime - 86400 * 10, keyct - 86400 * 20); count("validity/" + kind + "/future");
	  if (r.parsed && r.crypto && r.validity) viol("C20/validity/" + kind + "/future-accepted", "a signature dated ten days in the future passed CheckValidity", wit("clock ten days before the signature", sigtime - 86400 * 10, keyct - 86400 * 20));
	  r = chk(sigtime - 86400 * 2, keyct - 86400 * 20);
	  if (r.parsed && r.crypto && r.validity) viol("C20/validity/" + kind + "/future-accepted", "a signature dated two days in the future passed CheckValidity", wit("clock two days before the signature", sigtime - 86400 * 2, keyct - 86400 * 20)); }
	g_vtime = saved;
}

// ------------------------------------------------------------------ self-signed key block (for gpg and the key block cases)
struct SelfSigOpt { int hashalgo = 8; time_t sigtime = 0; time_t keyexp = 0; int flags = 0x03; };
inline bool make_selfsig(const KeyMat &k, const std::string &uid, const SelfSigOpt &o, Oct &sig, std::string *err = nullptr) {
	Oct trailer, hash, left, flags, empty; flags.push_back(o.flags);
	PGP::PacketSigPrepareSelfSignature(TMCG_OPENPGP_SIGNATURE_POSITIVE_CERTIFICATION, (tmcg_openpgp_pkalgo_t)k.algo, (tmcg_openpgp_hashalgo_t)o.hashalgo,
		o.sigtime, o.keyexp, flags, k.fpr, false, trailer);
	PGP::CertificationHash(k.pub_body, uid, empty, trailer, (tmcg_openpgp_hashalgo_t)o.hashalgo, hash, left);
	return sign_hash(k, o.hashalgo, hash, trailer, left, sig, err);
}
inline bool make_binding(const KeyMat &prim, const KeyMat &subk, int hashalgo, time_t sigtime, int flags, Oct &sig, std::string *err = nullptr) {
	Oct trailer, hash, left, fl; fl.push_back(flags);
	PGP::PacketSigPrepareSelfSignature(TMCG_OPENPGP_SIGNATURE_SUBKEY_BINDING, (tmcg_openpgp_pkalgo_t)prim.algo, (tmcg_openpgp_hashalgo_t)hashalgo, sigtime, 0, fl, prim.fpr, false, trailer);
	PGP::KeyHash(prim.pub_body, subk.sub_body, trailer, (tmcg_openpgp_hashalgo_t)hashalgo, hash, left);
	return sign_hash(prim, hashalgo, hash, trailer, left, sig, err);
}

// RFC 6637 section 12.2.1 / FIPS 186: minimum hash size gpg insists on for a signing key (0: none)
inline unsigned gpg_min_hash_bits(const KeyMat &k) {
	if (k.algo == 17) return k.qbits;
	if (k.algo == 19) return (k.name == "p384") ? 384 : (k.name == "p521" || k.name == "bp512") ? 512 : 256;
	return 0;
}
// export pub|uid|selfsig once per key for the gpg judge; returns file name (relative to g_cwd) or ""
static std::map<std::string, std::string> g_gpgkeys;
inline std::string gpg_keyfile(const KeyMat &k) {
	auto it = g_gpgkeys.find(k.name); if (it != g_gpgkeys.end()) return it->second;
	std::string fn;
	Oct sig, uidp; std::string uid = "c20 " + k.name + " <" + k.name + "@c20.invalid>";
	SelfSigOpt o; o.sigtime = k.ctime + 10; o.hashalgo = gpg_min_hash_bits(k) > 384 ? 10 : gpg_min_hash_bits(k) > 256 ? 9 : 8;
	if (make_selfsig(k, uid, o, sig)) {
		PGP::PacketUidEncode(uid, uidp);
		Oct blk = cat(cat(k.pub, uidp), sig);
		mkdir("c20gpg", 0700);
		fn = "c20gpg/key-" + std::to_string((long)ctx.shard) + "-" + std::to_string((long)getpid()) + "-" + k.name + ".pgp";
		if (!write_file(fn, blk)) fn.clear();
		else record(J().kv("k", "gpgkey").kv("dir", g_cwd).kv("file", fn).kv("key", k.name).str());
	}
	g_gpgkeys[k.name] = fn; return fn;
}

} // namespace c20
