// w_c07.cc — C07: uniformity of shuffle permutations, rotation offsets and random residues.
//   (i)  hard range oracle on every draw (value below its modulus / below 2^size, every secret a
//        bijection, every cyclic secret the rotation by the returned offset);
//   (ii) chi-square goodness of fit against the uniform law, rejection threshold p < 1e-9 per
//        table; a table with p < 1e-6 is re-sampled from an independent stream and BOTH samples
//        must reject before a violation is reported ("re-test before alarm").
// One case = one test = one sampler run with N draws that feeds one or several tables; every table
// receives exactly one observation per draw (=> exactly multinomial under the null hypothesis).
// --opt rng=real : no PRNG interposition (vf::g_real_rng), small samples at all three levels.
#include "engine.hh"
#include <algorithm>
#include <cmath>
#include <functional>
#include <numeric>
#include <time.h>

using namespace vf;
typedef long long ll;
typedef unsigned long long ull;

// ---------------------------------------------------------------- chi-square survival function
// ln Q(a, x), regularised upper incomplete gamma, in the log domain (usable down to 1e-300 and
// far below).  Series for x < a+1, modified Lentz continued fraction otherwise.
static double ln_gamma_q(double a, double x) {
	if (x <= 0) return 0.0;
	if (x < a + 1.0) {
		// P(a,x) = e^{-x} x^a / Gamma(a+1) * sum_{n>=0} x^n / ((a+1)...(a+n))
		double sum = 1.0, term = 1.0, ap = a;
		for (long n = 1; n < 10000000; n++) { ap += 1.0; term *= x / ap; sum += term; if (term < sum * 1e-17) break; }
		double lnP = -x + a * std::log(x) - std::lgamma(a + 1.0) + std::log(sum);
		double P = std::exp(lnP); if (P >= 1.0) P = 1.0 - 1e-16;
		return std::log1p(-P);
	}
	const double tiny = 1e-300;
	double b = x + 1.0 - a, c = 1.0 / tiny, d = 1.0 / b, h = d;
	for (long i = 1; i < 10000000; i++) {
		double an = -(double)i * ((double)i - a);
		b += 2.0;
		d = an * d + b; if (std::fabs(d) < tiny) d = tiny;
		c = b + an / c; if (std::fabs(c) < tiny) c = tiny;
		d = 1.0 / d;
		double del = d * c; h *= del;
		if (std::fabs(del - 1.0) < 1e-16) break;
	}
	return -x + a * std::log(x) - std::lgamma(a) + std::log(h);
}
static double chi2_log10p(double chi2, double df) { return ln_gamma_q(df / 2.0, chi2 / 2.0) / std::log(10.0); }

// ---------------------------------------------------------------- tables
struct Table {
	std::string name;
	std::vector<uint32_t> obs;
	std::vector<double> prob;      // empty = uniform over obs.size() cells
	double scale = 1.0;            // statistic = scale * sum (O-E)^2/E
	long df = -1;                  // default cells-1
	bool bits = false;             // bit-balance table: obs[b] = number of draws with bit b set; statistic = sum (ones-N/2)^2/(N/4), df = #bits
	ull N = 0;                     // observations
	// results
	double chi2 = 0, log10p = 0, exp_min = 0; uint32_t omin = 0, omax = 0; bool skipped = false;
	void init(const std::string &n, size_t cells) { name = n; obs.assign(cells, 0); }
	void evaluate() {
		size_t c = obs.size();
		omin = *std::min_element(obs.begin(), obs.end()); omax = *std::max_element(obs.begin(), obs.end());
		if (bits) {
			exp_min = N / 2.0; chi2 = 0;
			for (size_t i = 0; i < c; i++) { double dlt = obs[i] - N / 2.0; chi2 += dlt * dlt / (N / 4.0); }
			df = (long)c;
		} else {
			exp_min = 1e300; chi2 = 0;
			for (size_t i = 0; i < c; i++) {
				double e = prob.empty() ? (double)N / c : prob[i] * N;
				exp_min = std::min(exp_min, e);
				double dlt = obs[i] - e; chi2 += dlt * dlt / e;
			}
			chi2 *= scale;
			if (df < 0) df = (long)c - 1;
		}
		if (exp_min < 50.0 || df < 1) { skipped = true; log10p = 0; return; }
		log10p = chi2_log10p(chi2, (double)df);
	}
	std::string worst_cells(size_t k = 6) const {
		std::vector<std::pair<double, size_t>> z;
		for (size_t i = 0; i < obs.size(); i++) { double e = bits ? N / 2.0 : (prob.empty() ? (double)N / obs.size() : prob[i] * N); z.push_back({-std::fabs(obs[i] - e) / std::sqrt(e), i}); }
		std::partial_sort(z.begin(), z.begin() + std::min(k, z.size()), z.end());
		std::string s = "[";
		for (size_t i = 0; i < k && i < z.size(); i++) { size_t c = z[i].second; double e = bits ? N / 2.0 : (prob.empty() ? (double)N / obs.size() : prob[c] * N); if (i) s += ","; s += J().kv("cell", (ll)c).kv("observed", (ll)obs[c]).kv("expected", e).str(); }
		return s + "]";
	}
	std::string counts_json(size_t max = 130) const { if (obs.size() > max) return "null"; std::string s = "["; for (size_t i = 0; i < obs.size(); i++) { if (i) s += ","; s += std::to_string(obs[i]); } return s + "]"; }
};

struct Sample { std::vector<Table> tables; ull draws = 0, checks = 0; };

struct Test {
	std::string name, family, fn;      // family/fn make the stable violation key
	std::string counter;               // evidence counter that receives the number of draws
	ull N;
	std::function<void(Sample &, ull N)> run;   // all library randomness from tl_rng (or the real RNG)
};

static void range_violation(const std::string &fn, const std::string &what, const std::string &w) {
	static std::map<std::string, int> seen;   // at most 3 witnesses per site and process
	if (seen[fn]++ < 3) violation("C07/range/" + fn, what, w);
	count("range_violations");
}

// ---------------------------------------------------------------- permutation sources
static BarnettSmartVTMF_dlog *g_vtmf = nullptr; static SchindelhauerTMCG *g_tm = nullptr;
static TMCG_PublicKeyRing *g_ring = nullptr; static TMCG_SecretKey *g_sk = nullptr; static SchindelhauerTMCG *g_tmq = nullptr;
static void need_vtmf() {
	if (g_vtmf) return;
	bool real = g_real_rng; g_real_rng = false;
	Rng r = setup_rng(7); Rng *old = tl_rng; tl_rng = &r;
	g_vtmf = new BarnettSmartVTMF_dlog(512, 160, false, true);     // toy group: the masking values are irrelevant here
	g_vtmf->KeyGenerationProtocol_GenerateKey(); g_vtmf->KeyGenerationProtocol_Finalize();
	g_tm = new SchindelhauerTMCG(16, 1, 8);
	tl_rng = old; g_real_rng = real;
}
static void need_ring() {
	if (g_ring) return;
	bool real = g_real_rng; g_real_rng = false;
	Rng r = setup_rng(8); Rng *old = tl_rng; tl_rng = &r;
	g_sk = new TMCG_SecretKey("P0", "p@x", 512, false);
	g_ring = new TMCG_PublicKeyRing(1); g_ring->keys[0] = TMCG_PublicKey(*g_sk);
	g_tmq = new SchindelhauerTMCG(4, 1, 1);
	tl_rng = old; g_real_rng = real;
}
// draws one stack secret and returns its index component + offset
static size_t draw_secret(bool qr, bool cyclic, size_t n, std::vector<size_t> &pi) {
	size_t R;
	if (!qr) { TMCG_StackSecret<VTMF_CardSecret> ss; R = g_tm->TMCG_CreateStackSecret(ss, cyclic, n, g_vtmf); pi.resize(ss.size()); for (size_t i = 0; i < ss.size(); i++) pi[i] = ss[i].first; }
	else { TMCG_StackSecret<TMCG_CardSecret> ss; R = g_tmq->TMCG_CreateStackSecret(ss, cyclic, *g_ring, 0, n); pi.resize(ss.size()); for (size_t i = 0; i < ss.size(); i++) pi[i] = ss[i].first; }
	return R;
}
static bool bijection(const std::vector<size_t> &pi, size_t n, std::vector<char> &seen) {
	if (pi.size() != n) return false;
	seen.assign(n, 0);
	for (size_t v : pi) { if (v >= n || seen[v]) return false; seen[v] = 1; }
	return true;
}
static std::string vec_json(const std::vector<size_t> &v) { std::string s = "["; for (size_t i = 0; i < v.size() && i < 80; i++) { if (i) s += ","; s += std::to_string(v[i]); } return s + "]"; }
static size_t perm_rank(const std::vector<size_t> &pi) {    // Lehmer code, n <= 8
	size_t n = pi.size(), rank = 0;
	for (size_t i = 0; i < n; i++) { size_t c = 0; for (size_t j = i + 1; j < n; j++) if (pi[j] < pi[i]) c++; rank = rank * (n - i) + c; }
	return rank;
}

static Test perm_full(bool qr, size_t n, ull N) {
	Test t; t.name = std::string("perm-full/") + (qr ? "qr" : "vtmf") + "/n=" + std::to_string(n); t.family = "permutation-histogram"; t.fn = qr ? "TMCG_CreateStackSecret-qr" : "TMCG_CreateStackSecret-vtmf";
	t.counter = "perm_draws"; t.N = N;
	t.run = [=](Sample &S, ull N) {
		if (qr) need_ring(); else need_vtmf();
		size_t f = 1; for (size_t i = 2; i <= n; i++) f *= i;
		S.tables.resize(1); S.tables[0].init("all " + std::to_string(f) + " arrangements", f);
		std::vector<size_t> pi; std::vector<char> seen;
		for (ull d = 0; d < N; d++) {
			size_t R = draw_secret(qr, false, n, pi); S.checks++;
			if (!bijection(pi, n, seen) || R != 0) { range_violation(t.fn + "/not-a-bijection", "generated stack secret is not a bijection on 0..n-1 (or reports an offset)", J().kv("n", (ll)n).kv("R", (ll)R).raw("pi", vec_json(pi)).str()); continue; }
			S.tables[0].obs[perm_rank(pi)]++; S.tables[0].N++;
		}
		S.draws = N;
	};
	return t;
}

// positional (position x value) and adjacent-pair marginals
static Test perm_marginals(bool qr, size_t n, ull N) {
	Test t; t.name = std::string("perm-marginals/") + (qr ? "qr" : "vtmf") + "/n=" + std::to_string(n); t.family = "permutation-marginals"; t.fn = qr ? "TMCG_CreateStackSecret-qr" : "TMCG_CreateStackSecret-vtmf";
	t.counter = "perm_draws"; t.N = N;
	t.run = [=](Sample &S, ull N) {
		if (qr) need_ring(); else need_vtmf();
		std::vector<size_t> pos = {0, n / 2 - 1, n - 2};
		S.tables.resize(1 + 2 * pos.size());
		// sum of N uniform permutation matrices: covariance (1/(n-1)) (I-J/n)x(I-J/n)  =>  ((n-1)/n) * sum (O-E)^2/E ~ chi2((n-1)^2)
		S.tables[0].init("position x value", n * n); S.tables[0].scale = (double)(n - 1) / n; S.tables[0].df = (long)((n - 1) * (n - 1));
		for (size_t k = 0; k < pos.size(); k++) {
			S.tables[1 + k].init("ordered pair (pi[i],pi[i+1]) at i=" + std::to_string(pos[k]), n * (n - 1));
			S.tables[1 + pos.size() + k].init("difference pi[i+1]-pi[i] mod n at i=" + std::to_string(pos[k]), n - 1);
		}
		std::vector<size_t> pi; std::vector<char> seen;
		for (ull d = 0; d < N; d++) {
			size_t R = draw_secret(qr, false, n, pi); S.checks++;
			if (!bijection(pi, n, seen) || R != 0) { range_violation(t.fn + "/not-a-bijection", "generated stack secret is not a bijection on 0..n-1 (or reports an offset)", J().kv("n", (ll)n).kv("R", (ll)R).raw("pi", vec_json(pi)).str()); continue; }
			for (size_t i = 0; i < n; i++) S.tables[0].obs[i * n + pi[i]]++;
			S.tables[0].N += n;       // n observations (one per row) per permutation: expected count per cell = draws/n
			for (size_t k = 0; k < pos.size(); k++) {
				size_t a = pi[pos[k]], b = pi[pos[k] + 1];
				S.tables[1 + k].obs[a * (n - 1) + (b > a ? b - 1 : b)]++; S.tables[1 + k].N++;
				S.tables[1 + pos.size() + k].obs[(b + n - a) % n - 1]++; S.tables[1 + pos.size() + k].N++;
			}
		}
		S.draws = N;
	};
	return t;
}

static Test rotation(bool qr, size_t n, ull N) {
	Test t; t.name = std::string("rotation/") + (qr ? "qr" : "vtmf") + "/n=" + std::to_string(n); t.family = "rotation-offset"; t.fn = qr ? "TMCG_CreateStackSecret-qr-cyclic" : "TMCG_CreateStackSecret-vtmf-cyclic";
	t.counter = "rotation_draws"; t.N = N;
	t.run = [=](Sample &S, ull N) {
		if (qr) need_ring(); else need_vtmf();
		S.tables.resize(1); S.tables[0].init("returned offset", n);
		std::vector<size_t> pi; std::vector<char> seen;
		for (ull d = 0; d < N; d++) {
			size_t R = draw_secret(qr, true, n, pi); S.checks++;
			bool ok = bijection(pi, n, seen) && R < n;
			for (size_t j = 0; ok && j < n; j++) if (pi[(j + R) % n] != j) ok = false;
			if (!ok) { range_violation(t.fn + "/not-the-reported-rotation", "cyclic stack secret is not the rotation by the returned offset (input j at output (j+R) mod n)", J().kv("n", (ll)n).kv("R", (ll)R).raw("pi", vec_json(pi)).str()); continue; }
			S.tables[0].obs[R]++; S.tables[0].N++;
		}
		S.draws = N;
	};
	return t;
}

// ---------------------------------------------------------------- bounded sampler tmcg_mpz_{s,ss,w}random_mod
static const char *LV[3] = {"s", "ss", "w"};
static unsigned long draw_mod(int lv, unsigned long m) { return lv == 0 ? tmcg_mpz_srandom_mod(m) : lv == 1 ? tmcg_mpz_ssrandom_mod(m) : tmcg_mpz_wrandom_mod(m); }
static void draw_m(int lv, mpz_ptr r, mpz_srcptr m) { if (lv == 0) tmcg_mpz_srandomm(r, m); else if (lv == 1) tmcg_mpz_ssrandomm(r, m); else tmcg_mpz_wrandomm(r, m); }
static void draw_b(int lv, mpz_ptr r, unsigned long size) { if (lv == 0) tmcg_mpz_srandomb(r, size); else if (lv == 1) tmcg_mpz_ssrandomb(r, size); else tmcg_mpz_wrandomb(r, size); }
static unsigned long draw_ui(int lv) { return lv == 0 ? tmcg_mpz_srandom_ui() : lv == 1 ? tmcg_mpz_ssrandom_ui() : tmcg_mpz_wrandom_ui(); }

static Test random_mod(int lv, unsigned long m, const std::string &mname, ull N) {
	Test t; t.fn = std::string("tmcg_mpz_") + LV[lv] + "random_mod"; t.name = t.fn + "/m=" + mname; t.family = "random_mod"; t.counter = "bounded_draws"; t.N = N;
	t.run = [=](Sample &S, ull N) {
		bool small = m <= 65537; S.tables.resize(1);
		S.tables[0].init(small ? "residue" : "16 equal buckets of [0,m)", small ? m : 16);
		unsigned long vmin = ~0UL, vmax = 0;
		for (ull d = 0; d < N; d++) {
			unsigned long v = draw_mod(lv, m); S.checks++;
			if (v >= m) { range_violation(t.fn, "value not below its modulus", J().kv("m", (ull)m).kv("value", (ull)v).str()); continue; }
			vmin = std::min(vmin, v); vmax = std::max(vmax, v);
			size_t cell = small ? v : (size_t)(((unsigned __int128)v * 16) / m);
			S.tables[0].obs[cell]++; S.tables[0].N++;
		}
		S.draws = N;
		S.tables[0].name += " (min " + std::to_string(vmin) + ", max " + std::to_string(vmax) + ")";
	};
	return t;
}

static Test randomm(int lv, const std::string &mexpr, std::function<void(mpz_ptr)> mk, ull N) {
	Test t; t.fn = std::string("tmcg_mpz_") + LV[lv] + "randomm"; t.name = t.fn + "/m=" + mexpr; t.family = "randomm"; t.counter = "residue_draws"; t.N = N;
	t.run = [=](Sample &S, ull N) {
		mpz_t m, r, q; mpz_init(m); mpz_init(r); mpz_init(q); mk(m);
		bool small = mpz_cmp_ui(m, 65537) <= 0; size_t L = mpz_sizeinbase(m, 2);
		S.tables.resize(small ? 1 : 2);
		S.tables[0].init(small ? "residue" : "16 equal buckets of [0,m)", small ? mpz_get_ui(m) : 16);
		if (!small) {
			S.tables[1].init("top bit (bit " + std::to_string(L - 1) + ") clear/set", 2);
			mpz_t h; mpz_init(h); mpz_setbit(h, L - 1);            // P(top bit set) = (m - 2^(L-1)) / m
			mpq_t f; mpq_init(f); mpz_sub(mpq_numref(f), m, h); mpz_set(mpq_denref(f), m); mpq_canonicalize(f);
			double p1 = mpq_get_d(f); S.tables[1].prob = {1.0 - p1, p1}; mpq_clear(f); mpz_clear(h);
		}
		for (ull d = 0; d < N; d++) {
			draw_m(lv, r, m); S.checks++;
			if (mpz_sgn(r) < 0 || mpz_cmp(r, m) >= 0) { range_violation(t.fn, "residue not in [0,m)", J().kz("m", m).kz("value", r).str()); continue; }
			if (small) S.tables[0].obs[mpz_get_ui(r)]++;
			else { mpz_mul_2exp(q, r, 4); mpz_tdiv_q(q, q, m); S.tables[0].obs[mpz_get_ui(q)]++; S.tables[1].obs[mpz_tstbit(r, L - 1)]++; S.tables[1].N++; }
			S.tables[0].N++;
		}
		S.draws = N;
		mpz_clear(m); mpz_clear(r); mpz_clear(q);
	};
	return t;
}

static Test randomb(int lv, unsigned long size, ull N) {
	Test t; t.fn = std::string("tmcg_mpz_") + LV[lv] + "randomb"; t.name = t.fn + "/size=" + std::to_string(size); t.family = "randomb"; t.counter = "bits_draws"; t.N = N;
	t.run = [=](Sample &S, ull N) {
		mpz_t r; mpz_init(r);
		bool hist = size <= 10; S.tables.resize(hist ? 2 : 1);
		S.tables[0].init("bit balance", size); S.tables[0].bits = true;
		if (hist) S.tables[1].init("value", (size_t)1 << size);
		for (ull d = 0; d < N; d++) {
			draw_b(lv, r, size); S.checks++;
			if (mpz_sgn(r) < 0 || mpz_sizeinbase(r, 2) > size) { range_violation(t.fn, "value not below 2^size", J().kv("size", (ull)size).kz("value", r).str()); continue; }
			for (unsigned long b = 0; b < size; b++) if (mpz_tstbit(r, b)) S.tables[0].obs[b]++;
			S.tables[0].N++;
			if (hist) { S.tables[1].obs[mpz_get_ui(r)]++; S.tables[1].N++; }
		}
		S.draws = N; mpz_clear(r);
	};
	return t;
}

static Test random_ui(int lv, ull N) {
	Test t; t.fn = std::string("tmcg_mpz_") + LV[lv] + "random_ui"; t.name = t.fn; t.family = "random_ui"; t.counter = "bits_draws"; t.N = N;
	t.run = [=](Sample &S, ull N) {
		S.tables.resize(3); S.tables[0].init("bit balance", 64); S.tables[0].bits = true; S.tables[1].init("low byte", 256); S.tables[2].init("high byte", 256);
		for (ull d = 0; d < N; d++) {
			unsigned long v = draw_ui(lv);
			for (int b = 0; b < 64; b++) if ((v >> b) & 1) S.tables[0].obs[b]++;
			S.tables[1].obs[v & 255]++; S.tables[2].obs[v >> 56]++;
			for (auto &T : S.tables) T.N++;
		}
		S.draws = N;
	};
	return t;
}

// ---------------------------------------------------------------- moduli
static std::function<void(mpz_ptr)> m_expr(int mul, unsigned long k, int add) {    // mul * 2^k + add
	return [=](mpz_ptr m) { mpz_set_ui(m, (unsigned long)mul); mpz_mul_2exp(m, m, k); if (add >= 0) mpz_add_ui(m, m, (unsigned long)add); else mpz_sub_ui(m, m, (unsigned long)(-add)); };
}
static void prime2048(mpz_ptr m) {      // deterministic in the seed, independent of the case
	static mpz_t p; static bool have = false;
	if (!have) { Rng r = setup_rng(9); mpz_init(p); r.mpz_bits(p, 2048); mpz_setbit(p, 2047); mpz_nextprime(p, p); have = true; }
	mpz_set(m, p);
}

// ---------------------------------------------------------------- test catalogue
static std::vector<Test> catalogue(bool real, bool quick) {
	std::vector<Test> T;
	if (!real) {
		ull f = quick ? 1 : 20;          // thorough: 20-fold samples
		for (size_t n = 3; n <= 6; n++) T.push_back(perm_full(false, n, (n == 6 ? 150000ULL : 100000ULL) * f));
		for (size_t n = 3; n <= 5; n++) T.push_back(perm_full(true, n, 40000ULL * f));
		T.push_back(perm_marginals(false, 8, 100000ULL * f));
		T.push_back(perm_marginals(false, 16, 100000ULL * f));
		T.push_back(perm_marginals(false, 52, 140000ULL * f));
		T.push_back(perm_marginals(false, 64, 210000ULL * f));
		T.push_back(perm_marginals(true, 8, 20000ULL * f));
		for (size_t n : {2, 3, 5, 52, 64}) T.push_back(rotation(false, n, 50000ULL * f));
		for (size_t n : {2, 3, 5, 52}) T.push_back(rotation(true, n, 20000ULL * f));
		ull g = quick ? 1 : 12;
		for (int lv = 0; lv < 3; lv++) {
			for (unsigned long m : {2UL, 3UL, 5UL, 7UL, 255UL, 256UL, 257UL, 65537UL}) T.push_back(random_mod(lv, m, std::to_string(m), std::max<ull>(200000, 60ULL * m) * g));
			T.push_back(random_mod(lv, (1UL << 63) + 1, "2^63+1 (ULONG_MAX/2+2)", 200000 * g));
			T.push_back(random_mod(lv, 3UL << 62, "3*2^62", 200000 * g));
			T.push_back(random_mod(lv, 5UL << 61, "5*2^61", 200000 * g));
			T.push_back(random_mod(lv, (3UL << 62) + 1, "3*2^62+1", 200000 * g));
			T.push_back(random_mod(lv, ~0UL, "2^64-1", 200000 * g));
			T.push_back(random_mod(lv, ~0UL - 0xFFFFFFFFUL, "2^64-2^32", 200000 * g));
		}
		for (int lv = 0; lv < 3; lv++) {
			struct M { const char *e; int mul; unsigned long k; int add; };
			const M ms[] = {{"3", 3, 0, 0}, {"3*2^6", 3, 6, 0}, {"3*2^14", 3, 14, 0}, {"3*2^62", 3, 62, 0}, {"3*2^126", 3, 126, 0}, {"3*2^1022", 3, 1022, 0},
			                {"2^1+1", 1, 1, 1}, {"2^7+1", 1, 7, 1}, {"2^8+1", 1, 8, 1}, {"2^15+1", 1, 15, 1}, {"2^16+1", 1, 16, 1}, {"2^63+1", 1, 63, 1}, {"2^64+1", 1, 64, 1}, {"2^127+1", 1, 127, 1}, {"2^1024+1", 1, 1024, 1},
			                // bit lengths just below a multiple of 8 / 64 (7, 15, 61..63, 127, 255, 1023, 2047 bits): a sampler that rounds the
			                // number of drawn bits down to bytes or words leaves fewer than the 64 guard bits exactly for these
			                {"3*2^5", 3, 5, 0}, {"3*2^13", 3, 13, 0}, {"3*2^59", 3, 59, 0}, {"3*2^60", 3, 60, 0}, {"3*2^61", 3, 61, 0}, {"5*2^60", 5, 60, 0}, {"3*2^125", 3, 125, 0},
			                {"5*2^252", 5, 252, 0}, {"3*2^1021", 3, 1021, 0}, {"3*2^2045", 3, 2045, 0},
			                {"2^2-1", 1, 2, -1}, {"2^7-1", 1, 7, -1}, {"2^8-1", 1, 8, -1}, {"2^16-1", 1, 16, -1}, {"2^64-1", 1, 64, -1}, {"2^128-1", 1, 128, -1}, {"2^1023-1", 1, 1023, -1}};
			for (const M &m : ms) {
				// tmcg_mpz_ssrandomm opens /proc/sys/kernel/random/entropy_avail on every call (~10 us): the
				// 50 000-cell moduli (millions of draws) are sampled through the s and w entry points only
				if (lv == 1 && m.k >= 14 && m.k <= 16) continue;
				ull cells = (m.k <= 16) ? ((ull)m.mul << m.k) + 2 : 16;
				T.push_back(randomm(lv, m.e, m_expr(m.mul, m.k, m.add), std::max<ull>(100000, 60ULL * cells) * g));
			}
			T.push_back(randomm(lv, "2048-bit prime", prime2048, 100000 * g));
		}
		for (int lv = 0; lv < 3; lv++) {
			for (unsigned long size : {1UL, 7UL, 8UL, 9UL, 63UL, 64UL, 65UL, 160UL, 1024UL}) T.push_back(randomb(lv, size, 100000 * g));
			T.push_back(random_ui(lv, 200000 * g));
		}
	} else {
		// real libgcrypt RNG, all three quality levels.  GCRY_VERY_STRONG_RANDOM costs ~4 ms per call with
		// libgcrypt 1.10 (CPU bound, not blocking): 2 000 draws per test there (9 tests = 1.8e4 draws; thorough:
		// 2e4 per test), 2e4 draws per test at the other two levels.  The very-strong tests come first so
		// that they land on different shards.
		ull N = 20000, NSS = quick ? 2000 : 20000;
		for (unsigned long m : {2UL, 3UL, 7UL}) T.push_back(random_mod(1, m, std::to_string(m), NSS));
		T.push_back(random_mod(1, 3UL << 62, "3*2^62", NSS));
		T.push_back(randomm(1, "3*2^2", m_expr(3, 2, 0), NSS));
		T.push_back(randomm(1, "3*2^126", m_expr(3, 126, 0), NSS));
		T.push_back(randomb(1, 8, NSS)); T.push_back(randomb(1, 64, NSS));
		T.push_back(random_ui(1, NSS));
		for (int lv = 0; lv < 3; lv += 2) {
			for (unsigned long m : {2UL, 3UL, 7UL, 256UL, 257UL}) T.push_back(random_mod(lv, m, std::to_string(m), N));
			T.push_back(random_mod(lv, 3UL << 62, "3*2^62", N));
			T.push_back(randomm(lv, "3*2^6", m_expr(3, 6, 0), N));
			T.push_back(randomm(lv, "2^8-1", m_expr(1, 8, -1), N));
			T.push_back(randomm(lv, "3*2^126", m_expr(3, 126, 0), N));
			T.push_back(randomm(lv, "2048-bit prime", prime2048, N));
			T.push_back(randomb(lv, 8, N)); T.push_back(randomb(lv, 64, N)); T.push_back(randomb(lv, 160, N));
			T.push_back(random_ui(lv, N));
		}
		// the shuffle draws (GCRY_STRONG_RANDOM inside the library)
		for (size_t n : {3, 4, 5}) T.push_back(perm_full(false, n, N));
		T.push_back(perm_full(true, 3, N));
		T.push_back(perm_marginals(false, 8, N / 2));
		for (size_t n : {2, 5}) T.push_back(rotation(false, n, N));
		T.push_back(rotation(false, 52, N / 5));
	}
	return T;
}

static double now_s() { struct timespec ts; clock_gettime(CLOCK_MONOTONIC, &ts); return ts.tv_sec + ts.tv_nsec * 1e-9; }

int main(int argc, char **argv) {
	init(argc, argv);
	null_cerr();
	if (!init_libTMCG()) { fprintf(stderr, "init_libTMCG failed\n"); return 2; }
	bool real = ctx.option("rng", "prng") == "real";
	std::vector<Test> T = catalogue(real, ctx.quick());
	const double P_RETEST = -6.0, P_REJECT = -9.0;
	for (size_t k = 0; k < T.size(); k++) {
		Test &t = T[k];
		J d; d.kv("test", t.name).kv("rng", real ? "libgcrypt" : "interposed xoshiro256**").kv("N", (ull)t.N);
		if (!case_begin((long)k, d.str())) continue;
		ull N = t.N;
		Rng lane1 = case_rng((long)k, 1), lane2 = case_rng((long)k, 2);
		g_real_rng = false;
		Sample S1, S2; bool retested = false;
		double t0 = now_s();
		if (real) {
			// never hang on a starving entropy source: time a probe of 200 draws first and shrink the sample
			// so that the case stays below ~40 s (thorough: 240 s) (the count is reported; floors make a starved run inconclusive)
			Sample probe; g_real_rng = true; tl_rng = nullptr;
			t.run(probe, 20);                                  // warm-up: lazy set-up (group, prime), RNG seeding
			Sample probe2; double p0 = now_s(); t.run(probe2, 200); double per = (now_s() - p0) / 200.0;
			double cap = ctx.quick() ? 40.0 : 240.0;
			if (per * N > cap) { N = std::max<ull>(1000, (ull)(cap / per)); count("real_samples_reduced"); }
		}
		tl_rng = &lane1; g_real_rng = real;
		t.run(S1, N);
		double el = now_s() - t0;
		size_t suspicious = 0;
		for (auto &tb : S1.tables) { tb.evaluate(); if (!tb.skipped && tb.log10p < P_RETEST) suspicious++; }
		if (suspicious) {   // re-test before alarm: independent stream, same sample size
			retested = true; tl_rng = &lane2; t.run(S2, N);
			for (auto &tb : S2.tables) tb.evaluate();
			count("tables_retested", (ll)suspicious);
		}
		tl_rng = nullptr; g_real_rng = false;
		ll judged = 0; std::string sample; double minlp = 0;
		for (size_t i = 0; i < S1.tables.size(); i++) {
			Table &a = S1.tables[i];
			J rec; rec.kv("test", t.name).kv("table", a.name).kv("cells", (ull)a.obs.size()).kv("N", a.N).kv("df", (ll)a.df).kv("chi2", a.chi2).kv("log10p", a.log10p)
			    .kv("obs_min", (ull)a.omin).kv("obs_max", (ull)a.omax).kv("exp_min", a.exp_min).kv("skipped", a.skipped).kv("real", real);
			if (a.skipped) { count("tables_skipped_low_expectation"); record(rec.str()); continue; }
			judged++; count("tables_judged"); count("tables_" + t.family);
			minlp = std::min(minlp, a.log10p);
			bool reject = false;
			if (retested && i < S2.tables.size()) {
				Table &b = S2.tables[i];
				rec.kv("retest_chi2", b.chi2).kv("retest_log10p", b.log10p);
				reject = a.log10p < P_REJECT && !b.skipped && b.log10p < P_REJECT;
				if (reject) {
					violation("C07/chi2/" + t.family + "/" + t.fn, "distribution is not uniform: chi-square test rejects at p < 1e-9 in two independent samples",
					          J().kv("test", t.name).kv("table", a.name).kv("cells", (ull)a.obs.size()).kv("N", a.N).kv("df", (ll)a.df).kv("chi2", a.chi2).kv("log10_p", a.log10p)
					              .kv("retest_chi2", b.chi2).kv("retest_log10_p", b.log10p).raw("largest_deviations", a.worst_cells()).raw("counts", a.counts_json()).raw("retest_counts", b.counts_json()).str());
				} else if (a.log10p < P_RETEST) count("tables_cleared_by_retest");
			}
			record(rec.str());
			if (sample.empty()) sample = J().kv("test", t.name).kv("table", a.name).kv("cells", (ull)a.obs.size()).kv("draws", a.N).kv("chi2", a.chi2).kv("df", (ll)a.df).kv("log10_p", a.log10p).kv("obs_min", (ull)a.omin).kv("obs_max", (ull)a.omax).str();
		}
		count(t.counter, (ll)S1.draws + (ll)S2.draws); count("range_checks", (ll)S1.checks + (ll)S2.checks);
		if (real) { count(std::string("real_draws_") + (t.family.rfind("perm", 0) == 0 || t.family == "rotation-offset" ? "s" : t.fn.substr(9, t.fn.find("random") - 9)), (ll)S1.draws); count("real_tests"); }
		count("tests"); (void)el;
		case_end(t.name + (real ? "/real" : ""), judged > 0, sample, judged, judged);
	}
	finish();
	return 0;
}
