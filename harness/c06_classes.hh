// c06_classes.hh — one descriptor per (class, construction path, canonical mode):
// how a parameter set (named field values) is turned into a library object whose
// CheckGroup() is asked, and which reference predicate (c06_ref.hh) the property text
// gives for that class.
#pragma once
#include "c06_ref.hh"
#include <functional>
#include <sstream>
#include <stdexcept>

namespace c06 {

enum Kind { K_VTMF, K_QR, K_PCOM, K_PTRAP, K_GVSSHE, K_CRS, K_EOTP };

struct Cls {
	std::string name;                  // stable, used in violation keys
	Kind kind = K_CRS;
	bool canonical = false;            // class documents a verifiably derived g
	std::vector<std::string> fields;   // corruptible field instances, text order
	std::vector<std::string> copies;   // prefixes of nested (p,q,g,h) copies (K_CRS), "" = outer
	size_t ngen = 0;                   // K_PCOM/K_GVSSHE: number of g_i
	bool has_elem = false;             // class offers CheckElement
	// builds the object from the field values with configured sizes (F,G) and returns
	// CheckGroup(); std::exception from the constructor = refusal (handled by caller)
	std::function<bool(const Fields &, unsigned long, unsigned long)> lib;
	// CheckElement on an object built from valid fields: returns verdict per value
	std::function<void(const Fields &, unsigned long, unsigned long, const std::vector<Z> &, std::vector<int> &)> elem;
	Fields base;                       // valid base set (from the class's own generating path)
	unsigned long F = 0, G = 0;        // sizes the base set was generated for
	std::string origin;                // where the base set came from
};

static const unsigned long L_E = 64;   // Groth challenge length (2*L_E stays below every |q| used)
static const size_t DKG_N = 3, DKG_T = 1;

inline std::string lines_of(const Fields &f, const std::vector<std::string> &order) {
	std::string s; for (auto &n : order) { s += vf::mpz_b62(f.at(n)); s += "\n"; } return s;
}
inline std::vector<std::string> split_lines(const std::string &s) {
	std::vector<std::string> v; std::string cur; for (char c : s) { if (c == '\n') { v.push_back(cur); cur.clear(); } else cur += c; } if (!cur.empty()) v.push_back(cur); return v;
}
inline std::string join_lines(const std::vector<std::string> &v) { std::string s; for (auto &l : v) { s += l; s += "\n"; } return s; }

// state-stream classes: template = PublishState of a fresh object built from the valid base
// set; the field instances sit at known line offsets (verified against the base values)
struct Tmpl { std::vector<std::string> lines; std::map<std::string, size_t> pos; };
inline std::string fill(const Tmpl &t, const Fields &f) {
	std::vector<std::string> l = t.lines;
	for (auto &kv : t.pos) l[kv.second] = vf::mpz_b62(f.at(kv.first));
	return join_lines(l);
}
inline void tmpl_verify(const Tmpl &t, const Fields &base, const std::string &cls) {
	for (auto &kv : t.pos) {
		if (kv.second >= t.lines.size() || t.lines[kv.second] != vf::mpz_b62(base.at(kv.first))) {
			fprintf(stderr, "c06: state layout of %s changed (field %s not at line %zu)\n", cls.c_str(), kv.first.c_str(), kv.second);
			exit(2);
		}
	}
}
inline void add_copy(Tmpl &t, const std::string &prefix, size_t off) {
	t.pos[prefix + "p"] = off; t.pos[prefix + "q"] = off + 1; t.pos[prefix + "g"] = off + 2; t.pos[prefix + "h"] = off + 3;
}
inline void copy_fields(Fields &f, const std::string &prefix) {
	f[prefix + "p"] = f.at("p"); f[prefix + "q"] = f.at("q"); f[prefix + "g"] = f.at("g"); f[prefix + "h"] = f.at("h");
}
inline std::vector<std::string> crs_fields(const std::vector<std::string> &copies) {
	std::vector<std::string> v; for (auto &c : copies) for (const char *n : {"p", "q", "g", "h"}) v.push_back(c + n); return v;
}

// ---- reference verdict for a field set: 1 accept, 0 refuse, -1 not judged -----
inline int ref_verdict(const Cls &c, const Fields &f, unsigned long F, unsigned long G, std::string &why) {
	for (auto &n : c.fields) if (mpz_sgn(f.at(n)) < 0) { why = "negative field (recorded, not judged)"; return -1; }
	Z k, cg;
	auto crs = [&](const std::string &pre, bool canonical) -> bool {
		if (!ref_schnorr(f.at(pre + "p"), f.at(pre + "q"), nullptr, F, G, k, why)) return false;
		if (!ref_gen(f.at(pre + "g"), f.at(pre + "p"), f.at(pre + "q"))) { why = pre + "g not a generator of order q in (1,p-1)"; return false; }
		if (!ref_gen(f.at(pre + "h"), f.at(pre + "p"), f.at(pre + "q"))) { why = pre + "h not a generator of order q in (1,p-1)"; return false; }
		if (!mpz_cmp(f.at(pre + "g"), f.at(pre + "h"))) { why = pre + "g == h"; return false; }
		if (canonical) { ref_canonical_g(cg, f.at(pre + "p"), f.at(pre + "q"), k); if (mpz_cmp(cg, f.at(pre + "g"))) { why = pre + "g is not the verifiably derived generator"; return false; } }
		return true;
	};
	auto pcom = [&](const std::string &pre) -> bool {
		if (!ref_schnorr(f.at(pre + "p"), f.at(pre + "q"), f.at(pre + "k"), F, G, k, why)) return false;
		std::vector<std::string> gens = {pre + "h"};
		for (size_t i = 1; i <= c.ngen; i++) gens.push_back(pre + "g" + std::to_string(i));
		for (auto &n : gens) if (!ref_gen(f.at(n), f.at(pre + "p"), f.at(pre + "q"))) { why = n + " not a generator of order q in (1,p-1)"; return false; }
		for (size_t i = 0; i < gens.size(); i++) for (size_t j = i + 1; j < gens.size(); j++)
			if (!mpz_cmp(f.at(gens[i]), f.at(gens[j]))) { why = gens[i] + " == " + gens[j]; return false; }
		return true;
	};
	switch (c.kind) {
	case K_VTMF:
		if (!ref_schnorr(f.at("p"), f.at("q"), f.at("k"), F, G, k, why)) return 0;
		if (!ref_gen(f.at("g"), f.at("p"), f.at("q"))) { why = "g not a generator of order q in (1,p-1)"; return 0; }
		if (c.canonical) { ref_canonical_g(cg, f.at("p"), f.at("q"), k); if (mpz_cmp(cg, f.at("g"))) { why = "g is not the verifiably derived generator"; return 0; } }
		return 1;
	case K_QR:      // G carries the exponent size; the text fields g and k are not pinned by the class
		return ref_groupqr(f.at("p"), f.at("q"), F, G, cg, why) ? 1 : 0;
	case K_PCOM: return pcom("") ? 1 : 0;
	case K_PTRAP:
		if (!ref_schnorr(f.at("p"), f.at("q"), f.at("k"), F, G, k, why)) return 0;
		if (!ref_gen(f.at("g"), f.at("p"), f.at("q"))) { why = "g not a generator"; return 0; }
		if (!ref_gen(f.at("h"), f.at("p"), f.at("q"))) { why = "h not a generator"; return 0; }
		if (!mpz_cmp(f.at("g"), f.at("h"))) { why = "g == h"; return 0; }
		return 1;
	case K_GVSSHE: {
		if (!pcom("com.")) return 0;
		// the class's own encryption group p,q,g and key h
		if (!ref_schnorr(f.at("p"), f.at("q"), nullptr, F, G, k, why)) { why = "own " + why; return 0; }
		if (!ref_gen(f.at("g"), f.at("p"), f.at("q"))) { why = "own g not a generator of order q in (1,p-1)"; return 0; }
		if (!mpz_cmp_ui(f.at("h"), 1)) { why = "own h == 1 (public key, not judged)"; return -1; }
		if (!ref_member(f.at("h"), f.at("p"), f.at("q"))) { why = "own h not in the order-q subgroup"; return 0; }
		return 1; }
	case K_CRS:
		for (auto &pre : c.copies) if (!crs(pre, c.canonical)) return 0;
		return 1;
	case K_EOTP:
		if (!ref_schnorr(f.at("p"), f.at("q"), nullptr, F, G, k, why)) return 0;
		if (!ref_gen(f.at("g"), f.at("p"), f.at("q"))) { why = "g not a generator"; return 0; }
		return 1;
	}
	return -1;
}

// CheckElement helper
template <class T> void elem_all(const T &o, const std::vector<Z> &vals, std::vector<int> &out) {
	out.clear(); for (auto &a : vals) out.push_back(o.CheckElement(a) ? 1 : 0);
}

// ---- the class list -----------------------------------------------------------
// `crsbase`: a valid CRS (p,q,g canonical,h) with cofactor k and a key `hkey`, from the
// library's own generator (BarnettSmartVTMF_dlog canonical mode)
inline void add_stream_classes(std::vector<Cls> &out) {
	for (int canon = 0; canon < 2; canon++) {
		Cls c; c.name = canon ? "VTMF_dlog-canonical" : "VTMF_dlog"; c.kind = K_VTMF; c.canonical = canon; c.fields = {"p", "q", "g", "k"}; c.has_elem = true;
		c.lib = [canon](const Fields &f, unsigned long F, unsigned long G) { std::istringstream in(lines_of(f, {"p", "q", "g", "k"})); BarnettSmartVTMF_dlog o(in, F, G, canon, true); return o.CheckGroup(); };
		c.elem = [canon](const Fields &f, unsigned long F, unsigned long G, const std::vector<Z> &v, std::vector<int> &r) { std::istringstream in(lines_of(f, {"p", "q", "g", "k"})); BarnettSmartVTMF_dlog o(in, F, G, canon, true); elem_all(o, v, r); };
		out.push_back(c);
	}
	{ Cls c; c.name = "VTMF_dlog_GroupQR"; c.kind = K_QR; c.canonical = true; c.fields = {"p", "q", "g", "k"}; c.has_elem = true;
	  c.lib = [](const Fields &f, unsigned long F, unsigned long E) { std::istringstream in(lines_of(f, {"p", "q", "g", "k"})); BarnettSmartVTMF_dlog_GroupQR o(in, F, E); return o.CheckGroup(); };
	  c.elem = [](const Fields &f, unsigned long F, unsigned long E, const std::vector<Z> &v, std::vector<int> &r) { std::istringstream in(lines_of(f, {"p", "q", "g", "k"})); BarnettSmartVTMF_dlog_GroupQR o(in, F, E); elem_all(o, v, r); };
	  out.push_back(c); }
	{ Cls c; c.name = "PedersenCommitmentScheme"; c.kind = K_PCOM; c.ngen = 3; c.fields = {"p", "q", "k", "h", "g1", "g2", "g3"};
	  c.lib = [](const Fields &f, unsigned long F, unsigned long G) { std::istringstream in(lines_of(f, {"p", "q", "k", "h", "g1", "g2", "g3"})); PedersenCommitmentScheme o(3, in, F, G); return o.CheckGroup(); };
	  out.push_back(c); }
	{ Cls c; c.name = "GrothSKC"; c.kind = K_PCOM; c.ngen = 3; c.fields = {"p", "q", "k", "h", "g1", "g2", "g3"};
	  c.lib = [](const Fields &f, unsigned long F, unsigned long G) { std::istringstream in(lines_of(f, {"p", "q", "k", "h", "g1", "g2", "g3"})); GrothSKC o(3, in, L_E, F, G); return o.CheckGroup(); };
	  out.push_back(c); }
	{ Cls c; c.name = "GrothVSSHE"; c.kind = K_GVSSHE; c.ngen = 3; c.fields = {"p", "q", "g", "h", "com.p", "com.q", "com.k", "com.h", "com.g1", "com.g2", "com.g3"};
	  std::vector<std::string> ord = c.fields;
	  c.lib = [ord](const Fields &f, unsigned long F, unsigned long G) { std::istringstream in(lines_of(f, ord)); GrothVSSHE o(3, in, L_E, F, G); return o.CheckGroup(); };
	  out.push_back(c); }
	{ Cls c; c.name = "PedersenTrapdoorCommitmentScheme"; c.kind = K_PTRAP; c.fields = {"p", "q", "k", "g", "h"};
	  c.lib = [](const Fields &f, unsigned long F, unsigned long G) { std::istringstream in(lines_of(f, {"p", "q", "k", "g", "h"})); PedersenTrapdoorCommitmentScheme o(in, F, G); return o.CheckGroup(); };
	  out.push_back(c); }
	{ Cls c; c.name = "VRHE"; c.kind = K_CRS; c.copies = {""}; c.fields = crs_fields(c.copies); c.has_elem = true;
	  c.lib = [](const Fields &f, unsigned long F, unsigned long G) { std::istringstream in(lines_of(f, {"p", "q", "g", "h"})); HooghSchoenmakersSkoricVillegasVRHE o(in, F, G); return o.CheckGroup(); };
	  c.elem = [](const Fields &f, unsigned long F, unsigned long G, const std::vector<Z> &v, std::vector<int> &r) { std::istringstream in(lines_of(f, {"p", "q", "g", "h"})); HooghSchoenmakersSkoricVillegasVRHE o(in, F, G); elem_all(o, v, r); };
	  out.push_back(c); }
	{ Cls c; c.name = "VRHE-param"; c.kind = K_CRS; c.copies = {""}; c.fields = crs_fields(c.copies);
	  c.lib = [](const Fields &f, unsigned long F, unsigned long G) { HooghSchoenmakersSkoricVillegasVRHE o(f.at("p"), f.at("q"), f.at("g"), f.at("h"), F, G); return o.CheckGroup(); };
	  out.push_back(c); }
	{ Cls c; c.name = "NaorPinkasEOTP"; c.kind = K_EOTP; c.fields = {"p", "q", "g"}; c.has_elem = true;
	  c.lib = [](const Fields &f, unsigned long F, unsigned long G) { std::istringstream in(lines_of(f, {"p", "q", "g"})); NaorPinkasEOTP o(in, F, G); return o.CheckGroup(); };
	  c.elem = [](const Fields &f, unsigned long F, unsigned long G, const std::vector<Z> &v, std::vector<int> &r) { NaorPinkasEOTP o(f.at("p"), f.at("q"), f.at("g"), F, G); elem_all(o, v, r); };
	  out.push_back(c); }
	{ Cls c; c.name = "NaorPinkasEOTP-param"; c.kind = K_EOTP; c.fields = {"p", "q", "g"};
	  c.lib = [](const Fields &f, unsigned long F, unsigned long G) { NaorPinkasEOTP o(f.at("p"), f.at("q"), f.at("g"), F, G); return o.CheckGroup(); };
	  out.push_back(c); }
}

// classes that are handed a common reference string (p,q,g,h); `base` must be a valid CRS
// with canonical g; templates for the state-stream paths are taken from fresh objects
inline void add_crs_classes(std::vector<Cls> &out, const Fields &crs) {
	const size_t n = DKG_N, t = DKG_T;
	auto P = [](const Fields &f, const char *x) -> mpz_srcptr { return f.at(x); };
	// --- parameter-constructor paths (single copy; nested objects are built from the same values)
	auto param = [&](const std::string &name, bool canonical, bool elem, std::function<bool(const Fields &, unsigned long, unsigned long)> lib) {
		Cls c; c.name = name; c.kind = K_CRS; c.canonical = canonical; c.copies = {""}; c.fields = crs_fields(c.copies); c.lib = lib; c.has_elem = false; (void)elem; out.push_back(c);
	};
	param("PedersenVSS-param", true, true, [=](const Fields &f, unsigned long F, unsigned long G) { PedersenVSS o(n, t, 0, P(f, "p"), P(f, "q"), P(f, "g"), P(f, "h"), F, G, false); return o.CheckGroup(); });
	param("JL_RVSS", false, true, [=](const Fields &f, unsigned long F, unsigned long G) { JareckiLysyanskayaRVSS o(n, t, P(f, "p"), P(f, "q"), P(f, "g"), P(f, "h"), F, G); return o.CheckGroup(); });
	param("JL_EDCF", false, false, [=](const Fields &f, unsigned long F, unsigned long G) { JareckiLysyanskayaEDCF o(n, t, P(f, "p"), P(f, "q"), P(f, "g"), P(f, "h"), F, G); return o.CheckGroup(); });
	for (int canon = 0; canon < 2; canon++) {
		std::string sfx = canon ? "-canonical" : "";
		param("GJKR_DKG-param" + sfx, canon, true, [=](const Fields &f, unsigned long F, unsigned long G) { GennaroJareckiKrawczykRabinDKG o(n, t, 0, P(f, "p"), P(f, "q"), P(f, "g"), P(f, "h"), F, G, canon, false); return o.CheckGroup(); });
		param("GJKR_NTS" + sfx, canon, false, [=](const Fields &f, unsigned long F, unsigned long G) { GennaroJareckiKrawczykRabinNTS o(n, t, 0, P(f, "p"), P(f, "q"), P(f, "g"), P(f, "h"), F, G, canon, false); return o.CheckGroup(); });
		param("CGJKR_RVSS-param" + sfx, canon, true, [=](const Fields &f, unsigned long F, unsigned long G) { CanettiGennaroJareckiKrawczykRabinRVSS o(n, t, 0, t, P(f, "p"), P(f, "q"), P(f, "g"), P(f, "h"), F, G, canon, false); return o.CheckGroup(); });
		param("CGJKR_ZVSS-param" + sfx, canon, true, [=](const Fields &f, unsigned long F, unsigned long G) { CanettiGennaroJareckiKrawczykRabinZVSS o(n, t, 0, t, P(f, "p"), P(f, "q"), P(f, "g"), P(f, "h"), F, G, canon, false); return o.CheckGroup(); });
		param("CGJKR_DKG-param" + sfx, canon, true, [=](const Fields &f, unsigned long F, unsigned long G) { CanettiGennaroJareckiKrawczykRabinDKG o(n, t, 0, P(f, "p"), P(f, "q"), P(f, "g"), P(f, "h"), F, G, canon, false); return o.CheckGroup(); });
		param("CGJKR_DSS-param" + sfx, canon, true, [=](const Fields &f, unsigned long F, unsigned long G) { CanettiGennaroJareckiKrawczykRabinDSS o(n, t, 0, P(f, "p"), P(f, "q"), P(f, "g"), P(f, "h"), F, G, canon, false); return o.CheckGroup(); });
	}
	// --- state-stream paths
	unsigned long F0 = mpz_sizeinbase(crs.at("p"), 2), G0 = mpz_sizeinbase(crs.at("q"), 2);
	auto stream = [&](const std::string &name, bool canonical, const std::vector<std::string> &copies, const Tmpl &tm,
	                  std::function<bool(std::istream &, unsigned long, unsigned long)> imp) {
		Cls c; c.name = name; c.kind = K_CRS; c.canonical = canonical; c.copies = copies; c.fields = crs_fields(copies);
		Fields b = crs; for (auto &cp : copies) if (!cp.empty()) copy_fields(b, cp);
		tmpl_verify(tm, b, name);
		c.lib = [tm, imp](const Fields &f, unsigned long F, unsigned long G) { std::istringstream in(fill(tm, f)); return imp(in, F, G); };
		out.push_back(c);
	};
	{ PedersenVSS o(n, t, 0, P(crs, "p"), P(crs, "q"), P(crs, "g"), P(crs, "h"), F0, G0, false); std::ostringstream os; o.PublishState(os);
	  Tmpl tm; tm.lines = split_lines(os.str()); add_copy(tm, "", 0);
	  stream("PedersenVSS", true, {""}, tm, [](std::istream &in, unsigned long F, unsigned long G) { PedersenVSS o2(in, F, G, false); return o2.CheckGroup(); }); }
	for (int canon = 0; canon < 2; canon++) {
		std::string sfx = canon ? "-canonical" : "";
		{ GennaroJareckiKrawczykRabinDKG o(n, t, 0, P(crs, "p"), P(crs, "q"), P(crs, "g"), P(crs, "h"), F0, G0, canon, false); std::ostringstream os; o.PublishState(os);
		  Tmpl tm; tm.lines = split_lines(os.str()); add_copy(tm, "", 0);
		  stream("GJKR_DKG" + sfx, canon, {""}, tm, [canon](std::istream &in, unsigned long F, unsigned long G) { GennaroJareckiKrawczykRabinDKG o2(in, F, G, canon, false); return o2.CheckGroup(); }); }
		{ CanettiGennaroJareckiKrawczykRabinRVSS o(n, t, 0, t, P(crs, "p"), P(crs, "q"), P(crs, "g"), P(crs, "h"), F0, G0, canon, false); std::ostringstream os; o.PublishState(os);
		  Tmpl tm; tm.lines = split_lines(os.str()); add_copy(tm, "", 0);
		  stream("CGJKR_RVSS" + sfx, canon, {""}, tm, [canon](std::istream &in, unsigned long F, unsigned long G) { CanettiGennaroJareckiKrawczykRabinRVSS o2(in, F, G, canon, false); return o2.CheckGroup(); }); }
		{ CanettiGennaroJareckiKrawczykRabinZVSS o(n, t, 0, t, P(crs, "p"), P(crs, "q"), P(crs, "g"), P(crs, "h"), F0, G0, canon, false); std::ostringstream os; o.PublishState(os);
		  Tmpl tm; tm.lines = split_lines(os.str()); add_copy(tm, "", 0);
		  stream("CGJKR_ZVSS" + sfx, canon, {""}, tm, [canon](std::istream &in, unsigned long F, unsigned long G) { CanettiGennaroJareckiKrawczykRabinZVSS o2(in, F, G, canon, false); return o2.CheckGroup(); }); }
		// DKG: 11 lines (p q g h n t i x_i xprime_i y |QUAL|=0) then the x_rvss state
		{ CanettiGennaroJareckiKrawczykRabinDKG o(n, t, 0, P(crs, "p"), P(crs, "q"), P(crs, "g"), P(crs, "h"), F0, G0, canon, false); std::ostringstream os; o.PublishState(os);
		  Tmpl tm; tm.lines = split_lines(os.str()); add_copy(tm, "", 0); add_copy(tm, "x_rvss.", 11);
		  stream("CGJKR_DKG" + sfx, canon, {"", "x_rvss."}, tm, [canon](std::istream &in, unsigned long F, unsigned long G) { CanettiGennaroJareckiKrawczykRabinDKG o2(in, F, G, canon, false); return o2.CheckGroup(); }); }
		{ CanettiGennaroJareckiKrawczykRabinDSS o(n, t, 0, P(crs, "p"), P(crs, "q"), P(crs, "g"), P(crs, "h"), F0, G0, canon, false); std::ostringstream os; o.PublishState(os);
		  Tmpl tm; tm.lines = split_lines(os.str()); add_copy(tm, "", 0); add_copy(tm, "dkg.", 11); add_copy(tm, "dkg.x_rvss.", 22);
		  stream("CGJKR_DSS" + sfx, canon, {"", "dkg.", "dkg.x_rvss."}, tm, [canon](std::istream &in, unsigned long F, unsigned long G) { CanettiGennaroJareckiKrawczykRabinDSS o2(in, F, G, canon, false); return o2.CheckGroup(); }); }
	}
}

// CheckElement of every class that has one, on an object built from a valid CRS-like set
// (fields p,q,g,h and k); name -> function
struct ElemCls { std::string name; bool qr; std::function<void(const Fields &, unsigned long, unsigned long, const std::vector<Z> &, std::vector<int> &)> run; };
inline std::vector<ElemCls> elem_classes() {
	const size_t n = 2, t = 1;
	auto P = [](const Fields &f, const char *x) -> mpz_srcptr { return f.at(x); };
	std::vector<ElemCls> v;
	v.push_back({"VTMF_dlog", false, [](const Fields &f, unsigned long F, unsigned long G, const std::vector<Z> &a, std::vector<int> &r) { std::istringstream in(lines_of(f, {"p", "q", "g", "k"})); BarnettSmartVTMF_dlog o(in, F, G, false, true); elem_all(o, a, r); }});
	v.push_back({"VTMF_dlog_GroupQR", true, [](const Fields &f, unsigned long F, unsigned long E, const std::vector<Z> &a, std::vector<int> &r) { std::istringstream in(lines_of(f, {"p", "q", "g", "k"})); BarnettSmartVTMF_dlog_GroupQR o(in, F, E); elem_all(o, a, r); }});
	v.push_back({"VRHE", false, [=](const Fields &f, unsigned long F, unsigned long G, const std::vector<Z> &a, std::vector<int> &r) { HooghSchoenmakersSkoricVillegasVRHE o(P(f, "p"), P(f, "q"), P(f, "g"), P(f, "h"), F, G); elem_all(o, a, r); }});
	v.push_back({"PUBROTZK", false, [=](const Fields &f, unsigned long, unsigned long, const std::vector<Z> &a, std::vector<int> &r) { HooghSchoenmakersSkoricVillegasPUBROTZK o(P(f, "p"), P(f, "q"), P(f, "g"), P(f, "h")); elem_all(o, a, r); }});
	v.push_back({"NaorPinkasEOTP", false, [=](const Fields &f, unsigned long F, unsigned long G, const std::vector<Z> &a, std::vector<int> &r) { NaorPinkasEOTP o(P(f, "p"), P(f, "q"), P(f, "g"), F, G); elem_all(o, a, r); }});
	v.push_back({"PedersenVSS", false, [=](const Fields &f, unsigned long F, unsigned long G, const std::vector<Z> &a, std::vector<int> &r) { PedersenVSS o(n, t, 0, P(f, "p"), P(f, "q"), P(f, "g"), P(f, "h"), F, G, false); elem_all(o, a, r); }});
	v.push_back({"GJKR_DKG", false, [=](const Fields &f, unsigned long F, unsigned long G, const std::vector<Z> &a, std::vector<int> &r) { GennaroJareckiKrawczykRabinDKG o(n, t, 0, P(f, "p"), P(f, "q"), P(f, "g"), P(f, "h"), F, G, false, false); elem_all(o, a, r); }});
	v.push_back({"CGJKR_RVSS", false, [=](const Fields &f, unsigned long F, unsigned long G, const std::vector<Z> &a, std::vector<int> &r) { CanettiGennaroJareckiKrawczykRabinRVSS o(n, t, 0, t, P(f, "p"), P(f, "q"), P(f, "g"), P(f, "h"), F, G, false, false); elem_all(o, a, r); }});
	v.push_back({"CGJKR_ZVSS", false, [=](const Fields &f, unsigned long F, unsigned long G, const std::vector<Z> &a, std::vector<int> &r) { CanettiGennaroJareckiKrawczykRabinZVSS o(n, t, 0, t, P(f, "p"), P(f, "q"), P(f, "g"), P(f, "h"), F, G, false, false); elem_all(o, a, r); }});
	v.push_back({"CGJKR_DKG", false, [=](const Fields &f, unsigned long F, unsigned long G, const std::vector<Z> &a, std::vector<int> &r) { CanettiGennaroJareckiKrawczykRabinDKG o(n, t, 0, P(f, "p"), P(f, "q"), P(f, "g"), P(f, "h"), F, G, false, false); elem_all(o, a, r); }});
	v.push_back({"CGJKR_DSS", false, [=](const Fields &f, unsigned long F, unsigned long G, const std::vector<Z> &a, std::vector<int> &r) { CanettiGennaroJareckiKrawczykRabinDSS o(n, t, 0, P(f, "p"), P(f, "q"), P(f, "g"), P(f, "h"), F, G, false, false); elem_all(o, a, r); }});
	v.push_back({"JL_RVSS", false, [=](const Fields &f, unsigned long F, unsigned long G, const std::vector<Z> &a, std::vector<int> &r) { JareckiLysyanskayaRVSS o(n, t, P(f, "p"), P(f, "q"), P(f, "g"), P(f, "h"), F, G); elem_all(o, a, r); }});
	return v;
}

} // namespace c06
