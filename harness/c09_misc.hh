// c09_misc.hh — interpolation, prime generators, mpz <-> gcry_mpi conversion
#pragma once
#include "c09_common.hh"

namespace c09 {

struct MiscStats {
	long long ip_distinct_true = 0, ip_collide_false = 0, ip_sorted_all_ordinates = 0, ip_by_size[16] = {0}, ip_unreduced = 0, ip_refusal = 0;
	long long cv_judged = 0, cv_secure_src = 0, cv_highbit = 0, cv_over_limit_false = 0, cv_over_limit_true = 0, cv_negative_roundtrip_ok = 0, cv_negative_roundtrip_bad = 0, cv_stream = 0;
	void flush() {
		count("ip.distinct_abscissae_interpolated", ip_distinct_true); count("ip.colliding_abscissae_refused", ip_collide_false); count("ip.sorted_sets_with_every_ordinate_tuple", ip_sorted_all_ordinates);
		for (int i = 1; i < 16; i++) if (ip_by_size[i]) count("ip.size_" + std::to_string(i), ip_by_size[i]);
		count("ip.unreduced_inputs", ip_unreduced); count("ip.bad_argument_refused", ip_refusal);
		count("cv.roundtrips_judged", cv_judged); count("cv.secure_mpi_source", cv_secure_src); count("cv.high_bit_set(00-prefix path)", cv_highbit);
		count("cv.beyond_TMCG_MAX_VALUE_CHARS_returned_false", cv_over_limit_false); count("cv.beyond_TMCG_MAX_VALUE_CHARS_returned_true", cv_over_limit_true);
		count("cv.notjudged_negative_roundtrip_ok", cv_negative_roundtrip_ok); count("cv.notjudged_negative_roundtrip_bad", cv_negative_roundtrip_bad); count("cv.stream_roundtrips", cv_stream);
	}
};
extern MiscStats MS;

// ------------------------------------------------------------------ interpolation
struct Interp {
	size_t m; ul q; std::vector<mpz_ptr> a, b, f; Z qz;
	Interp(size_t m_, ul q_) : m(m_), q(q_) { mpz_set_ui(qz, q); for (size_t i = 0; i < m; i++) { a.push_back(new mpz_t); b.push_back(new mpz_t); f.push_back(new mpz_t); mpz_init(a[i]); mpz_init(b[i]); mpz_init(f[i]); } }
	~Interp() { for (size_t i = 0; i < m; i++) { mpz_clear(a[i]); mpz_clear(b[i]); mpz_clear(f[i]); delete[] a[i]; delete[] b[i]; delete[] f[i]; } }
};
// av/bv small residues (already set into I.a / I.b by the caller); distinct = abscissae pairwise different mod q
static void interp_eval(Interp &I, const ul *av, const ul *bv, bool distinct, CaseStat &cs, Rng &rr, uint64_t rec_den) {
	for (size_t i = 0; i < I.m; i++) mpz_set_si(I.f[i], -7);
	bool ok = false; std::string what;
	Exc x = guard([&] { ok = tmcg_interpolate_polynom(I.a, I.b, I.qz, I.f); }, &what);
	cs.evals++; MS.ip_by_size[I.m < 15 ? I.m : 15]++;
	auto wit = [&]() { J w; w.kv("q", (long long)I.q); std::vector<ul> A(av, av + I.m), B(bv, bv + I.m); w.arrn("a", A).arrn("b", B).kv("returned", ok); std::vector<std::string> F; for (size_t i = 0; i < I.m; i++) F.push_back(mpz_dec(I.f[i])); w.arr("f", F); if (x != X_NONE) w.kv("threw", std::string(exc_name(x)) + ": " + what); return w; };
	if (x != X_NONE) viol("C09/interpolate/exception", "tmcg_interpolate_polynom threw on well-formed arguments", wit());
	else if (!distinct) { if (ok) viol("C09/interpolate/colliding-abscissae-accepted", "returned true for colliding abscissae", wit()); else MS.ip_collide_false++; }
	else if (!ok) viol("C09/interpolate/distinct-abscissae-refused", "returned false for pairwise distinct abscissae", wit());
	else {
		MS.ip_distinct_true++; cs.distinct++;
		bool good = true; ul fv[16];
		for (size_t i = 0; i < I.m; i++) { if (mpz_sgn(I.f[i]) < 0 || mpz_cmp_ui(I.f[i], I.q) >= 0) good = false; fv[i] = mpz_fdiv_ui(I.f[i], I.q); }
		if (!good) viol("C09/interpolate/coefficient-out-of-range", "coefficient not in [0,q)", wit());
		for (size_t i = 0; i < I.m && good; i++) { ul y = 0; for (size_t j = I.m; j-- > 0;) y = (mulmod(y, av[i] % I.q, I.q) + fv[j]) % I.q; if (y != bv[i] % I.q) good = false; }   // Horner on machine words
		if (!good) viol("C09/interpolate/points-not-reproduced", "f(a_i) != b_i (mod q)", wit());
		if (cs.sample.empty() && I.m >= 3) cs.sample = wit().str();
	}
	if ((rr.next() % rec_den) == 0) { J r; r.kv("k", "ip").kv("q", (long long)I.q); std::vector<ul> A(av, av + I.m), B(bv, bv + I.m); r.arrn("a", A).arrn("b", B).kv("ok", ok); std::vector<std::string> F; for (size_t i = 0; i < I.m; i++) F.push_back(mpz_dec(I.f[i])); r.arr("f", F); record(r.str()); }
}

// every ordered abscissa tuple with the given prefix; ordinates: all tuples for ascending distinct
// abscissae (= every point *set* once), a sample for the other orderings and for collisions
static void interp_sweep(size_t m, ul q, const std::vector<ul> &prefix, bool all_ord, CaseStat &cs, Rng &r, Rng &rr, uint64_t rec_den) {
	Interp I(m, q); ul av[8], bv[8]; size_t np = prefix.size();
	for (size_t i = 0; i < np; i++) av[i] = prefix[i];
	ul rest = 1; for (size_t i = np; i < m; i++) rest *= q;
	ul nb = 1; for (size_t i = 0; i < m; i++) nb *= q;
	for (ul ai = 0; ai < rest; ai++) {
		ul t = ai; for (size_t i = np; i < m; i++) { av[i] = t % q; t /= q; }
		bool distinct = true, sorted = true;
		for (size_t i = 0; i < m; i++) { for (size_t j = i + 1; j < m; j++) if (av[i] == av[j]) distinct = false; if (i && av[i - 1] >= av[i]) sorted = false; }
		for (size_t i = 0; i < m; i++) mpz_set_ui(I.a[i], av[i]);
		if (distinct && sorted && all_ord) {
			MS.ip_sorted_all_ordinates++;
			for (ul bi = 0; bi < nb; bi++) { ul u = bi; for (size_t i = 0; i < m; i++) { bv[i] = u % q; u /= q; mpz_set_ui(I.b[i], bv[i]); } interp_eval(I, av, bv, true, cs, rr, rec_den); }
		} else {
			int ns = distinct ? 16 : 4;
			for (int s = 0; s < ns; s++) { for (size_t i = 0; i < m; i++) { bv[i] = s == 0 ? 0 : r.below(q); mpz_set_ui(I.b[i], bv[i]); } interp_eval(I, av, bv, distinct, cs, rr, std::max<uint64_t>(1, rec_den / 64)); }
		}
	}
}

static void run_interp(long &k) {
	std::vector<ul> qs = {7, 11, 13};
	for (ul q : qs) for (size_t m = 1; m <= 4; m++) {
		bool all_ord = true;
		size_t plen = m <= 1 ? 0 : m == 2 ? 1 : 2;
		ul nchunks = 1; for (size_t i = 0; i < plen; i++) nchunks *= q;
		for (ul c = 0; c < nchunks; c++) {
			long kk = k++;
			if (thin_out(kk) || thin_light(kk)) continue;   // allocation-bound: 1/30 of the chunks under ASan
			std::vector<ul> prefix; ul t = c; for (size_t i = 0; i < plen; i++) { prefix.push_back(t % q); t /= q; }
			J d; d.kv("fam", "interpolate-all").kv("q", (long long)q).kv("size", (long long)m).arrn("abscissa_prefix", prefix);
			if (!case_begin(kk, d.str())) continue;
			Rng r = case_rng(kk, 1), lib = case_rng(kk, 2), rr = case_rng(kk, 3); tl_rng = &lib; CaseStat cs;
			interp_sweep(m, q, prefix, all_ord, cs, r, rr, 1500 * opt.recmul * (ctx.quick() ? 1 : 1));
			tl_rng = nullptr;
			case_end(d.str(), cs.evals > 0, cs.sample, cs.evals, cs.distinct);
		}
	}
	// random sets: size <= 6 mod primes < 30 (thorough: 10^6 sampled), size 8 mod random primes, unreduced inputs, refusals
	std::vector<ul> sp = primes_below(30); sp.erase(sp.begin());   // odd primes; size <= q needed for distinct
	int ncases = ctx.quick() ? 16 : 64; long per = ctx.quick() ? 2000 : 16000;
	for (int c = 0; c < ncases; c++) {
		long kk = k++;
		if (thin_out(kk)) continue;
		J d; d.kv("fam", "interpolate-random").kv("chunk", c);
		if (!case_begin(kk, d.str())) continue;
		Rng r = case_rng(kk, 1), lib = case_rng(kk, 2), rr = case_rng(kk, 3); tl_rng = &lib; CaseStat cs;
		for (long i = 0; i < per; i++) {
			ul q = sp[r.below(sp.size())]; size_t m = 1 + r.below(6); if (m > q) m = q;
			Interp I(m, q); ul av[8], bv[8]; bool collide = r.below(8) == 0 && m >= 2;
			std::vector<ul> perm; for (ul x = 0; x < q; x++) perm.push_back(x); for (size_t x = 0; x < m; x++) std::swap(perm[x], perm[x + r.below(q - x)]);
			for (size_t x = 0; x < m; x++) { av[x] = perm[x]; bv[x] = r.below(q); }
			if (collide) { size_t i1 = r.below(m), i2 = (i1 + 1 + r.below(m - 1)) % m; av[i1] = av[i2]; }
			for (size_t x = 0; x < m; x++) { mpz_set_ui(I.a[x], av[x]); mpz_set_ui(I.b[x], bv[x]); }
			interp_eval(I, av, bv, !collide, cs, rr, 40 * opt.recmul * (ctx.quick() ? 1 : 8));
		}
		// size 8 (and up to 12) modulo random 64..256-bit primes, values are full-size: checked with GMP Horner
		for (int i = 0; i < (ctx.quick() ? 40 : 200); i++) {
			size_t m = i % 4 == 3 ? 2 + r.below(11) : 8; size_t bits = 64 << r.below(3);
			Z q; harness_prime(q, bits, r);
			std::vector<mpz_ptr> a, b, f; std::vector<std::unique_ptr<Z>> own;
			auto mk = [&]() { own.emplace_back(new Z); return (mpz_ptr)*own.back(); };
			int mode = i % 5;   // 0..2 reduced distinct, 3 unreduced (a_i + j q, negative b), 4 colliding modulo q only
			for (size_t x = 0; x < m; x++) { a.push_back(mk()); b.push_back(mk()); f.push_back(mk()); r.mpz_below(a[x], q); r.mpz_below(b[x], q); }
			bool distinct = true; for (size_t x = 0; x < m; x++) for (size_t y = x + 1; y < m; y++) if (!mpz_cmp(a[x], a[y])) distinct = false;
			if (mode == 3) { MS.ip_unreduced++; for (size_t x = 0; x < m; x++) { if (x & 1) mpz_add(a[x], a[x], q); else mpz_sub(a[x], a[x], q); if (x % 3 == 0) mpz_sub(b[x], b[x], q); } }
			if (mode == 4 && m >= 2) { mpz_add(a[m - 1], a[0], q); distinct = false; }
			bool ok = false; std::string what; Exc x = guard([&] { ok = tmcg_interpolate_polynom(a, b, q, f); }, &what);
			cs.evals++; MS.ip_by_size[m < 15 ? m : 15]++;
			auto wit = [&]() { J w; w.kz("q", q).kv("returned", ok).kv("mode", mode); std::vector<std::string> A, B, F; for (size_t y = 0; y < m; y++) { A.push_back(mpz_dec(a[y])); B.push_back(mpz_dec(b[y])); F.push_back(mpz_dec(f[y])); } w.arr("a", A).arr("b", B).arr("f", F); if (x != X_NONE) w.kv("threw", what); return w; };
			if (x != X_NONE) viol("C09/interpolate/exception", "threw on well-formed arguments", wit());
			else if (!distinct) { if (ok) viol("C09/interpolate/colliding-abscissae-accepted", "returned true for abscissae colliding modulo q", wit()); else MS.ip_collide_false++; }
			else if (!ok) viol("C09/interpolate/distinct-abscissae-refused", "returned false for distinct abscissae", wit());
			else {
				MS.ip_distinct_true++; cs.distinct++; bool good = true, range = true;
				for (size_t y = 0; y < m; y++) if (mpz_sgn(f[y]) < 0 || mpz_cmp(f[y], q) >= 0) range = false;
				for (size_t y = 0; y < m; y++) { Z v; for (size_t j = m; j-- > 0;) { mpz_mul(v, v, a[y]); mpz_add(v, v, f[j]); mpz_mod(v, v, q); } if (!mpz_congruent_p(v, b[y], q)) good = false; }
				if (!good) viol("C09/interpolate/points-not-reproduced", "f(a_i) != b_i (mod q)", wit());
				else if (!range) viol("C09/interpolate/coefficient-out-of-range", "coefficient not in [0,q)", wit());
			}
			{ J rec; rec.kv("k", "ipz").kz("q", q).kv("ok", ok); std::vector<std::string> A, B, F; for (size_t y = 0; y < m; y++) { A.push_back(mpz_dec(a[y])); B.push_back(mpz_dec(b[y])); F.push_back(mpz_dec(f[y])); } rec.arr("a", A).arr("b", B).arr("f", F); if ((rr.next() % (uint64_t)(ctx.quick() ? 1 : 4)) == 0) record(rec.str()); }
		}
		// documented bad-argument refusals: size mismatch, empty, q = 0
		{ Interp I(3, 7); for (int x = 0; x < 3; x++) { mpz_set_ui(I.a[x], x); mpz_set_ui(I.b[x], x); }
		  std::vector<mpz_ptr> b2(I.b.begin(), I.b.begin() + 2), e0; Z zero; bool ok;
		  Exc x1 = guard([&] { ok = tmcg_interpolate_polynom(I.a, b2, I.qz, I.f); }), x2 = guard([&] { ok = tmcg_interpolate_polynom(e0, e0, I.qz, e0); }), x3 = guard([&] { ok = tmcg_interpolate_polynom(I.a, I.b, zero, I.f); });
		  (void)ok; cs.evals += 3;
		  if (x1 == X_NONE || x2 == X_NONE || x3 == X_NONE) viol("C09/interpolate/bad-argument-accepted", "size mismatch / empty / q=0 not refused", J().kv("size_mismatch_threw", x1 != X_NONE).kv("empty_threw", x2 != X_NONE).kv("zero_modulus_threw", x3 != X_NONE)); else MS.ip_refusal += 3; }
		tl_rng = nullptr;
		case_end(d.str(), cs.evals > 0, cs.sample, cs.evals, cs.distinct);
	}
}

// ------------------------------------------------------------------ mpz <-> gcry_mpi
static std::string gcry_hex(gcry_mpi_t g) { unsigned char *buf = nullptr; size_t n = 0; if (gcry_mpi_aprint(GCRYMPI_FMT_HEX, &buf, &n, g)) return "?"; std::string s((char *)buf); gcry_free(buf); return s; }
static void conv_eval(mpz_srcptr v, bool secure, CaseStat &cs, bool rec) {
	size_t bits = mpz_sizeinbase(v, 2); bool neg = mpz_sgn(v) < 0, over = bits > 16000;
	gcry_mpi_t g = secure ? gcry_mpi_snew(8) : gcry_mpi_new(8);
	bool ok1 = tmcg_mpz_get_gcry_mpi(g, v);
	// independent image of v: raw magnitude bytes -> gcry_mpi_scan(USG)
	size_t nb = (bits + 7) / 8; std::vector<unsigned char> raw(nb + 1, 0); size_t cnt = 0; mpz_export(raw.data(), &cnt, 1, 1, 1, 0, v);
	gcry_mpi_t h = nullptr; gcry_mpi_scan(&h, GCRYMPI_FMT_USG, raw.data(), cnt, nullptr); if (neg) gcry_mpi_neg(h, h);
	Z back; bool ok2 = ok1 && tmcg_mpz_set_gcry_mpi(g, back);
	Z back2; bool ok3 = tmcg_mpz_set_gcry_mpi(h, back2);          // gcry -> mpz from the independently built MPI
	size_t lo = ok1 ? tmcg_get_gcry_mpi_ui(h) : 0;
	auto wit = [&]() { return J().kz("value", v).kv("bits", (long long)bits).kv("secure_mpi", secure).kv("get_ok", ok1).kv("set_ok", ok2).kv("gcry_hex", ok1 ? shorten(gcry_hex(g)) : std::string("-")).kz("back", back).kz("back_from_independent_mpi", back2); };
	cs.evals++;
	if (over) { if (ok2 && ok3) MS.cv_over_limit_true++; else MS.cv_over_limit_false++; }
	else if (neg) { if (ok1 && ok2 && !mpz_cmp(back, v) && ok3 && !mpz_cmp(back2, v)) MS.cv_negative_roundtrip_ok++; else MS.cv_negative_roundtrip_bad++; }
	else {
		MS.cv_judged++; cs.distinct++; if (secure) MS.cv_secure_src++; if (bits % 8 == 0 && bits) MS.cv_highbit++;
		if (!ok1 || !ok2 || !ok3) viol("C09/convert/refused-non-negative-value", "conversion of a non-negative value failed", wit());
		else if (gcry_mpi_cmp(g, h) != 0) viol("C09/convert/mpz-to-gcry-wrong-value", "tmcg_mpz_get_gcry_mpi result differs from the MPI scanned from the raw bytes", wit());
		else if (mpz_cmp(back, v) != 0) viol("C09/convert/roundtrip-lossy", "mpz -> gcry_mpi -> mpz changed the value", wit());
		else if (mpz_cmp(back2, v) != 0) viol("C09/convert/gcry-to-mpz-wrong-value", "tmcg_mpz_set_gcry_mpi differs from the value the MPI was built from", wit());
		else if (lo != mpz_get_ui(v)) viol("C09/convert/get_gcry_mpi_ui-wrong", "tmcg_get_gcry_mpi_ui != low word", wit().kv("got_ui", (unsigned long long)lo));
		// stream operators (the text the Bigint wrapper prints)
		std::stringstream s1, s2; Z rd; std::string swhat; MS.cv_stream++;
		Exc sx = guard([&] { s1 << v; s2 << (const gcry_mpi_t)h; std::stringstream s3(s1.str() + "\n"); s3 >> (mpz_ptr)rd; }, &swhat);
		if (sx != X_NONE) viol("C09/convert/stream-operator-threw", "operator<< / operator>> threw for a non-negative value", wit().kv("threw", swhat));
		else if (s1.str() != mpz_b62(v) || s2.str() != s1.str() || mpz_cmp(rd, v)) viol("C09/convert/stream-text-differs", "operator<< / operator>> text round trip", wit().kv("mpz_text", shorten(s1.str())).kv("mpi_text", shorten(s2.str())));
		if (cs.sample.empty() && bits > 64 && bits < 200) cs.sample = wit().str();
		if (rec) record(J().kv("k", "cv").kz("v", v).kv("hex", gcry_hex(g)).kz("back", back).kv("txt", s2.str()).str());
	}
	gcry_mpi_release(g); gcry_mpi_release(h);
}
static void run_convert(long &k) {
	int ncases = ctx.quick() ? 8 : 32;
	for (int c = 0; c < ncases; c++) {
		long kk = k++;
		if (c && thin_light(kk)) continue;
		J d; d.kv("fam", "mpz-gcry-convert").kv("chunk", c);
		if (!case_begin(kk, d.str())) continue;
		Rng r = case_rng(kk, 1), lib = case_rng(kk, 2); tl_rng = &lib; CaseStat cs; Z v;
		if (c == 0) {   // structured: 0,1,2, 2^k-1, 2^k, 2^k+1
			for (ul u = 0; u < 300; u++) { mpz_set_ui(v, u); conv_eval(v, u & 1, cs, u < 40); }
			for (size_t e = 1; e <= 4200; e += (e < 140 ? 1 : 61)) for (int dlt = -1; dlt <= 1; dlt++) { mpz_set_ui(v, 1); mpz_mul_2exp(v, v, e); if (dlt < 0) mpz_sub_ui(v, v, 1); if (dlt > 0) mpz_add_ui(v, v, 1); conv_eval(v, e & 1, cs, e % 7 == 0); }
			for (size_t e : {8192UL, 16000UL, 16368UL, 16372UL, 16376UL, 16380UL, 16384UL, 20000UL}) { mpz_set_ui(v, 1); mpz_mul_2exp(v, v, e); mpz_sub_ui(v, v, 1); conv_eval(v, false, cs, false); }
		}
		for (int i = 0; i < (ctx.quick() ? 600 : 1500); i++) {
			size_t bits = i % 3 == 0 ? 1 + r.below(64) : i % 3 == 1 ? 1 + r.below(4096) : 8 * (1 + r.below(512));
			r.mpz_bits(v, bits); if (i % 3 == 2) mpz_setbit(v, bits - 1);
			conv_eval(v, r.coin(), cs, i % 4 == 0);
			if (i % 10 == 0) { mpz_neg(v, v); conv_eval(v, false, cs, false); }
		}
		tl_rng = nullptr;
		case_end(d.str(), cs.evals > 0, cs.sample, cs.evals, cs.distinct);
	}
}

} // namespace c09
