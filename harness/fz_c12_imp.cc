// libFuzzer target: card / card secret / stack / stack secret importers (import(string)) and mpz operator>>
#include "c12_fz.hh"
using namespace c12;
extern "C" int LLVMFuzzerTestOneInput(const uint8_t *data, size_t size) {
	fz_init(false); fz_reseed(data, size); std::string s((const char *)data, size);
	imp_string<TMCG_Card>(s); imp_string_ne<TMCG_CardSecret>(s); imp_string<VTMF_Card>(s); imp_string_ne<VTMF_CardSecret>(s);
	imp_stack_string<TMCG_Stack<TMCG_Card>>(s); imp_stack_string<TMCG_Stack<VTMF_Card>>(s);
	imp_ss_string<TMCG_StackSecret<TMCG_CardSecret>>(s); imp_ss_string<TMCG_StackSecret<VTMF_CardSecret>>(s);
	imp_stream<TMCG_Card>(s); imp_stream<VTMF_Card>(s); imp_mpz_stream(s);
	return 0;
}
