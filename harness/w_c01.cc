// w_c01.cc — C01: opening a masked card returns the type it was created with.
// Reference model: the type the harness created the card with.
//   all k players contributed  -> returned type == T   (both encodings)
//   dlog encoding, a proper subset contributed -> sentinel 2^w
#include "engine.hh"
#include <cassert>
#include <memory>

using namespace vf;

struct DlogWorld {       // k VTMF instances sharing one group, keys exchanged
	std::vector<BarnettSmartVTMF_dlog *> v; int kind; size_t k;
	~DlogWorld() { for (auto p : v) delete p; }
};

// kind 0: random g, 1: canonical g, 2: GroupQR (p = 2q+1, shortened exponents)
// `leavers` extra players take part in the key generation and then leave the table: every remaining player removes their key
// (KeyGenerationProtocol_RemoveKey + Finalize, as the manual prescribes) before any card is created; the k players that stay are
// "the k players" of the statement (seeded change c01_removekey_multiplies)
static DlogWorld *make_world(size_t k_stay, int kind, unsigned long fs, unsigned long gs, size_t leavers = 0) {
	size_t k = k_stay + leavers;
	DlogWorld *w = new DlogWorld; w->kind = kind; w->k = k_stay;
	BarnettSmartVTMF_dlog *first = nullptr;
	if (kind == 2) first = new BarnettSmartVTMF_dlog_GroupQR(fs, gs);
	else first = new BarnettSmartVTMF_dlog(fs, gs, kind == 1, true);
	if (!first->CheckGroup()) { violation("C01/setup/CheckGroup", "generated group refused", J().kv("kind", kind).str()); }
	w->v.push_back(first);
	std::stringstream grp; first->PublishGroup(grp);
	for (size_t i = 1; i < k; i++) {
		std::stringstream in(grp.str());
		if (kind == 2) w->v.push_back(new BarnettSmartVTMF_dlog_GroupQR(in, fs, gs));
		else w->v.push_back(new BarnettSmartVTMF_dlog(in, fs, gs, kind == 1, true));
	}
	for (auto p : w->v) p->KeyGenerationProtocol_GenerateKey();
	for (size_t i = 0; i < k; i++) {
		std::stringstream key; w->v[i]->KeyGenerationProtocol_PublishKey(key);
		for (size_t j = 0; j < k; j++) if (j != i) { std::stringstream in(key.str()); if (!w->v[j]->KeyGenerationProtocol_UpdateKey(in)) violation("C01/setup/UpdateKey", "honest key share refused"); }
	}
	for (auto p : w->v) p->KeyGenerationProtocol_Finalize();
	for (size_t l = k_stay; l < k; l++) {
		std::stringstream key; w->v[l]->KeyGenerationProtocol_PublishKey(key);
		for (size_t j = 0; j < k_stay; j++) { std::stringstream in(key.str()); if (!w->v[j]->KeyGenerationProtocol_RemoveKey(in)) violation("C01/setup/RemoveKey", "key of a leaving player could not be removed"); }
		// the players that left earlier and later do the same among themselves; they are not used afterwards
	}
	if (leavers) {
		for (size_t j = 0; j < k_stay; j++) w->v[j]->KeyGenerationProtocol_Finalize();
		for (size_t l = k_stay; l < k; l++) delete w->v[l];
		w->v.resize(k_stay);
		count("dlog_worlds_after_players_left"); count("dlog_players_left", (long long)leavers);
	}
	return w;
}

// opens card c at player `opener` with the shares of the players in `contrib`
static size_t open_dlog(DlogWorld *W, SchindelhauerTMCG &tm, const VTMF_Card &c, size_t opener, const std::vector<bool> &contrib, bool &proofs_ok) {
	proofs_ok = true;
	BarnettSmartVTMF_dlog *me = W->v[opener];
	tm.TMCG_SelfCardSecret(c, me);
	for (size_t j = 0; j < W->k; j++) {
		if (j == opener || !contrib[j]) continue;
		std::stringstream proof, dummy_in, dummy_out;
		tm.TMCG_ProveCardSecret(c, W->v[j], dummy_in, proof);
		if (!tm.TMCG_VerifyCardSecret(c, me, proof, dummy_out)) proofs_ok = false;
	}
	return tm.TMCG_TypeOfCard(c, me);
}

static void run_dlog(long &kcase) {
	bool quick = ctx.quick();
	std::vector<size_t> ks = quick ? std::vector<size_t>{1, 2, 3, 5} : std::vector<size_t>{1, 2, 3, 4, 5, 8, 16};
	std::vector<size_t> ws = quick ? std::vector<size_t>{1, 2, 3, 4, 6, 10} : std::vector<size_t>{1, 2, 3, 4, 5, 6, 7, 8, 9, 10};
	for (int kind = 0; kind < 3; kind++) for (size_t k : ks) for (size_t w : ws) {
		// one case = one (kind,k,w) world with many cards
		J d; d.kv("enc", "dlog").kv("kind", kind).kv("k", (long long)k).kv("w", (long long)w);
		if (!case_begin(kcase++, d.str())) continue;
		Rng r = case_rng(kcase, 1); tl_rng = &r;
		bool dflt = ctx.thorough() && kind == 0 && k == 2 && w == 4;   // one world at library default sizes
		size_t leavers = dflt ? 0 : (k + w + (size_t)kind) % 3;     // 0, 1 or 2 players leave after the key generation
		std::unique_ptr<DlogWorld> W(make_world(k, kind, dflt ? 2048 : (kind == 2 ? 512 : 512), dflt ? 256 : 160, leavers));
		SchindelhauerTMCG tm(16, k, w);
		size_t maxT = (size_t)1 << w;
		std::vector<size_t> types;
		bool allT = (w <= 4) || (ctx.thorough() && k <= 3);
		if (allT) for (size_t T = 0; T < maxT; T++) types.push_back(T);
		else { types = {0, 1, maxT - 2, maxT - 1}; for (int i = 0; i < 4; i++) types.push_back(r.below(maxT)); }
		long long cards = 0, distinct = 0; std::string sample;
		for (size_t T : types) {
			size_t chain_len = r.below(ctx.quick() ? 5 : 9);
			bool priv = r.coin();
			VTMF_Card c; VTMF_CardSecret cs0;
			size_t creator = r.below(k);
			if (priv) tm.TMCG_CreatePrivateCard(c, cs0, W->v[creator], T); else tm.TMCG_CreateOpenCard(c, W->v[creator], T);
			std::string chain;
			for (size_t s = 0; s < chain_len; s++) {
				size_t pl = r.below(k); bool prot = r.coin();
				VTMF_Card cc; VTMF_CardSecret cs; tm.TMCG_CreateCardSecret(cs, W->v[pl]);
				tm.TMCG_MaskCard(c, cc, cs, W->v[pl], prot); c = cc;
				chain += std::to_string(pl) + (prot ? "p" : "u") + ",";
			}
			// every player opens with all contributions
			for (size_t opener = 0; opener < k; opener++) {
				std::vector<bool> all(k, true); bool ok;
				size_t got = open_dlog(W.get(), tm, c, opener, all, ok);
				cards++;
				if (!ok) violation("C01/dlog/proof-rejected", "honest decryption share refused", J().kv("kind", kind).kv("k", (long long)k).kv("w", (long long)w).kv("T", (long long)T).kv("chain", chain).str());
				if (got != T) violation("C01/dlog/wrong-type", "opened type differs from created type", J().kv("kind", kind).kv("k", (long long)k).kv("w", (long long)w).kv("T", (long long)T).kv("got", (long long)got).kv("chain", chain).kv("opener", (long long)opener).kv("private", priv).str());
			}
			// a missing contribution must give the sentinel (k >= 2)
			// (an open card that was never masked has c_1 = 1: its type is public, no share needed)
			if (k >= 2 && (priv || chain_len > 0)) {
				size_t opener = r.below(k), miss = (opener + 1 + r.below(k - 1)) % k;
				std::vector<bool> part(k, true); part[miss] = false; bool ok;
				size_t got = open_dlog(W.get(), tm, c, opener, part, ok);
				cards++; count("dlog_partial_openings");
				if (got != maxT) violation("C01/dlog/partial-opening-not-sentinel", "opening without one share did not return the invalid-type sentinel", J().kv("kind", kind).kv("k", (long long)k).kv("w", (long long)w).kv("T", (long long)T).kv("got", (long long)got).kv("missing", (long long)miss).str());
			}
			// a contribution that is first damaged in transit (verification must fail) and then
			// re-sent intact: once every player's contribution verified, the card opens to T
			if (k >= 2) {
				size_t opener = r.below(k), bad = (opener + 1 + r.below(k - 1)) % k;
				int line = (int)r.below(4);      // which of the 4 lines (d_j, fingerprint, c, r) is damaged
				BarnettSmartVTMF_dlog *me = W->v[opener];
				tm.TMCG_SelfCardSecret(c, me);
				bool all_ok = true, damaged_refused = true; std::string exc;
				for (size_t j = 0; j < k; j++) {
					if (j == opener) continue;
					std::stringstream proof, dummy_in, dummy_out;
					tm.TMCG_ProveCardSecret(c, W->v[j], dummy_in, proof);
					if (j == bad) {
						// damage one line: replace the value v by v+1
						std::vector<std::string> L; std::string ln; std::stringstream ps(proof.str());
						while (std::getline(ps, ln)) L.push_back(ln);
						if ((size_t)line < L.size()) {
							mpz_t v; mpz_init(v);
							if (mpz_set_str(v, L[line].c_str(), 62) == 0) { mpz_add_ui(v, v, 1); L[line] = mpz_b62(v); }
							mpz_clear(v);
						}
						std::stringstream dmg; for (auto &x : L) dmg << x << std::endl;
						int acc = accepted([&]() { return tm.TMCG_VerifyCardSecret(c, me, dmg, dummy_out); }, &exc);
						if (acc) damaged_refused = false;
						count("dlog_damaged_then_resent");
					}
					std::stringstream again(proof.str());
					if (!tm.TMCG_VerifyCardSecret(c, me, again, dummy_out)) all_ok = false;
				}
				size_t got = tm.TMCG_TypeOfCard(c, me);
				cards++;
				J wj; wj.kv("kind", kind).kv("k", (long long)k).kv("w", (long long)w).kv("T", (long long)T).kv("got", (long long)got).kv("opener", (long long)opener).kv("damaged_player", (long long)bad).kv("damaged_line", line).kv("chain", chain);
				if (!damaged_refused) count("dlog_damaged_share_accepted");   // C05's subject; recorded here
				if (!all_ok) violation("C01/dlog/resent-proof-rejected", "an intact contribution re-sent after a damaged one was refused", wj.str());
				else if (got != T) violation("C01/dlog/wrong-type-after-rejected-contribution", "all players' contributions verified (one after a damaged first attempt) but the card did not open to its type", wj.str());
			}
			distinct++;
			if (sample.empty()) sample = J().kv("enc", "dlog").kv("group_kind", kind).kv("k", (long long)k).kv("w", (long long)w).kv("T", (long long)T).kv("private", priv).kv("chain", chain).kv("opened_by", "every player").str();
		}
		count("dlog_cards", cards); count("dlog_worlds");
		tl_rng = nullptr;
		case_end(d.str(), cards > 0, sample, cards, distinct);
	}
}

// ---------------------------------------------------------------- QR encoding
static void run_qr(long &kcase) {
	bool quick = ctx.quick();
	std::vector<size_t> ks = quick ? std::vector<size_t>{1, 2, 3} : std::vector<size_t>{1, 2, 3, 5, 8};
	std::vector<size_t> ws = quick ? std::vector<size_t>{1, 3, 10} : std::vector<size_t>{1, 2, 3, 4, 6, 8, 10};
	for (size_t k : ks) for (size_t w : ws) {
		J d; d.kv("enc", "qr").kv("k", (long long)k).kv("w", (long long)w);
		if (!case_begin(kcase++, d.str())) continue;
		Rng r = case_rng(kcase, 2); tl_rng = &r;
		std::vector<TMCG_SecretKey *> sk; TMCG_PublicKeyRing ring(k);
		for (size_t i = 0; i < k; i++) {
			sk.push_back(new TMCG_SecretKey("P" + std::to_string(i), "p@x", 512 + 64 * (i % 3), false));
			ring.keys[i] = TMCG_PublicKey(*sk[i]);
		}
		unsigned long sec = quick ? 4 : 8;
		SchindelhauerTMCG tm(sec, k, w);
		size_t maxT = (size_t)1 << w;
		std::vector<size_t> types;
		if (w <= 3) for (size_t T = 0; T < maxT; T++) types.push_back(T);
		else { types = {0, maxT - 1}; types.push_back(r.below(maxT)); if (!quick) { types.push_back(1); types.push_back(maxT - 2); types.push_back(r.below(maxT)); } }
		long long cards = 0, distinct = 0; std::string sample; uint64_t cs_seed = 0;
		for (size_t T : types) {
			size_t chain_len = r.below(quick ? 3 : 6);
			bool priv = r.coin(); size_t creator = r.below(k);
			TMCG_Card c(k, w); TMCG_CardSecret cs0(k, w);
			if (priv) tm.TMCG_CreatePrivateCard(c, cs0, ring, creator, T); else tm.TMCG_CreateOpenCard(c, ring, T);
			std::string chain;
			for (size_t s = 0; s < chain_len; s++) {
				size_t pl = r.below(k); bool prot = r.coin();
				TMCG_Card cc(k, w); TMCG_CardSecret cs(k, w); tm.TMCG_CreateCardSecret(cs, ring, pl);
				tm.TMCG_MaskCard(c, cc, cs, ring, prot); c = cc;
				chain += std::to_string(pl) + (prot ? "p" : "u") + ",";
			}
			size_t nopen = quick ? 1 : k;
			for (size_t oi = 0; oi < nopen; oi++) {
				size_t opener = quick ? r.below(k) : oi;
				TMCG_CardSecret open(k, w);
				tm.TMCG_SelfCardSecret(c, open, *sk[opener], opener);
				bool proofs = true;
				for (size_t j = 0; j < k; j++) {
					if (j == opener) continue;
					// interactive proof between prover j and verifier `opener` over line channels
					TwoParty tp(ctx.seed, (uint64_t)kcase * 1000003ULL + (cs_seed++));
					bool ok = false;
					SchindelhauerTMCG tmP(sec, k, w), tmV(sec, k, w);
					tp.run([&](std::istream &in, std::ostream &out) { tmP.TMCG_ProveCardSecret(c, *sk[j], j, in, out); },
					       [&](std::istream &in, std::ostream &out) { ok = tmV.TMCG_VerifyCardSecret(c, open, ring.keys[j], j, in, out); });
					if (!ok) proofs = false;
					count("qr_interactive_secret_proofs"); count("qr_proof_lines", (long long)tp.d.log.size());
				}
				size_t got = tm.TMCG_TypeOfCard(open);
				cards++;
				if (!proofs) violation("C01/qr/proof-rejected", "honest card secret proof refused", J().kv("k", (long long)k).kv("w", (long long)w).kv("T", (long long)T).kv("chain", chain).str());
				if (got != T) violation("C01/qr/wrong-type", "opened type differs from created type", J().kv("k", (long long)k).kv("w", (long long)w).kv("T", (long long)T).kv("got", (long long)got).kv("chain", chain).kv("opener", (long long)opener).kv("private", priv).str());
			}
			distinct++;
			if (sample.empty()) sample = J().kv("enc", "qr").kv("k", (long long)k).kv("w", (long long)w).kv("T", (long long)T).kv("private", priv).kv("chain", chain).str();
		}
		for (auto p : sk) delete p;
		count("qr_cards", cards);
		tl_rng = nullptr;
		case_end(d.str(), cards > 0, sample, cards, distinct);
	}
}

int main(int argc, char **argv) {
	init(argc, argv);
	null_cerr();
	if (!init_libTMCG()) { fprintf(stderr, "init_libTMCG failed\n"); return 2; }
	long k = 0;
	run_dlog(k);
	run_qr(k);
	finish();
	return 0;
}
