// c20_enc.hh — encrypted messages of the C20 workload: SEIPD (CFB + MDC) with PKESK
// (RSA, ElGamal, ECDH) and SKESK (v4 S2K, v5 AEAD), AEAD encrypted data (EAX/OCB, chunked),
// SED refusal, foreign-cipher CFB messages made with libgcrypt directly
#pragma once
#include "c20_core.hh"
#include "c20_sig.hh"

#include <dlfcn.h>

namespace c20 { static std::vector<std::string> *g_nonce_log = nullptr; }
// observation point for AEAD nonces: the harness executable's definition takes precedence over libgcrypt's
// for the statically linked library code (same mechanism as interpose.cc); pass-through
extern "C" gcry_error_t gcry_cipher_setiv(gcry_cipher_hd_t h, const void *iv, size_t ivlen) {
	typedef gcry_error_t (*fn_t)(gcry_cipher_hd_t, const void *, size_t);
	static fn_t real = (fn_t)dlsym(RTLD_NEXT, "gcry_cipher_setiv");
	if (c20::g_nonce_log && iv && ivlen) c20::g_nonce_log->push_back(std::string((const char *)iv, ivlen));
	return real(h, iv, ivlen);
}

namespace c20 {

// every nonce a single AEAD encryption/decryption hands to the cipher must be used once (EAX/OCB lose
// confidentiality and authenticity under nonce reuse); also compared with the draft's formula IV xor index
inline void check_nonces(const std::string &what, const std::vector<std::string> &log, const Oct &iv, const std::string &cj) {
	std::set<std::string> seen; bool dup = false; size_t first_dup = 0;
	for (size_t i = 0; i < log.size(); i++) { if (!seen.insert(log[i]).second && !dup) { dup = true; first_dup = i; } }
	count("aead_nonce/" + what + "/messages"); count("aead_nonce/" + what + "/nonces", (long long)log.size());
	if (dup) {
		std::vector<std::string> hx; for (auto &n : log) hx.push_back(hex((const unsigned char *)n.data(), n.size()));
		viol("C20/aead/nonce-reused-within-message", "the library used the same AEAD nonce for two chunks of one message (" + what + "), first repetition at step " + std::to_string(first_dup),
			J().arr("nonces_in_order", hx).kv("starting_iv", hex(iv)).raw("ctx", cj).str());
	}
	bool spec = true;
	for (size_t i = 0; i < log.size() && spec; i++) { std::string n((const char *)iv.data(), iv.size()); for (int b = 0; b < 8; b++) n[n.size() - 1 - b] ^= (char)((i >> (8 * b)) & 0xFF); if (n != log[i]) spec = false; }
	count(std::string("aead_nonce/") + what + (spec ? "/as-in-draft" : "/differs-from-draft"));
}

// ------------------------------------------------------------------ recipients
struct Recipient {      // public and private subkey objects of the library for one key
	std::shared_ptr<KeyMat> K; TMCG_OpenPGP_Subkey *pub = nullptr; TMCG_OpenPGP_PrivateSubkey *prv = nullptr; bool ok = false; std::string err;
	~Recipient() { delete prv; delete pub; }
};
static std::map<std::string, std::shared_ptr<Recipient>> g_rcpt;
inline std::shared_ptr<Recipient> recipient(const std::string &name) {
	auto it = g_rcpt.find(name); if (it != g_rcpt.end()) return it->second;
	auto R = std::make_shared<Recipient>(); g_rcpt[name] = R; R->K = KR.get(name); KeyMat &k = *R->K;
	if (!k.ok) { R->err = k.err; return R; }
	tmcg_openpgp_pkalgo_t a = (tmcg_openpgp_pkalgo_t)k.algo;
	if (k.algo == 1) { R->pub = new TMCG_OpenPGP_Subkey(a, k.ctime, 0, k.m[0], k.m[1], k.subp); R->prv = new TMCG_OpenPGP_PrivateSubkey(a, k.ctime, 0, k.m[0], k.m[1], k.m[2], k.m[3], k.m[4], k.m[5], k.subp); }
	else if (k.algo == 16) { R->pub = new TMCG_OpenPGP_Subkey(a, k.ctime, 0, k.m[0], k.m[1], k.m[2], k.subp); R->prv = new TMCG_OpenPGP_PrivateSubkey(a, k.ctime, 0, k.m[0], k.m[1], k.m[2], k.m[3], k.subp); }
	else if (k.algo == 18) {
		R->pub = new TMCG_OpenPGP_Subkey(a, k.ctime, 0, k.oid.size(), k.oid.data(), k.m[0], (tmcg_openpgp_hashalgo_t)k.kdf_hash, (tmcg_openpgp_skalgo_t)k.kdf_sk, k.subp);
		R->prv = new TMCG_OpenPGP_PrivateSubkey(a, k.ctime, 0, k.oid.size(), k.oid.data(), k.m[0], k.m[1], (tmcg_openpgp_hashalgo_t)k.kdf_hash, (tmcg_openpgp_skalgo_t)k.kdf_sk, k.subp);
	} else { R->err = "not an encryption key"; return R; }
	R->ok = R->pub->Good() && R->prv->Good();
	if (!R->ok) R->err = "library refuses the key material";
	return R;
}

// PKESK with the library's primitives
inline bool make_pkesk(Recipient &R, const SOct &seskey, bool wildcard, Oct &out, std::string &err) {
	KeyMat &k = *R.K; Oct keyid = wildcard ? Oct(8, 0) : R.pub->id; gcry_error_t rc = 0;
	if (k.algo == 1) { gcry_mpi_t me = gcry_mpi_new(2048); rc = PGP::AsymmetricEncryptRSA(seskey, R.pub->key, me); if (!rc) PGP::PacketPkeskEncode(keyid, me, out); gcry_mpi_release(me); }
	else if (k.algo == 16) { gcry_mpi_t gk = gcry_mpi_new(2048), myk = gcry_mpi_new(2048); rc = PGP::AsymmetricEncryptElgamal(seskey, R.pub->key, gk, myk); if (!rc) PGP::PacketPkeskEncode(keyid, gk, myk, out); gcry_mpi_release(gk); gcry_mpi_release(myk); }
	else { gcry_mpi_t e = gcry_mpi_new(1024); size_t rkwlen = 0; tmcg_openpgp_byte_t rkw[256];
		// RFC 6637: the wrapped value is algorithm id || session key || checksum
		rc = PGP::AsymmetricEncryptECDH(seskey, R.pub->key, R.pub->kdf_hashalgo, R.pub->kdf_skalgo, R.pub->ec_curve, R.pub->fingerprint, e, rkwlen, rkw);
		if (!rc) PGP::PacketPkeskEncode(keyid, e, rkwlen, rkw, out); gcry_mpi_release(e); }
	if (rc) { err = gcry_strerror(rc); return false; }
	return true;
}

// SKESK packets are not emitted by the library (only parsed): built here from the format
static const char *PASSPHRASE = "correct horse battery staple";
inline Oct pkt(int tag, const Oct &body) { Oct o; PGP::PacketTagEncode(tag, o); PGP::PacketLengthEncode(body.size(), o); app(o, body); return o; }
inline bool make_skesk4(int skalgo, int s2ktype, int s2khash, int count, Rng &r, Oct &out, SOct &seskey) {
	Oct salt = gen_bin(8, r), b; b.push_back(4); b.push_back(skalgo); b.push_back(s2ktype); b.push_back(s2khash); app(b, salt); if (s2ktype == 3) b.push_back(count);
	seskey.clear(); PGP::S2KCompute((tmcg_openpgp_hashalgo_t)s2khash, PGP::AlgorithmKeyLength((tmcg_openpgp_skalgo_t)skalgo), PASSPHRASE, salt, s2ktype == 3, count, seskey);
	out = pkt(3, b); return seskey.size() == PGP::AlgorithmKeyLength((tmcg_openpgp_skalgo_t)skalgo);
}
inline bool make_skesk5(int skalgo, int aead, int s2khash, int count, const SOct &seskey, Rng &r, Oct &out, std::string &err) {
	Oct salt = gen_bin(8, r), b, ad, iv, enc, in(seskey.begin(), seskey.end()); SOct kek;
	PGP::S2KCompute((tmcg_openpgp_hashalgo_t)s2khash, PGP::AlgorithmKeyLength((tmcg_openpgp_skalgo_t)skalgo), PASSPHRASE, salt, true, count, kek);
	ad.push_back(0xC3); ad.push_back(5); ad.push_back(skalgo); ad.push_back(aead);
	gcry_error_t rc = PGP::SymmetricEncryptAEAD(in, kek, (tmcg_openpgp_skalgo_t)skalgo, (tmcg_openpgp_aeadalgo_t)aead, 0, ad, 0, iv, enc);
	if (rc) { err = gcry_strerror(rc); return false; }
	b.push_back(5); b.push_back(skalgo); b.push_back(aead); b.push_back(3); b.push_back(s2khash); app(b, salt); b.push_back(count); app(b, iv); app(b, enc);
	out = pkt(3, b); return true;
}

// ------------------------------------------------------------------ opening a message the way an application does
struct OpenCtx { int esk = 0; std::shared_ptr<Recipient> R; SOct direct; };   // esk: 0 direct session key, 1 PKESK, 2 SKESK
struct MsgRes { bool parsed = false, gotkey = false, decrypted = false; Oct plain; };
inline MsgRes open_message(const Oct &bytes, const OpenCtx &oc) {
	MsgRes R; TMCG_OpenPGP_Message *msg = nullptr;
	bool ok = accepted([&] { return PGP::MessageParse(bytes, 0, msg); });
	if (!ok) { delete msg; return R; }
	R.parsed = true; SOct seskey;
	if (oc.esk == 0) { seskey = oc.direct; R.gotkey = true; }
	else if (oc.esk == 1) {
		for (size_t i = 0; i < msg->PKESKs.size() && !R.gotkey; i++) { const TMCG_OpenPGP_PKESK *e = msg->PKESKs[i]; seskey.clear(); R.gotkey = accepted([&] { return oc.R->prv->Decrypt(e, 0, seskey); }); }
	} else {
		for (size_t i = 0; i < msg->SKESKs.size() && !R.gotkey; i++) {
			const TMCG_OpenPGP_SKESK *e = msg->SKESKs[i]; SOct kek; size_t kl = PGP::AlgorithmKeyLength(e->skalgo);
			if (!kl || e->s2k_salt.size() != 8) continue;
			bool iter = e->s2k_type == TMCG_OPENPGP_STRINGTOKEY_ITERATED;
			if (!iter && e->s2k_type != TMCG_OPENPGP_STRINGTOKEY_SALTED) continue;      // simple S2K: forbidden for SKESK
			if (iter && e->s2k_count > 0x60) continue;                                   // application limit on the work factor (keeps the sweep cheap)
			PGP::S2KCompute(e->s2k_hashalgo, kl, PASSPHRASE, e->s2k_salt, iter, e->s2k_count, kek);
			if (kek.size() != kl) continue;
			if (e->version == 4) { if (e->encrypted_key.size()) continue; seskey.clear(); seskey.push_back(e->skalgo); seskey.insert(seskey.end(), kek.begin(), kek.end()); R.gotkey = true; }
			else if (e->version == 5) {
				Oct ad, out; ad.push_back(0xC3); ad.push_back(e->version); ad.push_back(e->skalgo); ad.push_back(e->aeadalgo);
				gcry_error_t rc = 1; accepted([&] { rc = PGP::SymmetricDecryptAEAD(e->encrypted_key, kek, e->skalgo, e->aeadalgo, 0, e->iv, ad, 0, out); return true; });
				if (!rc) { seskey.assign(out.begin(), out.end()); R.gotkey = true; }
			}
		}
	}
	if (R.gotkey) R.decrypted = accepted([&] { return msg->Decrypt(seskey, 0, R.plain); });
	delete msg; return R;
}

// SEIPD with the library's functions as in its own test: prefix, plaintext || MDC packet, AES-256 CFB
inline bool make_seipd(const Oct &plain, SOct &seskey, Oct &seipd, Oct &mdcpkt, std::string &err) {
	Oct prefix, enc, tmp, hash, mh, litmdc;
	SOct sk0;
	gcry_error_t rc = PGP::SymmetricEncryptAES256(plain, sk0, prefix, true, tmp);     // yields a fresh prefix
	if (rc) { err = gcry_strerror(rc); return false; }
	mh = cat(prefix, plain); mh.push_back(0xD3); mh.push_back(0x14);
	PGP::HashCompute(TMCG_OPENPGP_HASHALGO_SHA1, mh, hash); PGP::PacketMdcEncode(hash, mdcpkt);
	litmdc = cat(plain, mdcpkt);
	rc = PGP::SymmetricEncryptAES256(litmdc, seskey, prefix, false, enc);              // seskey: empty -> generated, 32 octets -> used
	if (rc) { err = gcry_strerror(rc); return false; }
	PGP::PacketSeipdEncode(enc, seipd); return true;
}

// CFB + MDC with any cipher through libgcrypt (what other implementations send)
inline bool make_seipd_foreign(int skalgo, const Oct &plain, Rng &r, SOct &seskey, Oct &seipd, std::string &err) {
	int ga = PGP::AlgorithmSymGCRY((tmcg_openpgp_skalgo_t)skalgo); size_t bs = PGP::AlgorithmIVLength((tmcg_openpgp_skalgo_t)skalgo), ks = PGP::AlgorithmKeyLength((tmcg_openpgp_skalgo_t)skalgo);
	if (!ga || !bs || !ks || gcry_cipher_test_algo(ga)) { err = "cipher not offered by libgcrypt"; return false; }
	Oct key = gen_bin(ks, r), prefix = gen_bin(bs, r); prefix.push_back(prefix[bs - 2]); prefix.push_back(prefix[bs - 1]);
	Oct mh = cat(prefix, plain); mh.push_back(0xD3); mh.push_back(0x14);
	unsigned char dg[20]; gcry_md_hash_buffer(GCRY_MD_SHA1, dg, mh.data(), mh.size());
	Oct pt = cat(prefix, plain); pt.push_back(0xD3); pt.push_back(0x14); pt.insert(pt.end(), dg, dg + 20);
	gcry_cipher_hd_t hd; gcry_error_t rc = gcry_cipher_open(&hd, ga, GCRY_CIPHER_MODE_CFB, 0);
	if (rc) { err = gcry_strerror(rc); return false; }
	rc = gcry_cipher_setkey(hd, key.data(), ks); if (!rc) rc = gcry_cipher_setiv(hd, nullptr, 0);
	Oct ct(pt.size()); if (!rc) rc = gcry_cipher_encrypt(hd, ct.data(), ct.size(), pt.data(), pt.size());
	gcry_cipher_close(hd);
	if (rc) { err = gcry_strerror(rc); return false; }
	size_t sum = 0; seskey.clear(); seskey.push_back(skalgo); for (auto c : key) { seskey.push_back(c); sum += c; } seskey.push_back((sum >> 8) & 0xFF); seskey.push_back(sum & 0xFF);
	PGP::PacketSeipdEncode(ct, seipd); return true;
}

// independent reading of the AEAD chunk format (draft-ietf-openpgp-rfc4880bis-06, 5.16): nonce_i = IV xor i
inline bool ref_aead_decrypt(const Oct &ct, const Oct &key, int skalgo, int aead, int chunkoct, const Oct &iv, Oct &out) {
	int ga = PGP::AlgorithmSymGCRY((tmcg_openpgp_skalgo_t)skalgo); gcry_cipher_hd_t hd;
	if (gcry_cipher_open(&hd, ga, aead == 1 ? GCRY_CIPHER_MODE_EAX : GCRY_CIPHER_MODE_OCB, 0)) return false;
	bool ok = !gcry_cipher_setkey(hd, key.data(), key.size());
	size_t cd = (size_t)1 << (chunkoct + 6), p = 0, ivl = iv.size(); uint64_t idx = 0, total = 0;
	auto step = [&](const unsigned char *c, size_t n, const unsigned char *tag, bool final) {
		unsigned char nonce[16]; memcpy(nonce, iv.data(), ivl); for (int i = 0; i < 8; i++) nonce[ivl - 1 - i] ^= (idx >> (8 * i)) & 0xFF;
		unsigned char ad[21] = {0xD4, 1, (unsigned char)skalgo, (unsigned char)aead, (unsigned char)chunkoct}; for (int i = 0; i < 8; i++) ad[5 + i] = (idx >> (8 * (7 - i))) & 0xFF;
		if (final) for (int i = 0; i < 8; i++) ad[13 + i] = (total >> (8 * (7 - i))) & 0xFF;
		if (gcry_cipher_setiv(hd, nonce, ivl) || gcry_cipher_authenticate(hd, ad, final ? 21 : 13) || gcry_cipher_final(hd)) return false;
		Oct pt(n ? n : 1); if (gcry_cipher_decrypt(hd, pt.data(), n, n ? c : nullptr, n)) return false;
		if (gcry_cipher_checktag(hd, tag, 16)) return false;
		out.insert(out.end(), pt.begin(), pt.begin() + n); return true;
	};
	if (ct.size() < 33) ok = false;
	size_t body = ok ? ct.size() - 16 : 0;
	while (ok && body > cd + 16) { ok = step(&ct[p], cd, &ct[p + cd], false); p += cd + 16; body -= cd + 16; idx++; total += cd; }
	if (ok) { size_t n = body - 16; ok = step(&ct[p], n, &ct[p + n], false); p += body; idx++; total += n; }
	if (ok) ok = step(nullptr, 0, &ct[p], true);
	gcry_cipher_close(hd); return ok;
}

inline bool enc_judged(const std::string &reg) {
	static const std::set<std::string> j = {"seipd.prefix", "seipd.data", "seipd.mdc", "seipd.body", "aead.ad", "aead.iv", "aead.ct", "aead.tag", "aead.final_tag",
		"pkesk.mpi_val", "pkesk.x25519_last_octet", "pkesk.wrapped", "pkesk.wraplen", "skesk.skalgo", "skesk.aead", "skesk.s2k", "skesk.salt", "skesk.count", "skesk.iv", "skesk.esk", "skesk.tag"};
	return j.count(reg) > 0;
}

struct EncCase { std::string kind, esk; int skalgo = 9, aead = 0, chunk = 0; long len = 0; bool lit = false; };

inline void structural(const std::string &kind, const std::string &name, const Oct &msgbytes, const OpenCtx &oc, const std::string &cj, Stats &st) {
	MsgRes m = open_message(msgbytes, oc); st.evals++; count("struct/" + kind + "/" + name);
	if (m.decrypted) viol("C20/tamper-accepted/" + kind + "/struct." + name, "structurally tampered message (" + name + ") decrypted without error", J().kv("tampered_hex", hexs(msgbytes, 8192)).kv("plain_hex", hexs(m.plain, 512)).raw("ctx", cj).str());
	st.distinct.insert(kind + "/struct/" + name);
}

inline void run_enc(long &kc) {
	std::vector<EncCase> cases;
	auto add = [&](const std::string &kind, const std::string &esk, int sk, int aead, int chunk, long len, bool lit) { EncCase c; c.kind = kind; c.esk = esk; c.skalgo = sk; c.aead = aead; c.chunk = chunk; c.len = len; c.lit = lit; cases.push_back(c); };
	// SEIPD: session key transport x plaintext lengths
	{ const char *esks[] = {"direct", "pkesk-rsa1024", "pkesk-rsa2048", "pkesk-elg1024", "pkesk-ecdh-p256", "pkesk-ecdh-p384", "pkesk-ecdh-cv25519", "skesk4-salted", "skesk4-iterated", "skesk5-eax", "skesk5-ocb"};
	  long lens[] = {0, 1, 15, 16, 17, 100, 1000, 4096, 70000}; int i = 0;
	  for (const char *e : esks) { int n = g_thorough ? 9 : 2; for (int j = 0; j < n; j++) { add("seipd", e, 9, 0, 0, lens[(i * 2 + j) % 9], true); } i++; }
	  if (g_thorough) { const char *e2[] = {"pkesk-elg1536"}; for (const char *e : e2) add("seipd", e, 9, 0, 0, 333, true); } }
	// AEAD: ciphers x modes (rotating chunk size), then chunk boundaries
	{ int sks[] = {7, 8, 9, 10, 11, 12, 13}; int i = 0;
	  for (int sk : sks) for (int ae = 1; ae <= 2; ae++) { int c = i % 4; long cd = 64L << c; add("aead", "direct", sk, ae, c, cd * (1 + i % 3) + (i % 3) - 1, false); i++; }
	  std::vector<int> chunks = g_thorough ? std::vector<int>{0, 1, 2, 3, 4, 6, 8, 10} : std::vector<int>{0, 1, 3};
	  std::vector<int> ms = g_thorough ? std::vector<int>{1, 2, 3, 4, 5, 8, 9} : std::vector<int>{1, 2, 3, 4, 5};
	  for (int ae = 1; ae <= 2; ae++) for (int c : chunks) for (int m : ms) for (int dlt = -1; dlt <= 1; dlt++) {
		long cd = 64L << c, len = cd * m + dlt; if (len > 300000) continue; add("aead", "direct", 9, ae, c, len, false); }
	  add("aead", "direct", 9, 2, 0, 1, false); add("aead", "direct", 9, 1, 0, 1, false); add("aead", "direct", 7, 2, 16, 1000, true); add("aead", "direct", 9, 1, 10, 100000, true);
	  add("aead", "skesk5-ocb", 9, 2, 2, 700, true); add("aead", "skesk5-eax", 7, 1, 1, 300, true); add("aead", "pkesk-rsa1024", 9, 2, 0, 200, true); add("aead", "pkesk-ecdh-cv25519", 8, 1, 0, 130, true); }
	// SED (no integrity protection) and foreign ciphers with MDC
	add("sed", "direct", 9, 0, 0, 100, true); add("sed", "pkesk-rsa1024", 9, 0, 0, 1000, true);
	{ int sks[] = {1, 2, 3, 4, 7, 8, 10, 11, 12, 13}; int i = 0; for (int sk : sks) { add("cfb-foreign", "direct", sk, 0, 0, 20 + 37 * i, true); i++; } }

	for (auto &c : cases) {
		long me = kc++;
		J d; d.kv("kind", c.kind).kv("esk", c.esk).kv("cipher", skname(c.skalgo)); if (c.aead) d.kv("aead", aeadname(c.aead)).kv("chunk_octet", c.chunk); d.kv("plaintext_len", (long long)c.len).kv("literal_packet", c.lit);
		if (!case_begin(me, d.str())) continue;
		Stats st; Rng r = case_rng(me, 23), rl = case_rng(me, 24); tl_rng = &rl; g_vtime = NOW0;
		std::string kind = c.kind, err;
		// plaintext: literal packet or raw octets of an exact length
		Oct data = gen_bin(c.len, r), plain;
		if (c.lit) PGP::PacketLitEncode(data, plain); else plain = data;
		OpenCtx oc; SOct seskey; Oct eskpkt, datapkt, mdcpkt; bool built = true;
		if (c.esk.compare(0, 5, "pkesk") == 0) {
			oc.esk = 1; oc.R = recipient(c.esk.substr(6));
			if (!oc.R->ok) { count("skipped/key-unavailable/" + c.esk); tl_rng = nullptr; case_end(d.str(), false, J().kv("skipped", oc.R->err).str()); continue; }
		} else if (c.esk.compare(0, 5, "skesk") == 0) oc.esk = 2;
		size_t kl = PGP::AlgorithmKeyLength((tmcg_openpgp_skalgo_t)c.skalgo);
		if (c.esk == "skesk4-salted") built = make_skesk4(c.skalgo, 1, 8, 0, r, eskpkt, seskey);
		else if (c.esk == "skesk4-iterated") built = make_skesk4(c.skalgo, 3, 10, 0x21, r, eskpkt, seskey);
		else if (kind == "aead" || kind == "cfb-foreign") { Oct k = gen_bin(kl, r); seskey.assign(k.begin(), k.end()); }
		// data packet
		if (built && kind == "seipd") built = make_seipd(plain, seskey, datapkt, mdcpkt, err);
		else if (built && kind == "sed") { Oct prefix, enc; gcry_error_t rc = PGP::SymmetricEncryptAES256(plain, seskey, prefix, true, enc); built = !rc; if (rc) err = gcry_strerror(rc); PGP::PacketSedEncode(enc, datapkt); }
		else if (built && kind == "cfb-foreign") built = make_seipd_foreign(c.skalgo, plain, r, seskey, datapkt, err);
		else if (built && kind == "aead") {
			Oct ad, iv, enc; ad.push_back(0xD4); ad.push_back(1); ad.push_back(c.skalgo); ad.push_back(c.aead); ad.push_back(c.chunk); for (int i = 0; i < 8; i++) ad.push_back(0);
			std::vector<std::string> nlog; g_nonce_log = &nlog;
			gcry_error_t rc = PGP::SymmetricEncryptAEAD(plain, seskey, (tmcg_openpgp_skalgo_t)c.skalgo, (tmcg_openpgp_aeadalgo_t)c.aead, c.chunk, ad, 0, iv, enc);
			g_nonce_log = nullptr;
			built = !rc; if (rc) err = gcry_strerror(rc);
			if (built) { check_nonces("encrypt", nlog, iv, d.str()); st.evals++; }
			if (built) PGP::PacketAeadEncode((tmcg_openpgp_skalgo_t)c.skalgo, (tmcg_openpgp_aeadalgo_t)c.aead, c.chunk, iv, enc, datapkt);
		}
		// session key transport
		SOct transport = seskey;                       // what the recipient must recover
		if (built && kind == "aead" && oc.esk) { transport.clear(); transport.push_back(c.skalgo); size_t sum = 0; for (auto x : seskey) { transport.push_back(x); sum += x; } transport.push_back((sum >> 8) & 0xFF); transport.push_back(sum & 0xFF); }
		if (built && oc.esk == 1) built = make_pkesk(*oc.R, transport, (me % 2) == 0, eskpkt, err);
		else if (built && c.esk == "skesk5-eax") built = make_skesk5(c.skalgo, 1, 8, 0x10, transport, r, eskpkt, err);
		else if (built && c.esk == "skesk5-ocb") built = make_skesk5(c.skalgo, 2, 9, 0x05, transport, r, eskpkt, err);
		if (oc.esk == 0) oc.direct = seskey;
		if (!built) {
			if (kind == "cfb-foreign" || (kind == "aead" && c.len == 0)) { count("skipped/" + kind + "/" + skname(c.skalgo)); tl_rng = nullptr; case_end(d.str(), false, J().kv("not_built", err).str()); continue; }
			viol("C20/positive/" + kind + "-encryption-failed", "the library's encryption functions failed: " + err, d.str()); tl_rng = nullptr; case_end(d.str(), false, ""); continue;
		}
		Oct msgbytes = cat(eskpkt, datapkt);
		Layout L = walk(msgbytes); size_t bs = PGP::AlgorithmIVLength((tmcg_openpgp_skalgo_t)c.skalgo);
		if (kind == "seipd" || kind == "cfb-foreign") relabel_seipd(L, bs);
		std::string cj = J().raw("case", d.str()).kv("message_hex", hexs(msgbytes, 8192)).kv("session_key_hex", hex((const unsigned char *)&seskey[0], seskey.size())).kv("plaintext_hex", hexs(plain, 1024)).str();
		count("art/" + kind + "/" + c.esk); count(std::string("art_cipher/") + kind + "/" + skname(c.skalgo));
		if (c.aead) { count(std::string("art_aead/") + aeadname(c.aead) + "/chunk_octet_" + std::to_string(c.chunk)); }
		// expected plaintext after Decrypt: SEIPD keeps the MDC packet at the end
		Oct expect = plain; if (kind == "seipd") app(expect, mdcpkt);
		std::vector<std::string> dlog; if (kind == "aead" && oc.esk == 0) g_nonce_log = &dlog;
		MsgRes p = open_message(msgbytes, oc); st.evals++;
		g_nonce_log = nullptr;
		if (kind == "aead" && oc.esk == 0 && p.decrypted) { const Region *ivr = L.find("aead.iv"); if (ivr) check_nonces("decrypt", dlog, sub(msgbytes, ivr->off, ivr->len), cj); }
		if (kind == "sed") {
			st.reached = p.parsed; count("sed/refusal-checked");
			if (p.decrypted) viol("C20/sed/accepted", "Decrypt accepted a Symmetrically Encrypted Data packet (no integrity protection)", cj);
			if (!p.parsed || !p.gotkey) viol("C20/sed/not-reached", "the SED message was not parsed / the session key not recovered, refusal not observed", cj);
		} else {
			bool same = p.decrypted && (kind == "cfb-foreign" ? (p.plain.size() == plain.size() + 22 && std::equal(plain.begin(), plain.end(), p.plain.begin())) : p.plain == expect);
			if (!same) viol("C20/positive/" + kind + "-roundtrip", std::string("the library does not decrypt what was encrypted for it (parsed=") + (p.parsed ? "1" : "0") + " key=" + (p.gotkey ? "1" : "0") + " decrypted=" + (p.decrypted ? "1" : "0") + ")", cj);
			else { st.reached = true; count("positive/" + kind); }
			// the decrypted literal packet parses back to the data
			if (same && c.lit) { TMCG_OpenPGP_Message *m2 = nullptr; bool ok = accepted([&] { return PGP::MessageParse(p.plain, 0, m2); }); st.evals++;
				if (data.empty() && !ok) count("observed/empty-literal-packet-refused-by-parser");      // PacketDecodeTag11 refuses "no data" by design: an encoding matter (C19), the decrypted octets were equal
				else if (!ok || !m2 || m2->literal_data != data) viol("C20/positive/" + kind + "-literal", "decrypted packet sequence does not parse back to the original data", cj); else count("positive/" + kind + "-literal");
				delete m2; }
		}
		if (st.reached && kind != "sed") {
			std::string sem0 = hex(p.plain);
			sweep(kind, "message", msgbytes, L, enc_judged, sem0, [&](const Oct &t) { Acc A; MsgRes m = open_message(t, oc); A.accepted = m.decrypted; if (m.decrypted) A.sem = hex(m.plain); return A; }, r, cj, st);
			// wrong session key
			if (oc.esk == 0) for (size_t i = 0; i < seskey.size(); i += (seskey.size() > 8 ? 5 : 1)) {
				OpenCtx o2 = oc; o2.direct[i] ^= 0x01; MsgRes m = open_message(msgbytes, o2); st.evals++; count("flip/" + kind + "/session_key");
				if (m.decrypted) viol("C20/tamper-accepted/" + kind + "/session_key", "decryption succeeded with a modified session key", J().kv("offset", (long long)i).raw("ctx", cj).str());
			}
			// ---- structural tampers on the data packet
			const Region *hd = L.find(kind == "aead" ? "aead.hdr" : "seipd.hdr");
			if (hd) {
				size_t b0 = hd->off + hd->len; Oct body(msgbytes.begin() + b0, msgbytes.end());
				auto rebuild = [&](int tag, const Oct &b) { return cat(eskpkt, pkt(tag, b)); };
				if (kind == "aead") {
					size_t ivl = c.aead == 1 ? 16 : 15, h = 4 + ivl, cd = (size_t)1 << (c.chunk + 6); Oct head(body.begin(), body.begin() + h), ct(body.begin() + h, body.end());
					size_t nfull = 0; { size_t bd = ct.size() - 16; while (bd > cd + 16) { nfull++; bd -= cd + 16; } }
					size_t lastlen = ct.size() - 16 - nfull * (cd + 16);      // last chunk incl. its tag
					auto chunk = [&](size_t i) { return i < nfull ? sub(ct, i * (cd + 16), cd + 16) : sub(ct, nfull * (cd + 16), lastlen); };
					size_t nch = nfull + 1; Oct ftag = sub(ct, ct.size() - 16, 16);
					auto join = [&](const std::vector<Oct> &chs, const Oct &ft) { Oct o(head); for (auto &x : chs) app(o, x); app(o, ft); return rebuild(20, o); };
					std::vector<Oct> chs; for (size_t i = 0; i < nch; i++) chs.push_back(chunk(i));
					structural(kind, "final-tag-dropped", join(chs, Oct()), oc, cj, st);
					structural(kind, "final-tag-zero", join(chs, Oct(16, 0)), oc, cj, st);
					structural(kind, "final-tag-replaced-by-last-chunk-tag", join(chs, sub(chs.back(), chs.back().size() - 16, 16)), oc, cj, st);
					{ Oct o(body); o.pop_back(); structural(kind, "last-octet-dropped", rebuild(20, o), oc, cj, st); o = body; o.push_back(0); structural(kind, "octet-appended", rebuild(20, o), oc, cj, st); }
					{ auto v = chs; v.pop_back(); if (!v.empty()) structural(kind, "last-chunk-dropped", join(v, ftag), oc, cj, st); else structural(kind, "only-chunk-dropped", join(v, ftag), oc, cj, st); }
					if (nch >= 2) {
						{ auto v = chs; v.erase(v.begin()); structural(kind, "first-chunk-dropped", join(v, ftag), oc, cj, st); }
						{ auto v = chs; v.insert(v.begin(), v[0]); structural(kind, "first-chunk-duplicated", join(v, ftag), oc, cj, st); }
						if (nfull >= 2) { auto v = chs; std::swap(v[0], v[1]); structural(kind, "chunks-0-1-swapped", join(v, ftag), oc, cj, st); }
						if (nfull >= 4) { auto v = chs; std::swap(v[0], v[3]); structural(kind, "chunks-0-3-swapped", join(v, ftag), oc, cj, st); v = chs; std::swap(v[1], v[2]); structural(kind, "chunks-1-2-swapped", join(v, ftag), oc, cj, st); }
						if (nfull >= 2) { auto v = chs; for (size_t i = 0; i < 16; i++) std::swap(v[0][cd + i], v[1][cd + i]); structural(kind, "tags-0-1-swapped", join(v, ftag), oc, cj, st); }
						if (nfull >= 1 && lastlen == cd + 16) { auto v = chs; std::swap(v[nfull - 1], v[nfull]); structural(kind, "last-two-chunks-swapped", join(v, ftag), oc, cj, st); }
					}
					{ Oct o(body); o[3] ^= 0x01; structural(kind, "chunk-size-octet-changed", rebuild(20, o), oc, cj, st); }
					{ Oct o(body); o[2] = o[2] == 1 ? 2 : 1; if (o[2] == 1) o.insert(o.begin() + 4, 0); else o.erase(o.begin() + 4); structural(kind, "aead-mode-exchanged", rebuild(20, o), oc, cj, st); }
					// independent reading of the chunk format (observation, see notes): recorded, not judged
					{ Oct key(seskey.begin(), seskey.end()), iv(body.begin() + 4, body.begin() + 4 + ivl), out;
					  bool ro = ref_aead_decrypt(ct, key, c.skalgo, c.aead, c.chunk, iv, out) && out == plain;
					  count(std::string("aead_ref/") + (nch >= 3 ? "3+chunks" : nch == 2 ? "2chunks" : "1chunk") + (ro ? "/agrees" : "/disagrees")); }
				} else {
					Oct enc(body.begin() + 1, body.end());
					{ Oct o(body); o.resize(o.size() - 22); structural(kind, "mdc-packet-dropped", rebuild(18, o), oc, cj, st); }
					{ Oct o(body); o.pop_back(); structural(kind, "last-octet-dropped", rebuild(18, o), oc, cj, st); o = body; o.push_back(0x55); structural(kind, "octet-appended", rebuild(18, o), oc, cj, st); }
					if (enc.size() >= bs + 2 + 22 + 2 * bs) { Oct o(body); size_t a = 1 + bs + 2; for (size_t i = 0; i < bs; i++) std::swap(o[a + i], o[a + bs + i]); structural(kind, "two-blocks-swapped", rebuild(18, o), oc, cj, st); }
					structural(kind, "retagged-as-SED", rebuild(9, enc), oc, cj, st);
					{ Oct o(body); o[0] = 2; structural(kind, "version-2", rebuild(18, o), oc, cj, st); }
				}
			}
			// ---- second judge for SEIPD (RFC 4880): gpg --override-session-key
			if (kind == "seipd" && c.lit) {
				mkdir("c20gpg", 0700); std::string fn = "c20gpg/m" + std::to_string(me);
				Oct forgpg = msgbytes;
				if (eskpkt.empty()) { Oct sk4; SOct dummy; Rng r2 = case_rng(me, 25); make_skesk4(9, 3, 8, 0, r2, sk4, dummy); forgpg = cat(sk4, datapkt); }   // gpg wants some ESK packet in front
				SOct raw = seskey; std::string keyhex;
				if (raw.size() == kl + 3) keyhex = hex((const unsigned char *)&raw[1], kl); else if (raw.size() == kl) keyhex = hex((const unsigned char *)&raw[0], kl);
				if (!keyhex.empty() && write_file(fn + ".pgp", forgpg) && write_file(fn + ".dat", data))
					record(J().kv("k", "gpgdecrypt").kv("dir", g_cwd).kv("msg", fn + ".pgp").kv("data", fn + ".dat").kv("seskey", "9:" + keyhex).kv("esk", c.esk).str());
			}
		}
		st.sample = J().raw("case", d.str()).kv("message_octets", (long long)msgbytes.size()).kv("oracle_evaluations", st.evals).str();
		tl_rng = nullptr; g_vtime = NOW0;
		case_end(d.str(), st.reached, st.sample, st.evals, (long long)st.distinct.size());
	}
}

} // namespace c20
